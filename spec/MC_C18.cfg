SPECIFICATION Spec
CONSTANT WithDup = FALSE
INVARIANT ClausesHold
CHECK_DEADLOCK FALSE
