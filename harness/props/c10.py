"""C10 - reference maps, Jacobians, facet maps and normals are mutually consistent.

V : exact clauses on integer-coordinate cells (F at the reference vertices, G at the reference-facet vertices, detDF of
    affine simplices as exact integers; outward normals as an exact sign).
L : laws with Fx tolerance TolGeom on straight AND curved second-order meshes: inverse composes, Jacobian = derivative of
    the recorded map (central differences, exact for degree <= 2), DF.invDF = I, det, facet map lies on the owner's
    local facet, surface factor, unit / orthogonal normals, divergence theorem (global and cell by cell), affine =
    isoparametric on straight simplices, shared = per-cell points, subset argument = rows of the full result
    (any order, repetitions, dtypes; call sequences on ONE mapping object, so the Jacobian cache is exercised).
Every verdict by TLC: spec/TraceC10.tla -> Mappings.tla (GeomNum, Numeric, Fx).
"""
import os

import numpy as np

from .. import universe as U
from ..core import guarded as _core_guarded, MachineryError
from ..numeric import fx_req
from ..project import exact_ints, find_scale, ids
from .c02 import ORIENT_REV, SECOND, box_delaunay


def guarded(fn, seconds):
    """core.guarded with a generous alarm; an expired alarm says something about the MACHINE (load, a slow box), not
    about the library -- none of the calls driven here can loop -- so it is a machinery failure (exit 2), never an
    observation a clause could turn into a VIOLATION."""
    res, err = _core_guarded(fn, 10 * seconds)
    if err == 'Timeout':
        raise MachineryError('per-call alarm expired (%d s): machine too slow or overloaded' % (10 * seconds))
    return res, err

RULE = ('scenario = one mesh with one mapping object (affine / isoparametric / second-order curved) observed at dyadic '
        'reference points, or one sequence of calls on one mapping object for the argument-shape laws; non-trivial = '
        'mesh has >= 2 cells; distinct = distinct recipe.')

NV = {'line': 2, 'tri': 3, 'quad': 4, 'tet': 4, 'hex': 8, 'wedge': 6}
DIM = {'line': 1, 'tri': 2, 'quad': 2, 'tet': 3, 'hex': 3, 'wedge': 3}
D = 8
# reference points (numerators over D); every point and its +-1/D neighbours stay >= 1/D inside the reference cell
XREF = {'line': [[2], [5]], 'tri': [[2, 2], [3, 1], [1, 4]], 'quad': [[2, 3], [5, 1], [4, 6]],
        'tet': [[2, 2, 1], [1, 3, 2], [1, 1, 4]], 'hex': [[2, 3, 5], [5, 1, 2]], 'wedge': [[2, 2, 3], [1, 4, 5]]}
XFACET = {1: [[2], [5]], 2: [[2, 2], [1, 4]]}           # by facet dimension; quadrilateral facets use the same
P1 = {'line': ('ElementLineP1', None), 'tri': ('ElementTriP1', 'ElementLineP1'), 'tet': ('ElementTetP1', 'ElementTriP1')}


# ------------------------------------------------------------------------------------------------ meshes / mappings
def build_mesh(v):
    import skfem
    from dataclasses import replace
    kind = v['kind']
    kw = {'sort_t': False} if kind == 'tri' else {}
    if v.get('mapping') == 'noaffine':               # a simplex mesh that asks for the isoparametric implementation
        kw['affine'] = False
    unit = 2.0 ** int(v.get('pow2', 0))              # the whole geometry in another length unit (exact scaling)
    m = U.make(kind, np.asarray(v['p'], dtype=np.float64) * unit, v['t'], **kw)
    if v.get('refine'):
        m = m.refined(int(v['refine']))
    if v.get('second'):
        m = getattr(skfem, SECOND[kind]).from_mesh(m)
        if v.get('curve'):
            P = np.array(m.p, dtype=np.float64)
            nv = int(np.max(m.t[:NV[kind]])) + 1
            for i in range(nv, P.shape[1]):                  # dyadic displacement of the non-vertex nodes
                for c in range(P.shape[0]):
                    P[c, i] += unit * (((i * (c + 2) + int(v['curve'])) % 5) - 2) / 128.0
            m = replace(m, doflocs=P)
    return m


def build_mapping(mesh, kind, which):
    import skfem
    from skfem.mapping import MappingAffine, MappingIsoparametric
    if which in ('default', 'noaffine'):
        mp = mesh._mapping()
    elif which == 'affine':
        mp = MappingAffine(mesh)
    else:
        e, b = P1[kind]
        mp = MappingIsoparametric(mesh, getattr(skfem, e)(), getattr(skfem, b)() if b else None)
    return mp, ('affine' if type(mp).__name__ == 'MappingAffine' else 'iso')


def fxa(a):
    """nested lists of Fx limbs for an array (any shape)."""
    a = np.asarray(a, dtype=np.float64)
    if a.ndim == 0:
        return fx_req(float(a))
    return [fxa(x) for x in a]


def mesh_tables(mesh, kind, with_facets, back=1.0):
    """`back` = 2^-pow2 brings the coordinates back to the unit in which they are small integers (exact)."""
    P0 = np.asarray(mesh.p, dtype=np.float64) * back
    sc = find_scale(P0, 8)
    if sc is None:
        raise MachineryError('generated coordinates are not dyadic')
    p = [[int(x) for x in col] for col in np.rint(P0 * sc).T]
    out = {'scale': int(sc), 'p': p, 'cells': ids(mesh.t[:NV[kind]])}
    rd = mesh.elem.refdom
    if with_facets:
        out.update(facets=ids(mesh.facets), t2f=ids(mesh.t2f), f2t=ids(mesh.f2t),
                   lf=[[int(i) + 1 for i in f] for f in rd.facets])
    else:
        out.update(facets=[], t2f=[], f2t=[], lf=[])
    return out, sc


def geom_event(v):
    kind = v['kind']
    ev = {'a': 'Geom', 'kind': kind, 'map': '', 'straight': 0 if v.get('curve') else 1, 'err': '', 'D': D,
          'X': XREF[kind], 'Xf': [], 'refv': [], 'C': [], 'Fa': [], 'scale': 1, 'p': [], 'cells': [], 'facets': [],
          't2f': [], 'f2t': [], 'lf': []}

    def call():
        mesh = build_mesh(v)
        mp, mapname = build_mapping(mesh, kind, v['mapping'])
        ev['map'] = mapname
        d = DIM[kind]
        rd = mesh.elem.refdom
        brd = rd.brefdom if kind not in ('line', 'wedge') else None
        back = 2.0 ** (-int(v.get('pow2', 0)))      # lengths are logged in the unit of the integer coordinates
        tabs, sc = mesh_tables(mesh, kind, brd is not None, back)
        ev.update(tabs)
        ev['refv'] = [[int(x) for x in col] for col in np.asarray(rd.p).T]
        nt = mesh.t.shape[1]
        allc = np.arange(nt, dtype=np.int64)
        X = np.array(XREF[kind], dtype=np.float64).T / D
        h = 1.0 / D
        F = mp.F(X)
        Y = mp.invF(F, tind=allc)
        Z = mp.F(Y, tind=allc) * back
        F = F * back
        DF = mp.DF(X) * back
        iDF = mp.invDF(X) / back
        det = mp.detDF(X) * back ** d
        Fp = [mp.F(X + h * np.eye(d)[:, [j]]) * back for j in range(d)]
        Fm = [mp.F(X - h * np.eye(d)[:, [j]]) * back for j in range(d)]
        FV = mp.F(np.asarray(rd.p, dtype=np.float64)) * back
        detI = exact_ints(det[:, 0] * sc ** d) if mapname == 'affine' else None
        C = []
        for k in range(nt):
            C.append({'F': fxa(F[:, k, :].T), 'DF': fxa(np.moveaxis(DF[:, :, k, :], 2, 0)),
                      'iDF': fxa(np.moveaxis(iDF[:, :, k, :], 2, 0)), 'det': fxa(det[k]),
                      'Y': fxa(Y[:, k, :].T), 'Z': fxa(Z[:, k, :].T),
                      'Fp': [[fx_list(Fp[j][:, k, q]) for j in range(d)] for q in range(X.shape[1])],
                      'Fm': [[fx_list(Fm[j][:, k, q]) for j in range(d)] for q in range(X.shape[1])],
                      'FV': fxa(FV[:, k, :].T),
                      'detI': [detI[k]] if detI is not None else []})
        ev['C'] = C
        if brd is not None:
            df = d - 1
            xf = XFACET[df]
            ev['Xf'] = xf
            Xf = np.array(xf, dtype=np.float64).T / D
            nf = mesh.facets.shape[1]
            allf = np.arange(nf, dtype=np.int64)
            G = mp.G(Xf)
            dG = mp.detDG(Xf) * back ** df
            Gp = [mp.G(Xf + h * np.eye(df)[:, [j]]) * back for j in range(df)]
            Gm = [mp.G(Xf - h * np.eye(df)[:, [j]]) * back for j in range(df)]
            GV = mp.G(np.asarray(brd.p, dtype=np.float64)) * back
            owner = np.asarray(mesh.f2t[0], dtype=np.int64)
            Yf = mp.invF(G, tind=owner)                              # facet_basis.py:94-107
            ZG = mp.F(Yf, tind=owner) * back
            G = G * back
            nrm = mp.normals(Yf, owner, allf, mesh.t2f)
            Fa = []
            for f in range(nf):
                Fa.append({'G': fxa(G[:, f, :].T), 'dG': fxa(dG[f]), 'n': fxa(nrm[:, f, :].T),
                           'Yf': fxa(Yf[:, f, :].T), 'ZG': fxa(ZG[:, f, :].T),
                           'Gp': [[fx_list(Gp[j][:, f, q]) for j in range(df)] for q in range(Xf.shape[1])],
                           'Gm': [[fx_list(Gm[j][:, f, q]) for j in range(df)] for q in range(Xf.shape[1])],
                           'GV': fxa(GV[:, f, :].T)})
            ev['Fa'] = Fa
    _, err = guarded(call, 60)
    if err:
        ev['err'] = err
        ev['C'], ev['Fa'] = [], []
    return ev


def fx_list(a):
    return [fx_req(float(x)) for x in np.asarray(a, dtype=np.float64).ravel()]


def div_event(v):
    kind = v['kind']
    ev = {'a': 'Div', 'kind': kind, 'straight': 0 if v.get('curve') else 1, 'err': '', 'scale': 1, 'p': [], 'cells': [],
          'facets': [], 't2f': [], 'f2t': [], 'lf': [], 'xn': [], 'vol': []}

    def call():
        from skfem import Basis, FacetBasis, Functional
        from skfem.helpers import dot
        mesh = build_mesh(v)
        back = 2.0 ** (-int(v.get('pow2', 0)))
        tabs, sc = mesh_tables(mesh, kind, True, back)
        ev.update(tabs)
        e = mesh.elem()
        order = 6 if v.get('second') else 4
        fb = FacetBasis(mesh, e, intorder=order, facets=np.arange(mesh.facets.shape[1], dtype=np.int64))
        cb = Basis(mesh, e, intorder=order)
        xn = Functional(lambda w: dot(w.x, w.n)).elemental(fb)
        vol = Functional(lambda w: 1.0 + 0.0 * w.x[0]).elemental(cb)
        ev['xn'] = fx_list(np.asarray(xn) * back ** DIM[kind])
        ev['vol'] = fx_list(np.asarray(vol) * back ** DIM[kind])
    _, err = guarded(call, 60)
    if err:
        ev['err'] = err
    return ev


# ------------------------------------------------------------------------------------------------ pair laws
FACET_FNS = ('G', 'detDG', 'normals')


def _call(mp, fn, X, idx, mesh):
    """fn restricted to the cells (facets) idx; X are the reference points of cells (facets)."""
    if fn in ('F', 'DF', 'invDF', 'detDF'):
        return getattr(mp, fn)(X, tind=idx)
    if fn in ('G', 'detDG'):
        return getattr(mp, fn)(X, find=idx)
    if fn == 'invF':
        # the physical points come from the full evaluation; only invF sees the index set
        xall = mp.F(X)
        x = xall if idx is None else np.take(xall, idx, axis=1)
        return mp.invF(x, tind=idx)
    if fn == 'normals':
        # as facet_basis.py:94-107 does for the facets idx, from their first neighbour
        nf = mesh.facets.shape[1]
        find = np.arange(nf, dtype=np.int64) if idx is None else idx
        owner = np.asarray(mesh.f2t[0], dtype=np.int64)
        Yall = mp.invF(mp.G(X), tind=owner)
        tind = owner[find]
        return mp.normals(np.take(Yall, find, axis=1), tind, find, mesh.t2f)
    raise ValueError(fn)


def ent_axis(fn):
    """axis of the result that runs over cells / facets."""
    return {'F': 1, 'DF': 2, 'invDF': 2, 'detDF': 0, 'G': 1, 'detDG': 0, 'invF': 1, 'normals': 1}[fn]


def pair_event(law, fn, note, fa, fb):
    ev = {'a': 'Pair', 'law': law, 'fn': fn, 'note': note, 'errA': '', 'errB': '', 'shapeA': [], 'shapeB': [], 'A': [], 'B': []}
    A, ea = guarded(fa, 30)
    B, eb = guarded(fb, 30)
    ev['errA'], ev['errB'] = ea, eb
    if not ea:
        A = np.asarray(A, dtype=np.float64)
        ev['shapeA'] = [int(s) for s in A.shape]
    if not eb:
        B = np.asarray(B, dtype=np.float64)
        ev['shapeB'] = [int(s) for s in B.shape]
    if not ea and not eb:
        def proj():
            ev['A'] = fx_list(A)
            ev['B'] = fx_list(B)
        _, pe = guarded(proj, 30)
        if pe:
            ev['errA'] = 'Projection:' + pe
    ev['tags'] = {'law': law, 'fn': fn, 'note': note}
    return ev


def idx_array(spec):
    if spec is None:
        return None
    return np.array(spec['ix'], dtype=getattr(np, spec['dtype']))


def pair_events(v):
    """A sequence of calls on ONE mapping object (the cache persists between them)."""
    kind = v['kind']
    out = []
    built, err = guarded(lambda: (lambda m: (m,) + build_mapping(m, kind, v['mapping']))(build_mesh(v)), 60)
    if err:
        return [dict(pair_event(v['law'], 'build', 'build', lambda: (_ for _ in ()).throw(RuntimeError(err)), lambda: 0))]
    mesh, mp, mapname = built
    d = DIM[kind]
    X = np.array(XREF[kind], dtype=np.float64).T / D
    nt, nf = mesh.t.shape[1], (mesh.facets.shape[1] if kind not in ('wedge',) else 0)
    law = v['law']
    if law == 'SubsetCommutes':
        for step in v['steps']:
            fn = step['fn']
            if 'parts' in step:        # results for the parts of a partition (an empty part included) stack to the whole
                Xs = X if fn not in FACET_FNS else np.array(XFACET[d - 1], dtype=np.float64).T / D
                ax = ent_axis(fn)
                parts = [idx_array(pt) for pt in step['parts']]
                note = f"{mapname}:stack{[len(pt) for pt in parts]}"
                out.append(pair_event(law, fn, note,
                                      lambda fn=fn, Xs=Xs, parts=parts, ax=ax:
                                      np.concatenate([_call(mp, fn, Xs, pt, mesh) for pt in parts], axis=ax),
                                      lambda fn=fn, Xs=Xs: _call(mp, fn, Xs, None, mesh)))
                continue
            ix = idx_array(step['idx'])
            Xs = X if fn not in FACET_FNS else np.array(XFACET[d - 1], dtype=np.float64).T / D
            ax = ent_axis(fn)
            note = f"{mapname}:{step['idx']['dtype']}{step['idx']['ix']}"[:60] if step['idx'] else f'{mapname}:None'
            if ix is None:      # None = all
                n_all = nf if fn in FACET_FNS else nt
                out.append(pair_event(law, fn, note, lambda fn=fn, Xs=Xs: _call(mp, fn, Xs, None, mesh),
                                      lambda fn=fn, Xs=Xs, n_all=n_all: _call(mp, fn, Xs, np.arange(n_all, dtype=np.int64), mesh)))
            else:
                out.append(pair_event(law, fn, note, lambda fn=fn, Xs=Xs, ix=ix: _call(mp, fn, Xs, ix, mesh),
                                      lambda fn=fn, Xs=Xs, ix=ix, ax=ax: np.take(_call(mp, fn, Xs, None, mesh), ix, axis=ax)))
    elif law == 'SubsetConstructorAgrees':
        from skfem.mapping import MappingAffine
        full = MappingAffine(mesh)
        for spec in v['subsets']:
            S = idx_array(spec)
            sub = MappingAffine(mesh, tind=S)                 # one object per subset, all methods on it
            tag = f"{spec['dtype']}{spec['ix']}"[:50]
            for fn in ('F', 'DF', 'invDF', 'detDF', 'invF'):
                for own in ('S', 'None'):                      # the method's own tind is ignored (documented)
                    out.append(pair_event(law, fn, f'{tag}|tind={own}',
                                          lambda fn=fn, own=own, S=S: _call(sub, fn, X, S if own == 'S' else None, mesh)
                                          if fn != 'invF' else sub.invF(full.F(X, tind=S), tind=S if own == 'S' else None),
                                          lambda fn=fn, S=S: _call(full, fn, X, S, mesh) if fn != 'invF'
                                          else full.invF(full.F(X, tind=S), tind=S)))
            if kind != 'line' or True:
                Xf = np.array(XFACET[d - 1], dtype=np.float64).T / D if d > 1 else np.zeros((0, 1))
                for k in range(mesh.t2f.shape[0]):             # the k-th local facet of every cell of the subset
                    find = np.asarray(mesh.t2f[k, S], dtype=np.int64)
                    Y = np.tile(X[:, None, :], (1, len(S), 1))
                    out.append(pair_event(law, 'normals', f'{tag}|slot={k}',
                                          lambda find=find, S=S: sub.normals(Y, S, find, mesh.t2f),
                                          lambda find=find, S=S: full.normals(Y, S, find, mesh.t2f)))
                    if d > 1:
                        for fn in ('G', 'detDG'):
                            out.append(pair_event(law, fn, f'{tag}|slot={k}',
                                                  lambda fn=fn, find=find: _call(sub, fn, Xf, find, mesh),
                                                  lambda fn=fn, find=find: _call(full, fn, Xf, find, mesh)))
    elif law == 'SharedVsPerCell':
        for step in v['steps']:
            fn = step['fn']
            ix = idx_array(step['idx'])
            n = nt if ix is None else len(ix)
            X3 = np.tile(X[:, None, :], (1, n, 1))
            note = f"{mapname}:{'None' if ix is None else 'tind'}"
            if fn == 'invF':
                def shared(ix=ix):
                    return mp.F(X, tind=ix)

                def a(ix=ix):
                    return mp.invF(mp.F(X, tind=ix), tind=ix)

                def b(ix=ix, n=n):
                    return np.tile(X[:, None, :], (1, n, 1))
                out.append(pair_event(law, fn, note, a, b))
            else:
                out.append(pair_event(law, fn, note, lambda fn=fn, ix=ix: _call(mp, fn, X, ix, mesh),
                                      lambda fn=fn, ix=ix, X3=X3: _call(mp, fn, X3, ix, mesh)))
    elif law == 'AffineEqualsIsoparametric':
        from skfem.mapping import MappingAffine
        ma = MappingAffine(mesh)
        mi, _ = build_mapping(mesh, kind, 'iso')
        allc = np.arange(nt, dtype=np.int64)
        for fn in ('F', 'DF', 'invDF', 'detDF'):
            out.append(pair_event(law, fn, 'cells', lambda fn=fn: _call(ma, fn, X, None, mesh),
                                  lambda fn=fn: _call(mi, fn, X, None, mesh)))
        out.append(pair_event(law, 'invF', 'cells', lambda: ma.invF(ma.F(X), tind=allc), lambda: mi.invF(ma.F(X), tind=allc)))
        if kind != 'line':
            Xf = np.array(XFACET[d - 1], dtype=np.float64).T / D
            owner = np.asarray(mesh.f2t[0], dtype=np.int64)
            allf = np.arange(mesh.facets.shape[1], dtype=np.int64)
            for fn in ('G', 'detDG'):
                out.append(pair_event(law, fn, 'facets', lambda fn=fn: _call(ma, fn, Xf, None, mesh),
                                      lambda fn=fn: _call(mi, fn, Xf, None, mesh)))
            out.append(pair_event(law, 'normals', 'facets',
                                  lambda: ma.normals(ma.invF(ma.G(Xf), tind=owner), owner, allf, mesh.t2f),
                                  lambda: mi.normals(mi.invF(mi.G(Xf), tind=owner), owner, allf, mesh.t2f)))
        # ... and for index sets (any order, repetitions, full length)
        for step in v.get('steps', []):
            fn = step['fn']
            ix = idx_array(step['idx'])
            Xs = X if fn not in FACET_FNS else np.array(XFACET[d - 1], dtype=np.float64).T / D
            note = f"{step['idx']['dtype']}{step['idx']['ix']}"[:60]
            out.append(pair_event(law, fn, note, lambda fn=fn, Xs=Xs, ix=ix: _call(ma, fn, Xs, ix, mesh),
                                  lambda fn=fn, Xs=Xs, ix=ix: _call(mi, fn, Xs, ix, mesh)))
    return out


# ------------------------------------------------------------------------------------------------ scenarios
def refdom_event(v):
    """The library's reference tables (refdom.py), exact integers."""
    kind = v['kind']
    ev = {'a': 'RefDom', 'kind': kind, 'err': '', 'refv': [], 'lf': [], 'normals': []}

    def call():
        from skfem import refdom as R
        rd = {'line': R.RefLine, 'tri': R.RefTri, 'quad': R.RefQuad, 'tet': R.RefTet, 'hex': R.RefHex,
              'wedge': R.RefWedge}[kind]
        refv = exact_ints(np.asarray(rd.p, dtype=np.float64).T)
        nrm = exact_ints(np.asarray(rd.normals, dtype=np.float64))
        if refv is None or nrm is None:
            raise ValueError('reference tables not integral')
        ev.update(refv=refv, normals=nrm, lf=[[int(i) + 1 for i in f] for f in rd.facets])
    _, err = guarded(call, 20)
    if err:
        ev['err'] = err
    return ev


SURF_S = 2 ** 17


def surfrel_event(v):
    """detDG of every triangular facet of a tetrahedral mesh whose true coordinates are (x, y, z / 2^17) with small
    integers x, y, z (a layer of thickness 2^-17: needle-shaped vertical facets), affine or isoparametric mapping.
    Needle facets (integer cross product with zero third component) are logged as detDG * 2^17 (exact scaling)."""
    ev = {'a': 'SurfRel', 'kind': 'tet', 'err': '', 'S': SURF_S, 'map': v['mapping'], 'p': [], 'facets': [], 'd': [], 'sc': []}

    def call():
        P = np.asarray(v['p'], dtype=np.float64)
        Pt = P.copy()
        Pt[2] = Pt[2] / SURF_S
        mesh = U.make('tet', Pt, v['t'])
        mp, _ = build_mapping(mesh, 'tet', v['mapping'])
        Xf = np.array([[0.25], [0.5]])
        dG = np.asarray(mp.detDG(Xf), dtype=np.float64)[:, 0]
        Pi = np.asarray(v['p']).astype(int)
        sc, d = [], []
        for f in range(mesh.facets.shape[1]):
            a, b, c = [Pi[:, i] for i in mesh.facets[:, f]]
            cr = np.cross(b - a, c - a)
            flag = 1 if int(cr[2]) == 0 else 0
            sc.append(flag)
            d.append(fx_req(float(dG[f]) * (SURF_S if flag else 1)))
        ev.update(p=[[int(x) for x in col] for col in Pi.T], facets=ids(mesh.facets), d=d, sc=sc)
    _, err = guarded(call, 60)
    if err:
        ev['err'] = err
    return ev


def execute(rec):
    v = rec['v']
    if rec['driver'] == 'surfrel':
        return [surfrel_event(v)]
    if rec['driver'] == 'refdom':
        ev = refdom_event(v)
        # the tables are the library's internal representation: if they are not there in this form (moved, renamed,
        # normalised to unit length) there is nothing to observe -- the normals themselves are judged on the meshes
        return [] if ev['err'] else [ev]
    if rec['driver'] == 'geom':
        evs = [geom_event(v)]
        if v['kind'] not in ('wedge',) and v.get('div', 1):
            evs.append(div_event(v))
        return evs
    return pair_events(v)


def scenario(sid, rec):
    v = rec['v']
    return {'id': sid, 'recipe': rec,
            'tags': {'kind': v['kind'], 'family': rec['family'], 'driver': rec['driver'], 'mapping': v['mapping'],
                     'second': int(v.get('second', 0)), 'curve': int(v.get('curve', 0)), 'law': v.get('law', ''),
                     'pow2': int(v.get('pow2', 0))},
            'events': execute(rec)}


def vrec(kind, p, t, mapping='default', second=0, curve=0, **kw):
    return dict({'kind': kind, 'p': np.asarray(p).astype(int).tolist(), 't': np.asarray(t).astype(int).tolist(),
                 'mapping': mapping, 'second': int(second), 'curve': int(curve)}, **kw)


def perturb_numbering(kind, p, t, rng, flip):
    nvx, nt = p.shape[1], t.shape[1]
    p2, t2 = U.renumber(p, t, rng.permutation(nvx))
    t2 = t2[:, rng.permutation(nt)]
    t2 = U.apply_local_orders(kind, t2, rng)
    if flip:
        for c in range(nt):
            if rng.random() < 0.5:
                t2[:, c] = t2[ORIENT_REV[kind], c]
    return p2, t2


SCALED_FAMILIES = ('U2q-jiggled', 'U3h-jiggled', 'U2q-trapezoid', 'U2t-jiggled', 'U3t', 'U2q', 'U1')


def base_meshes(tier, rng):
    """(kind, family, p, t) integer-coordinate meshes."""
    big = tier == 'thorough'
    out = []
    out.append(('line', 'U1', *U.line_points([0, 1, 3, 4])))
    out.append(('line', 'U1', *U.line_points([2, 3, 7])))
    for dg in ([(0, 1, 1, 0), (1, 1, 0, 0)] + ([(0, 0, 0, 0), (1, 0, 1, 0), (1, 1, 1, 1)] if big else [])):
        out.append(('tri', 'U2t', *U.tri_lattice(2, 2, dg)))
    p, t = U.tri_lattice(2, 2, (0, 1, 1, 0), jiggle=[(4, 0.25, 0.5)])
    out.append(('tri', 'U2t-jiggled', p * 4, t))
    p, t = U.tri_lattice(2, 1, (0, 1))
    out.append(('tri', 'U2t-345', p * np.array([[3], [4]]), t))
    for _ in range(6 if big else 2):
        p, t = U.delaunay_int(2, int(rng.integers(5, 10)), 5, rng)
        if t.shape[1]:
            out.append(('tri', 'delaunay', p, t))
    p, t = U.quad_grid(2, 2)
    out.append(('quad', 'U2q', p, t))
    ps = p.copy()
    ps[0] += ps[1]
    out.append(('quad', 'U2q-sheared', ps, t))
    pj, tj = U.quad_grid(2, 2, jiggle=[(4, 0.25, 0.5)])
    out.append(('quad', 'U2q-jiggled', pj * 4, tj))
    for (n, split) in ((1, 6), (1, 5)) + (((2, 6),) if big else ()):
        out.append(('tet', 'U3t', *U.tet_cubes(n, split)))
    p, t = U.tet_cubes(1, 6)
    out.append(('tet', 'U3t-stretched', p * np.array([[2], [1], [3]]), t))
    for _ in range(4 if big else 1):
        p, t = box_delaunay(3, [2, 2, 1], int(rng.integers(1, 4)), rng)
        out.append(('tet', 'delaunay-box', p, t))
    p, t = U.hex_grid(2, 1, 1)
    out.append(('hex', 'U3h', p, t))
    ps = p.copy()
    ps[0] += ps[2]
    ps[1] += ps[0]
    out.append(('hex', 'U3h-sheared', ps, t))
    # trilinear hexahedra: the vertices of the common face pulled out of their lattice positions
    p, t = U.hex_grid(2, 1, 1)
    pj = p * 4
    for v_, off in ((1, (1, 1, 0)), (4, (-1, 1, 1)), (7, (1, 0, -1)), (10, (0, -1, 1))):
        pj[:, v_] += off
    out.append(('hex', 'U3h-jiggled', pj, t))
    # trapezoidal quadrilaterals (no cell is a parallelogram)
    out.append(('quad', 'U2q-trapezoid', np.array([[0, 8, 10, -2, 4, 9, 4, -1, 4], [0, 1, 8, 6, 0, 4, 7, 3, 4]]),
                np.array([[0, 4, 8, 7], [4, 1, 5, 8], [8, 5, 2, 6], [7, 8, 6, 3]]).T))
    out.append(('line', 'U1', *U.line_points([0, 1, 2, 4, 5, 8])))
    p2, t2 = U.tri_lattice(1, 1, (0,))
    out.append(('wedge', 'UW', *U.wedge_extrude(p2, t2, 2)))
    return out


def idx(ix, dtype='int64'):
    return {'ix': [int(i) for i in ix], 'dtype': dtype}


def index_sets(n, rng, full_only=False):
    """Index arrays over range(n): any order, repetitions, proper subsets, and in particular arrays of FULL length
    that are not arange(n) (ends in place and interior permuted, interior repeated, rotations, random permutations)."""
    out = []
    if not full_only:
        # the cache-key pair: int32 [1,0] followed by int64 [1] (same bytes), then None, reversed, repeated
        out += [idx([1, 0], 'int32'), idx([1], 'int64'), None, idx(list(range(n))[::-1]), idx([n - 1, 0, n - 1]),
                idx([0], 'int32'), idx([0, 0, 0, 0], 'int32'), idx([0, 0], 'int64')]
        if n >= 3:
            sub = rng.permutation(n)[:max(2, n // 2)]
            out.append(idx(sub, 'int32'))
        out.append(idx(rng.integers(0, n, size=2 * n)))                       # longer than n, with repeats
    out += [idx([], 'int32'), idx([], 'int64')]                              # a tag that marks nothing
    if n >= 3:
        inner = list(range(1, n - 1))
        if n >= 4:
            sw = list(range(n))
            sw[1], sw[2] = sw[2], sw[1]
            out.append(idx(sw, 'int32'))                                       # [0, 2, 1, 3, .., n-1]
            out.append(idx([0] + [int(i) for i in rng.permutation(inner)] + [n - 1]))   # ends fixed, interior shuffled
        out.append(idx([0] + [int(i) for i in rng.choice(inner, size=n - 2)] + [n - 1], 'int32'))  # interior repeated
        out.append(idx(sorted(int(i) for i in rng.integers(0, n, size=n))))    # full length, sorted, with repeats
        out.append(idx(rng.permutation(n), 'int32'))                           # random permutation
        out.append(idx(list(range(1, n)) + [0]))                               # rotation
    return out


def partitions(n, rng):
    """Partitions of range(n) into consecutive parts, with empty parts at the front, in the middle and at the end."""
    cut = int(rng.integers(1, n)) if n >= 2 else n
    a, b = list(range(cut)), list(range(cut, n))
    return [[idx([], 'int32'), idx(a + b)], [idx(a), idx([], 'int64'), idx(b, 'int32')], [idx(a + b, 'int32'), idx([])],
            [idx(a), idx(b)]]


def generate(tier, seed):
    rng = np.random.default_rng(seed + 10)
    recs = []
    big = tier == 'thorough'
    meshes = base_meshes(tier, rng)
    for kind, fam, p, t in meshes:
        p, t = np.asarray(p), np.asarray(t)
        variants = [(p, t, '')]
        for j in range(3 if big else 1):
            p2, t2 = perturb_numbering(kind, p, t, rng, flip=False)
            variants.append((p2, t2, '-renumbered'))
        if kind in ('line', 'tri', 'tet', 'quad'):
            p2, t2 = perturb_numbering(kind, p, t, rng, flip=True)     # some cells negatively oriented
            variants.append((p2, t2, '-mirrored'))
        for (pp, tt, suffix) in variants:
            maps = ['default'] + (['iso'] if kind in P1 else [])
            for mpn in maps:
                recs.append({'driver': 'geom', 'family': fam + suffix, 'v': vrec(kind, pp, tt, mpn)})
        # second-order: straight, and curved on the well-shaped lattice cells only (non-vertex nodes displaced by at
        # most 1/64 of the unit cell, so that no cell folds: a folded cell legitimately breaks the laws)
        if kind in SECOND:
            recs.append({'driver': 'geom', 'family': fam + '-second', 'v': vrec(kind, p, t, 'default', second=1)})
            for cv in (((1, 2, 3) if big else (1,)) if fam in ('U2t', 'U2q', 'U3t', 'U3h') else ()):
                recs.append({'driver': 'geom', 'family': fam + '-curved', 'v': vrec(kind, p, t, 'default', second=1, curve=cv)})
        # the same geometry in other length units (exact scaling by powers of two; every logged length is scaled back
        # exactly, reference coordinates are dimensionless): the non-affine families, one affine and one lattice family
        if fam in SCALED_FAMILIES:
            for k in ((-30, -20, -10, 12) if (big or fam in SCALED_FAMILIES[:2]) else (-30,)):
                recs.append({'driver': 'geom', 'family': fam + '-scaled', 'v': vrec(kind, p, t, 'default', pow2=k)})
                if kind in SECOND:
                    recs.append({'driver': 'geom', 'family': fam + '-second-scaled',
                                 'v': vrec(kind, p, t, 'default', second=1, pow2=k)})
                if kind in P1:
                    recs.append({'driver': 'geom', 'family': fam + '-scaled', 'v': vrec(kind, p, t, 'iso', pow2=k)})
        # argument-shape laws: call sequences on one mapping object
        nt = t.shape[1]
        fns = ['F', 'DF', 'invDF', 'detDF', 'invF']
        ffns = ['G', 'detDG', 'normals'] if kind not in ('line', 'wedge') else []
        nfac = len(U.make(kind, p, t, **({'sort_t': False} if kind == 'tri' else {})).facets.T) if ffns else 0
        for mpn in ['default'] + (['iso', 'noaffine'] if kind in P1 else []):
            seqs = []
            base = index_sets(nt, rng)
            for fn in fns:
                seqs.append([{'fn': fn, 'idx': i} for i in base])
            mixed = []
            for i in base:
                for fn in ('detDF', 'invDF', 'DF'):
                    mixed.append({'fn': fn, 'idx': i})
            seqs.append(mixed)
            fbase = index_sets(nfac, rng) if ffns else []
            for fn in ffns:
                seqs.append([{'fn': fn, 'idx': i} for i in fbase])
            seqs.append([{'fn': fn, 'parts': pts} for fn in fns for pts in partitions(nt, rng)]
                        + [{'fn': fn, 'parts': pts} for fn in ffns for pts in partitions(nfac, rng)])
            for steps in seqs:
                recs.append({'driver': 'pair', 'family': fam,
                             'v': vrec(kind, p, t, mpn, law='SubsetCommutes', steps=steps)})
            steps = [{'fn': fn, 'idx': i} for fn in fns + ['invF'] for i in (idx(list(range(nt))), idx([nt - 1, 0]), None)]
            recs.append({'driver': 'pair', 'family': fam, 'v': vrec(kind, p, t, mpn, law='SharedVsPerCell', steps=steps)})
        if kind in P1 and nt >= 3:
            # mapping objects built for a cell subset: permutations of the first k cells, arbitrary subsets (any order),
            # the whole mesh permuted, a single cell
            k = max(2, nt // 2)
            subsets = [idx(rng.permutation(k), 'int32'), idx(rng.permutation(nt)[:k]), idx(rng.permutation(nt), 'int32'),
                       idx([nt - 1]), idx(sorted(int(c) for c in rng.permutation(nt)[:k]), 'int32')]
            recs.append({'driver': 'pair', 'family': fam,
                         'v': vrec(kind, p, t, 'affine', law='SubsetConstructorAgrees', subsets=subsets)})
        if kind in P1:
            steps = [{'fn': fn, 'idx': i} for fn in fns for i in index_sets(nt, rng, full_only=True)]
            if kind != 'line':
                steps += [{'fn': fn, 'idx': i} for fn in ffns for i in index_sets(nfac, rng, full_only=True)]
            recs.append({'driver': 'pair', 'family': fam,
                         'v': vrec(kind, p, t, 'default', law='AffineEqualsIsoparametric', steps=steps)})
            p2, t2 = perturb_numbering(kind, p, t, rng, flip=True)
            recs.append({'driver': 'pair', 'family': fam + '-mirrored',
                         'v': vrec(kind, p2, t2, 'default', law='AffineEqualsIsoparametric')})
    # strongly anisotropic tetrahedra: integer coordinates whose third component is divided by 2^17 (thin layers);
    # as generated, stretched, sheared in the plane (needle facets not axis-parallel), renumbered; both implementations
    for (n, split) in ((1, 6), (1, 5), (2, 6)):
        p, t = U.tet_cubes(n, split)
        p, t = np.asarray(p), np.asarray(t)
        # (odd stretch factors: with small dyadic data every intermediate of any formula is exact and nothing is tested)
        shapes = [('', p)]
        q = p * np.array([[11], [13], [5]])
        q[0] = q[0] + q[1]
        shapes.append(('-stretched-sheared', q))
        q = p * np.array([[13], [11], [7]])
        q[0] = q[0] + q[1]
        q[1] = q[1] + q[0]
        shapes.append(('-stretched-sheared2', q))
        for suffix, pp in shapes:
            p2, t2 = perturb_numbering('tet', pp, t, rng, flip=False)
            for (pa, ta) in ((pp, t), (p2, t2)):
                for mpn in ('affine', 'iso'):
                    recs.append({'driver': 'surfrel', 'family': 'layer-2^-17' + suffix, 'v': vrec('tet', pa, ta, mpn)})
    for kind in ('line', 'tri', 'quad', 'tet', 'hex', 'wedge'):
        recs.append({'driver': 'refdom', 'family': 'refdom', 'v': {'kind': kind, 'mapping': 'none'}})
    return recs


def _scen(args):
    return scenario(*args)


def all_scenarios(recs):
    jobs = [(f'C10-{k}', r) for k, r in enumerate(recs)]
    try:
        import multiprocessing as mp
        with mp.get_context('fork').Pool(min(8, os.cpu_count() or 1)) as pool:
            return pool.map(_scen, jobs, chunksize=2)
    except (OSError, ImportError):
        return [scenario(*j) for j in jobs]


def run(ctx):
    if os.path.exists(os.path.join(os.path.dirname(__file__), '..', '..', 'spec', 'MC_C10.cfg')):
        ctx.model_must_hold('MC_C10', 'MC_C10.cfg', timeout=600, workers=4)
    recs = generate(ctx.tier, ctx.seed)
    if ctx.tier == 'thorough':                      # further rounds: other random meshes, numberings, local orders
        for k in (1, 2, 3):
            recs += [r for r in generate(ctx.tier, ctx.seed + 1000 * k) if r['driver'] != 'refdom']
    scs = all_scenarios(recs)
    ctx.validate('TraceC10', scs, jvms=8)
    import json
    ctx.notes['distinct_nontrivial'] = len({json.dumps(r, sort_keys=True) for r in recs})
    ctx.notes['by_driver'] = {d: sum(1 for r in recs if r['driver'] == d) for d in ('geom', 'pair', 'refdom', 'surfrel')}
    ctx.notes['tolerances'] = {'TolGeom': '2^-36 x (integer part of the compared numbers + 1), small integer factors per law'}
    return ctx.finish(rule=RULE, assumptions=[
        'reference points are dyadic (multiples of 1/8) at distance >= 1/8 from the cell boundary; Newton inversion is '
        'only exercised on mildly curved / convex cells (second-order nodes of unit lattice cells displaced by <= 1/64)',
        'the derivative of the map is taken from the recorded map by central differences, exact for maps of degree <= 2 '
        'per direction (all maps used here)',
        'prism meshes have no boundary reference cell in the library: only the cell clauses are checked on them',
        'mode L: deviations below 2^-36 (relative to the magnitude) are invisible',
        'TLC 1.8.0 and the CommunityModules Json module are trusted'],
        exhaustive=False)


def replay(ctx, doc):
    sc = doc['scenario']
    ctx.validate('TraceC10', [scenario(sc['id'], sc['recipe'])])
    return ctx.finish(rule=RULE)
