SPECIFICATION Spec
CONSTANT Which = "main"
CONSTANT Tier = "quick"
INVARIANT FindOKHolds
CHECK_DEADLOCK FALSE
