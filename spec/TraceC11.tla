------------------------------ MODULE TraceC11 ------------------------------
(* code -> spec: validates connectivity tables recorded from the real Mesh    *)
(* classes against the C11 clauses of MeshTopology.  One flat event list;     *)
(* events of one scenario (same sid) are the same geometric mesh under        *)
(* different vertex numberings / cell orders (NumberingIndependent).          *)
EXTENDS MeshTopology

Batch  == JsonDeserialize(IOEnv.TRACE_FILE)
Events == Batch.events
N      == Len(Events)

VARIABLES i, st, bad, cnt
vars == <<i, st, bad, cnt>>

Clauses(e, carried) ==
  LET base == ConnClauses(e) IN
  IF e.pos > 1 /\ e.ni = 1 /\ base.WellFormed /\ e.scale > 0 /\ carried # <<>>
  THEN LET g == GeoCanon(e) IN
       base @@ [NI_cells |-> g.cells = carried.cells, NI_facets |-> g.facets = carried.facets,
                NI_f2t |-> g.f2t = carried.f2t, NI_bfacets |-> g.bfacets = carried.bfacets,
                NI_bnodes |-> g.bnodes = carried.bnodes, NI_inodes |-> g.inodes = carried.inodes,
                NI_edges |-> g.edges = carried.edges, NI_bedges |-> g.bedges = carried.bedges]
  ELSE base

Bump(c, r) == [k \in DOMAIN c \cup DOMAIN r |->
                 (IF k \in DOMAIN c THEN c[k] ELSE 0) + (IF k \in DOMAIN r THEN 1 ELSE 0)]

Init == i = 1 /\ st = <<>> /\ bad = <<>> /\ cnt = <<>>

Step == /\ i <= N
        /\ LET e == Events[i]
               r == Clauses(e, IF e.pos = 1 THEN <<>> ELSE st)
           IN /\ bad' = bad \o [k \in 1..Cardinality(Failed(r)) |->
                                  [sid |-> e.sid, pos |-> e.pos, clause |-> SetToSeq(Failed(r))[k]]]
              /\ cnt' = Bump(cnt, r)
              /\ st'  = IF e.pos = 1
                        THEN (IF r.WellFormed /\ e.scale > 0 THEN GeoCanon(e) ELSE <<>>)
                        ELSE st
        /\ i' = i + 1

Finish == /\ i = N + 1
          /\ JsonSerialize(IOEnv.OUT_FILE, [consumed |-> N, bad |-> bad, cnt |-> cnt])
          /\ i' = N + 2
          /\ UNCHANGED <<st, bad, cnt>>

Next == Step \/ Finish
Spec == Init /\ [][Next]_vars
==============================================================================
