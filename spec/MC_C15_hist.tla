----------------------------- MODULE MC_C15_hist -----------------------------
(* spec -> code: all histories (operation sequences) up to length L over the   *)
(* operation alphabet of one group of the session (harness/session.py); the     *)
(* alphabet size and L come from the environment.  Each history is executed on  *)
(* a long-lived pool and compared with fresh-interpreter references.            *)
EXTENDS Prelude

NOps == atoi(IOEnv.C15_NOPS)
L    == atoi(IOEnv.C15_LEN)
Histories == UNION {[1..k -> 1..NOps] : k \in 1..L}
ASSUME JsonSerialize(IOEnv.OUT_FILE, SetToSeq(Histories))
VARIABLE u
Init == u = 0
Next == u' = u
Spec == Init /\ [][Next]_u
==============================================================================
