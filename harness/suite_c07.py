"""pytest plugin (lives in /verif, loaded with `-p harness.suite_c07` next to harness.suite_plugin): records every DOF
query the repository's own tests make through `AbstractBasis.get_dofs` on a small mesh, for property C07.

Per basis (mesh connectivity + element + DOF tables = one `Basis` event of spec/Dofs.tla) the queries are recorded AS
GIVEN: how the selection was named (None / index array / int / callable / tag / list ...), the entity set it resolves to
through the mesh's own normalize_facets / normalize_elements / normalize_nodes (callables cannot be recorded; the
entities they designate can), the skip names, and what the returned view contains: `flatten()` and the by-kind
dictionaries `.nodal / .edge / .facet / .interior`.  The view handed back to the test is untouched.

Guard: SKFEM_VERIF=1 and SUITE_OUT must be set, otherwise the plugin is inert.  Recording never disturbs a test: every
recording step runs under try/except after the original call has returned.  Bounded and de-duplicated.
Output at session end: f"{SUITE_OUT}.c07.{pid}.json" = {"c07": [ {basis, queries, test, elem} ... ]}.
"""
import hashlib
import json
import os

import numpy as np

OUT = os.environ.get('SUITE_OUT')
ENABLED = bool(OUT) and os.environ.get('SKFEM_VERIF') == '1'
MAXC = int(os.environ.get('SUITE_C07_MAX_CELLS', '32'))
MAX_BASES = 250
MAX_QUERIES = 40

_bases = {}          # key -> {'basis': event, 'queries': [...], 'qkeys': set, 'test': str, 'elem': str}
_depth = [0]
_skipped = {'mesh_larger_than_limit': 0, 'mesh_class_outside_universe': 0, 'error': 0}


def _h(*arrays):
    h = hashlib.sha1()
    for a in arrays:
        h.update(np.ascontiguousarray(a).tobytes())
    return h.hexdigest()


def _form(x):
    if x is None:
        return 'None'
    if isinstance(x, bool):
        return 'bool'
    if isinstance(x, (int, np.integer)):
        return 'int'
    if isinstance(x, np.ndarray):
        return type(x).__name__ if type(x) is not np.ndarray else 'array'
    if isinstance(x, str):
        return 'tag'
    if callable(x):
        return 'callable'
    if isinstance(x, (list, tuple, set)):
        return type(x).__name__ + '[' + ','.join(sorted({_form(v) for v in x})) + ']'
    return type(x).__name__


def _ints(x):
    return [int(v) for v in np.asarray(x).ravel()]


def pytest_configure(config):
    if not ENABLED:
        return
    try:
        from skfem.assembly.basis.abstract_basis import AbstractBasis
        from harness.project import KIND
        from harness.dofs_common import basis_event, names_of, signature
    except Exception:
        return
    orig = AbstractBasis.get_dofs

    def get_dofs(self, facets=None, elements=None, nodes=None, skip=None):
        out = orig(self, facets=facets, elements=elements, nodes=nodes, skip=skip)
        if _depth[0] > 0:
            return out
        _depth[0] += 1
        try:
            mesh = self.mesh
            if type(mesh).__name__ not in KIND or 'DG' in type(mesh).__name__:
                _skipped['mesh_class_outside_universe'] += 1
                return out
            if mesh.t.shape[1] > MAXC:
                _skipped['mesh_larger_than_limit'] += 1
                return out
            elem = self.elem
            key = (_h(mesh.t), type(elem).__name__, repr(names_of(elem)), repr(signature(elem)))
            rec = _bases.get(key)
            if rec is None:
                if len(_bases) >= MAX_BASES:
                    return out
                rec = {'basis': basis_event(mesh, self), 'queries': [], 'qkeys': set(),
                       'test': os.environ.get('PYTEST_CURRENT_TEST', '')[:120], 'elem': type(elem).__name__}
                _bases[key] = rec
            if len(rec['queries']) >= MAX_QUERIES:
                return out
            sk = [] if skip is None else ([skip] if isinstance(skip, str) else [str(s) for s in skip])

            def record(kind, ids_, form, view):
                if len(rec['queries']) >= MAX_QUERIES:
                    return
                qk = (kind, tuple(sorted(set(ids_))), tuple(sk))
                if qk in rec['qkeys']:
                    return
                rec['qkeys'].add(qk)
                sel = {'kind': kind, 'ids': [i + 1 for i in sorted(set(ids_))]}

                def q(op, res):
                    return {'a': 'Query', 'sel': sel, 'skip': sk,
                            'op': {'k': op, 'names': [], 'names2': [], 'ids2': [], 'steps': []},
                            'res': [dict({'form': form, 'err': ''}, **res)]}
                new = [q('flatten', {'out': _ints(view.flatten())})]
                for k in ('nodal', 'edge', 'facet', 'interior'):
                    d = getattr(view, k)
                    new.append(q(k, {'dict': [{'k': str(n), 'v': _ints(v)} for n, v in d.items()]}))
                rec['queries'] += new

            if isinstance(facets, dict):
                # deprecated dictionary form: one view per key; a callable designates facets_satisfying(f), anything
                # else is taken as the index array itself (abstract_basis.py, first branch of get_dofs)
                for name, f in facets.items():
                    ids_ = _ints(mesh.facets_satisfying(f)) if callable(f) else _ints(f)
                    record('facets', ids_, 'dict:' + _form(f), out[name])
                return out
            # the entity set the selection resolves to, by the mesh's own normalisation (as get_dofs dispatches)
            if elements is not None:
                kind, given = 'elements', elements
                ids_ = _ints(mesh.normalize_elements(elements))
            elif nodes is not None:
                kind, given = 'nodes', nodes
                ids_ = _ints(mesh.normalize_nodes(nodes))
            elif facets is None:
                kind, given, ids_ = 'none', None, []
            else:
                kind, given = 'facets', facets
                ids_ = _ints(mesh.normalize_facets(facets))
            record(kind, ids_, _form(given), out)
        except Exception:              # recording must never disturb the test
            _skipped['error'] += 1
        finally:
            _depth[0] -= 1
        return out

    AbstractBasis.get_dofs = get_dofs


def pytest_sessionfinish(session, exitstatus):
    if not ENABLED:
        return
    try:
        items = [{'basis': r['basis'], 'queries': r['queries'], 'test': r['test'], 'elem': r['elem']}
                 for r in _bases.values() if r['queries']]
        with open(f'{OUT}.c07.{os.getpid()}.json', 'w') as f:
            json.dump({'c07': items, 'c07_skipped': [dict(_skipped)]}, f)
    except Exception:
        pass
