SPECIFICATION Spec
CONSTANT DimsRead <- DimsReadOld
INVARIANT ClausesHold
CHECK_DEADLOCK FALSE
