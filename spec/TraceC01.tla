------------------------------ MODULE TraceC01 ------------------------------
(* code -> spec for C01: every event is one observation of the real             *)
(* BilinearForm / LinearForm / Functional / Basis.interpolate on a basis whose  *)
(* projection pi(basis) (cell->DOF table, integer-scaled basis values at the    *)
(* quadrature points, dx) is part of the event.  TLC recomputes the tensor by   *)
(* definition (AssemblySem) and compares exactly.  "Law" events carry float     *)
(* pairings as exact fixed-point numbers (Fx) and are judged by the algebraic   *)
(* law Consistent with the named tolerance TolSum.                              *)
EXTENDS AssemblySem
FX == INSTANCE Fx

Batch  == JsonDeserialize(IOEnv.TRACE_FILE)
Events == Batch.events
NEv    == Len(Events)

\* tolerance of geometric laws (unit normals against integer facet geometry)
TolGeom == FX!FxTol(36)
\* tolerance of the law tier: 2^-40 times an integer bound of the magnitude  |v|^T |A| |u|  of the pairing
TolSum == FX!FxTol(40)

VARIABLES i, bad, cnt
vars == <<i, bad, cnt>>

\* a keyword passed as DOF vector is interpolated by the code with the basis of the form (form.py:110-112);
\* its meaning is the field Interp(B, vec)
ResolveEnv(env, B) ==
  [fld |-> [n \in DOMAIN env.fld |->
              IF env.fld[n].kind = "dof"
              THEN [nc |-> B.nc, s |-> B.sphi, val |-> Interp(B, env.fld[n].vec)]
              ELSE [nc |-> env.fld[n].nc, s |-> env.fld[n].s, val |-> env.fld[n].val]],
   prm |-> env.prm]
RawEnvWF(env, B) ==
  \A n \in DOMAIN env.fld :
     IF env.fld[n].kind = "dof" THEN Len(env.fld[n].vec) = B.N
     ELSE FieldWF(env.fld[n], B.nel, B.nq)
IntVec(x, n) == Len(x) = n

\* ---------------------------------------------------------------------------
BilClauses(e) ==
  IF e.err # "" THEN [NoUnexpectedError |-> FALSE]
  ELSE IF ~(/\ BasisWF(e.Bu) /\ BasisWF(e.Bv) /\ e.Bu.nel = e.Bv.nel /\ e.Bu.nq = e.Bv.nq
            /\ RawEnvWF(e.env, e.Bu) /\ MatWF(e.A) /\ MatWF(e.coo)
            /\ \A a \in DOMAIN e.alts : MatWF(e.alts[a])
            /\ \A p \in DOMAIN e.pairs : IntVec(e.pairs[p].u, e.Bu.N) /\ IntVec(e.pairs[p].v, e.Bv.N))
       THEN [WellFormed |-> FALSE]
  ELSE LET env == ResolveEnv(e.env, e.Bu) IN
       IF ~TermWF(e.F, e.Bu.nc, e.Bv.nc, env) THEN [WellFormed |-> FALSE]
  ELSE LET loc == BilLocal(e.F, e.Bu, e.Bv, env)
           hv  == Hits(e.Bv)
           hu  == Hits(e.Bu)
       IN [NoUnexpectedError |-> TRUE, WellFormed |-> TRUE,
           EntriesIntegral    |-> e.exact = 1 /\ e.S = FormScale(e.F, e.Bu, e.Bv, env),
           ShapeOK            |-> e.A.shape = <<e.Bv.N, e.Bu.N>> /\ e.coo.shape = <<e.Bv.N, e.Bu.N>>,
           BilinearRepresents |-> BilinearRepresentsL(e.A, loc, hv, hu, e.Bu, e.Bv),
           RowsAreTest        |-> RowsAreTest(e.A, e.Bu, e.Bv)]
          @@ (IF Len(e.coo.trip) > 0 THEN [ElementalSumsToBil |-> BilinearRepresentsL(e.coo, loc, hv, hu, e.Bu, e.Bv)] ELSE <<>>)
          @@ (IF Len(e.alts) > 0 THEN [ParamsEnterIdentically |-> \A a \in DOMAIN e.alts : SameMatrix(e.A, e.alts[a])] ELSE <<>>)
          @@ (IF Len(e.pairs) > 0
              THEN [Consistent |-> \A p \in DOMAIN e.pairs : ConsistentBil(e.A, e.pairs[p].u, e.pairs[p].v, e.pairs[p].s),
                    FunctionalRepresents |-> \A p \in DOMAIN e.pairs :
                        FunctionalRepresents(e.pairs[p].s, e.F, Interp(e.Bu, e.pairs[p].u), Interp(e.Bv, e.pairs[p].v),
                                             e.Bu.sphi, e.Bv.sphi, e.Bu, env)]
              ELSE <<>>)

LinClauses(e) ==
  IF e.err # "" THEN [NoUnexpectedError |-> FALSE]
  ELSE IF ~(/\ BasisWF(e.Bv) /\ RawEnvWF(e.env, e.Bv)
            /\ \A a \in DOMAIN e.alts : TRUE
            /\ \A n \in DOMAIN e.coo : Len(e.coo[n]) = 2 /\ e.coo[n][1] \in 1..e.Bv.N
            /\ \A p \in DOMAIN e.pairs : IntVec(e.pairs[p].v, e.Bv.N))
       THEN [WellFormed |-> FALSE]
  ELSE LET env == ResolveEnv(e.env, e.Bv) IN
       IF ~TermWF(e.F, 0, e.Bv.nc, env) THEN [WellFormed |-> FALSE]
  ELSE LET def == LinVec(e.F, e.Bv, env) IN
       [NoUnexpectedError |-> TRUE, WellFormed |-> TRUE,
        EntriesIntegral  |-> e.exact = 1 /\ e.S = NormT(e.F, 1, e.Bv.sphi, env).s * e.Bv.sdx,
        ShapeOK          |-> Len(e.b) = e.Bv.N,
        LinearRepresents |-> Len(e.b) = e.Bv.N /\ \A r \in 1..e.Bv.N : e.b[r] = def[r]]
       @@ (IF Len(e.coo) > 0
           THEN [ElementalSumsToLin |-> \A r \in 1..e.Bv.N :
                    LET S == {n \in DOMAIN e.coo : e.coo[n][1] = r} IN SumOver([n \in S |-> e.coo[n][2]], S) = def[r]]
           ELSE <<>>)
       @@ (IF Len(e.alts) > 0 THEN [ParamsEnterIdentically |-> \A a \in DOMAIN e.alts : e.alts[a] = e.b] ELSE <<>>)
       @@ (IF Len(e.pairs) > 0
           THEN [Consistent |-> \A p \in DOMAIN e.pairs : Len(e.b) = e.Bv.N /\ ConsistentLin(e.b, e.pairs[p].v, e.pairs[p].s),
                 FunctionalRepresents |-> \A p \in DOMAIN e.pairs :
                     FunctionalRepresents(e.pairs[p].s, e.F, NoField, Interp(e.Bv, e.pairs[p].v), 1, e.Bv.sphi, e.Bv, env)]
           ELSE <<>>)

FunClauses(e) ==
  IF e.err # "" THEN [NoUnexpectedError |-> FALSE]
  ELSE IF ~(BasisWF(e.B) /\ RawEnvWF(e.env, e.B)) THEN [WellFormed |-> FALSE]
  ELSE LET env == ResolveEnv(e.env, e.B) IN
       IF ~TermWF(e.F, 0, 0, env) THEN [WellFormed |-> FALSE]
  ELSE [NoUnexpectedError |-> TRUE, WellFormed |-> TRUE,
        EntriesIntegral      |-> e.exact = 1 /\ e.S = NormT(e.F, 1, 1, env).s * e.B.sdx,
        ShapeOK              |-> Len(e.el) = e.B.nel,
        FunctionalRepresents |-> FunctionalRepresents(e.s, e.F, NoField, NoField, 1, 1, e.B, env)
                                 /\ ElementalRepresents(e.el, e.F, NoField, NoField, 1, 1, e.B, env)]
       @@ (IF Len(e.alts) > 0 THEN [ParamsEnterIdentically |-> \A a \in DOMAIN e.alts : e.alts[a] = e.s] ELSE <<>>)

\* a Functional whose integrand returns a tensor per quadrature point: the result has the tensor's shape, every entry is
\* the scalar functional of its component (value, through asm, and per cell), and equals v^T A u of the component's form
RECURSIVE ProdSeq(_)
ProdSeq(sq) == IF sq = <<>> THEN 1 ELSE Head(sq) * ProdSeq(Tail(sq))
TFunClauses(e) ==
  IF e.err # "" THEN [NoUnexpectedError |-> FALSE]
  ELSE IF ~(BasisWF(e.B) /\ RawEnvWF(e.env, e.B) /\ Len(e.u) = e.B.N /\ Len(e.v) = e.B.N) THEN [WellFormed |-> FALSE]
  ELSE LET env == ResolveEnv(e.env, e.B) IN
       IF ~(\A c \in DOMAIN e.comps : TermWF(e.comps[c].F, e.B.nc, e.B.nc, env) /\ (e.comps[c].hasA = 1 => MatWF(e.comps[c].A)))
       THEN [WellFormed |-> FALSE]
  ELSE LET U == Interp(e.B, e.u)  V == Interp(e.B, e.v)  sp == e.B.sphi IN
       [NoUnexpectedError |-> TRUE, WellFormed |-> TRUE,
        ShapeOK |-> e.gshape = e.shape /\ e.gashape = e.shape /\ e.gelshape = e.shape \o <<e.B.nel>>,
        EntriesIntegral |-> e.exact = 1 /\ \A c \in DOMAIN e.comps : e.comps[c].S = NormT(e.comps[c].F, sp, sp, env).s * e.B.sdx,
        FunctionalRepresents |->
           /\ Len(e.comps) = ProdSeq(e.shape)
           /\ \A c \in DOMAIN e.comps :
                 /\ FunctionalRepresents(e.comps[c].s, e.comps[c].F, U, V, sp, sp, e.B, env)
                 /\ e.comps[c].sa = e.comps[c].s
                 /\ ElementalRepresents(e.comps[c].el, e.comps[c].F, U, V, sp, sp, e.B, env),
        Consistent |-> \A c \in DOMAIN e.comps : e.comps[c].hasA = 1 =>
                          e.comps[c].A.shape = <<e.B.N, e.B.N>> /\ ConsistentBil(e.comps[c].A, e.u, e.v, e.comps[c].s)]

InterpClauses(e) ==
  IF e.err # "" THEN [NoUnexpectedError |-> FALSE]
  ELSE IF ~(BasisWF(e.B) /\ Len(e.w) = e.B.N) THEN [WellFormed |-> FALSE]
  ELSE [NoUnexpectedError |-> TRUE, WellFormed |-> TRUE,
        EntriesIntegral |-> e.exact = 1,
        ShapeOK |-> IsTable3(e.out, e.B.nc, e.B.nel, e.B.nq),
        InterpolateRepresents |-> InterpolateRepresents(e.out, e.B, e.w)]

\* a basis restricted to a cell subset is the restriction of the basis on the whole mesh
SubsetClauses(e) ==
  IF e.err # "" THEN [NoUnexpectedError |-> FALSE]
  ELSE IF ~(BasisWF(e.Bfull) /\ BasisWF(e.Bsub) /\ \A k \in DOMAIN e.tind : e.tind[k] \in 1..e.Bfull.nel)
       THEN [WellFormed |-> FALSE]
  ELSE LET F == e.Bfull  S == e.Bsub IN
       [NoUnexpectedError |-> TRUE, WellFormed |-> TRUE,
        \* the cells of the restricted basis are the requested cells of the full basis, each with its DOFs, weights and
        \* basis values -- as a bag: C01 does not fix the order in which a basis keeps its cells
        SubsetRestricts |->
          /\ S.nel = Len(e.tind) /\ S.nb = F.nb /\ S.N = F.N /\ S.nc = F.nc /\ S.nq = F.nq
          /\ S.sphi = F.sphi /\ S.sdx = F.sdx
          /\ LET sig(B, k) == <<[j \in 1..B.nb |-> B.edofs[j][k]], B.dx[k], [j \in 1..B.nb |-> [c \in 1..B.nc |-> B.phi[j][c][k]]]>>
                  got  == TLCEval([k \in 1..S.nel |-> sig(S, k)])
                  want == TLCEval([k \in 1..S.nel |-> sig(F, e.tind[k])])
              IN \A k \in 1..S.nel : Cardinality({k2 \in 1..S.nel : got[k2] = got[k]}) = Cardinality({k2 \in 1..S.nel : want[k2] = got[k]})]

\* a facet basis takes its DOFs from the cell on the requested side of each facet
FacetClauses(e) ==
  IF e.err # "" THEN [NoUnexpectedError |-> FALSE]
  ELSE IF ~(/\ Len(e.fedofs) = Len(e.cedofs)
            /\ \A j \in DOMAIN e.fedofs : Len(e.fedofs[j]) = Len(e.f2t)
            /\ \A k \in DOMAIN e.f2t : Len(e.f2t[k]) = 2 /\ \A s \in 1..2 : e.f2t[k][s] \in 0..e.ncell
            /\ \A j \in DOMAIN e.cedofs : Len(e.cedofs[j]) = e.ncell
            /\ e.side \in {0, 1}
            /\ Len(e.ori) \in {0, Len(e.f2t)})
       THEN [WellFormed |-> FALSE]
  ELSE LET cellof(k) == IF Len(e.ori) = 0 THEN e.f2t[k][e.side + 1]
                        ELSE (IF e.side = 0 THEN e.f2t[k][e.ori[k] + 1] ELSE e.f2t[k][2 - e.ori[k]])
       IN [NoUnexpectedError |-> TRUE, WellFormed |-> TRUE,
           FacetSideCells |-> \A k \in DOMAIN e.f2t : cellof(k) # 0 /\ \A j \in DOMAIN e.fedofs : e.fedofs[j][k] = e.cedofs[j][cellof(k)]]

\* cross-check of the harness' term interpreter (the one duplicated artefact): the Python callable generated
\* from a term, run on an identity basis of distinct integers, returns what EvalN returns
ChkClauses(e) ==
  LET env == [fld |-> [n \in DOMAIN e.env.fld |-> [nc |-> e.env.fld[n].nc, s |-> 1, val |-> e.env.fld[n].val]], prm |-> e.env.prm]
      n   == NormT(e.F, 1, 1, env).t
  IN [InterpreterAgrees |-> /\ TermWF(e.F, Len(e.U), Len(e.V), env)
                            /\ \A q \in DOMAIN e.out : e.out[q] = EvalN(n, e.U, e.V, env, 1, q)]

\* law tier: float pairings as exact fixed-point numbers
LawClauses(e) ==
  IF e.err # "" THEN [NoUnexpectedError |-> FALSE]
  ELSE IF ~(\A l \in DOMAIN e.laws : /\ FX!FxWF(e.laws[l].lhs) /\ FX!FxWF(e.laws[l].rhs) /\ FX!FxWF(e.laws[l].mag)
                                     /\ e.laws[l].mag[1] \in 0..16000)
       THEN [WellFormed |-> FALSE]
  ELSE [NoUnexpectedError |-> TRUE, WellFormed |-> TRUE,
        ConsistentLaw |-> \A l \in DOMAIN e.laws :
            FX!FxNear(e.laws[l].lhs, e.laws[l].rhs, FX!FxMulSmall(TolSum, e.laws[l].mag[1] + 1))]

\* asm(form, list of bases): the sum of the single assemblies, for every form type, and mutually consistent on the sums
SumMatAt(As, r, c) == SumN(Len(As), LAMBDA a : MatAt(As[a], r, c))
MatIsSum(A, As) == /\ \A a \in DOMAIN As : As[a].shape = A.shape
                   /\ \A x \in MatPos(A) \cup UNION {MatPos(As[a]) : a \in DOMAIN As} : MatAt(A, x[1], x[2]) = SumMatAt(As, x[1], x[2])
VecIsSum(b, bs) == /\ \A a \in DOMAIN bs : Len(bs[a]) = Len(b)
                   /\ \A r \in DOMAIN b : b[r] = SumN(Len(bs), LAMBDA a : bs[a][r])
ListClauses(e) ==
  IF e.err # "" THEN [NoUnexpectedError |-> FALSE]
  ELSE IF ~(/\ MatWF(e.A) /\ \A a \in DOMAIN e.Aparts : MatWF(e.Aparts[a]) /\ MatWF(e.wA)
            /\ Len(e.Aparts) >= 1 /\ Len(e.bparts) >= 1 /\ Len(e.sparts) >= 1 /\ Len(e.qparts) >= 1
            /\ e.hasp \in {0, 1, 2})
       THEN [WellFormed |-> FALSE]
  ELSE [NoUnexpectedError |-> TRUE, WellFormed |-> TRUE, EntriesIntegral |-> e.exact = 1,
        ListAssemblySums |->
           /\ MatIsSum(e.A, e.Aparts) /\ VecIsSum(e.b, e.bparts)
           /\ e.s = SumN(Len(e.sparts), LAMBDA a : e.sparts[a])
           /\ e.q = SumN(Len(e.qparts), LAMBDA a : e.qparts[a])
           /\ (e.hasp = 1 => e.p = SumN(Len(e.pparts), LAMBDA a : e.pparts[a]))
           /\ (e.haswhole = 1 => SameMatrix(e.A, e.wA) /\ e.b = e.wb /\ e.s = e.ws),
        ConsistentOnSums |->
           /\ (e.hasp # 2 => Len(e.v) = Len(e.b) /\ ConsistentLin(e.b, e.v, e.q))
           \* hasp = 2: product of two lists; the functionals exist block by block only (with the block's idx)
           /\ (e.hasp >= 1 => e.A.shape = <<Len(e.v), Len(e.u)>>
                               /\ ConsistentBil(e.A, e.u, e.v, SumN(Len(e.pparts), LAMBDA a : e.pparts[a])))]

\* default normals w.n of a facet basis against the integer geometry of the facets and the basis of side 0.
\* fac[k] = [t |-> tangent vectors (integers), out |-> (facet midpoint - centroid of the owner cell) (integers),
\*           n[q][c], n0[q][c] |-> normals of this basis / of the side-0 basis on the same facets (Fx), nn[q] |-> |n|^2 (Fx)]
FxDotInt(nv, iv) == FX!FxSumSeq([c \in DOMAIN nv |-> FX!FxMulSmall(nv[c], iv[c])])
AbsSum(iv) == SumN(Len(iv), LAMBDA c : Abs(iv[c]))
NormalClauses(e) ==
  IF e.err # "" THEN [NoUnexpectedError |-> FALSE]
  ELSE IF ~(\A k \in DOMAIN e.fac :
              /\ Len(e.fac[k].out) = e.dim /\ \A j \in DOMAIN e.fac[k].t : Len(e.fac[k].t[j]) = e.dim
              /\ \A c \in 1..e.dim : Abs(e.fac[k].out[c]) <= 16000 /\ \A j \in DOMAIN e.fac[k].t : Abs(e.fac[k].t[j][c]) <= 16000
              /\ Len(e.fac[k].n0) = Len(e.fac[k].n) /\ Len(e.fac[k].nn) = Len(e.fac[k].n)
              /\ \A q \in DOMAIN e.fac[k].n : /\ Len(e.fac[k].n[q]) = e.dim /\ Len(e.fac[k].n0[q]) = e.dim /\ FX!FxWF(e.fac[k].nn[q])
                                                /\ \A c \in 1..e.dim : FX!FxWF(e.fac[k].n[q][c]) /\ FX!FxWF(e.fac[k].n0[q][c]))
       THEN [WellFormed |-> FALSE]
  ELSE LET agree(sg) == \A k \in DOMAIN e.fac : \A q \in DOMAIN e.fac[k].n : \A c \in 1..e.dim :
                           FX!FxNear(e.fac[k].n[q][c], FX!FxMulSmall(e.fac[k].n0[q][c], sg), TolGeom)
       IN [NoUnexpectedError |-> TRUE, WellFormed |-> TRUE,
           NormalUnit |-> \A k \in DOMAIN e.fac : \A q \in DOMAIN e.fac[k].n : FX!FxNear(e.fac[k].nn[q], FX!FxInt(1), TolGeom),
           \* the same vector field on both sides of the facets, up to one sign for the whole basis
           SideNormalsAgree |-> agree(1) \/ agree(-1)]
          @@ (IF e.planar = 1
              THEN [NormalOrthogonal |-> \A k \in DOMAIN e.fac : \A q \in DOMAIN e.fac[k].n : \A j \in DOMAIN e.fac[k].t :
                        FX!FxNear(FxDotInt(e.fac[k].n[q], e.fac[k].t[j]), FX!FxZero, FX!FxMulSmall(TolGeom, AbsSum(e.fac[k].t[j]) + 1)),
                    \* on BOUNDARY facets the normal points out of the domain (away from the only cell of the facet); which
                    \* of the two cells an interior facet's normal leaves is a convention the property does not fix
                    NormalOutward |-> e.interior = 1 \/ \A k \in DOMAIN e.fac : \A q \in DOMAIN e.fac[k].n :
                        LET d == FxDotInt(e.fac[k].n[q], e.fac[k].out) IN
                        FX!FxIsNonNeg(d) /\ ~FX!FxNear(d, FX!FxZero, FX!FxMulSmall(TolGeom, AbsSum(e.fac[k].out) + 1))]
              ELSE <<>>)

\* a weak form assembled by one of the repository's own tests (harness/suite_c01.py): the pairing of the RETURNED tensor
\* with dyadic coefficient vectors against the same integrand on the interpolated functions (ConsistentLaw), the shape
\* (N_test, N_trial), and - when the pattern was recorded - every stored non-zero couples DOFs of one cell, rows with the
\* test basis and columns with the trial basis
SuitePatternOK(A, Bu, Bv) ==
  LET cu == TLCEval([k \in 1..Bu.nel |-> {Bu.edofs[j][k] : j \in 1..Bu.nb}])
      cv == TLCEval([k \in 1..Bv.nel |-> {Bv.edofs[j][k] : j \in 1..Bv.nb}])
  IN \A n \in DOMAIN A.trip : \E k \in 1..Bu.nel : A.trip[n][1] \in cv[k] /\ A.trip[n][2] \in cu[k]
SuiteBasisWF(B) == /\ B.nb >= 1 /\ B.nel >= 1 /\ Len(B.edofs) = B.nb
                   /\ \A j \in 1..B.nb : Len(B.edofs[j]) = B.nel /\ \A k \in 1..B.nel : B.edofs[j][k] \in 1..B.N
SuiteClauses(e) ==
  IF e.err # "" THEN [NoUnexpectedError |-> FALSE]
  ELSE IF ~(/\ \A l \in DOMAIN e.laws : /\ FX!FxWF(e.laws[l].lhs) /\ FX!FxWF(e.laws[l].rhs) /\ FX!FxWF(e.laws[l].mag)
                                          /\ e.laws[l].mag[1] \in 0..16000
            /\ (e.haspat = 1 => MatWF(e.pat) /\ SuiteBasisWF(e.Bu) /\ SuiteBasisWF(e.Bv) /\ e.Bu.nel = e.Bv.nel))
       THEN [WellFormed |-> FALSE]
  ELSE [NoUnexpectedError |-> TRUE, WellFormed |-> TRUE,
        ShapeOK |-> e.shape = e.expect,
        ConsistentLaw |-> \A l \in DOMAIN e.laws :
            FX!FxNear(e.laws[l].lhs, e.laws[l].rhs, FX!FxMulSmall(TolSum, e.laws[l].mag[1] + 1))]
       @@ (IF e.haspat = 1 THEN [RowsAreTest |-> e.pat.shape = <<e.Bv.N, e.Bu.N>> /\ SuitePatternOK(e.pat, e.Bu, e.Bv)] ELSE <<>>)

Clauses(e) ==
  CASE e.a = "Bil"    -> BilClauses(e)
    [] e.a = "Lin"    -> LinClauses(e)
    [] e.a = "Fun"    -> FunClauses(e)
    [] e.a = "Interp" -> InterpClauses(e)
    [] e.a = "Subset" -> SubsetClauses(e)
    [] e.a = "Facet"  -> FacetClauses(e)
    [] e.a = "Chk"    -> ChkClauses(e)
    [] e.a = "Law"    -> LawClauses(e)
    [] e.a = "List"   -> ListClauses(e)
    [] e.a = "Normal" -> NormalClauses(e)
    [] e.a = "Suite"  -> SuiteClauses(e)
    [] e.a = "TFun"   -> TFunClauses(e)

Bump(c, r) == [k \in DOMAIN c \cup DOMAIN r |->
                 (IF k \in DOMAIN c THEN c[k] ELSE 0) + (IF k \in DOMAIN r THEN 1 ELSE 0)]

Init == i = 1 /\ bad = <<>> /\ cnt = <<>>
Step == /\ i <= NEv
        /\ LET e == Events[i]
               r == Clauses(e)
           IN /\ bad' = bad \o [k \in 1..Cardinality(Failed(r)) |->
                                  [sid |-> e.sid, pos |-> e.pos, clause |-> SetToSeq(Failed(r))[k]]]
              /\ cnt' = Bump(cnt, r)
        /\ i' = i + 1
Finish == /\ i = NEv + 1
          /\ JsonSerialize(IOEnv.OUT_FILE, [consumed |-> NEv, bad |-> bad, cnt |-> cnt])
          /\ i' = NEv + 2
          /\ UNCHANGED <<bad, cnt>>
Next == Step \/ Finish
Spec == Init /\ [][Next]_vars
==============================================================================
