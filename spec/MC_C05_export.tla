---------------------------- MODULE MC_C05_export ----------------------------
(* spec -> code: writes a sub-universe of MC_C05 as JSON scenarios which the   *)
(* harness executes on the real enforce / condense / penalize / solve.         *)
EXTENDS MC_C05_Universe

Level == IF IOEnv.C05_LEVEL = "thorough" THEN 2 ELSE 1
Pats(n) == IF n <= 2 THEN SUBSET Cells(n)
           ELSE IF Level = 2 THEN {p \in SUBSET Cells(3) : <<2, 1>> \notin p /\ <<2, 2>> \notin p}
           ELSE {p \in SUBSET Cells(3) : p \subseteq {<<1, 1>>, <<1, 2>>, <<3, 2>>, <<3, 3>>, <<2, 3>>}}
Scen == {[A |-> MatOf(n, p, zs), D |-> D, I |-> Reverse(Complement(n, D)),
          givenI |-> g, x |-> XVec(n), b |-> BVec(n)] :
            n \in Ns, p \in UNION {Pats(k) : k \in Ns}, zs \in {{}, {<<1, 1>>}},
            D \in UNION {OrderedSubsets(k) : k \in Ns}, g \in {0, 1}}
Valid(s) == /\ \A k \in DOMAIN s.A.idx : s.A.idx[k] <= s.A.n
            /\ \A r \in DOMAIN s.D : s.D[r] <= s.A.n
Universe == {s \in Scen : Valid(s)}
ASSUME JsonSerialize(IOEnv.OUT_FILE, SetToSeq(Universe))
VARIABLE u
Init == u = 0
Next == u' = u
Spec == Init /\ [][Next]_u
==============================================================================
