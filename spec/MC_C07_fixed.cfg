SPECIFICATION Spec
CONSTANT Sigs <- SigsNamed
INVARIANT NameRowsHold
INVARIANT ClausesHold
CHECK_DEADLOCK FALSE
