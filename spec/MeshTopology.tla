--------------------------- MODULE MeshTopology ---------------------------
(* Abstract mesh connectivity of scikit-fem and the predicates of property    *)
(* C11.  Ids are 1-based (the harness adds 1 to the code's 0-based ids; the   *)
(* code's -1 becomes 0).                                                       *)
(*                                                                             *)
(* Two layers:                                                                 *)
(*   - relational clauses  Conn*  : what C11 demands of the *reported* tables, *)
(*     phrased against ground truth recomputed from the cell list t;           *)
(*   - BuildEntitiesImpl / BuildInverseImpl : transcription of                 *)
(*     skfem/mesh/mesh.py:1065-1100 (np.unique semantics included).            *)
EXTENDS Prelude

\* ---------------------------------------------------------------------------
\* reference cells: the sets of local vertex sets that ARE facets / edges.
\* The code's own tables (refdom.facets / refdom.edges) arrive in the event as
\* lf / le and must be an enumeration of exactly these.
RefFacets(kind) ==
  CASE kind = "line"  -> {{1}, {2}}
    [] kind = "tri"   -> {{1,2}, {2,3}, {1,3}}
    [] kind = "quad"  -> {{1,2}, {2,3}, {3,4}, {1,4}}
    [] kind = "tet"   -> {{1,2,3}, {1,2,4}, {1,3,4}, {2,3,4}}
    [] kind = "hex"   -> {{1,2,5,3}, {1,2,6,4}, {1,3,7,4}, {2,5,8,6}, {3,5,8,7}, {4,6,8,7}}
    [] kind = "wedge" -> {{1,2,3}, {4,5,6}, {1,2,4,5}, {2,3,5,6}, {1,3,4,6}}
RefEdges(kind) ==
  CASE kind = "tet"   -> {{1,2}, {2,3}, {1,3}, {1,4}, {2,4}, {3,4}}
    [] kind = "hex"   -> {{1,2}, {1,3}, {1,4}, {2,5}, {2,6}, {3,5}, {3,7}, {4,6}, {4,7}, {5,8}, {6,8}, {7,8}}
    [] kind = "wedge" -> {{1,2}, {2,3}, {1,3}, {4,5}, {5,6}, {4,6}, {1,4}, {2,5}, {3,6}}
    [] OTHER          -> {}
NNodes(kind) == CASE kind = "line" -> 2 [] kind = "tri" -> 3 [] kind = "quad" -> 4
                  [] kind = "tet" -> 4 [] kind = "hex" -> 8 [] kind = "wedge" -> 6
Dim(kind)    == CASE kind = "line" -> 1 [] kind \in {"tri", "quad"} -> 2 [] OTHER -> 3
Has3D(kind)  == Dim(kind) = 3

LocalKey(cell, loc) == {cell[loc[i]] : i \in DOMAIN loc}

\* ---------------------------------------------------------------------------
\* C11, relational.  e is a Conn event (see harness/project.py: conn_event).
NT(e) == Len(e.t)
NF(e) == Len(e.facets)
NE(e) == Len(e.edges)

IdsIn(seq, n) == \A i \in DOMAIN seq : seq[i] \in 1..n
Raised(e, name) == \E i \in DOMAIN e.errs : e.errs[i] = name

ConnWellFormed(e) ==
  /\ e.err = ""
  /\ \A k \in 1..NT(e) : Len(e.t[k]) = NNodes(e.kind) /\ IdsIn(e.t[k], e.nv)
  /\ Len(e.t2f) = NT(e)
  /\ \A k \in 1..NT(e) : Len(e.t2f[k]) = Len(e.lf) /\ IdsIn(e.t2f[k], NF(e))
  /\ \A f \in 1..NF(e) : IdsIn(e.facets[f], e.nv)
  /\ Len(e.f2t) = NF(e)
  /\ \A f \in 1..NF(e) : Len(e.f2t[f]) = 2 /\ \A i \in 1..2 : e.f2t[f][i] \in 0..NT(e)
  /\ Has3D(e.kind) =>
       /\ Len(e.t2e) = NT(e)
       /\ \A k \in 1..NT(e) : Len(e.t2e[k]) = Len(e.le) /\ IdsIn(e.t2e[k], NE(e))
       /\ \A g \in 1..NE(e) : Len(e.edges[g]) = 2 /\ IdsIn(e.edges[g], e.nv)
       /\ TRUE

RefTablesOK(e) ==
  /\ {VSet(e.lf[s]) : s \in DOMAIN e.lf} = RefFacets(e.kind)
  /\ Len(e.lf) = Cardinality(RefFacets(e.kind))
  /\ {VSet(e.le[s]) : s \in DOMAIN e.le} = RefEdges(e.kind)
  /\ Len(e.le) = Cardinality(RefEdges(e.kind))

\* ground truth from the cell list
TrueFacetKeys(e) == {LocalKey(e.t[k], e.lf[s]) : k \in 1..NT(e), s \in DOMAIN e.lf}
TrueEdgeKeys(e)  == {LocalKey(e.t[k], e.le[s]) : k \in 1..NT(e), s \in DOMAIN e.le}
OwnersOfKey(e, key) == {k \in 1..NT(e) : \E s \in DOMAIN e.lf : LocalKey(e.t[k], e.lf[s]) = key}
Owners(e) == [f \in 1..NF(e) |-> OwnersOfKey(e, VSet(e.facets[f]))]

EntitiesUnique(e) ==
  /\ \A f, g \in 1..NF(e) : f # g => VSet(e.facets[f]) # VSet(e.facets[g])
  /\ e.kind # "wedge" => \A f \in 1..NF(e) : IsInjectiveSeq(e.facets[f])
  /\ {VSet(e.facets[f]) : f \in 1..NF(e)} = TrueFacetKeys(e)       \* each facet once, none invented, none missing
  /\ Has3D(e.kind) =>
       /\ \A a, b \in 1..NE(e) : a # b => VSet(e.edges[a]) # VSet(e.edges[b])
       /\ {VSet(e.edges[g]) : g \in 1..NE(e)} = TrueEdgeKeys(e)

SlotwiseT2F(e) == \A k \in 1..NT(e) : \A s \in DOMAIN e.lf :
                     VSet(e.facets[e.t2f[k][s]]) = LocalKey(e.t[k], e.lf[s])
SlotwiseT2E(e) == Has3D(e.kind) => \A k \in 1..NT(e) : \A s \in DOMAIN e.le :
                     VSet(e.edges[e.t2e[k][s]]) = LocalKey(e.t[k], e.le[s])

Manifold(e, own) == \A f \in 1..NF(e) : Cardinality(own[f]) \in {1, 2}

F2TExact(e, own) == \A f \in 1..NF(e) :
   IF Cardinality(own[f]) = 1
   THEN e.f2t[f][1] \in own[f] /\ e.f2t[f][2] = 0                \* 0 encodes the code's -1
   ELSE {e.f2t[f][1], e.f2t[f][2]} = own[f]

\* f2e: slot s of facet f names the edge spanned by the local vertices lfe[s] of the stored facet
F2EExact(e) == (Has3D(e.kind) /\ e.lfe # <<>>) =>
   /\ ~Raised(e, "f2e") /\ Len(e.f2e) = NF(e)
   /\ \A f \in 1..NF(e) : Len(e.f2e[f]) = Len(e.lfe) /\ IdsIn(e.f2e[f], NE(e))
   /\ \A f \in 1..NF(e) : \A s \in DOMAIN e.lfe :
                   VSet(e.edges[e.f2e[f][s]]) = LocalKey(e.facets[f], e.lfe[s])

TrueBFacets(e, own) == {f \in 1..NF(e) : Cardinality(own[f]) = 1}
BoundaryFacetsExact(e, own) == /\ ~Raised(e, "bfacets")
                               /\ VSet(e.bfacets) = TrueBFacets(e, own)
                               /\ IsInjectiveSeq(e.bfacets)
BoundaryNodesExact(e, own)  == /\ ~Raised(e, "bnodes")
                               /\ VSet(e.bnodes) = UNION {VSet(e.facets[f]) : f \in TrueBFacets(e, own)}
                               /\ IsInjectiveSeq(e.bnodes)
InteriorBoundaryPartition(e) == /\ ~Raised(e, "inodes") /\ ~Raised(e, "bnodes")
                                /\ VSet(e.inodes) \cap VSet(e.bnodes) = {}
                                /\ VSet(e.inodes) \cup VSet(e.bnodes) = 1..e.nv
                                /\ IsInjectiveSeq(e.inodes)
\* an edge is a boundary edge iff it is an edge of a boundary facet
EdgeOfFacet(e, g, f) == VSet(e.edges[g]) \subseteq VSet(e.facets[f])
BoundaryEdgesExact(e, own) == Has3D(e.kind) =>
   /\ ~Raised(e, "bedges")
   /\ VSet(e.bedges) = {g \in 1..NE(e) : \E f \in TrueBFacets(e, own) : EdgeOfFacet(e, g, f)}
   /\ IsInjectiveSeq(e.bedges)

\* interior edges are exactly the edges that are not boundary edges (both sets judged against the cell list)
InteriorEdgesExact(e, own) == (Has3D(e.kind) /\ "iedges" \in DOMAIN e) =>
   /\ ~Raised(e, "iedges")
   /\ VSet(e.iedges) = (1..NE(e)) \ {g \in 1..NE(e) : \E f \in TrueBFacets(e, own) : EdgeOfFacet(e, g, f)}
   /\ IsInjectiveSeq(e.iedges)

IncidenceMatrices(e) ==
  /\ \A n \in {"p2f", "p2t", "p2e", "e2t"} : ~Raised(e, n)
  /\ Len(e.p2f) = NF(e) /\ \A f \in 1..NF(e) : VSet(e.p2f[f]) = VSet(e.facets[f])
  /\ Len(e.p2t) = NT(e) /\ \A k \in 1..NT(e) : VSet(e.p2t[k]) = VSet(e.t[k])
  /\ Has3D(e.kind) =>
       /\ Len(e.p2e) = NE(e) /\ \A g \in 1..NE(e) : VSet(e.p2e[g]) = VSet(e.edges[g])
       /\ Len(e.e2t) = NT(e)
       /\ \A k \in 1..NT(e) : VSet(e.e2t[k]) = {g \in 1..NE(e) : VSet(e.edges[g]) \subseteq VSet(e.t[k])}

\* stored hexahedral (and wedge quadrilateral) facets keep a cyclic order: consecutive stored vertices span an edge
HexCyclic(e) == e.kind = "hex" => \A f \in 1..NF(e) :
   LET n == Len(e.facets[f]) IN
   n = 4 => \A i \in 1..4 : {e.facets[f][i], e.facets[f][(i % 4) + 1]} \in TrueEdgeKeys(e)

\* ---- numbering independence: geometric canonical form (needs integer coordinates e.p) ----
GeoPt(e, v)      == e.p[v]
GeoSetOf(e, S)   == {GeoPt(e, v) : v \in S}
GeoCanon(e) ==
  LET own == Owners(e) IN
  [ cells   |-> {GeoSetOf(e, VSet(e.t[k])) : k \in 1..NT(e)},
    facets  |-> {GeoSetOf(e, VSet(e.facets[f])) : f \in 1..NF(e)},
    f2t     |-> {<<GeoSetOf(e, VSet(e.facets[f])),
                   {GeoSetOf(e, VSet(e.t[k])) : k \in {e.f2t[f][1], e.f2t[f][2]} \ {0}}>> : f \in 1..NF(e)},
    bfacets |-> {GeoSetOf(e, VSet(e.facets[f])) : f \in VSet(e.bfacets) \cap (1..NF(e))},
    bnodes  |-> GeoSetOf(e, VSet(e.bnodes) \cap (1..e.nv)),
    inodes  |-> GeoSetOf(e, VSet(e.inodes) \cap (1..e.nv)),
    edges   |-> {GeoSetOf(e, VSet(e.edges[g])) : g \in 1..NE(e)},
    bedges  |-> {GeoSetOf(e, VSet(e.edges[g])) : g \in VSet(e.bedges) \cap (1..NE(e))} ]

\* the advertised sizes (nelements, nvertices, nfacets, nedges, nnodes, first-order flag) are those of the tables
MaxId(e) == MaxSet(UNION {VSet(e.t[k]) : k \in 1..NT(e)})
CountsAgree(e) == ("counts" \in DOMAIN e /\ Len(e.counts) = 6) =>
   /\ e.counts[1] = NT(e)
   /\ e.counts[3] = NF(e)
   /\ (Has3D(e.kind) => e.counts[4] = NE(e))
   \* nvertices counts at least the vertices the cells use (points of no cell may or may not be counted)
   /\ (NT(e) > 0 => /\ e.counts[2] >= MaxId(e)
                     /\ IF e.counts[6] = 1 THEN e.counts[5] = NNodes(e.kind) ELSE e.counts[5] >= NNodes(e.kind))

ConnClauses(e) ==
  IF ~ConnWellFormed(e) THEN [WellFormed |-> FALSE]
  ELSE LET own == Owners(e) IN
    [ WellFormed |-> TRUE,
      RefTablesOK |-> RefTablesOK(e),
      EntitiesUnique |-> EntitiesUnique(e),
      SlotwiseT2F |-> SlotwiseT2F(e),
      SlotwiseT2E |-> SlotwiseT2E(e),
      F2TExact |-> Manifold(e, own) => F2TExact(e, own),
      F2EExact |-> F2EExact(e),
      BoundaryFacetsExact |-> BoundaryFacetsExact(e, own),
      BoundaryNodesExact |-> BoundaryNodesExact(e, own),
      InteriorBoundaryPartition |-> InteriorBoundaryPartition(e),
      BoundaryEdgesExact |-> BoundaryEdgesExact(e, own),
      InteriorEdgesExact |-> InteriorEdgesExact(e, own),
      IncidenceMatrices |-> IncidenceMatrices(e),
      HexCyclic |-> HexCyclic(e),
      CountsAgree |-> CountsAgree(e) ]

\* ---------------------------------------------------------------------------
\* Transcription of Mesh.build_entities / build_inverse (mesh.py:1065-1100).
\*   indexing        = hstack(t[ix] for ix in indices)    -> column (s-1)*nt + k  holds slot s of cell k
\*   sorted_indexing = np.sort(., axis=0)                 -> each column sorted ascending
\*   np.unique(axis=1, return_index, return_inverse)      -> unique columns in lexicographic order,
\*                                                           ixa = first occurrence, ixb = inverse
\*   mapping = ixb.reshape((nslots, nt))
Column(t, loc, s, k) == [i \in DOMAIN loc[s] |-> t[k][loc[s][i]]]
SortTuple(tp) == SortedSeq(VSet(tp))

RECURSIVE LexSortedSeq(_)
LexSortedSeq(S) == IF S = {} THEN <<>>
                   ELSE LET x == CHOOSE y \in S : \A z \in S : z = y \/ LexLess(y, z)
                        IN <<x>> \o LexSortedSeq(S \ {x})

BuildEntitiesImpl(t, loc, sort) ==
  LET nt   == Len(t)
      ns   == Len(loc)
      col(c)  == Column(t, loc, ((c - 1) \div nt) + 1, ((c - 1) % nt) + 1)       \* hstack order
      scol(c) == SortTuple(col(c))
      uniq == LexSortedSeq({scol(c) : c \in 1..(ns * nt)})
      ixa  == [u \in DOMAIN uniq |-> MinSet({c \in 1..(ns * nt) : scol(c) = uniq[u]})]
      ixb  == [c \in 1..(ns * nt) |-> CHOOSE u \in DOMAIN uniq : uniq[u] = scol(c)]
  IN [ ents    |-> IF sort THEN uniq ELSE [u \in DOMAIN uniq |-> col(ixa[u])],
       mapping |-> [k \in 1..nt |-> [s \in 1..ns |-> ixb[(s - 1) * nt + k]]] ]

\*   e = mapping.flatten('C') (slot-major), tix = tile(arange(nt), nslots)
\*   first / last occurrence per entity; equal => second := -1 (0 here)
BuildInverseImpl(nt, mapping, nents) ==
  LET ns  == Len(mapping[1])
      flat == [c \in 1..(ns * nt) |-> mapping[((c - 1) % nt) + 1][((c - 1) \div nt) + 1]]
      tix(c) == ((c - 1) % nt) + 1
  IN [f \in 1..nents |->
        LET a == tix(FirstPos(flat, f))
            b == tix(LastPos(flat, f))
        IN IF a = b THEN <<a, 0>> ELSE <<a, b>>]

\* the full derived-connectivity record as the code computes it, for a mesh [kind, nv, t] with the
\* reference tables lf / le / lfe given (MeshHex1 builds facets with sort=False)
ConnImpl(kind, nv, t, lf, le, lfe) ==
  LET fe   == BuildEntitiesImpl(t, lf, kind # "hex")
      f2t  == BuildInverseImpl(Len(t), fe.mapping, Len(fe.ents))
      ee   == IF Has3D(kind) THEN BuildEntitiesImpl(t, le, TRUE) ELSE [ents |-> <<>>, mapping |-> <<>>]
      f2e  == IF Has3D(kind) THEN BuildEntitiesImpl(fe.ents, lfe, TRUE).mapping ELSE <<>>
      bf   == SortedSeq({f \in DOMAIN f2t : f2t[f][2] = 0})
      bn   == SortedSeq(UNION {VSet(fe.ents[f]) : f \in VSet(bf)})
  IN [ kind |-> kind, nv |-> nv, t |-> t, lf |-> lf, le |-> le, lfe |-> lfe, err |-> "",
       facets |-> fe.ents, t2f |-> fe.mapping, f2t |-> f2t,
       edges |-> ee.ents, t2e |-> ee.mapping, f2e |-> f2e,
       bfacets |-> bf,
       bnodes |-> bn, inodes |-> SortedSeq((1..nv) \ VSet(bn)),
       bedges |-> IF Has3D(kind)
                  THEN SortedSeq({g \in DOMAIN ee.ents : \E f \in VSet(bf) :
                                     VSet(ee.ents[g]) \subseteq VSet(fe.ents[f])})
                  ELSE <<>>,
       errs |-> <<>>,
       p2f |-> [f \in DOMAIN fe.ents |-> SortedSeq(VSet(fe.ents[f]))],
       p2t |-> [k \in DOMAIN t |-> SortedSeq(VSet(t[k]))],
       p2e |-> [g \in DOMAIN ee.ents |-> SortedSeq(VSet(ee.ents[g]))],
       e2t |-> IF Has3D(kind)
               THEN [k \in DOMAIN t |-> SortedSeq({g \in DOMAIN ee.ents : VSet(ee.ents[g]) \subseteq VSet(t[k])})]
               ELSE <<>> ]
==============================================================================
