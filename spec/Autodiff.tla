------------------------------ MODULE Autodiff ------------------------------
(* Property C20: the automatic-differentiation form and the integrand helpers. *)
(*                                                                             *)
(* (a) integer tensor algebra with the textbook definitions of the helpers of  *)
(*     skfem/helpers.py (NumPy) and skfem/autodiff/helpers.py (JAX): dot,      *)
(*     ddot, dddot, prod, mul, trace, transpose, eye / identity, sym_grad      *)
(*     (times 2), div, curl, det (2x2, 3x3), cross, inv (through A inv(A) = I).*)
(*     Tensors are nested sequences, one per evaluation point.                 *)
(* (b) nonlinear integrands: terms of the grammar of AssemblySem, polynomial   *)
(*     in the unknown "u" and linear in the test function "v".  Residual and   *)
(*     directional derivative are defined by forward-mode rules on (hyper-)    *)
(*     dual numbers: sum rule, product rule; a power is a repeated product.    *)
(* (c) NonlinearAssembleImpl: transcription of                                 *)
(*     skfem/autodiff/__init__.py:120-226 (same COO bookkeeping as             *)
(*     BilinearForm, rows = edofs[i], cols = edofs[j], data[j, i], rhs = -F).  *)
(* Clauses: HelperEqualsDefinition, VariantsAgree, JacobianIsDerivative,       *)
(* ResidualIsMinusF, LinearReducesToAssembly.                                  *)
EXTENDS AssemblySem

\* ===========================================================================
\* (a) tensor algebra on integers (indices 1-based)
TDot(u, v)      == SumN(Len(u), LAMBDA a : u[a] * v[a])
TDDot(A, C)     == SumN(Len(A), LAMBDA a : TDot(A[a], C[a]))
TDDDot(A, C)    == SumN(Len(A), LAMBDA a : TDDot(A[a], C[a]))
TProd2(u, v)    == [a \in DOMAIN u |-> [b \in DOMAIN v |-> u[a] * v[b]]]
TProd3(u, v, w) == [a \in DOMAIN u |-> [b \in DOMAIN v |-> [c \in DOMAIN w |-> u[a] * v[b] * w[c]]]]
TMulV(A, x)     == [a \in DOMAIN A |-> TDot(A[a], x)]
TMulM(A, C)     == [a \in DOMAIN A |-> [c \in DOMAIN C[1] |-> SumN(Len(C), LAMBDA b : A[a][b] * C[b][c])]]
TTrace(T)       == SumN(Len(T), LAMBDA a : T[a][a])
TTranspose(T)   == [b \in DOMAIN T[1] |-> [a \in DOMAIN T |-> T[a][b]]]
TEye(w, n)      == [a \in 1..n |-> [b \in 1..n |-> IF a = b THEN w ELSE 0]]
TSymGrad2(G)    == [a \in DOMAIN G |-> [b \in DOMAIN G |-> G[a][b] + G[b][a]]]       \* 2 * sym_grad
TDiv(G)         == TTrace(G)
TCurlScalar2(g) == <<g[2], -g[1]>>                                  \* curl of a scalar field in 2-D, g = grad u
TCurlVec2(G)    == G[2][1] - G[1][2]                                \* G[i][j] = d u_i / d x_j
TCurl3(G)       == <<G[3][2] - G[2][3], G[1][3] - G[3][1], G[2][1] - G[1][2]>>
TDet2(A)        == A[1][1] * A[2][2] - A[1][2] * A[2][1]
TDet3(A)        == A[1][1] * (A[2][2] * A[3][3] - A[2][3] * A[3][2])
                 - A[1][2] * (A[2][1] * A[3][3] - A[2][3] * A[3][1])
                 + A[1][3] * (A[2][1] * A[3][2] - A[2][2] * A[3][1])
TDet(A)         == IF Len(A) = 2 THEN TDet2(A) ELSE TDet3(A)
TCross2(a, b)   == a[1] * b[2] - a[2] * b[1]
TCross3(a, b)   == <<a[2] * b[3] - a[3] * b[2], a[3] * b[1] - a[1] * b[3], a[1] * b[2] - a[2] * b[1]>>
\* X is the inverse of A, given as X * s (s a power of two): A X = s I and X A = s I
TIsInverse(A, X, s) == LET n == Len(A) IN
                       /\ TMulM(A, X) = TEye(s, n) /\ TMulM(X, A) = TEye(s, n)

\* the definition of helper `name` on the arguments args (a sequence) with integer parameter n.
\* Output scale: 1, except sym_grad (2) and inv (relational, see HelperOK).
HelperDef(name, args, n) ==
  CASE name = "dot"        -> TDot(args[1], args[2])
    [] name = "ddot"       -> TDDot(args[1], args[2])
    [] name = "dddot"      -> TDDDot(args[1], args[2])
    [] name = "prod2"      -> TProd2(args[1], args[2])
    [] name = "prod3"      -> TProd3(args[1], args[2], args[3])
    [] name = "mulv"       -> TMulV(args[1], args[2])
    [] name = "mulm"       -> TMulM(args[1], args[2])
    [] name = "trace"      -> TTrace(args[1])
    [] name = "transpose"  -> TTranspose(args[1])
    [] name = "eye"        -> TEye(args[1], n)
    [] name = "identity"   -> TEye(1, n)
    [] name = "sym_grad"   -> TSymGrad2(args[1])
    [] name = "div"        -> TDiv(args[1])
    [] name = "curl_s2"    -> TCurlScalar2(args[1])
    [] name = "curl_v2"    -> TCurlVec2(args[1])
    [] name = "curl_3"     -> TCurl3(args[1])
    [] name = "det"        -> TDet(args[1])
    [] name = "cross2"     -> TCross2(args[1], args[2])
    [] name = "cross3"     -> TCross3(args[1], args[2])
    [] name = "grad"       -> args[1]
KnownHelper(name) == name \in {"dot", "ddot", "dddot", "prod2", "prod3", "mulv", "mulm", "trace", "transpose", "eye",
                               "identity", "sym_grad", "div", "curl_s2", "curl_v2", "curl_3", "det", "cross2", "cross3",
                               "grad", "inv"}
\* out is what a variant returned at one point (times the stated scale s)
HelperOK(name, args, n, out, s) ==
  IF name = "inv" THEN TIsInverse(args[1], out, s)
  ELSE out = HelperDef(name, args, n)

\* ===========================================================================
\* (b) residual and derivative of a nonlinear integrand.
\* A term is normalised first (NormT with su = sv = sphi).  Dual numbers <<f, fa, fb, fab>>:
\* value, derivative in direction a, in direction b, and mixed second derivative.
DConst(c)    == <<c, 0, 0, 0>>
DAdd(x, y, mx, my) == <<mx * x[1] + my * y[1], mx * x[2] + my * y[2], mx * x[3] + my * y[3], mx * x[4] + my * y[4]>>
DMul(x, y)   == <<x[1] * y[1],
                  x[2] * y[1] + x[1] * y[2],                                     \* product rule
                  x[3] * y[1] + x[1] * y[3],
                  x[4] * y[1] + x[2] * y[3] + x[3] * y[2] + x[1] * y[4]>>
\* U = interpolated unknown u_h, Da / Db = the two directions (tables [c][k][q]); V = test function table.
\* The unknown is the dual number <<U, Da, Db, 0>>, everything else is constant with respect to u.
RECURSIVE EvalDual(_, _, _, _, _, _, _, _)
EvalDual(t, U, Da, Db, V, env, k, q) ==
  CASE t[1] = "u" -> <<U[t[2]][k][q], Da[t[2]][k][q], Db[t[2]][k][q], 0>>
    [] t[1] = "v" -> DConst(V[t[2]][k][q])
    [] t[1] = "f" -> DConst(env.fld[t[2]].val[t[3]][k][q])
    [] t[1] = "p" -> DConst(env.prm[t[2]])
    [] t[1] = "k" -> DConst(t[2])
    [] t[1] = "*" -> DMul(EvalDual(t[2], U, Da, Db, V, env, k, q), EvalDual(t[3], U, Da, Db, V, env, k, q))
    [] t[1] = "+" -> DAdd(EvalDual(t[2], U, Da, Db, V, env, k, q), EvalDual(t[3], U, Da, Db, V, env, k, q), t[4], t[5])

ZeroTab(B) == [c \in 1..B.nc |-> [k \in 1..B.nel |-> [q \in 1..B.nq |-> 0]]]

\* mode "residual": the form is R(u; v), linear in v.   F_i = sum R(u_h; phi_i) dx,  J_ij = sum D_u R(u_h; phi_i)[phi_j] dx
\* mode "hessian" : the form is an energy density P(u).  F_i = sum DP(u_h)[phi_i] dx,  J_ij = sum D2P(u_h)[phi_i, phi_j] dx
NLNorm(R, B, env) == NormT(R, B.sphi, B.sphi, env)
NLScale(R, B, env) == NLNorm(R, B, env).s * B.sdx
NLLocalJac(R, B, x, env, mode) ==          \* Loc[k][i][j]
  LET n == NLNorm(R, B, env).t  U == Interp(B, x)  Z == ZeroTab(B) IN
  TLCEval([k \in 1..B.nel |-> TLCEval([i \in 1..B.nb |-> TLCEval([j \in 1..B.nb |->
     SumN(B.nq, LAMBDA q :
        (IF mode = "hessian" THEN EvalDual(n, U, B.phi[i], B.phi[j], Z, env, k, q)[4]
                             ELSE EvalDual(n, U, B.phi[j], Z, B.phi[i], env, k, q)[2]) * B.dx[k][q])])])])
NLLocalRes(R, B, x, env, mode) ==          \* Loc[k][i]
  LET n == NLNorm(R, B, env).t  U == Interp(B, x)  Z == ZeroTab(B) IN
  TLCEval([k \in 1..B.nel |-> TLCEval([i \in 1..B.nb |->
     SumN(B.nq, LAMBDA q :
        (IF mode = "hessian" THEN EvalDual(n, U, B.phi[i], Z, Z, env, k, q)[2]
                             ELSE EvalDual(n, U, Z, Z, B.phi[i], env, k, q)[1]) * B.dx[k][q])])])
NLResidualVec(R, B, x, env, mode) ==
  LET loc == NLLocalRes(R, B, x, env, mode)  h == Hits(B) IN
  [r \in 1..B.N |-> SumOver([y \in h[r] |-> loc[y[1]][y[2]]], h[r])]

\* clauses on what NonlinearForm.assemble(basis, x=...) returned: J = [shape, trip], rhs a vector
JacobianIsDerivative(J, R, B, x, env, mode) ==
  BilinearRepresentsL(J, NLLocalJac(R, B, x, env, mode), Hits(B), Hits(B), B, B)
ResidualIsMinusF(rhs, R, B, x, env, mode) ==
  LET F == NLResidualVec(R, B, x, env, mode) IN Len(rhs) = B.N /\ \A r \in 1..B.N : rhs[r] = -F[r]
\* R(u; v) = a(u, v) + l(v) with a linear in u: the matrix equals the bilinear assembly of a, and
\* rhs = -(A x + b) with b the linear assembly of l
LinearReducesToAssembly(J, rhs, A, b, x) ==
  /\ SameMatrix(J, A)
  /\ Len(rhs) = Len(b) /\ Len(x) = A.shape[2]
  /\ \A r \in DOMAIN rhs :
        rhs[r] = -(b[r] + LET S == {n \in DOMAIN A.trip : A.trip[n][1] = r} IN SumOver([n \in S |-> A.trip[n][3] * x[A.trip[n][2]]], S))

\* ===========================================================================
\* (c) transcription of NonlinearForm._assemble (skfem/autodiff/__init__.py:120-226), 0-based arrays.
\* mut: "none" = the code; "dataij" / "rhssign" / "xother" are seeded deviations for the model check.
NonlinearAssembleImplM(R, B, x, env, mode, mut) ==
  LET nt == B.nel   NB == B.nb                                  \* :140
      sz == NB * NB * nt                                        \* :160
      n  == NLNorm(R, B, env).t
      U  == InterpolateImpl(B, x)                               \* :128-133 x = basis.interpolate(x)
      Z  == ZeroTab(B)
      \* :183-199  for i: (y, DF) = linearize(form(., V_i), x); for j: DFU = DF(basis[j]); data[j, i, :] = sum(DFU * dx)
      y(i, k)      == SumN(B.nq, LAMBDA q :
                        (IF mode = "hessian" THEN EvalDual(n, U, B.phi[i], Z, Z, env, k, q)[2]
                                             ELSE EvalDual(n, U, Z, Z, B.phi[i], env, k, q)[1]) * B.dx[k][q])
      dfu(i, j, k) == SumN(B.nq, LAMBDA q :
                        (IF mode = "hessian" THEN EvalDual(n, U, B.phi[i], B.phi[j], Z, env, k, q)[4]
                                             ELSE EvalDual(n, U, B.phi[j], Z, B.phi[i], env, k, q)[2]) * B.dx[k][q])
      data3 == [j \in 0..(NB - 1) |-> [i \in 0..(NB - 1) |-> [k \in 0..(nt - 1) |->
                  IF mut = "dataij" THEN dfu(j + 1, i + 1, k + 1) ELSE dfu(i + 1, j + 1, k + 1)]]]          \* :196
      \* :192-195  ixs = slice(nt*(NB*j+i), ...); rows[ixs] = edofs[i]; cols[ixs] = edofs[j]
      J(p) == p \div (NB * nt)   I(p) == (p \div nt) % NB   K(p) == p % nt
      rows == [p \in 0..(sz - 1) |-> B.edofs[I(p) + 1][K(p) + 1]]
      cols == [p \in 0..(sz - 1) |-> B.edofs[J(p) + 1][K(p) + 1]]
      data == [p \in 0..(sz - 1) |-> data3[J(p)][I(p)][K(p)]]                                               \* :203 flatten('C')
      \* :197-201  ixs1 = slice(nt*i, nt*(i+1)); rows1[ixs1] = edofs[i]; data1[ixs1] = sum(y * dx); returned: -data1  (:215)
      rows1 == [p \in 0..(NB * nt - 1) |-> B.edofs[(p \div nt) + 1][(p % nt) + 1]]
      data1 == [p \in 0..(NB * nt - 1) |-> (IF mut = "rhssign" THEN 1 ELSE -1) * y((p \div nt) + 1, (p % nt) + 1)]
  IN [mat |-> [rows |-> rows, cols |-> cols, data |-> data, n |-> sz, shape |-> <<B.N, B.N>>, lshape |-> <<NB, NB>>],
      vec |-> [rows |-> rows1, data |-> data1, n |-> NB * nt, shape |-> <<B.N>>]]
NonlinearAssembleImpl(R, B, x, env, mode) == NonlinearAssembleImplM(R, B, x, env, mode, "none")
==============================================================================
