------------------------------- MODULE Selection -------------------------------
(* Geometric selections and trace meshes (skfem/mesh/mesh.py: nodes_satisfying,   *)
(* facets_satisfying (+ boundaries_only, + normal), elements_satisfying,           *)
(* facets_around, trace) -- specification growth beyond the listed properties      *)
(* (DESIGN section 10, X03).                                                       *)
(*                                                                                 *)
(* Event: [kind, p (integer coordinates), t, facets, f2t (0 = no neighbour) -- the  *)
(* mesh with the code's own facet numbering --, q (query kind), axis, c, sense:     *)
(* the half space  sense * (4 * x[axis] - (4 c + 1)) <= 0  tested on entity         *)
(* midpoints (the quarter keeps every midpoint of an integer mesh off the plane),   *)
(* bonly, normal, elements, flip, res (ids), ori (0/1 per entry of res),            *)
(* tp / tt (points and cells of the trace mesh), err].                              *)
EXTENDS MeshTopology

NVx(e) == Len(e.p)
DimP(e) == Len(e.p[1])
SumAx(e, S, d) == SumOver([v \in S |-> e.p[v][d]], S)
\* midpoint of the entity with vertex SEQUENCE vs (the code averages the listed vertices, with multiplicity)
SumSeqAx(e, vs, d) == SumSeq([i \in DOMAIN vs |-> e.p[vs[i]][d]])
InHalf(e, vs) == e.sense * (4 * SumSeqAx(e, vs, e.axis) - (4 * e.c + 1) * Len(vs)) <= 0

CellsOfFacet(e, f) == {k \in 1..NT(e) : \E s \in DOMAIN e.lf : LocalKey(e.t[k], e.lf[s]) = VSet(e.facets[f])}
IsBoundaryFacet(e, f) == Cardinality(CellsOfFacet(e, f)) = 1
BoundaryVertices(e) == UNION {VSet(e.facets[f]) : f \in {g \in 1..NF(e) : IsBoundaryFacet(e, g)}}

ResSet(e) == {e.res[i] : i \in DOMAIN e.res}
Ascending(s) == \A i \in 1..(Len(s) - 1) : s[i] < s[i + 1]

ExpectNodes(e)    == {v \in 1..NVx(e) : InHalf(e, <<v>>) /\ (e.bonly = 1 => v \in BoundaryVertices(e))}
ExpectFacets(e)   == {f \in 1..NF(e) : InHalf(e, e.facets[f]) /\ (e.bonly = 1 => IsBoundaryFacet(e, f))}
ExpectElements(e) == {k \in 1..NT(e) : InHalf(e, e.t[k])}

\* ---- outward direction of facet f seen from cell k, in integers
Vec(e, a, b) == [d \in 1..DimP(e) |-> e.p[b][d] - e.p[a][d]]
Dot(u, v) == SumSeq([d \in DOMAIN u |-> u[d] * v[d]])
Cross(u, v) == <<u[2] * v[3] - u[3] * v[2], u[3] * v[1] - u[1] * v[3], u[1] * v[2] - u[2] * v[1]>>
Perp(e, f) == LET fv == e.facets[f] IN
   CASE DimP(e) = 1 -> <<1>>
     [] DimP(e) = 2 -> LET u == Vec(e, fv[1], fv[2]) IN <<u[2], -u[1]>>
     [] OTHER -> IF Len(fv) = 3 THEN Cross(Vec(e, fv[1], fv[2]), Vec(e, fv[1], fv[3]))
                 ELSE Cross(Vec(e, fv[1], fv[2]), Vec(e, fv[1], fv[Len(fv)]))
\* (facet midpoint - cell midpoint), scaled by the two vertex counts
OutDir(e, f, k) == [d \in 1..DimP(e) |-> Len(e.t[k]) * SumSeqAx(e, e.facets[f], d) - Len(e.facets[f]) * SumSeqAx(e, e.t[k], d)]
\* sign of (given direction . outward unit normal of cell k on facet f)
SignAgainstOutward(e, f, k) == Sgn(Dot(Perp(e, f), OutDir(e, f, k))) * Sgn(Dot(Perp(e, f), e.normal))

SelWF(e) == /\ \A i \in DOMAIN e.res : e.res[i] \in Nat
            /\ (e.q \in {"facets_normal", "around"} => Len(e.ori) = Len(e.res) /\ \A i \in DOMAIN e.ori : e.ori[i] \in {0, 1})

SelectionClauses(e) ==
  IF e.err # "" THEN
     \* every query answers; only the trace mesh of an EMPTY facet set may be refused (there is no empty mesh)
     [SelectionAvailable |-> e.q = "trace" /\ ~(e.err \in {"Timeout"}) /\ e.p # <<>> /\ ExpectFacets(e) = {}]
  ELSE IF ~SelWF(e) THEN [ResultWellFormed |-> FALSE]
  ELSE IF e.q = "nodes" THEN
     [ ResultWellFormed |-> TRUE, NodesExact |-> ResSet(e) = ExpectNodes(e), NoRepeats |-> IsInjectiveSeq(e.res), AscendingIds |-> Ascending(e.res) ]
  ELSE IF e.q = "facets" THEN
     [ ResultWellFormed |-> TRUE, FacetsExact |-> ResSet(e) = ExpectFacets(e), NoRepeats |-> IsInjectiveSeq(e.res), AscendingIds |-> Ascending(e.res) ]
  ELSE IF e.q = "elements" THEN
     [ ResultWellFormed |-> TRUE, ElementsExact |-> ResSet(e) = ExpectElements(e), NoRepeats |-> IsInjectiveSeq(e.res), AscendingIds |-> Ascending(e.res) ]
  ELSE IF e.q = "facets_normal" THEN
     [ ResultWellFormed |-> TRUE, FacetsExact |-> ResSet(e) = ExpectFacets(e), NoRepeats |-> IsInjectiveSeq(e.res),
       \* flag 0: the first neighbour's outward normal agrees with the requested direction; flag 1: it opposes it
       OrientationFollowsNormal |-> \A i \in DOMAIN e.res :
            LET f == e.res[i]
                s == IF f \in 1..NF(e) /\ e.f2t[f][1] \in 1..NT(e) THEN SignAgainstOutward(e, f, e.f2t[f][1]) ELSE 0
            IN (s > 0 => e.ori[i] = 0) /\ (s < 0 => e.ori[i] = 1) ]
  ELSE IF e.q = "around" THEN
     LET sel == {e.elements[i] : i \in DOMAIN e.elements}
         frontier == {f \in 1..NF(e) : Cardinality(CellsOfFacet(e, f) \cap sel) = 1 }
     IN
     [ ResultWellFormed |-> TRUE,
       \* exactly the facets with one selected cell on one side only
       FrontierExact |-> ResSet(e) = frontier, NoRepeats |-> IsInjectiveSeq(e.res),
       \* the flag names the neighbour slot holding the selected cell (flip: the slot NOT holding it)
       OrientationNamesInside |-> \A i \in DOMAIN e.res :
            LET f == e.res[i] IN f \in 1..NF(e) =>
                IF e.flip = 0 THEN e.f2t[f][e.ori[i] + 1] \in sel
                ELSE e.f2t[f][e.ori[i] + 1] \notin sel ]
  ELSE IF e.q = "trace" THEN
     LET fs == e.res IN
     [ ResultWellFormed |-> /\ Len(e.tt) = Len(fs) /\ \A k \in DOMAIN e.tt : \A i \in DOMAIN e.tt[k] : e.tt[k][i] \in DOMAIN e.tp,
       FacetsExact |-> ResSet(e) = ExpectFacets(e),
       \* cell k of the trace mesh is facet res[k], vertex by vertex (as points)
       TraceCellsAreTheFacets |-> /\ Len(e.tt) = Len(fs)
                                  /\ \A k \in DOMAIN e.tt : /\ k \in DOMAIN fs /\ fs[k] \in 1..NF(e)
                                                            /\ Len(e.tt[k]) = Len(e.facets[fs[k]])
                                                            /\ \A i \in DOMAIN e.tt[k] : e.tt[k][i] \in DOMAIN e.tp
                                                            /\ {e.tp[e.tt[k][i]] : i \in DOMAIN e.tt[k]} = {e.p[e.facets[fs[k]][i]] : i \in DOMAIN e.facets[fs[k]]},
       \* the trace mesh has exactly the used vertices, each once (shared vertices stay shared)
       TracePointsAreUsedVertices |-> /\ IsInjectiveSeq(e.tp)
                                      /\ {e.tp[v] : v \in DOMAIN e.tp} = {e.p[v] : v \in UNION {VSet(e.facets[f]) : f \in ResSet(e) \cap 1..NF(e)}} ]
  ELSE [HarnessInputWellFormed |-> FALSE]
==============================================================================
