SPECIFICATION Spec
CONSTANT Which = "main"
INVARIANT FindOKHolds
CHECK_DEADLOCK FALSE
