-------------------------------- MODULE Tags --------------------------------
(* Named sub-domains and named boundaries as DESIGNATIONS (DESIGN Appendix A). *)
(*                                                                             *)
(* An abstract mesh m (harness/tags_common.py: mesh_am) is a record            *)
(*   kind, cls           : "tri" / "MeshTri1" ...                              *)
(*   p                   : sequence of points (tuples; a coordinate is an      *)
(*                         integer, or an opaque bit pattern - only equality   *)
(*                         of points is used in this module)                   *)
(*   t                   : sequence of cells, each the sequence of its VERTEX  *)
(*                         ids (1-based)                                       *)
(*   nf                  : number of facets of the mesh (range of facet ids)   *)
(*   hass, hasb          : 1 iff the sub-domain / boundary dictionary exists   *)
(*   sub                 : sequence of [name, ids]        ids = cell ids       *)
(*   bnd                 : sequence of [name, ids, fv, ori, own]               *)
(*                           ids = facet ids (the code's -1 is 0)              *)
(*                           fv[i]  = vertex ids of facet ids[i] (<<>> if the  *)
(*                                    id is out of range)                      *)
(*                           ori[i] = orientation flag 0/1 (0 for a plain      *)
(*                                    index array)                             *)
(*                           own[i] = the cell f2t[ori[i]][ids[i]] the flag    *)
(*                                    designates as the inside cell (0: none)  *)
(* A name designates a set of geometric cells (point sets), resp. a set of     *)
(* geometric facets, each with the geometric cell on its inside.  Index arrays *)
(* are never compared.                                                         *)
EXTENDS MeshTopology

PtsOf(m, vs)     == {m.p[vs[i]] : i \in DOMAIN vs}
GeoCell(m, k)    == PtsOf(m, m.t[k])
GeoCellSeq(m, k) == [i \in DOMAIN m.t[k] |-> m.p[m.t[k][i]]]        \* points in local order
GeoCells(m)      == {GeoCell(m, k) : k \in DOMAIN m.t}
GeoFacetsOfCell(m, k) == {{m.p[m.t[k][i]] : i \in F} : F \in RefFacets(m.kind)}
GeoFacets(m)     == UNION {GeoFacetsOfCell(m, k) : k \in DOMAIN m.t}

\* ---- well-formedness of the mesh part and of the tag part (evaluated first: guards every other clause)
KnownKinds == {"line", "tri", "quad", "tet", "hex", "wedge"}
MeshWellFormed(m) ==
  /\ m.kind \in KnownKinds
  /\ \A k \in DOMAIN m.t : \A i \in DOMAIN m.t[k] : m.t[k][i] \in 1..Len(m.p)
  /\ \A k \in DOMAIN m.t : Len(m.t[k]) = NNodes(m.kind)
TagIdsInRange(m) ==
  /\ \A i \in DOMAIN m.sub : \A j \in DOMAIN m.sub[i].ids : m.sub[i].ids[j] \in 1..Len(m.t)
  /\ \A i \in DOMAIN m.bnd :
       LET b == m.bnd[i] IN
       /\ Len(b.fv) = Len(b.ids) /\ Len(b.ori) = Len(b.ids) /\ Len(b.own) = Len(b.ids)
       /\ \A j \in DOMAIN b.ids :
            /\ b.ids[j] \in 1..m.nf
            /\ b.fv[j] # <<>> /\ \A q \in DOMAIN b.fv[j] : b.fv[j][q] \in 1..Len(m.p)
            /\ b.ori[j] \in {0, 1}
            /\ b.own[j] \in 0..Len(m.t)

\* ---- designations
SubNames(m) == {m.sub[i].name : i \in DOMAIN m.sub}
BndNames(m) == {m.bnd[i].name : i \in DOMAIN m.bnd}
SubOf(m, n) == m.sub[CHOOSE i \in DOMAIN m.sub : m.sub[i].name = n]
BndOf(m, n) == m.bnd[CHOOSE i \in DOMAIN m.bnd : m.bnd[i].name = n]

Region(m, ids)      == {GeoCell(m, ids[j]) : j \in DOMAIN ids}            \* what a sub-domain designates
SubDesig(m, n)      == Region(m, SubOf(m, n).ids)
FacetSetOf(m, b)    == {PtsOf(m, b.fv[j]) : j \in DOMAIN b.ids}
BndDesig(m, n)      == FacetSetOf(m, BndOf(m, n))                          \* facets only
\* facet together with the geometric cell on its inside (numbering-free meaning of the orientation flag)
OrientedSetOf(m, b) == {<<PtsOf(m, b.fv[j]), IF b.own[j] = 0 THEN {} ELSE GeoCell(m, b.own[j])>> : j \in DOMAIN b.ids}
BndDesigOriented(m, n) == OrientedSetOf(m, BndOf(m, n))

SameNames(pre, post)          == SubNames(pre) = SubNames(post) /\ BndNames(pre) = BndNames(post)
SameSubDesignation(pre, post) == \A n \in SubNames(pre) \cap SubNames(post) : SubDesig(pre, n) = SubDesig(post, n)
SameBndDesignation(pre, post) == \A n \in BndNames(pre) \cap BndNames(post) : BndDesig(pre, n) = BndDesig(post, n)
SameOrientation(pre, post)    == \A n \in BndNames(pre) \cap BndNames(post) :
                                    BndDesigOriented(pre, n) = BndDesigOriented(post, n)
\* numbering-free identity of all tags of two meshes
SameDesignation(pre, post) == /\ SameNames(pre, post) /\ SameSubDesignation(pre, post)
                              /\ SameBndDesignation(pre, post) /\ SameOrientation(pre, post)

\* every tagged entity is an entity of the mesh it is attached to
TagsDesignateEntities(m) ==
  /\ \A n \in SubNames(m) : SubDesig(m, n) \subseteq GeoCells(m)
  /\ \A n \in BndNames(m) : BndDesig(m, n) \subseteq GeoFacets(m)
==============================================================================
