SPECIFICATION Spec
CHECK_DEADLOCK FALSE
