------------------------------- MODULE MC_C17 -------------------------------
(* Design-level check of C17 on the transcription:                             *)
(*      FromMeshio(ToMeshio(m)) = m   (as designations, RoundTripClauses)      *)
(* for small meshes x every facet subset (boundary and interior) x every       *)
(* orientation flag on interior facets x sub-domain subsets.                   *)
(*                                                                             *)
(* Decoder = "current" : DecodeImpl     (mesh.py:373-398 as it is today)       *)
(*           "old"     : DecodeImplOld  (the decoder before commit 2ed791f:    *)
(*                       facets sorted, owner cells not permuted with them)    *)
(* MC_C17.cfg          current : must hold                                     *)
(* MC_C17_oriented.cfg old     : regression model - TLC must keep refuting it  *)
(*                       (harness: old_decoder_refuted_by_tlc)                 *)
EXTENDS TagCodec

CONSTANT Decoder
Tier == IF "TIER" \in DOMAIN IOEnv THEN IOEnv.TIER ELSE "quick"

\* ---- meshes: [kind, p, t]; bsel = the boundary-facet subsets explored (TRUE = all)
FanP == << <<0,0>>, <<2,0>>, <<2,2>>, <<0,2>>, <<1,1>> >>
FanT == << <<1,2,5>>, <<2,3,5>>, <<3,4,5>>, <<4,1,5>> >>
Strip(m) == [kind |-> m.kind, p |-> m.p, t |-> m.t]
TriStrip == Strip(SubMesh("tri", LatP, TriCells([sq \in 1..4 |-> sq % 2]), {1, 2, 3, 4}))
QuadAll  == Strip(SubMesh("quad", LatP, QuadCells, {1, 2, 3, 4}))
TetFive  == Strip(SubMesh("tet", CubeP, Five, 1..5))
TetKuhn  == Strip(SubMesh("tet", CubeP, Kuhn, 1..6))
HexTwo   == Strip(SubMesh("hex", HexP, HexCells, {1, 2}))
HexFour  == Strip(SubMesh("hex", HexP, HexCells, {1, 2, 3, 4}))
\* all : every subset of the boundary facets is explored; otherwise only {}, everything, and "every third"
MeshSeq ==
  IF Tier = "thorough"
  THEN << [m |-> [kind |-> "tri", p |-> FanP, t |-> FanT], all |-> TRUE], [m |-> TriStrip, all |-> TRUE],
          [m |-> QuadAll, all |-> TRUE], [m |-> HexTwo, all |-> TRUE], [m |-> TetFive, all |-> TRUE],
          [m |-> TetKuhn, all |-> FALSE], [m |-> HexFour, all |-> FALSE] >>
  ELSE << [m |-> [kind |-> "tri", p |-> FanP, t |-> FanT], all |-> TRUE], [m |-> TriStrip, all |-> TRUE],
          [m |-> QuadAll, all |-> TRUE], [m |-> HexTwo, all |-> TRUE], [m |-> TetFive, all |-> FALSE] >>
NM == Len(MeshSeq)
ConnTab == [i \in 1..NM |-> ConnOf(MeshSeq[i].m)]            \* constant: evaluated once
MemoConn(m) == IF \E i \in 1..NM : MeshSeq[i].m.t = m.t /\ MeshSeq[i].m.kind = m.kind
               THEN ConnTab[CHOOSE i \in 1..NM : MeshSeq[i].m.t = m.t /\ MeshSeq[i].m.kind = m.kind]
               ELSE ConnOf(m)

Interior(i)  == {f \in DOMAIN ConnTab[i].f2t : ConnTab[i].f2t[f][2] # 0}
BoundaryF(i) == {f \in DOMAIN ConnTab[i].f2t : ConnTab[i].f2t[f][2] = 0}
\* interior part: facet -> 0 (absent) / 1 (flag 0) / 2 (flag 1)
InteriorChoices(i) == [Interior(i) -> {0, 1, 2}]
BoundaryChoices(i, icx) ==
  IF MeshSeq[i].all THEN SUBSET BoundaryF(i)
  ELSE {{}, BoundaryF(i), {f \in BoundaryF(i) : f % 3 = 0}, {MinSet(BoundaryF(i))}}
\* sub-domain subsets: all of them with three boundary configurations, a derived one otherwise
Cells(i) == 1..Len(MeshSeq[i].m.t)
DerivedSub(i, B, ic) == {k \in Cells(i) : (k + Cardinality(B) + Cardinality({f \in Interior(i) : ic[f] # 0})) % 2 = 0}

Tagged(i, B, ic, S) ==
  LET fs == SortedSeq(B \cup {f \in Interior(i) : ic[f] # 0}) IN
  MeshSeq[i].m @@
  [ sub |-> << [name |-> "s", ids |-> SortedSeq(S)] >>,
    bnd |-> << [name |-> "b", ids |-> fs,
                ori |-> [j \in DOMAIN fs |-> IF fs[j] \in Interior(i) /\ ic[fs[j]] = 2 THEN 1 ELSE 0]] >> ]

VARIABLES mi, ic, tm, failed
vars == <<mi, ic, tm, failed>>

Init == /\ mi \in 1..NM /\ ic \in InteriorChoices(mi) /\ tm = <<>> /\ failed = {}

RoundTrip(i, x) ==
  LET c    == ConnTab[i]
      file == ToMeshioImpl(x, c)
      back == IF Decoder = "current" THEN FromMeshioWith(file, DecodeImpl, MemoConn)
                                     ELSE FromMeshioWith(file, DecodeImplOld, MemoConn)
  IN RoundTripClauses(ProjectAM(x, c, "M"), ProjectAM(back.tm, back.c, "M"))

Choose == /\ tm = <<>>
          /\ \E B \in BoundaryChoices(mi, ic) :
             \E S \in (IF B \in {{}, BoundaryF(mi)} /\ \A f \in Interior(mi) : ic[f] = ic[MinSet(Interior(mi))]
                       THEN SUBSET Cells(mi) ELSE {DerivedSub(mi, B, ic)}) :
                /\ tm' = Tagged(mi, B, ic, S)
                /\ failed' = Failed(RoundTrip(mi, tm'))
          /\ UNCHANGED <<mi, ic>>
Spec == Init /\ [][Choose]_vars

RoundTripHolds == failed = {}

\* ---- scenarios for replay on the real code (spec -> code): facets as vertex tuples, orientation as owner cell
ExportOne(i, B, icx, S) ==
  LET x == Tagged(i, B, icx, S) c == ConnTab[i] b == x.bnd[1] IN
  [ kind |-> x.kind, p |-> x.p, t |-> x.t, sub |-> x.sub[1].ids,
    fv  |-> [j \in DOMAIN b.ids |-> c.facets[b.ids[j]]],
    own |-> [j \in DOMAIN b.ids |-> c.f2t[b.ids[j]][b.ori[j] + 1]],
    multi |-> IF Cardinality({f \in Interior(i) : icx[f] # 0}) + Cardinality(B) >= 2
                 /\ \E f \in Interior(i) : icx[f] # 0 THEN 1 ELSE 0 ]
ExportSet ==
  UNION {{ExportOne(i, B, icx, DerivedSub(i, B, icx)) :
            B \in {{}, BoundaryF(i), {f \in BoundaryF(i) : f % 2 = 0}}, icx \in [Interior(i) -> {0, 1, 2}]}
         : i \in 1..NM}
ASSUME \/ "OUT_FILE" \notin DOMAIN IOEnv \/ IOEnv.OUT_FILE = ""
       \/ JsonSerialize(IOEnv.OUT_FILE, SetToSeq(ExportSet))
==============================================================================
