------------------------------- MODULE NamedMeshes -------------------------------
(* Named constructors (Mesh*.init_refdom, MeshTri.init_symmetric / init_sqsymmetric  *)
(* / init_lshaped / init_circle, MeshTet.init_ball, the default constructors, and    *)
(* their refinements) -- specification growth beyond the listed properties           *)
(* (DESIGN section 10, X08): each produces a valid, conforming, non-degenerate mesh   *)
(* of the advertised domain.                                                          *)
(*                                                                                    *)
(* Event "Named": [m (kind, p integer coordinates at scale sc, t), sc, dim,           *)
(*   vol = <<num, den>> the advertised measure, inbox = <<lo, hi>> (bounding box in    *)
(*   unscaled units) or <<>>].                                                        *)
(* Event "Round" (circle / ball: coordinates are not dyadic): [r2b, r2i: squared       *)
(*   radii of boundary / interior vertices (fixed point), area: total measure (fixed   *)
(*   point), n (refinement level), dim].                                              *)
EXTENDS GeomRefine, Fx

Pw(x, n) == IF n = 1 THEN x ELSE IF n = 2 THEN x * x ELSE x * x * x
FactD(d) == IF d = 1 THEN 1 ELSE IF d = 2 THEN 2 ELSE 6

NamedClauses(e) ==
  IF e.err # "" THEN [ConstructorAvailable |-> FALSE]
  ELSE
  [ ConstructorAvailable |-> TRUE,
    ValidMesh |-> ValidMesh(e.m),
    NoDegenerateCells |-> NoDegenerateCells(e.m),
    Conforming |-> Conforming(e.m),
    \* d! * measure * sc^d, as integers: TotalMeasure * den = d! * num * sc^d
    AdvertisedMeasure |-> TotalMeasure(e.m) * e.vol[2] = FactD(e.dim) * e.vol[1] * Pw(e.sc, e.dim),
    InsideAdvertisedBox |-> e.inbox = <<>> \/ \A v \in DOMAIN e.m.p : \A d \in DOMAIN e.m.p[v] :
                                e.inbox[1] * e.sc <= e.m.p[v][d] /\ e.m.p[v][d] <= e.inbox[2] * e.sc ]

RTol == FxTol(40)
RoundClauses(e) ==
  IF e.err # "" THEN [ConstructorAvailable |-> FALSE]
  ELSE
  [ ConstructorAvailable |-> TRUE,
    \* every boundary vertex lies on the unit circle / sphere, every interior vertex strictly inside
    BoundaryOnUnitSphere |-> \A i \in DOMAIN e.r2b : FxNear(e.r2b[i], FxInt(1), RTol),
    InteriorInside |-> \A i \in DOMAIN e.r2i : FxLeq(e.r2i[i], FxSub(FxInt(1), FxTol(8))),
    \* the polygon / polyhedron is inscribed: its measure is below that of the ball and grows to it (pi > 3.14, 4pi/3 > 4.18)
    MeasureBelowBall |-> IF e.dim = 2 THEN FxLeq(e.area, FxRat(3142, 1000)) ELSE FxLeq(e.area, FxRat(4189, 1000)),
    MeasureApproachesBall |-> IF e.dim = 2 THEN (e.n >= 3 => FxLeq(FxRat(306, 100), e.area))
                                           ELSE (e.n >= 3 => FxLeq(FxRat(38, 10), e.area)) ]

NamedMeshClauses(e) == IF e.a = "Named" THEN NamedClauses(e) ELSE RoundClauses(e)
==============================================================================
