------------------------------- MODULE MC_C05 -------------------------------
(* Design-level check of C05: for EVERY stored-entry pattern of an n x n      *)
(* matrix (n <= 3, rows with no stored entry and explicit zeros included),     *)
(* every ordered constrained set D and both ways of giving the split, the      *)
(* transcriptions of enforce / condense / penalize / expansion satisfy the     *)
(* relational clauses.  OldFormulaOK is the pre-repair enforce index formula:  *)
(* TLC refutes it (regression model of fix d626ae9).                           *)
EXTENDS MC_C05_Universe

VARIABLES n, pat, zeros, D, givenI, done, failed
vars == <<n, pat, zeros, D, givenI, done, failed>>

\* thorough tier: 4 x 4 systems with at most 4 stored entries (C05_N4 = "1")
NsUsed == IF IOEnv.C05_N4 = "1" THEN {4} ELSE Ns
PatsOf(k) == IF k = 4 THEN {p \in SUBSET Cells(4) : Cardinality(p) <= 4} ELSE SUBSET Cells(k)
Init == /\ n \in NsUsed
        /\ pat \in PatsOf(n)
        /\ zeros \in {{}, {<<1, 1>>}, {<<n, 1>>}}
        /\ D \in OrderedSubsets(n)
        /\ givenI \in BOOLEAN
        /\ done = FALSE /\ failed = {}

Results(useOld) ==
  LET A    == MatOf(n, pat, zeros)
      x    == XVec(n)
      b    == BVec(n)
      \* the user gives D (ordered) or I (the complement, here in DEcreasing order to exercise ordering)
      Igiven == Reverse(Complement(n, D))
      bc   == InitBcImpl(n, givenI, Igiven, ~givenI, D, TRUE, x, TRUE, b)
      DD   == bc.D
      II   == bc.I
      Ao   == IF useOld
              THEN (LET o == EnforceIdxOld(A, DD) IN
                    IF o.raises THEN A ELSE EnforceMatImplWith(A, DD, 2, o.idx))
              ELSE EnforceMatImpl(A, DD, 2)
      bo   == EnforceVecImpl(b, x, DD)
      Mo   == EnforceMatImpl(A, DD, 0)                       \* mass-matrix recursion, diag = 0
      AII  == DenseToMat(RestrictImpl(A, II, II), Len(II))
      bI   == CondenseRhsImpl(A, b, x, II, DD)
      z    == ZVec(Len(II))
      y    == ExpandImpl(x, II, z)
      Ap   == PenalizeMatImpl(A, DD, 1024)
      bp   == PenalizeVecImpl(b, x, DD, 1024)
  IN [ SplitOK |-> bc.ok /\ VSet(DD) = VSet(D) /\ KeptIsComplement(n, II, DD),
       EnforceRaises |-> ~(useOld /\ EnforceIdxOld(A, DD).raises),
       EnforceWF |-> MatWF(Ao),
       EnforceRowsExact |-> EnforceRowsExact(Ao, DD, 2),
       EnforceOthersUntouched |-> EnforceOthersUntouched(A, Ao, DD),
       EnforceRhsVector |-> EnforceRhsVector(b, bo, x, DD),
       EnforceMassMatrix |-> EnforceMassMatrix(A, Mo, DD),
       CondensedMatrixIsRestriction |-> CondensedMatrixIsRestriction(A, AII, II),
       CondensedRhs |-> CondensedRhs(A, b, x, bI, II, DD),
       ExpandedSatisfies |-> ExpandedSatisfies(A, b, x, AII, bI, II, DD, z, y),
       PenalizeKeptRowsUntouched |-> PenalizeKeptRowsUntouched(A, Ap, DD),
       PenalizeRows |-> PenalizeRows(A, Ap, DD, 1024),
       PenalizeRhs |-> PenalizeRhs(b, bp, x, DD, 1024) ]

Compute    == ~done /\ done' = TRUE /\ failed' = Failed(Results(FALSE)) /\ UNCHANGED <<n, pat, zeros, D, givenI>>
ComputeOld == ~done /\ done' = TRUE /\ failed' = Failed(Results(TRUE))  /\ UNCHANGED <<n, pat, zeros, D, givenI>>

Spec    == Init /\ [][Compute]_vars
SpecOld == Init /\ [][ComputeOld]_vars
ClausesHold == failed = {}
==============================================================================
