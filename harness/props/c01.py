"""C01 - assembled matrix, vector and scalar represent the weak form.

M : spec/MC_C01.cfg - TLC enumerates small abstract pairs of bases (all rectangular nb_u x nb_v in 1..3, 1..2
    cells, 1..2 points, every cell->DOF table up to renaming) and checks that the transcriptions of
    BilinearForm/LinearForm/Functional/_assemble_scipy_csr/interpolate satisfy every C01 clause (AssemblySem.tla);
    seeded deviations of the transcription (MC_MUT) must be rejected.
V : the real BilinearForm / LinearForm / Functional (.assemble / .elemental) and Basis.interpolate on exact-universe
    bases (integer meshes, dyadic user-supplied quadrature); the event carries pi(basis) for both bases, the grammar
    term and the result as exact scaled integers; TraceC01 recomputes by definition and compares exactly.
L : outside the exact universe (Gauss rules, derivatives, H(div)/H(curl)/global elements, curved meshes, w.h, w.n)
    the pairings v^T A u, b^T v (exact rational arithmetic on the returned floats) and the value of
    Functional(F(interpolate u, interpolate v)) are recorded as fixed-point numbers; law Consistent, tolerance TolSum.
"""
import json
import os

import numpy as np

from .. import fem
from .. import universe as U
from ..core import MachineryError
from ..fem import guarded
from ..project import fx

RULE = ('scenario = one mesh + one (trial, test) pair of bases + one integrand of the grammar per form type; '
        'distinct = distinct (mesh kind, basis kinds, element pair, integrand); non-trivial = at least 2 cells or '
        'trial != test, integrand with a non-constant coefficient or rectangular element pair')

BOUND = 2 ** 24

# ------------------------------------------------------------------------------------------ exact tier: execution


class Skip(Exception):
    """the recipe leaves the exact universe (not dyadic / too large for 32 bit): counted, not judged"""


class Malformed(Exception):
    """the library handed out an object that cannot be projected (wrong shape): an observation, judged by
    NoUnexpectedError"""


def _env(basis, Bpi, fields, attrs):
    """kwargs for the code (the array objects are created once and may be modified in place between calls),
    accessor table, scales and the projections of the default fields"""
    kw, facc, fs, defpi = {}, {}, {}, {}
    shape = (Bpi['nel'], Bpi['nq'])
    defaults = None
    for f in fields:
        name = f['name']
        if f['kind'] == 'dof':
            kw[name] = np.array(f['vec'], dtype=np.float64)
            facc[name] = fem.accessors(basis.basis[0], attrs)
            fs[name] = Bpi['sphi']
        elif f['kind'] == 'val':
            kw[name] = np.array(f['val'], dtype=np.float64)
            facc[name] = [(0, 'value', ())]
            fs[name] = 1
        elif f['kind'] == 'default':
            if defaults is None:
                defaults = basis.default_parameters()
            fld = defaults[name]
            facc[name] = fem.accessors(fld, ('value',))
            if tuple(np.asarray(fld).shape[-2:]) != tuple(shape):
                raise Malformed(f'default parameter {name} has shape {np.asarray(fld).shape} on a basis with {shape}')
            pi = fem.field_pi(fld, facc[name], shape)
            if pi is None:
                raise Skip(f'default {name} not dyadic')
            defpi[name] = pi
            fs[name] = pi['s']
    return kw, facc, fs, defpi


def _fenv(fields, kw, defpi):
    """the JSON env for TLC: what the keyword arrays contain NOW (they are inputs, read before the call)"""
    fenv = {}
    for f in fields:
        name = f['name']
        if f['kind'] == 'dof':
            fenv[name] = {'kind': 'dof', 'nc': 0, 's': 0, 'val': [], 'vec': [int(x) for x in kw[name]]}
        elif f['kind'] == 'val':
            fenv[name] = {'kind': 'val', 'nc': 1, 's': 1, 'val': [[[int(x) for x in row] for row in kw[name]]], 'vec': []}
        else:
            fenv[name] = defpi[name]
    return fenv


def _update_in_place(kw, new, step):
    """x[:] = ..., x += dx, x *= 0; x += ...: the SAME array objects get new contents between two calls"""
    for name, vals in new.items():
        arr, tgt = kw[name], np.array(vals, dtype=np.float64)
        if step % 3 == 0:
            arr[:] = tgt
        elif step % 3 == 1:
            arr += tgt - arr
        else:
            arr *= 0.0
            arr[...] = arr + tgt


def _alts_kw(basis, fields, kw):
    """the same parameters passed in the other accepted forms (form.py:92-121)"""
    from skfem.element import DiscreteField
    out = []
    if any(f['kind'] == 'dof' for f in fields):
        k2 = dict(kw)
        for f in fields:
            if f['kind'] == 'dof':
                k2[f['name']] = basis.interpolate(kw[f['name']].copy())
        out.append(k2)
    if any(f['kind'] == 'val' for f in fields):
        k2 = dict(kw)
        for f in fields:
            if f['kind'] == 'val':
                k2[f['name']] = DiscreteField(kw[f['name']].copy())
        out.append(k2)
    return out


def _part(x, part):
    return np.real(x) if part == 're' else np.imag(x)


def _ints(a, scale):
    v = fem.to_ints(a, scale, BOUND)
    return v


def _mat(A, scale, part):
    A = A.tocsr().copy()
    A.data = _part(A.data, part).astype(np.float64)
    return fem.csr_trip(A, scale)


def _cvec(x):
    """[ints] or {'re': ints, 'im': ints} -> array"""
    if isinstance(x, dict):
        return np.array(x['re'], dtype=np.float64) + 1j * np.array(x['im'], dtype=np.float64)
    return np.array(x, dtype=np.float64)


def _bil_events(rec, bu, bv, Bu, Bv, acc_u, acc_v, ctxu, forms, full, tags):
    from skfem import BilinearForm, Functional
    kw, facc, fs, defpi = ctxu
    F, Fi = rec['bil'], rec.get('bil_im')
    dtype = np.complex128 if Fi else np.float64
    prm = {k: int(v) for k, v in rec.get('params', {}).items()}
    accs = {'u': acc_u, 'v': acc_v, 'f': facc}
    if 'bil' not in forms:          # the form objects are created once and reused over calls and over bases
        forms['bil'] = BilinearForm(fem.bilinear_callable(F, accs, len(bu.basis[0]), Fi), dtype=dtype)
        # the functional is created the usual way, without dtype: it has to return the complex integral as it is
        forms['bilfun'] = Functional(fem.functional_callable(F, accs, 'uh', 'vh', Fi))
    form, fun = forms['bil'], forms['bilfun']
    fenv = _fenv(rec['fields_u'], kw, defpi)
    pairs = list(rec.get('pairs', [])) if full else list(rec.get('pairs', []))[:1]
    cpairs = list(rec.get('pairs_c', [])) if (full and not Fi) else []

    def run():
        out = {'A': form.assemble(bu, bv, **dict(kw), **prm)}
        out['coo'] = form.elemental(bu, bv, **dict(kw), **prm) if (rec.get('elemental') and full) else None
        out['alts'] = [form.assemble(bu, bv, **dict(k2), **prm) for k2 in _alts_kw(bu, rec['fields_u'], kw)]
        out['pairs'] = [fun.assemble(bu, uh=bu.interpolate(_cvec(u)), vh=bv.interpolate(_cvec(v)), **dict(kw), **prm)
                        for (u, v) in pairs + cpairs]
        return out
    out, err = guarded(run, 60)
    events = []
    for part in (('re', 'im') if Fi else ('re',)):
        term = F if part == 're' else Fi
        Sp = fem.term_scale(term, Bu['sphi'], Bv['sphi'], fs) * Bu['sdx']
        ev = {'a': 'Bil', 'err': err, 'Bu': Bu, 'Bv': Bv, 'env': {'fld': fenv, 'prm': prm}, 'F': term, 'S': int(Sp),
              'exact': 1, 'A': {'shape': [0, 0], 'trip': []}, 'coo': {'shape': [Bv['N'], Bu['N']], 'trip': []},
              'alts': [], 'pairs': [], 'tags': dict(tags, part=part)}
        if not err:
            ok = True
            trip, o = _mat(out['A'], Sp, part)
            ok &= o
            ev['A'] = {'shape': [int(x) for x in out['A'].shape], 'trip': trip}
            if out['coo'] is not None:
                c = out['coo']
                vals = _ints(_part(np.asarray(c.data), part), Sp)
                ok &= vals is not None
                ev['coo'] = {'shape': [int(x) for x in c.shape],
                             'trip': [[int(r) + 1, int(cc) + 1, int(x)] for r, cc, x in
                                      zip(c.indices[0], c.indices[1], vals or [0] * len(c.data))]}
            for A2 in out['alts']:
                trip, o = _mat(A2, Sp, part)
                ok &= o
                ev['alts'].append({'shape': [int(x) for x in A2.shape], 'trip': trip})
            for k, ((u, v), s) in enumerate(zip(pairs + cpairs, out['pairs'])):
                if k < len(pairs):
                    cases = [(u, v, _part(s, part))]
                else:       # complex trial coefficients in a real form: real and imaginary part of one complex integral
                    cases = [(u['re'], v, np.real(s)), (u['im'], v, np.imag(s))]
                for (uu, vv, sv) in cases:
                    fem.guard_sum([t[2] for t in ev['A']['trip']], max(map(abs, uu), default=0) * max(map(abs, vv), default=0))
                    si = _ints(sv, Sp) if np.ndim(sv) == 0 else None        # a non-scalar value is judged by EntriesIntegral
                    ok &= si is not None
                    ev['pairs'].append({'u': [int(x) for x in uu], 'v': [int(x) for x in vv], 's': int(si or 0)})
            ev['exact'] = 1 if ok else 0
        events.append(ev)
    return events


def _lin_events(rec, bv, Bv, acc_v, ctxv, forms, full, tags):
    from skfem import LinearForm, Functional
    kw, facc, fs, defpi = ctxv
    accs = {'v': acc_v, 'f': facc}
    F, Fi = rec['lin'], rec.get('lin_im')
    ldtype = np.complex128 if Fi else np.float64
    prm = {k: int(v) for k, v in rec.get('params', {}).items()}
    if 'lin' not in forms:
        forms['lin'] = LinearForm(fem.linear_callable(F, accs, Fi), dtype=ldtype)
        forms['linfun'] = Functional(fem.functional_callable(F, accs, None, 'vh', Fi))       # no dtype on purpose
    form, fun = forms['lin'], forms['linfun']
    fenv = _fenv(rec['fields_v'], kw, defpi)
    lp = list(rec.get('lpairs', []))
    lpc = list(rec.get('lpairs_c', [])) if (full and not Fi) else []

    def run():
        out = {'b': form.assemble(bv, **dict(kw), **prm)}
        out['coo'] = form.elemental(bv, **dict(kw), **prm) if (rec.get('elemental') and full) else None
        out['alts'] = [form.assemble(bv, **dict(k2), **prm) for k2 in _alts_kw(bv, rec['fields_v'], kw)]
        out['pairs'] = [fun.assemble(bv, vh=bv.interpolate(_cvec(v)), **dict(kw), **prm) for v in lp + lpc]
        return out
    out, err = guarded(run, 60)
    events = []
    for part in (('re', 'im') if Fi else ('re',)):
        term = F if part == 're' else Fi
        S = fem.term_scale(term, 1, Bv['sphi'], fs) * Bv['sdx']
        ev = {'a': 'Lin', 'err': err, 'Bv': Bv, 'env': {'fld': fenv, 'prm': prm}, 'F': term, 'S': int(S), 'exact': 1,
              'b': [], 'coo': [], 'alts': [], 'pairs': [], 'tags': dict(tags, part=part)}
        if not err:
            ok = True
            b = _ints(_part(out['b'], part), S)
            ok &= b is not None
            ev['b'] = b or []
            if out['coo'] is not None:
                c = out['coo']
                vals = _ints(_part(np.asarray(c.data), part), S)
                ok &= vals is not None
                ev['coo'] = [[int(r) + 1, int(x)] for r, x in zip(c.indices[0], vals or [0] * len(c.data))]
            for b2 in out['alts']:
                bi = _ints(_part(b2, part), S)
                ok &= bi is not None
                ev['alts'].append(bi or [])
            for k, (v, s) in enumerate(zip(lp + lpc, out['pairs'])):
                cases = [(v, _part(s, part))] if k < len(lp) else [(v['re'], np.real(s)), (v['im'], np.imag(s))]
                for (vv, sv) in cases:
                    fem.guard_sum(ev['b'], max(map(abs, vv), default=0))
                    si = _ints(sv, S) if np.ndim(sv) == 0 else None
                    ok &= si is not None
                    ev['pairs'].append({'v': [int(x) for x in vv], 's': int(si or 0)})
            ev['exact'] = 1 if ok else 0
        events.append(ev)
    return events


def _fun_events(rec, bv, Bv, ctxv, forms, full, tags):
    from skfem import Functional
    kw, facc, fs, defpi = ctxv
    accs = {'f': facc}
    F, Fi = rec['fun'], rec.get('fun_im')
    prm = {k: int(v) for k, v in rec.get('params', {}).items()}
    if 'fun' not in forms:
        # created the usual way (no dtype): a complex integrand has to come back as the complex integral
        forms['fun'] = Functional(fem.functional_callable(F, accs, None, None, Fi))
    form = forms['fun']
    fenv = _fenv(rec['fields_v'], kw, defpi)

    def run():
        return {'s': form.assemble(bv, **dict(kw), **prm), 'el': form.elemental(bv, **dict(kw), **prm),
                'alts': [form.assemble(bv, **dict(k2), **prm) for k2 in _alts_kw(bv, rec['fields_v'], kw)]}
    out, err = guarded(run, 60)
    events = []
    for part in (('re', 'im') if Fi else ('re',)):
        term = F if part == 're' else Fi
        S = fem.term_scale(term, 1, 1, fs) * Bv['sdx']
        ev = {'a': 'Fun', 'err': err, 'B': Bv, 'env': {'fld': fenv, 'prm': prm}, 'F': term, 'S': int(S), 'exact': 1,
              's': 0, 'el': [], 'alts': [], 'tags': dict(tags, part=part)}
        if not err:
            elarr = np.asarray(out['el'])
            shape_ok = elarr.shape == (Bv['nel'],) and np.ndim(out['s']) == 0      # judged by ShapeOK otherwise
            s = _ints(_part(out['s'], part), S) if np.ndim(out['s']) == 0 else None
            el = _ints(_part(elarr, part), S) if shape_ok else None
            alts = [_ints(_part(a, part), S) if np.ndim(a) == 0 else None for a in out['alts']]
            ok = shape_ok and s is not None and el is not None and all(a is not None for a in alts)
            ev.update(s=int(s or 0), el=el if ok else [],
                      alts=[int(a or 0) for a in alts], exact=1 if ok else 0)
        events.append(ev)
    return events


def _tfun_events(rec, bv, Bv, acc_v, ctxv, tags):
    """a Functional whose integrand returns a TENSOR per quadrature point (rank 1..3; components = grammar terms on the
    interpolated functions u_h, v_h and the fields), through assemble, asm and elemental; every entry is judged as the
    scalar functional of its component and against v^T A u of the component's bilinear form"""
    from skfem import BilinearForm, Functional, asm
    tf = rec['tfun']
    kw, facc, fs, defpi = ctxv
    accs = {'u': acc_v, 'v': acc_v, 'f': facc}
    prm = {k: int(v) for k, v in rec.get('params', {}).items()}
    shape = tuple(tf['shape'])
    nel, nq = Bv['nel'], Bv['nq']
    fenv = _fenv(rec['fields_v'], kw, defpi)

    def tensor(w):
        vals = [np.asarray(fem.ev_term(t, w['uh'], w['vh'], w, accs)) + np.asarray(w['z0']) for t in tf['comps']]
        return np.array(vals).reshape(shape + (nel, nq))
    fun = Functional(tensor)
    u, v = np.array(tf['u'], dtype=np.float64), np.array(tf['v'], dtype=np.float64)

    def run():
        kws = dict(kw, uh=bv.interpolate(u), vh=bv.interpolate(v), z0=np.zeros((nel, nq)), **prm)
        out = {'T': fun.assemble(bv, **dict(kws)), 'Ta': asm(fun, bv, **dict(kws)), 'El': fun.elemental(bv, **dict(kws)), 'A': []}
        for t, ha in zip(tf['comps'], tf['hasA']):
            out['A'].append(BilinearForm(fem.bilinear_callable(t, accs, len(bv.basis[0]))).assemble(bv, **dict(kw), **prm)
                            if ha else None)
        return out
    out, err = guarded(run, 60)
    ev = {'a': 'TFun', 'err': err, 'B': Bv, 'env': {'fld': fenv, 'prm': prm}, 'u': [int(x) for x in tf['u']],
          'v': [int(x) for x in tf['v']], 'shape': [int(d) for d in shape], 'gshape': [], 'gashape': [], 'gelshape': [],
          'comps': [], 'exact': 1, 'tags': dict(tags)}
    if not err:
        T, Ta, El = np.asarray(out['T']), np.asarray(out['Ta']), np.asarray(out['El'])
        ev.update(gshape=[int(d) for d in T.shape], gashape=[int(d) for d in Ta.shape], gelshape=[int(d) for d in El.shape])
        ok = True
        if T.shape == shape and Ta.shape == shape and El.shape == shape + (nel,):
            for c, (t, ha) in enumerate(zip(tf['comps'], tf['hasA'])):
                idx = np.unravel_index(c, shape)
                S = fem.term_scale(t, Bv['sphi'], Bv['sphi'], fs) * Bv['sdx']
                s_, sa, el = _ints(T[idx], S), _ints(Ta[idx], S), _ints(El[idx], S)
                ok &= s_ is not None and sa is not None and el is not None
                cev = {'F': t, 'S': int(S), 's': int(s_ or 0), 'sa': int(sa or 0), 'el': el or [], 'hasA': 0,
                       'A': {'shape': [0, 0], 'trip': []}}
                if ha:
                    trip, o = fem.csr_trip(out['A'][c], S)
                    ok &= o
                    fem.guard_sum([x[2] for x in trip], max(map(abs, tf['u']), default=0) * max(map(abs, tf['v']), default=0))
                    cev.update(hasA=1, A={'shape': [int(d) for d in out['A'][c].shape], 'trip': trip})
                ev['comps'].append(cev)
        ev['exact'] = 1 if ok else 0
    return [ev]


def _on_bases(rec, mesh, kind, attrs, bus, bvs, forms, first):
    """all observations on one (trial, test) pair of basis objects; `forms` carries the form objects over to the
    next pair of bases (object reuse)"""
    bu = fem.make_basis(mesh, kind, bus)
    bv = fem.make_basis(mesh, kind, bvs) if bvs else bu
    acc_u = fem.accessors(bu.basis[0], attrs)
    acc_v = fem.accessors(bv.basis[0], attrs)
    Bu = fem.basis_pi(bu, acc_u)
    Bv = fem.basis_pi(bv, acc_v) if bv is not bu else Bu
    if Bu is None or Bv is None:
        raise Skip('basis values not dyadic')
    events = []
    ctxu = _env(bu, Bu, rec['fields_u'], attrs)
    ctxv = _env(bv, Bv, rec['fields_v'], attrs)
    hist_u = rec.get('hist_u', []) if first else []
    hist_v = rec.get('hist_v', []) if first else []
    nsteps = 1 + max(len(hist_u), len(hist_v))
    for step in range(nsteps):
        if step > 0:        # the caller updates its arrays in place and assembles again with the same objects
            if step <= len(hist_u):
                _update_in_place(ctxu[0], hist_u[step - 1], step)
            if step <= len(hist_v):
                _update_in_place(ctxv[0], hist_v[step - 1], step)
        full = first and step == 0
        tags = {'step': step, 'reuse': 0 if first else 1}
        if rec.get('bil') and (step == 0 or step <= len(hist_u)):
            events += _bil_events(rec, bu, bv, Bu, Bv, acc_u, acc_v, ctxu, forms, full, tags)
        if step == 0 or step <= len(hist_v):
            if rec.get('lin'):
                events += _lin_events(rec, bv, Bv, acc_v, ctxv, forms, full, tags)
            if rec.get('fun'):
                events += _fun_events(rec, bv, Bv, ctxv, forms, full, tags)
            if rec.get('tfun') and full:
                events += _tfun_events(rec, bv, Bv, acc_v, ctxv, tags)

    # ---------------- interpolate
    if first:
        for which, basis, Bpi, acc in (('u', bu, Bu, acc_u), ('v', bv, Bv, acc_v)):
            for w in rec.get('interp_' + which, []):
                wre = np.array(w['re'], dtype=np.float64)
                warr = wre + 1j * np.array(w['im'], dtype=np.float64) if 'im' in w else wre
                out, err = guarded(lambda: basis.interpolate(warr), 30)
                for part in (('re', 'im') if 'im' in w else ('re',)):
                    ev = {'a': 'Interp', 'err': err, 'B': Bpi, 'w': [int(x) for x in w[part]], 'exact': 1, 'out': [],
                          'tags': {'part': part}}
                    if not err:
                        tabs = []
                        ok = True
                        try:
                            for ac in acc:
                                a = np.asarray(fem.comp(out, ac))
                                t = _ints(np.broadcast_to(_part(a, part), (Bpi['nel'], Bpi['nq'])), Bpi['sphi']) \
                                    if a.shape == (Bpi['nel'], Bpi['nq']) else None
                                ok &= t is not None
                                tabs.append(t or [])
                        except (IndexError, AttributeError, TypeError):
                            ok, tabs = False, []
                        ev['out'] = tabs
                        ev['exact'] = 1 if ok else 0
                    events.append(ev)

    # ---------------- what the restricted bases must be
    for basis, bs, Bpi, acc in ((bu, bus, Bu, acc_u),) + (((bv, bvs, Bv, acc_v),) if bvs else ()):
        if bs['type'] == 'cell' and bs.get('elements') is not None:
            full_b = fem.make_basis(mesh, kind, dict(bs, elements=None))
            Bf = fem.basis_pi(full_b, acc)
            if Bf is not None:
                # same scales so that tables are comparable entry by entry
                if Bf['sphi'] != Bpi['sphi'] or Bf['sdx'] != Bpi['sdx']:
                    s1, s2 = max(Bf['sphi'], Bpi['sphi']), max(Bf['sdx'], Bpi['sdx'])
                    Bf, Bs = _rescale(Bf, s1, s2), _rescale(Bpi, s1, s2)
                else:
                    Bs = Bpi
                events.append({'a': 'Subset', 'err': '', 'Bfull': Bf, 'Bsub': Bs,
                               'tind': [int(x) + 1 for x in bs['elements']]})
        if bs['type'] in ('facet', 'ifacet'):
            find = np.asarray(basis.find)
            ori = getattr(basis.find, 'ori', None)
            ced = np.asarray(basis.dofs.element_dofs)
            events.append({'a': 'Facet', 'err': '', 'side': int(bs.get('side', 0)), 'ncell': int(mesh.t.shape[1]),
                           'fedofs': Bpi['edofs'], 'cedofs': [[int(x) + 1 for x in row] for row in ced],
                           'f2t': [[int(mesh.f2t[0, f]) + 1, int(mesh.f2t[1, f]) + 1] for f in find],
                           'ori': [] if ori is None else [int(x) for x in ori]})
    return events


def exec_exact(rec):
    """run the real code on an exact-universe recipe: one mesh object, one set of form objects; the forms are
    assembled on the first pair of bases (with call histories: keyword arrays modified in place between calls)
    and then, the same objects, on a second pair of bases of the same mesh when the recipe has one"""
    kind = rec['mesh']['kind']
    mesh = fem.make_mesh(rec['mesh'])
    attrs = ('value', 'grad') if rec.get('grad') else ('value',)
    forms = {}
    events = _on_bases(rec, mesh, kind, attrs, rec['bu'], rec.get('bv'), forms, True)
    if rec.get('bu2'):
        events += _on_bases(rec, mesh, kind, attrs, rec['bu2'], rec.get('bv2'), forms, False)
    return events


def _rescale(B, sphi, sdx):
    a, b = sphi // B['sphi'], sdx // B['sdx']
    return dict(B, sphi=sphi, sdx=sdx,
                phi=[[[[x * a for x in row] for row in tab] for tab in comps] for comps in B['phi']],
                dx=[[x * b for x in row] for row in B['dx']])


# ------------------------------------------------------------------------------------------ exact tier: generation

EXACT_ELEMS = {
    'line': [['e', 'P0'], ['e', 'P1'], ['e', 'P2'], ['e', 'Mini'], ['dg', ['e', 'P1']], ['e', 'P1DG'],
             ['comp', ['e', 'P1'], ['e', 'P0']], ['comp', ['e', 'P2'], ['e', 'P1']]],
    'tri': [['e', 'P0'], ['e', 'P1'], ['e', 'P2'], ['e', 'P1B'], ['e', 'CR'], ['e', 'RT1'], ['e', 'N1'],
            ['dg', ['e', 'P1']], ['dg', ['e', 'P2']], ['e', 'P1DG'], ['vec', ['e', 'P1']], ['vec', ['e', 'P2']],
            ['comp', ['e', 'P2'], ['e', 'P1']], ['comp', ['e', 'P1'], ['e', 'P0']],
            ['comp', ['vec', ['e', 'P1']], ['e', 'P0']], ['comp', ['e', 'RT1'], ['e', 'P0']],
            ['vecn', ['e', 'P1'], 3], ['comp', ['e', 'P1B'], ['e', 'P1']], ['vec', ['dg', ['e', 'P1']]]],
    'quad': [['e', 'P0'], ['e', 'P1'], ['e', 'P2'], ['e', 'S2'], ['dg', ['e', 'P1']], ['e', 'P1DG'],
             ['vec', ['e', 'P1']], ['comp', ['e', 'P2'], ['e', 'P1']], ['comp', ['e', 'P1'], ['e', 'P0']],
             ['e', 'RT1']],
    'tet': [['e', 'P0'], ['e', 'P1'], ['e', 'P2'], ['e', 'CR'], ['dg', ['e', 'P1']], ['vec', ['e', 'P1']],
            ['comp', ['e', 'P1'], ['e', 'P0']], ['e', 'RT1'], ['e', 'N1']],
    'hex': [['e', 'P0'], ['e', 'P1'], ['dg', ['e', 'P1']], ['comp', ['e', 'P1'], ['e', 'P0']]],
}


def _small_vec(rng, n, lo=-1, hi=2):
    return [int(x) for x in rng.integers(lo, hi + 1, size=n)]


def _alt_subset(rng, mesh, bs):
    """another cell / facet subset of the same size on the same mesh (None if there is none)"""
    if bs['type'] == 'cell':
        el = bs.get('elements')
        nt = mesh.t.shape[1]
        if el is None or len(el) >= nt:
            return None
        for _ in range(10):
            new = [int(x) for x in rng.permutation(nt)[:len(el)]]
            if set(new) != set(el):
                return {'elements': new}
        return None
    fa = bs.get('facets')
    if fa is None:
        return None
    pool = fem.axis_parallel_facets(mesh, 'boundary' if bs['type'] == 'facet' else 'interior')
    if len(pool) <= len(fa):
        return None
    for _ in range(10):
        new = [int(pool[j]) for j in rng.permutation(len(pool))[:len(fa)]]
        if set(new) != set(fa):
            out = {'facets': new}
            if bs.get('ori') is not None:
                out['ori'] = [int(rng.integers(0, 2)) if bs['type'] == 'ifacet' else 0 for _ in new]
            return out
    return None


def gen_exact(rng, tier):
    """one recipe of the exact universe (the generator builds the bases once to learn their sizes)"""
    kind = str(rng.choice(['line', 'tri', 'tri', 'tri', 'quad', 'quad', 'tet', 'hex']))
    btype = str(rng.choice(['cell', 'cell', 'cellsub', 'facet', 'facetsub', 'ifacet', 'ifacet'])) if kind != 'line' \
        else str(rng.choice(['cell', 'cell', 'cellsub']))
    # cell subsets mostly on lattices whose cells differ in size (the order of the subset then matters for dx)
    mrec = fem.lattice_mesh(kind, rng, nonuniform=True if (btype == 'cellsub' and rng.integers(0, 4)) else None)
    mesh = fem.make_mesh(mrec)
    nt = mesh.t.shape[1]
    grad = int(rng.integers(0, 3) == 0)
    # "sidepair": the two sides of interior facets as trial and test basis of ONE element (DG / jump blocks): trial != test
    # with equal numbers of DOFs, and a coefficient vector whose traces differ between the sides
    sidepair = kind != 'line' and rng.integers(0, 8) == 0
    if sidepair:
        btype = 'ifacet' 
    bs = {}
    if btype in ('cell', 'cellsub'):
        bs['type'] = 'cell'
        ref = kind
        if btype == 'cellsub':
            k = int(rng.integers(1, nt + 1))
            bs['elements'] = [int(x) for x in rng.permutation(nt)[:k]]
            if rng.integers(0, 3) == 0:
                bs['elements'] = sorted(bs['elements'])
    else:
        ref = fem.FACET_REF[kind]
        which = 'boundary' if btype in ('facet', 'facetsub') else 'interior'
        fac = fem.axis_parallel_facets(mesh, which)
        if not fac:
            return None
        bs['type'] = 'facet' if which == 'boundary' else 'ifacet'
        if btype == 'facetsub' or which == 'interior' or len(fac) != int((mesh.f2t[1] == -1).sum()):
            k = int(rng.integers(1, min(len(fac), 5) + 1))
            bs['facets'] = [int(fac[j]) for j in rng.permutation(len(fac))[:k]]
        bs['side'] = 0
        if 'facets' in bs and rng.integers(0, 3) == 0:
            # oriented facet set: ori[k] tells which of the two cells of facet k is the owner (side 0)
            bs['ori'] = [int(rng.integers(0, 2)) if which == 'interior' else 0 for _ in bs['facets']]
    nq = int(rng.integers(1, 4))
    bs['quad'] = fem.dyadic_quadrature(ref, nq, rng)
    elems = EXACT_ELEMS[kind]
    eu = elems[int(rng.integers(0, len(elems)))]
    ev = elems[int(rng.integers(0, len(elems)))] if rng.integers(0, 3) else eu
    if sidepair:
        ev = eu
        grad = 1 if rng.integers(0, 3) else grad
    bu_s = dict(bs, elem=eu)
    bv_s = dict(bs, elem=ev)
    if bs['type'] == 'ifacet':
        bu_s['side'] = int(rng.integers(0, 2))
        bv_s['side'] = int(rng.integers(0, 2)) if not sidepair else 1 - bu_s['side']
    same = (bu_s == bv_s)
    try:
        bu = fem.make_basis(mesh, kind, bu_s)
        bv = bu if same else fem.make_basis(mesh, kind, bv_s)
    except Exception:
        return None
    attrs = ('value', 'grad') if grad else ('value',)
    ncu, ncv = len(fem.accessors(bu.basis[0], attrs)), len(fem.accessors(bv.basis[0], attrs))
    nel, nqq = int(bu.nelems), int(bu.dx.shape[1])
    if nel == 0:
        return None
    work = bu.Nbfun * bv.Nbfun * nel * nqq
    if work > (4000 if tier == 'quick' else 9000) or bu.N > 60 or bv.N > 60:
        return None
    rec = {'driver': 'exact', 'mesh': mrec, 'bu': bu_s, 'bv': None if same else bv_s, 'grad': grad,
           'params': {'alpha': int(rng.choice([-2, 2, 3]))}}

    def fields_for(basis, nc, force_dof=False):
        fl = []
        avail = []
        # a DOF-vector keyword of a bilinear form is a coefficient vector of the TRIAL basis (form.py
        # _normalize_asm_kwargs(kwargs, ubasis)), the basis that also supplies the default x / h / n; passing the
        # vector and passing ubasis.interpolate(vector) must give the same tensor, also for trial != test
        if force_dof or rng.integers(0, 2):
            fl.append({'name': 'c', 'kind': 'dof', 'vec': _small_vec(rng, basis.N)})
            avail.append(('c', nc))
        if rng.integers(0, 2):
            fl.append({'name': 'g', 'kind': 'val', 'val': [[int(x) for x in row] for row in rng.integers(-2, 4, size=(nel, nqq))]})
            avail.append(('g', 1))
        # a caller's field whose NAME collides with a default of the basis (h=, x=, n=) replaces that default, in all
        # three form types alike
        ov = None
        if rng.integers(0, 4) == 0:
            ov = str(rng.choice(['h', 'x'] + (['n'] if bs['type'] != 'cell' else [])))
            fl.append({'name': ov, 'kind': 'val', 'val': [[int(x) for x in row] for row in rng.integers(-2, 4, size=(nel, nqq))]})
            avail.append((ov, 1))
        if ov != 'x' and rng.integers(0, 2):
            fl.append({'name': 'x', 'kind': 'default'})
            avail.append(('x', mesh.dim()))
        if ov != 'n' and bs['type'] != 'cell' and rng.integers(0, 2):
            fl.append({'name': 'n', 'kind': 'default'})
            avail.append(('n', mesh.dim()))
        return fl, avail
    rec['fields_u'], av_u = fields_for(bu, ncu, force_dof=bool(sidepair))
    rec['fields_v'], av_v = fields_for(bv, ncv)
    # the same form objects assembled afterwards on a second pair of bases of the same mesh (other cells / facets,
    # equal array shapes); the default fields must then be those of the second pair
    alt = _alt_subset(rng, mesh, bs)
    if alt is not None and rng.integers(0, 2):
        rec['bu2'] = dict(bu_s, **alt)
        rec['bv2'] = None if same else dict(bv_s, **alt)
        for fl, av in ((rec['fields_u'], av_u), (rec['fields_v'], av_v)):
            if not any(f['name'] == 'x' for f in fl):
                fl.append({'name': 'x', 'kind': 'default'})
                av.append(('x', mesh.dim()))
    rec['bil'] = fem.gen_bilinear(rng, ncu, ncv, av_u, ['alpha'])
    for _ in range(20):
        if not sidepair or "'c'" in repr(rec['bil']):
            break
        rec['bil'] = fem.gen_bilinear(rng, ncu, ncv, av_u, ['alpha'])
    if rng.integers(0, 6) == 0:
        rec['bil_im'] = fem.gen_bilinear(rng, ncu, ncv, av_u, ['alpha'], nsum=1)
    rec['lin'] = fem.gen_linear(rng, ncv, av_v, ['alpha'])
    if rng.integers(0, 6) == 0:
        rec['lin_im'] = fem.gen_linear(rng, ncv, av_v, ['alpha'], nsum=1)
    rec['fun'] = fem.gen_functional(rng, av_v, ['alpha'])
    if rng.integers(0, 4) == 0:
        rec['fun_im'] = fem.gen_functional(rng, av_v, ['alpha'], nsum=1)
    if bv.Nbfun ** 2 * nel * nqq <= 1200 and rng.integers(0, 3) == 0:
        # tensor-valued functional of rank 1..3 (x, x (x) x, grad u (x) grad v, n (x) n u v ... as grammar terms)
        tshape = [[2], [3], [2, 2], [2, 2], [2, 3], [2, 2, 2]][int(rng.integers(0, 6))]
        ncomp_t = int(np.prod(tshape))
        comps_t, hasA = [], []
        for _ in range(ncomp_t):
            if rng.integers(0, 2):
                comps_t.append(fem.gen_bilinear(rng, ncv, ncv, av_v, ['alpha'], nsum=int(rng.integers(1, 3))))
                hasA.append(int(rng.integers(0, 2)))
            else:
                comps_t.append(fem.gen_functional(rng, av_v, ['alpha'], nsum=int(rng.integers(1, 3))))
                hasA.append(0)
        rec['tfun'] = {'shape': tshape, 'comps': comps_t, 'hasA': hasA, 'u': _small_vec(rng, bv.N), 'v': _small_vec(rng, bv.N)}
    rec['elemental'] = int(work <= 1500 and rng.integers(0, 2) == 1)
    npair = 2 if work <= 2000 else 1
    rec['pairs'] = [[_small_vec(rng, bu.N), _small_vec(rng, bv.N)] for _ in range(npair)]
    rec['lpairs'] = [_small_vec(rng, bv.N)]
    # complex coefficient vectors through the functional (created without dtype) against the real matrix / vector
    if rng.integers(0, 3) == 0:
        rec['pairs_c'] = [[{'re': _small_vec(rng, bu.N), 'im': _small_vec(rng, bu.N)}, _small_vec(rng, bv.N)]]
    if rng.integers(0, 3) == 0:
        rec['lpairs_c'] = [{'re': _small_vec(rng, bv.N), 'im': _small_vec(rng, bv.N)}]
    # call histories: the keyword arrays are modified in place and the same objects are passed again
    def hist_for(fields, basis):
        steps = []
        if work <= 2500 and rng.integers(0, 2):
            for _ in range(int(rng.integers(1, 3))):
                st = {}
                for f in fields:
                    if f['kind'] == 'dof':
                        st[f['name']] = _small_vec(rng, basis.N)
                    elif f['kind'] == 'val':
                        st[f['name']] = [[int(x) for x in row] for row in rng.integers(-2, 4, size=(nel, nqq))]
                if st:
                    steps.append(st)
        return steps
    rec['hist_u'] = hist_for(rec['fields_u'], bu)
    rec['hist_v'] = hist_for(rec['fields_v'], bv)
    rec['interp_u'] = [{'re': _small_vec(rng, bu.N, -2, 3)}]
    rec['interp_v'] = [{'re': _small_vec(rng, bv.N, -2, 3), 'im': _small_vec(rng, bv.N, -2, 3)}] if rng.integers(0, 3) == 0 else []
    tags = {'kind': kind, 'btype': btype, 'oriented': int('ori' in bs), 'eu': fem.elem_name(eu), 'ev': fem.elem_name(ev), 'tier': 'exact',
            'rect': int(eu != ev), 'grad': grad, 'complex': int('bil_im' in rec or 'lin_im' in rec or 'fun_im' in rec),
            'sidepair': int(bool(sidepair)), 'hist': len(rec['hist_u']) + len(rec['hist_v']), 'reuse': int('bu2' in rec), 'tfun': int('tfun' in rec)}
    return rec, tags


# ------------------------------------------------------------------------------------------ interpreter cross-check

PRIMES = [2, 3, 5, 7, 11, 13, 17, 19, 23, 29, 31, 37, 41, 43, 47, 53, 59, 61, 67, 71, 73, 79, 83, 89, 97, 101]


def exec_chk(rec):
    """run the generated callable on an identity basis of distinct integers"""
    from skfem.element import DiscreteField
    nq = rec['nq']
    ncu, ncv, ncf = rec['ncu'], rec['ncv'], rec['ncf']
    tab = lambda off, nc: np.array([[[PRIMES[(off + c * nq + q) % len(PRIMES)] * (1 if (c + q) % 3 else -1)
                                      for q in range(nq)]] for c in range(nc)], dtype=np.float64)
    Uv, Vv, Fv = tab(0, ncu), tab(7, ncv), tab(13, ncf)
    Uf, Vf = (DiscreteField(Uv),), (DiscreteField(Vv),)
    w = {'c': DiscreteField(Fv), 'alpha': rec['alpha']}
    accs = {'u': fem.accessors(Uf), 'v': fem.accessors(Vf), 'f': {'c': fem.accessors(w['c'])}}
    out = np.broadcast_to(fem.ev_term(rec['F'], Uf, Vf, w, accs), (1, nq))
    ints = lambda a: np.asarray(a).astype(np.int64).tolist()
    return [{'a': 'Chk', 'err': '', 'F': rec['F'], 'U': ints(Uv), 'V': ints(Vv),
             'env': {'fld': {'c': {'nc': ncf, 'val': ints(Fv)}}, 'prm': {'alpha': rec['alpha']}},
             'out': ints(out[0])}]


def gen_chk(rng):
    ncu, ncv, ncf = int(rng.integers(1, 4)), int(rng.integers(1, 4)), int(rng.integers(1, 3))
    F = fem.gen_bilinear(rng, ncu, ncv, [('c', ncf)], ['alpha'])
    return {'driver': 'chk', 'F': F, 'ncu': ncu, 'ncv': ncv, 'ncf': ncf, 'nq': 2, 'alpha': int(rng.choice([-2, 3]))}


# ------------------------------------------------------------------------------------------ driver plumbing

def execute(rec):
    if rec['driver'] == 'exact':
        return exec_exact(rec)
    if rec['driver'] == 'chk':
        return exec_chk(rec)
    if rec['driver'] == 'law':
        from . import c01_law
        return c01_law.exec_law(rec)
    if rec['driver'] == 'list':
        from . import c01_extra
        return c01_extra.exec_list(rec)
    if rec['driver'] == 'normal':
        from . import c01_extra
        return c01_extra.exec_normal(rec)
    raise MachineryError(f'unknown driver {rec["driver"]}')


SUITE_FILES = ['tests/test_assembly.py', 'tests/test_basis.py', 'tests/test_manufactured.py', 'tests/test_elements.py']


def suite_scenarios(ctx):
    """thorough tier: every small weak form the repository's own tests assemble, recorded by harness/suite_c01.py while
    the tests run, judged by the Suite clauses of TraceC01 (ConsistentLaw, ShapeOK, RowsAreTest)"""
    from .. import suite
    files = SUITE_FILES + (['tests/test_examples.py'] if os.environ.get('C01_SUITE_EXAMPLES', '1') == '1' else [])
    got = suite.record(ctx, files=files, plugins=['harness.suite_c01'], timeout=2400)
    evs = got.get('c01', [])
    stats = {}
    for st in got.get('c01_stats', []):
        for k, v in st.items():
            stats[k] = stats.get(k, 0) + v
    scs = []
    for k, e in enumerate(evs):
        e = dict(e)
        rec = {'driver': 'suite', 'test': e.pop('test', ''), 'form': e.pop('form', ''), 'elems': e.pop('elems', ''),
               'via': e.pop('via', '')}
        scs.append({'id': f'C01-suite-{k}', 'recipe': rec,
                    'tags': {'family': 'suite', 'tier': 'suite', 'kind': e['kind'], 'form': rec['form'], 'eu': rec['elems'][:80]},
                    'events': [e]})
    ctx.notes['suite_stream'] = {'files': files, 'events_recorded': len(evs), 'distinct_forms': len({s['recipe']['form'] for s in scs}),
                                 'distinct_tests': len({s['recipe']['test'].split(' ')[0] for s in scs}),
                                 'by_kind': {k: sum(1 for s in scs if s['tags']['kind'] == k) for k in ('bil', 'lin', 'fun')},
                                 'with_sparsity_pattern': sum(s['events'][0]['haspat'] for s in scs), 'recorder': stats}
    return scs


def scenario(sid, rec, tags):
    try:
        events = execute(rec)
    except (Skip, fem.TooLarge):
        events = []
    except Malformed as exc:
        events = [{'a': 'Fun', 'err': 'Malformed: ' + str(exc)[:120]}]
    return {'id': sid, 'recipe': rec, 'tags': tags, 'events': events}


def model(ctx):
    thorough = ctx.tier == 'thorough'
    env = {'MC_TIER': ctx.tier, 'MC_MUT': 'none'}
    ctx.model_must_hold('MC_C01', 'MC_C01.cfg', env=env, timeout=3600 if thorough else 1500,
                        workers=12 if thorough else 8, xmx='6g')
    # the clauses must reject seeded deviations of the transcription (evidence about the specification, not a verdict)
    rejected = {}
    for mut in ('swap', 'stride', 'flatF'):
        r = ctx.tlc_model('MC_C01', 'MC_C01.cfg', env={'MC_TIER': 'quick', 'MC_MUT': mut}, timeout=1200, workers=4, xmx='6g',
                          label=f'seeded model deviation {mut} (violation expected)')
        rejected[mut] = bool(r['violated'])
    ctx.notes['model_deviations_rejected'] = rejected


def generate(ctx):
    thorough = ctx.tier == 'thorough'
    out = []
    n_exact = 8000 if thorough else 420
    rng = np.random.default_rng(ctx.seed + 101)
    k = 0
    tries = 0
    while k < n_exact and tries < 3 * n_exact:
        tries += 1
        g = gen_exact(rng, ctx.tier)
        if g is None:
            continue
        out.append((f'C01-exact-{k}', g[0], g[1]))
        k += 1
    rng = np.random.default_rng(ctx.seed + 102)
    for k in range(200 if thorough else 30):
        out.append((f'C01-chk-{k}', gen_chk(rng), {'tier': 'chk'}))
    from . import c01_law, c01_extra
    for off, (gen, n, nm) in enumerate(((c01_extra.gen_list, 1500 if thorough else 70, 'list'),
                                        (c01_extra.gen_normal, 1500 if thorough else 70, 'normal'))):
        rng = np.random.default_rng(ctx.seed + 104 + off)
        k = tries = 0
        while k < n and tries < 5 * n:
            tries += 1
            g = gen(rng)
            if g is None:
                continue
            out.append((f'C01-{nm}-{k}', g[0], g[1]))
            k += 1
    out += c01_law.generate(ctx)
    return out


def run(ctx):
    import threading
    box = {}

    def bg():
        try:
            model(ctx)
        except BaseException as exc:      # re-raised in the main thread
            box['exc'] = exc
    th = threading.Thread(target=bg)
    th.start()                              # TLC explores the model while the real code is being driven
    try:
        recs = generate(ctx)
        scs = [scenario(sid, rec, tags) for sid, rec, tags in recs]
        if ctx.tier == 'thorough':
            scs += suite_scenarios(ctx)
    finally:
        th.join()
    if 'exc' in box:
        raise box['exc']
    ctx.notes['skipped_outside_exact_universe'] = sum(1 for s in scs if not s['events'])
    ctx.validate('TraceC01', scs, jvms=8)
    if any(f['clause'] == 'InterpreterAgrees' for f in ctx.failures):
        # the Python term interpreter disagrees with EvalN: the duplicated artefact of the harness is broken, this says
        # nothing about the library
        raise MachineryError('harness term interpreter disagrees with AssemblySem.EvalN (Chk events)')
    keys = {json.dumps([s['tags'].get(k) for k in ('kind', 'btype', 'eu', 'ev', 'tier', 'family')] +
                       [s['recipe'].get('bil'), s['recipe'].get('form')], sort_keys=True)
            for s in scs if s['events']}
    ctx.notes['distinct_nontrivial'] = len(keys)
    from . import c01_law
    ctx.notes['law_tier_calibration'] = c01_law.calibration(scs)
    ctx.notes['tolerances'] = {'TolSum': '2^-40 * (floor(|v|^T |A| |u|) + 1)'}
    return ctx.finish(rule=RULE, assumptions=[
        'exact tier: basis values, weights and coefficients are dyadic, so float64 assembly is exact; pi asserts this '
        '(EntriesIntegral) instead of rounding',
        'law tier: both sides are float results of the code; a defect common to assembly and interpolate+Functional '
        '(e.g. wrong basis values) is out of the scope of C01 (see C03/C09/C10)',
        'a DOF-vector keyword of a bilinear form is a coefficient vector of the trial basis (form.py: '
        '_normalize_asm_kwargs(kwargs, ubasis)), the basis that also supplies the default x/h/n',
        'call histories: keyword arrays modified in place between calls, form objects reused on a second pair of bases',
        'threaded kernels (nthreads > 0) are the subject of C16 and not exercised here',
        'TLC 1.8.0 and the CommunityModules Json module are trusted'], exhaustive=False)


def replay(ctx, doc):
    sc = doc['scenario']
    if sc.get('recipe', {}).get('driver') == 'model':
        ctx.model_must_hold('MC_C01', 'MC_C01.cfg', env={'MC_TIER': ctx.tier, 'MC_MUT': 'none'}, timeout=1800, workers=8, xmx='6g')
        return ctx.finish(rule=RULE)
    if sc.get('recipe', {}).get('driver') == 'suite':
        # recorded from a repository test (named in the recipe): the recorded event itself is re-validated
        ctx.validate('TraceC01', [sc], jvms=8)
        return ctx.finish(rule=RULE)
    sc2 = scenario(sc['id'], sc['recipe'], sc.get('tags', {}))
    ctx.validate('TraceC01', [sc2], jvms=8)
    return ctx.finish(rule=RULE)
