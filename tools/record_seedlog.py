#!/usr/bin/env python3
"""tools/record_seedlog.py <seedcheck log>... : writes the first-run confirmation of seeded changes (demo exits, repository
suite with the patch, exit code and first report of the registered check) into seeded/<id>/meta.json, unless present."""
import json, os, re, sys
HERE = os.path.dirname(os.path.dirname(os.path.abspath(__file__)))
for log in sys.argv[1:]:
    for line in open(log):
        m = re.match(r'SEED (\S+) demo_clean=(\d+) demo_patched=(\d+) tests=\[(.*?)\] check_rc=(\d+)\s*(.*)', line)
        if not m:
            continue
        sd, dc, dp, tests, rc, rep = m.groups()
        f = os.path.join(HERE, 'seeded', os.path.basename(sd), 'meta.json')
        meta = json.load(open(f))
        c = meta.setdefault('confirmed', {})
        c.setdefault('demo_on_unchanged_tree_exit', int(dc))
        c.setdefault('demo_with_patch_exit', int(dp))
        c.setdefault('repo_tests_with_patch', re.sub(r', \d+ warnings.*', '', tests))
        pid = os.path.basename(sd).split('-')[0]
        c.setdefault('check', f'./check {pid} --tier quick against a scratch copy of /repo with the patch applied (tools/seedcheck.sh)')
        c.setdefault('check_exit_first_version', int(rc))
        if rep.strip():
            c.setdefault('check_first_report', rep.strip()[:300])
        json.dump(meta, open(f, 'w'), indent=1)
        print(os.path.basename(sd), 'first', c['check_exit_first_version'])
