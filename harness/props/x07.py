"""X07 - Basis.refinterp (extended coverage beyond the listed properties; NOT registered in MANIFEST.json).

The refined-reference-cell mesh that `refinterp` returns for plotting: block structure (sub-cell -> parent), all points
inside their parent, sub-cells filling the parent (integer determinants), and the sampled values being those of the
discrete function.  The function is the interpolant of an affine function with distinct integer values at the vertices,
which every element here reproduces exactly, so a mis-paired DOF shows.  Integer meshes, coordinates scaled by 2^nrefs.
1-D bases are not driven: `refinterp` perturbs the 1-D sample points by 1e-10 on purpose (plot ordering).
Verdicts: spec/TraceX07.tla against spec/RefInterp.tla.
"""
import json

import numpy as np

from .. import universe as U
from ..core import guarded
from ..project import ids, NVERT

RULE = 'scenario = (integer mesh with its numbering, element, nrefs, affine function); distinct = distinct recipes.'
ELEMS = {'tri': ['ElementTriP1', 'ElementTriP2', 'ElementTriCR'], 'quad': ['ElementQuad1', 'ElementQuad2'],
         'tet': ['ElementTetP1', 'ElementTetP2'], 'hex': ['ElementHex1', 'ElementHex2']}


def execute(rec):
    import skfem as fem
    kind, n = rec['kind'], rec['n']
    ev = {'a': 'RefInterp', 'kind': kind, 'n': n, 'err': '', 'p0': [], 't0': [], 'P': [], 'T': [], 'W': [], 'ca': rec['ca'],
          'cb': rec['cb'], 'npr': 0}

    def call():
        m = U.make(kind, rec['p'], rec['t'])
        basis = fem.Basis(m, getattr(fem, rec['elem'])())
        ca = np.array(rec['ca'], dtype=np.float64)
        y = basis.project(lambda x: sum(ca[d] * x[d] for d in range(len(ca))) + rec['cb']) if rec['elem'] == 'ElementTriCR' \
            else ca @ basis.doflocs + rec['cb']
        M, W = basis.refinterp(y, n)
        return m, M, W
    out, err = guarded(call, 60)
    if err:
        ev['err'] = err
        return [ev]
    m, M, W = out
    s = 2 ** n
    nv = NVERT[kind]

    def ints(a):
        q = np.asarray(a, dtype=np.float64) * s
        r = np.rint(q)
        if not np.allclose(q, r, atol=1e-9):
            raise ValueError('inexact')
        return r.astype(int)
    try:
        ev['p0'] = [[int(v) for v in col] for col in ints(m.p).T]
        ev['P'] = [[int(v) for v in col] for col in ints(M.p).T]
        ev['W'] = [int(v) for v in ints(W)]
    except ValueError:
        ev['err'] = 'InexactCoordinates'
        return [ev]
    ev['t0'] = ids(m.t[:nv])
    ev['T'] = ids(M.t[:nv])
    ev['npr'] = int(M.p.shape[1] // m.t.shape[1])
    return [ev]


def generate(tier, seed):
    rng = np.random.default_rng(707 + seed)
    recs = []
    meshes = [('tri', *U.tri_lattice(2, 1, diags=[0, 1])), ('tri', *U.tri_lattice(1, 1, jiggle=[(3, 1, 1)])),
              ('quad', *U.quad_grid(2, 1)), ('quad', *U.quad_grid(1, 2)),
              ('tet', *U.tet_cubes(1, 5)), ('hex', *U.hex_grid(2, 1, 1))]
    if tier == 'thorough':
        meshes += [('tri', *U.delaunay_int(2, 7, 4, rng)), ('tet', *U.tet_cubes(1, 6)), ('hex', *U.hex_grid(1, 1, 2)),
                   ('quad', *U.quad_grid(2, 2))]
    for kind, p, t in meshes:
        for rep in range(1 if tier == 'quick' else 3):
            perm = rng.permutation(p.shape[1])
            p2, t2 = U.renumber(p, t, perm)
            t2 = U.permute_cells(t2, rng.permutation(t2.shape[1]))
            if kind in ('tri', 'tet', 'quad'):
                t2 = U.apply_local_orders(kind, t2, rng)
            dim = p.shape[0]
            for elem in ELEMS[kind]:
                for n in ((1, 2) if dim == 2 else (1,) if tier == 'quick' else (1, 2)):
                    ca = [int(v) for v in rng.choice([-3, -2, 2, 3, 5], size=dim, replace=False)]
                    recs.append({'driver': 'refinterp', 'kind': kind, 'p': p2.astype(int).tolist(), 't': t2.astype(int).tolist(),
                                 'elem': elem, 'n': n, 'ca': ca, 'cb': int(rng.integers(-4, 5))})
    return recs


def run(ctx):
    recs = generate(ctx.tier, ctx.seed)
    scs = [{'id': f'X07-{k}', 'recipe': r, 'tags': {'kind': r['kind'], 'elem': r['elem']}, 'events': execute(r)}
           for k, r in enumerate(recs)]
    ctx.validate('TraceX07', scs)
    ctx.notes['distinct_nontrivial'] = len({json.dumps(r, sort_keys=True) for r in recs})
    return ctx.finish(rule=RULE, assumptions=['extended coverage: not one of the listed properties',
                                              'parallelogram / box cells for quad and hex (affine function reproduced exactly)'],
                      exhaustive=False)


def replay(ctx, doc):
    sc = doc['scenario']
    ctx.validate('TraceX07', [{'id': sc['id'], 'recipe': sc['recipe'], 'tags': sc.get('tags', {}), 'events': execute(sc['recipe'])}])
    return ctx.finish(rule=RULE)
