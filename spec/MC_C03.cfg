SPECIFICATION Spec
CONSTANT Which = "main"
CONSTANT Tier = "quick"
INVARIANT DesignConsistent
CHECK_DEADLOCK FALSE
