"""Shared helpers of the C04 / C07 drivers: element catalogue, signature-only synthetic elements, recipes for
meshes, and the projections of Dofs / Basis objects to the events of spec/Dofs.tla.

Nothing here compares a result with an expectation; the module builds inputs and changes representation.
DOF numbers stay 0-based in events (the property speaks about 0..N-1); mesh entity ids become 1-based.
"""
import inspect
import itertools
import logging
import warnings
from fractions import Fraction

import numpy as np

from . import universe as U
from .core import MachineryError, guarded
from .project import ids, kind_of, NVERT, find_scale, int_coords, fx


logging.getLogger('skfem').setLevel(logging.ERROR)      # "Replace ElementLinePp(1) by ..." advice is not an observation


def lib(fn, seconds):
    """core.guarded for library calls of the C04 / C07 drivers: exceptions are observations (returned as err), but an
    expired per-call alarm is NOT -- neither property says anything about running time, the calls take milliseconds and
    the alarms are 100x-1000x above that, so an expiry means an overloaded machine: exit 2, never a VIOLATION."""
    r, err = guarded(fn, seconds)
    if err == 'Timeout':
        raise MachineryError(f'a library call exceeded its per-call alarm of {seconds} s (machine load); no verdict')
    return r, err


class LogCapture(logging.Handler):
    """Collects the messages the library logs at WARNING level or above while a block runs (they are observations)."""

    def __init__(self):
        super().__init__(level=logging.WARNING)
        self.records = []
        self.names = []

    def emit(self, record):
        self.records.append(record.getMessage())
        self.names.append(record.name)

    def __enter__(self):
        self.lg = logging.getLogger('skfem')
        self.old = self.lg.level
        self.lg.setLevel(logging.WARNING)
        self.lg.addHandler(self)
        self.prop = self.lg.propagate
        self.lg.propagate = False
        return self

    def __exit__(self, *a):
        self.lg.removeHandler(self)
        self.lg.setLevel(self.old)
        self.lg.propagate = self.prop
        return False


def refdom_of(kind):
    import skfem.refdom as R
    return {'line': R.RefLine, 'tri': R.RefTri, 'quad': R.RefQuad, 'tet': R.RefTet, 'hex': R.RefHex,
            'wedge': R.RefWedge}[kind]


DIM = {'line': 1, 'tri': 2, 'quad': 2, 'tet': 3, 'hex': 3, 'wedge': 3}
MAPDEG = {'line': 1, 'tri': 1, 'tet': 1, 'quad': 2, 'wedge': 2, 'hex': 3}


# ---------------------------------------------------------------- synthetic elements (signature only)

def _weights(m, r):
    """Dyadic convex weights over m points, variant r (distinct variants give distinct points where possible)."""
    if m == 1:
        return [1.0]
    if m == 2:
        return [[.5, .5], [.25, .75], [.75, .25]][r % 3]
    base = {3: [.5, .25, .25], 4: [.25, .25, .25, .25], 6: [.25, .125, .125, .25, .125, .125],
            8: [.125] * 8}[m]
    if m == 4 and r % 2 == 1:
        base = [.5, .25, .125, .125]
    r = r % m
    return base[r:] + base[:r]


def synthetic_doflocs(kind, n, e, f, i):
    """Reference locations for a signature: vertices; dyadic points on the local edges / facets / in the cell."""
    rd = refdom_of(kind)
    P = np.asarray(rd.p, dtype=float)            # dim x nnodes
    rows = []
    for j in range(rd.nnodes):
        rows += [P[:, j]] * n
    if DIM[kind] == 3:
        for ed in rd.edges:
            for r in range(e):
                w = _weights(2, r)
                rows.append(P[:, ed] @ np.array(w))
    if DIM[kind] >= 2:
        for fc in rd.facets:
            vs = list(dict.fromkeys(fc))          # wedge triangles repeat an index
            for r in range(f):
                rows.append(P[:, vs] @ np.array(_weights(len(vs), r)))
    for r in range(i):
        rows.append(P @ np.array(_weights(rd.nnodes, r)))
    return np.array(rows).reshape((len(rows), DIM[kind]))


def default_names(n, e, f, i):
    """Distinct name per row, in the element's order nodal, edge, facet, interior."""
    return ([f'n{r}' for r in range(n)] + [f'e{r}' for r in range(e)] + [f'f{r}' for r in range(f)]
            + [f'i{r}' for r in range(i)])


def synthetic_element(kind, sig, names=None):
    """An Element that only carries a DOF signature; the numbering and lookup code never evaluates shape
    functions, Basis construction gets zero-valued fields."""
    from skfem.element import Element, DiscreteField
    n, e, f, i = int(sig['n']), int(sig['e']), int(sig['f']), int(sig['i'])
    rd = refdom_of(kind)

    class ElementSignature(Element):
        nodal_dofs = n
        edge_dofs = e
        facet_dofs = f
        interior_dofs = i
        maxdeg = 1
        refdom = rd
        dofnames = list(names) if names is not None else default_names(n, e, f, i)
        doflocs = synthetic_doflocs(kind, n, e, f, i)

        def gbasis(self, mapping, X, j, tind=None):
            nel = mapping.mesh.t.shape[1] if tind is None else len(tind)
            return (DiscreteField(value=np.zeros((nel, X.shape[-1]))),)

    ElementSignature.__name__ = f'ElementSignature_{kind}_{n}{e}{f}{i}'
    return ElementSignature()


# ---------------------------------------------------------------- element specs (pure JSON) -> elements

def build_element(spec):
    import skfem.element as E
    if 'syn' in spec:
        s = spec['syn']
        return synthetic_element(s['kind'], s['sig'], s.get('names'))
    if 'cls' in spec:
        return getattr(E, spec['cls'])(*spec.get('args', []))
    if 'vec' in spec:
        if 'dim' in spec:                        # explicit number of components (may differ from the dimension)
            return E.ElementVector(build_element(spec['vec']), int(spec['dim']))
        return E.ElementVector(build_element(spec['vec']))
    if 'dg' in spec:
        return E.ElementDG(build_element(spec['dg']))
    if 'comp' in spec:
        return E.ElementComposite(*[build_element(s) for s in spec['comp']])
    if 'cond' in spec:                           # Element.condensed(): part 0 = interior functions, part 1 = the rest
        return build_element(spec['cond']).condensed()[int(spec['part'])]
    raise MachineryError(f'bad element spec {spec}')


def label(spec):
    if 'syn' in spec:
        s = spec['syn']['sig']
        return f"Syn[{s['n']}{s['e']}{s['f']}{s['i']}]"
    if 'cls' in spec:
        a = spec.get('args', [])
        return spec['cls'] + (f"({','.join(map(str, a))})" if a else '')
    if 'vec' in spec:
        if 'dim' in spec:
            return f"Vector({label(spec['vec'])},{spec['dim']})"
        return f"Vector({label(spec['vec'])})"
    if 'dg' in spec:
        return f"DG({label(spec['dg'])})"
    if 'comp' in spec:
        return '*'.join(label(s) for s in spec['comp'])
    if 'cond' in spec:
        return f"Condensed({label(spec['cond'])})[{spec['part']}]"
    return '?'


def leaves(spec):
    if 'cls' in spec:
        return [spec['cls']]
    if 'syn' in spec:
        return ['syn']
    if 'comp' in spec:
        return [x for s in spec['comp'] for x in leaves(s)]
    return leaves(spec.get('vec') or spec.get('dg') or spec.get('cond'))


def C(name, *args):
    return {'cls': name, 'args': list(args)} if args else {'cls': name}


def exported_classes(kind):
    """Every exported element class of the reference domain that can be built without arguments."""
    import skfem.element as E
    rd = refdom_of(kind)
    out = []
    for name in sorted(dir(E)):
        c = getattr(E, name)
        if not (inspect.isclass(c) and issubclass(c, E.Element) and name.startswith('Element')):
            continue
        try:
            e = c()
        except Exception:
            continue
        if getattr(e, 'refdom', None) is rd:
            out.append(C(name))
    return out


def wrappers(kind):
    V = lambda s: {'vec': s}
    D = lambda s: {'dg': s}
    X = lambda *s: {'comp': list(s)}
    if kind == 'line':
        return [C('ElementLinePp', 1), C('ElementLinePp', 3), C('ElementLinePp', 4),
                V(C('ElementLineP2')), D(C('ElementLineP2')), D(C('ElementLineHermite')),
                X(C('ElementLineP2'), C('ElementLineP1')), X(C('ElementLineMini'), C('ElementLineP0'))]
    if kind == 'tri':
        return [V(C('ElementTriP1')), V(C('ElementTriP2')), V(C('ElementTriCCR')), V(C('ElementTriMini')),
                D(C('ElementTriP1')), D(C('ElementTriP2')), D(C('ElementTriRT1')), D(C('ElementTriArgyris')),
                V(D(C('ElementTriP1'))),
                X(C('ElementTriP2'), C('ElementTriP1')), X(V(C('ElementTriP2')), C('ElementTriP1')),
                X(C('ElementTriRT1'), C('ElementTriP0')), X(C('ElementTriMini'), C('ElementTriP1')),
                X(V(C('ElementTriMini')), C('ElementTriP1')), X(C('ElementTriMorley'), C('ElementTriN1')),
                X(C('ElementTriBDM1'), D(C('ElementTriP1'))), D(X(C('ElementTriP2'), C('ElementTriP1')))]
    if kind == 'quad':
        return [C('ElementQuadP', 1), C('ElementQuadP', 2), C('ElementQuadP', 3),
                V(C('ElementQuad2')), D(C('ElementQuad1')), D(C('ElementQuad2')),
                X(C('ElementQuad2'), C('ElementQuad1')), X(V(C('ElementQuad2')), C('ElementQuad1')),
                X(C('ElementQuadRT1'), C('ElementQuad0'))]
    if kind == 'tet':
        return [V(C('ElementTetP2')), V(C('ElementTetMini')), D(C('ElementTetP1')), D(C('ElementTetP2')),
                D(C('ElementTetN1')), D(C('ElementTetCCR')),
                X(C('ElementTetP2'), C('ElementTetP1')), X(V(C('ElementTetP2')), C('ElementTetP1')),
                X(C('ElementTetRT1'), C('ElementTetP0')), X(C('ElementTetN1'), C('ElementTetRT1')),
                X(V(C('ElementTetMini')), C('ElementTetP1')), X(C('ElementTetN1'), C('ElementTetP1')),
                X(C('ElementTetCCR'), C('ElementTetN1'), C('ElementTetRT1'))]
    if kind == 'hex':
        return [V(C('ElementHex1')), V(C('ElementHex2')), D(C('ElementHex1')), D(C('ElementHex2')),
                X(C('ElementHex2'), C('ElementHex1')), X(C('ElementHexRT1'), C('ElementHex0')),
                X(C('ElementHexS2'), C('ElementHexRT1'))]
    if kind == 'wedge':
        return [V(C('ElementWedge1')), D(C('ElementWedge1')), X(C('ElementWedge1'), C('ElementWedge1'))]
    return []


def extra_wrappers(kind):
    """Wrappers with non-default parameters and composites with heterogeneous layouts: vector wrappers whose number
    of components (1..4) differs from the dimension; 3-D composites in which the components owning edge DOFs differ
    from those owning facet DOFs (both orders); composites of signature-only components."""
    V = lambda s, d: {'vec': s, 'dim': d}
    X = lambda *s: {'comp': list(s)}
    S = lambda n, e, f, i: {'syn': {'kind': kind, 'sig': {'n': n, 'e': e, 'f': f, 'i': i}}}
    if kind == 'line':
        return [V(C('ElementLineP2'), 2), V(C('ElementLineP1'), 3), V(C('ElementLineMini'), 4),
                X(V(C('ElementLineP2'), 2), C('ElementLineP1')), X(S(1, 0, 0, 2), S(2, 0, 0, 0))]
    if kind == 'tri':
        return [V(C('ElementTriP1'), 1), V(C('ElementTriP2'), 3), V(C('ElementTriP2'), 1), V(C('ElementTriMini'), 4),
                V(C('ElementTriCR'), 3), {'dg': V(C('ElementTriP2'), 3)}, X(V(C('ElementTriP2'), 3), C('ElementTriP1')),
                X(C('ElementTriCR'), C('ElementTriP2')), X(S(1, 0, 2, 0), S(0, 0, 1, 2)), X(S(0, 0, 1, 1), S(2, 0, 0, 0))]
    if kind == 'quad':
        return [V(C('ElementQuad1'), 1), V(C('ElementQuad2'), 3), V(C('ElementQuadS2'), 4),
                X(V(C('ElementQuad2'), 3), C('ElementQuad1')), X(S(1, 0, 2, 0), S(0, 0, 1, 2))]
    if kind == 'tet':
        return [V(C('ElementTetP1'), 2), V(C('ElementTetP1'), 1), V(C('ElementTetP2'), 2), V(C('ElementTetP2'), 4),
                V(C('ElementTetCR'), 2), V(C('ElementTetMini'), 4), {'dg': V(C('ElementTetP2'), 2)},
                X(C('ElementTetP2'), C('ElementTetCR')), X(C('ElementTetCR'), C('ElementTetP2')),
                X(C('ElementTetP2'), C('ElementTetCCR')), X(C('ElementTetN1'), C('ElementTetRT0')),
                X(C('ElementTetRT0'), C('ElementTetN1')), X(C('ElementTetCCR'), C('ElementTetN1')),
                X(V(C('ElementTetP2'), 2), C('ElementTetRT1')), X(C('ElementTetRT1'), C('ElementTetP2'), C('ElementTetN1')),
                X(S(1, 1, 0, 0), S(0, 0, 1, 1)), X(S(0, 0, 2, 0), S(1, 2, 0, 0)), X(S(0, 1, 1, 0), S(0, 2, 0, 1), S(1, 0, 1, 0))]
    if kind == 'hex':
        return [V(C('ElementHex1'), 2), V(C('ElementHex1'), 1), V(C('ElementHexS2'), 2), V(C('ElementHexRT1'), 2),
                X(C('ElementHexRT1'), C('ElementHexS2')), X(C('ElementHexS2'), C('ElementHexSkeleton0')),
                X(C('ElementHex2'), C('ElementHexRT1')), X(V(C('ElementHexS2'), 2), C('ElementHexRT1')),
                X(S(1, 1, 0, 0), S(0, 0, 1, 1)), X(S(0, 0, 1, 0), S(0, 2, 0, 1))]
    if kind == 'wedge':
        return [V(C('ElementWedge1'), 2), V(C('ElementWedge1'), 4), X(S(1, 0, 0, 1), S(0, 0, 1, 0))]
    return []


def condensed_parts(kind):
    """Both parts of Element.condensed() (static condensation): the boundary part keeps a reference location table with
    more rows than it has functions."""
    K = lambda s, p: {'cond': s, 'part': p}
    X = lambda *s: {'comp': list(s)}
    base = {'line': [C('ElementLineP2'), C('ElementLineMini'), C('ElementLinePp', 3)],
            'tri': [C('ElementTriMini'), C('ElementTriP3'), C('ElementTriCCR'), C('ElementTriP2B'), C('ElementTriP4'),
                    C('ElementTriRT2'), C('ElementTriHermite'), X(C('ElementTriMini'), C('ElementTriP1'))],
            'quad': [C('ElementQuad2'), C('ElementQuadP', 3), X(C('ElementQuad2'), C('ElementQuad1'))],
            'tet': [C('ElementTetCCR'), C('ElementTetMini'), X(C('ElementTetMini'), C('ElementTetP1'))],
            'hex': [C('ElementHex2')],
            'wedge': []}[kind]
    return [K(s, 1) for s in base] + [K(s, 0) for s in base[:2]]


def catalogue(kind):
    return exported_classes(kind) + wrappers(kind) + extra_wrappers(kind) + condensed_parts(kind)


# ---------------------------------------------------------------- meshes from recipes

def _dg_class(kind):
    import skfem
    return {'line': skfem.MeshLine1DG, 'tri': skfem.MeshTri1DG, 'quad': skfem.MeshQuad1DG,
            'hex': skfem.MeshHex1DG}[kind]


def make_periodic(mrec):
    """mrec['periodic'] = {'axes': [[..ints..], ...], 'dirs': [...], 'via': 'init_tensor' | 'periodic'}: tensor mesh over
    the integer axes, periodic in the directions dirs.  via = 'periodic' builds the ordinary tensor mesh first and calls
    Mesh*DG.periodic(mesh, ix, ix0) with the vertices of the lower / upper side of the single direction dirs[0], paired
    by their remaining coordinates."""
    pr = mrec['periodic']
    axes = [np.array(a, dtype=np.float64) for a in pr['axes']]
    cls = _dg_class(mrec['kind'])
    if pr.get('via', 'init_tensor') == 'init_tensor':
        return cls.init_tensor(*axes, periodic=list(pr['dirs']))
    base = U.mesh_class(mrec['kind']).init_tensor(*axes)
    d = pr['dirs'][0]
    lo, hi = axes[d].min(), axes[d].max()
    ix = np.nonzero(base.p[d] == lo)[0]
    ix0 = np.nonzero(base.p[d] == hi)[0]
    other = [c for c in range(base.p.shape[0]) if c != d]
    key = lambda v: tuple(base.p[c, v] for c in other)
    ix = np.array(sorted(ix, key=key), dtype=np.int64)
    ix0 = np.array(sorted(ix0, key=key), dtype=np.int64)
    return cls.periodic(base, ix, ix0)


def periodic_rec(kind, axes, dirs, via='init_tensor'):
    """Recipe of a periodic mesh; 'p' / 't' of the underlying ordinary tensor mesh are kept for size bookkeeping."""
    base = U.mesh_class(kind).init_tensor(*[np.array(a, dtype=np.float64) for a in axes])
    rec = mesh_rec(kind, base.p, base.t[:NVERT[kind]])
    rec['periodic'] = {'axes': [[int(x) for x in a] for a in axes], 'dirs': [int(d) for d in dirs], 'via': via}
    return rec


UNSORTING_OPS = {'oriented'}


def history_rec(hist):
    """Recipe of a mesh reached through an operation history; 'p' / 't' of the result are kept for bookkeeping."""
    from . import meshops as MO
    with warnings.catch_warnings():
        warnings.simplefilter('ignore')
        m = MO.build(hist)
    kind = kind_of(m)
    sc = find_scale(m.p) or 1
    rec = mesh_rec(kind, m.p[:, :int(m.nvertices)], m.t[:NVERT[kind]], scale=sc)
    rec['hist'] = hist
    return rec


def orientable(mesh, mrec):
    """Precondition of SamePointFromAllCells for direction-dependent locations: a first-order triangle / segment mesh
    of the library's sorted kind -- not built with sort_t = False by the caller, not passed through oriented()."""
    if type(mesh).__name__ not in ('MeshTri1', 'MeshLine1'):
        return 0
    h = (mrec or {}).get('hist')
    if h is not None:
        if h['start'].get('ctor') == 'nosort' or any(op[0] in UNSORTING_OPS for op in h.get('ops', [])):
            return 0
    return 1


def period_of(mrec):
    """Period per coordinate (0 = not periodic) of a periodic recipe, else None."""
    pr = mrec.get('periodic')
    if not pr:
        return None
    return [int(max(a) - min(a)) if c in pr['dirs'] else 0 for c, a in enumerate(pr['axes'])]


def make_mesh(mrec):
    """mrec = {'kind', 'p': dim x nv (ints, times 'scale'), 't': nnodes x nt (0-based), 'scale'}; optional
    'order': 2 (second-order geometry), 'periodic' (see make_periodic), 'xf': {'pow2': k, 'add': [...]} (coordinates
    multiplied by 2^k, then translated: both exact in floating point for the recipes used)."""
    sc = mrec.get('scale', 1)
    p = np.array(mrec['p'], dtype=np.float64) / sc
    if 'xf' in mrec:
        p = p * 2.0 ** mrec['xf'].get('pow2', 0) + np.array(mrec['xf']['add'], dtype=np.float64)[:, None]
    with warnings.catch_warnings():
        warnings.simplefilter('ignore')
        if 'periodic' in mrec:
            return make_periodic(mrec)
        if 'hist' in mrec:                       # mesh reached through an operation history (harness/meshops.py)
            from . import meshops as MO
            return MO.build(mrec['hist'])
        m = U.make(mrec['kind'], p, mrec['t'])
        if mrec.get('order', 1) == 2:        # second-order geometry (straight): same cells, extra geometry nodes
            import skfem
            m = {'tri': skfem.MeshTri2, 'quad': skfem.MeshQuad2, 'tet': skfem.MeshTet2,
                 'hex': skfem.MeshHex2}[mrec['kind']].from_mesh(m)
        return m


def mesh_rec(kind, p, t, scale=1):
    q = np.asarray(p, dtype=np.float64) * scale
    if not np.array_equal(q, np.rint(q)):
        raise MachineryError('mesh recipe coordinates are not integral at the stated scale')
    return {'kind': kind, 'p': np.rint(q).astype(int).tolist(), 't': np.asarray(t).astype(int).tolist(),
            'scale': int(scale)}


def periodic_meshes(tier):
    """(family, recipe) of periodic tensor meshes: every non-empty set of periodic directions per cell type (three
    cells across a periodic direction, non-uniform integer spacing), through Mesh*1DG.init_tensor(periodic=...) and
    through Mesh*1DG.periodic(mesh, ix, ix0) directly."""
    import itertools as it
    out = []
    A, B, Cx = [0, 1, 3, 4], [0, 2, 3, 5], [0, 1, 2, 4]
    out.append(('periodic', periodic_rec('line', [A], [0])))
    out.append(('periodic-direct', periodic_rec('line', [B], [0], via='periodic')))
    for kind in ('tri', 'quad'):
        out.append(('periodic', periodic_rec(kind, [A, [0, 2, 3]], [0])))
        out.append(('periodic', periodic_rec(kind, [[0, 1, 2], B], [1])))
        out.append(('periodic', periodic_rec(kind, [A, B], [0, 1])))
        out.append(('periodic', periodic_rec(kind, [B, A], [1, 0])))
        out.append(('periodic-direct', periodic_rec(kind, [A, [0, 2, 3]], [0], via='periodic')))
        out.append(('periodic-direct', periodic_rec(kind, [[0, 1], Cx], [1], via='periodic')))
    axes = [A, B, Cx]
    for r in (1, 2, 3):
        for dirs in it.combinations(range(3), r):
            ax = [axes[c] if c in dirs else [0, 2] for c in range(3)]
            out.append(('periodic', periodic_rec('hex', ax, list(dirs))))
    out.append(('periodic', periodic_rec('hex', axes, [2, 0, 1])))
    out.append(('periodic-direct', periodic_rec('hex', [A, [0, 1], [0, 2, 3]], [0], via='periodic')))
    if tier == 'thorough':
        out.append(('periodic', periodic_rec('hex', [A, B, [0, 1, 2]], [1, 0])))
        out.append(('periodic', periodic_rec('quad', [[0, 1, 2, 3, 5], [0, 1, 2, 4]], [0, 1])))
        out.append(('periodic', periodic_rec('tri', [[0, 1, 2, 3, 5], [0, 1, 2, 4]], [0, 1])))
        out.append(('periodic-direct', periodic_rec('hex', [[0, 1], [0, 1], Cx], [2], via='periodic')))
    return out


PERIODIC_ELEMS = {
    'line': [C('ElementLineP1'), C('ElementLineP2'), C('ElementLineMini')],
    'tri': [C('ElementTriP1'), C('ElementTriP2'), {'comp': [C('ElementTriP2'), C('ElementTriP1')]}, C('ElementTriCR')],
    'quad': [C('ElementQuad1'), C('ElementQuad2'), C('ElementQuadS2'), {'vec': C('ElementQuad1')}],
    'hex': [C('ElementHex1'), C('ElementHex2'), C('ElementHexS2'),
            {'syn': {'kind': 'hex', 'sig': {'n': 1, 'e': 2, 'f': 1, 'i': 1}}}],
}


def universe_meshes(rng, tier, with_wedge=True, big=False):
    """(family, mesh recipe) over the Python-side universes: lattice sub-meshes, renumbered / permuted /
    locally re-ordered variants, integer Delaunay meshes."""
    out = []
    thorough = tier == 'thorough'

    def add(fam, kind, p, t, scale=1, variants=1, local=True):
        out.append((fam, mesh_rec(kind, p, t, scale)))
        nv, nt = np.asarray(p).shape[1], np.asarray(t).shape[1]
        for _ in range(variants):
            p2, t2 = U.renumber(np.asarray(p, dtype=float), np.asarray(t), rng.permutation(nv))
            t2 = U.permute_cells(t2, rng.permutation(nt))
            if local:
                t2 = U.apply_local_orders(kind, t2, rng)
            out.append((fam + '-renum', mesh_rec(kind, p2, t2, scale)))

    # 1-D
    p, t = U.line_points([0, 1, 3, 4, 6])
    add('U1', 'line', p, t)
    p, t = U.line_points([0, 1, 2, 4, 5, 7])
    add('U1-components', 'line', *U.submesh(p, t, [0, 1, 3, 4]))
    # 2-D triangles
    for dg in ([(0, 1, 1, 0), (1, 1, 0, 0)] if not thorough else list(itertools.product((0, 1), repeat=4))[::2]):
        p, t = U.tri_lattice(2, 2, dg)
        add('U2t', 'tri', p, t)
        for _ in range(2 if not thorough else 6):
            k = int(rng.integers(1, 8))
            s = sorted(rng.choice(8, k, replace=False).tolist())
            add('U2t', 'tri', *U.submesh(p, t, s), variants=0)
    p, t = U.tri_lattice(2, 2, (0, 1, 1, 0), jiggle=[(4, 0.25, 0.5)])
    add('U2t-jiggled', 'tri', p, t, scale=4)
    p, t = U.tri_lattice(3, 2, (0, 1, 0, 1, 1, 0))
    add('U2t', 'tri', p, t)
    # 2-D quadrilaterals
    for (nx, ny) in ((1, 1), (2, 2), (3, 2)):
        p, t = U.quad_grid(nx, ny)
        add('U2q', 'quad', p, t)
    p, t = U.quad_grid(2, 2, jiggle=[(4, 0.25, 0.5)])
    add('U2q-jiggled', 'quad', p, t, scale=4)
    p, t = U.quad_grid(2, 2)
    add('U2q', 'quad', *U.submesh(p, t, [0, 1, 3]), variants=1)
    # 3-D tetrahedra
    for (n, split) in ((1, 6), (1, 5), (2, 6), (2, 5)):
        p, t = U.tet_cubes(n, split)
        add('U3t', 'tet', p, t)
        nt = t.shape[1]
        for _ in range(1 if not thorough else 4):
            k = int(rng.integers(1, nt))
            s = sorted(rng.choice(nt, k, replace=False).tolist())
            add('U3t', 'tet', *U.submesh(p, t, s), variants=0)
    # 3-D hexahedra
    for dims in ((1, 1, 1), (2, 1, 1), (2, 2, 1)) + (((2, 2, 2),) if thorough or big else ()):
        p, t = U.hex_grid(*dims)
        add('U3h', 'hex', p, t)
    p, t = U.hex_grid(2, 2, 1)
    add('U3h', 'hex', *U.submesh(p, t, [0, 1, 3]), variants=0)
    # prisms (not re-oriented: rotated prisms duplicate their common triangle, C11 known finding)
    if with_wedge:
        p2, t2 = U.tri_lattice(1, 1, (0,))
        add('UW', 'wedge', *U.wedge_extrude(p2, t2, 2), variants=0)
        p2, t2 = U.tri_lattice(2, 1, (0, 1))
        add('UW', 'wedge', *U.wedge_extrude(p2, t2, 1), variants=0)
    # second-order (isoparametric, straight) variants of the same cells
    for kind, (p, t) in (('tri', U.tri_lattice(2, 1, (0, 1))), ('quad', U.quad_grid(2, 1)),
                         ('tet', U.tet_cubes(1, 5)), ('hex', U.hex_grid(2, 1, 1))):
        out.append(('order2', dict(mesh_rec(kind, p, t), order=2)))
    # random tier: integer Delaunay
    nrand = 40 if thorough else 6
    for j in range(nrand):
        dim = 2 if j % 2 == 0 else 3
        npts = int(rng.integers(5, 16 if dim == 2 else 9))
        p, t = U.delaunay_int(dim, npts, 6 if dim == 2 else 3, rng)
        if t.shape[1] == 0:
            continue
        t = U.apply_local_orders('tri' if dim == 2 else 'tet', t, rng)
        out.append(('delaunay', mesh_rec('tri' if dim == 2 else 'tet', p, t)))
    return out


# ---------------------------------------------------------------- projections

def table(a):
    """DOF table with entities along the last axis -> list over entities of 0-based numbers."""
    a = np.asarray(a)
    if a.ndim != 2:
        return [[int(x)] for x in a.ravel()]
    return [[int(x) for x in col] for col in a.T]


def shape2(a):
    a = np.asarray(a)
    s = list(a.shape) + [0, 0]
    return [int(s[0]), int(s[1])]


def signature(elem):
    return {'n': int(elem.nodal_dofs), 'e': int(elem.edge_dofs), 'f': int(elem.facet_dofs),
            'i': int(elem.interior_dofs)}


def mesh_tables(mesh):
    kind = kind_of(mesh)
    three = DIM[kind] == 3
    return {'kind': kind, 'nv': int(mesh.nvertices), 'nf': int(mesh.nfacets),
            'ne': int(mesh.nedges) if three else 0,
            't': ids(mesh.t[:NVERT[kind]]), 't2f': ids(mesh.t2f), 't2e': ids(mesh.t2e) if three else []}


def dof_tables(dofs):
    return {'N': int(dofs.N), 'cell': table(dofs.element_dofs), 'nodal': table(dofs.nodal_dofs),
            'edge': table(dofs.edge_dofs), 'facet': table(dofs.facet_dofs), 'interior': table(dofs.interior_dofs),
            'shp': {'cell': shape2(dofs.element_dofs), 'nodal': shape2(dofs.nodal_dofs),
                    'edge': shape2(dofs.edge_dofs), 'facet': shape2(dofs.facet_dofs),
                    'interior': shape2(dofs.interior_dofs)}}


def _common_den(ref):
    """(mode, L): 'exact' with L a power of two if every finite reference coordinate is dyadic with denominator
    <= 8; 'fx' with L = 12 if every one is the double nearest to a multiple of 1/12; else ('skip', 0)."""
    vals = [float(x) for x in np.asarray(ref).ravel() if np.isfinite(x)]
    for L in (1, 2, 4, 8):
        if all(x * L == np.rint(x * L) for x in vals):
            return 'exact', L
    if all(float(Fraction(round(x * 12), 12)) == x for x in vals):
        return 'fx', 12
    return 'skip', 0


def is_dg_mesh(mesh):
    from skfem.mesh.mesh_dg import MeshDG
    return isinstance(mesh, MeshDG)


def cell_coords(mesh, sc):
    """Meshes with a discontinuous geometry (Mesh*1DG, periodic): mesh.p holds one node per (cell, local vertex),
    addressed through mesh.dofs; returns per cell the integer coordinates (times sc) of its local vertices.  Ordinary
    meshes: None (vertex v is column v of mesh.p)."""
    if not is_dg_mesh(mesh):
        return None
    kind = kind_of(mesh)
    ed = np.asarray(mesh.dofs.element_dofs)[:NVERT[kind]]
    q = np.asarray(mesh.p, dtype=np.float64) * sc
    if not np.array_equal(q, np.rint(q)):
        return None
    q = np.rint(q).astype(np.int64)
    return [[[int(x) for x in q[:, ed[j, k]]] for j in range(ed.shape[0])] for k in range(ed.shape[1])]


def loc_info(mesh, elem, doflocs, force_fx=False):
    """Reference locations (rationals over L, an input), vertex coordinates (integers at the mesh scale) and the
    reported global locations: exact integers (times scale * L^deg) or fixed-point limbs (times scale)."""
    kind = kind_of(mesh)
    if not hasattr(elem, 'doflocs'):
        return {'mode': 'none'}
    if doflocs is None:
        return {'mode': 'missing'}              # the element gives reference locations, the basis built no table
    ref = np.asarray(elem.doflocs, dtype=float)
    if ref.ndim != 2:
        ref = ref.reshape((ref.shape[0], -1)) if ref.ndim > 2 else ref.reshape((-1, 1))
    mode, L = _common_den(ref)
    if force_fx and mode == 'exact':
        mode = 'fx'
    sc = find_scale(mesh.p)
    if mode == 'skip' or sc is None or sc > 64:
        return {'mode': 'none'}
    refl = []
    for row in ref:
        refl.append([] if not np.isfinite(row).all() else [int(round(float(x) * L)) for x in row])
    try:
        pcell = cell_coords(mesh, sc)
    except Exception:           # per-cell geometry is read through mesh.dofs (internal): not readable -> not judged
        return {'mode': 'none'}
    if pcell is None and is_dg_mesh(mesh):
        return {'mode': 'none'}
    pint = [] if pcell is not None else int_coords(mesh.p[:, :int(mesh.nvertices)], sc)   # (2nd order: extra nodes)
    glob = np.asarray(doflocs, dtype=float)
    out = []
    den = L ** MAPDEG[kind]
    for d in range(glob.shape[1]):
        col = glob[:, d]
        if not np.isfinite(col).all():
            out.append([])
        elif mode == 'exact':
            q = col * (sc * den)
            if (np.abs(q) >= 2**30).any():
                return {'mode': 'inexact'}
            if not np.array_equal(q, np.rint(q)):
                # not bit-exact: the property does not demand bit-exact arithmetic of the reference map (another
                # summation order / library version may differ in the last place) -> judge the whole table in fixed
                # point with the tolerance of the specification instead
                return loc_info(mesh, elem, doflocs, force_fx=True)
            out.append([int(x) for x in np.rint(q)])
        else:
            limbs = [fx(float(x) * sc) for x in col]
            if any(l is None for l in limbs):
                return {'mode': 'inexact'}
            out.append(limbs)
    rd = elem.refdom
    lf = [[int(i) + 1 for i in f] for f in (rd.facets or [])]
    le = [[int(i) + 1 for i in f] for f in (rd.edges or [])]
    loc = {'mode': mode, 'L': int(L), 'sc': int(sc), 'ref': refl, 'p': pint, 'glob': out, 'lf': lf, 'le': le}
    if pcell is not None:
        loc['pc'] = pcell
    return loc


def composite_decode(elem):
    """How a composite decodes its local basis functions into (component, index within the component), 1-based, with
    the signatures of the components.  Not a composite: no components."""
    if not hasattr(elem, 'elems') or not hasattr(elem, '_deduce_bfun'):
        return {'sigs': [], 'dec': []}
    try:        # _deduce_bfun is private: if it is renamed / reshaped by a refactoring the decode is simply not observed
        nb = int(sum(int(x) for e in elem.elems for x in e._bfun_counts()))
        dec = []
        for i in range(nb):
            n, ind = elem._deduce_bfun(i)
            dec.append([int(n) + 1, int(ind) + 1])
        return {'sigs': [signature(e) for e in elem.elems], 'dec': dec}
    except Exception:
        return {'sigs': [], 'dec': []}


def number_event(mesh, elem, dofs, doflocs=None, drift=0, with_locs=None, period=None, orient=None, warned=None):
    """with_locs: True when the tables come from a basis (its location table is then expected to exist)."""
    ev = {'a': 'Number', 'err': '', 'drift': int(drift), 'sig': signature(elem)}
    ev.update(mesh_tables(mesh))
    ev.update(dof_tables(dofs))
    if with_locs is None:
        with_locs = doflocs is not None
    ev['loc'] = loc_info(mesh, elem, doflocs) if with_locs else {'mode': 'none'}
    ev['dec'] = composite_decode(elem)
    if orient is not None:
        ev['orient'] = int(orient)
    if warned is not None:                      # "Unable to calculate global DOF locations" logged while building the basis
        ev['warn'] = int(warned)
        ev['hasref'] = int(hasattr(elem, 'doflocs'))
    if period is not None:                      # periodic mesh: the identification is judged against the geometry
        sc = find_scale(mesh.p) or 1
        try:
            pc = cell_coords(mesh, sc)
        except Exception:
            pc = None
        if pc is not None:          # geometry readable (mesh.dofs is internal): otherwise the identification is not judged
            ev['per'] = {'pc': pc, 'period': [int(x) * int(sc) for x in period]}
    return ev


def number_error_event(err, drift=0):
    return {'a': 'Number', 'err': err, 'drift': int(drift), 'sig': {'n': 0, 'e': 0, 'f': 0, 'i': 0},
            'kind': 'line', 'nv': 0, 'nf': 0, 'ne': 0, 't': [], 't2f': [], 't2e': [], 'N': 0, 'cell': [],
            'nodal': [], 'edge': [], 'facet': [], 'interior': [],
            'shp': {'cell': [0, 0], 'nodal': [0, 0], 'edge': [0, 0], 'facet': [0, 0], 'interior': [0, 0]},
            'loc': {'mode': 'none'}, 'dec': {'sigs': [], 'dec': []}}


def names_of(elem):
    return [str(x) for x in elem.dofnames]


def edge_facet_names_differ(elem):
    """Tag for known-finding matching: the element has edge and facet DOFs and names them differently (so the
    order in which a list of names is cut into kinds is observable)."""
    s = signature(elem)
    if s['e'] == 0 or s['f'] == 0:
        return 'same'
    nm = names_of(elem)
    a = nm[s['n']:s['n'] + s['e'] + s['f']]
    as_ef = (a[:s['e']], a[s['e']:])
    as_fe = (a[s['f']:], a[:s['f']])
    return 'same' if as_ef == as_fe else 'distinct'


def basis_event(mesh, basis):
    kind = kind_of(mesh)
    three = DIM[kind] == 3
    ev = {'a': 'Basis', 'err': '', 'sig': signature(basis.elem), 'names': names_of(basis.elem)}
    ev.update(mesh_tables(mesh))
    ev['facets'] = ids(mesh.facets)
    ev['edges'] = ids(mesh.edges) if three else []
    d = dof_tables(basis.dofs)
    for k in ('N', 'nodal', 'edge', 'facet', 'interior'):
        ev[k] = d[k]
    ev['comp'] = component_names(basis.elem)
    return ev


def component_names(elem):
    """Composite elements: signature and own DOF names of every component (public attribute `elems`), so that what a name
    u^k designates can be decided from the k-th component instead of from the composite's own name table."""
    try:
        if hasattr(elem, 'elems') and len(elem.elems) >= 1:
            return {'sigs': [signature(e) for e in elem.elems], 'names': [names_of(e) for e in elem.elems]}
    except Exception:
        pass
    return {'sigs': [], 'names': []}


def basis_error_event(err):
    return {'a': 'Basis', 'err': err, 'sig': {'n': 0, 'e': 0, 'f': 0, 'i': 0}, 'names': [], 'kind': 'line',
            'comp': {'sigs': [], 'names': []},
            'nv': 0, 'nf': 0, 'ne': 0, 't': [], 't2f': [], 't2e': [], 'facets': [], 'edges': [], 'N': 0,
            'nodal': [], 'edge': [], 'facet': [], 'interior': []}
