----------------------------- MODULE Integration -----------------------------
(* Property C02: integration is exact for polynomial data on cells and facets. *)
(*                                                                             *)
(* Events (harness/props/c02.py), all on straight meshes with integer vertex   *)
(* coordinates p (true coordinates times the power-of-two `scale`):            *)
(*  Integrate : a Functional of the monomial x^alpha assembled on a real       *)
(*              CellBasis / FacetBasis over the region `ents` (cells or facets *)
(*              given by their vertex ids in stored local order) with          *)
(*              integration order `order`; val (and per-entity evals) as Fx    *)
(*  MassSum   : sum of all entries of the assembled mass matrix of a           *)
(*              partition-of-unity element over the region                     *)
(*  Entries   : the assembled mass / laplace matrix or load vector of P0-P2 on *)
(*              affine simplices, dense, with the element's DOF table edofs    *)
(*              and the reference node of every local basis function           *)
(* Oracles: Numeric.tla (multinomial simplex formula, box closed form, exact   *)
(* measures, Silvester Lagrange bases).  Events of one scenario after the      *)
(* first are the same region under another numbering / an integer rigid motion *)
(* / after refinement: the scalar must not change (law clauses).               *)
EXTENDS Numeric

Kinds3D == {"tet", "hex", "wedge"}
MeshDim(kind) == CellDim(kind)
Pts(e, ent) == [i \in DOMAIN ent |-> e.p[ent[i]]]
EntDim(e) == IF e.dom = "cells" THEN MeshDim(e.kind) ELSE MeshDim(e.kind) - 1
EntSimplices(e, k) == IF e.dom = "cells" THEN CellSimplices(e.kind, Pts(e, e.ents[k]))
                      ELSE FacetSimplices(Pts(e, e.ents[k]))
\* dF! * measure * scale^dF of the region (integer)
RegionJac(e) == ISumAll([k \in DOMAIN e.ents |-> SimplicesJac(EntSimplices(e, k))])
MDeg(alpha) == SumSeq(alpha)

\* ---------------------------------------------------------------------------
\* well-formedness of the input part of an event (the harness' responsibility) -- includes the side conditions
\* under which the property promises exactness and under which the oracles are 32-bit safe
NNodesOf(kind) == CASE kind = "line" -> 2 [] kind = "tri" -> 3 [] kind = "quad" -> 4 [] kind = "tet" -> 4
                    [] kind = "hex" -> 8 [] kind = "wedge" -> 6
IsParallelogram(vs) == vs[3] = VAdd(vs[2], VSub(vs[4], vs[1]))
EntShapeOK(e, k) ==
  LET vs == Pts(e, e.ents[k]) IN
  IF e.dom = "cells" THEN Len(vs) = NNodesOf(e.kind) /\ CellShapeOK(e.kind, vs)
  ELSE /\ Len(vs) = (CASE e.kind = "line" -> 1 [] e.kind \in {"tri", "quad"} -> 2 [] e.kind = "tet" -> 3 [] OTHER -> 4)
       /\ FacetPlanarConvex(vs)
       /\ \A s \in DOMAIN FacetSimplices(vs) : SimplexJacSq(FacetSimplices(vs)[s]) > 0
GeometryWF(e) ==
  /\ e.kind \in {"line", "tri", "quad", "tet", "hex", "wedge"} /\ e.scale \in {1, 2, 4}
  /\ e.dom \in {"cells", "facets"}
  /\ \A v \in DOMAIN e.p : Len(e.p[v]) = MeshDim(e.kind) /\ \A c \in DOMAIN e.p[v] : e.p[v][c] \in -64..64
  /\ Len(e.ents) >= 1
  /\ \A k \in DOMAIN e.ents : (\A i \in DOMAIN e.ents[k] : e.ents[k][i] \in DOMAIN e.p) /\ EntShapeOK(e, k)

BoxVolume(box) == LET RECURSIVE V(_) V(c) == IF c > Len(box[1]) THEN 1 ELSE (box[2][c] - box[1][c]) * V(c + 1) IN V(1)
\* every facet of the region has a rational measure (needed wherever a SUM over facets is compared)
FacetsRational(e) ==
  e.dom = "facets" => \A k \in DOMAIN e.ents : \A s \in DOMAIN FacetSimplices(Pts(e, e.ents[k])) :
                         SimplexJacExact(FacetSimplices(Pts(e, e.ents[k]))[s])
\* the entities the basis reports (tind / find) are the requested ones, as multisets (both lists arrive sorted)
RegionAsRequested(e) == e.gids = e.rids
\* extra quadrature degree needed because the Jacobian of a non-affine cell is not constant
\* (cells: bilinear quadrilaterals; facets: flat quadrilateral faces that are not parallelograms -- their surface
\* Jacobian is linear in each direction)
ExtraDegree(e) == IF \/ e.dom = "cells" /\ e.kind = "quad" /\ \E k \in DOMAIN e.ents : ~IsParallelogram(Pts(e, e.ents[k]))
                     \/ e.dom = "facets" /\ \E k \in DOMAIN e.ents : Len(e.ents[k]) = 4 /\ ~IsParallelogram(Pts(e, e.ents[k]))
                  THEN 1 ELSE 0
\* A facet as a union of simplices with parallel Jacobian vectors c_s = g_s * n0 (n0 primitive, g_s > 0):
\* measure-weighted integrals are sqrt(|n0|^2) * sum_s g_s N_s / (q + k)!
FacetDir(S)  == LET c == SimplexJacVec(S[1]) g == VGcd(c) IN [i \in DOMAIN c |-> c[i] \div g]
FacetGs(S)   == [s \in DOMAIN S |-> VGcd(SimplexJacVec(S[s]))]
FacetDirOK(S) == \A s \in DOMAIN S : SimplexJacVec(S[s]) = VScale(FacetGs(S)[s], FacetDir(S))
IntegrateWF(e) ==
  /\ GeometryWF(e)
  /\ Len(e.alpha) = MeshDim(e.kind) /\ \A c \in DOMAIN e.alpha : e.alpha[c] \in 0..8
  /\ MDeg(e.alpha) + ExtraDegree(e) <= e.order                        \* the promise of the property applies
  /\ e.oracle \in {"cells", "box", "sq"}
  /\ e.oracle = "cells" => FacetsRational(e)
  /\ e.oracle = "sq" => /\ e.dom = "facets" /\ e.scale ^ (2 * (MDeg(e.alpha) + EntDim(e))) <= 65536
                         \* bounds that keep the per-facet square oracle 32-bit safe
                         /\ \A k \in DOMAIN e.ents :
                              LET S  == FacetSimplices(Pts(e, e.ents[k]))
                                  n0 == FacetDir(S)
                                  J2 == VDot(n0, n0)
                                  G  == SumSeq(FacetGs(S)) IN
                              /\ FacetDirOK(S) /\ J2 <= 32768 /\ G <= 1024
                              /\ IPow(Max2(MaxAbsCoord(e.p), 1), 2 * MDeg(e.alpha)) * G * G * J2 <= 16777216
  /\ IPow(Max2(MaxAbsCoord(e.p), 1), MDeg(e.alpha) + MeshDim(e.kind)) < 1073741824 \div 64
  /\ e.oracle \in {"cells", "sq"} => MDeg(e.alpha) + EntDim(e) <= 8
  /\ e.scale ^ (MDeg(e.alpha) + EntDim(e)) <= 65536
  /\ e.oracle = "box" =>
       /\ e.dom = "cells" /\ Len(e.box) = 2
       /\ \A c \in 1..MeshDim(e.kind) : e.box[1][c] < e.box[2][c]
       \* the region is the box: every vertex inside, measures agree
       /\ \A v \in DOMAIN e.p : \A c \in 1..MeshDim(e.kind) : e.p[v][c] \in e.box[1][c]..e.box[2][c]
       /\ RegionJac(e) = Fact(MeshDim(e.kind)) * BoxVolume(e.box)
  /\ FxWF(e.val) /\ \A k \in DOMAIN e.evals : FxWF(e.evals[k])
  /\ e.evals # <<>> => Len(e.evals) = Len(e.ents)

\* ---------------------------------------------------------------------------
\* oracles
EntIntegral(e, k) == SimplicesIntegralFx(EntSimplices(e, k), e.alpha)
IntegralOracle(e) ==
  LET n == MDeg(e.alpha) + EntDim(e) IN
  IF e.oracle = "box" THEN Unscale(BoxIntegralFx(e.box[1], e.box[2], e.alpha), e.scale, n)
  ELSE Unscale(FxSumAll([k \in DOMAIN e.ents |-> EntIntegral(e, k)]), e.scale, n)
\* integer bound of int |x^alpha| over the region: the magnitude the tolerance is relative to
MagnitudeOfJac(e, jac, q) ==
  1 + (jac * IPow(Max2(MaxAbsCoord(e.p), 1), q)) \div (Fact(EntDim(e)) * e.scale ^ (q + EntDim(e)))
Magnitude(e, q) == MagnitudeOfJac(e, RegionJac(e), q)
MeasureOracle(e) == FxRat(RegionJac(e), Fact(EntDim(e)) * e.scale ^ EntDim(e))

\* TLC re-evaluates the body of [k \in S |-> ...] at every application; SubSeq builds the tuple once
Materialize(f, n) == SubSeq(f, 1, n)
\* both Integrate clauses from one pass over the region
IntegrateVerdicts(e) ==
  LET q    == MDeg(e.alpha)
      n    == q + EntDim(e)
      ne   == Len(e.ents)
      Mq   == IPow(Max2(MaxAbsCoord(e.p), 1), q)
      den  == Fact(EntDim(e)) * e.scale ^ n
      jacs == Materialize([k \in 1..ne |-> SimplicesJac(EntSimplices(e, k))], ne)
      ints == IF e.oracle = "cells" THEN Materialize([k \in 1..ne |-> EntIntegral(e, k)], ne) ELSE <<>>
      want == IF e.oracle = "box" THEN Unscale(BoxIntegralFx(e.box[1], e.box[2], e.alpha), e.scale, n)
              ELSE Unscale(FxSumAll(ints), e.scale, n)
      mag(jac) == 1 + (jac * Mq) \div den
  IN IF e.oracle = "sq"
     THEN \* facets of measure proportional to sqrt(J2), J2 = |n0|^2: per facet, value^2 = J2 * (N / ((q+k)! scale^(q+k)))^2, sign of N
          (IF e.evals = <<>> THEN <<>> ELSE
           [ElementalExact |-> \A k \in 1..ne :
              LET S    == EntSimplices(e, k)
                  n0   == FacetDir(S)
                  J2   == VDot(n0, n0)
                  gs   == FacetGs(S)
                  Nn   == ISumAll([s \in DOMAIN S |-> gs[s] * SimplexMonoSum(S[s], e.alpha)])
                  r    == Unscale(FxRat(Nn, Fact(n)), e.scale, n)
                  w2   == FxMulSmall(FxSq(r), J2)
                  g2   == FxSq(e.evals[k])
              IN /\ FxMulOK(e.evals[k])
                 /\ FxNear(g2, w2, TolScaled(TolSum, 4 * (1 + w2[1])))
                 /\ Nn > 0 => FxLeq(FxNeg(FxUlp(4)), e.evals[k])
                 /\ Nn < 0 => FxLeq(e.evals[k], FxUlp(4))])
     ELSE
     [FunctionalExact |-> FxNear(e.val, want, TolScaled(TolSum, mag(ISumAll(jacs))))] @@
     (IF e.evals # <<>> /\ e.oracle = "cells"
      THEN [ElementalExact |-> \A k \in 1..ne :
               FxNear(e.evals[k], Unscale(ints[k], e.scale, n), TolScaled(TolSum, mag(jacs[k])))]
      ELSE <<>>)

\* the mass matrix of a partition-of-unity element sums to the measure of the region (cancellation among
\* up to (#local)^2 entries of both signs per cell: 16 times the magnitude)
MassSumWF(e) == GeometryWF(e) /\ FacetsRational(e) /\ FxWF(e.val) /\ RegionJac(e) < 1000000
MassSumsToMeasure(e) == FxNear(e.val, MeasureOracle(e), TolScaled(TolSum, 16 * Magnitude(e, 0)))

\* ---------------------------------------------------------------------------
\* exact entries of P0-P2 on affine simplices, assembled through the element's own DOF table
EntriesWF(e) ==
  /\ GeometryWF(e) /\ e.dom = "cells" /\ e.kind \in {"line", "tri", "tet"} /\ e.scale = 1
  /\ e.deg \in 0..2 /\ e.form \in {"mass", "laplace", "load", "loadx"} /\ e.N \in 1..80
  /\ Len(e.edofs) = Len(e.ents)
  /\ \A k \in DOMAIN e.edofs : Len(e.edofs[k]) = Len(e.lnodes) /\ \A i \in DOMAIN e.edofs[k] : e.edofs[k][i] \in 1..e.N
  /\ {e.lnodes[i] : i \in DOMAIN e.lnodes} = LagrangeNodes(NNodesOf(e.kind), e.deg)
  /\ Len(e.lnodes) = Cardinality(LagrangeNodes(NNodesOf(e.kind), e.deg))
  /\ \A r \in DOMAIN e.vals : Len(e.vals[r]) = 2 + NL /\ FxWF(SubSeq(e.vals[r], 3, 2 + NL))
  /\ IF e.form \in {"load", "loadx"}
     THEN {<<e.vals[r][1], e.vals[r][2]>> : r \in DOMAIN e.vals} = (1..e.N) \X {0} /\ Len(e.vals) = e.N
     ELSE {<<e.vals[r][1], e.vals[r][2]>> : r \in DOMAIN e.vals} = (1..e.N) \X (1..e.N) /\ Len(e.vals) = e.N * e.N
TolEntries == FxMulSmall(TolSum, 64)
\* Tabulated evaluation (TLC does not memoise operator applications): the Lagrange functions of the element's
\* local nodes, their reference integrals and the per-cell geometric factors are built once per event; the
\* definitions are those of Numeric.tla Part 5 (RefMass, RefLoad, RefGrad, DetGradLambda).
EntriesExact(e) ==
  LET nl   == Len(e.lnodes)
      ne   == Len(e.ents)
      m    == NNodesOf(e.kind)
      lag  == Materialize([i \in 1..nl |-> Lagrange(e.deg, e.lnodes[i])], nl)
      dl   == Materialize([i \in 1..nl |-> Materialize([r \in 1..m |-> PDeriv(lag[i].num, r)], m)], nl)
      refM == IF e.form # "mass" THEN <<>> ELSE
              Materialize([i \in 1..nl |-> Materialize([j \in 1..nl |->
                 QMul(PIntegral(PMul(lag[i].num, lag[j].num)), Q(1, lag[i].den * lag[j].den))], nl)], nl)
      refL == IF e.form # "load" THEN <<>> ELSE
              Materialize([i \in 1..nl |-> QMul(PIntegral(lag[i].num), Q(1, lag[i].den))], nl)
      \* load vector of the datum f(x) = x_1 = sum_j lambda_j v_j[1]:  int lambda_j phi_i  on the reference simplex
      refX == IF e.form # "loadx" THEN <<>> ELSE
              Materialize([j \in 1..m |-> Materialize([i \in 1..nl |->
                 QMul(PIntegral(PMul(PLin(m, j, 1, 0), lag[i].num)), Q(1, lag[i].den))], nl)], m)
      refG == IF e.form # "laplace" THEN <<>> ELSE
              Materialize([i \in 1..nl |-> Materialize([j \in 1..nl |->
                 Materialize([r \in 1..m |-> Materialize([s \in 1..m |->
                    QMul(PIntegral(PMul(dl[i][r], dl[j][s])), Q(1, lag[i].den * lag[j].den))], m)], m)], nl)], nl)
      dets == Materialize([k \in 1..ne |-> Abs(SimplexDet(Pts(e, e.ents[k])))], ne)
      gg   == IF e.form # "laplace" THEN <<>> ELSE
              Materialize([k \in 1..ne |-> LET g == DetGradLambda(Pts(e, e.ents[k])) IN
                 Materialize([r \in 1..m |-> Materialize([s \in 1..m |-> VDot(g[r], g[s])], m)], m)], ne)
      local(k, i, j) ==
        CASE e.form = "mass"    -> FxMulSmall(FxOfQ(refM[i][j]), dets[k])
          [] e.form = "load"    -> FxMulSmall(FxOfQ(refL[i]), dets[k])
          [] e.form = "loadx"   -> FxMulSmall(FxSumAll([v \in 1..m |->
                                       FxMulSmall(FxOfQ(refX[v][i]), e.p[e.ents[k][v]][1])]), dets[k])
          [] e.form = "laplace" ->
               FxOfQ(QMul(QSumAll(FlattenSeq([r \in 1..m |-> [s \in 1..m |->
                               QMul(QInt(gg[k][r][s]), refG[i][j][r][s])]])), Q(1, dets[k])))
      locs == Materialize([k \in 1..ne |-> Materialize([I \in 1..e.N |-> {i \in 1..nl : e.edofs[k][i] = I}], e.N)], ne)
      exact(I, J) ==
        LET hs == SetToSeq(UNION {{<<k, i, j>> : i \in locs[k][I], j \in (IF J = 0 THEN {1} ELSE locs[k][J])} : k \in 1..ne})
        IN FxSumAll([h \in DOMAIN hs |-> local(hs[h][1], hs[h][2], hs[h][3])])
  IN \* the tables are demanded here, one after the other, so that each is built at shallow evaluation depth
     /\ Len(lag) = nl /\ Len(dl) = nl /\ Len(refM) >= 0 /\ Len(refL) >= 0 /\ Len(refX) >= 0 /\ Len(refG) >= 0
     /\ Len(dets) = ne /\ Len(gg) >= 0 /\ Len(locs) = ne
     /\ \A r \in DOMAIN e.vals :
          FxNear(SubSeq(e.vals[r], 3, 2 + NL), exact(e.vals[r][1], e.vals[r][2]), TolEntries)

\* ---------------------------------------------------------------------------
\* EntriesT: mass matrix / load vector of the tensor-product Lagrange elements Q1, Q2 (quadrilaterals) and Q1
\* (hexahedra) on straight-sided NON-AFFINE cells, assembled with the element's DEFAULT integration order.
\* The integrand  phi_i phi_j det DF  is a polynomial of degree <= 2 deg + (d - 1) <= 5 per reference direction; the
\* specification integrates it exactly with its own rule -- Boole's rule on the dyadic nodes k/4 (weights 7, 32, 12, 32,
\* 7 over 90, exact to degree 5; checked in MC_C02) tensorised -- applied to its own multilinear map of the cell and its
\* own Lagrange polynomials.  Everything at the nodes is a dyadic number, so the sums are exact in limb arithmetic; the
\* only rounding is the final division by 90^d.
BooleW == <<7, 32, 12, 32, 7>>
RefVertsT(kind) == IF kind = "quad" THEN << <<0, 0>>, <<1, 0>>, <<1, 1>>, <<0, 1>> >>
                   ELSE << <<1,1,1>>, <<1,1,0>>, <<1,0,1>>, <<0,1,1>>, <<1,0,0>>, <<0,1,0>>, <<0,0,1>>, <<0,0,0>> >>
\* 1-D Lagrange polynomial of degree deg at node/deg, evaluated at k/4, times 4^deg
Lag1(deg, node, k) ==
  IF deg = 1 THEN (IF node = 0 THEN 4 - k ELSE k)
  ELSE CASE node = 0 -> (2 * k - 4) * (k - 4) [] node = 1 -> 4 * k * (4 - k) [] node = 2 -> k * (2 * k - 4)
LagScale(deg) == IF deg = 1 THEN 4 ELSE 16
RECURSIVE IProdRun(_, _, _)
IProdRun(f, i, n) == IF i > n THEN 1 ELSE f[i] * IProdRun(f, i + 1, n)
PhiAt(deg, lnode, pt) == IProdRun([c \in DOMAIN pt |-> Lag1(deg, lnode[c], pt[c])], 1, Len(pt))   \* times LagScale^d
\* Jacobian of the multilinear map of the cell with vertices vs at the node pt, times 4^(d-1); rows = components of F
JacAt(kind, vs, pt) ==
  LET d == Len(pt) rv == RefVertsT(kind) IN
  [a \in 1..d |-> [c \in 1..d |->
     ISumAll([v \in DOMAIN rv |->
        vs[v][a] * (IF rv[v][c] = 1 THEN 1 ELSE -1)
                 * IProdRun([c2 \in 1..d |-> IF c2 = c THEN 1 ELSE Lag1(1, rv[v][c2], pt[c2])], 1, d)])]]
DetAt(kind, vs, pt) == LET J == JacAt(kind, vs, pt) IN
                       IF Len(pt) = 2 THEN Det2(J[1], J[2]) ELSE Det3(J[1], J[2], J[3])       \* times 4^(d(d-1))
NodesT(d) == SetToSeq([1..d -> 0..4])

EntriesTWF(e) ==
  LET d == MeshDim(e.kind) IN
  /\ e.kind \in {"quad", "hex"} /\ e.scale = 1 /\ e.deg \in 1..2 /\ (e.kind = "hex" => e.deg = 1)
  /\ e.form \in {"mass", "load"} /\ e.N \in 1..80
  /\ \A v \in DOMAIN e.p : Len(e.p[v]) = d /\ \A c \in DOMAIN e.p[v] : e.p[v][c] \in -8..8
  /\ Len(e.ents) >= 1 /\ Len(e.edofs) = Len(e.ents)
  /\ \A k \in DOMAIN e.ents : Len(e.ents[k]) = NNodesOf(e.kind) /\ \A i \in DOMAIN e.ents[k] : e.ents[k][i] \in DOMAIN e.p
  /\ \A k \in DOMAIN e.edofs : Len(e.edofs[k]) = Len(e.lnodes) /\ \A i \in DOMAIN e.edofs[k] : e.edofs[k][i] \in 1..e.N
  /\ {e.lnodes[i] : i \in DOMAIN e.lnodes} = [1..d -> 0..e.deg] /\ Len(e.lnodes) = (e.deg + 1) ^ d
  \* valid cells: the Jacobian determinant has one sign at all 5^d nodes (corners included) and is moderate
  /\ \A k \in DOMAIN e.ents : LET vs == Pts(e, e.ents[k]) ns == NodesT(d) IN
        /\ SameSign({DetAt(e.kind, vs, ns[q]) : q \in DOMAIN ns})
        /\ \A q \in DOMAIN ns : Abs(DetAt(e.kind, vs, ns[q])) <= 1024 * 4 ^ (d * (d - 1))
  /\ \A r \in DOMAIN e.vals : Len(e.vals[r]) = 2 + NL /\ FxWF(SubSeq(e.vals[r], 3, 2 + NL))
  /\ IF e.form = "load"
     THEN {<<e.vals[r][1], e.vals[r][2]>> : r \in DOMAIN e.vals} = (1..e.N) \X {0} /\ Len(e.vals) = e.N
     ELSE {<<e.vals[r][1], e.vals[r][2]>> : r \in DOMAIN e.vals} = (1..e.N) \X (1..e.N) /\ Len(e.vals) = e.N * e.N

EntriesTExact(e) ==
  LET d    == MeshDim(e.kind)
      nl   == Len(e.lnodes)
      ne   == Len(e.ents)
      ns   == NodesT(d)
      nq   == Len(ns)
      S    == LagScale(e.deg) ^ d
      \* phi_i at the nodes, as exact dyadic numbers (|.| <= 1.. a few)
      tphi == Materialize([i \in 1..nl |-> Materialize([q \in 1..nq |->
                 FxDivSmall(FxInt(PhiAt(e.deg, e.lnodes[i], ns[q])), S)], nq)], nl)
      wq   == Materialize([q \in 1..nq |-> IProdRun([c \in 1..d |-> BooleW[ns[q][c] + 1]], 1, d)], nq)
      \* |det DF| at the nodes (exact dyadic)
      dets == Materialize([k \in 1..ne |-> Materialize([q \in 1..nq |->
                 FxRat(Abs(DetAt(e.kind, Pts(e, e.ents[k]), ns[q])), 4 ^ (d * (d - 1)))], nq)], ne)
      div90(x) == IF d = 2 THEN FxDivSmall(FxDivSmall(x, 90), 90) ELSE FxDivSmall(FxDivSmall(FxDivSmall(x, 90), 90), 90)
      lmass(k, i, j) == div90(FxSumAll([q \in 1..nq |->
                           FxMulSmall(FxMul(FxMul(tphi[i][q], tphi[j][q]), dets[k][q]), wq[q])]))
      lload(k, i)    == div90(FxSumAll([q \in 1..nq |-> FxMulSmall(FxMul(tphi[i][q], dets[k][q]), wq[q])]))
      \* local matrices once per cell (symmetric: computed for i <= j)
      loc  == Materialize([k \in 1..ne |-> Materialize([i \in 1..nl |->
                 IF e.form = "load" THEN lload(k, i)
                 ELSE Materialize([j \in 1..nl |-> IF j >= i THEN lmass(k, i, j) ELSE <<>>], nl)], nl)], ne)
      local(k, i, j) == IF e.form = "load" THEN loc[k][i] ELSE loc[k][Min2(i, j)][Max2(i, j)]
      locs == Materialize([k \in 1..ne |-> Materialize([I \in 1..e.N |-> {i \in 1..nl : e.edofs[k][i] = I}], e.N)], ne)
      exact(I, J) ==
        LET hs == SetToSeq(UNION {{<<k, i, j>> : i \in locs[k][I], j \in (IF J = 0 THEN {1} ELSE locs[k][J])} : k \in 1..ne})
        IN FxSumAll([h \in DOMAIN hs |-> local(hs[h][1], hs[h][2], hs[h][3])])
  IN /\ Len(tphi) = nl /\ Len(wq) = nq /\ Len(dets) = ne /\ Len(loc) = ne /\ Len(locs) = ne
     /\ \A r \in DOMAIN e.vals :
          FxNear(SubSeq(e.vals[r], 3, 2 + NL), exact(e.vals[r][1], e.vals[r][2]), TolEntries)

\* ---------------------------------------------------------------------------
\* the same scalar under renumbering / rigid motion / refinement (law between two recorded numbers)
SameScalar(e, carried) ==
  FxNear(FxMulSmall(e.val, e.sgn), carried.val, TolScaled(TolSum, 16 * Max2(carried.mag, 1)))
LawName(rel) == CASE rel = "numbering" -> "NumberingInvariant" [] rel = "motion" -> "RigidMotionInvariant"
                  [] rel = "refine" -> "RefinementInvariant"

Carry(e) == IF e.err = "" /\ e.a \in {"Integrate", "MassSum"}
            THEN [val |-> e.val, mag |-> IF e.a = "Integrate" THEN Magnitude(e, MDeg(e.alpha)) ELSE Magnitude(e, 0)]
            ELSE <<>>

C02WellFormed(e) ==
  /\ e.a \in {"Integrate", "MassSum", "Entries", "EntriesT"}
  /\ e.err = "" => CASE e.a = "Integrate" -> IntegrateWF(e)
                     [] e.a = "MassSum"   -> MassSumWF(e)
                     [] e.a = "Entries"   -> EntriesWF(e)
                     [] e.a = "EntriesT"  -> EntriesTWF(e)

C02Clauses(e, carried) ==
  IF ~C02WellFormed(e) THEN [WellFormed |-> FALSE]
  ELSE IF e.err # "" THEN [WellFormed |-> TRUE, NoUnexpectedError |-> FALSE]
  ELSE [WellFormed |-> TRUE, NoUnexpectedError |-> TRUE] @@
       (IF e.a \in {"Integrate", "MassSum"} THEN [RegionAsRequested |-> RegionAsRequested(e)] ELSE <<>>) @@
       (CASE e.a = "Integrate" ->
               IntegrateVerdicts(e)
          [] e.a = "MassSum" -> [MassSumsToMeasure |-> MassSumsToMeasure(e)]
          [] e.a = "Entries" -> [EntriesExact |-> EntriesExact(e)]
          [] e.a = "EntriesT" -> [EntriesExact |-> EntriesTExact(e)]) @@
       (IF e.pos > 1 /\ carried # <<>> /\ e.rel \in {"numbering", "motion", "refine"} /\ e.a \notin {"Entries", "EntriesT"}
        THEN (LawName(e.rel) :> SameScalar(e, carried)) ELSE <<>>)
==============================================================================
