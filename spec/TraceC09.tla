------------------------------ MODULE TraceC09 ------------------------------
(* code -> spec: observations of the real element classes (lbasis / gbasis /   *)
(* doflocs / gdof, recorded by harness/props/c09.py) are judged by the C09     *)
(* clauses of ShapeFunctions.tla, every clause on every event.                 *)
EXTENDS ShapeFunctions

Batch  == JsonDeserialize(IOEnv.TRACE_FILE)
Events == Batch.events
N      == Len(Events)

VARIABLES i, bad, cnt
vars == <<i, bad, cnt>>

Bump(c, r) == [k \in DOMAIN c \cup DOMAIN r |->
                 (IF k \in DOMAIN c THEN c[k] ELSE 0) + (IF k \in DOMAIN r THEN 1 ELSE 0)]

Init == i = 1 /\ bad = <<>> /\ cnt = <<>>

Step == /\ i <= N
        /\ LET e == Events[i]
               r == C09Clauses(e)
           IN /\ bad' = bad \o [k \in 1..Cardinality(Failed(r)) |->
                                  [sid |-> e.sid, pos |-> e.pos, clause |-> SetToSeq(Failed(r))[k]]]
              /\ cnt' = Bump(cnt, r)
        /\ i' = i + 1

Finish == /\ i = N + 1
          /\ JsonSerialize(IOEnv.OUT_FILE, [consumed |-> N, bad |-> bad, cnt |-> cnt])
          /\ i' = N + 2
          /\ UNCHANGED <<bad, cnt>>

Next == Step \/ Finish
Spec == Init /\ [][Next]_vars
==============================================================================
