-------------------------------- MODULE Validity --------------------------------
(* Mesh validation and the normalisation of second-order input -- specification   *)
(* growth beyond the listed properties (DESIGN section 10, X09).                   *)
(*   Mesh.is_valid(raise_)  -> TRUE iff the point rows match the dimension, the    *)
(*        cell rows match the vertex count of the cell type, no two points          *)
(*        coincide and every point is a node of some cell (for a second-order       *)
(*        mesh: of its DOF table); with raise_ it raises exactly when invalid       *)
(*   Mesh*2(p, t) with t listing ALL nodes of a cell (external node order):         *)
(*        the constructor renumbers the points (vertices first); every local node   *)
(*        of every cell must still sit where the input put it                       *)
(* Points are integer tuples, cells are sequences of 1-based point ids.             *)
EXTENDS Prelude


ValidWanted(e) ==
  /\ \A k \in DOMAIN e.p : Len(e.p[k]) = e.dim
  /\ \A c \in DOMAIN e.t : Len(e.t[c]) = e.nv
  /\ \A a \in DOMAIN e.p : \A b \in DOMAIN e.p : (a # b) => (e.p[a] # e.p[b])
  /\ \A k \in DOMAIN e.p : \E c \in DOMAIN e.nodes : k \in Range(e.nodes[c])

ValidClauses(e) ==
  IF e.err # "" THEN [Constructed |-> FALSE]
  ELSE
  [ Constructed |-> TRUE,
    VerdictExact |-> (e.res = 1) = ValidWanted(e),
    RaisesIffInvalid |-> (e.raised = 1) = ~ValidWanted(e),
    \* the two ways of asking agree
    VerdictAndRaiseAgree |-> (e.res = 1) = (e.raised = 0) ]

(* e.pin / e.tin : what the caller passed (all nodes per cell);                     *)
(* e.pout / e.tout / e.edofs : point array, vertex table and DOF table afterwards   *)
HighOrderClauses(e) ==
  IF e.err # "" THEN [Constructed |-> FALSE]
  ELSE
  [ Constructed |-> TRUE,
    VertexTableShape |-> \A c \in DOMAIN e.tout : Len(e.tout[c]) = e.nv,
    VerticesKept |-> \A c \in DOMAIN e.tin : \A k \in 1..e.nv :
                        e.pout[e.tout[c][k]] = e.pin[e.tin[c][k]],
    ExtraNodesKept |-> \A c \in DOMAIN e.tin : \A k \in (e.nv + 1)..Len(e.tin[c]) :
                        e.pout[e.edofs[c][k]] = e.pin[e.tin[c][k]],
    DofTableStartsWithVertices |-> \A c \in DOMAIN e.tout : \A k \in 1..e.nv : e.edofs[c][k] = e.tout[c][k],
    \* nothing invented, nothing lost: the points afterwards are the referenced input points, once each
    PointsAreTheReferencedOnes |->
        /\ Range(e.pout) = {e.pin[e.tin[c][k]] : c \in DOMAIN e.tin, k \in 1..Len(e.tin[1])}
        /\ Len(e.pout) = Cardinality(UNION {Range(e.tin[c]) : c \in DOMAIN e.tin}),
    VerticesFirst |-> \A c \in DOMAIN e.tout : \A k \in 1..e.nv :
                        e.tout[c][k] <= Cardinality(UNION {{e.tin[d][j] : j \in 1..e.nv} : d \in DOMAIN e.tin}),
    StillValid |-> e.valid = 1 ]

ValidityClauses(e) == IF e.a = "Valid" THEN ValidClauses(e) ELSE HighOrderClauses(e)
==============================================================================
