------------------------------- MODULE MC_C04 -------------------------------
(* Design-level check of C04: for every mesh of the small universes and every  *)
(* admissible DOF signature with counts in 0..2 per entity kind, the           *)
(* transcription NumberDofsImpl of Dofs.__init__ (run on the connectivity      *)
(* produced by the transcription ConnImpl of build_entities) satisfies every   *)
(* relational C04 clause.  Meshes and signatures are exported for replay on    *)
(* the real Dofs class.  IOEnv.TIER selects the size of the universe.          *)
EXTENDS Dofs, MC_Universe

Thorough == IOEnv.TIER = "thorough"

Counts == 0..2
AllSigs == [n : Counts, e : Counts, f : Counts, i : Counts]
Sigs(kind) == {s \in AllSigs : Admissible(kind, s)}          \* 8 in 1-D, 26 in 2-D, 80 in 3-D

SmallSubs == {S \in NonEmptySubsets(1..8) : Cardinality(S) <= 6}
TriQuick == {SortCells(m) : m \in U2tOf({[sq \in 1..4 |-> sq % 2]},
                                         {1..8 \ {1, 2}, {1,2,3}, {1,4,5,8}, {2,3,6,7}, {1,2,3,4,5,6}, {3}, {1,8}, {3,4,5,6}})}
TriThorough == {SortCells(m) : m \in U2tOf({[sq \in 1..4 |-> 0], [sq \in 1..4 |-> sq % 2]}, SmallSubs)}
                \cup {SortCells(m) : m \in U2tOf([1..4 -> {0, 1}], {{1,2,3,4,5,6}, {3,4,5,6,7,8}, {1,2,7,8}})}
TetQuick == {m \in U3t : Len(m.t) <= 3} \cup {m \in U3t : Len(m.t) >= 5}
Meshes ==
  IF Thorough
  THEN WithNumberings(U1 \cup U2q \cup U3t \cup U3h \cup TriThorough)
  ELSE U1 \cup {m \in U2q : Len(m.t) # 3} \cup TetQuick \cup {m \in U3h : Len(m.t) <= 2} \cup TriQuick
       \cup {ReverseCells(Renumber(m, RotateBy(m.nv, 2))) : m \in {x \in U2q \cup U3t \cup TriQuick : Len(x.t) = 4}}

ASSUME IOEnv.OUT_FILE = "" \/
       JsonSerialize(IOEnv.OUT_FILE, [meshes |-> SetToSeq(Meshes),
                                      sigs1 |-> SetToSeq(Sigs("line")), sigs2 |-> SetToSeq(Sigs("tri")),
                                      sigs3 |-> SetToSeq(Sigs("tet"))])

\* reference locations of a signature-only element, as integers over 12: vertices, barycentres of the local edges,
\* of the local facets and of the cell (the numbering code itself never looks at them)
Bary(kind, loc) == LET vs == VSet(loc) IN
  [cc \in 1..Dim(kind) |-> (12 * SumOver([v \in vs |-> RefP(kind)[v][cc]], vs)) \div Cardinality(vs)]
ModelRef(kind, s) ==
  FlattenSeq([j \in 1..NNodes(kind) |-> [r \in 1..s.n |-> Bary(kind, <<j>>)]])
  \o (IF Dim(kind) = 3 THEN FlattenSeq([g \in DOMAIN CodeLE(kind) |-> [r \in 1..s.e |-> Bary(kind, CodeLE(kind)[g])]])
      ELSE <<>>)
  \o (IF Dim(kind) >= 2 THEN FlattenSeq([g \in DOMAIN CodeLF(kind) |-> [r \in 1..s.f |-> Bary(kind, CodeLF(kind)[g])]])
      ELSE <<>>)
  \o [r \in 1..s.i |-> Bary(kind, [j \in 1..NNodes(kind) |-> j])]
\* ---- periodic tensor meshes (Mesh*1DG.init_tensor(periodic=...)): identified topology t, per-cell corner
\* coordinates pc, period per coordinate (0 = not periodic); three cells across a periodic direction
PerLine(n) ==
  [ kind |-> "line", nv |-> n, p |-> [v \in 1..n |-> <<0>>],
    t  |-> [k \in 1..n |-> <<k, (k % n) + 1>>],
    pc |-> [k \in 1..n |-> << <<k - 1>>, <<k>> >>], period |-> <<n>> ]
PerQuad(nx, ny, px, py) ==
  LET W == IF px THEN nx ELSE nx + 1
      H == IF py THEN ny ELSE ny + 1
      vid(i, j) == (i % W) + W * (j % H) + 1
      cellij(k) == <<(k - 1) % nx, (k - 1) \div nx>>
  IN [ kind |-> "quad", nv |-> W * H, p |-> [v \in 1..(W * H) |-> <<0, 0>>],
       t  |-> [k \in 1..(nx * ny) |-> LET i == cellij(k)[1] j == cellij(k)[2] IN
                  <<vid(i, j), vid(i + 1, j), vid(i + 1, j + 1), vid(i, j + 1)>>],
       pc |-> [k \in 1..(nx * ny) |-> LET i == cellij(k)[1] j == cellij(k)[2] IN
                  << <<i, j>>, <<i + 1, j>>, <<i + 1, j + 1>>, <<i, j + 1>> >>],
       period |-> <<IF px THEN nx ELSE 0, IF py THEN ny ELSE 0>> ]
\* the same cells split by the diagonal (i,j)-(i+1,j+1)
PerTri(nx, ny, px, py) ==
  LET q == PerQuad(nx, ny, px, py) IN
  [ kind |-> "tri", nv |-> q.nv, p |-> q.p, period |-> q.period,
    t  |-> FlattenSeq([k \in DOMAIN q.t |-> << <<q.t[k][1], q.t[k][2], q.t[k][3]>>, <<q.t[k][1], q.t[k][3], q.t[k][4]>> >>]),
    pc |-> FlattenSeq([k \in DOMAIN q.t |-> << <<q.pc[k][1], q.pc[k][2], q.pc[k][3]>>,
                                               <<q.pc[k][1], q.pc[k][3], q.pc[k][4]>> >>]) ]
PeriodicMeshes ==
  { PerLine(3), PerQuad(3, 1, TRUE, FALSE), PerQuad(2, 3, FALSE, TRUE), PerTri(3, 1, TRUE, FALSE) }
  \cup (IF Thorough THEN {PerQuad(3, 3, TRUE, TRUE), PerTri(3, 3, TRUE, TRUE), PerLine(4)} ELSE {})

WithLocs(d, mesh) ==
  LET loc0 == [mode |-> "exact", L |-> 12, sc |-> 1, ref |-> ModelRef(d.kind, d.sig), p |-> mesh.p,
               lf |-> CodeLF(d.kind), le |-> CodeLE(d.kind), glob |-> <<>>]
      isper == "pc" \in DOMAIN mesh
      pre == [d EXCEPT !.loc = IF isper THEN loc0 @@ [pc |-> mesh.pc] ELSE loc0]
      full == [pre EXCEPT !.loc = [k \in DOMAIN pre.loc |-> IF k = "glob" THEN DofLocsImpl(pre) ELSE pre.loc[k]]]
  IN IF isper THEN full @@ [per |-> [pc |-> mesh.pc, period |-> mesh.period]]
     ELSE full @@ [orient |-> 0]        \* SamePointFromAllCells on the barycentre rows (all rows of ModelRef)

\* dimensions the numbering code may read for an element on a mesh of this kind: the reference-cell dimension
\* (current code).  MC_C04_olddim.cfg overrides it by DimsReadOld: element.dim of a vector wrapper = its number of
\* components 1..4 -- the reading before fix bb3ad7e, which TLC must refute.
DimsRead(kind)    == {Dim(kind)}
DimsReadOld(kind) == 1..4

VARIABLES m, c, sig, failed
vars == <<m, c, sig, failed>>

Init == m \in Meshes \cup PeriodicMeshes /\ c = <<>> /\ sig = <<>> /\ failed = {}
\* step 1: derived connectivity as the code computes it (MeshTopology!ConnImpl)
Connect == /\ c = <<>>
           /\ c' = ConnImpl(m.kind, m.nv, m.t, CodeLF(m.kind), CodeLE(m.kind), CodeLFE(m.kind))
           /\ UNCHANGED <<m, sig, failed>>
\* step 2: number the DOFs of one signature and evaluate the clauses on the result
Number == /\ c # <<>> /\ sig = <<>>
          /\ \E s \in Sigs(m.kind) : \E dr \in DimsRead(m.kind) :
                /\ sig' = s
                /\ failed' = Failed(NumberClauses(WithLocs(
                      NumberDofsImplRead(m.kind, dr, m.nv, Len(c.edges), Len(c.facets), m.t, c.t2e, c.t2f, s), m)))
          /\ UNCHANGED <<m, c>>
Next == Connect \/ Number
Spec == Init /\ [][Next]_vars

ClausesHold == failed = {}
==============================================================================
