#!/bin/bash
# tools/seedcheck.sh <seed_dir(with patch.diff, demo.py, meta.json)> <ID> [tier] [notests]
# Confirms a seeded change on a scratch copy of /repo (outside /repo and /verif, removed afterwards):
#   demo passes without the patch, fails with it, the repo's test-suite still passes with it, and reports whether
#   the registered check of <ID> detects it.  Prints one summary line:  SEED <dir> demo_clean=.. demo_patched=.. tests=.. check_rc=..
set -u
SD="$(readlink -f "$1")"; ID="$2"; TIER="${3:-quick}"; NOTESTS="${4:-}"
HERE="$(cd "$(dirname "${BASH_SOURCE[0]}")/.." && pwd)"
W="$(mktemp -d /var/tmp/skfem-seed.XXXXXX)"
trap 'rm -rf "$W"' EXIT
rsync -a --exclude .git --exclude '__pycache__' --exclude seeds /repo/ "$W/repo/"
cd "$W/repo"
PYTHONPATH="$W/repo" /venv/bin/python "$SD/demo.py" > "$W/demo_clean.log" 2>&1; DC=$?
patch -p1 -s < "$SD/patch.diff" || { echo "SEED $SD patch_failed"; exit 3; }
PYTHONPATH="$W/repo" /venv/bin/python "$SD/demo.py" > "$W/demo_patched.log" 2>&1; DP=$?
TESTS=skipped
if [ -z "$NOTESTS" ]; then
  TESTS=$(PYTHONPATH="$W/repo" /venv/bin/python -m pytest -q -p no:cacheprovider -n 8 --timeout=900 tests 2>&1 | tail -1)
fi
cd "$HERE"
SKFEM_REPO="$W/repo" VERIF_OUT_DIR="$W/out" "$HERE/check" "$ID" --tier "$TIER" > "$W/check.log" 2>&1; RC=$?
CL=$(grep -m1 "clauses=" "$W/check.log" | cut -c1-200)
echo "SEED $SD demo_clean=$DC demo_patched=$DP tests=[$TESTS] check_rc=$RC $CL"
tail -1 "$W/check.log" | cut -c1-200
