SPECIFICATION Spec
CONSTANT Which = "quadn1pre"
CONSTANT Tier = "quick"
INVARIANT DesignConsistent
CHECK_DEADLOCK FALSE
