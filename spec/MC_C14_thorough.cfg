SPECIFICATION Spec
CONSTANT Which = "main"
CONSTANT Tier = "thorough"
CONSTANT LineAlgo = "current"
INVARIANT FindOKHolds
CHECK_DEADLOCK FALSE
