SPECIFICATION Spec
CONSTANT OLD = TRUE
INVARIANT NoStale
CONSTRAINT Depth
CHECK_DEADLOCK FALSE
