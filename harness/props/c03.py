"""C03 - discrete functions are globally continuous in the sense of the element.

M : spec/MC_C03.tla - for two cells sharing a facet and the 2x2 lattices, under all vertex renumberings and all
    admissible local vertex orders, TLC decides for which (mesh constructor, family layout) pairs the DESIGN
    (DOF numbering dofs.py:264-334, H(div) sign from f2t, H(curl) sign from global vertex ids, per-cell sorting
    of triangles) is direction / sign consistent.  MC_C03_quadp.cfg is the named deviation
    QuadPFacetModesUnoriented (DESIGN section 7 #11), expected to be violated and matched by a known finding;
    MC_C03_quadn1_prerepair.cfg is the regression model of ElementQuadN1 before fix f058432 (must be refuted).
R : the meshes enumerated by TLC are built with the real classes and the representative element of every layout
    is driven on them (traces must be continuous where the model says consistent).
L : for every element of the conforming list (spec/Conformity.tla ElemClass) and universe / random / curved
    meshes: InteriorFacetBasis(side=0) and (side=1) with the same facet quadrature; for EVERY global DOF the two
    one-sided traces of the unit coefficient vector are recorded (value and, where the class demands it,
    gradient) and TraceC03 decides JumpZero for the functionals of the element's ContinuityClass.
    Mesh classes driven (harness/meshops.py): meshes built from (p, t); meshes reached through OPERATION HISTORIES
    from the library's own constructors (refined(marked) / refined / restrict / remove_elements / mirrored / + /
    scaled / to_meshtri / to_meshtet / with_boundaries / oriented ...); SAME-OBJECT histories (a basis is built on
    m, operations are called on m and their results discarded, then m is used again); ONE element object per
    side driven over a sequence of meshes incl. pairs with equal cell counts (element-object reuse).
Python drives the library and changes representation only.
"""
import json
import os
from concurrent.futures import ThreadPoolExecutor
from dataclasses import replace

import numpy as np

from .. import universe as U
from .. import meshgen as G
from .. import elements as EL
from .. import meshops as MO
from ..core import guarded, MachineryError
from ..par import Pool
from ..project import fx, find_scale

# per-call alarm of the library calls: generous (normal calls take < 10 s) - a slow or loaded machine must never
# turn into a verdict; a genuine hang is still reported (as the event's err) after this time
CALL_TIMEOUT = 900

RULE = ('scenario = one mesh (given vertex numbering, cell order, local vertex orders, constructor) x one element; '
        'events = the one-sided traces of every global DOF on every interior facet; distinct = distinct '
        '(mesh class, p, t, ctor, element); non-trivial = at least one interior facet')

# observation groups recorded per continuity class (the DEMAND lives in spec/Conformity.tla ContinuityClass;
# TraceC03 clause ObservationsComplete checks that everything the specification requires was recorded)
GROUPS = {'H1': [('value', 'all')], 'Hdiv': [('value', 'all')], 'Hcurl': [('value', 'all')],
          'FacetMid': [('value', 'mid')], 'Morley': [('value', 'ends'), ('grad', 'mid')],
          'C1': [('value', 'all'), ('grad', 'all')], 'VertexValGrad': [('value', 'ends'), ('grad', 'ends')],
          'Plate15': [('value', 'ends'), ('grad', 'ends'), ('value', 'mid'), ('grad', 'mid')]}

SECOND = {'tri': 'MeshTri2', 'quad': 'MeshQuad2', 'tet': 'MeshTet2', 'hex': 'MeshHex2'}


def facet_quadrature(kind, at):
    """Reference-facet points for 'mid' / 'ends' (the default rule of degree maxdeg+1 is used for 'all')."""
    if kind == 'line':
        return None
    if kind in ('tri', 'quad'):
        X = np.array([[.5]]) if at == 'mid' else np.array([[0., 1.]])
    elif kind == 'tet':
        X = np.array([[1 / 3], [1 / 3]]) if at == 'mid' else np.array([[0., 1., 0.], [0., 0., 1.]])
    else:
        X = np.array([[.5], [.5]]) if at == 'mid' else np.array([[0., 1., 1., 0.], [0., 0., 1., 1.]])
    return X, np.full(X.shape[1], 1. / X.shape[1])


def _fxa(a):
    out = [fx(v) for v in np.asarray(a, dtype=np.float64).ravel().tolist()]
    if any(o is None for o in out):
        raise FloatingPointError('non-finite trace')
    return out


def _observe_mesh(spec, name, meta, e0, e1, events):
    """One mesh of the scenario: Setup event + one Group event per observation group.  e0 / e1 are the element
    OBJECTS of the two one-sided bases; they are reused over all meshes of the scenario."""
    from skfem.assembly.basis.interior_facet_basis import InteriorFacetBasis
    kind = spec['kind']
    groups = GROUPS.get(meta['cclass'], [])
    curved = 1 if any(op[0] == 'curved' for op in spec.get('ops', [])) else 0
    setup = {'a': 'Setup', 'elem': name, 'tolclass': meta['tol'], 'kind': kind, 'p': [], 'fv': [], 't': [], 'ndofs': 0,
             'groups': [{'q': q, 'at': at} for q, at in groups], 'err': '', 'curved': curved}
    events.append(setup)

    def prepare():
        m = MO.build(spec)
        # same-object history: use the mesh, call operations on it, discard their results, keep using the mesh
        MO.touch(m, spec, lambda mm: InteriorFacetBasis(mm, e0, side=0, intorder=2))
        return m
    m, err = guarded(prepare, CALL_TIMEOUT)
    if err:
        setup['err'] = err
        return
    find = np.nonzero(m.f2t[1] != -1)[0]
    nvert = int(m.t.max()) + 1
    if not curved:
        P = np.asarray(m.p)[:, :nvert]
        S = find_scale(P, 4)
        if S is not None:
            setup['p'] = [[int(x) for x in col] for col in np.rint(P * S).T]
    setup['fv'] = [[int(v) + 1 for v in m.facets[:, f]] for f in find]
    setup['t'] = [[int(v) + 1 for v in col] for col in np.asarray(m.t).T]
    if len(find) == 0:
        setup['err'] = 'NoInteriorFacet'
        return
    nd, err = guarded(lambda: int(InteriorFacetBasis(m, EL.make(name), side=0, facets=find[:1], intorder=1).N), CALL_TIMEOUT)
    setup['ndofs'] = nd if not err else 1
    for q, at in groups:
        ev = {'a': 'Group', 'q': q, 'at': at, 'ncomp': 0, 'nq': 0, 'items': [], 'err': '', 'tind0': [], 'tind1': []}

        def observe():
            kw = {}
            if at == 'all' or kind == 'line':
                kw['intorder'] = int(min(max(e0.maxdeg, 1), 8)) + 1
            else:
                kw['quadrature'] = facet_quadrature(kind, at)
            fb0 = InteriorFacetBasis(m, e0, side=0, facets=find, **kw)
            fb1 = InteriorFacetBasis(m, e1, side=1, facets=find, **kw)
            if not np.array_equal(fb0.find, fb1.find) or not np.array_equal(fb0.X, fb1.X):
                raise MachineryError('the two one-sided bases do not share facets / quadrature')
            N = fb0.N
            items = []
            ncomp = nq = None
            for d in range(N):
                w = np.zeros(N)
                w[d] = 1.
                u0, u1 = fb0.interpolate(w), fb1.interpolate(w)
                u0 = u0[0] if isinstance(u0, tuple) else u0
                u1 = u1[0] if isinstance(u1, tuple) else u1
                A = np.asarray(getattr(u0, q))
                B = np.asarray(getattr(u1, q))
                nf, nq = A.shape[-2], A.shape[-1]
                A = A.reshape(-1, nf, nq)
                B = B.reshape(-1, nf, nq)
                ncomp = A.shape[0]
                touched = np.nonzero((A != 0).any(axis=(0, 2)) | (B != 0).any(axis=(0, 2)))[0]
                for f in touched:
                    items.append({'d': d + 1, 'f': int(f) + 1, 'a': _fxa(A[:, f, :]), 'b': _fxa(B[:, f, :])})
            return N, ncomp, nq, items, [int(k) + 1 for k in fb0.tind], [int(k) + 1 for k in fb1.tind]
        obs, err = guarded(observe, CALL_TIMEOUT)
        if err:
            ev['err'] = err
        else:
            setup['ndofs'], ev['ncomp'], ev['nq'], ev['items'] = int(obs[0]), int(obs[1]), int(obs[2]), obs[3]
            ev['tind0'], ev['tind1'] = obs[4], obs[5]
        events.append(ev)


def execute(rec):
    name = rec['elem']
    meta = EL.CATALOGUE[name]
    events = []
    e0, e1 = EL.make(name), EL.make(name)          # ONE element object per side for the whole mesh sequence
    for spec in rec['meshes']:
        _observe_mesh(spec, name, meta, e0, e1, events)
    return events


def scenario(sid, rec):
    specs = rec['meshes']
    tags = {'kind': rec['kind'], 'family': rec['family'], 'elem': rec['elem'],
            'ctor': specs[0]['start'].get('ctor', 'default'),
            'curved': 1 if any(op[0] == 'curved' for sp in specs for op in sp.get('ops', [])) else 0,
            'shifted': int(rec.get('shifted', 0)),
            'history': 1 if any(sp.get('ops') or sp.get('touch') for sp in specs) else 0,
            'reuse': 1 if len(specs) > 1 else 0}
    return {'id': sid, 'recipe': rec, 'tags': tags, 'events': execute(rec)}


def _scen(args):
    return scenario(*args)


# ------------------------------------------------------------------------------------------ inputs

def _rec(kind, p, t, elem, fam, ctor='default', curved=None, shifted=0):
    spec = MO.from_pt(kind, p, t, ctor=ctor)
    if curved:
        spec['ops'] = [['curved', curved['seed'], curved['den']]]
    return {'driver': 'jump', 'kind': kind, 'family': fam, 'elem': elem, 'shifted': int(shifted), 'meshes': [spec]}


def _hrec(kind, elem, fam, specs, shifted=0):
    return {'driver': 'jump', 'kind': kind, 'family': fam, 'elem': elem, 'shifted': int(shifted), 'meshes': specs}


def meshes_for(kind, rng, th):
    """[(family, p, t, flags)] - integer coordinates.  flags: rect (axis-parallel boxes), shifted (non-trivial
    cyclic shifts / rotations), general (non-affine cells)."""
    out = []

    def shuf(p, t, local=True):
        return G.shuffle(kind, p, t, rng, local=local)
    if kind == 'line':
        out.append(('line', *U.line_points([0, 1, 3, 4, 8]), {}))
        out.append(('line-shuffled', *shuf(*U.line_points([0, 2, 3, 7])), {}))
    elif kind == 'tri':
        out.append(('tri-lattice', *G.tensor_tri([0, 1, 3], [0, 2, 3], (0, 1, 1, 0)), {}))
        out.append(('tri-lattice-shuffled', *shuf(*G.tensor_tri([0, 2, 3], [0, 1, 3], (1, 0, 0, 1))), {}))
        for _ in range(3 if th else 1):
            out.append(('tri-delaunay-shuffled', *shuf(*U.delaunay_int(2, int(rng.integers(6, 9)), 6, rng)), {'big': 1}))
        p, t = U.tri_lattice(2, 2, (0, 1, 0, 1), jiggle=[(4, 0.25, 0.5)])
        out.append(('tri-jiggled-shuffled', *shuf(p * 4, t), {'big': 1}))
    elif kind == 'quad':
        out.append(('quad-rect', *G.tensor_quad([0, 2, 3], [0, 1, 3]), {'rect': 1}))
        p, t = G.tensor_quad([0, 1, 3], [0, 2, 3])
        p2, t2 = shuf(p, t, local=False)
        out.append(('quad-rect-renumbered', p2, t2, {'rect': 1}))
        out.append(('quad-rect-shifted', *shuf(p, t), {'shifted': 1}))
        out.append(('quad-sheared-shifted', *shuf(G.shear(p, 1), t), {'shifted': 1}))
        pj, tj = G.tensor_quad([0, 4, 8], [0, 4, 8])
        pj = pj.copy()
        pj[:, 4] += (1, -1)
        out.append(('quad-jiggled', pj, tj, {'general': 1}))
        out.append(('quad-jiggled-shifted', *shuf(pj, tj), {'general': 1, 'shifted': 1}))
    elif kind == 'tet':
        out.append(('tet-kuhn', *U.tet_cubes(1, 6), {}))
        out.append(('tet-five-shuffled', *shuf(*U.tet_cubes(1, 5)), {}))
        for _ in range(2 if th else 1):
            out.append(('tet-delaunay-shuffled', *shuf(*U.delaunay_int(3, 6, 4, rng)), {}))
    elif kind == 'hex':
        out.append(('hex-rect', *G.tensor_hex([0, 1, 3], [0, 2], [0, 1]), {'rect': 1}))
        p, t = G.tensor_hex([0, 2, 3], [0, 1, 2], [0, 1])
        out.append(('hex-rect-rotated', *shuf(p, t), {'shifted': 1}))
        out.append(('hex-sheared-rotated', *shuf(G.shear(p, 1), t), {'shifted': 1}))
        if th:
            pj = p.copy()
            pj = pj * 4
            pj[:, 4] += (1, 0, 0)
            out.append(('hex-jiggled-rotated', *shuf(pj, t), {'general': 1, 'shifted': 1}))
    elif kind == 'wedge':
        out.append(('wedge', *G.tensor_wedge([0, 1, 3], [0, 2], [0, 1, 2], (0, 1)), {}))
        p, t = G.tensor_wedge([0, 2, 3], [0, 1], [0, 1], (1, 0))
        out.append(('wedge-renumbered', *shuf(p, t, local=False), {}))
    return out


def admissible(name, meta, flags):
    """Element x mesh pairs inside the claim of C03 (never demand more than the family promises)."""
    if meta['kind'] == 'wedge':
        return False                       # FacetBasis is not implemented for prisms (two facet types): not observable
    if meta['meshes'] == 'rect' and not flags.get('rect'):
        return False                       # BFS / HexC1 / Quad2G: rectangular / box families only
    if meta['tol'] == 'global' and flags.get('big'):
        return False                       # ElementGlobal (degree <= 5 monomials in GLOBAL coordinates, inverted
                                           # Vandermonde matrix): only well-shaped cells with small coordinates; on
                                           # random Delaunay slivers its round-off alone reaches 1e-6
    if name == 'ElementHexRT1' and flags.get('general'):
        return False                       # "Raviart-Thomas for cube": affine images only
    if flags.get('unsorted') and not direction_free(meta):
        return False                       # triangles without per-cell sorting (sort_t=False, oriented()): outside the claim
    return True


def direction_free(meta):
    """Families whose facet functions do not depend on a direction (one DOF per facet, no signed normal derivative)."""
    return (not meta['multifacet']) and meta['cclass'] in ('H1', 'Hdiv', 'Hcurl', 'FacetMid') and meta['tol'] != 'global'


# meshes reached through OPERATION HISTORIES from the library's own constructors (small coordinates; everything
# stays dyadic).  (family, spec, flags)
def history_specs(kind, rng):
    r = lambda n: [int(x) for x in rng.integers(0, 1000, n)]
    T = lambda axes: {'kind': kind, 'init': 'tensor', 'axes': axes}
    out = []

    def add(fam, start, ops, flags=None, final=None):
        out.append((fam, {'kind': final or kind, 'start': start, 'ops': ops, 'touch': []}, dict(flags or {})))
    if kind == 'line':
        ax = [[0, 1, 2, 4]]
        add('hist-refined', T(ax), [['refined', 1]])
        add('hist-adaptive', T(ax), [['refined_marked', r(2)], ['refined_marked', r(2)]])
        add('hist-adaptive-uniform', T(ax), [['refined_marked', r(1)], ['refined', 1]])
        add('hist-restrict', T(ax), [['refined', 1], ['restrict', list(range(1, 5))]])
        add('hist-plus-mirrored', T(ax), [['plus_translated', 0, 4], ['mirrored', 0]])
    elif kind == 'tri':
        ax = [[0, 1, 2], [0, 1]]
        add('hist-refined', T(ax), [['refined', 1]])
        add('hist-adaptive', T(ax), [['refined_marked', r(2)]])
        add('hist-adaptive-adaptive', T(ax), [['refined_marked', r(1)], ['refined_marked', r(2)]])
        add('hist-adaptive-uniform', {'kind': 'tri', 'init': 'default'}, [['refined_marked', r(1)], ['refined', 1]])
        add('hist-restrict', T(ax), [['refined', 1], ['restrict', list(range(3, 12))]])
        add('hist-remove-elements', T(ax), [['refined_marked', r(2)], ['remove_elements', r(2)]])
        add('hist-plus-mirrored', T(ax), [['plus_translated', 0, 2], ['mirrored', 1]])
        add('hist-sqsymmetric', {'kind': 'tri', 'init': 'sqsymmetric'}, [['refined_marked', r(2)]])
        add('hist-from-quads', {'kind': 'quad', 'init': 'tensor', 'axes': ax}, [['to_meshtri']])
        add('hist-from-quads-x', {'kind': 'quad', 'init': 'tensor', 'axes': ax}, [['to_meshtri_x'], ['refined_marked', r(2)]])
        add('hist-boundaries-scaled', T(ax), [['with_boundaries'], ['scaled', 0, 2], ['refined_marked', r(2)]])
        add('hist-oriented', T(ax), [['refined_marked', r(2)], ['oriented']], {'unsorted': 1})
    elif kind == 'quad':
        ax = [[0, 1, 2], [0, 1, 3]]
        add('hist-refined', T(ax), [['refined', 1]], {'rect': 1})
        add('hist-restrict', T(ax), [['refined', 1], ['restrict', list(range(2, 14))]], {'rect': 1})
        add('hist-plus-mirrored', T(ax), [['plus_translated', 0, 2], ['mirrored', 1]], {'rect': 1})
        add('hist-remove-scaled', {'kind': 'quad', 'init': 'default'}, [['refined', 2], ['remove_elements', r(2)], ['scaled', 1, 2]],
            {'rect': 1})
    elif kind == 'tet':
        ax = [[0, 1, 2], [0, 1], [0, 1]]
        ax1 = [[0, 1], [0, 1], [0, 1]]
        add('hist-refined', T(ax1), [['refined', 1], ['restrict', list(range(4, 20))]])
        add('hist-adaptive', T(ax1), [['refined_marked', r(2)]])
        add('hist-adaptive-adaptive', {'kind': 'tet', 'init': 'default'}, [['refined_marked', r(1)], ['refined_marked', r(1)]])
        add('hist-restrict-mirrored', T(ax), [['restrict', list(range(2, 11))], ['mirrored', 0]])
        add('hist-plus', T(ax1), [['plus_translated', 0, 1], ['refined_marked', r(1)]])
        add('hist-from-hexes', {'kind': 'hex', 'init': 'tensor', 'axes': ax}, [['to_meshtet']])
        add('hist-oriented', T(ax), [['oriented'], ['refined_marked', r(2)]])
    elif kind == 'hex':
        ax = [[0, 1], [0, 1], [0, 2]]
        add('hist-refined', {'kind': 'hex', 'init': 'default'}, [['refined', 1], ['restrict', list(range(0, 4))]], {'rect': 1})
        add('hist-restrict', T([[0, 1, 2], [0, 1], [0, 2]]), [['restrict', [0, 1, 3]]], {'rect': 1})
        add('hist-plus-mirrored', T(ax), [['plus_translated', 0, 1], ['mirrored', 2]], {'rect': 1})
    return out


HEAVY = {'ElementHexC1'}


# operations called ON a mesh in use, results discarded (same-object histories)
TOUCH = {'line': [['refined', 1], ['refined_marked', [0, 2]], ['restrict', [0, 1]], ['mirrored', 0], ['scaled', 0, 2],
                  ['with_boundaries'], ['element_finder'], ['boundary_queries'], ['plus_translated', 0, 16]],
         'tri': [['oriented'], ['refined_marked', [0, 3]], ['refined', 1], ['restrict', [0, 1, 2]], ['remove_elements', [1]],
                 ['mirrored', 0], ['scaled', 0, 2], ['translated', 1, 1], ['with_boundaries'], ['element_finder'],
                 ['boundary_queries'], ['plus_translated', 0, 16]],
         'quad': [['refined', 1], ['restrict', [0, 1]], ['remove_elements', [1]], ['mirrored', 0], ['scaled', 0, 2],
                  ['to_meshtri'], ['to_meshtri_x'], ['with_boundaries'], ['element_finder'], ['boundary_queries'],
                  ['plus_translated', 0, 16]],
         'tet': [['oriented'], ['refined_marked', [0, 3]], ['refined', 1], ['restrict', [0, 1, 2]], ['mirrored', 0],
                 ['scaled', 0, 2], ['with_boundaries'], ['element_finder'], ['boundary_queries'], ['plus_translated', 0, 16]],
         'hex': [['refined', 1], ['restrict', [0]], ['mirrored', 0], ['scaled', 0, 2], ['to_meshtet'], ['with_boundaries'],
                 ['element_finder'], ['boundary_queries'], ['plus_translated', 0, 16]]}


def generate(tier, seed):
    th = tier == 'thorough'
    rng = np.random.default_rng(seed + 3)
    recs = []
    cache, hcache = {}, {}
    for en, (name, meta) in enumerate(EL.CATALOGUE.items()):
        if meta['cclass'] is None:
            continue
        kind = meta['kind']
        if kind not in cache:
            cache[kind] = meshes_for(kind, rng, th)
            hcache[kind] = history_specs(kind, rng) if kind != 'wedge' else []
        for fam, p, t, flags in cache[kind]:
            if not admissible(name, meta, flags):
                continue
            recs.append(_rec(kind, p, t, name, fam, shifted=flags.get('shifted', 0)))
        # triangle meshes with sort_t=False: inside the claim only for families whose facet functions do not
        # depend on a direction (one DOF per facet and no signed normal derivative)
        if kind == 'tri' and direction_free(meta):
            fam, p, t, _ = cache[kind][1]
            recs.append(_rec(kind, p, t, name, fam + '-nosort', ctor='nosort'))
        # curved second-order meshes: H1 families
        if meta['cclass'] == 'H1' and kind in SECOND and meta['tol'] != 'global' and not name.startswith('ElementQuadP'):
            fam, p, t, flags = cache[kind][0]
            recs.append(_rec(kind, p, t, name, fam + '-curved', curved={'seed': int(rng.integers(0, 2 ** 31)), 'den': 32}))
        # ---- meshes reached through operation histories (quick: the adaptive ones + a rotating selection)
        hs = [h for h in hcache[kind] if admissible(name, meta, h[2])]
        if name in HEAVY and not th:
            hs = hs[:1]                     # budget only: 64 shape functions x 8 derivatives per cell
        if hs and not th:
            keep = [h for h in hs if 'adaptive' in h[0]][en % 2:][:1]
            rest = [h for h in hs if h not in keep]
            keep += [rest[(en + j) % len(rest)] for j in range(min(2, len(rest)))]
            hs = keep
        for fam, spec, flags in hs:
            recs.append(_hrec(kind, name, fam, [spec]))
        # ---- same-object histories: operations called on the mesh in use, results discarded
        adm = [(fam, p, t, flags) for fam, p, t, flags in cache[kind] if admissible(name, meta, flags)]
        if adm and kind in TOUCH:
            for j in range(2 if th else 1):
                fam, p, t, flags = adm[(en + j) % len(adm)]
                spec = MO.from_pt(kind, p, t, touch=TOUCH[kind])
                recs.append(_hrec(kind, name, fam + '-touched', [spec], shifted=flags.get('shifted', 0)))
            if hs and th:
                fam, spec, flags = hs[0]
                recs.append(_hrec(kind, name, fam + '-touched', [dict(spec, touch=TOUCH[kind])]))
        # ---- ONE element object per side driven over a sequence of meshes, incl. pairs with equal cell counts
        if adm:
            fam, p, t, flags = adm[en % len(adm)]
            p2, t2 = G.shuffle(kind, p, t, rng, local=(kind != 'quad' and kind != 'hex') or bool(flags.get('shifted')))
            # same connectivity, same array shapes, vertices moved (anisotropic scaling + shift keeps rectangles and
            # validity): anything an element object remembers about the geometry of the first mesh is stale here
            pa = np.asarray(p)
            pm = pa * (np.arange(pa.shape[0]) + 2)[:, None] + 1
            seq = [MO.from_pt(kind, p, t), MO.from_pt(kind, pm, t), MO.from_pt(kind, p2, t2)]
            flags3 = {}
            if th:
                fam3, p3, t3, flags3 = adm[(en + 1) % len(adm)]
                seq.append(MO.from_pt(kind, p3, t3))
                if hs:
                    seq.append(hs[-1][1])
            seq.append(MO.from_pt(kind, p, np.asarray(t)[:, ::-1]))            # same cells, reversed cell order
            recs.append(_hrec(kind, name, fam + '-element-reused', seq,
                              shifted=max(flags.get('shifted', 0), flags3.get('shifted', 0))))
    return recs


# ------------------------------------------------------------------------------------------ M + R

REPRESENTATIVES = {'tri': ['ElementTriP3', 'ElementTriRT2', 'ElementTriN2', 'ElementTriMorley'],
                   'tri-asgiven': ['ElementTriP2', 'ElementTriRT1', 'ElementTriN1'],
                   'quad': ['ElementQuad2', 'ElementQuadRT1', 'ElementQuadN1', 'ElementQuadP3'],   # last one: named deviation
                   'quad-unshifted': ['ElementQuadP3', 'ElementQuadN1'],
                   'tet': ['ElementTetP2', 'ElementTetRT1', 'ElementTetN1'],
                   'hex': ['ElementHex2', 'ElementHexRT1']}


def model(ctx):
    out_file = os.path.join(ctx.scratch, 'c03_universe.json')
    cfg = 'MC_C03_thorough.cfg' if ctx.tier == 'thorough' else 'MC_C03.cfg'
    ctx.model_must_hold('MC_C03', cfg, env={'OUT_FILE': out_file}, timeout=3000, workers=8, label='design consistent (in-claim pairs)')
    ctx.model_must_hold('MC_C03', 'MC_C03_quadp.cfg', env={'OUT_FILE': ''}, timeout=3000, workers=2,
                        label='named deviation QuadPFacetModesUnoriented')
    # regression model (sensitivity of the design layer): the reference-tangent table of ElementQuadN1 before
    # fix f058432 must be refuted by TLC; the current table is part of the main configuration
    old = ctx.tlc_model('MC_C03', 'MC_C03_quadn1_prerepair.cfg', env={'OUT_FILE': ''}, timeout=3000, workers=2,
                        label='regression model: ElementQuadN1 reference tangents before fix f058432')
    ctx.notes['pre_repair_quadn1_tangent_table_refuted_by_tlc'] = bool(old['violated'])
    if not old['violated']:
        raise MachineryError('MC_C03 does not refute the pre-repair ElementQuadN1 tangent table')
    return out_file


def replay_recipes(out_file, tier, rng):
    recs = []
    if not os.path.exists(out_file):
        return recs
    univ = json.load(open(out_file))
    cap = 400 if tier == 'thorough' else 60
    idx = rng.permutation(len(univ))[:cap]
    for j in idx:
        u = univ[int(j)]
        kind = u['kind']
        key = kind
        if kind == 'tri' and u['ctor'] == 'asgiven':
            key = 'tri-asgiven'
        if kind == 'quad' and u['unshifted'] == 1:
            key = 'quad-unshifted'
        p = (np.array(u['p']).T * 2).tolist()
        t = (np.array(u['t']).T - 1).tolist()
        for name in REPRESENTATIVES[key]:
            r = _rec(kind, p, t, name, 'TLC-universe', ctor='nosort' if key == 'tri-asgiven' else 'default',
                     shifted=1 if (kind in ('quad', 'hex') and key != 'quad-unshifted') else 0)
            recs.append(r)
    return recs


def run(ctx):
    procs = Pool()
    try:
        tp = ThreadPoolExecutor(max_workers=1)
        fut = tp.submit(model, ctx)
        recs = generate(ctx.tier, ctx.seed)
        scs = procs.map(_scen, [(f'C03-{k}', r) for k, r in enumerate(recs)])
        ctx.validate('TraceC03', scs, jvms=8)
        out_file = fut.result()
        rrecs = replay_recipes(out_file, ctx.tier, np.random.default_rng(ctx.seed + 2003))
        rscs = procs.map(_scen, [(f'C03-R{k}', r) for k, r in enumerate(rrecs)])
        ctx.validate('TraceC03', rscs, jvms=8)
    finally:
        procs.close()
    keys = {json.dumps([r['elem'], r['meshes']]) for r in recs + rrecs}
    ctx.notes['distinct_nontrivial'] = len(keys)
    ctx.notes['scenarios_from_tlc_universe'] = len(rrecs)
    ctx.notes['elements_driven'] = sorted({r['elem'] for r in recs})
    ctx.notes['tolerances'] = {'TolGeom': '2^-30 x magnitude', 'TolGlobal': '2^-17 x magnitude (ElementGlobal families)'}
    return ctx.finish(rule=RULE, assumptions=[
        'only element x mesh-class pairs inside the claim are driven: triangle meshes with sort_t=False only for '
        'families with one direction-free DOF per facet; BFS / HexC1 / Quad2G on axis-parallel boxes; HexRT1 on '
        'affine cells; curved second-order meshes for H1 families',
        'what each family must be continuous in is the table ContinuityClass of spec/Conformity.tla (families with '
        'an ambiguous class - Hermite on triangles, 15-parameter plate - are judged on their defining functionals only)',
        'facet normals / tangents are computed by the specification from the integer vertex coordinates (straight facets)',
        'prism meshes are driven without rotated local orders (facet keying defect of C11, KF-C11-wedge-trikey)',
        'TLC 1.8.0 and the CommunityModules Json module are trusted'],
        exhaustive=False)


def replay(ctx, doc):
    sc = doc['scenario']
    if sc.get('recipe', {}).get('driver') == 'model':
        ctx.model_must_hold('MC_C03', sc['recipe']['cfg'], env={'OUT_FILE': ''}, timeout=3000)
        return ctx.finish(rule=RULE)
    sc2 = scenario(sc['id'], sc['recipe'])
    ctx.validate('TraceC03', [sc2])
    return ctx.finish(rule=RULE)
