SPECIFICATION Spec
INVARIANT ClausesHold
CHECK_DEADLOCK FALSE
