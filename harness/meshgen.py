"""Integer-coordinate mesh families for the C14 / C03 / C06 drivers (graded, anisotropic, sheared, non-convex
domains, random integer Delaunay).  Builds on harness/universe.py; returns (p, t) integer arrays
(p: dim x nv, t: nnodes x nt).  Input generation only -- nothing here judges the library."""
import numpy as np

from . import universe as U


def _grade(p, axes):
    """Replace lattice coordinate i along axis a by axes[a][i]."""
    q = np.array(p, dtype=float)
    for a, xs in enumerate(axes):
        xs = np.asarray(xs, dtype=float)
        q[a] = xs[np.rint(p[a]).astype(int)]
    return q


def tensor_tri(xs, ys, diags=None):
    p, t = U.tri_lattice(len(xs) - 1, len(ys) - 1, diags)
    return _grade(p, (xs, ys)), t


def tensor_quad(xs, ys):
    p, t = U.quad_grid(len(xs) - 1, len(ys) - 1)
    return _grade(p, (xs, ys)), t


def tensor_hex(xs, ys, zs):
    p, t = U.hex_grid(len(xs) - 1, len(ys) - 1, len(zs) - 1)
    return _grade(p, (xs, ys, zs)), t


def tensor_tet(xs, ys, zs):
    """Every box of the tensor grid split into six tetrahedra around the same space diagonal."""
    import itertools
    p, h = tensor_hex(xs, ys, zs)
    T = []
    for c in range(h.shape[1]):
        hv = h[:, c]
        mn = p[:, hv].min(axis=1)
        mx = p[:, hv].max(axis=1)
        loc = {tuple(((p[:, v] - mn) / (mx - mn)).astype(int)): v for v in hv}
        for perm in itertools.permutations(range(3)):
            cur = [0, 0, 0]
            path = [tuple(cur)]
            for ax in perm:
                cur[ax] = 1
                path.append(tuple(cur))
            T.append([loc[q] for q in path])
    return p, np.array(T).T


def tensor_wedge(xs, ys, zs, diags=None):
    p2, t2 = tensor_tri(xs, ys, diags)
    p, t = U.wedge_extrude(p2, t2, len(zs) - 1)
    q = p.copy()
    q[2] = np.asarray(zs, dtype=float)[np.rint(p[2]).astype(int)]
    return q, t


def shear(p, k=1):
    """x += k*y (and y += k*z in 3-D): affine image, cells stay convex with planar faces."""
    q = p.copy()
    q[0] = p[0] + k * p[1]
    if p.shape[0] == 3:
        q[1] = p[1] + k * p[2]
    return q


def drop_cells(p, t, cells):
    keep = [k for k in range(t.shape[1]) if k not in set(cells)]
    return U.submesh(p, t, keep)


def clustered_delaunay(dim, rng, nbig=4, ncl=6, box=16):
    """Integer Delaunay mesh with a cluster of points in one corner: large cells next to many small ones (the
    containing cell of a point is then often not among the nearest centroids)."""
    from scipy.spatial import Delaunay
    pts = set()
    corners = [tuple(int(b) * box for b in np.binary_repr(i, dim)) for i in range(2 ** dim)]
    pts.update(corners)
    while len(pts) < 2 ** dim + nbig:
        pts.add(tuple(int(x) for x in rng.integers(0, box + 1, size=dim)))
    while len(pts) < 2 ** dim + nbig + ncl:
        pts.add(tuple(int(x) for x in rng.integers(box - 3, box + 1, size=dim)))
    P = np.array(sorted(pts), dtype=float)
    tri = Delaunay(P)
    keep = [s for s in tri.simplices if abs(round(np.linalg.det(P[s[1:]] - P[s[0]]))) > 0]
    return U.submesh(P.T, np.array(keep).T, range(len(keep)))


def shuffle(kind, p, t, rng, local=True):
    """Random vertex renumbering, cell permutation and admissible local vertex orders."""
    p2, t2 = U.renumber(p, t, rng.permutation(p.shape[1]))
    t2 = U.permute_cells(t2, rng.permutation(t.shape[1]))
    if local:
        t2 = U.apply_local_orders(kind, t2, rng)
    return p2, t2
