"""pytest plugin of the C14 suite stream (loaded with `-p harness.suite_c14` next to harness.suite_plugin).

The repository's own tests are the drivers: every call of a finder returned by `Mesh.element_finder()` and every
`CellBasis.probes / interpolator / point_source` call on a small mesh (<= SUITE_MAX_CELLS cells, <= 64 query points) is
recorded and later judged by spec/TraceC14.tla (events "SuiteFind" / "SuiteProbe").

The tests use generic float coordinates, which the exact integer projection of C14 cannot represent.  The projection
used here supplies WITNESSES instead: the barycentric coordinates of every query point with respect to the simplices
of a cell, computed in exact rational arithmetic from the float data (fractions.Fraction) and rounded to Fx limbs; TLC
decides containment / outsideness from them (clauses FoundCellContainsPoint, BoundaryPointsAreFound, RaisesOutside),
the structure of the probing matrix (ProbeRows) and that its entries are the local shape functions of the located
cell (LocalExpansion, entrywise - by linearity this covers every coefficient vector).  What cannot be represented
(too many points, |value| >= 2^30, unknown mesh / element classes, composite elements) is skipped and COUNTED.

Guards: SKFEM_VERIF=1 and SUITE_OUT must be set, otherwise the plugin is inert.  Recording never disturbs a test: all
of it runs after the original call returned (or raised) and inside try/except.
Output at session end: f"{SUITE_OUT}.c14.{pid}.json" = {"c14": [events], "c14_skipped": [{reason: count}]}.
"""
import copy
import hashlib
import json
import os
from fractions import Fraction

import numpy as np

OUT = os.environ.get('SUITE_OUT')
MAXC = int(os.environ.get('SUITE_MAX_CELLS', '64'))
MAXP = 64
ENABLED = bool(OUT) and os.environ.get('SKFEM_VERIF') == '1'
_events = []
_skipped = {}
_seen = set()
_depth = [0]
CAP = 500

KINDS = {'MeshLine1': 'line', 'MeshTri1': 'tri', 'MeshQuad1': 'quad', 'MeshTet1': 'tet', 'MeshHex1': 'hex',
         'MeshWedge1': 'wedge'}
# simplices whose union is the (convex) cell: the cell itself, the four triangles spanned by the vertices of a
# quadrilateral (their union is its convex hull, independent of the library's split), the library's sub-tetrahedra of
# hexahedra / prisms (boxes and extruded prisms in the tests: planar faces)
SIMPLICES = {'line': [[0, 1]], 'tri': [[0, 1, 2]], 'tet': [[0, 1, 2, 3]],
             'quad': [[0, 1, 2], [0, 1, 3], [0, 2, 3], [1, 2, 3]],
             'hex': [[0, 1, 3, 4], [0, 3, 2, 4], [2, 3, 4, 6], [3, 4, 6, 7], [3, 4, 5, 7], [1, 3, 4, 5]],
             'wedge': [[0, 1, 2, 3], [1, 2, 3, 4], [2, 3, 4, 5]]}


def _skip(reason):
    _skipped[reason] = _skipped.get(reason, 0) + 1


def _fx(x):
    from harness.project import fx
    return fx(x)


def _det(M):
    """Exact determinant of a small matrix of Fractions."""
    n = len(M)
    M = [r[:] for r in M]
    d = Fraction(1)
    for i in range(n):
        piv = next((r for r in range(i, n) if M[r][i] != 0), None)
        if piv is None:
            return Fraction(0)
        if piv != i:
            M[i], M[piv] = M[piv], M[i]
            d = -d
        d *= M[i][i]
        for r in range(i + 1, n):
            f = M[r][i] / M[i][i]
            if f:
                for c in range(i, n):
                    M[r][c] -= f * M[i][c]
    return d


def _bary(V, x):
    """Exact barycentric coordinates of x w.r.t. the simplex with vertex list V (Fractions); None if degenerate."""
    A = [[Fraction(1)] + list(v) for v in V]
    d0 = _det(A)
    if d0 == 0:
        return None
    out = []
    for i in range(len(V)):
        B = [r[:] for r in A]
        B[i] = [Fraction(1)] + list(x)
        out.append(_det(B) / d0)
    return out


def _lams(kind, P, cell, x):
    """Fx barycentric coordinates of x in every simplex of the cell: [simplex][vertex]; None if not representable."""
    out = []
    for s in SIMPLICES[kind]:
        lam = _bary([P[cell[j]] for j in s], x)
        if lam is None:
            return None
        enc = [_fx(v) for v in lam]
        if any(v is None for v in enc):
            return None
        out.append(enc)
    return out


def _frac_points(p):
    return [[Fraction(float(v)) for v in col] for col in np.asarray(p, dtype=np.float64).T]


def _components(t):
    """Number of connected components of a 1-D mesh (vertex adjacency)."""
    parent = {}

    def find(a):
        while parent.setdefault(a, a) != a:
            parent[a] = parent[parent[a]]
            a = parent[a]
        return a
    for c in np.asarray(t).T:
        parent[find(int(c[0]))] = find(int(c[1]))
    return len({find(a) for a in list(parent)})


def _find_event(mesh, kind, X, res, err):
    """X: dim x N float array."""
    nt = mesh.t.shape[1]
    N = X.shape[1]
    if nt > MAXC or N > MAXP or N == 0:
        return _skip('find: mesh or batch too large')
    key = hashlib.sha1(np.ascontiguousarray(mesh.p).tobytes() + np.ascontiguousarray(mesh.t).tobytes()
                       + np.ascontiguousarray(X).tobytes()).hexdigest()
    if ('f', key) in _seen:
        return
    _seen.add(('f', key))
    P = _frac_points(mesh.p)
    T = np.asarray(mesh.t).T
    xs = _frac_points(X)
    ns = len(SIMPLICES[kind])
    ev = {'a': 'SuiteFind', 'kind': kind, 'nt': int(nt), 'err': err, 'res': [], 'lam': [], 'lamall': [],
          'components': 'several' if (kind == 'line' and _components(mesh.t) > 1) else 'one',
          'test': os.environ.get('PYTEST_CURRENT_TEST', '')[:120]}
    if not err:
        r = np.asarray(res)
        if r.ndim != 1 or len(r) != N or r.dtype.kind not in 'iu' or (r < 0).any() or (r >= nt).any():
            ev['err'] = ''
            ev['res'] = [int(v) + 1 if 0 <= int(v) < nt else 0 for v in np.asarray(r).ravel()[:N]] if r.ndim == 1 else []
            ev['malformed'] = 1
            _events.append(ev)
            return
        ev['res'] = [int(v) + 1 for v in r]
        lam = [_lams(kind, P, T[int(r[n])], xs[n]) for n in range(N)]
        if any(v is None for v in lam):
            return _skip('find: barycentric coordinates not representable')
        ev['lam'] = lam
    # witnesses w.r.t. ALL cells (needed to judge a raise; for found results when the volume is small)
    if err or N * nt * ns <= 1024:
        if N * nt * ns > 8192:
            return _skip('find: raised on a batch too large for the all-cells witness')
        la = [[_lams(kind, P, T[k], xs[n]) for k in range(nt)] for n in range(N)]
        if any(v is None for row in la for v in row):
            return _skip('find: barycentric coordinates not representable')
        ev['lamall'] = la
    ev['malformed'] = 0
    _events.append(ev)


def _probe_event(basis, op, X, P, out=None, y=None):
    """X: dim x N; P: the probing matrix the library returned (probes) or built again for the same points."""
    mesh = basis.mesh
    kind = KINDS.get(type(mesh).__name__)
    if kind is None:
        return _skip('probe: mesh class ' + type(mesh).__name__)
    nt = mesh.t.shape[1]
    N = X.shape[1]
    if nt > MAXC or N > MAXP or N == 0:
        return _skip('probe: mesh or batch too large')
    if getattr(basis, 'tind', None) is not None:
        return _skip('probe: basis on a subset of elements')
    key = hashlib.sha1(np.ascontiguousarray(mesh.p).tobytes() + np.ascontiguousarray(mesh.t).tobytes()
                       + np.ascontiguousarray(X).tobytes() + type(basis.elem).__name__.encode() + op.encode()
                       + (np.ascontiguousarray(y).tobytes() if y is not None else b'')).hexdigest()
    if ('p', key) in _seen:
        return
    _seen.add(('p', key))
    _depth[0] += 1
    try:
        cells = np.asarray(mesh.element_finder(mapping=basis.mapping)(*X))
        mp = mesh._mapping()
        el = copy.deepcopy(basis.elem)
        Xl = mp.invF(X[:, :, None], tind=cells)
        nb = basis.element_dofs.shape[0]
        phis = np.array([np.asarray(el.gbasis(mp, Xl, i, tind=cells)[0].value) for i in range(nb)])
    finally:
        _depth[0] -= 1
    ncomp = int(phis[0].size // N)
    ph = phis.reshape(nb, ncomp, N)
    M = P.tocsr()
    M.sum_duplicates()
    if M.shape != (ncomp * N, basis.N):
        shape_ok = 0
    else:
        shape_ok = 1
    rows = []
    for r in range(M.shape[0]):
        ent = []
        for c, v in zip(M.indices[M.indptr[r]:M.indptr[r + 1]], M.data[M.indptr[r]:M.indptr[r + 1]]):
            if v != 0:
                enc = _fx(float(np.real(v)))
                if enc is None or np.iscomplexobj(v) and np.imag(v) != 0:
                    return _skip('probe: matrix entry not representable')
                ent.append({'c': int(c) + 1, 'v': enc})
        rows.append(sorted(ent, key=lambda q: q['c']))
    fph = [[[_fx(float(ph[i, c, n])) for i in range(nb)] for c in range(ncomp)] for n in range(N)]
    if any(v is None for pn in fph for pc in pn for v in pc):
        return _skip('probe: shape function value not representable')
    Pm = _frac_points(mesh.p)
    T = np.asarray(mesh.t).T
    xs = _frac_points(X)
    lam = [_lams(kind, Pm, T[int(cells[n])], xs[n]) for n in range(N)]
    if any(v is None for v in lam):
        return _skip('probe: barycentric coordinates not representable')
    ev = {'a': 'SuiteProbe', 'op': op, 'kind': kind, 'nt': int(nt), 'elem': type(basis.elem).__name__, 'ncomp': ncomp,
          'ndofs': int(basis.N), 'shape_ok': shape_ok, 'npts': int(N),
          'cells': [int(k) + 1 for k in cells], 'edofs': [[int(d) + 1 for d in basis.element_dofs[:, int(k)]] for k in cells],
          'rows': rows, 'phis': fph, 'lam': lam, 'out': [], 'py': [], 'mag': [], 'err': '',
          'test': os.environ.get('PYTEST_CURRENT_TEST', '')[:120]}
    if out is not None and y is not None:
        # interpolator: the returned values against the pairing  probes(x) @ y  computed exactly from the returned matrix
        yv = np.asarray(y)
        if np.iscomplexobj(yv) or np.iscomplexobj(out):
            return _skip('probe: complex coefficient vector')
        o = np.asarray(out, dtype=np.float64).ravel()
        if len(o) != M.shape[0]:
            ev['shape_ok'] = 0
        else:
            py, mag = [], []
            for r in range(M.shape[0]):
                sl = slice(M.indptr[r], M.indptr[r + 1])
                acc = sum((Fraction(float(v)) * Fraction(float(yv[c])) for c, v in zip(M.indices[sl], M.data[sl])), Fraction(0))
                ab = sum((abs(Fraction(float(v)) * Fraction(float(yv[c]))) for c, v in zip(M.indices[sl], M.data[sl])), Fraction(0))
                py.append(_fx(acc))
                mag.append(1 + int(ab))
            eo = [_fx(float(v)) for v in o]
            if any(v is None for v in py + eo) or max(mag) >= 2 ** 14:
                return _skip('probe: interpolated value not representable')
            ev.update(out=eo, py=py, mag=mag)
    _events.append(ev)


def pytest_configure(config):
    if not ENABLED:
        return
    try:
        import skfem
        from skfem.assembly.basis.cell_basis import CellBasis
        import skfem.mesh as sm
    except Exception:
        return

    # ---- finders: wrap element_finder of every first-order mesh class that defines one
    def wrap_finder_factory(cls, kind):
        orig = cls.__dict__.get('element_finder')
        if orig is None:
            return

        def element_finder(self, mapping=None):
            finder = orig(self, mapping=mapping)
            if type(self).__name__ != cls.__name__:
                return finder

            def recorded(*args, **kwargs):
                if _depth[0] > 0 or kwargs:
                    return finder(*args, **kwargs)
                _depth[0] += 1
                err = ''
                res = None
                try:
                    res = finder(*args)
                    return res
                except BaseException as exc:
                    err = type(exc).__name__
                    raise
                finally:
                    _depth[0] -= 1
                    try:
                        if len(_events) < CAP:
                            X = np.array([np.asarray(a, dtype=np.float64).ravel() for a in args])
                            if X.ndim == 2 and X.shape[0] == self.p.shape[0]:
                                _depth[0] += 1
                                try:
                                    _find_event(self, kind, X, res, err)
                                finally:
                                    _depth[0] -= 1
                    except Exception:      # recording must never disturb the test
                        _skip('find: recording failed')
            return recorded
        cls.element_finder = element_finder

    for cname, kind in KINDS.items():
        cls = getattr(skfem, cname, None) or getattr(sm, cname, None)
        if cls is not None:
            try:
                wrap_finder_factory(cls, kind)
            except Exception:
                pass

    # ---- probes / point_source / interpolator
    orig_probes = CellBasis.probes

    def probes(self, x):
        if _depth[0] > 0:
            return orig_probes(self, x)
        _depth[0] += 1
        try:
            P = orig_probes(self, x)
        finally:
            _depth[0] -= 1
        try:
            if len(_events) < CAP:
                X = np.asarray(x, dtype=np.float64)
                if X.ndim == 2:
                    _probe_event(self, 'probes', X, P)
        except Exception:
            _skip('probe: recording failed')
        return P
    CellBasis.probes = probes

    orig_ps = CellBasis.point_source

    def point_source(self, x):
        if _depth[0] > 0:
            return orig_ps(self, x)
        _depth[0] += 1
        try:
            v = orig_ps(self, x)
        finally:
            _depth[0] -= 1
        try:
            if len(_events) < CAP:
                import scipy.sparse as sp
                X = np.asarray(x, dtype=np.float64).reshape(-1, 1)
                vv = np.asarray(v)
                ncomp = int(np.prod(getattr(self, '_base_tensor_order', ()) or (1,)))
                if vv.ndim == 1 and ncomp == 1:
                    _probe_event(self, 'point_source', X, sp.csr_matrix(vv.reshape(1, -1)))
                else:
                    _skip('probe: point_source of a vector valued basis')
        except Exception:
            _skip('probe: recording failed')
        return v
    CellBasis.point_source = point_source

    orig_interp = CellBasis.interpolator

    def interpolator(self, y):
        fun = orig_interp(self, y)
        if _depth[0] > 0:
            return fun
        basis = self

        def recorded(x):
            if _depth[0] > 0:
                return fun(x)
            _depth[0] += 1
            try:
                out = fun(x)
            finally:
                _depth[0] -= 1
            try:
                if len(_events) < CAP:
                    X = np.asarray(x, dtype=np.float64)
                    if X.ndim == 2:
                        _depth[0] += 1
                        try:
                            P = orig_probes(basis, X)
                        finally:
                            _depth[0] -= 1
                        _probe_event(basis, 'interpolator', X, P, out=out, y=y)
                    else:
                        _skip('probe: interpolator with trailing axes')
            except Exception:
                _skip('probe: recording failed')
            return out
        return recorded
    CellBasis.interpolator = interpolator


def pytest_sessionfinish(session, exitstatus):
    if ENABLED:
        try:
            with open(f'{OUT}.c14.{os.getpid()}.json', 'w') as f:
                json.dump({'c14': _events, 'c14_skipped': [_skipped] if _skipped else []}, f)
        except Exception:
            pass
