------------------------------- MODULE MC_C09 -------------------------------
(* Design-level check of C09: facts about the specification's OWN oracle.      *)
(*  (a) WeightsExact     the differentiation weights of Part 1 reproduce       *)
(*      d^m/dx^m at 0 EXACTLY (integer arithmetic, no tolerance) for the       *)
(*      binomial basis binom(x - a, k), k <= n-1, on every window the trace    *)
(*      specification accepts (m = 1, 2; 2..10 nodes; every position of the    *)
(*      evaluation point), and for the monomials x^k on the windows where the  *)
(*      products fit 32 bits; textbook anchors (central differences).          *)
(*  (b) FxPipeline       ApplyStencil on Fx encodings of samples of exact      *)
(*      polynomials gives the exact derivative up to the accounted truncation. *)
(*  (c) Piola            for EVERY integer matrix A of the universes (2x2 with *)
(*      entries -1..2, 3x3 with entries 0..1, det # 0; orientation reversing   *)
(*      ones included) and every reference field of the universes (monomial    *)
(*      components of degree <= 2): the field transformed by the               *)
(*      TransformClass rule (H1 / contravariant / covariant), SAMPLED along    *)
(*      the global axes in exact rational arithmetic and differentiated with   *)
(*      the stencil of Part 1, has gradient invDF^T grad_ref, divergence       *)
(*      div_ref / det, curl curl_ref / det (2-D) and DF curl_ref / det (3-D),  *)
(*      and adj(A) A = det I.  These are the identities by which               *)
(*      ReferenceDerivative + MappingRule imply "true derivative after         *)
(*      mapping" on affine cells.                                              *)
(*  (d) Tables           every class named by a wrapper instance is in the     *)
(*      element table; degrees are consistent (dd <= td); the tables are       *)
(*      exported for the generic harness (OUT_FILE).                           *)
EXTENDS ShapeFunctions

\* ---------------------------------------------------------------------------
\* (a)
Windows == {w \in (1..MaxOrder) \X (2..NMaxNodes) \X (-(NMaxNodes - 1)..0) : w[3] >= 1 - w[2] /\ w[1] < w[2]}
OKWindows == {w \in Windows : WindowOK(w[1], w[3], w[2])}
\* binom(x - a, k) = prod_{r<k} (x - a - r) / k!  : coefficients of the numerator, value at the node a + j - 1 is binom(j-1, k)
BinomNumer(a, k) == PolyOfShifts([r \in 1..k |-> -(a + r - 1)])
BinomialExact(w) ==
  LET m == w[1] n == w[2] a == w[3] st == StencilAt(m, a, n) IN
  \A k \in 0..(n - 1) :
     \* sum_j num_j binom(j-1, k) / den  =  m! c_m / k!      (c_m = coefficient of x^m of the numerator)
     LET lhs == SumSeq([j \in 1..n |-> st.num[j] * Binom(j - 1, k)])
         cm  == IF m <= k THEN BinomNumer(a, k)[m + 1] ELSE 0
     IN lhs * Fact(k) = st.den * Fact(m) * cm
MonomialExact(w) ==
  LET m == w[1] n == w[2] a == w[3] st == StencilAt(m, a, n) o == Window(a, n) IN
  n <= 6 => \A k \in 0..(n - 1) :
     SumSeq([j \in 1..n |-> st.num[j] * IPow(o[j], k)]) = (IF k = m THEN st.den * Fact(m) ELSE 0)
WeightsExact == \A w \in OKWindows : BinomialExact(w) /\ MonomialExact(w)
ASSUME WeightsExact
\* anchors
ASSUME StencilAt(1, -1, 3).num = <<-1, 0, 1>> /\ StencilAt(1, -1, 3).den = 2
ASSUME StencilAt(2, -1, 3).num = <<1, -2, 1>> /\ StencilAt(2, -1, 3).den = 1
ASSUME StencilAt(1, 0, 3).num = <<-3, 4, -1>> /\ StencilAt(1, 0, 3).den = 2
ASSUME StencilAt(1, -2, 5).num = <<1, -8, 0, 8, -1>> /\ StencilAt(1, -2, 5).den = 12
ASSUME StencilAt(2, -2, 5).num = <<-1, 16, -30, 16, -1>> /\ StencilAt(2, -2, 5).den = 12
\* centred windows are always usable; the windows the harness may use are exported below
ASSUME \A n \in 2..NMaxNodes : \A m \in 1..MaxOrder : m < n => WindowOK(m, -((n - 1) \div 2), n)

\* ---------------------------------------------------------------------------
\* (b) p(x) = 3 x^3 - 2 x^2 + x/2 - 5 sampled at x0 + (a + j - 1) / H, exact in Fx (dyadic), derivative at x0
PolyQ(x) == QAdd(QAdd(QMul(QInt(3), QPow(x, 3)), QMul(QInt(-2), QPow(x, 2))), QAdd(QMul(Q(1, 2), x), QInt(-5)))
DPolyQ(x, m) == IF m = 1 THEN QAdd(QAdd(QMul(QInt(9), QPow(x, 2)), QMul(QInt(-4), x)), Q(1, 2))
                ELSE QAdd(QMul(QInt(18), x), QInt(-4))
FxPipelineAt(m, a, n, H, x0) ==
  LET v == [j \in 1..n |-> FxOfQ(PolyQ(QAdd(x0, Q(a + j - 1, H))))]
      st == StencilAt(m, a, n)
  IN /\ StencilSafe(st, v, H, m)
     /\ FxNear(ApplyStencil(st, v, H, m), FxOfQ(DPolyQ(x0, m)), FxUlp(4 * (H ^ m) * (st.sumabs \div st.den + 2)))
FxPipeline == \A m \in 1..2 : \A n \in 4..7 : \A a \in (1 - n)..0 : \A H \in {4, 16} : \A x0 \in {Q(1, 4), Q(-3, 8)} :
                 WindowOK(m, a, n) => FxPipelineAt(m, a, n, H, x0)
ASSUME FxPipeline

\* ---------------------------------------------------------------------------
\* (c) exact rational geometry
Det2M(A) == A[1][1] * A[2][2] - A[1][2] * A[2][1]
Adj2M(A) == << <<A[2][2], -A[1][2]>>, <<-A[2][1], A[1][1]>> >>
Det3M(A) == Det3(A[1], A[2], A[3])
\* adjugate: rows are the cross products of the columns' complements:  adj[r] = cross of rows of A^T ...
Col(A, c) == [r \in DOMAIN A |-> A[r][c]]
Adj3M(A) == << Cross3(Col(A, 2), Col(A, 3)), Cross3(Col(A, 3), Col(A, 1)), Cross3(Col(A, 1), Col(A, 2)) >>
DetM(A) == IF Len(A) = 2 THEN Det2M(A) ELSE Det3M(A)
AdjM(A) == IF Len(A) = 2 THEN Adj2M(A) ELSE Adj3M(A)
AdjIsInverse(A) == \A r, c \in DOMAIN A :
                      SumSeq([k \in DOMAIN A |-> AdjM(A)[r][k] * A[k][c]]) = (IF r = c THEN DetM(A) ELSE 0)
InvQ(A) == [r \in DOMAIN A |-> [c \in DOMAIN A |-> Q(AdjM(A)[r][c], DetM(A))]]

\* a scalar polynomial = sequence of terms <<coef, alpha>>; a field = sequence of scalar polynomials
MonoQ(al, P) == LET RECURSIVE M(_) M(c) == IF c > Len(al) THEN QInt(1) ELSE QMul(QPow(P[c], al[c]), M(c + 1)) IN M(1)
PolyAt(p, P) == QSumAll([t \in DOMAIN p |-> QMul(QInt(p[t][1]), MonoQ(p[t][2], P))])
PolyD(p, d)  == [t \in DOMAIN p |-> <<p[t][1] * p[t][2][d], [p[t][2] EXCEPT ![d] = IF @ > 0 THEN @ - 1 ELSE 0]>>]
QMatVec(M, u)  == [r \in DOMAIN M |-> QSumAll([k \in DOMAIN u |-> QMul(M[r][k], u[k])])]
QTMatVec(M, u) == [c \in DOMAIN M |-> QSumAll([k \in DOMAIN u |-> QMul(M[k][c], u[k])])]
QOfInts(M) == [r \in DOMAIN M |-> [c \in DOMAIN M[r] |-> QInt(M[r][c])]]
QVec(x) == [c \in DOMAIN x |-> QInt(x[c])]
QScale(s, u) == [c \in DOMAIN u |-> QMul(s, u[c])]

\* the transformed field at the global point x (the cell is  x = A X):  TransformClass rules of Part 3.
\* iA = InvQ(A), evaluated once per job
FieldAt(F, P) == [c \in DOMAIN F |-> PolyAt(F[c], P)]
Mapped(cl, A, iA, F, x) ==
  LET P == QMatVec(iA, x) IN
  CASE cl = "H1"    -> FieldAt(F, P)
    [] cl = "Hdiv"  -> QScale(Q(1, DetM(A)), QMatVec(QOfInts(A), FieldAt(F, P)))
    [] cl = "Hcurl" -> QTMatVec(iA, FieldAt(F, P))
\* derivative along the global axis d of component c, by the stencil of Part 1 on the window a..a+n-1 (h = 1)
QStencil(cl, A, iA, F, x, c, d, a, n) ==
  LET st == StencilAt(1, a, n) IN
  QMul(Q(1, st.den),
       QSumAll([j \in 1..n |-> QMul(QInt(st.num[j]),
                  Mapped(cl, A, iA, F, [k \in DOMAIN x |-> QAdd(x[k], QInt(IF k = d THEN a + j - 1 ELSE 0))])[c])]))
RefGradAt(p, P)  == [d \in DOMAIN P |-> PolyAt(PolyD(p, d), P)]
RefDivAt(F, P)   == QSumAll([d \in DOMAIN F |-> PolyAt(PolyD(F[d], d), P)])
RefCurl2At(F, P) == QSub(PolyAt(PolyD(F[2], 1), P), PolyAt(PolyD(F[1], 2), P))
RefCurl3At(F, P) == << QSub(PolyAt(PolyD(F[3], 2), P), PolyAt(PolyD(F[2], 3), P)),
                       QSub(PolyAt(PolyD(F[1], 3), P), PolyAt(PolyD(F[3], 1), P)),
                       QSub(PolyAt(PolyD(F[2], 1), P), PolyAt(PolyD(F[1], 2), P)) >>

PiolaHolds(job) ==
  LET A == job.A  F == job.F  dim == Len(A)
      iA == TLCEval(InvQ(A))
      x == QVec(job.x)  P == TLCEval(QMatVec(iA, x))
      a == job.a  n == 4                                   \* fields have degree <= 2: four nodes, any position
      D(cl, c, d) == QStencil(cl, A, iA, F, x, c, d, a, n)
      det == DetM(A)
  IN /\ AdjIsInverse(A)
     \* H1 (first component as a scalar):  grad = invDF^T grad_ref
     /\ LET g == QTMatVec(iA, RefGradAt(F[1], P)) IN
        \A d \in 1..dim : QStencil("H1", A, iA, <<F[1]>>, x, 1, d, a, n) = g[d]
     \* contravariant:  div = div_ref / det
     /\ QSumAll([d \in 1..dim |-> D("Hdiv", d, d)]) = QMul(Q(1, det), RefDivAt(F, P))
     \* covariant:  2-D curl = curl_ref / det ;  3-D curl = DF curl_ref / det
     /\ IF dim = 2
        THEN QSub(D("Hcurl", 2, 1), D("Hcurl", 1, 2)) = QMul(Q(1, det), RefCurl2At(F, P))
        ELSE LET want == QScale(Q(1, det), QMatVec(QOfInts(A), RefCurl3At(F, P))) IN
             /\ QSub(D("Hcurl", 3, 2), D("Hcurl", 2, 3)) = want[1]
             /\ QSub(D("Hcurl", 1, 3), D("Hcurl", 3, 1)) = want[2]
             /\ QSub(D("Hcurl", 2, 1), D("Hcurl", 1, 2)) = want[3]

\* universes.  quick: 2x2 matrices with entries -1..2 whose first row is non-negative, 13 fields; 3x3: unit upper
\* triangular 0/1 matrices and four others (two orientation reversing, two with det 2), 6 fields.
\* thorough (C09_LEVEL = thorough): all 2x2 matrices with entries -1..2, all monomial pairs; all 0/1 3x3 matrices, 26 fields.
Thorough == IOEnv.C09_LEVEL = "thorough"
AllMats2 == {A \in [1..2 -> [1..2 -> -1..2]] : Det2M(A) # 0}
AllMats3 == {A \in [1..3 -> [1..3 -> 0..1]] : Det3M(A) # 0}
Alphas2 == {al \in [1..2 -> 0..2] : al[1] + al[2] <= 2}
Alphas3q == << <<0, 0, 0>>, <<1, 0, 0>>, <<0, 1, 1>>, <<0, 0, 2>>, <<1, 1, 0>> >>
Alphas3 == {Alphas3q[k] : k \in 1..5}
Mixed2 == << <<<<2, <<2, 0>>>>, <<-3, <<0, 1>>>>, <<1, <<0, 0>>>>>>, <<<<1, <<1, 1>>>>, <<4, <<0, 2>>>>>> >>
Mixed3 == << <<<<1, <<0, 1, 1>>>>, <<2, <<1, 0, 0>>>>>>, <<<<-1, <<2, 0, 0>>>>, <<1, <<0, 0, 1>>>>>>, <<<<3, <<1, 1, 0>>>>, <<1, <<0, 0, 0>>>>>> >>
NextAlpha2(al) == CASE al = <<0, 0>> -> <<1, 1>> [] al = <<1, 1>> -> <<2, 0>> [] al = <<2, 0>> -> <<0, 1>>
                    [] al = <<0, 1>> -> <<0, 2>> [] al = <<0, 2>> -> <<1, 0>> [] al = <<1, 0>> -> <<0, 0>>
Mats(dim) == IF dim = 2
             THEN (IF Thorough THEN AllMats2 ELSE {A \in AllMats2 : A[1][1] >= 0 /\ A[1][2] >= 0})
             ELSE (IF Thorough THEN AllMats3
                   ELSE {A \in AllMats3 : A[2][1] = 0 /\ A[3][1] = 0 /\ A[3][2] = 0}
                        \cup {<< <<0, 1, 0>>, <<1, 0, 0>>, <<0, 0, 1>> >>, << <<0, 0, 1>>, <<0, 1, 0>>, <<1, 0, 0>> >>,
                              << <<0, 1, 1>>, <<1, 0, 1>>, <<1, 1, 0>> >>, << <<1, 1, 0>>, <<0, 1, 1>>, <<1, 0, 1>> >>})
Fields(dim) ==
  IF dim = 2
  THEN {Mixed2} \cup (IF Thorough
                     THEN {<< <<<<1, a1>>>>, <<<<c2, a2>>>> >> : a1 \in Alphas2, a2 \in Alphas2, c2 \in {-1, 2}}
                     ELSE {<< <<<<1, a1>>>>, <<<<c2, NextAlpha2(a1)>>>> >> : a1 \in Alphas2, c2 \in {-1, 2}})
  ELSE {Mixed3} \cup (IF Thorough
                     THEN {<< <<<<1, Alphas3q[k]>>>>, <<<<-1, a2>>>>, <<<<2, Alphas3q[((k + 2) % 5) + 1]>>>> >> : k \in 1..5, a2 \in Alphas3}
                     ELSE {<< <<<<1, Alphas3q[k]>>>>, <<<<-1, Alphas3q[(k % 5) + 1]>>>>, <<<<2, Alphas3q[((k + 2) % 5) + 1]>>>> >> : k \in 1..5})
Points(dim) == IF dim = 2 THEN {<<1, -2>>} ELSE {<<1, 0, -1>>}
Starts(dim) == IF dim = 2 THEN {-1, -3} ELSE {-2}

\* ---------------------------------------------------------------------------
\* (d) tables
TablesConsistent ==
  /\ \A r \in DOMAIN ElementRows : LET e == ElementRows[r] IN
       /\ e.dd <= e.td /\ (e.td + 2 <= NMaxNodes \/ e.fam = "Global")
       /\ e.dd + 2 <= NMaxNodes
       /\ e.kind \in {"line", "tri", "quad", "tet", "hex", "wedge"}
       /\ e.fam \in {"H1", "Hdiv", "Hcurl", "Matrix", "Global", "Skeleton"}
       /\ e.dual \in {"nodal", "flux", "circ", "global", "none"} /\ e.pou \in {0, 1}
       /\ (e.dual = "flux" => e.fam = "Hdiv") /\ (e.dual = "circ" => e.fam = "Hcurl")
       /\ (e.dual = "global" <=> e.fam = "Global")
       /\ (e.pou = 1 => e.fam \in {"H1", "Global"})
  /\ Cardinality({<<ElementRows[r].cls, ElementRows[r].p>> : r \in DOMAIN ElementRows}) = Len(ElementRows)
  /\ \A w \in DOMAIN WrapperSpecs : SpecWF(WrapperSpecs[w])
  /\ \A w \in DOMAIN WrapperSpecs : LET L == SpecLeaves(WrapperSpecs[w]) IN \A k \in DOMAIN L : L[k].kind = L[1].kind
ASSUME TablesConsistent

WindowRows == SetToSeq({<<w[1], w[2], w[3]>> : w \in OKWindows})
ASSUME IOEnv.OUT_FILE = "" \/
       JsonSerialize(IOEnv.OUT_FILE, [elements |-> ElementRows, wrappers |-> WrapperSpecs, notdriven |-> NotDrivenRows,
                                      windows |-> WindowRows, nmax |-> NMaxNodes,
                                      tol |-> [deriv |-> TolDerivBits, map |-> TolMapBits, dual |-> TolDualBits,
                                               glob |-> TolGlobBits]])

\* two-level enumeration so that the jobs are spread over the TLC workers
VARIABLES stage, job
vars == <<stage, job>>
Init == stage = 0 /\ job \in {[dim |-> 2], [dim |-> 3]}
Next == \/ /\ stage = 0 /\ stage' = 1
           /\ \E A \in Mats(job.dim) : job' = [dim |-> job.dim, A |-> A]
        \/ /\ stage = 1 /\ stage' = 2
           /\ \E F \in Fields(job.dim) : \E x \in Points(job.dim) : \E a \in Starts(job.dim) :
                job' = [dim |-> job.dim, A |-> job.A, F |-> F, x |-> x, a |-> a]
Spec == Init /\ [][Next]_vars
PiolaIdentities == stage = 2 => PiolaHolds(job)
==============================================================================
