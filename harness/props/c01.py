"""C01 - assembled matrix, vector and scalar represent the weak form.

M : spec/MC_C01.cfg - TLC enumerates small abstract pairs of bases (all rectangular nb_u x nb_v in 1..3, 1..2
    cells, 1..2 points, every cell->DOF table up to renaming) and checks that the transcriptions of
    BilinearForm/LinearForm/Functional/_assemble_scipy_csr/interpolate satisfy every C01 clause (AssemblySem.tla);
    seeded deviations of the transcription (MC_MUT) must be rejected.
V : the real BilinearForm / LinearForm / Functional (.assemble / .elemental) and Basis.interpolate on exact-universe
    bases (integer meshes, dyadic user-supplied quadrature); the event carries pi(basis) for both bases, the grammar
    term and the result as exact scaled integers; TraceC01 recomputes by definition and compares exactly.
L : outside the exact universe (Gauss rules, derivatives, H(div)/H(curl)/global elements, curved meshes, w.h, w.n)
    the pairings v^T A u, b^T v (exact rational arithmetic on the returned floats) and the value of
    Functional(F(interpolate u, interpolate v)) are recorded as fixed-point numbers; law Consistent, tolerance TolSum.
"""
import json

import numpy as np

from .. import fem
from .. import universe as U
from ..core import guarded, MachineryError
from ..project import fx

RULE = ('scenario = one mesh + one (trial, test) pair of bases + one integrand of the grammar per form type; '
        'distinct = distinct (mesh kind, basis kinds, element pair, integrand); non-trivial = at least 2 cells or '
        'trial != test, integrand with a non-constant coefficient or rectangular element pair')

BOUND = 2 ** 24

# ------------------------------------------------------------------------------------------ exact tier: execution


class Skip(Exception):
    """the recipe leaves the exact universe (not dyadic / too large for 32 bit): counted, not judged"""


class Malformed(Exception):
    """the library handed out an object that cannot be projected (wrong shape): an observation, judged by
    NoUnexpectedError"""


def _env(basis, Bpi, fields, attrs):
    """kwargs for the code, accessor table and the JSON env for TLC"""
    kw, facc, fenv, fs = {}, {}, {}, {}
    shape = (Bpi['nel'], Bpi['nq'])
    defaults = None
    for f in fields:
        name = f['name']
        if f['kind'] == 'dof':
            vec = np.array(f['vec'], dtype=np.float64)
            kw[name] = vec
            facc[name] = fem.accessors(basis.basis[0], attrs)
            fenv[name] = {'kind': 'dof', 'nc': 0, 's': 0, 'val': [], 'vec': [int(x) for x in f['vec']]}
            fs[name] = Bpi['sphi']
        elif f['kind'] == 'val':
            kw[name] = np.array(f['val'], dtype=np.float64)
            facc[name] = [(0, 'value', ())]
            fenv[name] = {'kind': 'val', 'nc': 1, 's': 1, 'val': [f['val']], 'vec': []}
            fs[name] = 1
        elif f['kind'] == 'default':
            if defaults is None:
                defaults = basis.default_parameters()
            fld = defaults[name]
            facc[name] = fem.accessors(fld, ('value',))
            if tuple(np.asarray(fld).shape[-2:]) != tuple(shape):
                raise Malformed(f'default parameter {name} has shape {np.asarray(fld).shape} on a basis with {shape}')
            pi = fem.field_pi(fld, facc[name], shape)
            if pi is None:
                raise Skip(f'default {name} not dyadic')
            fenv[name] = pi
            fs[name] = pi['s']
    return kw, facc, fenv, fs


def _alts_kw(basis, fields, kw):
    """the same parameters passed in the other accepted forms (form.py:92-121)"""
    from skfem.element import DiscreteField
    out = []
    if any(f['kind'] == 'dof' for f in fields):
        k2 = dict(kw)
        for f in fields:
            if f['kind'] == 'dof':
                k2[f['name']] = basis.interpolate(np.array(f['vec'], dtype=np.float64))
        out.append(k2)
    if any(f['kind'] == 'val' for f in fields):
        k2 = dict(kw)
        for f in fields:
            if f['kind'] == 'val':
                k2[f['name']] = DiscreteField(np.array(f['val'], dtype=np.float64))
        out.append(k2)
    return out


def _part(x, part):
    return np.real(x) if part == 're' else np.imag(x)


def _ints(a, scale):
    v = fem.to_ints(a, scale, BOUND)
    return v


def _mat(A, scale, part):
    A = A.tocsr().copy()
    A.data = _part(A.data, part).astype(np.float64)
    return fem.csr_trip(A, scale)


def exec_exact(rec):
    """run the real code on an exact-universe recipe; returns (events, skipped_reason)"""
    import skfem
    from skfem import BilinearForm, LinearForm, Functional
    kind = rec['mesh']['kind']
    mesh = fem.make_mesh(rec['mesh'])
    attrs = ('value', 'grad') if rec.get('grad') else ('value',)
    bu = fem.make_basis(mesh, kind, rec['bu'])
    bv = fem.make_basis(mesh, kind, rec['bv']) if rec.get('bv') else bu
    acc_u = fem.accessors(bu.basis[0], attrs)
    acc_v = fem.accessors(bv.basis[0], attrs)
    Bu = fem.basis_pi(bu, acc_u)
    Bv = fem.basis_pi(bv, acc_v) if bv is not bu else Bu
    if Bu is None or Bv is None:
        raise Skip('basis values not dyadic')
    events = []
    nfu = len(bu.basis[0])
    cplx = bool(rec.get('bil_im'))
    dtype = np.complex128 if cplx else np.float64
    parts = ('re', 'im') if cplx else ('re',)

    # ---------------- bilinear
    if rec.get('bil'):
        kw, facc, fenv, fs = _env(bu, Bu, rec['fields_u'], attrs)
        accs = {'u': acc_u, 'v': acc_v, 'f': facc}
        F, Fi = rec['bil'], rec.get('bil_im')
        S = max(fem.term_scale(F, Bu['sphi'], Bv['sphi'], fs),
                fem.term_scale(Fi, Bu['sphi'], Bv['sphi'], fs) if Fi else 1) * Bu['sdx']
        prm = {k: int(v) for k, v in rec.get('params', {}).items()}
        form = BilinearForm(fem.bilinear_callable(F, accs, nfu, Fi), dtype=dtype)

        def run():
            out = {'A': form.assemble(bu, bv, **dict(kw), **prm)}
            out['coo'] = form.elemental(bu, bv, **dict(kw), **prm) if rec.get('elemental') else None
            out['alts'] = [form.assemble(bu, bv, **dict(k2), **prm) for k2 in _alts_kw(bu, rec['fields_u'], kw)]
            out['pairs'] = []
            fun = Functional(fem.functional_callable(F, {'u': acc_u, 'v': acc_v, 'f': facc}, 'uh', 'vh', Fi), dtype=dtype)
            for (u, v) in rec.get('pairs', []):
                uh = bu.interpolate(np.array(u, dtype=np.float64))
                vh = bv.interpolate(np.array(v, dtype=np.float64))
                out['pairs'].append(fun.assemble(bu, uh=uh, vh=vh, **dict(kw), **prm))
            return out
        out, err = guarded(run, 60)
        for part in parts:
            term = F if part == 're' else Fi
            Sp = fem.term_scale(term, Bu['sphi'], Bv['sphi'], fs) * Bu['sdx']
            ev = {'a': 'Bil', 'err': err, 'Bu': Bu, 'Bv': Bv, 'env': {'fld': fenv, 'prm': prm}, 'F': term, 'S': int(Sp),
                  'exact': 1, 'A': {'shape': [0, 0], 'trip': []}, 'coo': {'shape': [Bv['N'], Bu['N']], 'trip': []},
                  'alts': [], 'pairs': [], 'tags': {'part': part}}
            if not err:
                ok = True
                trip, o = _mat(out['A'], Sp, part)
                ok &= o
                ev['A'] = {'shape': [int(x) for x in out['A'].shape], 'trip': trip}
                if out['coo'] is not None:
                    c = out['coo']
                    vals = _ints(_part(np.asarray(c.data), part), Sp)
                    ok &= vals is not None
                    ev['coo'] = {'shape': [int(x) for x in c.shape],
                                 'trip': [[int(r) + 1, int(cc) + 1, int(x)] for r, cc, x in
                                          zip(c.indices[0], c.indices[1], vals or [0] * len(c.data))]}
                for A2 in out['alts']:
                    trip, o = _mat(A2, Sp, part)
                    ok &= o
                    ev['alts'].append({'shape': [int(x) for x in A2.shape], 'trip': trip})
                for (u, v), s in zip(rec.get('pairs', []), out['pairs']):
                    fem.guard_sum([t[2] for t in ev['A']['trip']], max(map(abs, u), default=0) * max(map(abs, v), default=0))
                    si = _ints(_part(s, part), Sp)
                    ok &= si is not None
                    ev['pairs'].append({'u': [int(x) for x in u], 'v': [int(x) for x in v], 's': int(si or 0)})
                ev['exact'] = 1 if ok else 0
            events.append(ev)

    # ---------------- linear and functional (on the test basis)
    if rec.get('lin'):
        kw, facc, fenv, fs = _env(bv, Bv, rec['fields_v'], attrs)
        accs = {'v': acc_v, 'f': facc}
        F, Fi = rec['lin'], rec.get('lin_im')
        ldtype = np.complex128 if Fi else np.float64
        prm = {k: int(v) for k, v in rec.get('params', {}).items()}
        form = LinearForm(fem.linear_callable(F, accs, Fi), dtype=ldtype)

        def run():
            out = {'b': form.assemble(bv, **dict(kw), **prm)}
            out['coo'] = form.elemental(bv, **dict(kw), **prm) if rec.get('elemental') else None
            out['alts'] = [form.assemble(bv, **dict(k2), **prm) for k2 in _alts_kw(bv, rec['fields_v'], kw)]
            fun = Functional(fem.functional_callable(F, accs, None, 'vh', Fi), dtype=ldtype)
            out['pairs'] = [fun.assemble(bv, vh=bv.interpolate(np.array(v, dtype=np.float64)), **dict(kw), **prm)
                            for v in rec.get('lpairs', [])]
            return out
        out, err = guarded(run, 60)
        for part in (('re', 'im') if Fi else ('re',)):
            term = F if part == 're' else Fi
            S = fem.term_scale(term, 1, Bv['sphi'], fs) * Bv['sdx']
            ev = {'a': 'Lin', 'err': err, 'Bv': Bv, 'env': {'fld': fenv, 'prm': prm}, 'F': term, 'S': int(S), 'exact': 1,
                  'b': [], 'coo': [], 'alts': [], 'pairs': [], 'tags': {'part': part}}
            if not err:
                ok = True
                b = _ints(_part(out['b'], part), S)
                ok &= b is not None
                ev['b'] = b or []
                if out['coo'] is not None:
                    c = out['coo']
                    vals = _ints(_part(np.asarray(c.data), part), S)
                    ok &= vals is not None
                    ev['coo'] = [[int(r) + 1, int(x)] for r, x in zip(c.indices[0], vals or [0] * len(c.data))]
                for b2 in out['alts']:
                    bi = _ints(_part(b2, part), S)
                    ok &= bi is not None
                    ev['alts'].append(bi or [])
                for v, s in zip(rec.get('lpairs', []), out['pairs']):
                    fem.guard_sum(ev['b'], max(map(abs, v), default=0))
                    si = _ints(_part(s, part), S)
                    ok &= si is not None
                    ev['pairs'].append({'v': [int(x) for x in v], 's': int(si or 0)})
                ev['exact'] = 1 if ok else 0
            events.append(ev)

    if rec.get('fun'):
        kw, facc, fenv, fs = _env(bv, Bv, rec['fields_v'], attrs)
        accs = {'f': facc}
        F = rec['fun']
        S = fem.term_scale(F, 1, 1, fs) * Bv['sdx']
        prm = {k: int(v) for k, v in rec.get('params', {}).items()}
        form = Functional(fem.functional_callable(F, accs))

        def run():
            return {'s': form.assemble(bv, **dict(kw), **prm), 'el': form.elemental(bv, **dict(kw), **prm),
                    'alts': [form.assemble(bv, **dict(k2), **prm) for k2 in _alts_kw(bv, rec['fields_v'], kw)]}
        out, err = guarded(run, 60)
        ev = {'a': 'Fun', 'err': err, 'B': Bv, 'env': {'fld': fenv, 'prm': prm}, 'F': F, 'S': int(S), 'exact': 1,
              's': 0, 'el': [], 'alts': []}
        if not err:
            s, el = _ints(out['s'], S), _ints(np.asarray(out['el']), S)
            alts = [_ints(a, S) for a in out['alts']]
            ok = s is not None and el is not None and all(a is not None for a in alts) and np.ndim(out['el']) == 1
            ev.update(s=int(s or 0), el=el if ok else [], alts=[int(a or 0) for a in alts], exact=1 if ok else 0)
        events.append(ev)

    # ---------------- interpolate
    for which, basis, Bpi, acc in (('u', bu, Bu, acc_u), ('v', bv, Bv, acc_v)):
        for w in rec.get('interp_' + which, []):
            wre = np.array(w['re'], dtype=np.float64)
            warr = wre + 1j * np.array(w['im'], dtype=np.float64) if 'im' in w else wre
            out, err = guarded(lambda: basis.interpolate(warr), 30)
            for part in (('re', 'im') if 'im' in w else ('re',)):
                ev = {'a': 'Interp', 'err': err, 'B': Bpi, 'w': [int(x) for x in w[part]], 'exact': 1, 'out': [],
                      'tags': {'part': part}}
                if not err:
                    tabs = []
                    ok = True
                    try:
                        for ac in acc:
                            a = np.asarray(fem.comp(out, ac))
                            t = _ints(np.broadcast_to(_part(a, part), (Bpi['nel'], Bpi['nq'])), Bpi['sphi']) \
                                if a.shape == (Bpi['nel'], Bpi['nq']) else None
                            ok &= t is not None
                            tabs.append(t or [])
                    except (IndexError, AttributeError, TypeError):
                        ok, tabs = False, []
                    ev['out'] = tabs
                    ev['exact'] = 1 if ok else 0
                events.append(ev)

    # ---------------- what the restricted bases must be
    for basis, bs, Bpi, acc in ((bu, rec['bu'], Bu, acc_u),) + (((bv, rec['bv'], Bv, acc_v),) if rec.get('bv') else ()):
        if bs['type'] == 'cell' and bs.get('elements') is not None:
            full = fem.make_basis(mesh, kind, dict(bs, elements=None))
            Bf = fem.basis_pi(full, acc)
            if Bf is not None:
                # same scales so that tables are comparable entry by entry
                if Bf['sphi'] != Bpi['sphi'] or Bf['sdx'] != Bpi['sdx']:
                    s1, s2 = max(Bf['sphi'], Bpi['sphi']), max(Bf['sdx'], Bpi['sdx'])
                    Bf, Bs = _rescale(Bf, s1, s2), _rescale(Bpi, s1, s2)
                else:
                    Bs = Bpi
                events.append({'a': 'Subset', 'err': '', 'Bfull': Bf, 'Bsub': Bs,
                               'tind': [int(x) + 1 for x in bs['elements']]})
        if bs['type'] in ('facet', 'ifacet'):
            find = np.asarray(basis.find)
            ori = getattr(basis.find, 'ori', None)
            ced = np.asarray(basis.dofs.element_dofs)
            events.append({'a': 'Facet', 'err': '', 'side': int(bs.get('side', 0)), 'ncell': int(mesh.t.shape[1]),
                           'fedofs': Bpi['edofs'], 'cedofs': [[int(x) + 1 for x in row] for row in ced],
                           'f2t': [[int(mesh.f2t[0, f]) + 1, int(mesh.f2t[1, f]) + 1] for f in find],
                           'ori': [] if ori is None else [int(x) for x in ori]})
    return events


def _rescale(B, sphi, sdx):
    a, b = sphi // B['sphi'], sdx // B['sdx']
    return dict(B, sphi=sphi, sdx=sdx,
                phi=[[[[x * a for x in row] for row in tab] for tab in comps] for comps in B['phi']],
                dx=[[x * b for x in row] for row in B['dx']])


# ------------------------------------------------------------------------------------------ exact tier: generation

EXACT_ELEMS = {
    'line': [['e', 'P0'], ['e', 'P1'], ['e', 'P2'], ['e', 'Mini'], ['dg', ['e', 'P1']], ['e', 'P1DG'],
             ['comp', ['e', 'P1'], ['e', 'P0']], ['comp', ['e', 'P2'], ['e', 'P1']]],
    'tri': [['e', 'P0'], ['e', 'P1'], ['e', 'P2'], ['e', 'P1B'], ['e', 'CR'], ['e', 'RT1'], ['e', 'N1'],
            ['dg', ['e', 'P1']], ['dg', ['e', 'P2']], ['e', 'P1DG'], ['vec', ['e', 'P1']], ['vec', ['e', 'P2']],
            ['comp', ['e', 'P2'], ['e', 'P1']], ['comp', ['e', 'P1'], ['e', 'P0']],
            ['comp', ['vec', ['e', 'P1']], ['e', 'P0']], ['comp', ['e', 'RT1'], ['e', 'P0']],
            ['vecn', ['e', 'P1'], 3], ['comp', ['e', 'P1B'], ['e', 'P1']], ['vec', ['dg', ['e', 'P1']]]],
    'quad': [['e', 'P0'], ['e', 'P1'], ['e', 'P2'], ['e', 'S2'], ['dg', ['e', 'P1']], ['e', 'P1DG'],
             ['vec', ['e', 'P1']], ['comp', ['e', 'P2'], ['e', 'P1']], ['comp', ['e', 'P1'], ['e', 'P0']],
             ['e', 'RT1']],
    'tet': [['e', 'P0'], ['e', 'P1'], ['e', 'P2'], ['e', 'CR'], ['dg', ['e', 'P1']], ['vec', ['e', 'P1']],
            ['comp', ['e', 'P1'], ['e', 'P0']], ['e', 'RT1'], ['e', 'N1']],
    'hex': [['e', 'P0'], ['e', 'P1'], ['dg', ['e', 'P1']], ['comp', ['e', 'P1'], ['e', 'P0']]],
}


def _small_vec(rng, n, lo=-1, hi=2):
    return [int(x) for x in rng.integers(lo, hi + 1, size=n)]


def gen_exact(rng, tier):
    """one recipe of the exact universe (the generator builds the bases once to learn their sizes)"""
    kind = str(rng.choice(['line', 'tri', 'tri', 'tri', 'quad', 'quad', 'tet', 'hex']))
    mrec = fem.lattice_mesh(kind, rng)
    mesh = fem.make_mesh(mrec)
    nt = mesh.t.shape[1]
    btype = str(rng.choice(['cell', 'cell', 'cellsub', 'facet', 'facetsub', 'ifacet', 'ifacet'])) if kind != 'line' \
        else str(rng.choice(['cell', 'cell', 'cellsub']))
    grad = int(rng.integers(0, 3) == 0)
    bs = {}
    if btype in ('cell', 'cellsub'):
        bs['type'] = 'cell'
        ref = kind
        if btype == 'cellsub':
            k = int(rng.integers(1, nt + 1))
            bs['elements'] = [int(x) for x in rng.permutation(nt)[:k]]
            if rng.integers(0, 2):
                bs['elements'] = sorted(bs['elements'])
    else:
        ref = fem.FACET_REF[kind]
        which = 'boundary' if btype in ('facet', 'facetsub') else 'interior'
        fac = fem.axis_parallel_facets(mesh, which)
        if not fac:
            return None
        bs['type'] = 'facet' if which == 'boundary' else 'ifacet'
        if btype == 'facetsub' or which == 'interior' or len(fac) != int((mesh.f2t[1] == -1).sum()):
            k = int(rng.integers(1, min(len(fac), 5) + 1))
            bs['facets'] = [int(fac[j]) for j in rng.permutation(len(fac))[:k]]
        bs['side'] = 0
        if 'facets' in bs and rng.integers(0, 3) == 0:
            # oriented facet set: ori[k] tells which of the two cells of facet k is the owner (side 0)
            bs['ori'] = [int(rng.integers(0, 2)) if which == 'interior' else 0 for _ in bs['facets']]
    nq = int(rng.integers(1, 4))
    bs['quad'] = fem.dyadic_quadrature(ref, nq, rng)
    elems = EXACT_ELEMS[kind]
    eu = elems[int(rng.integers(0, len(elems)))]
    ev = elems[int(rng.integers(0, len(elems)))] if rng.integers(0, 3) else eu
    bu_s = dict(bs, elem=eu)
    bv_s = dict(bs, elem=ev)
    if bs['type'] == 'ifacet':
        bu_s['side'] = int(rng.integers(0, 2))
        bv_s['side'] = int(rng.integers(0, 2))
    same = (bu_s == bv_s)
    try:
        bu = fem.make_basis(mesh, kind, bu_s)
        bv = bu if same else fem.make_basis(mesh, kind, bv_s)
    except Exception:
        return None
    attrs = ('value', 'grad') if grad else ('value',)
    ncu, ncv = len(fem.accessors(bu.basis[0], attrs)), len(fem.accessors(bv.basis[0], attrs))
    nel, nqq = int(bu.nelems), int(bu.dx.shape[1])
    if nel == 0:
        return None
    work = bu.Nbfun * bv.Nbfun * nel * nqq
    if work > (4000 if tier == 'quick' else 9000) or bu.N > 60 or bv.N > 60:
        return None
    rec = {'driver': 'exact', 'mesh': mrec, 'bu': bu_s, 'bv': None if same else bv_s, 'grad': grad,
           'params': {'alpha': int(rng.choice([-2, 2, 3]))}}

    def fields_for(basis, nc, dof_ok=True):
        fl = []
        avail = []
        # a DOF-vector keyword is interpolated with the basis of the form; for trial != test the property does not
        # say with which one, so it is only generated when both coincide
        if dof_ok and rng.integers(0, 2):
            fl.append({'name': 'c', 'kind': 'dof', 'vec': _small_vec(rng, basis.N)})
            avail.append(('c', nc))
        if rng.integers(0, 2):
            fl.append({'name': 'g', 'kind': 'val', 'val': [[int(x) for x in row] for row in rng.integers(-2, 4, size=(nel, nqq))]})
            avail.append(('g', 1))
        if rng.integers(0, 2):
            fl.append({'name': 'x', 'kind': 'default'})
            avail.append(('x', mesh.dim()))
        if bs['type'] != 'cell' and rng.integers(0, 2):
            fl.append({'name': 'n', 'kind': 'default'})
            avail.append(('n', mesh.dim()))
        return fl, avail
    rec['fields_u'], av_u = fields_for(bu, ncu, dof_ok=same)
    rec['fields_v'], av_v = fields_for(bv, ncv)
    rec['bil'] = fem.gen_bilinear(rng, ncu, ncv, av_u, ['alpha'])
    if rng.integers(0, 6) == 0:
        rec['bil_im'] = fem.gen_bilinear(rng, ncu, ncv, av_u, ['alpha'], nsum=1)
    rec['lin'] = fem.gen_linear(rng, ncv, av_v, ['alpha'])
    if rng.integers(0, 6) == 0:
        rec['lin_im'] = fem.gen_linear(rng, ncv, av_v, ['alpha'], nsum=1)
    rec['fun'] = fem.gen_functional(rng, av_v, ['alpha'])
    rec['elemental'] = int(work <= 1500 and rng.integers(0, 2) == 1)
    npair = 2 if work <= 2000 else 1
    rec['pairs'] = [[_small_vec(rng, bu.N), _small_vec(rng, bv.N)] for _ in range(npair)]
    rec['lpairs'] = [_small_vec(rng, bv.N)]
    rec['interp_u'] = [{'re': _small_vec(rng, bu.N, -2, 3)}]
    rec['interp_v'] = [{'re': _small_vec(rng, bv.N, -2, 3), 'im': _small_vec(rng, bv.N, -2, 3)}] if rng.integers(0, 3) == 0 else []
    tags = {'kind': kind, 'btype': btype, 'oriented': int('ori' in bs), 'eu': fem.elem_name(eu), 'ev': fem.elem_name(ev), 'tier': 'exact',
            'rect': int(eu != ev), 'grad': grad, 'complex': int('bil_im' in rec or 'lin_im' in rec)}
    return rec, tags


# ------------------------------------------------------------------------------------------ interpreter cross-check

PRIMES = [2, 3, 5, 7, 11, 13, 17, 19, 23, 29, 31, 37, 41, 43, 47, 53, 59, 61, 67, 71, 73, 79, 83, 89, 97, 101]


def exec_chk(rec):
    """run the generated callable on an identity basis of distinct integers"""
    from skfem.element import DiscreteField
    nq = rec['nq']
    ncu, ncv, ncf = rec['ncu'], rec['ncv'], rec['ncf']
    tab = lambda off, nc: np.array([[[PRIMES[(off + c * nq + q) % len(PRIMES)] * (1 if (c + q) % 3 else -1)
                                      for q in range(nq)]] for c in range(nc)], dtype=np.float64)
    Uv, Vv, Fv = tab(0, ncu), tab(7, ncv), tab(13, ncf)
    Uf, Vf = (DiscreteField(Uv),), (DiscreteField(Vv),)
    w = {'c': DiscreteField(Fv), 'alpha': rec['alpha']}
    accs = {'u': fem.accessors(Uf), 'v': fem.accessors(Vf), 'f': {'c': fem.accessors(w['c'])}}
    out = np.broadcast_to(fem.ev_term(rec['F'], Uf, Vf, w, accs), (1, nq))
    ints = lambda a: np.asarray(a).astype(np.int64).tolist()
    return [{'a': 'Chk', 'err': '', 'F': rec['F'], 'U': ints(Uv), 'V': ints(Vv),
             'env': {'fld': {'c': {'nc': ncf, 'val': ints(Fv)}}, 'prm': {'alpha': rec['alpha']}},
             'out': ints(out[0])}]


def gen_chk(rng):
    ncu, ncv, ncf = int(rng.integers(1, 4)), int(rng.integers(1, 4)), int(rng.integers(1, 3))
    F = fem.gen_bilinear(rng, ncu, ncv, [('c', ncf)], ['alpha'])
    return {'driver': 'chk', 'F': F, 'ncu': ncu, 'ncv': ncv, 'ncf': ncf, 'nq': 2, 'alpha': int(rng.choice([-2, 3]))}


# ------------------------------------------------------------------------------------------ driver plumbing

def execute(rec):
    if rec['driver'] == 'exact':
        return exec_exact(rec)
    if rec['driver'] == 'chk':
        return exec_chk(rec)
    if rec['driver'] == 'law':
        from . import c01_law
        return c01_law.exec_law(rec)
    raise MachineryError(f'unknown driver {rec["driver"]}')


def scenario(sid, rec, tags):
    try:
        events = execute(rec)
    except (Skip, fem.TooLarge):
        events = []
    except Malformed as exc:
        events = [{'a': 'Fun', 'err': 'Malformed: ' + str(exc)[:120]}]
    return {'id': sid, 'recipe': rec, 'tags': tags, 'events': events}


def model(ctx):
    thorough = ctx.tier == 'thorough'
    env = {'MC_TIER': ctx.tier, 'MC_MUT': 'none'}
    ctx.model_must_hold('MC_C01', 'MC_C01.cfg', env=env, timeout=3000 if thorough else 600,
                        workers=12 if thorough else 8, xmx='6g')
    # the clauses must reject seeded deviations of the transcription (evidence about the specification, not a verdict)
    rejected = {}
    for mut in ('swap', 'stride', 'flatF'):
        r = ctx.tlc_model('MC_C01', 'MC_C01.cfg', env={'MC_TIER': 'quick', 'MC_MUT': mut}, timeout=600, workers=4, xmx='6g',
                          label=f'seeded model deviation {mut} (violation expected)')
        rejected[mut] = bool(r['violated'])
    ctx.notes['model_deviations_rejected'] = rejected


def generate(ctx):
    thorough = ctx.tier == 'thorough'
    out = []
    n_exact = 9000 if thorough else 520
    rng = np.random.default_rng(ctx.seed + 101)
    k = 0
    tries = 0
    while k < n_exact and tries < 3 * n_exact:
        tries += 1
        g = gen_exact(rng, ctx.tier)
        if g is None:
            continue
        out.append((f'C01-exact-{k}', g[0], g[1]))
        k += 1
    rng = np.random.default_rng(ctx.seed + 102)
    for k in range(200 if thorough else 30):
        out.append((f'C01-chk-{k}', gen_chk(rng), {'tier': 'chk'}))
    from . import c01_law
    out += c01_law.generate(ctx)
    return out


def run(ctx):
    import threading
    box = {}

    def bg():
        try:
            model(ctx)
        except BaseException as exc:      # re-raised in the main thread
            box['exc'] = exc
    th = threading.Thread(target=bg)
    th.start()                              # TLC explores the model while the real code is being driven
    try:
        recs = generate(ctx)
        scs = [scenario(sid, rec, tags) for sid, rec, tags in recs]
    finally:
        th.join()
    if 'exc' in box:
        raise box['exc']
    ctx.notes['skipped_outside_exact_universe'] = sum(1 for s in scs if not s['events'])
    ctx.validate('TraceC01', scs, jvms=8)
    keys = {json.dumps([s['tags'].get(k) for k in ('kind', 'btype', 'eu', 'ev', 'tier', 'family')] +
                       [s['recipe'].get('bil'), s['recipe'].get('form')], sort_keys=True)
            for s in scs if s['events']}
    ctx.notes['distinct_nontrivial'] = len(keys)
    from . import c01_law
    ctx.notes['law_tier_calibration'] = c01_law.calibration(scs)
    ctx.notes['tolerances'] = {'TolSum': '2^-40 * (floor(|v|^T |A| |u|) + 1)'}
    return ctx.finish(rule=RULE, assumptions=[
        'exact tier: basis values, weights and coefficients are dyadic, so float64 assembly is exact; pi asserts this '
        '(EntriesIntegral) instead of rounding',
        'law tier: both sides are float results of the code; a defect common to assembly and interpolate+Functional '
        '(e.g. wrong basis values) is out of the scope of C01 (see C03/C09/C10)',
        'a DOF-vector keyword is only used when trial and test basis coincide',
        'threaded kernels (nthreads > 0) are the subject of C16 and not exercised here',
        'TLC 1.8.0 and the CommunityModules Json module are trusted'], exhaustive=False)


def replay(ctx, doc):
    sc = doc['scenario']
    if sc.get('recipe', {}).get('driver') == 'model':
        ctx.model_must_hold('MC_C01', 'MC_C01.cfg', env={'MC_TIER': ctx.tier, 'MC_MUT': 'none'}, timeout=1800, workers=8, xmx='6g')
        return ctx.finish(rule=RULE)
    sc2 = scenario(sc['id'], sc['recipe'], sc.get('tags', {}))
    ctx.validate('TraceC01', [sc2], jvms=8)
    return ctx.finish(rule=RULE)
