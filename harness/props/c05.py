"""C05 - essential boundary conditions: condense, enforce, penalize, expansion (skfem/utils.py).

M : spec/MC_C05.cfg     - every stored pattern of n x n matrices (n <= 3), every ordered constrained set, both ways
                          of giving the split: transcriptions of enforce/condense/penalize/expand satisfy the clauses.
    spec/MC_C05_old.cfg - the pre-repair enforce index formula is REFUTED by TLC (regression model, sensitivity check).
V : real calls on integer systems (exact universe): all call forms (I or D; ndarray / DofsView / dict of views),
    vector and matrix right-hand sides, x given or not, overwrite on/off, rows without stored entries, explicit zeros,
    unsorted column indices; pipelines solve(*condense(..)) with stub solvers (exact) and with the real solver (mode L).
"""
import json
import os
import warnings

import numpy as np

from ..core import guarded, MachineryError
from ..project import exact_ints, fx

RULE = ('scenario = one integer sparse system (A, b or mass matrix, x), one ordered constrained set and one call form; '
        'events = the calls of enforce / condense (+ stub-solver expansion) / penalize / solve_eigen / mpc / real '
        'solves on it. Non-trivial = n >= 2 and 0 < |D| < n; distinct = distinct (A, D, form) triples.')

EMPTY_MAT = {'n': 0, 'm': 0, 'ptr': [0], 'idx': [], 'dat': []}


# ---------------------------------------------------------------- projection of sparse matrices
def mat(A):
    """CSR triple exactly as stored (no sorting, no summing); entries must be integers."""
    from scipy.sparse import csr_matrix
    A = csr_matrix(A) if not hasattr(A, 'indptr') or A.format != 'csr' else A
    if A.data.dtype.kind == 'c':
        if np.any(A.data.imag != 0):
            return None                           # matrices of the scenarios are real: an imaginary part is inexact
        A = A.real.tocsr()
    dat = exact_ints(np.asarray(A.data, dtype=np.float64))
    if dat is None:
        return None
    return {'n': int(A.shape[0]), 'm': int(A.shape[1]), 'ptr': [int(v) for v in A.indptr],
            'idx': [int(v) + 1 for v in A.indices], 'dat': dat}


def cks(*objs):
    """Checksums (strings) of the arrays that constitute operands: bit-for-bit identity is decided by TLC on these."""
    import hashlib
    out = []
    for o in objs:
        h = hashlib.sha1()
        if o is None:
            out.append('none')
            continue
        if hasattr(o, 'indptr'):
            arrs = [o.data, o.indices, o.indptr]
        elif hasattr(o, 'tocsr'):                       # other sparse formats: value-level identity
            c = o.tocsr()
            arrs = [c.data, c.indices, c.indptr]
        else:
            arrs = [np.asarray(o)]
        for a in arrs:
            a = np.ascontiguousarray(a)
            h.update(str(a.shape).encode() + a.dtype.str.encode() + a.tobytes())
        out.append(h.hexdigest()[:16])
    return out


PART = ['re']          # complex scenarios are validated part by part (the helpers are real-linear for a real matrix)


SCALE = [1]            # dtype-grid scenarios carry half-integers: every logged vector is doubled (the clauses are linear)


def vec(v):
    v = np.asarray(v)
    if SCALE[0] != 1:
        v = v * SCALE[0]
    if isinstance(PART[0], tuple):                      # several right-hand sides: validated column by column
        if v.ndim == 2:
            v = v[:, PART[0][1]]
    elif v.dtype.kind == 'c':
        v = v.real if PART[0] == 're' else v.imag
    return exact_ints(np.asarray(v, dtype=np.float64).ravel())


def one_based(ix):
    return [int(v) + 1 for v in np.asarray(ix).ravel()]


# ---------------------------------------------------------------- recipes -> real objects
def build_matrix(rec):
    from scipy.sparse import csr_matrix
    n = rec['n']
    A = csr_matrix((np.array(rec['dat'], dtype=np.float64), np.array(rec['idx'], dtype=np.int32),
                    np.array(rec['ptr'], dtype=np.int32)), shape=(n, rec.get('m', n)))
    return A


BASES = {}


def get_basis(name):
    import skfem as fem
    if name not in BASES:
        if name == 'tri1':
            BASES[name] = fem.Basis(fem.MeshTri().refined(1).with_defaults(), fem.ElementTriP1())
        elif name == 'line2':
            BASES[name] = fem.Basis(fem.MeshLine(np.linspace(0, 1, 4)).with_boundaries(
                {'left': lambda x: x[0] == 0, 'right': lambda x: x[0] == 1}), fem.ElementLineP2())
        elif name == 'quad1':
            BASES[name] = fem.Basis(fem.MeshQuad().refined(1).with_defaults(), fem.ElementQuad1())
    return BASES[name]


def split_object(rec, n):
    """The object handed to the library as I= or D= and the ground-truth constrained index list (0-based)."""
    form = rec['form']
    if form in ('D-array', 'I-array', 'D-list-int64'):
        D = np.array(rec['D'], dtype=np.int64 if form == 'D-list-int64' else np.int32)
        if form == 'I-array':
            I = np.array(rec['I'], dtype=np.int32)
            return {'I': I}, D
        return {'D': D}, D
    basis = get_basis(rec['basis'])
    if form == 'D-view':
        view = basis.get_dofs(rec['tag'])
        return {'D': view}, view.flatten()
    if form == 'I-view':
        view = basis.get_dofs(rec['tag'])
        return {'I': view}, np.setdiff1d(np.arange(n), view.flatten())
    if form == 'D-dict':
        d = {k: basis.get_dofs(k) for k in rec['tags']}
        return {'D': d}, np.unique(np.concatenate([v.flatten() for v in d.values()]))
    raise MachineryError('unknown form ' + form)


def execute(rec):
    if rec.get('half'):
        SCALE[0] = 2
        try:
            evs = execute_part(rec)
        finally:
            SCALE[0] = 1
        for ev in evs:
            ev['tags'] = {'part': f"dtypes x:{rec.get('xdt')} b:{rec.get('bdt')}"}
        return evs
    if rec.get('ncol'):
        out = []
        for j in range(rec['ncol']):
            PART[0] = ('col', j)
            try:
                evs = execute_part(rec)
            finally:
                PART[0] = 're'
            for ev in evs:
                ev['tags'] = {'part': f'col{j}'}
            out += evs
        return out
    if rec.get('cplx'):
        out = []
        for part in ('re', 'im'):
            PART[0] = part
            try:
                evs = execute_part(rec)
            finally:
                PART[0] = 're'
            for ev in evs:
                ev['tags'] = {'part': part}
            out += evs
        return out
    return execute_part(rec)


def execute_part(rec):
    import skfem.utils as su
    warnings.simplefilter('ignore')
    n = rec['n']
    events = []
    hasb, hasx = rec['hasb'], rec['hasx']

    fmt = rec.get('fmt', 'csr')

    def fresh():
        A = build_matrix(rec['A'])
        if fmt != 'csr':
            A = getattr(A, 'to' + fmt)()            # the same system in another storage format
        b = None
        if hasb == 1:
            b = np.array(rec['b'], dtype=np.float64)
        elif hasb == 2:
            b = build_matrix(rec['B'])
            if fmt != 'csr':
                b = getattr(b, 'to' + fmt)()
        x = np.array(rec['x'], dtype=np.float64) if hasx else None
        if rec.get('half'):
            # operands of other dtypes: integer arrays hold the recipe's integers, floating ones half of them (so that a
            # result forced into an integer array shows); everything logged is doubled
            if x is not None:
                x = x.astype(np.int64) if rec['xdt'] == 'int64' else (x / 2).astype(rec['xdt'])
            if hasb == 1:
                b = b.astype(np.int64) if rec['bdt'] == 'int64' else (b / 2).astype(rec['bdt'])
        if rec.get('ncol'):
            # several right-hand sides / sets of prescribed values at once: (n, k) arrays
            b = np.array(rec['bcols'], dtype=np.float64).T.copy()
            x = np.array(rec['xcols'], dtype=np.float64).T.copy()
        if rec.get('cplx'):
            if x is not None:
                x = x + 1j * np.array(rec['xi'], dtype=np.float64)
            if hasb == 1:
                b = b + 1j * np.array(rec['bi'], dtype=np.float64)
        kw, D0 = split_object(rec, n)
        return A, b, x, kw, D0

    def index_arrays(kw):
        # the index arrays exactly as the caller hands them over (plain arrays only; views / dicts are library objects)
        return [v for k, v in sorted(kw.items()) if k in ('D', 'I') and isinstance(v, np.ndarray)]

    def base(a, A, b, x, D0, kw=None):
        ev = {'a': a, 'n': n, 'A': mat(A), 'hasb': hasb, 'hasx': hasx, 'err': '', 'exact': 1,
              'b': ([] if b is None else (vec(b) if hasb == 1 else mat(b))),
              'x': ([] if x is None else vec(x)), 'D': one_based(D0), 'ov': 0, 'diag': 1,
              'ck': cks(A, b, x), 'ck2': [], 'ck3': []}
        ev['ck4'] = ev['ck']
        ev['ckix'] = cks(*index_arrays(kw)) if kw else []
        ev['ckix2'] = ev['ckix']
        return ev

    def after(ev, A, b, x, kw=None):
        ev['ck2'] = cks(A, b, x)
        if kw:
            ev['ckix2'] = cks(*index_arrays(kw))

    def independent(ev, A, b, x, *results):
        """Writes into the RESULTS in place; the operands must not notice (a result that aliases an operand would)."""
        try:
            for r in results:
                if r is None:
                    continue
                if isinstance(r, np.ndarray):
                    if r.flags.writeable and r.size:
                        r += 1
                elif hasattr(r, 'data') and isinstance(r.data, np.ndarray) and r.data.size:
                    r.data += 1                    # values only: index arrays are not something a caller edits by hand
        except Exception:
            pass
        ev['ck4'] = cks(A, b, x)

    def setexact(ev, *vals):
        if any(v is None for v in vals):
            ev['exact'] = 0

    # ---- enforce
    for ov in ((0, 1) if rec.get('both_ov', True) else (0,)):
        A, b, x, kw, D0 = fresh()
        ev = base('Enforce', A, b, x, D0, kw)
        ev['ov'] = ov
        ev['diag'] = rec.get('diag', 1)
        args = dict(kw, diag=float(ev['diag']), overwrite=bool(ov))
        if x is not None:
            args['x'] = x
        res, err = guarded(lambda: su.enforce(A, b, **args))
        ev['err'] = err
        ev['Ao'], ev['bo'] = EMPTY_MAT, []
        if not err:
            if isinstance(res, tuple):
                Ao, bo = res
                ev['Ao'] = mat(Ao)
                ev['bo'] = mat(bo) if hasb == 2 else vec(bo)
            else:
                ev['Ao'] = mat(res)
            setexact(ev, ev['Ao'], ev['bo'])
            if ev['exact'] == 0:
                ev['Ao'], ev['bo'] = EMPTY_MAT, []
        after(ev, A, b, x, kw)
        if not err and not ov:
            independent(ev, A, b, x, *(res if isinstance(res, tuple) else (res,)))
        events.append(ev)

    # ---- condense (+ pipeline with a stub solver)
    for expand in (1, 0):
        A, b, x, kw, D0 = fresh()
        ev = base('Condense', A, b, x, D0, kw)
        # the kept index sequence as the caller knows it: the given I, else the increasing complement
        I0 = kw['I'] if ('I' in kw and isinstance(kw['I'], np.ndarray)) else np.setdiff1d(np.arange(n), D0)
        ev.update(expand=expand, piped=0, AII=EMPTY_MAT, bI=[], xr=[], Ir=[], z=[], y=[], I0=one_based(I0))
        args = dict(kw, expand=bool(expand))
        if x is not None:
            args['x'] = x
        res, err = guarded(lambda: su.condense(A, b, **args))
        ev['err'] = err
        if not err:
            if not isinstance(res, tuple):
                res = (res,)
            res = list(res)
            results_ = list(res)
            ev['AII'] = mat(res.pop(0))
            if hasb or hasx:
                bI = res.pop(0)
                ev['bI'] = mat(bI) if hasb == 2 else vec(bI)
            if expand:
                xr, Ir = res
                ev['xr'] = vec(xr)
                ev['Ir'] = one_based(Ir)
                if hasb != 2 and (hasb or hasx):
                    # pipeline: solve(*condense(..)) with a stub solver returning integers
                    z = np.array([(5 * r + 1) % 17 - 8 for r in range(len(Ir))], dtype=np.float64)
                    if rec.get('cplx'):
                        z = z + 1j * np.array([(3 * r + 2) % 11 - 5 for r in range(len(Ir))], dtype=np.float64)
                    if rec.get('ncol'):
                        z = np.stack([(c + 1) * z + c for c in range(rec['ncol'])], axis=1)
                    if rec.get('half'):
                        z = z + 0.5                                   # a solution that no integer array can hold
                    A_, b_, x_, kw_, _ = fresh()
                    args2 = dict(kw_)
                    if x_ is not None:
                        args2['x'] = x_
                    y, err2 = guarded(lambda: su.solve(*su.condense(A_, b_, **args2), solver=lambda K, f: z.copy()))
                    if err2:
                        ev['err'] = err2
                    else:
                        ev['piped'] = 1
                        ev['z'] = vec(z)
                        ev['y'] = vec(y)
                        # operands of the pipeline after solve(): the prescribed values and the system
                        ev['ck3'] = cks(A_, b_, x_)
            setexact(ev, ev['AII'], ev['bI'], ev['xr'], ev['y'])
            if ev['exact'] == 0:
                ev.update(AII=EMPTY_MAT, bI=[], xr=[], y=[])
        after(ev, A, b, x, kw)
        if not err:
            # only the reduced system is new; x and I are handed through by design (they are arguments of solve())
            independent(ev, A, b, x, *results_[:2 if (hasb or hasx) else 1])
        events.append(ev)

    # ---- penalize with explicit power-of-two epsilon
    A, b, x, kw, D0 = fresh()
    ev = base('Penalize', A, b, x, D0, kw)
    ie = 2 ** rec.get('ie_pow', 10)
    ev.update(ie=ie, Ao=EMPTY_MAT, bo=[])
    args = dict(kw, epsilon=1.0 / ie)
    if x is not None:
        args['x'] = x
    res, err = guarded(lambda: su.penalize(A, b, **args))
    ev['err'] = err
    if not err:
        if isinstance(res, tuple):
            ev['Ao'] = mat(res[0])
            ev['bo'] = mat(res[1]) if hasb == 2 else vec(res[1])
        else:
            ev['Ao'] = mat(res)
        setexact(ev, ev['Ao'], ev['bo'])
        if ev['exact'] == 0:
            ev['Ao'], ev['bo'] = EMPTY_MAT, []
    after(ev, A, b, x, kw)
    if not err:
        independent(ev, A, b, x, *(res if isinstance(res, tuple) else (res,)))
    events.append(ev)

    # ---- eigen expansion with a stub eigen-solver
    if hasb == 2:
        A, b, x, kw, D0 = fresh()
        ev = base('Eigen', A, b, x, D0)
        k = 2
        args = dict(kw)
        if x is not None:
            args['x'] = x

        def call():
            K, M, xr, Ir = su.condense(A, b, **args)
            X = np.array([[(3 * r + 7 * c) % 11 - 5 for c in range(k)] for r in range(len(Ir))],
                         dtype=np.float64).reshape(len(Ir), k)
            L, Y = su.solve(K, M, xr, Ir, solver=lambda K_, M_: (np.arange(k, dtype=float), X.copy()))
            return X, Y, Ir
        res, err = guarded(call)
        ev['err'] = err
        after(ev, A, b, x)
        ev.update(k=k, X=[], Y=[], Ir=[])
        if not err:
            X, Y, Ir = res
            ev['X'] = exact_ints(X.reshape(len(Ir), k)) if len(Ir) else []
            ev['Y'] = exact_ints(np.asarray(Y).reshape(n, k))
            ev['Ir'] = one_based(Ir)
            setexact(ev, ev['X'], ev['Y'])
            if ev['exact'] == 0:
                ev.update(X=[], Y=[])
        events.append(ev)

    # ---- real solver pipelines (mode L) on systems with known integer solution
    if rec.get('ytrue') is not None and hasb == 1 and hasx:
        for method in ('condense', 'enforce', 'penalize', 'penalize-default'):
            A, b, x, kw, D0 = fresh()
            ev = base('Solve', A, b, x, D0)
            ev.update(method=method, ytrue=rec['ytrue'], y=[])

            def call():
                if method == 'condense':
                    return su.solve(*su.condense(A, b, x=x, **kw))
                if method == 'enforce':
                    return su.solve(*su.enforce(A, b, x=x, **kw))
                if method == 'penalize-default':
                    return su.solve(*su.penalize(A, b, x=x, **kw))          # the library's own choice of penalty
                return su.solve(*su.penalize(A, b, x=x, epsilon=2.0**-30, **kw))
            y, err = guarded(call)
            ev['err'] = err
            after(ev, A, b, x)
            if not err:
                enc = [fx(v) for v in np.asarray(y).ravel()]
                if any(v is None for v in enc):
                    ev['err'] = 'NonFinite'
                else:
                    ev['y'] = enc
            events.append(ev)

    # ---- mpc
    if rec.get('mpc') is not None and hasb == 1 and not rec.get('cplx'):   # affine constant g is real: not part-wise
        mp = rec['mpc']
        A, b, x, kw, D0 = fresh()
        ev = base('Mpc', A, b, None, np.array([], dtype=int))
        ev['hasx'] = 0
        ev['x'] = []
        S, M = np.array(mp['S'], dtype=np.int32), np.array(mp['M'], dtype=np.int32)
        T = np.array(mp['T'], dtype=np.float64).reshape(len(S), len(M))
        g = np.array(mp['g'], dtype=np.float64)
        U = np.setdiff1d(np.arange(n), np.concatenate((M, S)))
        z = np.array([(4 * r + 3) % 13 - 6 for r in range(len(U) + len(M))], dtype=np.float64)
        from scipy.sparse import csr_matrix

        def call():
            B, yv, xz, Iexp = su.mpc(A, b, S=S, M=M, T=csr_matrix(T), g=g)
            y = su.solve(B, yv, xz, Iexp, solver=lambda K, f: z.copy())
            return B, yv, y
        res, err = guarded(call)
        ev['err'] = err
        ev.update(S=one_based(S), M=one_based(M), U=one_based(U), T=exact_ints(T) if T.size else [[] for _ in S],
                  g=vec(g), z=vec(z), B=EMPTY_MAT, yv=[], y=[])
        if not err:
            B, yv, y = res
            ev.update(B=mat(B), yv=vec(yv), y=vec(y))
            setexact(ev, ev['B'], ev['yv'], ev['y'])
            if ev['exact'] == 0:
                ev.update(B=EMPTY_MAT, yv=[], y=[])
        events.append(ev)
    return events


# ---------------------------------------------------------------- scenario generation
def rand_matrix(rng, n, m=None, density=None, allow_zero=True, unsorted=True, dups=False):
    m = m or n
    density = rng.choice([0.15, 0.3, 0.5, 0.8]) if density is None else density
    ptr, idx, dat = [0], [], []
    for i in range(n):
        cols = [j for j in range(m) if rng.random() < density]
        if rng.random() < 0.2:
            cols = []                                  # row with no stored entry
        if unsorted and rng.random() < 0.3:
            cols = list(rng.permutation(cols))
        if dups and cols and rng.random() < 0.35:
            # non-canonical storage: an entry stored twice (their values add up), as row-by-row assembly produces
            cols = cols + [cols[int(rng.integers(len(cols)))]]
        for j in cols:
            v = int(rng.integers(-4, 5))
            if v == 0 and not (allow_zero and rng.random() < 0.5):
                v = 3
            idx.append(int(j))
            dat.append(v)
        ptr.append(len(idx))
    return {'n': n, 'm': m, 'ptr': ptr, 'idx': idx, 'dat': dat}


def dominant_system(rng, n):
    """Strictly diagonally dominant integer matrix (all rows), integer solution."""
    M = np.zeros((n, n), dtype=int)
    for i in range(n):
        for j in range(n):
            if i != j and rng.random() < 0.5:
                M[i, j] = int(rng.integers(-3, 4))
        M[i, i] = int(np.abs(M[i]).sum() + rng.integers(1, 4)) * (1 if rng.random() < 0.8 else -1)
    ptr, idx, dat = [0], [], []
    for i in range(n):
        for j in range(n):
            if M[i, j] != 0:
                idx.append(j)
                dat.append(int(M[i, j]))
        ptr.append(len(idx))
    ytrue = [int(v) for v in rng.integers(-6, 7, size=n)]
    b = [int(v) for v in M @ np.array(ytrue)]
    return {'n': n, 'm': n, 'ptr': ptr, 'idx': idx, 'dat': dat}, b, ytrue


def generate(tier, seed):
    rng = np.random.default_rng(seed + 5)
    recs = []
    nrand = 6000 if tier == 'thorough' else 150
    for k in range(nrand):
        n = int(rng.integers(1, 9))
        A = rand_matrix(rng, n)
        nd = int(rng.integers(0, n + 1))
        D = [int(v) for v in rng.permutation(n)[:nd]]
        I = [int(v) for v in rng.permutation(np.setdiff1d(np.arange(n), D))]
        form = ['D-array', 'I-array', 'D-list-int64'][k % 3]
        hasb = int(rng.choice([0, 1, 1, 2]))
        hasx = int(rng.random() < 0.7)
        rec = {'driver': 'bc', 'n': n, 'A': A, 'hasb': hasb, 'hasx': hasx, 'form': form, 'D': D, 'I': I,
               'b': [int(v) for v in rng.integers(-5, 6, size=n)],
               'x': [int(v) for v in rng.integers(-5, 6, size=n)],
               'diag': int(rng.choice([1, 1, 2, 5])), 'ie_pow': int(rng.choice([8, 10, 16]))}
        if hasb == 2:
            rec['B'] = rand_matrix(rng, n)
        if hasb == 1 and n >= 3 and rng.random() < 0.4:
            perm = rng.permutation(n)
            ns = int(rng.integers(1, max(2, n // 2)))
            nm = int(rng.integers(1, max(2, n // 2)))
            S, M = perm[:ns], perm[ns:ns + nm]
            rec['mpc'] = {'S': [int(v) for v in S], 'M': [int(v) for v in M],
                          'T': [[int(v) for v in row] for row in rng.integers(-2, 3, size=(ns, nm))],
                          'g': [int(v) for v in rng.integers(-3, 4, size=ns)]}
        if k % 4 == 3:
            rec['fmt'] = ['csc', 'lil'][(k // 4) % 2]     # other storage formats that support indexing
        if k % 5 == 2 and hasb != 2:
            # complex prescribed values / right-hand side with a REAL matrix (validated part by part)
            rec['cplx'] = 1
            rec['xi'] = [int(v) for v in rng.integers(-5, 6, size=n)]
            rec['bi'] = [int(v) for v in rng.integers(-5, 6, size=n)]
        recs.append(rec)
    # every combination of (x absent / real / complex) x (b real / complex) with a real matrix, independent of the seed
    for hasx, xc, bc in ((0, 0, 1), (1, 0, 1), (1, 1, 0), (1, 1, 1)):
        for j in range(6 if tier == 'thorough' else 3):
            n = int(rng.integers(2, 8))
            nd = int(rng.integers(0, n))
            D = [int(v) for v in rng.permutation(n)[:nd]]
            I = [int(v) for v in rng.permutation(np.setdiff1d(np.arange(n), D))]
            recs.append({'driver': 'bc', 'n': n, 'A': rand_matrix(rng, n), 'hasb': 1, 'hasx': hasx,
                         'form': ['D-array', 'I-array', 'D-list-int64'][j % 3], 'D': D, 'I': I,
                         'b': [int(v) for v in rng.integers(-5, 6, size=n)],
                         'x': [int(v) for v in rng.integers(-5, 6, size=n)], 'diag': 1, 'ie_pow': 10, 'cplx': 1,
                         'xi': [int(v) * xc for v in rng.integers(1, 6, size=n)],
                         'bi': [int(v) * bc for v in rng.integers(1, 6, size=n)]})
    # non-canonical matrices: entries stored twice (row-by-row assembly, concatenated COO blocks converted without summing)
    for j in range(80 if tier == 'thorough' else 16):
        n = int(rng.integers(2, 8))
        nd = int(rng.integers(0, n + 1))
        D = [int(v) for v in rng.permutation(n)[:nd]]
        I = [int(v) for v in rng.permutation(np.setdiff1d(np.arange(n), D))]
        hasb = int(rng.choice([1, 1, 2]))
        rec = {'driver': 'bc', 'n': n, 'A': rand_matrix(rng, n, dups=True), 'hasb': hasb, 'hasx': int(rng.random() < 0.7),
               'form': ['D-array', 'I-array'][j % 2], 'D': D, 'I': I, 'b': [int(v) for v in rng.integers(-5, 6, size=n)],
               'x': [int(v) for v in rng.integers(-5, 6, size=n)], 'diag': int(rng.choice([1, 2])), 'ie_pow': 10,
               'family': 'stored-twice'}
        if hasb == 2:
            rec['B'] = rand_matrix(rng, n, dups=True)
        recs.append(rec)
    # operands of other dtypes than float64: integer / float32 prescribed values and right-hand sides (half-integer data)
    for xdt in ('int64', 'float32', 'float64'):
        for bdt in ('int64', 'float32', 'float64'):
            for j in range(4 if tier == 'thorough' else 2):
                n = int(rng.integers(2, 8))
                nd = int(rng.integers(1, n))
                D = [int(v) for v in rng.permutation(n)[:nd]]
                I = [int(v) for v in rng.permutation(np.setdiff1d(np.arange(n), D))]
                recs.append({'driver': 'bc', 'n': n, 'A': rand_matrix(rng, n), 'hasb': 1, 'hasx': 1,
                             'form': ['D-array', 'I-array'][j % 2], 'D': D, 'I': I,
                             'b': [int(v) for v in 2 * rng.integers(-3, 4, size=n) + 1],
                             'x': [int(v) for v in 2 * rng.integers(-3, 4, size=n) + 1], 'diag': 1, 'ie_pow': 10,
                             'half': 1, 'xdt': xdt, 'bdt': bdt, 'family': 'dtype-grid',
                             # overwrite=True writes into the caller's own array: an integer b cannot hold half-integers
                             # (the caller's choice of container, not judged)
                             'both_ov': not (bdt == 'int64' and xdt != 'int64')})
    # several right-hand sides and sets of prescribed values at once ((n, k) arrays), validated column by column
    for j in range(60 if tier == 'thorough' else 12):
        n = int(rng.integers(2, 8))
        kcol = int(rng.integers(2, 4))
        nd = int(rng.integers(1, n))
        D = [int(v) for v in rng.permutation(n)[:nd]]
        I = [int(v) for v in rng.permutation(np.setdiff1d(np.arange(n), D))]
        xcols = [[int(v) for v in rng.integers(-5, 6, size=n)] for _ in range(kcol)]
        for i in D[:1]:
            for c in range(kcol):
                xcols[c][i] = int(rng.integers(1, 6))             # a constrained index that is non-zero in every column
        for i in D[1:2]:
            for c in range(kcol):
                xcols[c][i] = 0 if c else 3                       # ... and one that is non-zero in a single column
        bcols = [[int(v) for v in rng.integers(-5, 6, size=n)] for _ in range(kcol)]
        recs.append({'driver': 'bc', 'n': n, 'A': rand_matrix(rng, n), 'hasb': 1, 'hasx': 1,
                     'form': ['D-array', 'I-array', 'D-list-int64'][j % 3], 'D': D, 'I': I, 'b': bcols[0], 'x': xcols[0],
                     'bcols': bcols, 'xcols': xcols, 'ncol': kcol, 'diag': int(rng.choice([1, 2])), 'ie_pow': 10,
                     'family': 'multi-rhs'})
    # systems with known solution -> real solver
    for k in range(200 if tier == 'thorough' else 30):
        n = int(rng.integers(2, 11))
        A, b, ytrue = dominant_system(rng, n)
        nd = int(rng.integers(1, n))
        D = [int(v) for v in rng.permutation(n)[:nd]]
        I = [int(v) for v in rng.permutation(np.setdiff1d(np.arange(n), D))]
        x = [ytrue[i] if i in D else int(rng.integers(-9, 10)) for i in range(n)]   # values off D are ignored
        recs.append({'driver': 'bc', 'n': n, 'A': A, 'hasb': 1, 'hasx': 1, 'form': ['D-array', 'I-array'][k % 2],
                     'D': D, 'I': I, 'b': b, 'x': x, 'ytrue': ytrue, 'diag': 1, 'ie_pow': 10, 'both_ov': False})
    # the same with constrained rows that are NOT dominant: diagonal missing / an explicit zero / no stored entry at all
    # (saddle-point or multiplier rows) next to at least one constrained row with a non-zero diagonal; only the kept
    # block has to be regular.  Driven through every method incl. penalize with its DEFAULT penalty.
    for k in range(120 if tier == 'thorough' else 24):
        n = int(rng.integers(3, 10))
        A, b, ytrue = dominant_system(rng, n)
        nd = int(rng.integers(2, n))
        D = [int(v) for v in rng.permutation(n)[:nd]]
        I = [int(v) for v in rng.permutation(np.setdiff1d(np.arange(n), D))]
        ptr, idx, dat = [0], [], []
        for i in range(n):
            row = list(zip(A['idx'][A['ptr'][i]:A['ptr'][i + 1]], A['dat'][A['ptr'][i]:A['ptr'][i + 1]]))
            if i in D[1:]:
                how = int(rng.integers(0, 4))
                if how == 0:
                    row = [(j, v) for j, v in row if j != i]                 # diagonal not stored
                elif how == 1:
                    row = [(j, 0 if j == i else v) for j, v in row]          # stored as an explicit zero
                elif how == 2:
                    row = []                                                 # no stored entry
            idx += [int(j) for j, _ in row]
            dat += [int(v) for _, v in row]
            ptr.append(len(idx))
        A2 = {'n': n, 'm': n, 'ptr': ptr, 'idx': idx, 'dat': dat}
        x = [ytrue[i] if i in D else int(rng.integers(-9, 10)) for i in range(n)]
        recs.append({'driver': 'bc', 'n': n, 'A': A2, 'hasb': 1, 'hasx': 1, 'form': ['D-array', 'I-array'][k % 2],
                     'D': D, 'I': I, 'b': b, 'x': x, 'ytrue': ytrue, 'diag': 1, 'ie_pow': 10, 'both_ov': False,
                     'family': 'constrained-rows-singular'})
    # DOF views and dictionaries of views
    for bname, tags in (('tri1', ['left', 'right', 'top', 'bottom']), ('line2', ['left', 'right']),
                        ('quad1', ['left', 'right', 'top', 'bottom'])):
        basis_n = {'tri1': 9, 'line2': 7, 'quad1': 9}[bname]
        for rep in range(6 if tier == 'thorough' else 2):
            for form in ('D-view', 'I-view', 'D-dict'):
                A = rand_matrix(rng, basis_n)
                hasb = int(rng.choice([1, 2]))
                rec = {'driver': 'bc', 'n': basis_n, 'A': A, 'hasb': hasb, 'hasx': 1, 'form': form, 'basis': bname,
                       'tag': str(rng.choice(tags)), 'tags': [str(t) for t in rng.permutation(tags)[:2]],
                       'b': [int(v) for v in rng.integers(-5, 6, size=basis_n)],
                       'x': [int(v) for v in rng.integers(-5, 6, size=basis_n)], 'diag': 1, 'ie_pow': 10}
                if hasb == 2:
                    rec['B'] = rand_matrix(rng, basis_n)
                recs.append(rec)
    return recs


def from_tlc(path):
    """Scenarios exported by MC_C05 (the small universe) for replay on the real code."""
    recs = []
    for s in json.load(open(path)):
        A = s['A']
        n = A['n']
        D = [v - 1 for v in s['D']]
        I = [v - 1 for v in s['I']]
        recs.append({'driver': 'bc', 'n': n, 'A': {'n': n, 'm': n, 'ptr': A['ptr'], 'idx': [v - 1 for v in A['idx']],
                                                   'dat': A['dat']},
                     'hasb': 1, 'hasx': 1, 'form': 'I-array' if s['givenI'] == 1 else 'D-array', 'D': D, 'I': I,
                     'b': s['b'], 'x': s['x'], 'diag': 2, 'ie_pow': 10, 'family': 'TLC-universe'})
    return recs


def scenario(sid, rec):
    return {'id': sid, 'recipe': rec, 'tags': {'form': rec['form'], 'n': rec['n'], 'hasb': rec['hasb'],
                                               'family': rec.get('family', 'random'), 'fmt': rec.get('fmt', 'csr'),
                                               'cplx': int(bool(rec.get('cplx')))},
            'events': execute(rec)}


def _check_harness(ctx):
    for f in ctx.failures:
        if f['clause'] == 'HarnessInputWellFormed':
            raise MachineryError('harness produced a malformed C05 event: ' + f['scenario']['id'])


def from_suite(ctx):
    """Boundary-condition splits the repository's own tests ask for (sparsity structure, index sets, which operands are
    given), re-driven with small integer entries on the recorded structure so that every clause is decided exactly."""
    from .. import suite
    evs = suite.record(ctx, files=['tests/test_utils.py', 'tests/test_manufactured.py', 'tests/test_assembly.py',
                                   'tests/test_basis.py', 'tests/test_dofs.py'])['bc']
    rng = np.random.default_rng(ctx.seed + 505)
    recs = []
    for e in evs:
        n = e['n']

        def fill(ptr, idx):
            return {'n': n, 'm': n, 'ptr': ptr, 'idx': idx, 'dat': [int(v) for v in rng.choice([-3, -2, -1, 1, 2, 3, 4], size=len(idx))]}
        rec = {'driver': 'bc', 'n': n, 'A': fill(e['ptr'], e['idx']), 'hasb': e['hasb'], 'hasx': e['hasx'],
               'form': 'I-array' if e['given'] == 'I' else 'D-array', 'D': e['D'], 'I': e['I'],
               'b': [int(v) for v in rng.integers(-5, 6, size=n)], 'x': [int(v) for v in rng.integers(-5, 6, size=n)],
               'diag': 1, 'ie_pow': 10, 'family': 'suite', 'test': e.get('test', '')}
        if e['hasb'] == 2:
            rec['B'] = fill(e['Bptr'], e['Bidx'])
        recs.append(rec)
    return recs


def run(ctx):
    r = ctx.model_must_hold('MC_C05', 'MC_C05.cfg', timeout=900, env={'C05_N4': '0'})
    if ctx.tier == 'thorough':
        ctx.model_must_hold('MC_C05', 'MC_C05.cfg', timeout=3000, env={'C05_N4': '1'},
                            label='4 x 4 systems with at most 4 stored entries, every ordered constrained set')
    old = ctx.tlc_model('MC_C05', 'MC_C05_old.cfg', timeout=900, label='regression model: pre-fix enforce formula',
                        env={'C05_N4': '0'})
    ctx.notes['old_enforce_formula_refuted_by_tlc'] = bool(old['violated'])
    out = os.path.join(ctx.scratch, 'c05_universe.json')
    ctx.tlc_model('MC_C05_export', 'MC_C05_export.cfg', timeout=600, env={'OUT_FILE': out, 'C05_LEVEL': ctx.tier}, workers=1,
                  label='scenario export for replay')
    recs = from_tlc(out) if os.path.exists(out) else []
    n_tlc = len(recs)
    recs += generate(ctx.tier, ctx.seed)
    if ctx.tier == 'thorough':
        sr = from_suite(ctx)
        ctx.notes['scenarios_from_repository_tests'] = len(sr)
        recs += sr
    scs = [scenario(f'C05-{k}', rec) for k, rec in enumerate(recs)]
    ctx.validate('TraceC05', scs)
    _check_harness(ctx)
    keys = {json.dumps([rec['A'], sorted(rec.get('D', [])), rec['form']]) for rec in recs
            if rec['n'] >= 2 and 0 < len(rec.get('D', [1])) < rec['n']}
    ctx.notes['distinct_nontrivial'] = len(keys)
    ctx.notes['scenarios_from_tlc_universe'] = n_tlc
    ctx.notes['tolerances'] = {'TolSolve': '2^-26 absolute (|solution| <= 64)', 'TolPenal': '2^-16 (epsilon = 2^-30)'}
    return ctx.finish(rule=RULE, assumptions=[
        'entries are small integers so that float64 arithmetic of the helpers is exact (exact universe)',
        'matrices are CSR (or CSC / LIL, which support indexing), canonical or with entries stored twice; COO, DIA '
        'and BSR matrices (no indexing in SciPy) are not generated',
        'the real-solver pipelines (mode L) use strictly diagonally dominant integer systems with a known integer '
        'solution; TLC compares the fixed-point encoding of the returned floats with it'], exhaustive=False)


def replay(ctx, doc):
    sc = doc['scenario']
    ctx.validate('TraceC05', [scenario(sc['id'], sc['recipe'])])
    _check_harness(ctx)
    return ctx.finish(rule=RULE)
