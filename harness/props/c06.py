"""C06 - Galerkin exactness end to end (patch test and projection identity).

L : model problems (Poisson, reaction-diffusion, linear elasticity) whose exact solution is a polynomial P of the
    element's degree with small integer coefficients are assembled (skfem.models), constrained on a Dirichlet
    facet subset to the boundary projection of P (FacetBasis.project + get_dofs + condense), given natural data
    on the remaining boundary facets, and solved; TraceC06 / Galerkin.tla computes P exactly at the (integer,
    scaled) DOF locations and compares with the recorded solution vector (SolutionIsInterpolant, TolSolve).
    basis.project of a member of the space onto the whole mesh / a sub-domain / a boundary part must return the
    member (ProjectionIsIdentity), curved second-order meshes included.
There is no model-checking configuration: the oracle is a theorem (Galerkin exactness / uniqueness of the
discrete solution), not something TLC establishes; TLC evaluates the exact polynomial and decides the law.
Python constructs the problem data from P (exact integer polynomial calculus = input construction), drives the
library and changes representation; it contains no comparison and no tolerance.
"""
import json
from dataclasses import replace

import numpy as np

from .. import universe as U
from .. import meshgen as G
from .. import elements as EL
from ..core import guarded, MachineryError
from ..par import Pool
from ..project import fx

RULE = ('scenario = one mesh x one element x one model problem (polynomial exact solution, Dirichlet/Neumann split) '
        'or one projection; distinct = distinct recipe; non-trivial = at least one interior DOF and (for solves) '
        'polynomial degree = element degree')

# element -> (kind, degree reproduced exactly, scale S making the Lagrange nodes integral on integer meshes, vector?)
SOLVE_ELEMS = {
    'ElementLineP1': ('line', 1, 1, 0), 'ElementLineP2': ('line', 2, 2, 0),
    'ElementTriP1': ('tri', 1, 1, 0), 'ElementTriP2': ('tri', 2, 2, 0), 'ElementTriP3': ('tri', 3, 3, 0),
    'ElementTriP4': ('tri', 4, 4, 0),
    'ElementQuad1': ('quad', 1, 1, 0), 'ElementQuad2': ('quad', 2, 2, 0),
    'ElementTetP1': ('tet', 1, 1, 0), 'ElementTetP2': ('tet', 2, 2, 0),
    'ElementHex1': ('hex', 1, 1, 0), 'ElementHex2': ('hex', 2, 2, 0),
    'ElementWedge1': ('wedge', 1, 1, 0),
    'ElementVector(TriP1)': ('tri', 1, 1, 1), 'ElementVector(TriP2)': ('tri', 2, 2, 1),
    'ElementVector(TetP1)': ('tet', 1, 1, 1), 'ElementVector(TetP2)': ('tet', 2, 2, 1),
    'ElementVector(Quad1)': ('quad', 1, 1, 1), 'ElementVector(Quad2)': ('quad', 2, 2, 1),
    'ElementVector(Hex1)': ('hex', 1, 1, 1),
}
PROJECT_ELEMS = ['ElementLineP0', 'ElementLineP1', 'ElementLineP2', 'ElementLinePp3', 'ElementLineMini',
                 'ElementTriP0', 'ElementTriP1', 'ElementTriP2', 'ElementTriP3', 'ElementTriP4', 'ElementTriP1B',
                 'ElementTriP2B', 'ElementTriCR', 'ElementTriRT1', 'ElementTriN1', 'ElementTriP1DG', 'ElementDG(TriP2)',
                 'ElementVector(TriP1)', 'ElementVector(TriP2)', 'ElementTriMorley',
                 'ElementQuad0', 'ElementQuad1', 'ElementQuad2', 'ElementQuadS2', 'ElementQuadP3', 'ElementQuadRT1',
                 'ElementVector(Quad2)',
                 'ElementTetP0', 'ElementTetP1', 'ElementTetP2', 'ElementTetMini', 'ElementTetRT1', 'ElementTetN1',
                 'ElementVector(TetP1)',
                 'ElementHex0', 'ElementHex1', 'ElementHex2', 'ElementHexS2', 'ElementWedge1']
NODAL_H1 = {'ElementLineP1', 'ElementLineP2', 'ElementTriP1', 'ElementTriP2', 'ElementTriP3', 'ElementTriP4',
            'ElementQuad1', 'ElementQuad2', 'ElementQuadS2', 'ElementTetP1', 'ElementTetP2', 'ElementHex1', 'ElementHex2',
            'ElementVector(TriP1)', 'ElementVector(TriP2)', 'ElementVector(TetP1)', 'ElementVector(Quad2)'}
SECOND = {'tri': 'MeshTri2', 'quad': 'MeshQuad2', 'tet': 'MeshTet2', 'hex': 'MeshHex2'}


# ------------------------------------------------------------------------------------------ integer polynomials
# {exponent tuple: int coefficient}; exact calculus used to construct the data (f, h) of the model problems

def p_rand(dim, deg, rng):
    import itertools
    P = {}
    exps = [e for e in itertools.product(range(deg + 1), repeat=dim) if sum(e) <= deg]
    for e in exps:
        c = int(rng.integers(-2, 3))
        if c:
            P[e] = c
    top = [e for e in exps if sum(e) == deg]
    e = top[int(rng.integers(len(top)))]
    if not P.get(e):
        P[e] = 1 + int(rng.integers(0, 2))
    return P


def p_diff(P, i):
    out = {}
    for e, c in P.items():
        if e[i] > 0:
            e2 = e[:i] + (e[i] - 1,) + e[i + 1:]
            out[e2] = out.get(e2, 0) + c * e[i]
    return {e: c for e, c in out.items() if c}


def p_add(P, Q, a=1, b=1):
    out = {}
    for e, c in P.items():
        out[e] = out.get(e, 0) + a * c
    for e, c in Q.items():
        out[e] = out.get(e, 0) + b * c
    return {e: c for e, c in out.items() if c}


def p_eval(P, x):
    """x: array (dim, ...) of floats."""
    out = np.zeros_like(x[0], dtype=float)
    for e, c in P.items():
        term = c * np.ones_like(x[0], dtype=float)
        for i, k in enumerate(e):
            if k:
                term = term * x[i] ** k
        out = out + term
    return out


def p_terms(P, dim):
    return [{'c': int(c), 'e': [int(k) for k in e]} for e, c in sorted(P.items())] or [{'c': 0, 'e': [0] * dim}]


def p_from_terms(T):
    return {tuple(t['e']): t['c'] for t in T if t['c']}


# ------------------------------------------------------------------------------------------ the real pipeline

def build_mesh(rec):
    import skfem
    kind = rec['kind']
    m = U.make(kind, np.array(rec['p'], dtype=float), np.array(rec['t'], dtype=np.int64))
    cv = rec.get('curved')
    if cv:
        m2 = getattr(skfem, SECOND[kind]).from_mesh(m)
        d = m2.doflocs.copy()
        nv = np.array(rec['p']).shape[1]
        off = np.random.default_rng(cv['seed']).integers(-1, 2, size=(d.shape[0], d.shape[1] - nv)) / float(cv['den'])
        d[:, nv:] += off
        m = replace(m2, doflocs=d)
    return m


def dof_components(basis, dim, vector):
    comp = np.ones(basis.N, dtype=int)
    if vector:
        for k, ix in enumerate(basis.split_indices()):
            comp[ix] = k + 1
    return comp


def exec_solve(rec):
    import skfem
    from skfem import Basis, FacetBasis, BilinearForm, LinearForm, condense, enforce, solve
    from skfem.helpers import dot
    from skfem.models.poisson import laplace, mass
    from skfem.models.elasticity import linear_elasticity
    name = rec['elem']
    kind, deg, S, vector = SOLVE_ELEMS[name]
    dim = len(rec['p'])
    polys = [p_from_terms(T) for T in rec['poly']]
    ev = {'a': 'Solve', 'problem': rec['problem'], 'bc': rec['bc'], 'dform': rec.get('dform', 'view'),
          'method': rec.get('method', 'condense'), 'elem': name, 'dim': dim, 'S': S,
          'poly': [p_terms(P, dim) for P in polys], 'loc': [], 'comp': [], 'x': [], 'err': '', 'ndir': 0}

    def run():
        m = build_mesh(rec)
        e = EL.make(name)
        basis = Basis(m, e)
        bf = m.boundary_facets()
        dsel = np.array(rec['dir'], dtype=np.int64)                     # positions within boundary_facets()
        Dfac = bf[dsel] if len(dsel) else np.array([], dtype=np.int64)
        Nfac = np.setdiff1d(bf, Dfac)
        if rec['problem'] == 'elasticity':
            lam, mu = rec['lam'], rec['mu']
            A = linear_elasticity(float(lam), float(mu)).assemble(basis)
            # sigma_ij = mu (d_j u_i + d_i u_j) + lam div(u) delta_ij ;  f = -div sigma
            divu = {}
            for i in range(dim):
                divu = p_add(divu, p_diff(polys[i], i))
            sig = [[p_add(p_add(p_diff(polys[i], j), p_diff(polys[j], i), mu, mu), divu if i == j else {}, 1, lam)
                    for j in range(dim)] for i in range(dim)]
            f = []
            for i in range(dim):
                fi = {}
                for j in range(dim):
                    fi = p_add(fi, p_diff(sig[i][j], j), 1, -1)
                f.append(fi)
            b = LinearForm(lambda v, w: sum(p_eval(f[i], w.x) * v[i] for i in range(dim))).assemble(basis)
            if len(Nfac):
                fbN = FacetBasis(m, e, facets=Nfac)
                b = b + LinearForm(lambda v, w: sum(p_eval(sig[i][j], w.x) * w.n[j] * v[i]
                                                    for i in range(dim) for j in range(dim))).assemble(fbN)
            exact = lambda x: np.array([p_eval(P, x) for P in polys])
        else:
            P = polys[0]
            c = rec.get('c', 0)
            A = laplace.assemble(basis)
            if c:
                A = A + c * mass.assemble(basis)
            lap = {}
            for i in range(dim):
                lap = p_add(lap, p_diff(p_diff(P, i), i))
            f = p_add(p_add({}, lap, 1, -1), P, 1, c)                      # f = -lap P + c P
            b = LinearForm(lambda v, w: p_eval(f, w.x) * v).assemble(basis)
            gradP = [p_diff(P, i) for i in range(dim)]
            if len(Nfac) and kind != 'wedge':
                fbN = FacetBasis(m, e, facets=Nfac)
                b = b + LinearForm(lambda v, w: sum(p_eval(gradP[i], w.x) * w.n[i] for i in range(dim)) * v).assemble(fbN)
            exact = lambda x: p_eval(P, x)
        if len(Dfac):
            D = basis.get_dofs(Dfac)
            # the Dirichlet set is handed to condense / enforce in every accepted FORM: a DofsView, an index array,
            # a dict of the DofsViews of several boundary parts (adjacent or overlapping: they share DOFs), or I=
            form = rec.get('dform', 'view')
            kw = {'D': D}
            if form == 'array':
                kw = {'D': D.flatten()}
            elif form in ('dict', 'dict_overlap'):
                kw = {'D': {'part%d' % k: basis.get_dofs(bf[np.array(part, dtype=np.int64)])
                            for k, part in enumerate(rec['dparts'])}}
            elif form == 'I':
                kw = {'I': basis.complement_dofs(D)}
            reduce_ = enforce if rec.get('method') == 'enforce' else condense
            if kind == 'wedge':                                             # FacetBasis is not available for prisms:
                xD = basis.zeros()                                          # nodal values of the data on the DOFs the
                dd = D.flatten()                                            # library returned
                xD[dd] = exact(basis.doflocs[:, dd])
            else:
                xD = FacetBasis(m, e, facets=Dfac).project(exact)           # boundary projection of the data
            x = solve(*reduce_(A, b, x=xD, **kw))
            nd = len(D.flatten())
        else:
            x = solve(A, b)
            nd = 0
        return basis, np.asarray(x), nd
    out, err = guarded(run, 120)
    if err:
        ev['err'] = err
        return [ev]
    basis, x, nd = out
    L = basis.doflocs * S
    Li = np.rint(L)
    if np.abs(L - Li).max() > 1e-9:
        ev['err'] = 'DofLocationsNotOnTheScaledLattice'
        return [ev]
    xs = [fx(float(v)) for v in x]
    if any(v is None for v in xs):
        ev['err'] = 'NonFinite'
        return [ev]
    ev['loc'] = [[int(v) for v in col] for col in Li.T]
    ev['comp'] = [int(c) for c in dof_components(basis, dim, vector)]
    ev['x'] = xs
    ev['ndir'] = int(nd)
    return [ev]


def exec_project(rec):
    from skfem import Basis, FacetBasis
    name = rec['elem']
    ev = {'a': 'Project', 'elem': name, 'region': rec['region'], 'y0': [], 'y1': [], 'I': [], 'edofs': [], 'cells': [],
          'err': '', 'curved': 1 if rec.get('curved') else 0}

    def run():
        m = build_mesh(rec)
        e = EL.make(name)
        basis = Basis(m, e)
        y0 = np.random.default_rng(rec['yseed']).integers(-3, 4, basis.N).astype(float)
        edofs, cells = [], []
        if rec['region'] == 'mesh':
            y1 = basis.project(basis.interpolate(y0))
            I = np.arange(basis.N)
        elif rec['region'] == 'cells':
            cells = np.array(rec['cells'], dtype=np.int64)
            sub = basis.with_elements(cells)                                # basis restricted to the sub-domain
            y1 = sub.project(sub.interpolate(y0))
            I = np.unique(basis.element_dofs[:, cells])
            edofs = [[int(d) + 1 for d in col] for col in basis.element_dofs.T]
            cells = [int(k) + 1 for k in cells]
        else:
            bf = m.boundary_facets()
            F = bf[np.array(rec['facets'], dtype=np.int64)]
            fb = FacetBasis(m, e, facets=F)
            y1 = fb.project(fb.interpolate(y0))
            I = basis.get_dofs(F).flatten()
        return y0, np.asarray(y1), np.asarray(I), edofs, cells
    out, err = guarded(run, 120)
    if err:
        ev['err'] = err
        return [ev]
    y0, y1, I, edofs, cells = out
    ys = [fx(float(v)) for v in y1]
    if any(v is None for v in ys):
        ev['err'] = 'NonFinite'
        return [ev]
    ev.update(y0=[int(v) for v in y0], y1=ys, I=[int(d) + 1 for d in I], edofs=edofs, cells=cells)
    return [ev]


def execute(rec):
    return exec_solve(rec) if rec['driver'] == 'solve' else exec_project(rec)


def scenario(sid, rec):
    tags = {'kind': rec['kind'], 'family': rec['family'], 'elem': rec['elem'], 'driver': rec['driver'],
            'dform': rec.get('dform', ''), 'method': rec.get('method', ''),
            'problem': rec.get('problem', 'project'), 'region': rec.get('region', ''), 'curved': 1 if rec.get('curved') else 0}
    return {'id': sid, 'recipe': rec, 'tags': tags, 'events': execute(rec)}


def _scen(args):
    return scenario(*args)


# ------------------------------------------------------------------------------------------ inputs

def meshes_for(kind, rng, th, general_ok):
    out = []
    sh = lambda p, t: G.shuffle(kind, p, t, rng)
    if kind == 'line':
        out.append(('line-graded', *U.line_points([0, 1, 3, 4, 8]), 'affine'))
        out.append(('line-shuffled', *sh(*U.line_points([0, 2, 3, 7, 8, 9])), 'affine'))
    elif kind == 'tri':
        out.append(('tri-lattice', *G.tensor_tri([0, 1, 3], [0, 2, 3], (0, 1, 1, 0)), 'affine'))
        out.append(('tri-delaunay-shuffled', *sh(*U.delaunay_int(2, int(rng.integers(6, 10)), 5, rng)), 'affine'))
        out.append(('tri-graded-shuffled', *sh(*G.tensor_tri([0, 1, 2, 4], [0, 1, 4])), 'affine'))
        p, t = G.tensor_tri([0, 1, 2, 3], [0, 1, 2])
        out.append(('tri-nonconvex', *G.drop_cells(p, t, [2, 3]), 'affine'))
    elif kind == 'quad':
        p, t = G.tensor_quad([0, 1, 3], [0, 2, 3])
        out.append(('quad-rect', p, t, 'affine'))
        out.append(('quad-sheared-shuffled', *sh(G.shear(p, 1), t), 'affine'))
        pj, tj = G.tensor_quad([0, 4, 8], [0, 4, 8])
        pj = pj.copy()
        pj[:, 4] += (1, -1)
        out.append(('quad-jiggled-shuffled', *sh(pj, tj), 'general'))
    elif kind == 'tet':
        out.append(('tet-kuhn', *U.tet_cubes(1, 6), 'affine'))
        out.append(('tet-five-shuffled', *sh(*U.tet_cubes(2, 5)), 'affine'))
        out.append(('tet-delaunay-shuffled', *sh(*U.delaunay_int(3, 7, 3, rng)), 'affine'))
    elif kind == 'hex':
        p, t = G.tensor_hex([0, 1, 3], [0, 2], [0, 1])
        out.append(('hex-box', p, t, 'affine'))
        out.append(('hex-sheared-rotated', *sh(G.shear(p, 1), t), 'affine'))
        pj = p.copy() * 4
        pj[:, 4] += (1, 1, 0)
        out.append(('hex-jiggled-rotated', *sh(pj, t), 'general'))
    elif kind == 'wedge':
        out.append(('wedge', *G.tensor_wedge([0, 1, 3], [0, 2], [0, 1, 2], (0, 1)), 'affine'))
        p, t = G.tensor_wedge([0, 2, 3], [0, 1, 2], [0, 2], (1, 0, 0, 1))
        p2, t2 = G.shuffle('wedge', p, t, rng, local=False)
        out.append(('wedge-renumbered', p2, t2, 'affine'))
    return out


def _nbfacets(kind, p, t):
    return len(U.make(kind, np.array(p, dtype=float), np.array(t)).boundary_facets())


def generate(tier, seed):
    th = tier == 'thorough'
    rng = np.random.default_rng(seed + 6)
    recs = []
    cache = {}
    nrep = 20 if th else 6
    for rep in range(nrep):
        for name, (kind, deg, S, vector) in SOLVE_ELEMS.items():
            if (kind, rep) not in cache:
                cache[(kind, rep)] = meshes_for(kind, rng, th, True)       # fresh random meshes per repetition
            for fam, p, t, cls in cache[(kind, rep)]:
                dim = np.asarray(p).shape[0]
                d = deg if cls == 'affine' else 1          # general convex Q1 / Hex1 cells: degree-one solutions only
                if cls == 'general' and deg > 1:
                    continue
                nb = _nbfacets(kind, p, t)
                problems = ['elasticity'] if vector else ['poisson', 'reaction']
                for prob in problems:
                    # Dirichlet part: a random non-empty subset of the boundary facets (sometimes all of them,
                    # for reaction-diffusion sometimes none); natural data on the rest
                    mode = ['mixed', 'mixed', 'dirichlet', 'neumann'][int(rng.integers(0, 4))]
                    if kind == 'wedge':
                        mode = 'dirichlet'                  # no FacetBasis on prisms: natural data cannot be assembled
                    if mode == 'neumann' and prob != 'reaction':
                        mode = 'mixed'
                    if mode == 'dirichlet':
                        dsel = list(range(nb))
                    elif mode == 'neumann':
                        dsel = []
                    else:
                        k = int(rng.integers(1, max(2, nb // 2 + 1)))
                        dsel = sorted(int(j) for j in rng.permutation(nb)[:k])
                    poly = [p_terms(p_rand(dim, d, rng), dim) for _ in range(dim if vector else 1)]
                    # form in which the Dirichlet set reaches condense / enforce; boundary parts of the dict forms
                    # are a random assignment of the Dirichlet facets (adjacent parts meet at shared DOFs), the
                    # overlapping variant additionally repeats facets in two parts
                    forms = ['view', 'array', 'I', 'dict', 'dict_overlap']
                    form = forms[(rep + len(recs)) % len(forms)] if rep < 5 else forms[int(rng.integers(0, 5))]
                    if rep % 3 == 1:
                        form = 'dict'
                    if rep % 3 == 2:
                        form = 'dict_overlap'
                    method = 'enforce' if (len(recs) + rep) % 2 else 'condense'
                    dparts = []
                    if form in ('dict', 'dict_overlap') and dsel:
                        npart = min(len(dsel), int(rng.integers(2, 4)))
                        assign = rng.integers(0, npart, len(dsel))
                        assign[:npart] = np.arange(npart)
                        dparts = [[dsel[j] for j in range(len(dsel)) if assign[j] == k] for k in range(npart)]
                        if form == 'dict_overlap':
                            for k in range(npart):
                                dparts[k] = sorted(set(dparts[k]) | {dsel[int(rng.integers(0, len(dsel)))]})
                    r = {'driver': 'solve', 'kind': kind, 'family': fam, 'elem': name, 'problem': prob, 'bc': mode,
                         'dform': form if dsel else 'view', 'method': method, 'dparts': dparts,
                         'p': np.asarray(p).astype(int).tolist(), 't': np.asarray(t).astype(int).tolist(),
                         'poly': poly, 'dir': dsel}
                    if prob == 'reaction':
                        r['c'] = int(rng.integers(1, 4))
                    if prob == 'elasticity':
                        r['lam'], r['mu'] = int(rng.integers(1, 3)), int(rng.integers(1, 3))
                    recs.append(r)
    # ---- projections
    for name in PROJECT_ELEMS:
        kind = EL.CATALOGUE[name]['kind']
        if kind not in cache:
            cache[kind] = meshes_for(kind, rng, th, True)
        fams = cache[kind][:4 if th else 2]
        for fam, p, t, cls in fams:
            base = {'driver': 'project', 'kind': kind, 'family': fam, 'elem': name,
                    'p': np.asarray(p).astype(int).tolist(), 't': np.asarray(t).astype(int).tolist()}
            nt = np.asarray(t).shape[1]
            recs.append(dict(base, region='mesh', yseed=int(rng.integers(0, 2 ** 31))))
            cells = sorted(int(k) for k in rng.permutation(nt)[:max(1, nt // 2)])
            recs.append(dict(base, region='cells', cells=cells, yseed=int(rng.integers(0, 2 ** 31))))
            if name in NODAL_H1:
                nb = _nbfacets(kind, p, t)
                fs = sorted(int(j) for j in rng.permutation(nb)[:max(1, nb // 2)])
                recs.append(dict(base, region='facets', facets=fs, yseed=int(rng.integers(0, 2 ** 31))))
        # curved second-order meshes
        if kind in SECOND and EL.CATALOGUE[name]['cclass'] == 'H1' and not name.startswith('ElementQuadP'):
            fam, p, t, cls = cache[kind][0]
            base = {'driver': 'project', 'kind': kind, 'family': fam + '-curved', 'elem': name,
                    'p': np.asarray(p).astype(int).tolist(), 't': np.asarray(t).astype(int).tolist(),
                    'curved': {'seed': int(rng.integers(0, 2 ** 31)), 'den': 32}}
            recs.append(dict(base, region='mesh', yseed=int(rng.integers(0, 2 ** 31))))
            nt = np.asarray(t).shape[1]
            recs.append(dict(base, region='cells', cells=sorted(int(k) for k in rng.permutation(nt)[:max(1, nt // 2)]),
                             yseed=int(rng.integers(0, 2 ** 31))))
            if name in NODAL_H1:
                nb = _nbfacets(kind, p, t)
                recs.append(dict(base, region='facets', facets=sorted(int(j) for j in rng.permutation(nb)[:max(1, nb // 2)]),
                                 yseed=int(rng.integers(0, 2 ** 31))))
    return recs


def run(ctx):
    procs = Pool()
    try:
        recs = generate(ctx.tier, ctx.seed)
        scs = procs.map(_scen, [(f'C06-{k}', r) for k, r in enumerate(recs)])
    finally:
        procs.close()
    ctx.validate('TraceC06', scs, jvms=8)
    ctx.notes['distinct_nontrivial'] = len({json.dumps(r, sort_keys=True) for r in recs})
    ctx.notes['tolerances'] = {'TolSolve': '2^-26 x scale of the solution'}
    return ctx.finish(rule=RULE, assumptions=[
        'the oracle is a theorem (Galerkin exactness: the exact solution lies in the discrete space and the default '
        'quadrature integrates the forms exactly; uniqueness of the discrete solution); TLC evaluates the exact '
        'polynomial at the integer DOF locations and decides |x[d] - P(loc[d])| <= TolSolve * scale - there is no '
        'model-checking configuration for C06',
        'degree > 1 solutions only on affine cells (simplices, parallelograms, parallelepipeds); general convex '
        'Q1 / Hex1 cells with degree-one solutions; prisms with Dirichlet data on the whole boundary (FacetBasis '
        'is not implemented for prisms)',
        'sub-domain projection uses the basis restricted to the sub-domain (CellBasis.with_elements)',
        'meshes have <= ~250 DOFs and integer coordinates <= 9',
        'TLC 1.8.0 and the CommunityModules Json module are trusted'],
        exhaustive=False)


def replay(ctx, doc):
    sc = doc['scenario']
    sc2 = scenario(sc['id'], sc['recipe'])
    ctx.validate('TraceC06', [sc2], jvms=8)
    return ctx.finish(rule=RULE)
