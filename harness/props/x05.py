"""X05 - tensor-product constructors and default tags (extended coverage beyond the listed properties; NOT registered
in MANIFEST.json).

`Mesh{Line,Tri,Quad,Tet,Hex}.init_tensor` on small integer grids (uniform and graded, passed sorted and unsorted) followed
by `with_defaults()`: the vertices are the grid points once, every cell lies in one grid box, every box holds the
advertised number of cells and is filled by them (integer determinants), a facet has one neighbour exactly when it lies
on a side of the bounding box, and 'left' / 'right' / 'bottom' / 'top' / 'front' / 'back' designate exactly the facets of
their side.  Verdicts: spec/TraceX05.tla against spec/Constructors.tla.
"""
import itertools
import json

import numpy as np

from ..core import guarded
from ..project import ids, NVERT

RULE = 'scenario = (mesh class, integer grids as passed); distinct = distinct (class, grids).'
CLASSES = {'line': ('MeshLine', 1), 'tri': ('MeshTri', 2), 'quad': ('MeshQuad', 2), 'tet': ('MeshTet', 3), 'hex': ('MeshHex', 3)}


def execute(rec):
    import skfem as fem
    kind = rec['kind']
    cls = getattr(fem, CLASSES[kind][0])
    ev = {'a': 'Ctor', 'kind': kind, 'err': '', 'grids': rec['grids'], 'p': [], 't': [], 'facets': [], 'f2t': [], 'tags': [],
          'lf': [], 'le': [], 'edges': [], 'errs': []}

    def call():
        gs = [np.array(g, dtype=np.float64) for g in rec['grids']]
        m = cls.init_tensor(*gs) if kind != 'line' else cls.init_tensor(gs[0])
        return m.with_defaults()
    m, err = guarded(call, 60)
    if err:
        ev['err'] = err
        return [ev]
    nv = NVERT[kind]
    ev['p'] = [[int(round(v)) for v in col] for col in m.p.T]
    ev['t'] = ids(m.t[:nv])
    ev['facets'] = ids(m.facets)
    ev['f2t'] = ids(m.f2t)
    ev['tags'] = [[str(k), [int(x) + 1 for x in np.asarray(v).ravel()]] for k, v in (m.boundaries or {}).items()]
    return [ev]


def grids_1d(tier):
    base = [[0, 1], [0, 2, 3], [0, 1, 3, 4], [-2, 0, 1]]
    if tier == 'thorough':
        base += [[0, 1, 2, 3, 5], [3, 0, 1], [2, 0], [-3, -1, 0, 4]]
    else:
        base += [[3, 0, 1]]
    return base


def generate(tier, seed):
    recs = []
    g1 = grids_1d(tier)
    rng = np.random.default_rng(55 + seed)
    for kind, (_, dim) in CLASSES.items():
        combos = list(itertools.product(g1, repeat=dim))
        if dim == 3:
            combos = [c for c in combos if np.prod([len(g) - 1 for g in c]) <= (12 if tier == 'quick' else 27)]
            pick = rng.choice(len(combos), size=min(len(combos), 25 if tier == 'quick' else 120), replace=False)
            combos = [combos[i] for i in sorted(pick)]
        for c in combos:
            if kind == 'line':
                # MeshLine.init_tensor(p) is MeshLine(p): consecutive points become cells, the caller passes them in
                # increasing order (the 2-D / 3-D constructors sort their grids themselves)
                c = tuple(sorted(g) for g in c)
            recs.append({'driver': 'ctor', 'kind': kind, 'grids': [list(g) for g in c]})
    return recs


def run(ctx):
    recs = generate(ctx.tier, ctx.seed)
    scs = [{'id': f'X05-{k}', 'recipe': r, 'tags': {'kind': r['kind']}, 'events': execute(r)} for k, r in enumerate(recs)]
    ctx.validate('TraceX05', scs)
    ctx.notes['distinct_nontrivial'] = len({json.dumps(r, sort_keys=True) for r in recs})
    return ctx.finish(rule=RULE, assumptions=['extended coverage: not one of the listed properties'], exhaustive=False)


def replay(ctx, doc):
    sc = doc['scenario']
    ctx.validate('TraceX05', [{'id': sc['id'], 'recipe': sc['recipe'], 'tags': sc.get('tags', {}), 'events': execute(sc['recipe'])}])
    return ctx.finish(rule=RULE)
