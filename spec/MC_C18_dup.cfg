SPECIFICATION Spec
CONSTANT WithDup = TRUE
INVARIANT ClausesHold
CHECK_DEADLOCK FALSE
