"""X02 - supermeshes of two one-dimensional meshes and element-wise quadrature (extended coverage beyond the listed
properties; NOT registered in MANIFEST.json).

Every pair of small 1-D meshes with integer break points (both numbered in scrambled vertex / cell order) goes through
`skfem.supermeshing.intersect`; pairs over different domains must be rejected.  For accepted pairs the element-wise
quadrature of both parents is recorded (global images of the nodes, weights) together with what the library integrates
with it: the monomials x^q (q <= order) and the coupling mass matrix between the two meshes.  Verdicts: spec/TraceX02.tla
against spec/Supermesh.tla (exact clauses on integers, laws on fixed point).
"""
import itertools
import json

import numpy as np

from ..core import guarded
from ..project import fx

RULE = ('scenario = (pair of 1-D meshes with integer break points, vertex / cell numbering, quadrature order); '
        'distinct = distinct (break point sets, numbering seeds, order).')


def mesh_rec(m):
    return {'p': [int(round(v)) for v in m.p[0]], 't': [[int(v) + 1 for v in col] for col in m.t.T]}


def build(pts, seed):
    """MeshLine over the sorted break points, vertices and cells numbered by a seeded permutation."""
    import skfem as fem
    pts = np.array(sorted(pts), dtype=np.float64)
    n = len(pts)
    rng = np.random.default_rng(seed)
    perm = rng.permutation(n) if seed else np.arange(n)
    p = np.empty(n)
    p[perm] = pts
    t = np.vstack((perm[:-1], perm[1:]))
    if seed:
        t = t[:, rng.permutation(n - 1)]
        flip = rng.integers(0, 2, n - 1).astype(bool)
        t[:, flip] = t[::-1, flip]
    return fem.MeshLine(p[None, :], t)


EMPTY = {'p': [], 't': []}


def execute(rec):
    import skfem as fem
    from skfem.supermeshing import intersect, elementwise_quadrature
    m1 = build(rec['a'], rec['sa'])
    m2 = build(rec['b'], rec['sb'])
    out, err = guarded(lambda: intersect(m1, m2), 30)
    ev = {'a': 'Intersect', 'err': err, 'm1': mesh_rec(m1), 'm2': mesh_rec(m2), 's': EMPTY, 'ix1': [], 'ix2': []}
    if err:
        return [ev]
    s, ix1, ix2 = out
    ev['s'] = mesh_rec(s)
    ev['ix1'] = [int(v) + 1 for v in ix1]
    ev['ix2'] = [int(v) + 1 for v in ix2]
    events = [ev]
    n = rec['order']
    hi = int(max(abs(v) for v in rec['a'] + rec['b'])) or 1

    def quad(m, ix, other, ixo):
        X, W = elementwise_quadrature(m, s, ix, n)
        G = m.mapping().F(X, tind=ix)                                   # (1, nsuper, nqp)
        basis = fem.Basis(m, fem.ElementLineP1(), quadrature=(X, W), elements=ix)
        mono = [float(fem.Functional(lambda w, q=q: w.x[0] ** q).assemble(basis)) for q in range(n + 1)]
        Xo, Wo = elementwise_quadrature(other, s, ixo, n)
        bo = fem.Basis(other, fem.ElementLineP2(), quadrature=(Xo, Wo), elements=ixo)
        M = fem.BilinearForm(lambda u, v, w: u * v).assemble(basis, bo)
        return G, W, mono, float(M.sum())

    for (m, ix, other, ixo) in ((m1, ix1, m2, ix2), (m2, ix2, m1, ix1)):
        res, err = guarded(lambda: quad(m, ix, other, ixo), 30)
        q = {'a': 'Quad', 'err': err, 'm': mesh_rec(m), 's': ev['s'], 'ix': [int(v) + 1 for v in ix], 'n': n, 'hi': hi,
             'g': [], 'w': [], 'mono': [], 'msum': fx(0.0)}
        if not err:
            G, W, mono, msum = res
            q['g'] = [[fx(float(v)) for v in row] for row in G[0]]
            q['w'] = [[fx(float(v)) for v in row] for row in W]
            q['mono'] = [fx(v) for v in mono]
            q['msum'] = fx(msum)
        events.append(q)
    return events


def subsets_with_ends(lo, hi, kmax):
    inner = list(range(lo + 1, hi))
    for k in range(0, kmax + 1):
        for c in itertools.combinations(inner, k):
            yield [lo] + list(c) + [hi]


def generate(tier, seed):
    recs = []
    L = 5 if tier == 'quick' else 6
    kmax = 2 if tier == 'quick' else 3
    sets = list(subsets_with_ends(0, L, kmax))
    for a in sets:                                     # same domain: every pair of break point sets
        for b in sets:
            recs.append({'driver': 'supermesh', 'a': a, 'b': b, 'sa': 0, 'sb': 0, 'order': 2})
    rng = np.random.default_rng(1000 + seed)
    for k in range(60 if tier == 'quick' else 400):    # scrambled numbering, negative coordinates, higher orders
        lo = int(rng.integers(-6, 3))
        hi = lo + int(rng.integers(2, 9))
        def pick():
            inner = [x for x in range(lo + 1, hi) if rng.random() < 0.4]
            return [lo] + inner + [hi]
        recs.append({'driver': 'supermesh', 'a': pick(), 'b': pick(), 'sa': int(rng.integers(1, 10 ** 6)),
                     'sb': int(rng.integers(1, 10 ** 6)), 'order': int(rng.integers(1, 6))})
    for a, b in (([0, 2, 4], [0, 1, 5]), ([0, 2, 4], [1, 2, 4]), ([0, 4], [-1, 2, 4]), ([0, 3], [4, 6]),
                 ([0, 1, 2], [0, 1, 2, 3]), ([-2, 0, 2], [-2, 1])):                  # different domains
        recs.append({'driver': 'supermesh', 'a': a, 'b': b, 'sa': 0, 'sb': 3, 'order': 2})
    return recs


def run(ctx):
    recs = generate(ctx.tier, ctx.seed)
    scs = [{'id': f'X02-{k}', 'recipe': r, 'tags': {'same': str(int(min(r['a']) == min(r['b']) and max(r['a']) == max(r['b'])))},
            'events': execute(r)} for k, r in enumerate(recs)]
    ctx.validate('TraceX02', scs)
    ctx.notes['distinct_nontrivial'] = len({json.dumps(r) for r in recs})
    return ctx.finish(rule=RULE, assumptions=['extended coverage: not one of the listed properties',
                                              'connected 1-D meshes (several components: see KF-C14-line-components)'],
                      exhaustive=False)


def replay(ctx, doc):
    sc = doc['scenario']
    ctx.validate('TraceX02', [{'id': sc['id'], 'recipe': sc['recipe'], 'tags': sc.get('tags', {}), 'events': execute(sc['recipe'])}])
    return ctx.finish(rule=RULE)
