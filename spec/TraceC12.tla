------------------------------ MODULE TraceC12 ------------------------------
(* code -> spec: validates refinement steps recorded from the real Mesh        *)
(* classes (every step logs the abstract mesh before and after) against the     *)
(* clauses of Refinement.tla.  Both uniform and adaptive steps occur in the     *)
(* histories of C12 and C13; each is judged by its own clause set.              *)
EXTENDS UniformOps

Batch  == JsonDeserialize(IOEnv.TRACE_FILE)
Events == Batch.events
N      == Len(Events)

\* informational (never a verdict): for one uniform step of first-order segments / triangles / quadrilaterals the
\* transcription UniformOps!UniformImpl reproduces the code's result exactly (vertices, cells, tag index lists)
AsSets(tags) == {<<tags[q][1], VSet(tags[q][2])>> : q \in DOMAIN tags}
BndSets(tags) == {<<tags[q][1], {VSet(tags[q][2][x]) : x \in DOMAIN tags[q][2]}>> : q \in DOMAIN tags}
Drift(e) == IF e.a = "Refine" /\ e.err = "" /\ e.k = 1 /\ e.pre.cls \in {"MeshLine1", "MeshTri1", "MeshQuad1"}
               /\ MeshWF(e.pre)
            THEN LET mdl == UniformImpl(e.pre, FALSE) IN
                 [Drift_UniformModelEqualsCode |-> /\ mdl.p = e.post.p /\ mdl.t = e.post.t
                                                   /\ AsSets(mdl.sub) = AsSets(e.post.sub)
                                                   /\ BndSets(mdl.bnd) = BndSets(e.post.bnd)]
            ELSE <<>>
Clauses(e) == (IF e.a = "Refine" THEN RefineClauses(e) ELSE AdaptClauses(e)) @@ Drift(e)

VARIABLES i, bad, cnt
vars == <<i, bad, cnt>>
Bump(c, r) == [k \in DOMAIN c \cup DOMAIN r |->
                 (IF k \in DOMAIN c THEN c[k] ELSE 0) + (IF k \in DOMAIN r THEN 1 ELSE 0)]
Init == i = 1 /\ bad = <<>> /\ cnt = <<>>
Step == /\ i <= N
        /\ LET e == Events[i]
               r == Clauses(e)
               f == SetToSeq(Failed(r))
           IN /\ bad' = bad \o [k \in DOMAIN f |-> [sid |-> e.sid, pos |-> e.pos, clause |-> f[k]]]
              /\ cnt' = Bump(cnt, r)
        /\ i' = i + 1
Finish == /\ i = N + 1
          /\ JsonSerialize(IOEnv.OUT_FILE, [consumed |-> N, bad |-> bad, cnt |-> cnt])
          /\ i' = N + 2 /\ UNCHANGED <<bad, cnt>>
Next == Step \/ Finish
Spec == Init /\ [][Next]_vars
==============================================================================
