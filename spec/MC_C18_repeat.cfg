SPECIFICATION Spec
CONSTANT Regress = "repeat"
INVARIANT ClausesHold
CHECK_DEADLOCK FALSE
