------------------------------ MODULE TraceC19 ------------------------------
(* code -> spec for C19: observations of the real ElementVector /              *)
(* ElementComposite / CompositeBasis / split* / asm over lists / COOData /      *)
(* Form.block / bmat, validated against the relational clauses of Blocks.tla.  *)
EXTENDS Blocks
FX == INSTANCE Fx

Batch  == JsonDeserialize(IOEnv.TRACE_FILE)
Events == Batch.events
NEv    == Len(Events)
TolSum == FX!FxTol(40)

VARIABLES i, bad, cnt
vars == <<i, bad, cnt>>

BasisShapeWF(B) ==      \* the part of BasisWF needed before tables are indexed
  /\ B.nb >= 1 /\ B.nel >= 1 /\ B.nq >= 1 /\ B.N >= 1 /\ B.nc >= 1
  /\ Len(B.edofs) = B.nb /\ \A j \in 1..B.nb : Len(B.edofs[j]) = B.nel /\ \A k \in 1..B.nel : B.edofs[j][k] \in 1..B.N
  /\ Len(B.phi) = B.nb /\ \A j \in 1..B.nb : IsTable3(B.phi[j], B.nc, B.nel, B.nq)

\* ---------------------------------------------------------------------------
SplitClauses(e) ==
  IF e.err # "" THEN [NoUnexpectedError |-> FALSE]
  ELSE IF ~(/\ BasisShapeWF(e.Bc) /\ \A n \in DOMAIN e.Bs : BasisShapeWF(e.Bs[n])
            /\ Len(e.Bs) >= 1 /\ Len(e.split) = Len(e.Bs) /\ Len(e.coff) = Len(e.Bs) /\ Len(e.x) = e.Bc.N
            /\ Len(e.parts) = Len(e.Bs)
            /\ (e.etype = "comp" => Len(e.dec) = e.Bc.nb /\ \A j \in DOMAIN e.dec : Len(e.dec[j]) = 2)
            /\ (e.etype = "vec" => e.dim = Len(e.Bs)))
       THEN [WellFormed |-> FALSE]
  ELSE LET nbs == [n \in DOMAIN e.Bs |-> e.Bs[n].nb]
           Ns  == [n \in DOMAIN e.Bs |-> e.Bs[n].N]
           dec == IF e.etype = "comp" THEN e.dec
                  ELSE [j \in 1..e.Bc.nb |-> LET d == VectorDecode(j - 1, e.dim) IN <<d.n + 1, d.ind + 1>>]
           bij == DecodeIsBijection(dec, nbs)
           part == SplitPartitions(e.split, e.Bc.N, Ns)
       IN [NoUnexpectedError |-> TRUE, WellFormed |-> TRUE, EntriesIntegral |-> e.exact = 1,
           DecodeIsBijection |-> bij, SplitPartitions |-> part]
          @@ (IF bij /\ part
              THEN [CellTableMatchesComponents  |-> CellTableMatchesComponents(e.Bc, dec, e.split, e.Bs),
                    BasisTableMatchesComponents |-> BasisTableMatchesComponents(e.Bc, dec, e.Bs, e.coff),
                    SplitInterpolateCommutes    |-> SplitInterpolateCommutes(e.whole, e.parts, e.x, e.Bc, e.Bs, e.split, e.coff)]
              ELSE <<>>)

BlockClauses(e) ==
  IF e.err # "" THEN [NoUnexpectedError |-> FALSE]
  ELSE IF ~(/\ MatWF(e.A) /\ \A b \in DOMAIN e.blocks : MatWF(e.blocks[b].A) /\ e.blocks[b].n \in DOMAIN e.split /\ e.blocks[b].m \in DOMAIN e.split
            /\ \A n \in DOMAIN e.split : \A p \in DOMAIN e.split[n] : e.split[n][p] \in 1..e.A.shape[1] /\ e.split[n][p] \in 1..e.A.shape[2]
            /\ \A b \in DOMAIN e.fblocks : e.fblocks[b].err # "" \/ MatWF(e.fblocks[b].A))
       THEN [WellFormed |-> FALSE]
  ELSE [NoUnexpectedError |-> TRUE, WellFormed |-> TRUE, EntriesIntegral |-> e.exact = 1,
        BlockMatrixEqualsCoupled |-> BlockMatrixEqualsCoupled(e.A, e.blocks, e.split)]
       @@ (IF Len(e.fblocks) > 0
           THEN [FormBlockAgrees |-> \A b \in DOMAIN e.fblocks :
                    /\ e.fblocks[b].err = ""
                    /\ \E c \in DOMAIN e.blocks : e.blocks[c].n = e.fblocks[b].n /\ e.blocks[c].m = e.fblocks[b].m
                                                  /\ SameMatrix(e.blocks[c].A, e.fblocks[b].A)]
           ELSE <<>>)

ListClauses(e) ==
  IF e.err # "" THEN [NoUnexpectedError |-> FALSE]
  ELSE IF e.order = 2 THEN
         IF ~(MatWF(e.Alist) /\ \A a \in DOMAIN e.parts : MatWF(e.parts[a]) /\ \A b \in DOMAIN e.whole : MatWF(e.whole[b]))
         THEN [WellFormed |-> FALSE]
         ELSE [NoUnexpectedError |-> TRUE, WellFormed |-> TRUE, EntriesIntegral |-> e.exact = 1,
               ListAssemblySums |-> ListAssemblySums(e.Alist, e.parts) /\ \A a \in DOMAIN e.whole : SameMatrix(e.Alist, e.whole[a])]
  ELSE IF e.order = 1 THEN
         [NoUnexpectedError |-> TRUE, WellFormed |-> TRUE, EntriesIntegral |-> e.exact = 1,
          ListAssemblySums |-> VecListSums(e.Alist, e.parts) /\ \A a \in DOMAIN e.whole : e.Alist = e.whole[a]]
  ELSE   [NoUnexpectedError |-> TRUE, WellFormed |-> TRUE, EntriesIntegral |-> e.exact = 1,
          ListAssemblySums |-> e.Alist = SumN(Len(e.parts), LAMBDA a : e.parts[a]) /\ \A a \in DOMAIN e.whole : e.Alist = e.whole[a]]

IsMat(x, n1, n2) == Len(x) = n1 /\ \A a \in 1..n1 : Len(x[a]) = n2
CooClauses(e) ==
  IF e.err # "" THEN [NoUnexpectedError |-> FALSE]
  ELSE IF ~(/\ CooWF(e.coo) /\ (e.hasadd = 1 => CooWF(e.other) /\ CooWF(e.sum) /\ CooOrder(e.other) = CooOrder(e.coo))
            /\ \A d \in DOMAIN e.dots : Len(e.dots[d].x) = e.coo.shape[2] /\ e.coo.shape[1] = e.coo.shape[2]
            /\ (e.hascsr = 1 => MatWF(e.csr)))
       THEN [WellFormed |-> FALSE]
  ELSE [NoUnexpectedError |-> TRUE, WellFormed |-> TRUE, EntriesIntegral |-> e.exact = 1,
        DenseSparseAgree |-> /\ DenseSparseAgree(e.coo, e.dense)
                             /\ e.hascsr = 1 => (/\ e.csr.shape = e.coo.shape
                                                 /\ \A pos \in AllPos(e.coo.shape) : MatAt(e.csr, pos[1], pos[2]) = CooAt(e.coo, pos))]
       @@ (IF Len(e.dots) > 0
           THEN [DotAgrees |-> \A d \in DOMAIN e.dots : DotAgrees(e.coo, e.dots[d].x, VSet(e.dots[d].D), e.dots[d].y)] ELSE <<>>)
       @@ (IF e.hasadd = 1 THEN [AddAgrees |-> AddAgrees(e.coo, e.other, e.sum)] ELSE <<>>)
       @@ (IF e.hasloc = 1 THEN [LocalRoundTrip |-> LocalRoundTrip(e.coo, e.back)] ELSE <<>>)
       @@ (IF e.hasloc = 1 /\ e.hasdef = 1 /\ BasisWF(e.Bu) /\ BasisWF(e.Bv)
           THEN [LocalMatchesElemental |->
                   LocalMatchesElemental(e.local, BilLocal(e.F, e.Bu, e.Bv, [fld |-> <<>>, prm |-> <<>>]), e.Bv.nb, e.Bu.nb)]
           ELSE <<>>)
       @@ (IF e.hasinv = 1 THEN [InverseIsLocalInverse |-> InverseIsLocalInverse(e.local, e.linv, e.sl, e.si)
                                                           \* the inverse lives on the same index pairs (their order is not judged)
                                                           /\ Len(e.invidx) = 2 /\ Len(e.invidx[1]) = Len(e.invidx[2])
                                                           /\ {<<e.invidx[1][n], e.invidx[2][n]>> : n \in DOMAIN e.invidx[1]} = CooPositions(e.coo)] ELSE <<>>)
       @@ (IF e.hasfacet = 1 THEN [FacetLocalSumsToCells |-> FacetLocalSumsToCells(e.local, e.find, e.t2f, e.cellsum)] ELSE <<>>)

BmatClauses(e) ==
  IF e.err # "" THEN [NoUnexpectedError |-> FALSE]
  ELSE IF ~(/\ Len(e.blocks) = Len(e.rh) /\ \A a \in DOMAIN e.blocks : Len(e.blocks[a]) = Len(e.cw)
            /\ \A a \in DOMAIN e.blocks : \A b \in DOMAIN e.blocks[a] : e.blocks[a][b] = <<>> \/ IsMat(e.blocks[a][b], e.rh[a], e.cw[b]))
       THEN [WellFormed |-> FALSE]
  ELSE [NoUnexpectedError |-> TRUE, WellFormed |-> TRUE,
        BmatAgrees |-> BmatAgrees(e.blocks, e.rh, e.cw, e.dense),
        BmatBlockOffsets |-> BmatBlockOffsets(e.cw, e.offs)]

CBClauses(e) ==
  IF e.err # "" THEN [NoUnexpectedError |-> FALSE]
  ELSE IF ~(/\ BasisShapeWF(e.Bc) /\ \A n \in DOMAIN e.Bs : BasisShapeWF(e.Bs[n]) /\ Len(e.coff) = Len(e.Bs)
            /\ Len(e.Bs) >= 1 /\ Len(e.x) = e.Bc.N)
       THEN [WellFormed |-> FALSE]
  ELSE LET off(m) == IF e.equal = 1 THEN 0 ELSE SumN(m - 1, LAMBDA a : e.Bs[a].N)
           sub(m) == [p \in 1..e.Bs[m].N |-> e.x[off(m) + p]]
       IN [NoUnexpectedError |-> TRUE, WellFormed |-> TRUE, EntriesIntegral |-> e.exact = 1,
           CompositeBasisOffsets |-> CompositeBasisOffsets(e.Bc, e.Bs, e.equal, e.coff),
           \* interpolate(x) of the combination is, part by part, interpolate of the part with its share of x
           SplitInterpolateCommutes |->
              /\ e.ierr = "" /\ Len(e.whole) = Len(e.Bs)
              /\ \A m \in DOMAIN e.Bs :
                   /\ off(m) + e.Bs[m].N <= Len(e.x)
                   /\ IsTable3(e.whole[m], e.Bs[m].nc, e.Bs[m].nel, e.Bs[m].nq)
                   /\ LET def == Interp(e.Bs[m], sub(m)) IN
                      \A c \in 1..e.Bs[m].nc : \A k \in 1..e.Bs[m].nel : \A q \in 1..e.Bs[m].nq : e.whole[m][c][k][q] = def[c][k][q],
           SplitPartitions |-> /\ e.serr = "" /\ Len(e.splitlens) = Len(e.Bs)
                               /\ \A m \in DOMAIN e.Bs : e.splitlens[m] = e.Bs[m].N]
          @@ (IF e.hasblocks = 1 /\ MatWF(e.A) /\ \A b \in DOMAIN e.blocks : MatWF(e.blocks[b].A)
              THEN [BlockMatrixEqualsCoupled |->
                      BlockMatrixEqualsCoupled(e.A, e.blocks, [m \in DOMAIN e.Bs |-> [p \in 1..e.Bs[m].N |-> off(m) + p]])]
              ELSE <<>>)

LawClauses(e) ==
  IF e.err # "" THEN [NoUnexpectedError |-> FALSE]
  ELSE IF ~(\A l \in DOMAIN e.laws : /\ FX!FxWF(e.laws[l].lhs) /\ FX!FxWF(e.laws[l].rhs) /\ FX!FxWF(e.laws[l].mag)
                                     /\ e.laws[l].mag[1] \in 0..16000)
       THEN [WellFormed |-> FALSE]
  ELSE [NoUnexpectedError |-> TRUE, WellFormed |-> TRUE]
       @@ [nm \in {e.laws[l].name : l \in DOMAIN e.laws} |->
             \A l \in DOMAIN e.laws : e.laws[l].name = nm =>
                FX!FxNear(e.laws[l].lhs, e.laws[l].rhs, FX!FxMulSmall(TolSum, e.laws[l].mag[1] + 1))]

Clauses(e) ==
  CASE e.a = "Split" -> SplitClauses(e)
    [] e.a = "Block" -> BlockClauses(e)
    [] e.a = "List"  -> ListClauses(e)
    [] e.a = "Coo"   -> CooClauses(e)
    [] e.a = "Bmat"  -> BmatClauses(e)
    [] e.a = "CB"    -> CBClauses(e)
    [] e.a = "Law"   -> LawClauses(e)

Bump(c, r) == [k \in DOMAIN c \cup DOMAIN r |->
                 (IF k \in DOMAIN c THEN c[k] ELSE 0) + (IF k \in DOMAIN r THEN 1 ELSE 0)]
Init == i = 1 /\ bad = <<>> /\ cnt = <<>>
Step == /\ i <= NEv
        /\ LET e == Events[i]
               r == Clauses(e)
           IN /\ bad' = bad \o [k \in 1..Cardinality(Failed(r)) |->
                                  [sid |-> e.sid, pos |-> e.pos, clause |-> SetToSeq(Failed(r))[k]]]
              /\ cnt' = Bump(cnt, r)
        /\ i' = i + 1
Finish == /\ i = NEv + 1
          /\ JsonSerialize(IOEnv.OUT_FILE, [consumed |-> NEv, bad |-> bad, cnt |-> cnt])
          /\ i' = NEv + 2
          /\ UNCHANGED <<bad, cnt>>
Next == Step \/ Finish
Spec == Init /\ [][Next]_vars
==============================================================================
