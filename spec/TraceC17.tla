------------------------------ MODULE TraceC17 ------------------------------
(* code -> spec: validates save/load round trips recorded from the real code   *)
(* (harness/props/c17.py) against the C17 clauses of TagCodec.  One event =    *)
(* one mesh with tags exported through one format and loaded back:             *)
(*   fmt, codec ("celldata": meshio formats, tags as per-cell integers;        *)
(*   "dict": to_dict / JSON; "npz"), err, pre, post (abstract meshes),         *)
(*   conn (the code's t2f / f2t of the exported mesh), ud_pre / ud_post (user   *)
(*   data), ck_pre / ck_post (checksums of the exported mesh's arrays).        *)
(*                                                                             *)
(* Histories: an event with step = 2 is the second save / load of a history -  *)
(* pre is the LOADED mesh of the step-1 event after existing tag names were    *)
(* re-defined (other entity sets, other flags), exported together with all the *)
(* data the first file gave back (the old "skfem:*" arrays included); the same *)
(* clauses apply: the tags that come back are those of the mesh that was saved.*)
(* udck_pre / udck_post: checksums of the user's own arrays inside the         *)
(* dictionaries handed to the export, before and after it.                     *)
(*                                                                             *)
(* An event with a = "Export" is an export that was never read back (recorded  *)
(* from the repository's own tests): only the clauses about the export call    *)
(* itself apply (ExportDoesNotAlterMesh, UserArraysNotModified).               *)
(*                                                                             *)
(* Model drift (evidence only): the transcription DecodeImpl(EncodeImpl(.)),    *)
(* evaluated on the code's own t2f / f2t tables, is compared with what the     *)
(* code returned (index arrays and flags); counted, never a verdict.           *)
EXTENDS TagCodec

Batch  == JsonDeserialize(IOEnv.TRACE_FILE)
Events == Batch.events
N      == Len(Events)

VARIABLES i, bad, cnt
vars == <<i, bad, cnt>>

ConnOK(e) == /\ e.conn.ok = 1 /\ Len(e.conn.t2f) = Len(e.pre.t) /\ Len(e.conn.f2t) = e.pre.nf
             /\ \A k \in DOMAIN e.conn.t2f : /\ Len(e.conn.t2f[k]) = NSlots(e.pre.kind)
                                             /\ \A s \in DOMAIN e.conn.t2f[k] : e.conn.t2f[k][s] \in 1..e.pre.nf
             /\ \A f \in DOMAIN e.conn.f2t : /\ Len(e.conn.f2t[f]) = 2 /\ e.conn.f2t[f][1] \in 1..Len(e.pre.t)
                                             /\ e.conn.f2t[f][2] \in 0..Len(e.pre.t)
             /\ \A j \in DOMAIN e.pre.bnd : \A q \in DOMAIN e.pre.bnd[j].ids :
                   e.pre.bnd[j].ori[q] = 0 \/ e.conn.f2t[e.pre.bnd[j].ids[q]][2] # 0     \* legal flags only

\* what DecodeImpl(EncodeImpl(.)) of the current code predicts for the boundary named n, from the code's own tables
Predicted(e, n) ==
  LET b  == BndOf(e.pre, n)
      ns == NSlots(e.pre.kind)
  IN DecodeBoundaryImpl(e.conn, ns, EncodeBoundaryImpl(e.conn, ns, [ids |-> b.ids, ori |-> b.ori]))
AsTranscribed(e) == /\ BndNames(e.pre) = BndNames(e.post)
                    /\ \A n \in BndNames(e.pre) :
                         LET d == Predicted(e, n) b2 == BndOf(e.post, n) IN d.ids = b2.ids /\ d.ori = b2.ori
\* the export must not write into the arrays the user handed over (the operands of the call besides the mesh)
UserArraysNotModified(e) == e.udck_pre = e.udck_post

\* the document the harness wrote has the shape this specification reads (evaluated first)
EventFields == {"a", "fmt", "codec", "err", "step", "pre", "post", "conn", "ud_pre", "ud_post", "ck_pre", "ck_post",
                "udck_pre", "udck_post", "sid", "pos"}
MeshFields  == {"kind", "cls", "p", "t", "tt", "nv", "nf", "hass", "hasb", "sub", "bnd"}
HarnessInputWellFormed(e) ==
  /\ EventFields \subseteq DOMAIN e
  /\ MeshFields \subseteq DOMAIN e.pre /\ MeshFields \subseteq DOMAIN e.post
  /\ {"ok", "t2f", "f2t"} \subseteq DOMAIN e.conn

Clauses(e) ==
  IF ~HarnessInputWellFormed(e) THEN [HarnessInputWellFormed |-> FALSE]
  ELSE IF e.err # "" THEN [NoUnexpectedError |-> FALSE]
  ELSE IF e.a = "Export" THEN [ NoUnexpectedError |-> TRUE,
                                ExportDoesNotAlterMesh |-> ExportDoesNotAlterMesh(e),
                                UserArraysNotModified |-> UserArraysNotModified(e) ]
  ELSE LET base == RoundTripClauses(e.pre, e.post) IN
       IF ~base.WellFormed THEN base @@ [NoUnexpectedError |-> TRUE]
       ELSE base @@ [ NoUnexpectedError |-> TRUE,
                      UserDataUnchanged |-> UserDataUnchanged(e),
                      UserArraysNotModified |-> UserArraysNotModified(e),
                      ExportDoesNotAlterMesh |-> ExportDoesNotAlterMesh(e) ]

\* model drift (evidence only, never a verdict): does the transcription predict what the code returned?
Drift(e) ==
  IF HarnessInputWellFormed(e) /\ e.a = "RT" /\ e.err = "" /\ e.codec = "celldata" /\ RTWellFormed(e.pre) /\ RTWellFormed(e.post) /\ ConnOK(e)
  THEN IF AsTranscribed(e) THEN [Drift_checked |-> TRUE] ELSE [Drift_checked |-> TRUE, Drift_mismatch |-> TRUE]
  ELSE <<>>

Bump(c, r) == [k \in DOMAIN c \cup DOMAIN r |->
                 (IF k \in DOMAIN c THEN c[k] ELSE 0) + (IF k \in DOMAIN r THEN 1 ELSE 0)]

Init == i = 1 /\ bad = <<>> /\ cnt = <<>>

Step == /\ i <= N
        /\ LET e == Events[i]
               r == Clauses(e)
           IN /\ bad' = bad \o [k \in 1..Cardinality(Failed(r)) |->
                                  [sid |-> e.sid, pos |-> e.pos, clause |-> SetToSeq(Failed(r))[k]]]
              /\ cnt' = Bump(Bump(cnt, r), Drift(e))
        /\ i' = i + 1

Finish == /\ i = N + 1
          /\ JsonSerialize(IOEnv.OUT_FILE, [consumed |-> N, bad |-> bad, cnt |-> cnt])
          /\ i' = N + 2
          /\ UNCHANGED <<bad, cnt>>

Next == Step \/ Finish
Spec == Init /\ [][Next]_vars
==============================================================================
