SPECIFICATION Spec
CONSTANT Decoder = "old"
INVARIANT RoundTripHolds
CHECK_DEADLOCK FALSE
