----------------------------- MODULE AssemblySem -----------------------------
(* Semantics of finite element assembly in scikit-fem (property C01) and the    *)
(* transcription of the serial bookkeeping of                                    *)
(*   skfem/assembly/form/bilinear_form.py:58-128   (SerialAssembleImpl)          *)
(*   skfem/assembly/form/linear_form.py:18-49      (LinearAssembleImpl)          *)
(*   skfem/assembly/form/functional.py:19-61       (FunctionalImpl)              *)
(*   skfem/assembly/form/coo_data.py:28-36         (ToCSRImpl)                   *)
(*   skfem/assembly/basis/abstract_basis.py:271-322 (InterpolateImpl).           *)
(*                                                                               *)
(* Everything is an integer.  An abstract basis is                               *)
(*   B = [nb, nel, nq, N, nc, edofs[i][k], phi[i][c][k][q], sphi, dx[k][q], sdx] *)
(* nb local functions, nel cells (or facets), nq quadrature points, N global     *)
(* DOFs (1-based ids), nc scalar components of a basis function (value           *)
(* components first, then - when recorded - derivative components).  The true    *)
(* value of component c of local function i at point q of cell k is              *)
(* phi[i][c][k][q] / sphi, the true quadrature weight times |det| is             *)
(* dx[k][q] / sdx; sphi, sdx are powers of two stated by the event.              *)
(*                                                                               *)
(* An integrand is a term of the grammar                                         *)
(*   <<"u", c>> | <<"v", c>> | <<"f", name, c>> | <<"p", name>> | <<"k", n>>     *)
(*   | <<"*", a, b>> | <<"+", a, b>>                                             *)
(* u / v = component c of the trial / test function, f = component c of a named  *)
(* coefficient field given at the quadrature points (keyword argument, DOF       *)
(* vector interpolated by the code, or a default such as w.x, w.n), p = named    *)
(* scalar parameter, k = integer literal.  The harness interprets the same term  *)
(* as a Python callable; here it gets its integer meaning.                        *)
EXTENDS Prelude

\* sum of T(1) + ... + T(n)
SumN(n, T(_)) == LET S[m \in 0..n] == IF m = 0 THEN 0 ELSE S[m - 1] + T(m) IN S[n]

\* ---------------------------------------------------------------------------
\* well-formedness (evaluated first: malformed output must not crash TLC)
IsTable3(x, n1, n2, n3) ==
  /\ Len(x) = n1
  /\ \A a \in 1..n1 : /\ Len(x[a]) = n2
                      /\ \A b \in 1..n2 : Len(x[a][b]) = n3
BasisWF(B) ==
  /\ B.nb >= 1 /\ B.nel >= 1 /\ B.nq >= 1 /\ B.N >= 1 /\ B.nc >= 1 /\ B.sphi >= 1 /\ B.sdx >= 1
  /\ Len(B.edofs) = B.nb
  /\ \A i \in 1..B.nb : Len(B.edofs[i]) = B.nel /\ \A k \in 1..B.nel : B.edofs[i][k] \in 1..B.N
  /\ Len(B.phi) = B.nb
  /\ \A i \in 1..B.nb : IsTable3(B.phi[i], B.nc, B.nel, B.nq)
  /\ Len(B.dx) = B.nel /\ \A k \in 1..B.nel : Len(B.dx[k]) = B.nq

\* env = [fld |-> name :> [nc, s, val[c][k][q]], prm |-> name :> integer]
FieldWF(f, nel, nq) == f.nc >= 1 /\ f.s >= 1 /\ IsTable3(f.val, f.nc, nel, nq)
EnvWF(env, nel, nq) == \A n \in DOMAIN env.fld : FieldWF(env.fld[n], nel, nq)

RECURSIVE TermWF(_, _, _, _)
TermWF(t, ncu, ncv, env) ==
  CASE t[1] = "u" -> t[2] \in 1..ncu
    [] t[1] = "v" -> t[2] \in 1..ncv
    [] t[1] = "f" -> t[2] \in DOMAIN env.fld /\ t[3] \in 1..env.fld[t[2]].nc
    [] t[1] = "p" -> t[2] \in DOMAIN env.prm
    [] t[1] = "k" -> TRUE
    [] t[1] \in {"*", "+"} -> TermWF(t[2], ncu, ncv, env) /\ TermWF(t[3], ncu, ncv, env)
    [] OTHER -> FALSE

\* ---------------------------------------------------------------------------
\* integer meaning of a term.  First pass: the power-of-two scale of every
\* sub-term (a sum is brought to the larger scale of its operands).
RECURSIVE NormT(_, _, _, _)
NormT(t, su, sv, env) ==
  CASE t[1] = "u" -> [t |-> t, s |-> su]
    [] t[1] = "v" -> [t |-> t, s |-> sv]
    [] t[1] = "f" -> [t |-> t, s |-> env.fld[t[2]].s]
    [] t[1] = "p" -> [t |-> t, s |-> 1]
    [] t[1] = "k" -> [t |-> t, s |-> 1]
    [] t[1] = "*" -> LET a == NormT(t[2], su, sv, env)  b == NormT(t[3], su, sv, env)
                     IN [t |-> <<"*", a.t, b.t>>, s |-> a.s * b.s]
    [] t[1] = "+" -> LET a == NormT(t[2], su, sv, env)  b == NormT(t[3], su, sv, env)
                         s == Max2(a.s, b.s)
                     IN [t |-> <<"+", a.t, b.t, s \div a.s, s \div b.s>>, s |-> s]

\* value of the normalised term at point q of cell k; U, V are [c][k][q] tables
RECURSIVE EvalN(_, _, _, _, _, _)
EvalN(t, U, V, env, k, q) ==
  CASE t[1] = "u" -> U[t[2]][k][q]
    [] t[1] = "v" -> V[t[2]][k][q]
    [] t[1] = "f" -> env.fld[t[2]].val[t[3]][k][q]
    [] t[1] = "p" -> env.prm[t[2]]
    [] t[1] = "k" -> t[2]
    [] t[1] = "*" -> EvalN(t[2], U, V, env, k, q) * EvalN(t[3], U, V, env, k, q)
    [] t[1] = "+" -> t[4] * EvalN(t[2], U, V, env, k, q) + t[5] * EvalN(t[3], U, V, env, k, q)

\* np.sum(form(...) * dx, axis=1)[k]        (bilinear_form.py:147, linear_form.py:49, functional.py:29)
Kernel(t, U, V, env, dx, nq, k) == SumN(nq, LAMBDA q : EvalN(t, U, V, env, k, q) * dx[k][q])

NoField == <<>>             \* a form type without trial (test) function never evaluates "u" ("v")

\* ---------------------------------------------------------------------------
\* definitional semantics (what C01 calls "the same integrand evaluated on those
\* functions and summed with the basis' quadrature")
\* scale of the assembled tensor: Scale(F) * sdx
FormScale(F, Bu, Bv, env) == NormT(F, Bu.sphi, Bv.sphi, env).s * Bu.sdx

\* local tensors  Loc[k][i][j]  (i test, j trial), memoised
BilLocal(F, Bu, Bv, env) ==
  LET n == NormT(F, Bu.sphi, Bv.sphi, env).t IN
  TLCEval([k \in 1..Bu.nel |-> TLCEval([i \in 1..Bv.nb |-> TLCEval([j \in 1..Bu.nb |->
      Kernel(n, Bu.phi[j], Bv.phi[i], env, Bu.dx, Bu.nq, k)])])])
Hits(B) ==    \* Hits(B)[d] = set of <<k, i>> with edofs[i][k] = d
  TLCEval([d \in 1..B.N |-> {ki \in (1..B.nel) \X (1..B.nb) : B.edofs[ki[2]][ki[1]] = d}])
\* Bil(F,Bu,Bv)[r][c] = sum over cells k and local pairs (i, j) with ev[i][k] = r, eu[j][k] = c
BilEntry(loc, hv, hu, r, c) ==
  LET P == {x \in hv[r] \X hu[c] : x[1][1] = x[2][1]}
      g == [x \in P |-> loc[x[1][1]][x[1][2]][x[2][2]]]
  IN SumOver(g, P)
BilCandidates(Bu, Bv) == {<<Bv.edofs[i][k], Bu.edofs[j][k]>> : i \in 1..Bv.nb, j \in 1..Bu.nb, k \in 1..Bu.nel}
\* dense definitional matrix (used on the small model universes)
BilDense(F, Bu, Bv, env) ==
  LET loc == BilLocal(F, Bu, Bv, env)  hv == Hits(Bv)  hu == Hits(Bu) IN
  [r \in 1..Bv.N |-> [c \in 1..Bu.N |-> BilEntry(loc, hv, hu, r, c)]]

LinLocal(F, Bv, env) ==
  LET n == NormT(F, 1, Bv.sphi, env).t IN
  TLCEval([k \in 1..Bv.nel |-> TLCEval([i \in 1..Bv.nb |-> Kernel(n, NoField, Bv.phi[i], env, Bv.dx, Bv.nq, k)])])
LinVec(F, Bv, env) ==
  LET loc == LinLocal(F, Bv, env)  hv == Hits(Bv) IN
  [r \in 1..Bv.N |-> SumOver([x \in hv[r] |-> loc[x[1]][x[2]]], hv[r])]

\* Interp(B,u)[c][k][q] = sum_i u[edofs[i][k]] * phi[i][c][k][q]        (scale sphi)
Interp(B, u) ==
  TLCEval([c \in 1..B.nc |-> TLCEval([k \in 1..B.nel |-> TLCEval([q \in 1..B.nq |->
      SumN(B.nb, LAMBDA i : u[B.edofs[i][k]] * B.phi[i][c][k][q])])])])

\* functional per cell and in total; U, V are tables standing for "u", "v" (interpolated functions)
FunElemental(F, U, V, su, sv, B, env) ==
  LET n == NormT(F, su, sv, env).t IN
  [k \in 1..B.nel |-> Kernel(n, U, V, env, B.dx, B.nq, k)]
FunValue(F, U, V, su, sv, B, env) ==
  LET el == FunElemental(F, U, V, su, sv, B, env) IN SumN(B.nel, LAMBDA k : el[k])

\* ---------------------------------------------------------------------------
\* reported tensors.  A matrix is [shape |-> <<nr, nc>>, trip |-> sequence of <<r, c, val>>]
\* (CSR pattern with values, or raw COO triplets: duplicates are summed by every reader).
MatWF(A) == /\ Len(A.shape) = 2
            /\ \A n \in DOMAIN A.trip : Len(A.trip[n]) = 3 /\ A.trip[n][1] \in 1..A.shape[1] /\ A.trip[n][2] \in 1..A.shape[2]
MatPos(A)  == {<<A.trip[n][1], A.trip[n][2]>> : n \in DOMAIN A.trip}
MatAt(A, r, c) == LET S == {n \in DOMAIN A.trip : A.trip[n][1] = r /\ A.trip[n][2] = c}
                  IN SumOver([n \in S |-> A.trip[n][3]], S)
MatDense(A) == [r \in 1..A.shape[1] |-> [c \in 1..A.shape[2] |-> MatAt(A, r, c)]]
\* v^T A u and A u
Pairing(A, v, u) == SumN(Len(A.trip), LAMBDA n : A.trip[n][3] * v[A.trip[n][1]] * u[A.trip[n][2]])
Dot(b, v)        == SumN(Len(b), LAMBDA r : b[r] * v[r])

\* ---------------------------------------------------------------------------
\* C01 clauses (relational: phrased on what was returned, against the definitions)
\* BilinearRepresents: entrywise equality with Bil, which by bilinearity is  v^T A u = a(u_h, v_h)  for all u, v
BilinearRepresentsL(A, loc, hv, hu, Bu, Bv) ==
  LET pos == MatPos(A)
      nodup == Cardinality(pos) = Len(A.trip)
  IN /\ A.shape = <<Bv.N, Bu.N>>
     /\ IF nodup THEN \A n \in DOMAIN A.trip : A.trip[n][3] = BilEntry(loc, hv, hu, A.trip[n][1], A.trip[n][2])
                 ELSE \A x \in pos : MatAt(A, x[1], x[2]) = BilEntry(loc, hv, hu, x[1], x[2])
     /\ \A x \in BilCandidates(Bu, Bv) \ pos : BilEntry(loc, hv, hu, x[1], x[2]) = 0
BilinearRepresents(A, F, Bu, Bv, env) == BilinearRepresentsL(A, BilLocal(F, Bu, Bv, env), Hits(Bv), Hits(Bu), Bu, Bv)
\* two reported matrices are the same matrix (duplicates summed, explicit zeros irrelevant)
SameMatrix(A1, A2) == /\ A1.shape = A2.shape
                      /\ \A x \in MatPos(A1) \cup MatPos(A2) : MatAt(A1, x[1], x[2]) = MatAt(A2, x[1], x[2])
\* RowsAreTest: rows index test functions, columns trial functions (shape and sparsity pattern)
RowsAreTest(A, Bu, Bv) ==
  /\ A.shape = <<Bv.N, Bu.N>>
  /\ \A x \in MatPos(A) : MatAt(A, x[1], x[2]) # 0 =>
        \E k \in 1..Bu.nel : (\E i \in 1..Bv.nb : Bv.edofs[i][k] = x[1]) /\ (\E j \in 1..Bu.nb : Bu.edofs[j][k] = x[2])
LinearRepresents(b, F, Bv, env)  == Len(b) = Bv.N /\ b = LinVec(F, Bv, env)
FunctionalRepresents(s, F, U, V, su, sv, B, env) == s = FunValue(F, U, V, su, sv, B, env)
ElementalRepresents(el, F, U, V, su, sv, B, env) == Len(el) = B.nel /\ el = FunElemental(F, U, V, su, sv, B, env)
InterpolateRepresents(fld, B, u) ==
  IsTable3(fld, B.nc, B.nel, B.nq) /\ \A c \in 1..B.nc : \A k \in 1..B.nel : \A q \in 1..B.nq : fld[c][k][q] = Interp(B, u)[c][k][q]
\* Consistent: the three form types and interpolate agree with each other:
\*   v^T A u = Functional(F(interpolate u, interpolate v)),   b^T v = Functional(F(interpolate v))
\* (s is the scalar the code's Functional returned for the fields the code's interpolate returned)
ConsistentBil(A, u, v, s) == Pairing(A, v, u) = s
ConsistentLin(b, v, s)    == Dot(b, v) = s

\* ---------------------------------------------------------------------------
\* transcription of the serial kernels ("Impl"): explicit loops, slices and flatten orders.
\* Arrays are 0-based functions like in the code.
LoopPairs(NU, NV) ==           \* for j in range(NU): for i in range(NV)          bilinear_form.py:86-87
  [n \in 1..(NU * NV) |-> [j |-> (n - 1) \div NV, i |-> (n - 1) % NV]]
\* sequential slice writes  arr[start(p) : start(p)+nt] = val(p)  for p = pairs[1], pairs[2], ... :
\* position x finally holds what the LAST loop iteration whose slice contains x wrote (0 if none did)
LastWriter(pairs, x, InSlice(_, _)) ==
  LET W == {m \in DOMAIN pairs : InSlice(pairs[m], x)} IN IF W = {} THEN 0 ELSE MaxSet(W)

\* mut = "none" is the code; the other values are seeded deviations of the transcription, used only to show
\* that the clauses reject them on the model universe (MC_C01 with MC_MUT set)
SerialAssembleImplM(F, Bu, Bv, env, mut) ==
  LET nt  == Bu.nel                                        \* :71
      NU  == Bu.nb   NV == Bv.nb
      sz  == NU * NV * nt                                  \* :79
      n   == NormT(F, Bu.sphi, Bv.sphi, env).t
      pairs == LoopPairs(NU, NV)
      start(p) == IF mut = "stride" THEN nt * (NU * p.j + p.i)
                  ELSE nt * (NV * p.j + p.i)               \* :88-89  ixs = slice(nt*(NV*j+i), nt*(NV*j+i+1))
      inslice(p, x) == x >= start(p) /\ x < start(p) + nt
      zeros == [x \in 0..(sz - 1) |-> 0]                   \* :81-82
      rows == [x \in 0..(sz - 1) |->                       \* :90  rows[ixs] = vbasis.element_dofs[i]
                 LET m == LastWriter(pairs, x, inslice) IN
                 IF m = 0 THEN zeros[x] ELSE Bv.edofs[pairs[m].i + 1][x - start(pairs[m]) + 1]]
      cols == [x \in 0..(sz - 1) |->                       \* :91  cols[ixs] = ubasis.element_dofs[j]
                 LET m == LastWriter(pairs, x, inslice) IN
                 IF m = 0 THEN zeros[x] ELSE Bu.edofs[pairs[m].j + 1][x - start(pairs[m]) + 1]]
      \* :92-98  data[j, i, :] = kernel(ubasis.basis[j], vbasis.basis[i], w, dx)
      data3 == [j \in 0..(NU - 1) |-> [i \in 0..(NV - 1) |-> [k \in 0..(nt - 1) |->
                  Kernel(n, Bu.phi[j + 1], Bv.phi[i + 1], env, Bu.dx, Bu.nq, k + 1)]]]
      \* :122 data.flatten('C') of an array of shape (NU, NV, nt)
      data == [x \in 0..(sz - 1) |->
                 IF mut = "flatF" THEN data3[x % NU][(x \div NU) % NV][x \div (NU * NV)]
                 ELSE data3[x \div (NV * nt)][(x \div nt) % NV][x % nt]]
  IN [rows |-> IF mut = "swap" THEN cols ELSE rows, cols |-> IF mut = "swap" THEN rows ELSE cols,
      data |-> data, n |-> sz,
      shape |-> IF mut = "swap" THEN <<Bu.N, Bv.N>> ELSE <<Bv.N, Bu.N>>, lshape |-> <<NV, NU>>]      \* :124-129
SerialAssembleImpl(F, Bu, Bv, env) == SerialAssembleImplM(F, Bu, Bv, env, "none")

\* COOData._assemble_scipy_csr (coo_data.py:28-36): coo_matrix(...); eliminate_zeros(); tocsr() sums duplicates
ToCSRImpl(coo) ==
  LET keep == {x \in 0..(coo.n - 1) : coo.data[x] # 0}     \* eliminate_zeros on the triplets
      pos  == {<<coo.rows[x], coo.cols[x]>> : x \in keep}
      val(p) == LET S == {x \in keep : coo.rows[x] = p[1] /\ coo.cols[x] = p[2]} IN SumOver([x \in S |-> coo.data[x]], S)
      ps   == SetToSeq(pos)
  IN [shape |-> coo.shape, trip |-> [m \in 1..Len(ps) |-> <<ps[m][1], ps[m][2], val(ps[m])>>]]
CooAsMat(coo) == [shape |-> coo.shape, trip |-> [m \in 1..coo.n |-> <<coo.rows[m - 1], coo.cols[m - 1], coo.data[m - 1]>>]]

LinearAssembleImpl(F, Bv, env) ==                           \* linear_form.py:18-49
  LET nt == Bv.nel
      sz == Bv.nb * nt                                     \* :36
      n  == NormT(F, 1, Bv.sphi, env).t
      I(x) == x \div nt                                    \* :40-41 for i: ixs = slice(nt*i, nt*(i+1))
      rows == [x \in 0..(sz - 1) |-> Bv.edofs[I(x) + 1][(x % nt) + 1]]                                \* :42
      data == [x \in 0..(sz - 1) |-> Kernel(n, NoField, Bv.phi[I(x) + 1], env, Bv.dx, Bv.nq, (x % nt) + 1)]  \* :43
  IN [rows |-> rows, data |-> data, n |-> sz, shape |-> <<Bv.N>>]
\* COOData.toarray for 1-tensors (coo_data.py:103-108): duplicates are summed
ToVectorImpl(coo) ==
  [r \in 1..coo.shape[1] |-> LET S == {x \in 0..(coo.n - 1) : coo.rows[x] = r} IN SumOver([x \in S |-> coo.data[x]], S)]

FunctionalImpl(F, U, V, su, sv, B, env) ==                  \* functional.py:24-61: (form(w) * dx).sum(-1), then .sum(-1)
  LET n  == NormT(F, su, sv, env).t
      el == [k \in 1..B.nel |-> Kernel(n, U, V, env, B.dx, B.nq, k)]
  IN [elemental |-> el, value |-> SumN(B.nel, LAMBDA k : el[k])]

\* AbstractBasis.interpolate (abstract_basis.py:271-322): per component c, out = 0 * (w[edofs[0]] x basis[0][c]);
\* for i in range(Nbfun): out += w[edofs[i]] * basis[i][c]
InterpolateImpl(B, w) ==
  [c \in 1..B.nc |-> [k \in 1..B.nel |-> [q \in 1..B.nq |->
     LET acc[i \in 0..B.nb] == IF i = 0 THEN 0 * (w[B.edofs[1][k]] * B.phi[1][c][k][q])
                               ELSE acc[i - 1] + w[B.edofs[i][k]] * B.phi[i][c][k][q]
     IN acc[B.nb]]]]
==============================================================================
