------------------------------- MODULE MC_C01 -------------------------------
(* Design-level check of C01: for every small abstract pair of bases          *)
(* (nb_u, nb_v in 1..3 in all rectangular combinations, 1..2 cells, 1..2       *)
(* quadrature points, every cell->DOF table up to renaming of the DOFs, N <= 4)*)
(* the transcriptions of BilinearForm._assemble / LinearForm._assemble /        *)
(* Functional / COO->CSR / interpolate satisfy every C01 clause.  The basis    *)
(* values, weights and coefficient values are an injective coding by distinct  *)
(* primes, so a misplaced entry (wrong slice, flatten order, row/column swap)  *)
(* changes the result.                                                         *)
EXTENDS AssemblySem

Primes == <<2, 3, 5, 7, 11, 13, 17, 19, 23, 29, 31, 37, 41, 43, 47, 53, 59, 61, 67, 71, 73, 79, 83, 89>>
\* injective coding of (i, k, q) with i <= 3, k <= 2, q <= 2 by distinct primes (trial: the first twelve, test: the
\* next twelve, so every product phi_u * phi_v identifies (j, i, k, q)); a second component is shifted by 40
Code(i, k, q) == ((i - 1) * 2 + (k - 1)) * 2 + q
MkBasis(nb, nc, nel, nq, N, ed, off) ==
  [nb |-> nb, nel |-> nel, nq |-> nq, N |-> N, nc |-> nc, edofs |-> ed, sphi |-> 1, sdx |-> 1,
   phi |-> [i \in 1..nb |-> [c \in 1..nc |-> [k \in 1..nel |-> [q \in 1..nq |-> Primes[off + Code(i, k, q)] + 40 * (c - 1)]]]],
   dx  |-> [k \in 1..nel |-> [q \in 1..nq |-> <<<<1, 2>>, <<3, 5>>>>[k][q]]]]

\* cell->DOF tables edofs[i][k]; renaming DOFs is a symmetry of every clause, so the first cell is canonical
Canon(nb) == CASE nb = 1 -> {<<1>>}
               [] nb = 2 -> {<<1, 1>>, <<1, 2>>}
               [] nb = 3 -> {<<1, 1, 1>>, <<1, 1, 2>>, <<1, 2, 1>>, <<1, 2, 2>>, <<1, 2, 3>>}
Tables(nb, nel, N) ==
  IF nel = 1 THEN {[i \in 1..nb |-> <<f[i]>>] : f \in [1..nb -> 1..N]}
  ELSE {[i \in 1..nb |-> <<c1[i], c2[i]>>] : c1 \in Canon(nb), c2 \in [1..nb -> 1..N]}

\* coefficient field c (one component, scale 1), keyword given as DOF vector of the TRIAL basis, scalar alpha
CVec(N) == [d \in 1..N |-> <<1, -1, 2, 1>>[d]]
Fld(nel, nq) == [nc |-> 1, s |-> 1, val |-> <<[k \in 1..nel |-> [q \in 1..nq |-> <<<<2, 3>>, <<5, 4>>>>[k][q]]]>>]
EnvOf(Bu) == [fld |-> [c |-> Fld(Bu.nel, Bu.nq),
                       d |-> [nc |-> Bu.nc, s |-> 1, val |-> InterpolateImpl(Bu, CVec(Bu.N))]],   \* form.py:110-112
              prm |-> [alpha |-> 2]]

\* integrands (non-symmetric; linear in each argument)
BilTerms(ncu) ==
  {<<"*", <<"u", 1>>, <<"v", 1>>>>,
   <<"+", <<"*", <<"f", "c", 1>>, <<"*", <<"u", ncu>>, <<"v", 1>>>>>>,
          <<"*", <<"p", "alpha">>, <<"*", <<"*", <<"f", "d", 1>>, <<"u", 1>>>>, <<"v", 1>>>>>>>>}
LinTerm == <<"+", <<"*", <<"f", "c", 1>>, <<"v", 1>>>>, <<"*", <<"k", -2>>, <<"*", <<"f", "d", 1>>, <<"v", 1>>>>>>>>

Quick == ~("MC_TIER" \in DOMAIN IOEnv /\ IOEnv.MC_TIER = "thorough")
Mut   == IF "MC_MUT" \in DOMAIN IOEnv THEN IOEnv.MC_MUT ELSE "none"
Shapes == {s \in [nbu : 1..3, nbv : 1..3, nel : 1..2, nq : 1..2, ncu : 1..2] :
             Quick => ((s.ncu = 1 /\ s.nq = 2) \/ (s.ncu = 2 /\ s.nq = 1))}
TableN(s) == IF Quick \/ s.ncu = 2 \/ s.nq = 1 THEN 3 ELSE 4

\* coefficient vectors for the pairing clause (all of {-1,0,1,2}^N is covered by bilinearity once the unit
\* vectors and one dense vector agree; these are the ones evaluated)
UVecs(N) == {[d \in 1..N |-> IF d = e THEN 1 ELSE 0] : e \in 1..N} \cup {[d \in 1..N |-> <<2, -1, 1, 2>>[d]]}

VARIABLES case, failed
vars == <<case, failed>>

ClausesOf(cs) ==
  LET s   == cs.s
      Bu  == MkBasis(s.nbu, s.ncu, s.nel, s.nq, 4, cs.eu, 0)
      Bv  == MkBasis(s.nbv, 1, s.nel, s.nq, 4, cs.ev, 12)
      env == EnvOf(Bu)
      envv == EnvOf(Bv)
      coo == SerialAssembleImplM(cs.F, Bu, Bv, env, Mut)
      A   == ToCSRImpl(coo)
      lcoo == LinearAssembleImpl(LinTerm, Bv, envv)
      b   == ToVectorImpl(lcoo)
      G   == <<"*", <<"f", "c", 1>>, <<"+", <<"f", "d", 1>>, <<"p", "alpha">>>>>>
      fn  == FunctionalImpl(G, NoField, NoField, 1, 1, Bu, env)
      wf  == MatWF(A) /\ MatWF(CooAsMat(coo)) /\ A.shape = <<Bv.N, Bu.N>>
  IN IF ~wf THEN [WellFormed |-> FALSE] ELSE
     [WellFormed |-> TRUE, BilinearRepresents |-> BilinearRepresents(A, cs.F, Bu, Bv, env) /\ MatDense(A) = BilDense(cs.F, Bu, Bv, env),
      ElementalSumsToBil |-> BilinearRepresents(CooAsMat(coo), cs.F, Bu, Bv, env),
      RowsAreTest        |-> RowsAreTest(A, Bu, Bv),
      LinearRepresents   |-> LinearRepresents(b, LinTerm, Bv, envv),
      FunctionalRepresents |-> FunctionalRepresents(fn.value, G, NoField, NoField, 1, 1, Bu, env)
                               /\ ElementalRepresents(fn.elemental, G, NoField, NoField, 1, 1, Bu, env),
      InterpolateRepresents |-> InterpolateRepresents(InterpolateImpl(Bu, CVec(Bu.N)), Bu, CVec(Bu.N)),
      Consistent |-> /\ \A u \in UVecs(Bu.N) : \A v \in UVecs(Bv.N) :
                          ConsistentBil(A, u, v, FunctionalImpl(cs.F, InterpolateImpl(Bu, u), InterpolateImpl(Bv, v),
                                                                Bu.sphi, Bv.sphi, Bu, env).value)
                     /\ \A v \in UVecs(Bv.N) :
                          ConsistentLin(b, v, FunctionalImpl(LinTerm, NoField, InterpolateImpl(Bv, v), 1, Bv.sphi, Bv, envv).value),
      ShapeOK |-> A.shape = <<Bv.N, Bu.N>> /\ Len(b) = Bv.N /\ coo.n = s.nbu * s.nbv * s.nel /\ lcoo.n = s.nbv * s.nel,
      \* a keyword given as DOF vector (interpolated by the code with the trial basis, form.py:110-112) enters
      \* as the field Interp(B, vector) -- in all three form types (they share env)
      ParamsEnterIdentically |-> env.fld.d.val = Interp(Bu, CVec(Bu.N))]

\* (nested quantifiers: TLC enumerates the cases without materialising their set)
Few == {<<<<1, 2>>, <<2, 3>>, <<3, 1>>>>, <<<<1, 1>>, <<2, 2>>, <<3, 3>>>>, <<<<1, 3>>, <<2, 3>>, <<3, 2>>>>,
        <<<<1, 2>>, <<1, 1>>, <<2, 1>>>>, <<<<1, 3>>, <<2, 1>>, <<2, 2>>>>, <<<<1, 2>>, <<2, 2>>, <<1, 3>>>>}
TestTables(s) == IF Quick /\ s.nel = 2 /\ s.nbu = 3 /\ s.nbv = 3 THEN Few ELSE Tables(s.nbv, s.nel, TableN(s))
Init == /\ \E s \in Shapes : \E eu \in Tables(s.nbu, s.nel, TableN(s)) : \E ev \in TestTables(s) :
             \E F \in {G \in BilTerms(s.ncu) : Quick => G[1] = "+"} : case = [s |-> s, eu |-> eu, ev |-> ev, F |-> F]
        /\ failed = {"pending"}
Compute == /\ failed = {"pending"}
           /\ failed' = Failed(ClausesOf(case))
           /\ UNCHANGED case
Spec == Init /\ [][Compute]_vars
ClausesHold == failed \subseteq {"pending"}
==============================================================================
