------------------------------- MODULE MC_C03 -------------------------------
(* Design-level check of C03: for which (mesh constructor, family layout)     *)
(* pairs is the DESIGN direction / sign consistent?                            *)
(*                                                                             *)
(* Universe: two cells sharing a facet (triangles, quadrilaterals, tetrahedra, *)
(* hexahedra) and the 2x2 lattices, under vertex renumberings and ALL          *)
(* admissible local vertex orders (any order for simplices, cyclic shifts for  *)
(* quadrilaterals, the 24 rotations for hexahedra).  Constructors:             *)
(*   "sorted"  MeshTri1 default (sort_t = True: every cell sorted ascending)   *)
(*   "asgiven" every other class, and MeshTri1 with sort_t = False             *)
(* Which = "main"  : the pairs inside the claim - every design clause holds.   *)
(* Which = "quadp" : named deviation QuadPFacetModesUnoriented (DESIGN 7 #11): *)
(*                   several DOFs per facet on quadrilaterals under cyclic     *)
(*                   shifts - DirConsistent is violated; reported through the  *)
(*                   known-finding mechanism.                                  *)
(* Which = "quadn1pre" : regression model of ElementQuadN1 before fix f058432  *)
(*                   (reference tangents not uniformly oriented): TLC must     *)
(*                   refute SignsEqual; the current table is in "main".        *)
(* The exclusion of the statement (triangles with sort_t = False and several   *)
(* DOFs per facet) is witnessed by an ASSUME: the design fails there.          *)
EXTENDS Conformity, MC_Universe

CONSTANTS Which, Tier

HexRot == << <<1, 2, 3, 4, 5, 6, 7, 8>>, <<5, 3, 2, 8, 1, 7, 6, 4>>, <<6, 4, 8, 2, 7, 1, 5, 3>>, <<7, 8, 4, 3, 6, 5, 1, 2>>,
             <<2, 5, 1, 6, 3, 8, 4, 7>>, <<3, 1, 5, 7, 2, 4, 8, 6>>, <<4, 7, 6, 1, 8, 3, 2, 5>>, <<8, 6, 7, 5, 4, 2, 3, 1>>,
             <<2, 1, 6, 5, 4, 3, 8, 7>>, <<3, 5, 7, 1, 8, 2, 4, 6>>, <<4, 6, 1, 7, 2, 8, 3, 5>>, <<8, 7, 5, 6, 3, 4, 2, 1>>,
             <<1, 3, 4, 2, 7, 5, 6, 8>>, <<5, 2, 8, 3, 6, 1, 7, 4>>, <<6, 8, 2, 4, 5, 7, 1, 3>>, <<7, 4, 3, 8, 1, 6, 5, 2>>,
             <<1, 4, 2, 3, 6, 7, 5, 8>>, <<5, 8, 3, 2, 7, 6, 1, 4>>, <<6, 2, 4, 8, 1, 5, 7, 3>>, <<7, 3, 8, 4, 5, 1, 6, 2>>,
             <<2, 6, 5, 1, 8, 4, 3, 7>>, <<3, 7, 1, 5, 4, 8, 2, 6>>, <<4, 1, 7, 6, 3, 2, 8, 5>>, <<8, 5, 6, 7, 2, 3, 4, 1>> >>

LocalOrders(kind) ==
  CASE kind = "tri"  -> {[j \in 1..3 |-> o[j]] : o \in Permutations(1..3)}
    [] kind = "tet"  -> {[j \in 1..4 |-> o[j]] : o \in Permutations(1..4)}
    [] kind = "quad" -> {[j \in 1..4 |-> ((j - 1 + s) % 4) + 1] : s \in 0..3}
    [] kind = "hex"  -> {HexRot[r] : r \in 1..24}
Reorder(cell, o) == [j \in DOMAIN cell |-> cell[o[j]]]

\* vertex renumberings: all of them for the small pairs, three fixed ones otherwise
SafeNumberings(nv) ==
  IF nv <= 4 THEN {[v \in 1..nv |-> pi[v]] : pi \in Permutations(1..nv)}
  ELSE IF Tier = "quick" /\ nv >= 9 THEN {ReversePerm(nv)}
  ELSE IF Tier = "quick" \/ nv >= 9 THEN {[v \in 1..nv |-> v], ReversePerm(nv), RotateBy(nv, 2)}
  ELSE {[v \in 1..nv |-> v], ReversePerm(nv), RotateBy(nv, 1), RotateBy(nv, 2), RotateBy(nv, 3),
        [v \in 1..nv |-> IF v % 2 = 1 THEN (v + 1) \div 2 ELSE nv + 1 - v \div 2]}

Base ==
  [tri2   |-> SubMesh("tri", LatP, TriCells([sq \in 1..4 |-> 0]), {1, 2}),
   tri2b  |-> SubMesh("tri", LatP, TriCells([sq \in 1..4 |-> 1]), {1, 2}),
   quad2  |-> SubMesh("quad", LatP, QuadCells, {1, 2}),
   quad2v |-> SubMesh("quad", LatP, QuadCells, {1, 3}),
   quad4  |-> SubMesh("quad", LatP, QuadCells, {1, 2, 3, 4}),
   tet2   |-> SubMesh("tet", CubeP, Kuhn, {1, 2}),
   tet2b  |-> SubMesh("tet", CubeP, Five, {1, 5}),
   hex2   |-> SubMesh("hex", HexP, HexCells, {1, 2}),
   hex2v  |-> SubMesh("hex", HexP, HexCells, {1, 3})]

\* every way of handing the cells of a base mesh to the constructor: numbering pi, local order per cell
QuadShiftPatterns == [1..4 -> {[j \in 1..4 |-> ((j - 1 + s) % 4) + 1] : s \in 0..3}]
Patterns(name, m) ==
  IF name = "quad4" THEN QuadShiftPatterns
  ELSE IF Tier = "quick" /\ m.kind = "hex"
       THEN {pat \in [DOMAIN m.t -> LocalOrders(m.kind)] : pat[1] = HexRot[1] \/ pat[2] = HexRot[7]}
  ELSE IF Tier = "quick" /\ m.kind = "tri"
       THEN {pat \in [DOMAIN m.t -> LocalOrders(m.kind)] : pat[1] = <<1, 2, 3>> \/ pat[2] = <<3, 1, 2>>}
  ELSE IF Tier = "quick" /\ m.kind = "tet"
       THEN {pat \in [DOMAIN m.t -> LocalOrders(m.kind)] : pat[1] = <<1, 2, 3, 4>> \/ pat[2] = <<4, 2, 3, 1>>}
  ELSE [DOMAIN m.t -> LocalOrders(m.kind)]

Variant(m, pi, pat) ==
  LET r == Renumber(m, pi) IN
  [kind |-> m.kind, nv |-> m.nv, p |-> r.p, t |-> [k \in DOMAIN r.t |-> Reorder(r.t[k], pat[k])]]
Unshifted(m, pi) == LET r == Renumber(m, pi) IN [kind |-> m.kind, nv |-> m.nv, p |-> r.p, t |-> r.t]

\* ---- family layouts ----
Lay(name, nodal, edge, facet, interior, dirs, directed, sign) ==
  [name |-> name, nodal |-> nodal, edge |-> edge, facet |-> facet, interior |-> interior, dirs |-> dirs,
   directed |-> directed, sign |-> sign, tdirs |-> dirs]
TriDirs  == CodeLF("tri")
QuadDirs == << <<1, 2>>, <<2, 3>>, <<4, 3>>, <<1, 4>> >>           \* element_quadp.py: facet modes run along x resp. y
TriLayoutsAll ==
  {Lay("TriP2", 1, 0, 1, 0, TriDirs, FALSE, "none"), Lay("TriP3", 1, 0, 2, 1, TriDirs, TRUE, "none"),
   Lay("TriP4", 1, 0, 3, 3, TriDirs, TRUE, "none"), Lay("TriRT1", 0, 0, 1, 0, TriDirs, FALSE, "hdiv"),
   Lay("TriRT2", 0, 0, 2, 2, TriDirs, TRUE, "hdiv"), Lay("TriN1", 0, 0, 1, 0, TriDirs, FALSE, "hcurl"),
   Lay("TriN2", 0, 0, 2, 2, TriDirs, TRUE, "hcurl"), Lay("TriMorley", 1, 0, 1, 0, TriDirs, TRUE, "none"),
   Lay("TriArgyris", 6, 0, 1, 0, TriDirs, TRUE, "none")}
TriLayoutsUndirected == {L \in TriLayoutsAll : ~L.directed}
\* element_quad_n1.py lbasis (after fix f058432): the reference tangents run along the local facet direction
\* lf[s] on all four facets, which is what ElementHcurl.orient assumes
QuadN1Layout == [Lay("QuadN1", 0, 0, 1, 0, QuadDirs, FALSE, "hcurl") EXCEPT !.tdirs = CodeLF("quad")]
QuadLayouts == {Lay("Quad2", 1, 0, 1, 1, QuadDirs, FALSE, "none"), Lay("QuadRT1", 0, 0, 1, 0, QuadDirs, FALSE, "hdiv"),
                QuadN1Layout}
QuadPLayout == Lay("QuadP3", 1, 0, 2, 4, QuadDirs, TRUE, "none")
\* regression model: element_quad_n1.py BEFORE fix f058432 - the reference tangents ran 1->0, 1->2, 3->2, 0->3
\* (0-based), i.e. against the local facet direction on slots 0 and 2 and along it on slots 1 and 3.  TLC must
\* refute SignsEqual for it under cyclic shifts (Which = "quadn1pre").
QuadN1PreRepairLayout == [Lay("QuadN1pre", 0, 0, 1, 0, QuadDirs, FALSE, "hcurl") EXCEPT !.tdirs = << <<2, 1>>, <<2, 3>>, <<4, 3>>, <<1, 4>> >>]
TetLayouts  == {Lay("TetP2", 1, 1, 0, 0, <<>>, FALSE, "none"), Lay("TetCCR", 1, 1, 1, 1, <<>>, FALSE, "none"),
                Lay("TetRT1", 0, 0, 1, 0, <<>>, FALSE, "hdiv"), Lay("TetN1", 0, 1, 0, 0, <<>>, FALSE, "hcurl")}
HexLayouts  == {Lay("Hex2", 1, 1, 1, 1, <<>>, FALSE, "none"), Lay("HexRT1", 0, 0, 1, 0, <<>>, FALSE, "hdiv")}

\* ---- scenarios: [m |-> mesh as handed to the constructor, ctor, Ls |-> layouts to decide] ----
Sc(m, ctor, Ls) == [m |-> m, ctor |-> ctor, Ls |-> Ls]
AllVariants(name) == LET m == Base[name] IN {Variant(m, pi, pat) : pi \in SafeNumberings(m.nv), pat \in Patterns(name, m)}

MainScenarios ==
  {Sc(v, "sorted", TriLayoutsAll) : v \in AllVariants("tri2") \cup AllVariants("tri2b")}
  \cup {Sc(v, "asgiven", TriLayoutsUndirected) : v \in AllVariants("tri2") \cup (IF Tier = "quick" THEN {} ELSE AllVariants("tri2b"))}
  \cup {Sc(v, "asgiven", QuadLayouts) : v \in AllVariants("quad2") \cup AllVariants("quad2v") \cup AllVariants("quad4")}
  \cup UNION {{Sc(Unshifted(Base[n], pi), "asgiven", {QuadPLayout}) : pi \in SafeNumberings(Base[n].nv)} : n \in {"quad2", "quad2v", "quad4"}}
  \cup {Sc(v, "asgiven", TetLayouts) : v \in AllVariants("tet2") \cup AllVariants("tet2b")}
  \cup {Sc(v, "asgiven", HexLayouts) : v \in AllVariants("hex2") \cup AllVariants("hex2v")}
QuadPScenarios ==
  {Sc(v, "asgiven", {QuadPLayout}) : v \in AllVariants("quad2") \cup AllVariants("quad2v")}
QuadN1PreScenarios ==
  {Sc(v, "asgiven", {QuadN1PreRepairLayout}) : v \in AllVariants("quad2") \cup AllVariants("quad2v")}
Scenarios == IF Which = "main" THEN MainScenarios ELSE IF Which = "quadp" THEN QuadPScenarios ELSE QuadN1PreScenarios

\* ---- connectivity as the classes compute it (MeshTopology!BuildEntitiesImpl / BuildInverseImpl) ----
ConnLite(m, ctor) ==
  LET t  == IF ctor = "sorted" THEN SortCells(m).t ELSE m.t
      fe == BuildEntitiesImpl(t, CodeLF(m.kind), m.kind # "hex")
      ee == IF Has3D(m.kind) THEN BuildEntitiesImpl(t, CodeLE(m.kind), TRUE) ELSE [ents |-> <<>>, mapping |-> <<>>]
  IN [kind |-> m.kind, nv |-> m.nv, t |-> t, lf |-> CodeLF(m.kind), le |-> CodeLE(m.kind),
      facets |-> fe.ents, t2f |-> fe.mapping, f2t |-> BuildInverseImpl(Len(t), fe.mapping, Len(fe.ents)),
      edges |-> ee.ents, t2e |-> ee.mapping]

FailedOf(sc) ==
  LET c == ConnLite(sc.m, sc.ctor) IN
  UNION {{<<L.name, cl>> : cl \in Failed(DesignClauses(c, L))} : L \in sc.Ls}

\* the exclusion in the statement of C03 is necessary: with sort_t = False the design is NOT direction
\* consistent for several DOFs per facet
ASSUME \E v \in AllVariants("tri2") : <<"TriP3", "DirConsistent">> \in FailedOf(Sc(v, "asgiven", {Lay("TriP3", 1, 0, 2, 1, TriDirs, TRUE, "none")}))

\* export for replay on the real classes (spec -> code): the meshes only (layouts are matched to element
\* classes by the driver)
ExportSeq == SetToSeq({[kind |-> s.m.kind, ctor |-> s.ctor, p |-> s.m.p, t |-> s.m.t,
                        unshifted |-> IF QuadPLayout \in s.Ls /\ Which = "main" THEN 1 ELSE 0] : s \in Scenarios})
ASSUME IOEnv.OUT_FILE = "" \/ JsonSerialize(IOEnv.OUT_FILE, ExportSeq)

ScSeq == SetToSeq(Scenarios)
VARIABLES si, failed, done
vars == <<si, failed, done>>
Init == si \in DOMAIN ScSeq /\ failed = {} /\ done = FALSE
Compute == /\ ~done
           /\ failed' = FailedOf(ScSeq[si])
           /\ done' = TRUE
           /\ UNCHANGED si
Spec == Init /\ [][Compute]_vars

DesignConsistent == failed = {}
==============================================================================
