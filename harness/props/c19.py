"""C19 - vector, composite and block structures agree with their components.

M : spec/MC_C19.cfg - every pair / triple of component signatures (and every ElementVector) on two-cell line /
    triangle / tetrahedron meshes: transcriptions of _deduce_bfun, Dofs numbering, split_indices against
    DecodeIsBijection / SplitPartitions / CellTableMatchesComponents; COOData universes (toarray, dot, tolocal,
    fromlocal, inverse, +); bmat block offsets for 1..5 block columns.  MC_C19_bmat_old.cfg: the accumulation of
    utils.bmat before the repair 3bbf4b4 is a regression model that TLC must refute (sensitivity check).
V : real ElementVector / ElementComposite / CompositeBasis / split_indices / split_bases / interpolate,
    coupled assembly against separately assembled blocks and Form.block, asm over lists of bases, the COOData
    algebra and bmat on exact-universe bases; TraceC19 (Blocks.tla) decides exactly.
L : Gauss rules, unstructured meshes, H(div)/H(curl) components: block law and split/interpolate law as
    fixed-point pairings with tolerance TolSum.
"""
import itertools
import json
import threading
from fractions import Fraction

import numpy as np

from .. import fem
from .. import universe as U
from ..core import MachineryError
from ..fem import guarded
from ..project import fx
from . import c01_law

RULE = ('scenario = one mesh + one vector/composite element or combination of bases + one coupling integrand / '
        'one elemental-data object / one block layout; distinct = distinct (operation, mesh kind, basis kind, '
        'element, integrand or data); non-trivial = components with different DOF layouts or >= 2 cells')
BOUND = 2 ** 24


def _ints(a, s):
    return fem.to_ints(a, s, BOUND)


def _explicit(fn, n):
    """the same callable with n named positional parameters (Form.block inspects the signature)"""
    names = ', '.join(f'a{i}' for i in range(n))
    f = eval(f'lambda {names}: fn({names})', {'fn': fn})
    f.__name__ = getattr(fn, '__name__', 'form')
    return f


def _mat(A, scale):
    trip, ok = fem.csr_trip(A, scale)
    return {'shape': [int(x) for x in A.shape], 'trip': trip}, ok


def _common_scale(pis):
    s1, s2 = max(p['sphi'] for p in pis), max(p['sdx'] for p in pis)
    return [_rescale(p, s1, s2) for p in pis]


def _rescale(B, sphi, sdx):
    a, b = sphi // B['sphi'], sdx // B['sdx']
    if a == 1 and b == 1:
        return B
    return dict(B, sphi=sphi, sdx=sdx,
                phi=[[[[x * a for x in row] for row in tab] for tab in comps] for comps in B['phi']],
                dx=[[x * b for x in row] for row in B['dx']])


def _tables(fields, acc, shape, scale):
    out, ok = [], True
    for ac in acc:
        try:
            a = np.asarray(fem.comp(fields, ac), dtype=np.float64)
            t = _ints(a, scale) if a.shape == tuple(shape) else None
        except (IndexError, AttributeError, TypeError):
            t = None
        ok &= t is not None
        out.append(t or [])
    return out, ok


def vec_accessors(dim, gdim, attrs):
    """components of a vector-valued field grouped by vector component (value n, then the gradient of n)"""
    acc, coff = [], []
    for n in range(dim):
        coff.append(len(acc))
        acc.append((0, 'value', (n,)))
        if 'grad' in attrs:
            acc += [(0, 'grad', (n, j)) for j in range(gdim)]
    return acc, coff


class Skip(Exception):
    pass


# ------------------------------------------------------------------------------------------ Split events

def exec_split(rec):
    from skfem.element import ElementComposite, ElementVector
    kind = rec['mesh']['kind']
    attrs = ('value', 'grad') if rec.get('grad') else ('value',)

    def run():
        mesh = fem.make_mesh(rec['mesh'])
        basis = fem.make_basis(mesh, kind, rec['bs'])
        elem = basis.elem
        comps = basis.split_bases()
        if isinstance(elem, ElementComposite):
            if not hasattr(elem, '_deduce_bfun'):
                # the decode table is read through a private method; if a refactoring removes it the check has to be
                # adapted - that is not a statement about the property
                raise MachineryError('ElementComposite._deduce_bfun is gone: adapt harness/props/c19.py (decode observation)')
            etype = 'comp'
            acc = fem.accessors(basis.basis[0], attrs)
            coff = [sum(1 for a in acc if a[0] < n) for n in range(len(comps))]
            dec = [[int(elem._deduce_bfun(i)[0]) + 1, int(elem._deduce_bfun(i)[1]) + 1] for i in range(basis.Nbfun)]
            dim = 0
        elif isinstance(elem, ElementVector):
            etype = 'vec'
            acc, coff = vec_accessors(elem.dim, mesh.dim(), attrs)
            dec, dim = [], int(elem.dim)
        else:
            raise MachineryError('split recipe without composite/vector element')
        accs = [fem.accessors(c.basis[0], attrs) for c in comps]
        pis = [fem.basis_pi(basis, acc)] + [fem.basis_pi(c, a) for c, a in zip(comps, accs)]
        if any(p is None for p in pis):
            raise Skip('not dyadic')
        pis = _common_scale(pis)
        Bc, Bs = pis[0], pis[1:]
        split = [[int(j) + 1 for j in ix] for ix in basis.split_indices()]
        x = np.array(rec['x'], dtype=np.float64)
        whole, ok1 = _tables(basis.interpolate(x), acc, (Bc['nel'], Bc['nq']), Bc['sphi'])
        parts, ok = [], ok1
        for n, (xn, bn) in enumerate(basis.split(x)):
            t, o = _tables(bn.interpolate(xn), accs[n], (Bs[n]['nel'], Bs[n]['nq']), Bc['sphi'])
            parts.append(t)
            ok &= o
        return {'a': 'Split', 'err': '', 'exact': 1 if ok else 0, 'etype': etype, 'dim': dim, 'Bc': Bc, 'Bs': Bs,
                'coff': coff, 'dec': dec, 'split': split, 'x': [int(v) for v in rec['x']], 'whole': whole,
                'parts': parts}
    ev, err = guarded(run, 60)
    if err in ('Skip', 'TooLarge'):
        return []
    if err:
        ev = {'a': 'Split', 'err': err}
    return [ev]


# ------------------------------------------------------------------------------------------ Block events

def _block_form(F, accs, K, n, m, zeros):
    def form(u, v, w):
        Uf = tuple(u if j == m else zeros[j] for j in range(K))
        Vf = tuple(v if j == n else zeros[j] for j in range(K))
        return fem.ev_term(F, Uf, Vf, w, accs) + 0.0 * w['x'][0]
    form.__name__ = f'block_{n}_{m}'
    return form


def _env_simple(basis, Bpi, fields):
    kw, facc, fs = {}, {}, {}
    for f in fields:
        if f['kind'] == 'val':
            kw[f['name']] = np.array(f['val'], dtype=np.float64)
            facc[f['name']] = [(0, 'value', ())]
            fs[f['name']] = 1
        else:
            fld = basis.default_parameters()[f['name']]
            facc[f['name']] = fem.accessors(fld, ('value',))
            s = fem.pow2_scale([np.asarray(fld)], 10)
            if s is None:
                raise Skip('default field not dyadic')
            fs[f['name']] = s
    return kw, facc, fs


def exec_block(rec):
    from skfem import BilinearForm
    kind = rec['mesh']['kind']
    attrs = ('value', 'grad') if rec.get('grad') else ('value',)

    def run():
        mesh = fem.make_mesh(rec['mesh'])
        basis = fem.make_basis(mesh, kind, rec['bs'])
        K = len(basis.elem.elems)
        comps = [fem.make_basis(mesh, kind, dict(rec['bs'], elem=s)) for s in rec['bs']['elem'][1:]]
        acc = fem.accessors(basis.basis[0], attrs)
        Bc = fem.basis_pi(basis, acc)
        if Bc is None:
            raise Skip('not dyadic')
        kw, facc, fs = _env_simple(basis, Bc, rec['fields'])
        accs = {'u': acc, 'v': acc, 'f': facc}
        prm = {'alpha': rec['alpha']}
        F = rec['F']
        S = fem.term_scale(F, Bc['sphi'], Bc['sphi'], fs) * Bc['sdx']
        coupled = fem.bilinear_callable(F, accs, K)
        bf = BilinearForm(_explicit(coupled, 2 * K + 1))
        A = bf.assemble(basis, **dict(kw), **prm)
        ok = True
        Am, o = _mat(A, S)
        ok &= o
        split = [[int(j) + 1 for j in ix] for ix in basis.split_indices()]
        zeros = [c.basis[0][0].zeros() for c in comps]
        blocks, fblocks = [], []
        for n in range(K):
            for m in range(K):
                Anm = BilinearForm(_block_form(F, accs, K, n, m, zeros)).assemble(comps[m], comps[n], **dict(kw), **prm)
                M, o = _mat(Anm, S)
                ok &= o
                blocks.append({'n': n + 1, 'm': m + 1, 'A': M})
                if rec.get('formblock'):
                    r, e2 = guarded(lambda: bf.block(m, n).assemble(comps[m], comps[n], **dict(kw), **prm), 30)
                    if e2:
                        fblocks.append({'n': n + 1, 'm': m + 1, 'err': e2, 'A': {'shape': [0, 0], 'trip': []}})
                    else:
                        M2, o = _mat(r, S)
                        ok &= o
                        fblocks.append({'n': n + 1, 'm': m + 1, 'err': '', 'A': M2})
        return {'a': 'Block', 'err': '', 'exact': 1 if ok else 0, 'A': Am, 'split': split, 'blocks': blocks,
                'fblocks': fblocks}
    ev, err = guarded(run, 90)
    if err in ('Skip', 'TooLarge'):
        return []
    if err:
        ev = {'a': 'Block', 'err': err}
    return [ev]


# ------------------------------------------------------------------------------------------ List events

def exec_list(rec):
    from skfem import BilinearForm, LinearForm, Functional, asm
    from skfem.helpers import jump
    kind = rec['mesh']['kind']
    attrs = ('value',)

    def run():
        mesh = fem.make_mesh(rec['mesh'])
        events = []
        if rec['mode'] == 'partition':
            full = fem.make_basis(mesh, kind, rec['bs'])
            acc = fem.accessors(full.basis[0], attrs)
            Bf = fem.basis_pi(full, acc)
            if Bf is None:
                raise Skip('not dyadic')
            parts_b = [fem.make_basis(mesh, kind, dict(rec['bs'], elements=p)) for p in rec['parts']]
            fx_ = full.default_parameters()['x']
            sx = fem.pow2_scale([np.asarray(fx_)], 10)
            if sx is None:
                raise Skip('x not dyadic')
            facc = {'x': fem.accessors(fx_, ('value',))}
            fs = {'x': sx}
            prm = {'alpha': rec['alpha']}
            nf = len(full.basis[0])
            accs = {'u': acc, 'v': acc, 'f': facc}
            for order, F in ((2, rec['bil']), (1, rec['lin']), (0, rec['fun'])):
                if order == 2:
                    form = BilinearForm(fem.bilinear_callable(F, accs, nf))
                    S = fem.term_scale(F, Bf['sphi'], Bf['sphi'], fs) * Bf['sdx']
                elif order == 1:
                    form = LinearForm(fem.linear_callable(F, accs))
                    S = fem.term_scale(F, 1, Bf['sphi'], fs) * Bf['sdx']
                else:
                    form = Functional(fem.functional_callable(F, accs))
                    S = fem.term_scale(F, 1, 1, fs) * Bf['sdx']
                lst = asm(form, parts_b, **prm)
                ps = [form.assemble(b, **prm) for b in parts_b]
                wh = form.assemble(full, **prm)
                ok = True
                if order == 2:
                    conv = lambda A: _mat(A, S)
                elif order == 1:
                    conv = lambda b: (_ints(b, S) or [], _ints(b, S) is not None)
                else:
                    conv = lambda s: (int(_ints(s, S) or 0), _ints(s, S) is not None)
                L_, o = conv(lst)
                ok &= o
                P_ = []
                for p in ps:
                    x_, o = conv(p)
                    ok &= o
                    P_.append(x_)
                W_, o = conv(wh)
                ok &= o
                events.append({'a': 'List', 'err': '', 'exact': 1 if ok else 0, 'order': order, 'Alist': L_, 'parts': P_,
                               'whole': [W_] if rec.get('is_partition', 1) else [], 'tags': {'order': order}})
        else:   # product of basis lists over the two sides of interior facets, integrand with w.idx (jump)
            fbs = [fem.make_basis(mesh, kind, dict(rec['bs'], side=s)) for s in (0, 1)]
            acc = fem.accessors(fbs[0].basis[0], attrs)
            Bf = fem.basis_pi(fbs[0], acc)
            B1 = fem.basis_pi(fbs[1], acc)
            if Bf is None or B1 is None:
                raise Skip('not dyadic')
            sphi = max(Bf['sphi'], B1['sphi'])
            c = rec['coef']

            def bil(u, v, w):
                ju, jv = jump(w, u, v)
                return c * ju * jv

            def lin(v, w):
                return c * jump(w, v)
            S2, S1 = sphi * sphi * Bf['sdx'], sphi * Bf['sdx']
            bform, lform = BilinearForm(bil), LinearForm(lin)
            lst = asm(bform, fbs, fbs)
            ok = True
            L_, o = _mat(lst, S2)
            ok &= o
            P_ = []
            for (i, j) in itertools.product(range(2), range(2)):
                M, o = _mat(bform.assemble(fbs[i], fbs[j], idx=(i, j)), S2)
                ok &= o
                P_.append(M)
            events.append({'a': 'List', 'err': '', 'exact': 1 if ok else 0, 'order': 2, 'Alist': L_, 'parts': P_,
                           'whole': [], 'tags': {'order': 2}})
            lv = asm(lform, fbs)
            li = _ints(lv, S1)
            ps = [_ints(lform.assemble(fbs[i], idx=(i,)), S1) for i in range(2)]
            ok = li is not None and all(p is not None for p in ps)
            events.append({'a': 'List', 'err': '', 'exact': 1 if ok else 0, 'order': 1, 'Alist': li or [],
                           'parts': [p or [] for p in ps], 'whole': [], 'tags': {'order': 1}})
        return events
    evs, err = guarded(run, 90)
    if err in ('Skip', 'TooLarge'):
        return []
    if err:
        return [{'a': 'List', 'err': err}]
    return evs


# ------------------------------------------------------------------------------------------ Coo events

def _coo_pi(coo, scale):
    data = _ints(np.asarray(coo.data, dtype=np.float64), scale)
    idx = np.atleast_2d(np.asarray(coo.indices))
    return {'idx': [[int(j) + 1 for j in row] for row in idx], 'data': data or [],
            'shape': [int(s) for s in coo.shape],
            'lshape': [int(s) for s in coo.local_shape] if coo.local_shape is not None else []}, data is not None


_EMPTY_COO = {'idx': [[]], 'data': [], 'shape': [1], 'lshape': []}
_EMPTY_B = {'nb': 0}


def _coo_event(coo, S, rec, extra=None):
    """the algebra of one COOData object (the object itself is the input; every method result is an output)"""
    ev = {'a': 'Coo', 'err': '', 'exact': 1, 'hasadd': 0, 'hasloc': 0, 'hasdef': 0, 'hasinv': 0, 'hascsr': 0, 'hasfacet': 0,
          'other': _EMPTY_COO, 'sum': _EMPTY_COO, 'back': _EMPTY_COO, 'local': [], 'linv': [], 'sl': 1, 'si': 1,
          'invidx': [], 'dots': [], 'csr': {'shape': [0, 0], 'trip': []}, 'Bu': _EMPTY_B, 'Bv': _EMPTY_B, 'F': [],
          'find': [], 't2f': [], 'cellsum': []}
    ok = True
    ev['coo'], o = _coo_pi(coo, S)
    ok &= o
    order = len(coo.shape)
    dense = _ints(np.asarray(coo.toarray(), dtype=np.float64), S)
    ok &= dense is not None
    ev['dense'] = dense or []
    if order == 2:
        ev['csr'], o = _mat(coo.tocsr(), S)
        ev['hascsr'] = 1
        ok &= o
        if coo.shape[0] == coo.shape[1]:
            for d in rec.get('dots', []):
                x = np.array(d['x'], dtype=np.float64)
                D = np.array(d['D'], dtype=np.int64) if d['D'] else None
                fem.guard_sum(ev['coo']['data'], int(np.abs(x).max()) if len(x) else 0)
                yv = np.asarray(coo.dot(x, D=D), dtype=np.float64)
                sc = np.full(len(yv), float(S))
                sc[d['D']] = 1.0                      # kept entries are copies of x, not entries of the scaled tensor
                y = _ints(yv * sc, 1)
                ok &= y is not None
                ev['dots'].append({'x': [int(v) for v in d['x']], 'D': [int(v) + 1 for v in d['D']], 'y': y or []})
    if coo.local_shape is not None and order == 2 and rec.get('local', 1):
        loc = coo.tolocal()
        li = _ints(loc, S)
        ok &= li is not None
        ev['local'] = li or []
        ev['hasloc'] = 1
        ev['back'], o = _coo_pi(coo.fromlocal(loc), S)
        ok &= o
        if rec.get('inverse'):
            cinv = coo.inverse()
            linv = np.asarray(cinv.tolocal(), dtype=np.float64)
            si = fem.pow2_scale([linv], 14)            # (local_true * S) (linv_true * si) = S * si * identity
            if si is not None and np.abs(linv * si).max() < BOUND and S * si < BOUND:
                ev.update(hasinv=1, linv=_ints(linv, si), sl=int(S), si=int(si),
                          invidx=[[int(j) + 1 for j in row] for row in np.atleast_2d(cinv.indices)])
    if extra:
        ev.update(extra)
    ev['exact'] = 1 if ok else 0
    return ev, ok


def exec_coo(rec):
    from skfem import BilinearForm, TrilinearForm
    from skfem.assembly.form.coo_data import COOData

    def run():
        if rec['src'] == 'synthetic':
            idx = np.array(rec['idx'], dtype=np.int32)
            coo = COOData(idx, np.array(rec['data'], dtype=np.float64), tuple(rec['shape']),
                          tuple(rec['lshape']) if rec['lshape'] else None)
            ev, ok = _coo_event(coo, 1, rec)
            if rec.get('other'):
                o = rec['other']
                c2 = COOData(np.array(o['idx'], dtype=np.int32), np.array(o['data'], dtype=np.float64), tuple(o['shape']),
                             None)
                ev['other'], _ = _coo_pi(c2, 1)
                ev['sum'], _ = _coo_pi(coo + c2, 1)
                ev['hasadd'] = 1
            return [ev]
        kind = rec['mesh']['kind']
        mesh = fem.make_mesh(rec['mesh'])
        bu = fem.make_basis(mesh, kind, rec['bu'])
        bv = fem.make_basis(mesh, kind, rec['bv']) if rec.get('bv') else bu
        acc_u, acc_v = fem.accessors(bu.basis[0]), fem.accessors(bv.basis[0])
        Bu, Bv = fem.basis_pi(bu, acc_u), fem.basis_pi(bv, acc_v)
        if Bu is None or Bv is None:
            raise Skip('not dyadic')
        accs = {'u': acc_u, 'v': acc_v, 'f': {}}
        F = rec['F']
        S = fem.term_scale(F, Bu['sphi'], Bv['sphi'], {}) * Bu['sdx']
        if rec['src'] == 'asm3':
            def tri(u, v, z, w):
                return u * v * z
            coo = TrilinearForm(tri).elemental(bu)
            ev, ok = _coo_event(coo, Bu['sphi'] ** 3 * Bu['sdx'], dict(rec, local=0))
            return [ev]
        form = BilinearForm(fem.bilinear_callable(F, accs, len(bu.basis[0])))
        coo = form.elemental(bu, bv)
        extra = {'Bu': Bu, 'Bv': Bv, 'F': F, 'hasdef': 1}
        ev, ok = _coo_event(coo, S, rec, extra)
        if rec.get('other_F'):
            c2 = BilinearForm(fem.bilinear_callable(rec['other_F'], accs, len(bu.basis[0]))).elemental(bu, bv)
            S2 = fem.term_scale(rec['other_F'], Bu['sphi'], Bv['sphi'], {}) * Bu['sdx']
            Sm = max(S, S2)
            if Sm == S:
                ev['other'], o1 = _coo_pi(c2, S)
                ev['sum'], o2 = _coo_pi(coo + c2, S)
                ev['hasadd'] = 1
                if not (o1 and o2):
                    ev['exact'] = 0
        if rec['bu']['type'] != 'cell' and bv is bu and rec.get('facetsum'):
            cs = _ints(coo.tolocal(basis=bu), S)
            if cs is not None:
                ev.update(hasfacet=1, cellsum=cs, find=[int(f) + 1 for f in bu.find],
                          t2f=[[int(f) + 1 for f in col] for col in mesh.t2f.T])
            else:
                ev['exact'] = 0
        return [ev]
    evs, err = guarded(run, 60)
    if err in ('Skip', 'TooLarge'):
        return []
    if err:
        return [{'a': 'Coo', 'err': err}]
    return evs


# ------------------------------------------------------------------------------------------ Bmat events

def exec_bmat(rec):
    import scipy.sparse as sp
    from skfem import bmat
    from skfem.assembly.form.coo_data import COOData

    def run():
        rows = []
        for brow in rec['blocks']:
            r = []
            for b in brow:
                if b is None:
                    r.append(None)
                elif b['as'] == 'coo':
                    M = np.array(b['M'], dtype=np.float64)
                    rr, cc = np.nonzero(M)
                    r.append(COOData(np.array([rr, cc], dtype=np.int32), M[rr, cc], M.shape, None))
                else:
                    r.append(sp.csr_matrix(np.array(b['M'], dtype=np.float64)))
            rows.append(r)
        B = bmat(rows, rec.get('fmt', 'csr'))
        dense = _ints(B.toarray(), 1)
        return {'a': 'Bmat', 'err': '', 'blocks': [[[] if b is None else b['M'] for b in brow] for brow in rec['blocks']],
                'rh': rec['rh'], 'cw': rec['cw'], 'dense': dense or [], 'offs': [int(x) for x in B.blocks]}
    ev, err = guarded(run, 30)
    if err:
        ev = {'a': 'Bmat', 'err': err}
    return [ev]


# ------------------------------------------------------------------------------------------ CompositeBasis events

def exec_cb(rec):
    from skfem import BilinearForm
    from skfem.assembly.basis.composite_basis import CompositeBasis
    kind = rec['mesh']['kind']

    def run():
        mesh = fem.make_mesh(rec['mesh'])
        bases = [fem.make_basis(mesh, kind, b) for b in rec['bases']]
        cb = CompositeBasis(*bases, equal_dofnum=bool(rec['equal']))
        if rec.get('via_operator') and len(bases) == 2:
            cb = (bases[0] @ bases[1]) if rec['equal'] else (bases[0] * bases[1])
        M = len(bases)
        acc = fem.accessors(cb.basis[0])
        coff = [sum(1 for a in acc if a[0] < m) for m in range(M)]
        accs_b = [fem.accessors(b.basis[0]) for b in bases]
        pis = [fem.basis_pi(cb, acc)] + [fem.basis_pi(b, a) for b, a in zip(bases, accs_b)]
        if any(p is None for p in pis):
            raise Skip('not dyadic')
        pis = _common_scale(pis)
        Bc, Bs = pis[0], pis[1:]
        x = np.array(rec['x'], dtype=np.float64)[:Bc['N']]
        ev = {'a': 'CB', 'err': '', 'exact': 1, 'equal': int(rec['equal']), 'Bc': Bc, 'Bs': Bs, 'coff': coff,
              'x': [int(v) for v in x], 'whole': [], 'ierr': '', 'serr': '', 'splitlens': [], 'hasblocks': 0,
              'A': {'shape': [0, 0], 'trip': []}, 'blocks': []}
        ok = True
        out, ierr = guarded(lambda: cb.interpolate(x), 30)
        ev['ierr'] = ierr
        if not ierr:
            for m in range(M):
                t, o = _tables(out[m], accs_b[m], (Bs[m]['nel'], Bs[m]['nq']), Bc['sphi'])
                ok &= o
                ev['whole'].append(t)
        sp_, serr = guarded(lambda: cb.split(x), 30)
        ev['serr'] = serr
        if not serr:
            ev['splitlens'] = [int(len(a)) for a, _ in sp_]
        if not rec['equal'] and rec.get('F'):
            F = rec['F']
            accs = {'u': acc, 'v': acc, 'f': {}}
            S = fem.term_scale(F, Bc['sphi'], Bc['sphi'], {}) * Bc['sdx']
            A = BilinearForm(fem.bilinear_callable(F, accs, M)).assemble(cb)
            ev['A'], o = _mat(A, S)
            ok &= o
            zeros = [b.basis[0][0].zeros() for b in bases]
            for n in range(M):
                for m in range(M):
                    Anm = BilinearForm(_block_form(F, accs, M, n, m, zeros)).assemble(bases[m], bases[n])
                    Mx, o = _mat(Anm, S)
                    ok &= o
                    ev['blocks'].append({'n': n + 1, 'm': m + 1, 'A': Mx})
            ev['hasblocks'] = 1
        ev['exact'] = 1 if ok else 0
        return ev
    ev, err = guarded(run, 90)
    if err in ('Skip', 'TooLarge'):
        return []
    if err:
        ev = {'a': 'CB', 'err': err}
    return [ev]


# ------------------------------------------------------------------------------------------ law tier

LAW_COMPOSITES = {
    'tri': [['comp', ['e', 'P2'], ['e', 'P1']], ['comp', ['e', 'P1B'], ['e', 'P1']], ['comp', ['e', 'RT1'], ['e', 'P0']],
            ['comp', ['e', 'N1'], ['e', 'P1']], ['comp', ['vec', ['e', 'P2']], ['e', 'P1'], ['e', 'P0']],
            ['vec', ['e', 'P2']], ['vec', ['e', 'P1B']], ['comp', ['e', 'Morley'], ['e', 'P1']],
            ['comp', ['e', 'BDM1'], ['e', 'P0']], ['comp', ['e', 'P2'], ['e', 'CR'], ['e', 'P0']]],
    'quad': [['comp', ['e', 'P2'], ['e', 'P1']], ['comp', ['vec', ['e', 'P2']], ['e', 'P1']], ['vec', ['e', 'S2']],
             ['comp', ['e', 'RT1'], ['e', 'P0']], ['comp', ['e', 'P1'], ['e', 'P0']]],
    'tet': [['comp', ['e', 'P2'], ['e', 'P1']], ['comp', ['e', 'N1'], ['e', 'P1']], ['comp', ['e', 'RT1'], ['e', 'P0']],
            ['comp', ['e', 'Mini'], ['e', 'P1']], ['vec', ['e', 'P1']], ['comp', ['e', 'N1'], ['e', 'RT1']]],
    'hex': [['comp', ['e', 'P1'], ['e', 'P0']], ['vec', ['e', 'P1']], ['comp', ['e', 'P2'], ['e', 'P1']]],
    'line': [['comp', ['e', 'P2'], ['e', 'P1']], ['comp', ['e', 'Hermite'], ['e', 'P1']], ['comp', ['e', 'Mini'], ['e', 'P0']]],
}


def _frac_sum(a, w):
    """sum w * a and its group scale: sum |w a| plus sum |w| max|a| (single entries can be pure round-off)"""
    s = m = Fraction(0)
    a = np.asarray(a, dtype=np.float64)
    for x, y in zip(a.ravel(), np.asarray(w).ravel()):
        f = Fraction(float(x)) * int(y)
        s += f
        m += abs(f)
    if a.size:
        m += Fraction(float(np.abs(a).max())) * int(np.abs(np.asarray(w)).sum())
    return s, m


def exec_law(rec):
    from skfem import BilinearForm
    from skfem.element import ElementComposite
    kind = rec['mesh']['kind']

    def run():
        mesh = c01_law.law_mesh(rec['mesh'])
        basis = fem.make_basis(mesh, kind, rec['bs'])
        laws = []
        ALL = c01_law.ALL
        comp_elem = isinstance(basis.elem, ElementComposite)
        ix = basis.split_indices()
        x = np.array(rec['x'], dtype=np.float64)
        # split / interpolate law: fixed integer weights r, sum r * whole_n  =  sum r * part_n
        whole = basis.interpolate(x)
        rng = np.random.default_rng(rec['wseed'])
        if comp_elem:
            comps = [fem.make_basis(mesh, kind, dict(rec['bs'], elem=s)) for s in rec['bs']['elem'][1:]]
            for n, cbn in enumerate(comps):
                part = cbn.interpolate(x[ix[n]])
                for ac in fem.accessors(part, ALL):
                    a = np.asarray(fem.comp(part, ac))
                    b = np.asarray(fem.comp(whole, (n,) + ac[1:]))
                    r = rng.integers(-3, 4, size=a.shape)
                    s1, m1 = _frac_sum(a, r)
                    s2, m2 = _frac_sum(b, r) if b.shape == a.shape else (Fraction(0), Fraction(0))
                    laws.append(('SplitInterpolateLaw', s2, s1, m1 + m2 + (1 if b.shape != a.shape else 0)))
        else:
            cbn = fem.make_basis(mesh, kind, dict(rec['bs'], elem=rec['bs']['elem'][1]))
            for n in range(basis.elem.dim):
                part = cbn.interpolate(x[ix[n]])
                a, b = np.asarray(part), np.asarray(whole)[n]
                r = rng.integers(-3, 4, size=a.shape)
                s1, m1 = _frac_sum(a, r)
                s2, m2 = _frac_sum(b, r)
                laws.append(('SplitInterpolateLaw', s2, s1, m1 + m2))
                if part.grad is not None:
                    a, b = np.asarray(part.grad), np.asarray(whole.grad)[n]
                    r = rng.integers(-3, 4, size=a.shape)
                    s1, m1 = _frac_sum(a, r)
                    s2, m2 = _frac_sum(b, r)
                    laws.append(('SplitInterpolateLaw', s2, s1, m1 + m2))
        # block law (composite): V^T A U  =  v_n^T A_nm u_m   with U, V supported on components m, n
        if comp_elem and rec.get('F'):
            K = len(comps)
            acc = fem.accessors(basis.basis[0], ALL)
            d = basis.default_parameters()
            facc = {k: fem.accessors(d[k], ('value',)) for k in d}
            accs = {'u': acc, 'v': acc, 'f': facc}
            prm = {'alpha': rec['alpha']}
            F = rec['F']
            A = BilinearForm(fem.bilinear_callable(F, accs, K)).assemble(basis, **prm)
            zeros = [c.basis[0][0].zeros() for c in comps]
            for (n, m) in rec['blocks']:
                Anm = BilinearForm(_block_form(F, accs, K, n, m, zeros)).assemble(comps[m], comps[n], **prm)
                um = np.array(rec['uv'][0][:comps[m].N], dtype=np.float64)
                vn = np.array(rec['uv'][1][:comps[n].N], dtype=np.float64)
                Uv, Vv = np.zeros(basis.N), np.zeros(basis.N)
                Uv[ix[m]] = um
                Vv[ix[n]] = vn
                s1, m1 = fem.frac_pairing(A, Vv, Uv)
                s2, m2 = fem.frac_pairing(Anm, vn, um)
                Fm = {k: fem.field_magnitudes(d[k], ('value',)) for k in d}
                floor = fem.term_magnitude(F, fem.leaf_magnitudes(basis, Uv, ALL), fem.leaf_magnitudes(basis, Vv, ALL),
                                           Fm, prm, accs, basis.dx)
                laws.append(('BlockLaw', s1, s2, m1 + m2 + floor))
        return laws
    laws, err = guarded(run, 120)
    ev = {'a': 'Law', 'err': err, 'laws': []}
    if not err:
        for name, lhs, rhs, mag in laws:
            nm = c01_law._norm(lhs, rhs, mag)
            if nm is None:
                continue
            ev['laws'].append({'name': name, 'lhs': fx(nm[0]), 'rhs': fx(nm[1]), 'mag': fx(nm[2])})
    return [ev]


# ------------------------------------------------------------------------------------------ generation

EXACT_COMPOSITES = {
    'line': [['comp', ['e', 'P1'], ['e', 'P0']], ['comp', ['e', 'P2'], ['e', 'P1']], ['comp', ['e', 'Mini'], ['e', 'P1']],
             ['comp', ['e', 'P2'], ['e', 'P0'], ['e', 'P1']], ['vecn', ['e', 'P2'], 2], ['vecn', ['e', 'P1'], 3]],
    'tri': [['comp', ['e', 'P2'], ['e', 'P1']], ['comp', ['e', 'P1B'], ['e', 'P1']], ['comp', ['e', 'RT1'], ['e', 'P0']],
            ['comp', ['e', 'N1'], ['e', 'P1']], ['comp', ['vec', ['e', 'P2']], ['e', 'P1'], ['e', 'P0']],
            ['comp', ['e', 'P1'], ['e', 'P0']], ['comp', ['e', 'P0'], ['e', 'P2']], ['comp', ['e', 'CR'], ['e', 'P1'], ['e', 'P2']],
            ['comp', ['dg', ['e', 'P1']], ['e', 'P1']], ['comp', ['vec', ['e', 'P1']], ['e', 'P0']],
            ['comp', ['e', 'P1B'], ['e', 'P0']], ['comp', ['dg', ['e', 'P1']], ['e', 'P1B'], ['e', 'P0']],
            ['vec', ['e', 'P1']], ['vec', ['e', 'P2']], ['vec', ['e', 'P1B']], ['vecn', ['e', 'P1'], 3], ['vec', ['e', 'CR']],
            ['vec', ['dg', ['e', 'P1']]]],
    'quad': [['comp', ['e', 'P2'], ['e', 'P1']], ['comp', ['e', 'P1'], ['e', 'P0']], ['comp', ['e', 'S2'], ['e', 'P1'], ['e', 'P0']],
             ['comp', ['e', 'RT1'], ['e', 'P0']], ['vec', ['e', 'P1']], ['vec', ['e', 'P2']], ['comp', ['vec', ['e', 'P1']], ['e', 'P0']],
             ['comp', ['e', 'P2'], ['e', 'P0']], ['comp', ['e', 'P0'], ['dg', ['e', 'P1']], ['e', 'P2']]],
    'tet': [['comp', ['e', 'P2'], ['e', 'P1']], ['comp', ['e', 'N1'], ['e', 'P1']], ['comp', ['e', 'RT1'], ['e', 'P0']],
            ['comp', ['e', 'P1'], ['e', 'P0']], ['vec', ['e', 'P1']], ['comp', ['e', 'N1'], ['e', 'RT1']],
            ['comp', ['e', 'CR'], ['e', 'P2']], ['vec', ['e', 'P2']], ['comp', ['e', 'P0'], ['dg', ['e', 'P1']]]],
    'hex': [['comp', ['e', 'P1'], ['e', 'P0']], ['vec', ['e', 'P1']]],
}
SCALAR_EXACT = {
    'line': [['e', 'P0'], ['e', 'P1'], ['e', 'P2']],
    'tri': [['e', 'P0'], ['e', 'P1'], ['e', 'P2'], ['e', 'CR'], ['dg', ['e', 'P1']], ['e', 'P1B']],
    'quad': [['e', 'P0'], ['e', 'P1'], ['e', 'P2'], ['dg', ['e', 'P1']]],
    'tet': [['e', 'P0'], ['e', 'P1'], ['e', 'P2']],
    'hex': [['e', 'P0'], ['e', 'P1']],
}


def _ivec(rng, n, lo=-2, hi=3):
    return [int(v) for v in rng.integers(lo, hi + 1, size=n)]


def _basis_spec(rng, kind, mesh, allow=('cell', 'cell', 'cellsub', 'facet', 'facetsub', 'ifacet', 'ifacetall')):
    """basis spec (without element) of the exact universe; returns (spec, btype, restricted)"""
    nt = mesh.t.shape[1]
    if kind == 'line':
        allow = [a for a in allow if a.startswith('cell')] or ['cell']
    btype = str(rng.choice(list(allow)))
    bs = {}
    restricted = 0
    if btype in ('cell', 'cellsub'):
        bs['type'] = 'cell'
        ref = kind
        if btype == 'cellsub':
            k = int(rng.integers(1, nt + 1))
            bs['elements'] = sorted(int(v) for v in rng.permutation(nt)[:k])
            restricted = 1
    else:
        ref = fem.FACET_REF[kind]
        which = 'boundary' if btype in ('facet', 'facetsub') else 'interior'
        fac = fem.axis_parallel_facets(mesh, which)
        nall = int((mesh.f2t[1] == -1).sum()) if which == 'boundary' else int((mesh.f2t[1] != -1).sum())
        if not fac:
            return None
        bs['type'] = 'facet' if which == 'boundary' else 'ifacet'
        if btype in ('facetsub', 'ifacet') or len(fac) != nall:
            k = int(rng.integers(1, min(len(fac), 4) + 1))
            bs['facets'] = [int(fac[j]) for j in rng.permutation(len(fac))[:k]]
            restricted = 1
        bs['side'] = 0
        if bs['type'] == 'ifacet' and rng.integers(0, 2):
            bs['side'] = 1
            restricted = 1
    bs['quad'] = fem.dyadic_quadrature(ref, int(rng.integers(1, 4)), rng)
    return bs, btype, restricted


def gen_split(rng):
    kind = str(rng.choice(['line', 'tri', 'tri', 'tri', 'quad', 'tet', 'hex']))
    mrec = fem.lattice_mesh(kind, rng)
    mesh = fem.make_mesh(mrec)
    g = _basis_spec(rng, kind, mesh)
    if g is None:
        return None
    bs, btype, restricted = g
    es = EXACT_COMPOSITES[kind]
    spec = es[int(rng.integers(0, len(es)))]
    bs['elem'] = spec
    try:
        basis = fem.make_basis(mesh, kind, bs)
    except Exception:
        return None
    if basis.nelems == 0 or basis.Nbfun * basis.nelems > 160 or basis.N > 90:
        return None
    rec = {'driver': 'split', 'mesh': mrec, 'bs': bs, 'grad': int(rng.integers(0, 3) == 0), 'x': _ivec(rng, basis.N)}
    return rec, {'a': 'Split', 'kind': kind, 'btype': btype, 'elem': fem.elem_name(spec), 'restricted': restricted,
                 'tier': 'exact'}


def exec_seq(rec):
    """a history of composite elements in ONE process: each element of the sequence is created, used and checked
    (split / split_indices / interpolate / block assembly) after the earlier ones were created and used"""
    events = []
    for k, sub in enumerate(rec['subs']):
        for ev in exec_split(sub['split']) + exec_block(sub['block']):
            ev['tags'] = dict(ev.get('tags', {}), pos_in_history=k)
            events.append(ev)
    return events


def gen_seq(rng):
    """composites with the same components in different orders (equal totals per entity kind, different distribution
    over the components), visited in a random order; the first one is visited again at the end"""
    kind = str(rng.choice(['line', 'tri', 'tri', 'tri', 'quad', 'quad', 'tet', 'hex']))
    mrec = fem.lattice_mesh(kind, rng)
    mesh = fem.make_mesh(mrec)
    g = _basis_spec(rng, kind, mesh, allow=('cell', 'cell', 'cellsub', 'facet', 'ifacetall'))
    if g is None:
        return None
    bs, btype, restricted = g
    pool = SCALAR_EXACT[kind]
    ncomp = int(rng.integers(2, 4)) if len(pool) >= 3 else 2
    comps = [pool[j] for j in rng.permutation(len(pool))[:ncomp]]
    perms = [list(p) for p in itertools.permutations(comps)]
    order = [perms[j] for j in rng.permutation(len(perms))[:int(rng.integers(2, 4))]]
    order.append(order[0])
    subs = []
    for perm in order:
        spec = ['comp'] + perm
        b = dict(bs, elem=spec)
        try:
            basis = fem.make_basis(mesh, kind, b)
            nc = len(fem.accessors(basis.basis[0]))
        except Exception:
            return None
        nel, nq = int(basis.nelems), int(basis.dx.shape[1])
        if nel == 0 or basis.Nbfun ** 2 * nel * nq > 2500 or basis.N > 60:
            return None
        F = fem.gen_bilinear(rng, nc, nc, [], ['alpha'], nsum=int(rng.integers(2, 4)))
        subs.append({'split': {'driver': 'split', 'mesh': mrec, 'bs': b, 'grad': 0, 'x': _ivec(rng, basis.N)},
                     'block': {'driver': 'block', 'mesh': mrec, 'bs': b, 'grad': 0, 'fields': [], 'alpha': int(rng.choice([-2, 2, 3])),
                               'F': F, 'formblock': 0}})
    rec = {'driver': 'seq', 'mesh': mrec, 'subs': subs}
    return rec, {'a': 'Seq', 'kind': kind, 'btype': btype, 'elems': ' > '.join(fem.elem_name(['comp'] + p) for p in order),
                 'restricted': restricted, 'tier': 'exact'}


def _mixed(spec):
    """components of different tensor shape (Form.block cannot build zero fields of the other component's shape)"""
    def shape(s):
        if s[0] in ('vec', 'vecn'):
            return 'v'
        if s[0] == 'e' and s[1] in ('RT1', 'N1', 'BDM1', 'RT2', 'N2'):
            return 'v'
        return 's'
    return int(len({shape(s) for s in spec[1:]}) > 1)


def gen_block(rng):
    kind = str(rng.choice(['line', 'tri', 'tri', 'tri', 'quad', 'tet', 'hex']))
    mrec = fem.lattice_mesh(kind, rng)
    mesh = fem.make_mesh(mrec)
    g = _basis_spec(rng, kind, mesh, allow=('cell', 'cell', 'cellsub', 'facet', 'ifacetall'))
    if g is None:
        return None
    bs, btype, restricted = g
    es = [s for s in EXACT_COMPOSITES[kind] if s[0] == 'comp']
    spec = es[int(rng.integers(0, len(es)))]
    bs['elem'] = spec
    grad = int(rng.integers(0, 3) == 0)
    attrs = ('value', 'grad') if grad else ('value',)
    try:
        basis = fem.make_basis(mesh, kind, bs)
        nc = len(fem.accessors(basis.basis[0], attrs))
    except Exception:
        return None
    nel, nq = int(basis.nelems), int(basis.dx.shape[1])
    if nel == 0 or basis.Nbfun ** 2 * nel * nq > 5000 or basis.N > 70:
        return None
    fields, avail = [], []
    if rng.integers(0, 2):
        fields.append({'name': 'x', 'kind': 'default'})
        avail.append(('x', mesh.dim()))
    if rng.integers(0, 2):
        fields.append({'name': 'g', 'kind': 'val', 'val': [[int(v) for v in row] for row in rng.integers(-2, 4, size=(nel, nq))]})
        avail.append(('g', 1))
    F = fem.gen_bilinear(rng, nc, nc, avail, ['alpha'], nsum=int(rng.integers(2, 5)))
    mixed = _mixed(spec)
    rec = {'driver': 'block', 'mesh': mrec, 'bs': bs, 'grad': grad, 'fields': fields, 'alpha': int(rng.choice([-2, 2, 3])),
           'F': F, 'formblock': int(rng.integers(0, 2)) if not mixed else int(rng.integers(0, 4) == 0)}
    return rec, {'a': 'Block', 'kind': kind, 'btype': btype, 'elem': fem.elem_name(spec), 'restricted': restricted,
                 'mixed': mixed, 'formblock': rec['formblock'], 'tier': 'exact'}


def gen_list(rng):
    kind = str(rng.choice(['line', 'tri', 'tri', 'quad', 'tet', 'hex']))
    if rng.integers(0, 3) == 0 and kind != 'line':
        mrec = fem.lattice_mesh(kind, rng, renumber=True)
        mesh = fem.make_mesh(mrec)
        fac = fem.axis_parallel_facets(mesh, 'interior')
        if not fac:
            return None
        k = int(rng.integers(1, min(len(fac), 4) + 1))
        es = SCALAR_EXACT[kind]
        spec = es[int(rng.integers(0, len(es)))]
        bs = {'type': 'ifacet', 'facets': [int(fac[j]) for j in rng.permutation(len(fac))[:k]], 'elem': spec,
              'quad': fem.dyadic_quadrature(fem.FACET_REF[kind], int(rng.integers(1, 4)), rng)}
        rec = {'driver': 'list', 'mode': 'sides', 'mesh': mrec, 'bs': bs, 'coef': int(rng.choice([1, 2, -3]))}
        return rec, {'a': 'List', 'kind': kind, 'mode': 'sides', 'elem': fem.elem_name(spec), 'tier': 'exact'}
    mrec = fem.lattice_mesh(kind, rng)
    mesh = fem.make_mesh(mrec)
    nt = mesh.t.shape[1]
    if nt < 2:
        return None
    es = SCALAR_EXACT[kind] + [s for s in EXACT_COMPOSITES[kind]][:3]
    spec = es[int(rng.integers(0, len(es)))]
    bs = {'type': 'cell', 'elem': spec, 'quad': fem.dyadic_quadrature(kind, int(rng.integers(1, 4)), rng)}
    try:
        basis = fem.make_basis(mesh, kind, bs)
    except Exception:
        return None
    if basis.Nbfun ** 2 * nt > 1500 or basis.N > 70:
        return None
    nparts = int(rng.integers(2, min(nt, 3) + 1))
    lab = rng.integers(0, nparts, size=nt)
    lab[:nparts] = np.arange(nparts)
    lab = rng.permutation(lab)
    parts = [[int(k) for k in np.nonzero(lab == p)[0]] for p in range(nparts)]
    nc = len(fem.accessors(basis.basis[0]))
    avail = [('x', mesh.dim())]
    rec = {'driver': 'list', 'mode': 'partition', 'mesh': mrec, 'bs': bs, 'parts': parts, 'alpha': int(rng.choice([-2, 2, 3])),
           'bil': fem.gen_bilinear(rng, nc, nc, avail, ['alpha']), 'lin': fem.gen_linear(rng, nc, avail, ['alpha']),
           'fun': fem.gen_functional(rng, avail, ['alpha'])}
    return rec, {'a': 'List', 'kind': kind, 'mode': 'partition', 'elem': fem.elem_name(spec), 'tier': 'exact'}


def _unit_upper(rng, n):
    """upper triangular integer matrix with power-of-two diagonal: its float inverse is exact"""
    M = np.triu(rng.integers(-2, 3, size=(n, n)), 1).astype(float)
    M[np.arange(n), np.arange(n)] = rng.choice([1, -1, 2, 4, -2], size=n)
    return M


def gen_coo(rng):
    r = int(rng.integers(0, 10))
    if r <= 3:      # synthetic objects
        order = int(rng.choice([1, 2, 2, 2, 3]))
        shape = [int(rng.integers(2, 5)) for _ in range(order)]
        if order == 2 and rng.integers(0, 2):
            shape[1] = shape[0]
        rec = {'driver': 'coo', 'src': 'synthetic', 'shape': shape}
        if order == 2 and rng.integers(0, 2):
            n1, n2, nt = int(rng.integers(1, 4)), int(rng.integers(1, 4)), int(rng.integers(1, 4))
            inverse = 0
            if rng.integers(0, 2):
                n2 = n1
                inverse = 1
                local = np.array([_unit_upper(rng, n1) for _ in range(nt)])
            else:
                local = rng.integers(-3, 4, size=(nt, n1, n2)).astype(float)
            data = np.moveaxis(local, 0, -1).flatten('C')
            rec.update(lshape=[n1, n2], inverse=inverse)
            ntrip = n1 * n2 * nt
        else:
            ntrip = int(rng.integers(1, 7))
            data = rng.integers(-3, 4, size=ntrip).astype(float)
            rec.update(lshape=[], inverse=0)
        rec['idx'] = [[int(v) for v in rng.integers(0, shape[ax], size=ntrip)] for ax in range(order)]
        rec['data'] = [int(v) for v in data]
        if order == 2 and shape[0] == shape[1]:
            rec['dots'] = [{'x': _ivec(rng, shape[0]), 'D': []},
                           {'x': _ivec(rng, shape[0]), 'D': sorted(int(v) for v in rng.permutation(shape[0])[:2])}]
        if rng.integers(0, 2):
            sh2 = [int(rng.integers(2, 6)) for _ in range(order)]
            n2_ = int(rng.integers(1, 5))
            rec['other'] = {'idx': [[int(v) for v in rng.integers(0, sh2[ax], size=n2_)] for ax in range(order)],
                            'data': _ivec(rng, n2_, -3, 3), 'shape': sh2}
        return rec, {'a': 'Coo', 'src': 'synthetic', 'order': order, 'rect': 0, 'tier': 'exact'}
    kind = str(rng.choice(['line', 'tri', 'tri', 'quad', 'tet']))
    mrec = fem.lattice_mesh(kind, rng)
    mesh = fem.make_mesh(mrec)
    g = _basis_spec(rng, kind, mesh, allow=('cell', 'cell', 'cellsub', 'facet', 'ifacetall'))
    if g is None:
        return None
    bs, btype, _ = g
    es = SCALAR_EXACT[kind] + [['vec', ['e', 'P1']]] * (kind in ('tri', 'quad'))
    eu = es[int(rng.integers(0, len(es)))]
    ev_ = es[int(rng.integers(0, len(es)))] if rng.integers(0, 3) == 0 else eu
    bu, bv = dict(bs, elem=eu), dict(bs, elem=ev_)
    try:
        b1, b2 = fem.make_basis(mesh, kind, bu), fem.make_basis(mesh, kind, bv)
    except Exception:
        return None
    if b1.nelems == 0 or b1.Nbfun * b2.Nbfun * b1.nelems > 160 or max(b1.N, b2.N) > 24:
        return None
    ncu, ncv = len(fem.accessors(b1.basis[0])), len(fem.accessors(b2.basis[0]))
    rect = int(b1.Nbfun != b2.Nbfun)
    rec = {'driver': 'coo', 'src': 'asm', 'mesh': mrec, 'bu': bu, 'bv': None if eu == ev_ else bv,
           'F': fem.gen_bilinear(rng, ncu, ncv, [], []), 'facetsub': 0}
    if r == 4 and eu == ev_:
        rec['src'] = 'asm3'
        if b1.Nbfun ** 3 * b1.nelems > 700 or ncu != 1:
            return None
    if eu == ev_:
        rec['dots'] = [{'x': _ivec(rng, b1.N), 'D': []},
                       {'x': _ivec(rng, b1.N), 'D': sorted(int(v) for v in rng.permutation(b1.N)[:max(1, b1.N // 3)])}]
        rec['facetsum'] = int(bs['type'] != 'cell')
        # nodal quadrature at the vertices with power-of-two weights: diagonal local mass matrices, exact inverse
        if bs['type'] == 'cell' and eu in (['e', 'P1'], ['dg', ['e', 'P1']]) and kind in ('line', 'tri', 'tet') and rng.integers(0, 2):
            nv = {'line': 2, 'tri': 3, 'tet': 4}[kind]
            pts = fem._dyadic_points(kind)[:nv]
            q = {'X': pts, 'xden': 4, 'W': [int(v) for v in rng.choice([1, 2, 4, 8], size=nv)], 'wden': 8}
            rec['bu'] = dict(bu, quad=q)
            rec['F'] = ['*', ['u', 1], ['v', 1]]
            rec['inverse'] = 1
    if rng.integers(0, 2):
        rec['other_F'] = fem.gen_bilinear(rng, ncu, ncv, [], [], nsum=1)
    return rec, {'a': 'Coo', 'src': rec['src'], 'kind': kind, 'btype': btype, 'eu': fem.elem_name(eu), 'ev': fem.elem_name(ev_),
                 'rect': rect, 'tier': 'exact'}


def gen_bmat(rng):
    m, n = int(rng.integers(1, 5)), int(rng.integers(1, 6))
    rh = [int(rng.integers(1, 4)) for _ in range(m)]
    cw = [int(rng.integers(1, 4)) for _ in range(n)]
    blocks = [[None] * n for _ in range(m)]

    def blk(i, j):
        M = rng.integers(-3, 4, size=(rh[i], cw[j]))
        return {'M': [[int(v) for v in row] for row in M], 'as': str(rng.choice(['csr', 'csr', 'coo']))}
    for i in range(m):
        blocks[i][int(rng.integers(0, n))] = 0
    for j in range(n):
        if all(blocks[i][j] is None for i in range(m)):
            blocks[int(rng.integers(0, m))][j] = 0
    for i in range(m):
        for j in range(n):
            if blocks[i][j] is not None or rng.integers(0, 3) == 0:
                blocks[i][j] = blk(i, j)
    rec = {'driver': 'bmat', 'blocks': blocks, 'rh': rh, 'cw': cw, 'fmt': str(rng.choice(['csr', 'coo', 'csc']))}
    return rec, {'a': 'Bmat', 'ncols': n, 'cols4': int(n >= 4), 'tier': 'exact'}


def gen_cb(rng):
    kind = str(rng.choice(['tri', 'tri', 'quad', 'tet', 'line']))
    mrec = fem.lattice_mesh(kind, rng)
    mesh = fem.make_mesh(mrec)
    g = _basis_spec(rng, kind, mesh, allow=('cell', 'cellsub', 'facet', 'ifacet', 'ifacetall'))
    if g is None:
        return None
    bs, btype, _ = g
    equal = int(rng.integers(0, 4) == 0)
    es = SCALAR_EXACT[kind] + ([['vec', ['e', 'P1']]] if kind in ('tri', 'quad') else [])
    M = int(rng.integers(2, 4))
    if equal:
        e0 = es[int(rng.integers(0, len(es)))]
        specs = [e0] * M
    else:
        specs = [es[int(rng.integers(0, len(es)))] for _ in range(M)]
    bases = []
    for m_, s in enumerate(specs):
        b = dict(bs, elem=s)
        if bs['type'] == 'ifacet':
            b['side'] = int(m_ % 2) if equal else int(rng.integers(0, 2))
        bases.append(b)
    try:
        bb = [fem.make_basis(mesh, kind, b) for b in bases]
    except Exception:
        return None
    nbt = sum(b.Nbfun for b in bb)
    Nt = sum(b.N for b in bb)
    if bb[0].nelems == 0 or nbt ** 2 * bb[0].nelems * bb[0].dx.shape[1] > 4000 or Nt > 70:
        return None
    ncs = [len(fem.accessors(b.basis[0])) for b in bb]
    rec = {'driver': 'cb', 'mesh': mrec, 'bases': bases, 'equal': equal, 'x': _ivec(rng, Nt),
           'via_operator': int(rng.integers(0, 2))}
    if not equal:
        rec['F'] = fem.gen_bilinear(rng, sum(ncs), sum(ncs), [], [], nsum=int(rng.integers(2, 5)))
    mixed = int(len({s[0] in ('vec', 'vecn') for s in specs}) > 1)
    return rec, {'a': 'CB', 'kind': kind, 'btype': btype, 'equal': equal, 'elems': '*'.join(fem.elem_name(s) for s in specs),
                 'mixed': mixed, 'tier': 'exact'}


def gen_law(rng):
    kind = str(rng.choice(['line', 'tri', 'tri', 'tri', 'quad', 'tet', 'hex']))
    r = rng.integers(0, 10)
    if kind in ('tri', 'tet') and r <= 3:
        mr = {'family': 'delaunay', 'kind': kind, 'seed': int(rng.integers(1, 10 ** 6)),
              'npts': int(rng.integers(5, 10)) if kind == 'tri' else int(rng.integers(5, 8))}
    else:
        nref = {'line': 2, 'tri': 1, 'quad': 1, 'tet': 1, 'hex': 1}[kind]
        mr = {'family': 'refined', 'kind': kind, 'nref': nref, 'jiggle': int(rng.integers(0, 2)),
              'seed': int(rng.integers(1, 10 ** 6))}
    try:
        mesh = c01_law.law_mesh(mr)
    except Exception:
        return None
    es = LAW_COMPOSITES[kind]
    spec = es[int(rng.integers(0, len(es)))]
    btype = str(rng.choice(['cell', 'cell', 'cellsub', 'facet'])) if kind != 'line' else 'cell'
    bs = {'intorder': int(rng.integers(2, 5)), 'elem': spec}
    nt = mesh.t.shape[1]
    if btype in ('cell', 'cellsub'):
        bs['type'] = 'cell'
        if btype == 'cellsub':
            bs['elements'] = sorted(int(v) for v in rng.permutation(nt)[:max(1, nt // 3)])
    else:
        bs['type'] = 'facet'
    try:
        basis = fem.make_basis(mesh, kind, bs)
        nc = len(fem.accessors(basis.basis[0], c01_law.ALL))
        d = basis.default_parameters()
    except Exception:
        return None
    if basis.N > 500 or basis.Nbfun > 40:
        return None
    rec = {'driver': 'law', 'mesh': mr, 'bs': bs, 'x': _ivec(rng, basis.N), 'wseed': int(rng.integers(1, 10 ** 6)),
           'alpha': int(rng.choice([-2, 2, 3]))}
    if spec[0] == 'comp':
        K = len(spec) - 1
        avail = [(n, len(fem.accessors(d[n], ('value',)))) for n in sorted(d)]
        rec['F'] = fem.gen_bilinear(rng, nc, nc, avail, ['alpha'], nsum=int(rng.integers(2, 5)))
        rec['blocks'] = [[int(rng.integers(0, K)), int(rng.integers(0, K))] for _ in range(3)]
        rec['uv'] = [_ivec(rng, basis.N), _ivec(rng, basis.N)]
    return rec, {'a': 'Law', 'kind': kind, 'btype': btype, 'elem': fem.elem_name(spec), 'family': mr['family'], 'tier': 'law'}


# ------------------------------------------------------------------------------------------ plumbing

EXEC = {'seq': exec_seq, 'split': exec_split, 'block': exec_block, 'list': exec_list, 'coo': exec_coo, 'bmat': exec_bmat, 'cb': exec_cb,
        'law': exec_law}
GEN = {'seq': gen_seq, 'split': gen_split, 'block': gen_block, 'list': gen_list, 'coo': gen_coo, 'bmat': gen_bmat, 'cb': gen_cb,
       'law': gen_law}
COUNTS = {'quick': {'seq': 45, 'split': 160, 'block': 80, 'list': 70, 'coo': 150, 'bmat': 60, 'cb': 70, 'law': 90},
          'thorough': {'seq': 1500, 'split': 7000, 'block': 3500, 'list': 2500, 'coo': 6000, 'bmat': 1200, 'cb': 3000, 'law': 3500}}


def execute(rec):
    return EXEC[rec['driver']](rec)


def scenario(sid, rec, tags):
    return {'id': sid, 'recipe': rec, 'tags': tags, 'events': execute(rec)}


def generate(ctx):
    out = []
    for off, (drv, n) in enumerate(COUNTS[ctx.tier].items()):
        rng = np.random.default_rng(ctx.seed + 1900 + off)
        k = tries = 0
        while k < n and tries < 5 * n:
            tries += 1
            g = GEN[drv](rng)
            if g is None:
                continue
            out.append((f'C19-{drv}-{k}', g[0], g[1]))
            k += 1
    return out


def model(ctx):
    thorough = ctx.tier == 'thorough'
    ctx.model_must_hold('MC_C19', 'MC_C19.cfg', env={'MC_TIER': ctx.tier, 'MC_PART': 'main', 'MC_MUT': 'none'},
                        timeout=3600 if thorough else 1500, workers=8, xmx='6g')
    # regression model: the block-offset accumulation of utils.bmat before the repair must be refuted by TLC
    old = ctx.tlc_model('MC_C19', 'MC_C19_bmat_old.cfg', env={'MC_TIER': ctx.tier, 'MC_PART': 'bmat_old', 'MC_MUT': 'none'},
                        timeout=1200, workers=2, xmx='6g', label='regression model: pre-fix bmat block offsets (violation expected)')
    ctx.notes['old_bmat_offsets_refuted_by_tlc'] = bool(old['violated'])
    if not old['violated']:
        raise MachineryError('the pre-repair bmat block offsets were not refuted by TLC (MC_C19_bmat_old.cfg)')
    rejected = {}
    for mut in ('vecswap', 'addfirst'):
        r = ctx.tlc_model('MC_C19', 'MC_C19.cfg', env={'MC_TIER': 'quick', 'MC_PART': 'main', 'MC_MUT': mut}, timeout=1200,
                          workers=4, xmx='6g', label=f'seeded model deviation {mut} (violation expected)')
        rejected[mut] = bool(r['violated'])
    ctx.notes['model_deviations_rejected'] = rejected


def run(ctx):
    box = {}

    def bg():
        try:
            model(ctx)
        except BaseException as exc:
            box['exc'] = exc
    th = threading.Thread(target=bg)
    th.start()
    try:
        recs = generate(ctx)
        scs = [scenario(sid, rec, tags) for sid, rec, tags in recs]
    finally:
        th.join()
    if 'exc' in box:
        raise box['exc']
    ctx.notes['skipped_outside_exact_universe'] = sum(1 for s in scs if not s['events'])
    ctx.validate('TraceC19', scs, jvms=8)
    keys = {json.dumps([s['tags'], s['recipe'].get('F'), s['recipe'].get('bil'), s['recipe'].get('data'),
                        s['recipe'].get('cw')], sort_keys=True) for s in scs if s['events']}
    ctx.notes['distinct_nontrivial'] = len(keys)
    ctx.notes['law_tier_calibration'] = c01_law.calibration(scs)
    ctx.notes['tolerances'] = {'TolSum': '2^-40 * (floor(magnitude) + 1)'}
    return ctx.finish(rule=RULE, assumptions=[
        'exact tier: dyadic bases, float64 results are exact; pi asserts this (EntriesIntegral)',
        'the orientation of the per-cell matrices returned by COOData.tolocal (which axis is the test axis) is not '
        'judged; today the code returns the trial index first',
        'COOData.inverse is exercised on local matrices whose float inverse is exact (diagonal / triangular with '
        'power-of-two diagonal)',
        'TLC 1.8.0 and the CommunityModules Json module are trusted'], exhaustive=False)


def replay(ctx, doc):
    sc = doc['scenario']
    if sc.get('recipe', {}).get('driver') == 'model':
        ctx.model_must_hold('MC_C19', 'MC_C19.cfg', env={'MC_TIER': ctx.tier, 'MC_PART': 'main', 'MC_MUT': 'none'}, timeout=900,
                            workers=4, xmx='6g')
        return ctx.finish(rule=RULE)
    sc2 = scenario(sc['id'], sc['recipe'], sc.get('tags', {}))
    ctx.validate('TraceC19', [sc2], jvms=8)
    return ctx.finish(rule=RULE)
