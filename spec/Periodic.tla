------------------------------- MODULE Periodic -------------------------------
(* Periodic meshes (skfem/mesh/mesh_dg.py: MeshDG.periodic, MeshDG.init_tensor  *)
(* with periodic=[dims]) -- specification growth beyond the listed properties   *)
(* (DESIGN section 10).  A periodic mesh is the quotient of a standard mesh by   *)
(* an identification of vertices: `ix` (eliminated) are replaced by `ix0`.       *)
(*                                                                               *)
(* Event: [p (integer coordinates of the REORDERED mesh, eliminated vertices     *)
(*         last), t (its cells), tp (cells of the periodic mesh), remap (the     *)
(*         stored reverse mapping _ix, 1-based), per (periodic dimensions),      *)
(*         lo / hi (min / max coordinate per dimension), err]                    *)
EXTENDS Prelude

NVp(e) == Len(e.p)
Fixed(e, v) == e.remap[v] = v
\* the image has the same coordinates modulo the period in every periodic dimension and equal ones elsewhere
SamePointModPeriod(e, v, w) ==
  \A d \in DOMAIN e.p[v] :
     IF d \in VSet(e.per)
     THEN e.p[v][d] = e.p[w][d] \/ ({e.p[v][d], e.p[w][d]} = {e.lo[d], e.hi[d]})
     ELSE e.p[v][d] = e.p[w][d]
OnMinSide(e, v) == \E d \in VSet(e.per) : e.p[v][d] = e.lo[d]

PeriodicWF(e) == /\ Len(e.remap) = NVp(e) /\ \A v \in 1..NVp(e) : e.remap[v] \in 1..NVp(e)
                 /\ Len(e.tp) = Len(e.t) /\ \A k \in DOMAIN e.t : Len(e.tp[k]) = Len(e.t[k])

PeriodicClauses(e) ==
  IF e.err # "" THEN
     \* rejection is legitimate exactly when some cell would contain the same vertex twice
     [RaisesOnlyForDuplicateIndex |-> e.dup = 1]
  ELSE IF ~PeriodicWF(e) THEN [ResultWellFormed |-> FALSE]
  ELSE
  [ ResultWellFormed |-> TRUE,
    NoDuplicateIndexAccepted |-> \A k \in DOMAIN e.tp : IsInjectiveSeq(e.tp[k]),
    \* the periodic cells are the images of the original cells
    TopologyIsQuotient |-> \A k \in DOMAIN e.t : \A i \in DOMAIN e.t[k] : e.tp[k][i] = e.remap[e.t[k][i]],
    \* chains (corners of doubly periodic meshes) are resolved: images are kept vertices
    ImagesAreKept |-> \A v \in 1..NVp(e) : Fixed(e, e.remap[v]),
    IdentificationIsByPeriod |-> \A v \in 1..NVp(e) : SamePointModPeriod(e, v, e.remap[v]),
    \* exactly the vertices on a min-side periodic boundary are eliminated
    MinSideEliminated |-> \A v \in 1..NVp(e) : OnMinSide(e, v) <=> ~Fixed(e, v),
    \* eliminated vertices carry the highest indices (precondition of the DOF numbering of the DG mesh classes)
    EliminatedLast |-> \A v, w \in 1..NVp(e) : (Fixed(e, v) /\ ~Fixed(e, w)) => v < w ]
==============================================================================
