------------------------------ MODULE TraceX09 ------------------------------
(* code -> spec for is_valid / second-order input (extended coverage X09, not a listed     *)
(* property)                                                                     *)
EXTENDS Validity

Batch  == JsonDeserialize(IOEnv.TRACE_FILE)
Events == Batch.events
N      == Len(Events)
Clauses(e) == ValidityClauses(e)

VARIABLES i, bad, cnt
vars == <<i, bad, cnt>>
Bump(c, r) == [k \in DOMAIN c \cup DOMAIN r |->
                 (IF k \in DOMAIN c THEN c[k] ELSE 0) + (IF k \in DOMAIN r THEN 1 ELSE 0)]
Init == i = 1 /\ bad = <<>> /\ cnt = <<>>
Step == /\ i <= N
        /\ LET e == Events[i]
               r == Clauses(e)
               f == SetToSeq(Failed(r))
           IN /\ bad' = bad \o [k \in DOMAIN f |-> [sid |-> e.sid, pos |-> e.pos, clause |-> f[k]]]
              /\ cnt' = Bump(cnt, r)
        /\ i' = i + 1
Finish == /\ i = N + 1
          /\ JsonSerialize(IOEnv.OUT_FILE, [consumed |-> N, bad |-> bad, cnt |-> cnt])
          /\ i' = N + 2 /\ UNCHANGED <<bad, cnt>>
Next == Step \/ Finish
Spec == Init /\ [][Next]_vars
==============================================================================
