------------------------------- MODULE MC_C02 -------------------------------
(* Design-level check of the C02 oracles: the closed forms of Numeric.tla are  *)
(* mutually consistent on the lattice universes, in exact integer / rational   *)
(* arithmetic (no tolerance):                                                  *)
(*  Box2D     sum of the simplex integrals over EVERY triangulation of the     *)
(*            2x2 lattice box (16 diagonal choices) = box closed form,         *)
(*            all monomials of degree <= 4                                      *)
(*  Box3D     the same for the Kuhn- and the 5-splitting of the unit cube,     *)
(*            degree <= 3                                                       *)
(*  Decomp    the hexahedron and prism decompositions used for straight cells  *)
(*            reproduce the box / prism closed forms, also on sheared cells    *)
(*            (against the change-of-variables formula)                        *)
(*  Perm      the simplex integral does not depend on the vertex order         *)
(*  Motion    signed coordinate permutations (incl. reflections) map the       *)
(*            integral of x^alpha to +-the integral of the permuted monomial   *)
(*  Refine    red refinement of a triangle: children sum to the parent         *)
(*  Tables    structural identities and textbook values of the re-derived      *)
(*            P1 / P2 reference matrices                                        *)
(*  FxPath    the limb-vector path agrees with the rational path               *)
EXTENDS Integration, MC_Universe

\* (q + k)! * integral over a list of simplices, as an integer:  sum Jac * MonoSum
IntNum(S, alpha) == ISumAll([s \in DOMAIN S |-> SimplexJac(S[s]) * SimplexMonoSum(S[s], alpha)])
CellsOf(p, cells) == [k \in DOMAIN cells |-> Pick(p, cells[k])]
Alphas(d, q) == {al \in [1..d -> 0..q] : SumSeq(al) <= q}

Box2D(dg, al) ==
  IntNum(CellsOf(LatP, TriCells(dg)), al) * BoxIntegralDen(al)
    = Fact(SumSeq(al) + 2) * BoxIntegralNum(<<0, 0>>, <<2, 2>>, al)
Box3D(split, al) ==
  IntNum(CellsOf(CubeP, IF split = 6 THEN Kuhn ELSE Five), al) * BoxIntegralDen(al)
    = Fact(SumSeq(al) + 3) * BoxIntegralNum(<<0, 0, 0>>, <<1, 1, 1>>, al)

\* reference hexahedron / prism in the library's vertex order, and affine images of them
RefHexP   == [n \in 1..8 |-> RefHexOff[n]]
RefWedgeP == << <<0,0,0>>, <<1,0,0>>, <<0,1,0>>, <<0,0,1>>, <<1,0,1>>, <<0,1,1>> >>
Shear(v)  == <<v[1] + v[3], v[2] + v[1] + v[3], 2 * v[3]>>          \* det = 2
DecompHex(al) ==
  /\ CellShapeOK("hex", RefHexP)
  /\ IntNum(CellSimplices("hex", RefHexP), al) * BoxIntegralDen(al) = Fact(SumSeq(al) + 3)
DecompWedge(al) ==
  /\ CellShapeOK("wedge", RefWedgeP)
  /\ Q(IntNum(CellSimplices("wedge", RefWedgeP), al), Fact(SumSeq(al) + 3)) = QRefMoment("wedge", al)
\* volumes of sheared cells: |det| times the reference volume
DecompSheared ==
  /\ CellShapeOK("hex", [n \in 1..8 |-> Shear(RefHexP[n])])
  /\ CellJacSum("hex", [n \in 1..8 |-> Shear(RefHexP[n])]) = 6 * 2
  /\ CellShapeOK("wedge", [n \in 1..6 |-> Shear(RefWedgeP[n])])
  /\ CellJacSum("wedge", [n \in 1..6 |-> Shear(RefWedgeP[n])]) = 3 * 2
  /\ CellShapeOK("quad", << <<0,0>>, <<2,1>>, <<3,3>>, <<1,2>> >>)
  /\ CellJacSum("quad", << <<0,0>>, <<2,1>>, <<3,3>>, <<1,2>> >>) = 2 * 3
  /\ ~CellShapeOK("quad", << <<0,0>>, <<2,0>>, <<1,1>>, <<2,2>> >>)          \* not convex in this order

PermsOf(n) == {f \in [1..n -> 1..n] : \A i, j \in 1..n : i # j => f[i] # f[j]}
SampleTri == << <<0, 1>>, <<3, 0>>, <<2, 4>> >>
SampleTet == << <<0, 0, 1>>, <<2, 0, 0>>, <<1, 3, 0>>, <<1, 1, 2>> >>
Perm(al) ==
  /\ \A f \in PermsOf(3) : Len(al) = 2 =>
        SimplexMonoSum([i \in 1..3 |-> SampleTri[f[i]]], al) = SimplexMonoSum(SampleTri, al)
  /\ \A f \in PermsOf(4) : Len(al) = 3 =>
        SimplexMonoSum([i \in 1..4 |-> SampleTet[f[i]]], al) = SimplexMonoSum(SampleTet, al)

\* x' = G x with x'_i = sg_i x_perm(i):   sgn * int_{G T} x'^alpha' = int_T x^alpha
Motion(al) ==
  \A pm \in PermsOf(2) : \A sg \in [1..2 -> {-1, 1}] :
     LET G(v)  == [i \in 1..2 |-> sg[i] * v[pm[i]]]
         al2   == [i \in 1..2 |-> al[pm[i]]]
         sgn   == IF (SumSeq([i \in 1..2 |-> IF sg[i] < 0 THEN al[pm[i]] ELSE 0]) % 2) = 0 THEN 1 ELSE -1
         T2    == [i \in 1..3 |-> G(SampleTri[i])]
     IN sgn * SimplexJac(T2) * SimplexMonoSum(T2, al2) = SimplexJac(SampleTri) * SimplexMonoSum(SampleTri, al)

\* red refinement (coordinates doubled so that midpoints are integers)
Refine(al) ==
  LET a == VScale(2, SampleTri[1]) b == VScale(2, SampleTri[2]) c == VScale(2, SampleTri[3])
      ab == VAdd(SampleTri[1], SampleTri[2]) bc == VAdd(SampleTri[2], SampleTri[3]) ac == VAdd(SampleTri[1], SampleTri[3])
      kids == << <<a, ab, ac>>, <<ab, b, bc>>, <<ac, bc, c>>, <<ab, bc, ac>> >>
  IN IntNum(kids, al) = IPow(2, SumSeq(al) + 2) * IntNum(<<SampleTri>>, al)

\* ---- re-derived reference tables ----
NodesSeq(m, deg) == SetToSeq(LagrangeNodes(m, deg))
Tables(m, deg) ==
  LET ns == NodesSeq(m, deg) n == Len(ns)
      vs == IF m = 2 THEN << <<1>>, <<4>> >> ELSE IF m = 3 THEN SampleTri ELSE SampleTet IN
  /\ n = (CASE deg = 0 -> 1 [] deg = 1 -> m [] deg = 2 -> (m * (m + 1)) \div 2)
  \* partition of unity: rows of the mass matrix sum to the load vector, the load vector to the measure
  /\ \A i \in 1..n : QSumAll([j \in 1..n |-> RefMass(deg, ns[i], ns[j])]) = RefLoad(deg, ns[i])
  /\ QSumAll([i \in 1..n |-> RefLoad(deg, ns[i])]) = Q(1, Fact(m - 1))
  /\ \A i, j \in 1..n : RefMass(deg, ns[i], ns[j]) = RefMass(deg, ns[j], ns[i])
  \* constants are in the kernel of the stiffness matrix; it is symmetric with positive diagonal
  /\ deg >= 1 => \A i \in 1..n : /\ QSumAll([j \in 1..n |-> LocalLaplaceQ(vs, deg, ns[i], ns[j])]) = QInt(0)
                                 /\ LocalLaplaceQ(vs, deg, ns[i], ns[i])[1] > 0
                                 /\ \A j \in 1..n : LocalLaplaceQ(vs, deg, ns[i], ns[j]) = LocalLaplaceQ(vs, deg, ns[j], ns[i])
  \* Lagrange property at the nodes is implied by Silvester's form; check the kernel of the gradient instead:
  \* sum of all basis functions has zero derivative
  /\ TRUE
Textbook ==
  /\ RefMass(1, <<1,0,0>>, <<1,0,0>>) = Q(1, 12) /\ RefMass(1, <<1,0,0>>, <<0,1,0>>) = Q(1, 24)
  /\ RefMass(1, <<1,0,0,0>>, <<1,0,0,0>>) = Q(1, 60) /\ RefMass(1, <<1,0,0,0>>, <<0,0,1,0>>) = Q(1, 120)
  /\ RefMass(1, <<1,0>>, <<1,0>>) = Q(1, 3) /\ RefMass(1, <<1,0>>, <<0,1>>) = Q(1, 6)
  /\ RefMass(2, <<2,0,0>>, <<2,0,0>>) = Q(1, 60) /\ RefMass(2, <<1,1,0>>, <<1,1,0>>) = Q(4, 45)
  /\ RefMass(2, <<2,0,0>>, <<0,2,0>>) = Q(-1, 360) /\ RefMass(2, <<2,0,0>>, <<0,1,1>>) = Q(-1, 90)
  /\ RefMass(2, <<2,0>>, <<2,0>>) = Q(2, 15) /\ RefMass(2, <<1,1>>, <<1,1>>) = Q(8, 15) /\ RefMass(2, <<2,0>>, <<0,2>>) = Q(-1, 30)
  \* P1 stiffness on the unit right triangle and on a segment of length 3
  /\ LET T == << <<0,0>>, <<1,0>>, <<0,1>> >> IN
     /\ LocalLaplaceQ(T, 1, <<1,0,0>>, <<1,0,0>>) = QInt(1) /\ LocalLaplaceQ(T, 1, <<1,0,0>>, <<0,1,0>>) = Q(-1, 2)
     /\ LocalLaplaceQ(T, 1, <<0,1,0>>, <<0,0,1>>) = QInt(0) /\ LocalLaplaceQ(T, 1, <<0,1,0>>, <<0,1,0>>) = Q(1, 2)
     /\ LocalLaplaceQ(T, 2, <<1,1,0>>, <<1,1,0>>) = Q(8, 3) /\ LocalLaplaceQ(T, 2, <<2,0,0>>, <<2,0,0>>) = QInt(1)
  /\ LocalLaplaceQ(<< <<1>>, <<4>> >>, 1, <<1,0>>, <<0,1>>) = Q(-1, 3)
  /\ LocalLaplaceQ(<< <<1>>, <<4>> >>, 2, <<1,1>>, <<1,1>>) = Q(16, 9)

FxPath(al) ==
  LET S == CellsOf(LatP, TriCells([sq \in 1..4 |-> sq % 2]))
      q == Q(IntNum(S, al), Fact(SumSeq(al) + 2)) IN
  q[2] <= 65536 => FxNear(SimplicesIntegralFx(S, al), FxOfQ(q), FxUlp(64))

\* ---- the rule behind the tensor-cell entries ----
\* Boole's rule on k/4 is exact to degree 5:  sum_k w_k (k/4)^n / 90 = 1/(n+1)
BooleExact == \A n \in 0..5 : ISumAll([k \in 1..5 |-> BooleW[k] * IPow(k - 1, n)]) * (n + 1) = 90 * IPow(4, n)
\* ... and not to degree 6 (the degree bound in EntriesTWF is sharp)
BooleSharp == ISumAll([k \in 1..5 |-> BooleW[k] * IPow(k - 1, 6)]) * 7 # 90 * IPow(4, 6)
\* the tensor oracle reproduces the textbook Q1 mass matrix of the unit square (1/9, 1/18, 1/36) and, on a square of
\* side 2 split into triangles' worth of area, the load vector 1 per vertex
UnitSquareEvent(vals, form) ==
  [a |-> "EntriesT", kind |-> "quad", scale |-> 1, deg |-> 1, form |-> form, N |-> 4, err |-> "",
   p |-> << <<0, 0>>, <<1, 0>>, <<1, 1>>, <<0, 1>> >>, ents |-> << <<1, 2, 3, 4>> >>, edofs |-> << <<1, 2, 3, 4>> >>,
   lnodes |-> << <<0, 0>>, <<1, 0>>, <<1, 1>>, <<0, 1>> >>, vals |-> vals]
Q1Textbook ==
  LET m(i, j) == IF i = j THEN FxRat(1, 9) ELSE IF (i + j) % 2 = 1 THEN FxRat(1, 18) ELSE FxRat(1, 36)
      mv == [r \in 1..16 |-> <<((r - 1) \div 4) + 1, ((r - 1) % 4) + 1>> \o m(((r - 1) \div 4) + 1, ((r - 1) % 4) + 1)]
      lv == [r \in 1..4 |-> <<r, 0>> \o FxRat(1, 4)]
  IN /\ EntriesTWF(UnitSquareEvent(mv, "mass")) /\ EntriesTExact(UnitSquareEvent(mv, "mass"))
     /\ EntriesTWF(UnitSquareEvent(lv, "load")) /\ EntriesTExact(UnitSquareEvent(lv, "load"))
     \* a wrong entry is rejected
     /\ ~EntriesTExact(UnitSquareEvent([mv EXCEPT ![2] = <<1, 2>> \o FxRat(1, 17)], "mass"))

\* ---------------------------------------------------------------------------
Jobs == ({"Box2D"} \X [1..4 -> {0, 1}] \X Alphas(2, 4))
        \cup ({"Box3D"} \X {5, 6} \X Alphas(3, 3))
        \cup ({"Decomp"} \X {0} \X Alphas(3, 3))
        \cup ({"Perm", "Motion", "Refine", "FxPath"} \X {0} \X Alphas(2, 4))
        \cup ({"Perm"} \X {0} \X Alphas(3, 3))
        \cup ({"Tables"} \X {2, 3, 4} \X {<<0>>, <<1>>, <<2>>})
        \cup {<<"Textbook", 0, <<0>>>>, <<"Sheared", 0, <<0>>>>, <<"Boole", 0, <<0>>>>, <<"Q1Textbook", 0, <<0>>>>}

Check(job) ==
  LET kind == job[1] arg == job[2] al == job[3] IN
  CASE kind = "Box2D"  -> Box2D(arg, al)
    [] kind = "Box3D"  -> Box3D(arg, al)
    [] kind = "Decomp" -> DecompHex(al) /\ DecompWedge(al)
    [] kind = "Perm"   -> Perm(al)
    [] kind = "Motion" -> Motion(al)
    [] kind = "Refine" -> Refine(al)
    [] kind = "FxPath" -> FxPath(al)
    [] kind = "Tables" -> Tables(arg, al[1])
    [] kind = "Textbook" -> Textbook
    [] kind = "Sheared"  -> DecompSheared
    [] kind = "Boole"    -> BooleExact /\ BooleSharp
    [] kind = "Q1Textbook" -> Q1Textbook

VARIABLE job
Init == job \in Jobs
Next == UNCHANGED job
Spec == Init /\ [][Next]_job
Consistent == Check(job)
==============================================================================
