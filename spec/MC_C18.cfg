SPECIFICATION Spec
CONSTANT Regress = "none"
INVARIANT ClausesHold
CHECK_DEADLOCK FALSE
