SPECIFICATION Spec
CONSTANTS
  MAXDIM = 3
  SINGLEPASS = TRUE
INVARIANT Post
CHECK_DEADLOCK FALSE
