------------------------------ MODULE TraceC15 ------------------------------
(* code -> spec: one event per operation of a history executed on a long-lived  *)
(* object pool.  h_pool / e_pool: digest of the canonical result (or exception   *)
(* class) in the pooled execution; h_fresh / e_fresh: the same operation on      *)
(* freshly constructed equal objects in a FRESH INTERPRETER; before / after:     *)
(* checksums of the operand arrays around the pooled call.                       *)
EXTENDS Prelude

Batch  == JsonDeserialize(IOEnv.TRACE_FILE)
Events == Batch.events
N      == Len(Events)

Clauses(e) ==
  [ PureResult |-> e.h_pool = e.h_fresh /\ e.e_pool = e.e_fresh,
    OperandsUnchanged |-> e.before = e.after ]

VARIABLES i, bad, cnt
vars == <<i, bad, cnt>>
Bump(c, r) == [k \in DOMAIN c \cup DOMAIN r |->
                 (IF k \in DOMAIN c THEN c[k] ELSE 0) + (IF k \in DOMAIN r THEN 1 ELSE 0)]
Init == i = 1 /\ bad = <<>> /\ cnt = <<>>
Step == /\ i <= N
        /\ LET e == Events[i]
               r == Clauses(e)
               f == SetToSeq(Failed(r))
           IN /\ bad' = bad \o [k \in DOMAIN f |-> [sid |-> e.sid, pos |-> e.pos, clause |-> f[k]]]
              /\ cnt' = Bump(cnt, r)
        /\ i' = i + 1
Finish == /\ i = N + 1
          /\ JsonSerialize(IOEnv.OUT_FILE, [consumed |-> N, bad |-> bad, cnt |-> cnt])
          /\ i' = N + 2 /\ UNCHANGED <<bad, cnt>>
Next == Step \/ Finish
Spec == Init /\ [][Next]_vars
==============================================================================
