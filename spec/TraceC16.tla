------------------------------ MODULE TraceC16 ------------------------------
(* code -> spec: one event per forced execution of BilinearForm(nthreads=k)    *)
(* ._assemble: the kernel enter/exit/return log, the assembled COO arrays, the  *)
(* serial COO arrays (bit patterns), operand checksums before/after.            *)
(* Property-level clauses only; Drift_* entries are informational.              *)
EXTENDS ArraySplit

Batch  == JsonDeserialize(IOEnv.TRACE_FILE)
Events == Batch.events
N      == Len(Events)

Exits(e, i, j)  == {p \in DOMAIN e.log : e.log[p][1] = "exit"  /\ e.log[p][3] = i /\ e.log[p][4] = j}
Enters(e, i, j) == {p \in DOMAIN e.log : e.log[p][1] = "enter" /\ e.log[p][3] = i /\ e.log[p][4] = j}
Returns(e)      == {p \in DOMAIN e.log : e.log[p][1] = "return"}
AllPairs(e)     == {<<i, j>> : i \in 1..e.NV, j \in 1..e.NU}
ThreadsOf(e, i, j) == {e.log[p][2] : p \in Exits(e, i, j) \cup Enters(e, i, j)}

Clauses(e) ==
  [ Terminates |-> e.err # "Timeout",
    NoUnexpectedError |-> e.err = "",
    EachPairOnce |-> \A pr \in AllPairs(e) : Cardinality(Exits(e, pr[1], pr[2])) = 1
                                             /\ Cardinality(Enters(e, pr[1], pr[2])) = 1,
    SingleWriter |-> \A pr \in AllPairs(e) : Cardinality(ThreadsOf(e, pr[1], pr[2])) <= 1,
    NoFlattenBeforeJoin |-> /\ Cardinality(Returns(e)) = 1
                            /\ \A r \in Returns(e) : \A p \in DOMAIN e.log : e.log[p][1] # "return" => p < r,
    EqualsSerial |-> /\ e.data = e.sdata /\ e.rows = e.srows /\ e.cols = e.scols /\ e.shp = e.sshp
                     /\ Len(e.data) = (1 + e.cplx) * e.NU * e.NV * (Len(e.srows) \div (e.NU * e.NV)),   \* complex: re and im per entry
    \* operand arrays bit-identical before/after, and every kernel invocation saw the same parameter dictionary
    SharedInputsUnchanged |-> /\ e.before = e.after
                              /\ \A p \in {r \in DOMAIN e.log : e.log[r][1] # "return"} :
                                    <<e.log[p][5], e.log[p][6], e.log[p][7]>> = e.ssig,
    \* informational: the observed distribution of pairs over workers equals numpy's array_split chunks
    Drift_ChunksAsModel |-> \A w \in 1..e.NTH : \A c \in DOMAIN ChunksP(e.NU, e.NV, e.NTH)[w] :
                              LET pr == ChunksP(e.NU, e.NV, e.NTH)[w][c] IN ThreadsOf(e, pr.i, pr.j) \subseteq {w} ]

VARIABLES i, bad, cnt
vars == <<i, bad, cnt>>
Bump(c, r) == [k \in DOMAIN c \cup DOMAIN r |->
                 (IF k \in DOMAIN c THEN c[k] ELSE 0) + (IF k \in DOMAIN r THEN 1 ELSE 0)]
Init == i = 1 /\ bad = <<>> /\ cnt = <<>>
Step == /\ i <= N
        /\ LET e == Events[i]
               r == Clauses(e)
               f == SetToSeq(Failed(r))
           IN /\ bad' = bad \o [k \in DOMAIN f |-> [sid |-> e.sid, pos |-> e.pos, clause |-> f[k]]]
              /\ cnt' = Bump(cnt, r)
        /\ i' = i + 1
Finish == /\ i = N + 1
          /\ JsonSerialize(IOEnv.OUT_FILE, [consumed |-> N, bad |-> bad, cnt |-> cnt])
          /\ i' = N + 2 /\ UNCHANGED <<bad, cnt>>
Next == Step \/ Finish
Spec == Init /\ [][Next]_vars
==============================================================================
