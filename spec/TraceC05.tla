------------------------------ MODULE TraceC05 ------------------------------
(* code -> spec: validates calls of skfem.utils.enforce / condense / penalize  *)
(* / solve (with expansion) / solve_eigen / mpc recorded from the real code     *)
(* against the C05 clauses of BC.tla.  e.D is the ground-truth constrained      *)
(* index sequence of the recipe (1-based), however the split was handed over.   *)
EXTENDS BC, Fx

Batch  == JsonDeserialize(IOEnv.TRACE_FILE)
Events == Batch.events
N      == Len(Events)

TolSolve == FxTol(26)          \* end-to-end solves on <= 12 unknowns, integer data, |solution| <= 64
\* penalised solution vs the exact one.  The penalised system holds entries ~1e9..1e11 next to O(1) ones: a backward-stable
\* direct solve of THAT system cannot promise more than ~cond * eps digits, and how many it delivers depends on the
\* factorisation (spsolve equilibrates: observed 1e-10; plain SuperLU `splu`: up to 4e-6 on these systems, benign edit B16).
\* 2^-8 keeps a factor > 1e3 over the worst observed; the defects this clause is there for give O(1) errors or NaN.
TolPenal == FxTol(8)

VecWF(v, n)  == Len(v) = n
Zeros(n)     == [i \in 1..n |-> 0]
XOf(e)       == IF e.hasx = 1 THEN e.x ELSE Zeros(e.n)
\* right-hand side as _init_bc sees it: given vector, or zeros when only x was given
HasVecB(e)   == e.hasb = 1 \/ (e.hasb = 0 /\ e.hasx = 1)
BOf(e)       == IF e.hasb = 1 THEN e.b ELSE Zeros(e.n)
InputsWF(e)  == /\ MatWF(e.A) /\ e.A.n = e.n /\ e.A.m = e.n
                /\ (e.hasb = 1 => VecWF(e.b, e.n)) /\ (e.hasb = 2 => MatWF(e.b))
                /\ (e.hasx = 1 => VecWF(e.x, e.n))
                /\ IsInjectiveSeq(e.D) /\ \A r \in DOMAIN e.D : e.D[r] \in 1..e.n

\* bit-for-bit: checksums of the operand arrays (A: data, indices, indptr; b; x) before and after the call
Unchanged(e) == e.ov = 0 => e.ck2 = e.ck
\* the index arrays the caller hands over are never written, whatever `overwrite` says (checksums before / after)
IndexArgsUnchanged(e) == e.ckix2 = e.ckix
\* writing into the RESULTS afterwards does not reach the operands (no result aliases an operand) -- ck4 = checksums of
\* the operands after the harness wrote into every returned array in place
ResultsIndependent(e) == e.ov = 0 => e.ck4 = e.ck

EnforceClauses(e) ==
  IF e.err # "" \/ e.exact = 0 THEN [NoError |-> e.err = "", EntriesIntegral |-> e.exact = 1]
  ELSE IF ~(MatWF(e.Ao) /\ (HasVecB(e) => VecWF(e.bo, e.n)) /\ (e.hasb = 2 => MatWF(e.bo)))
  THEN [ResultWellFormed |-> FALSE]
  ELSE [NoError |-> TRUE, EntriesIntegral |-> TRUE, ResultWellFormed |-> TRUE,
        EnforceRowsExact |-> EnforceRowsExact(e.Ao, e.D, e.diag),
        IndexArgumentsUnchanged |-> IndexArgsUnchanged(e),
        ResultsIndependentOfOperands |-> ResultsIndependent(e),
        EnforceOthersUntouched |-> EnforceOthersUntouched(e.A, e.Ao, e.D),
        OperandsUnchanged |-> Unchanged(e)]
       @@ (IF HasVecB(e) THEN [EnforceRhsVector |-> EnforceRhsVector(BOf(e), e.bo, XOf(e), e.D)] ELSE <<>>)
       @@ (IF e.hasb = 2 THEN [EnforceMassMatrix |-> EnforceMassMatrix(e.b, e.bo, e.D)] ELSE <<>>)

\* condense; e.Ir is the index sequence returned by the code (expand=True); without expansion the caller's own
\* sequence e.I0 applies (the I it passed, or the increasing complement of D)
IOf(e) == IF e.expand = 1 THEN e.Ir ELSE e.I0
CondenseClauses(e) ==
  IF e.err # "" \/ e.exact = 0 THEN [NoError |-> e.err = "", EntriesIntegral |-> e.exact = 1]
  ELSE IF ~(MatWF(e.AII) /\ (HasVecB(e) => Len(e.bI) = Len(IOf(e))) /\ (e.hasb = 2 => MatWF(e.bI))
            /\ \A r \in DOMAIN e.Ir : e.Ir[r] \in 1..e.n)
  THEN [ResultWellFormed |-> FALSE]
  ELSE [NoError |-> TRUE, EntriesIntegral |-> TRUE, ResultWellFormed |-> TRUE,
        CondensedMatrixIsRestriction |-> CondensedMatrixIsRestriction(e.A, e.AII, IOf(e)),
        IndexArgumentsUnchanged |-> IndexArgsUnchanged(e),
        ResultsIndependentOfOperands |-> ResultsIndependent(e),
        OperandsUnchanged |-> e.ck2 = e.ck]
       @@ (IF e.expand = 1 THEN [KeptIsComplement |-> KeptIsComplement(e.n, e.Ir, e.D),
                                 ReturnedValues |-> e.xr = XOf(e)] ELSE <<>>)
       @@ (IF HasVecB(e) THEN [CondensedRhs |-> CondensedRhs(e.A, BOf(e), XOf(e), e.bI, IOf(e), e.D)] ELSE <<>>)
       @@ (IF e.hasb = 2 THEN [EigenReducedConsistently |-> CondensedMatrixIsRestriction(e.b, e.bI, IOf(e))] ELSE <<>>)
       \* the pipeline solve(*condense(...)) with a stub solver returning the integer vector z
       @@ (IF e.piped = 1 /\ HasVecB(e) /\ KeptIsComplement(e.n, e.Ir, e.D) /\ Len(e.z) = Len(e.Ir)
           THEN [ExpandedSatisfies |-> ExpandedSatisfies(e.A, BOf(e), XOf(e), e.AII, e.bI, e.Ir, e.D, e.z, e.y),
                 \* solve(*condense(..)) leaves the system and the prescribed values bit-for-bit unchanged
                 PipelineOperandsUnchanged |-> e.ck3 = e.ck]
           ELSE <<>>)

PenalizeClauses(e) ==
  IF e.err # "" \/ e.exact = 0 THEN [NoError |-> e.err = "", EntriesIntegral |-> e.exact = 1]
  ELSE IF ~(MatWF(e.Ao) /\ (HasVecB(e) => VecWF(e.bo, e.n)))
  THEN [ResultWellFormed |-> FALSE]
  ELSE [NoError |-> TRUE, EntriesIntegral |-> TRUE, ResultWellFormed |-> TRUE,
        PenalizeKeptRowsUntouched |-> PenalizeKeptRowsUntouched(e.A, e.Ao, e.D),
        IndexArgumentsUnchanged |-> IndexArgsUnchanged(e),
        ResultsIndependentOfOperands |-> ResultsIndependent(e),
        PenalizeRows |-> PenalizeRows(e.A, e.Ao, e.D, e.ie),
        OperandsUnchanged |-> Unchanged(e)]
       @@ (IF HasVecB(e) THEN [PenalizeRhs |-> PenalizeRhs(BOf(e), e.bo, XOf(e), e.D, e.ie)] ELSE <<>>)
       @@ (IF e.hasb = 2 THEN [PenalizeMassUntouched |-> e.bo = e.b] ELSE <<>>)

\* solve_eigen expansion with a stub eigen-solver returning the integer vectors X (one per column)
EigenClauses(e) ==
  IF e.err # "" \/ e.exact = 0 THEN [NoError |-> e.err = "", EntriesIntegral |-> e.exact = 1]
  ELSE [NoError |-> TRUE, EntriesIntegral |-> TRUE,
        OperandsUnchanged |-> e.ck2 = e.ck,
        EigenExpansion |->
          /\ Len(e.Y) = e.n
          /\ \A i \in 1..e.n : Len(e.Y[i]) = e.k
          /\ \A c \in 1..e.k :
               /\ \A i \in VSet(e.D) : e.Y[i][c] = XOf(e)[i]
               /\ \A r \in DOMAIN e.Ir : e.Y[e.Ir[r]][c] = e.X[r][c]]

\* end-to-end with the real solver: integer system with known integer solution ytrue (unique: A_II strictly
\* diagonally dominant); y logged as Fx
SolveClauses(e) ==
  IF e.err # "" THEN [NoError |-> FALSE]
  ELSE IF ~(Len(e.y) = e.n /\ \A i \in 1..e.n : FxWF(e.y[i])) THEN [ResultWellFormed |-> FALSE]
  ELSE [NoError |-> TRUE, ResultWellFormed |-> TRUE,
        OperandsUnchanged |-> e.ck2 = e.ck,
        \* condense: the expansion COPIES the prescribed values (exact); enforce: they come out of the solver (rounding)
        SolutionOnConstrained |-> \A i \in VSet(e.D) :
            FxNear(e.y[i], FxInt(e.ytrue[i]), IF e.method \in {"penalize", "penalize-default"} THEN TolPenal
                                              ELSE IF e.method = "enforce" THEN TolSolve ELSE FxZero),
        SolutionOnKept |-> \A i \in (1..e.n) \ VSet(e.D) :
            FxNear(e.y[i], FxInt(e.ytrue[i]), IF e.method \in {"penalize", "penalize-default"} THEN TolPenal ELSE TolSolve)]

\* mpc: x[S] = T x[M] + g; stub solver returns z for the unknowns (U, M)
MpcClauses(e) ==
  IF e.err # "" \/ e.exact = 0 THEN [NoError |-> e.err = "", EntriesIntegral |-> e.exact = 1]
  ELSE LET a == Dense(e.A) bb == Dense(e.B)
           UM == e.U \o e.M
       IN IF ~(MatWF(e.B) /\ e.B.n = Len(UM) /\ e.B.m = Len(UM) /\ Len(e.yv) = Len(UM) /\ Len(e.y) = e.n)
          THEN [ResultWellFormed |-> FALSE]
          ELSE [NoError |-> TRUE, EntriesIntegral |-> TRUE, ResultWellFormed |-> TRUE,
                MpcConstraint |-> \A r \in DOMAIN e.S :
                    e.y[e.S[r]] = SumOver([c \in DOMAIN e.M |-> e.T[r][c] * e.y[e.M[c]]], DOMAIN e.M) + e.g[r],
                MpcUnknownsPlaced |-> \A r \in DOMAIN UM : e.y[UM[r]] = e.z[r],
                MpcRowsSatisfied |-> \A r \in DOMAIN UM :
                    RowDot(a[UM[r]], e.y) - e.b[UM[r]] = RowDot(bb[r], e.z) - e.yv[r]]

Clauses(e) ==
  IF ~InputsWF(e) THEN [HarnessInputWellFormed |-> FALSE]
  ELSE CASE e.a = "Enforce"  -> EnforceClauses(e)
         [] e.a = "Condense" -> CondenseClauses(e)
         [] e.a = "Penalize" -> PenalizeClauses(e)
         [] e.a = "Eigen"    -> EigenClauses(e)
         [] e.a = "Solve"    -> SolveClauses(e)
         [] e.a = "Mpc"      -> MpcClauses(e)

VARIABLES i, bad, cnt
vars == <<i, bad, cnt>>
Bump(c, r) == [k \in DOMAIN c \cup DOMAIN r |->
                 (IF k \in DOMAIN c THEN c[k] ELSE 0) + (IF k \in DOMAIN r THEN 1 ELSE 0)]
Init == i = 1 /\ bad = <<>> /\ cnt = <<>>
Step == /\ i <= N
        /\ LET e == Events[i]
               r == Clauses(e)
               f == SetToSeq(Failed(r))
           IN /\ bad' = bad \o [k \in DOMAIN f |-> [sid |-> e.sid, pos |-> e.pos, clause |-> f[k]]]
              /\ cnt' = Bump(cnt, r)
        /\ i' = i + 1
Finish == /\ i = N + 1
          /\ JsonSerialize(IOEnv.OUT_FILE, [consumed |-> N, bad |-> bad, cnt |-> cnt])
          /\ i' = N + 2 /\ UNCHANGED <<bad, cnt>>
Next == Step \/ Finish
Spec == Init /\ [][Next]_vars
==============================================================================
