------------------------------- MODULE Supermesh -------------------------------
(* Supermeshes of two non-matching one-dimensional meshes and the element-wise   *)
(* quadrature built on them (skfem/supermeshing.py: intersect / _intersect1d,     *)
(* elementwise_quadrature) -- specification growth beyond the listed properties  *)
(* (DESIGN section 10, X02).                                                     *)
(*                                                                               *)
(* A mesh is [p |-> <<x_1, ..>> (integers), t |-> <<<<v, w>>, ..>>] (1-based).    *)
(* Event "Intersect": m1, m2, the result s (a mesh), ix1, ix2 (1-based parent    *)
(* cells), err.   Event "Quad": mesh m, supermesh s, ix, per super cell the       *)
(* global images g[k][q] of the quadrature points and the weights w[k][q] (fixed  *)
(* point), the order n, the library's integrals mono[q+1] of x^q (q = 0..n)       *)
(* over the basis built with that quadrature, and msum = 1^T M 1 of the coupling  *)
(* mass matrix.                                                                   *)
EXTENDS Prelude, Fx

CLo(m, k) == Min2(m.p[m.t[k][1]], m.p[m.t[k][2]])
CHi(m, k) == Max2(m.p[m.t[k][1]], m.p[m.t[k][2]])
Cells(m)  == DOMAIN m.t
\* the point set of a mesh as a set of unit intervals [x, x+1] (coordinates are integers)
Covered(m) == UNION {CLo(m, k)..(CHi(m, k) - 1) : k \in Cells(m)}
UsedPoints(m) == UNION {{m.p[m.t[k][1]], m.p[m.t[k][2]]} : k \in Cells(m)}
NonOverlapping(m) == \A k, l \in Cells(m) : k # l => (CLo(m, k)..(CHi(m, k) - 1)) \cap (CLo(m, l)..(CHi(m, l) - 1)) = {}
Connected(m) == LET c == Covered(m) IN c = {} \/ \A x \in c : x = MinSet(c) \/ (x - 1) \in c
MeshOK(m) == /\ \A k \in Cells(m) : CLo(m, k) < CHi(m, k)
             /\ NonOverlapping(m) /\ Connected(m)
SameDomain(a, b) == Covered(a) = Covered(b)

IntersectWF(e) == /\ Len(e.ix1) = Len(e.s.t) /\ Len(e.ix2) = Len(e.s.t)
                  /\ \A k \in Cells(e.s) : /\ Len(e.s.t[k]) = 2
                                           /\ e.s.t[k][1] \in DOMAIN e.s.p /\ e.s.t[k][2] \in DOMAIN e.s.p
                                           /\ e.ix1[k] \in Cells(e.m1) /\ e.ix2[k] \in Cells(e.m2)

Inside(s, k, m, c) == CLo(m, c) <= CLo(s, k) /\ CHi(s, k) <= CHi(m, c)

IntersectClauses(e) ==
  IF ~(MeshOK(e.m1) /\ MeshOK(e.m2)) THEN [HarnessInputWellFormed |-> FALSE]
  ELSE IF e.err # "" THEN [RejectsOnlyDifferentDomains |-> ~SameDomain(e.m1, e.m2)]
  ELSE IF ~SameDomain(e.m1, e.m2) THEN [DifferentDomainsRejected |-> FALSE]
  ELSE IF ~IntersectWF(e) THEN [ResultWellFormed |-> FALSE]
  ELSE
  [ ResultWellFormed |-> TRUE,
    DifferentDomainsRejected |-> TRUE,
    \* the break points are exactly those of the two meshes, each once, in increasing order
    SuperPointsAreUnion |-> /\ {e.s.p[v] : v \in DOMAIN e.s.p} = UsedPoints(e.m1) \cup UsedPoints(e.m2)
                            /\ IsInjectiveSeq(e.s.p),
    SuperPointsIncreasing |-> \A v \in 1..(Len(e.s.p) - 1) : e.s.p[v] < e.s.p[v + 1],
    SuperCellsConsecutive |-> /\ Len(e.s.t) = Len(e.s.p) - 1
                              /\ \A k \in Cells(e.s) : e.s.t[k] = <<k, k + 1>>,
    SameDomainAsOperands |-> SameDomain(e.s, e.m1) /\ NonOverlapping(e.s),
    \* every super cell lies in the parent cells reported for it: it IS their intersection
    InsideFirstParent  |-> \A k \in Cells(e.s) : Inside(e.s, k, e.m1, e.ix1[k]),
    InsideSecondParent |-> \A k \in Cells(e.s) : Inside(e.s, k, e.m2, e.ix2[k]),
    IsIntersection |-> \A k \in Cells(e.s) :
          /\ CLo(e.s, k) = (IF CLo(e.m1, e.ix1[k]) >= CLo(e.m2, e.ix2[k]) THEN CLo(e.m1, e.ix1[k]) ELSE CLo(e.m2, e.ix2[k]))
          /\ CHi(e.s, k) = (IF CHi(e.m1, e.ix1[k]) <= CHi(e.m2, e.ix2[k]) THEN CHi(e.m1, e.ix1[k]) ELSE CHi(e.m2, e.ix2[k])),
    \* every pair of cells with an intersection of positive length is represented exactly once
    EveryOverlapOnce |-> \A c1 \in Cells(e.m1) : \A c2 \in Cells(e.m2) :
          LET lo == IF CLo(e.m1, c1) >= CLo(e.m2, c2) THEN CLo(e.m1, c1) ELSE CLo(e.m2, c2)
              hi == IF CHi(e.m1, c1) <= CHi(e.m2, c2) THEN CHi(e.m1, c1) ELSE CHi(e.m2, c2)
          IN Cardinality({k \in Cells(e.s) : e.ix1[k] = c1 /\ e.ix2[k] = c2}) = (IF lo < hi THEN 1 ELSE 0) ]

QTol == FxTol(36)
QuadWF(e) == /\ Len(e.g) = Len(e.s.t) /\ Len(e.w) = Len(e.s.t) /\ Len(e.ix) = Len(e.s.t)
             /\ \A k \in Cells(e.s) : /\ Len(e.g[k]) = Len(e.w[k]) /\ e.ix[k] \in Cells(e.m)
                                      /\ \A q \in DOMAIN e.g[k] : FxWF(e.g[k][q]) /\ FxWF(e.w[k][q])
             /\ Len(e.mono) = e.n + 1 /\ \A q \in DOMAIN e.mono : FxWF(e.mono[q])
             /\ FxWF(e.msum)

RECURSIVE Pow(_, _)
Pow(x, n) == IF n = 0 THEN 1 ELSE x * Pow(x, n - 1)
\* exact integral of x^q over the covered set: sum over cells of (hi^(q+1) - lo^(q+1)) / (q+1)
MonoNum(m, q) == SumOver([k \in Cells(m) |-> Pow(CHi(m, k), q + 1) - Pow(CLo(m, k), q + 1)], Cells(m))

QuadClauses(e) ==
  IF e.err # "" THEN [QuadratureAvailable |-> FALSE]
  ELSE IF ~QuadWF(e) THEN [ResultWellFormed |-> FALSE]
  ELSE
  [ ResultWellFormed |-> TRUE, QuadratureAvailable |-> TRUE,
    \* the nodes of super cell k, mapped through the PARENT's reference map, lie in super cell k
    NodesInsideSuperCell |-> \A k \in Cells(e.s) : \A q \in DOMAIN e.g[k] :
          /\ FxLeq(FxSub(FxInt(CLo(e.s, k)), QTol), e.g[k][q]) /\ FxLeq(e.g[k][q], FxAdd(FxInt(CHi(e.s, k)), QTol)),
    WeightsPositive |-> \A k \in Cells(e.s) : \A q \in DOMAIN e.w[k] : FxIsNonNeg(e.w[k][q]),
    \* the weights are those of the reference rule scaled by |super cell| / |parent cell| : per parent they sum to 1
    WeightsPerParentSumToOne |-> \A c \in Cells(e.m) :
          LET ks == SetToSeq({k \in Cells(e.s) : e.ix[k] = c})
          IN ks = <<>> \/ FxNear(FxSumSeq([j \in DOMAIN ks |-> FxSumSeq(e.w[ks[j]])]), FxInt(1), QTol),
    WeightsPerSuperCell |-> \A k \in Cells(e.s) :
          FxNear(FxMulSmall(FxSumSeq(e.w[k]), CHi(e.m, e.ix[k]) - CLo(e.m, e.ix[k])),
                 FxInt(CHi(e.s, k) - CLo(e.s, k)), FxMulSmall(QTol, 64)),
    \* a basis built on the parent mesh with this quadrature integrates x^q (q <= n) exactly over the domain
    MonomialsExact |-> \A q \in 0..e.n :
          FxNear(FxMulSmall(e.mono[q + 1], q + 1), FxInt(MonoNum(e.s, q)), FxMulSmall(FxTol(28), 1 + Pow(e.hi, q))),
    CouplingMassSumsToMeasure |-> FxNear(e.msum, FxInt(MonoNum(e.s, 0)), FxMulSmall(QTol, 64)) ]

SupermeshClauses(e) == IF e.a = "Intersect" THEN IntersectClauses(e) ELSE QuadClauses(e)
==============================================================================
