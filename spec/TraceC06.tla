------------------------------ MODULE TraceC06 ------------------------------
(* code -> spec for C06: validates recorded end-to-end solves and L2           *)
(* projections against the exact oracle of module Galerkin (mode L).           *)
(*   "Solve"    problem, bc, dform (form of the Dirichlet set), method, elem,   *)
(*              dim, S, poly, loc, comp, x, err                                 *)
(*   "Project"  elem, region ("mesh" | "cells" | "facets"), y0, y1, I, edofs,   *)
(*              cells, err                                                      *)
EXTENDS Galerkin

Batch  == JsonDeserialize(IOEnv.TRACE_FILE)
Events == Batch.events
NEv    == Len(Events)

VARIABLES i, bad, cnt
vars == <<i, bad, cnt>>

Eval(e) ==
  CASE e.err = "NotSupported" ->      \* the library raised NotImplementedError: it declines, nothing to judge (counted)
         [cl |-> <<>>, info |-> {"Info_NotSupportedByTheLibrary"}]
    [] e.a = "Solve" ->
         IF e.err # "" THEN [cl |-> [NoUnexpectedError |-> FALSE], info |-> {}]
         ELSE IF ~SolveWF(e) THEN [cl |-> [NoUnexpectedError |-> TRUE, SolveWellFormed |-> FALSE], info |-> {}]
         ELSE [cl |-> [NoUnexpectedError |-> TRUE, SolveWellFormed |-> TRUE, SolutionIsInterpolant |-> SolutionIsInterpolant(e)],
               info |-> {"Info_problem_" \o e.problem, "Info_bc_" \o e.bc, "Info_dirichlet_form_" \o e.dform,
                         "Info_method_" \o e.method, "Info_natural_form_" \o e.nform}
                        \cup (IF e.nth >= 2 THEN {"Info_LaterSolveOnTheSameAssembledSystem"} ELSE {})
                        \cup (IF e.S2 > 0 THEN {"Info_StronglyGradedMesh"} ELSE {})
                        \cup (IF \E k \in DOMAIN e.poly : PolyDeg(e.poly[k]) >= 2 THEN {"Info_DegreeAtLeast2"} ELSE {})]
    [] e.a = "Project" ->
         IF e.err # "" THEN [cl |-> [NoUnexpectedError |-> FALSE], info |-> {}]
         ELSE IF ~ProjectWF(e) THEN [cl |-> [NoUnexpectedError |-> TRUE, ProjectWellFormed |-> FALSE], info |-> {}]
         ELSE [cl |-> [NoUnexpectedError |-> TRUE, ProjectWellFormed |-> TRUE,
                       ProjectionIsIdentity |-> ProjectionIsIdentity(e)]
                      @@ (IF e.region = "cells"
                          THEN [RegionIsDofsOfCells |-> VSet(e.I) = RegionOfCells(e.edofs, e.cells)] ELSE <<>>),
               info |-> {"Info_project_" \o e.region} \cup (IF e.curved = 1 THEN {"Info_CurvedMesh"} ELSE {})
                        \cup (IF e.graded = 1 THEN {"Info_StronglyGradedMesh"} ELSE {})]
    [] OTHER -> [cl |-> [KnownEvent |-> FALSE], info |-> {}]

Bump(c, names) == [k \in DOMAIN c \cup names |->
                     (IF k \in DOMAIN c THEN c[k] ELSE 0) + (IF k \in names THEN 1 ELSE 0)]

Init == i = 1 /\ bad = <<>> /\ cnt = <<>>

Step == /\ i <= NEv
        /\ LET e == Events[i]
               r == Eval(e)
               f == SetToSeq(Failed(r.cl))
           IN /\ bad' = bad \o [k \in 1..Len(f) |-> [sid |-> e.sid, pos |-> e.pos, clause |-> f[k]]]
              /\ cnt' = Bump(cnt, DOMAIN r.cl \cup r.info)
        /\ i' = i + 1

Finish == /\ i = NEv + 1
          /\ JsonSerialize(IOEnv.OUT_FILE, [consumed |-> NEv, bad |-> bad, cnt |-> cnt])
          /\ i' = NEv + 2
          /\ UNCHANGED <<bad, cnt>>

Next == Step \/ Finish
Spec == Init /\ [][Next]_vars
==============================================================================
