"""pytest plugin of C01 (loaded with `-p harness.suite_c01` next to harness.suite_plugin): the repository's own tests as
drivers.  Every small weak form a test assembles through BilinearForm / LinearForm / Functional `.assemble` or through
`asm` is tied to its integrand by the C01 laws: AFTER the original call returned, the wrapper draws dyadic coefficient
vectors u, v (local RNG), computes

    lhs = v^T A u   (resp. b^T v, s)   from the RETURNED tensor, in exact rational arithmetic,
    rhs = the SAME form callable evaluated on ubasis.interpolate(u) / vbasis.interpolate(v) with the same keyword
          arguments and summed with the basis' dx,

and logs both as Fx numbers with a magnitude bound (the "Suite" event of spec/TraceC01.tla: ConsistentLaw, ShapeOK,
RowsAreTest).  Only what the statement covers is recorded: integrands that are homogeneous of degree one in each
argument function (checked by evaluating the callable on doubled arguments; everything else is counted as skipped).

The wrapper returns exactly what the original returned, never touches the global numpy RNG, runs its own library calls
under a depth counter (they are not recorded) and under try/except (recording must never disturb a test).
Inert unless SKFEM_VERIF=1 and SUITE_OUT are set.  Output: f"{SUITE_OUT}.c01.{pid}.json" = {"c01": [events]}.
"""
import hashlib
import itertools
import json
import os
import warnings
from fractions import Fraction

import numpy as np

OUT = os.environ.get('SUITE_OUT')
ENABLED = bool(OUT) and os.environ.get('SKFEM_VERIF') == '1'
MAXN = int(os.environ.get('SUITE_C01_MAXN', '400'))
MAXNNZ = 20000
MAXEV = int(os.environ.get('SUITE_C01_MAXEV', '160'))      # per pytest worker process
_events = []
_seen = set()
_depth = [0]
_stats = {'skipped_not_homogeneous': 0, 'skipped_size': 0, 'skipped_error': 0, 'skipped_other': 0, 'skipped_single_precision': 0}

ATTRS = ('value', 'grad', 'div', 'curl', 'hess')


def _tuple(x):
    return x if isinstance(x, tuple) else (x,)


def _rng(key):
    return np.random.default_rng(int(hashlib.sha1(key.encode()).hexdigest()[:12], 16))


def _dyadic(rng, n):
    return rng.integers(-4, 5, size=n).astype(np.float64) / 4.0


def _fx(q):
    from harness.project import fx
    return fx(q)


def _norm(lhs, rhs, mag):
    """common power-of-two unit: mag in [2^10, 2^11)"""
    if mag <= 0:
        return None
    sh = 0
    while mag * Fraction(2) ** (-sh) >= 2048:
        sh += 1
    while mag * Fraction(2) ** (-sh) < 1024:
        sh -= 1
    f = Fraction(2) ** (-sh)
    out = [_fx(lhs * f), _fx(rhs * f), _fx(mag * f)]
    return None if any(o is None for o in out) else out


def _leafmag(basis, coef):
    """(nel, nq) array: sum_i |coef_i| * (sum over attributes of the largest component of |phi_i.attr|)"""
    ed = np.asarray(basis.element_dofs)
    coef = np.abs(coef)
    tot = 0.0
    for i in range(basis.Nbfun):
        m = 0.0
        for fld in basis.basis[i]:
            for attr in ATTRS:
                a = fld if attr == 'value' else getattr(fld, attr, None)
                if a is None:
                    continue
                a = np.abs(np.asarray(a, dtype=np.float64))
                m = m + (a.reshape((-1,) + a.shape[-2:]).max(axis=0) if a.ndim > 2 else a)
        tot = tot + coef[ed[i]][:, None] * m
    return tot


def _params(form, basis, kwargs):
    from skfem.assembly.form.form import FormExtraParams
    return FormExtraParams({**basis.default_parameters(), **form._normalize_asm_kwargs(dict(kwargs), basis)})


def _integral(val, dx):
    val = np.asarray(val)
    return (val * dx).sum(), float((np.abs(val) * np.abs(dx)).sum())


def _frac_c(z):
    z = complex(z)
    return Fraction(z.real), Fraction(z.imag)


def _pair(A, v, u):
    """v^T A u (real and imaginary part) and |v|^T |A| |u| in exact rational arithmetic from the returned entries"""
    A = A.tocoo()
    re = im = m = Fraction(0)
    cplx = np.iscomplexobj(A.data)
    for r, c, a in zip(A.row, A.col, A.data):
        w = Fraction(float(v[r])) * Fraction(float(u[c]))
        if cplx:
            re += Fraction(float(a.real)) * w
            im += Fraction(float(a.imag)) * w
            m += (abs(Fraction(float(a.real))) + abs(Fraction(float(a.imag)))) * abs(w)
        else:
            f = Fraction(float(a)) * w
            re += f
            m += abs(f)
    return re, im, m, cplx


def _laws(name, lhs_re, lhs_im, rhs, mag, cplx):
    out = []
    rr, ri = _frac_c(rhs)
    for part, l, r in (('re', lhs_re, rr),) + ((('im', lhs_im, ri),) if cplx or ri != 0 else ()):
        nm = _norm(l, r, mag)
        if nm is not None:
            out.append({'name': name + '_' + part, 'lhs': nm[0], 'rhs': nm[1], 'mag': nm[2]})
    return out


def _form_key(form):
    f = form.form
    while hasattr(f, 'func'):            # functools.partial
        f = f.func
    code = getattr(f, '__code__', None)
    if code is None:
        return getattr(f, '__name__', type(f).__name__)
    return f'{os.path.basename(code.co_filename)}:{code.co_firstlineno}:{code.co_name}'


def _en(b):
    e = getattr(b, 'elem', None)
    if e is None:
        return '*'.join(_en(x) for x in getattr(b, 'bases', ())) or type(b).__name__
    inner = getattr(e, 'elems', None) or ([e.elem] if hasattr(e, 'elem') else [])
    return type(e).__name__ + ('(' + ','.join(type(x).__name__ for x in inner) + ')' if inner else '')


def _basis_ok(b):
    return hasattr(b, 'element_dofs') and hasattr(b, 'dx') and hasattr(b, 'N') and 0 < int(b.N) <= MAXN and int(b.nelems) > 0


def _homogeneous(x1, x2, scale):
    x1, x2 = np.asarray(x1), np.asarray(x2)
    if x1.shape != x2.shape:
        return False
    ref = np.abs(x1).max() if x1.size else 0.0
    return bool(np.abs(x2 - scale * x1).max() <= 1e-9 * (ref + 1e-300)) if x1.size else True


def _record_bilinear(form, combos, A, kwargs, via):
    """combos: list of (idx or None, ubasis, vbasis); A the returned matrix"""
    import scipy.sparse as sp
    if not sp.issparse(A) or A.nnz > MAXNNZ:
        _stats['skipped_size'] += 1
        return
    nr, nc = A.shape
    key = 'bil|' + _form_key(form) + '|' + '|'.join(f'{type(ub).__name__}/{_en(ub)}/{ub.N}-'
                                                    f'{type(vb).__name__}/{_en(vb)}/{vb.N}' for _, ub, vb in combos)
    if key in _seen:
        return
    _seen.add(key)
    rng = _rng(key)
    u, v = _dyadic(rng, nc), _dyadic(rng, nr)
    rhs, mabs, floor = 0.0, 0.0, 0.0
    for idx, ub, vb in combos:
        kw = dict(kwargs) if idx is None else dict(kwargs, idx=idx)
        w = _params(form, ub, kw)
        uh, vh = _tuple(ub.interpolate(u[:ub.N])), _tuple(vb.interpolate(v[:vb.N]))
        val = form.form(*uh, *vh, w)
        # only integrands that are homogeneous of degree one in u and in v are covered by the statement
        if not (_homogeneous(val, form.form(*_tuple(ub.interpolate(2 * u[:ub.N])), *vh, w), 2.0)
                and _homogeneous(val, form.form(*uh, *_tuple(vb.interpolate(2 * v[:vb.N])), w), 2.0)):
            _stats['skipped_not_homogeneous'] += 1
            return
        s, a = _integral(val, ub.dx)
        rhs, mabs = rhs + s, mabs + a
        floor += float((_leafmag(ub, u[:ub.N]) * _leafmag(vb, v[:vb.N]) * np.abs(ub.dx)).sum())
    lre, lim, m1, cplx = _pair(A, v, u)
    mag = m1 + Fraction(mabs) + Fraction(floor)
    ev = {'a': 'Suite', 'kind': 'bil', 'err': '', 'via': via, 'shape': [int(nr), int(nc)],
          'expect': [int(max(vb.N for _, _, vb in combos)), int(max(ub.N for _, ub, _ in combos))],
          'laws': _laws('bil', lre, lim, rhs, mag, cplx), 'haspat': 0,
          'pat': {'shape': [1, 1], 'trip': []}, 'Bu': {'nb': 1, 'nel': 1, 'N': 1, 'edofs': [[1]]},
          'Bv': {'nb': 1, 'nel': 1, 'N': 1, 'edofs': [[1]]},
          'form': _form_key(form), 'elems': key.split('|', 2)[2][:200], 'test': os.environ.get('PYTEST_CURRENT_TEST', '')[:140]}
    # rows index test functions, columns trial functions: every stored non-zero couples DOFs of one cell
    if len(combos) == 1 and A.nnz * combos[0][1].nelems <= 20000:
        _, ub, vb = combos[0]
        Ac = A.tocoo()
        nzr = [(int(r) + 1, int(c) + 1) for r, c, a in zip(Ac.row, Ac.col, Ac.data) if a != 0]
        ev.update(haspat=1, pat={'shape': [int(nr), int(nc)], 'trip': [[r, c, 1] for r, c in nzr]},
                  Bu={'nb': int(ub.Nbfun), 'nel': int(ub.nelems), 'N': int(ub.N),
                      'edofs': [[int(x) + 1 for x in row] for row in np.asarray(ub.element_dofs)]},
                  Bv={'nb': int(vb.Nbfun), 'nel': int(vb.nelems), 'N': int(vb.N),
                      'edofs': [[int(x) + 1 for x in row] for row in np.asarray(vb.element_dofs)]})
    if ev['laws']:
        _events.append(ev)


def _record_linear(form, combos, b, kwargs, via):
    b = np.asarray(b)
    if b.ndim != 1:
        _stats['skipped_other'] += 1
        return
    key = 'lin|' + _form_key(form) + '|' + '|'.join(f'{type(vb).__name__}/{_en(vb)}/{vb.N}' for _, vb in combos)
    if key in _seen:
        return
    _seen.add(key)
    rng = _rng(key)
    v = _dyadic(rng, len(b))
    rhs, mabs, floor = 0.0, 0.0, 0.0
    for idx, vb in combos:
        kw = dict(kwargs) if idx is None else dict(kwargs, idx=idx)
        w = _params(form, vb, kw)
        vh = _tuple(vb.interpolate(v[:vb.N]))
        val = form.form(*vh, w)
        if not _homogeneous(val, form.form(*_tuple(vb.interpolate(2 * v[:vb.N])), w), 2.0):
            _stats['skipped_not_homogeneous'] += 1
            return
        s, a = _integral(val, vb.dx)
        rhs, mabs = rhs + s, mabs + a
        floor += float((_leafmag(vb, v[:vb.N]) * np.abs(vb.dx)).sum())
    cplx = np.iscomplexobj(b)
    lre = sum((Fraction(float(np.real(x))) * Fraction(float(y)) for x, y in zip(b, v)), Fraction(0))
    lim = sum((Fraction(float(np.imag(x))) * Fraction(float(y)) for x, y in zip(b, v)), Fraction(0)) if cplx else Fraction(0)
    m1 = sum((abs(Fraction(float(np.real(x)))) + abs(Fraction(float(np.imag(x))))) * abs(Fraction(float(y))) for x, y in zip(b, v))
    ev = {'a': 'Suite', 'kind': 'lin', 'err': '', 'via': via, 'shape': [int(len(b))],
          'expect': [int(max(vb.N for _, vb in combos))],
          'laws': _laws('lin', lre, lim, rhs, m1 + Fraction(mabs) + Fraction(floor), cplx), 'haspat': 0,
          'pat': {'shape': [1, 1], 'trip': []}, 'Bu': {'nb': 1, 'nel': 1, 'N': 1, 'edofs': [[1]]},
          'Bv': {'nb': 1, 'nel': 1, 'N': 1, 'edofs': [[1]]},
          'form': _form_key(form), 'elems': key.split('|', 2)[2][:200], 'test': os.environ.get('PYTEST_CURRENT_TEST', '')[:140]}
    if ev['laws']:
        _events.append(ev)


def _record_functional(form, combos, s_ret, kwargs, via):
    if np.ndim(s_ret) != 0:
        _stats['skipped_other'] += 1
        return
    key = 'fun|' + _form_key(form) + '|' + '|'.join(f'{type(b).__name__}/{_en(b)}/{b.N}/{b.nelems}' for _, b in combos)
    if key in _seen:
        return
    _seen.add(key)
    rhs, mabs = 0.0, 0.0
    for idx, b in combos:
        kw = dict(kwargs) if idx is None else dict(kwargs, idx=idx)
        w = _params(form, b, kw)
        s, a = _integral(form.form(w), b.dx)
        rhs, mabs = rhs + s, mabs + a
    lre, lim = _frac_c(s_ret)
    cplx = np.iscomplexobj(s_ret) or np.iscomplexobj(rhs)
    ev = {'a': 'Suite', 'kind': 'fun', 'err': '', 'via': via, 'shape': [], 'expect': [],
          'laws': _laws('fun', lre, lim, rhs, abs(lre) + abs(lim) + Fraction(mabs), cplx), 'haspat': 0,
          'pat': {'shape': [1, 1], 'trip': []}, 'Bu': {'nb': 1, 'nel': 1, 'N': 1, 'edofs': [[1]]},
          'Bv': {'nb': 1, 'nel': 1, 'N': 1, 'edofs': [[1]]},
          'form': _form_key(form), 'elems': key.split('|', 2)[2][:200], 'test': os.environ.get('PYTEST_CURRENT_TEST', '')[:140]}
    if ev['laws']:
        _events.append(ev)


def _observe(form, args, kwargs, out, via):
    """args: the positional arguments of assemble / asm (bases or lists of bases)"""
    from skfem.assembly import BilinearForm, LinearForm, Functional
    if len(_events) >= MAXEV or getattr(form, 'form', None) is None or 'to' in kwargs:
        return
    dt = getattr(out, 'dtype', None)
    if dt is not None and np.dtype(dt) not in (np.dtype(np.float64), np.dtype(np.complex128)):
        _stats['skipped_single_precision'] += 1       # e.g. dtype=complex64: the tolerance of the law is for double precision
        return
    lists = [a if isinstance(a, list) else [a] for a in args]
    if not lists or any(not _basis_ok(b) for lst in lists for b in lst):
        _stats['skipped_size'] += 1
        return
    ixs = list(itertools.product(*(range(len(x)) for x in lists)))
    combos = list(itertools.product(*lists))
    if len(combos) > 9:
        _stats['skipped_size'] += 1
        return
    if isinstance(form, BilinearForm):
        if len(lists) not in (1, 2):
            return
        cs = [(ix if via == 'asm' else None, c[0], c[1] if len(c) > 1 else c[0]) for ix, c in zip(ixs, combos)]
        if any(ub.dx.shape != vb.dx.shape for _, ub, vb in cs):
            return
        _record_bilinear(form, cs, out, kwargs, via)
    elif isinstance(form, LinearForm):
        if len(lists) != 1:
            return
        _record_linear(form, [(ix if via == 'asm' else None, c[0]) for ix, c in zip(ixs, combos)], out, kwargs, via)
    elif isinstance(form, Functional):
        if len(lists) != 1:
            return
        _record_functional(form, [(ix if via == 'asm' else None, c[0]) for ix, c in zip(ixs, combos)], out, kwargs, via)


def _wrap(orig, via, form_of):
    def wrapper(*args, **kwargs):
        if _depth[0] > 0:
            return orig(*args, **kwargs)
        _depth[0] += 1
        try:
            out = orig(*args, **kwargs)
        finally:
            _depth[0] -= 1
        try:
            _depth[0] += 1
            try:
                with warnings.catch_warnings():
                    warnings.simplefilter('ignore')
                    with np.errstate(all='ignore'):
                        form, bases = form_of(args)
                        _observe(form, bases, kwargs, out, via)
            finally:
                _depth[0] -= 1
        except Exception:               # recording must never disturb the test
            _stats['skipped_error'] += 1
        return out
    wrapper.__name__ = getattr(orig, '__name__', 'wrapper')
    wrapper.__doc__ = getattr(orig, '__doc__', None)
    wrapper.__wrapped__ = orig
    return wrapper


def pytest_configure(config):
    if not ENABLED:
        return
    import skfem
    import skfem.assembly as asmmod
    from skfem.assembly.form.form import Form
    from skfem.assembly import BilinearForm

    Form.assemble = _wrap(Form.assemble, 'assemble', lambda a: (a[0], a[1:]))
    BilinearForm.assemble = _wrap(BilinearForm.assemble, 'assemble', lambda a: (a[0], a[1:]))

    def form_of_asm(a):
        form = a[0]
        if not isinstance(form, Form):          # plain callable: asm wraps it itself, nothing to tie it to here
            return None, ()
        return form, a[1:]
    wrapped = _wrap(asmmod.asm, 'asm', form_of_asm)
    asmmod.asm = wrapped
    skfem.asm = wrapped


def pytest_sessionfinish(session, exitstatus):
    if ENABLED:
        with open(f'{OUT}.c01.{os.getpid()}.json', 'w') as f:
            json.dump({'c01': _events, 'c01_stats': [dict(_stats, recorded=len(_events))]}, f)
