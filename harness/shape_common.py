"""Generic helpers of the C09 driver: building elements from a specification-side *spec*, reference lattices,
stencil windows inside a cell, projection of delivered fields.

Nothing here knows a particular element class: which classes exist, their family, polynomial degree, duality and
partition-of-unity class come from the tables of spec/ShapeFunctions.tla (exported by MC_C09).  Nothing here
compares with an expected value: Python chooses WHERE to sample, calls the library and changes representation.
"""
import itertools
import logging
from fractions import Fraction

import numpy as np

from .numeric import fx_req

logging.getLogger('skfem').setLevel(logging.ERROR)

DIM = {'line': 1, 'tri': 2, 'quad': 2, 'tet': 3, 'hex': 3, 'wedge': 3}
FIELDS = ('value', 'grad', 'div', 'curl', 'hess', 'grad3', 'grad4', 'grad5', 'grad6')


# ------------------------------------------------------------------------------------------------ elements
def build(spec):
    """spec = ['cls', name, p] | ['DG', spec] | ['Vector', spec] | ['Composite', spec, ...] (ShapeFunctions.tla)."""
    import skfem.element as E
    tag = spec[0]
    if tag == 'cls':
        cls = getattr(E, spec[1])
        return cls(int(spec[2])) if int(spec[2]) else cls()
    if tag == 'DG':
        return E.ElementDG(build(spec[1]))
    if tag == 'Vector':
        return E.ElementVector(build(spec[1]))
    if tag == 'Composite':
        return E.ElementComposite(*[build(s) for s in spec[1:]])
    raise ValueError(tag)


def spec_name(spec):
    if spec[0] == 'cls':
        return spec[1] + (f'({spec[2]})' if spec[2] else '')
    return spec[0] + '(' + ','.join(spec_name(s) for s in spec[1:]) + ')'


def strip_dg(spec):
    while spec[0] == 'DG':
        spec = spec[1]
    return spec


def leaves(spec):
    if spec[0] == 'cls':
        return [spec]
    out = []
    for s in spec[1:]:
        out += leaves(s)
    return out


def nbfun(e):
    """number of local basis functions from the public DOF layout (element.py:27-36)."""
    rd = e.refdom
    return int(e.nodal_dofs * rd.nnodes + e.edge_dofs * rd.nedges + e.facet_dofs * rd.nfacets + e.interior_dofs)


# ------------------------------------------------------------------------------------------------ reference cells
def constraints(kind):
    """closed reference cell = {X : c0 + c.X >= 0 for every (c0, c)}  (integers)."""
    d = DIM[kind]
    eye = [[1 if a == b else 0 for b in range(d)] for a in range(d)]
    if kind in ('line', 'quad', 'hex'):
        return [(0, eye[a]) for a in range(d)] + [(1, [-v for v in eye[a]]) for a in range(d)]
    if kind in ('tri', 'tet'):
        return [(0, eye[a]) for a in range(d)] + [(1, [-1] * d)]
    return [(0, eye[0]), (0, eye[1]), (1, [-1, -1, 0]), (0, eye[2]), (1, [0, 0, -1])]      # wedge


def lattice(kind, D=8):
    """interior points of the dyadic lattice of the reference cell, numerators over D."""
    d = DIM[kind]
    if kind == 'line':
        return [[k] for k in range(1, D)]
    if kind in ('tri', 'tet'):
        return [list(c) for c in itertools.product(range(1, D), repeat=d) if sum(c) <= D - 1]
    if kind == 'quad':
        return [list(c) for c in itertools.product((1, 2, 4, 5, 7), repeat=2)]
    if kind == 'hex':
        return [list(c) for c in itertools.product((1, 4, 6), repeat=3)]
    return [[i, j, k] for (i, j) in itertools.product(range(1, D), repeat=2) if i + j <= D - 1 and (i + 2 * j) % 3 == 0
            for k in (2, 5)]


def t_range(kind, X0, r):
    """[tmin, tmax] of the parameters t with X0 + t r in the closed reference cell (Fractions; r a Fraction vector)."""
    lo, hi = None, None
    for c0, c in constraints(kind):
        g0 = c0 + sum(Fraction(ci) * x for ci, x in zip(c, X0))
        g1 = sum(Fraction(ci) * x for ci, x in zip(c, r))
        if g1 == 0:
            if g0 < 0:
                return None
            continue
        t = -g0 / g1
        if g1 > 0:
            lo = t if lo is None else max(lo, t)
        else:
            hi = t if hi is None else min(hi, t)
    return lo, hi


def pick_window(kind, X0, r, n, okwin, rng, hs, centred=False):
    """A window (a, n, H): nodes X0 + (a + j) / H * r, j = 0..n-1, inside the closed cell, allowed by the
    specification (okwin = set of admissible a for this n).  H = 1/h is the smallest of `hs` that admits one."""
    tr = t_range(kind, X0, r)
    if tr is None:
        return None
    lo, hi = tr
    for H in hs:
        left = int(-lo * H // 1) if lo is not None else n          # floor(-lo * H)
        right = int(hi * H // 1) if hi is not None else n
        feas = [a for a in sorted(okwin) if -a <= left and a + n - 1 <= right]
        if feas:
            if centred:
                a = min(feas, key=lambda v: abs(v + (n - 1) / 2.0))
            else:
                a = feas[int(rng.integers(len(feas)))]
            return a, n, H
    return None


def inv_exact(DF):
    """exact inverse (Fractions) of a matrix of floats that are exactly representable rationals."""
    d = DF.shape[0]
    A = [[Fraction(float(DF[r, c])) for c in range(d)] for r in range(d)]
    if d == 1:
        return [[1 / A[0][0]]]
    if d == 2:
        det = A[0][0] * A[1][1] - A[0][1] * A[1][0]
        return [[A[1][1] / det, -A[0][1] / det], [-A[1][0] / det, A[0][0] / det]]

    def cof(r, c):
        rows = [x for x in range(3) if x != r]
        cols = [x for x in range(3) if x != c]
        m = A[rows[0]][cols[0]] * A[rows[1]][cols[1]] - A[rows[0]][cols[1]] * A[rows[1]][cols[0]]
        return m if (r + c) % 2 == 0 else -m
    det = sum(A[0][c] * cof(0, c) for c in range(3))
    return [[cof(c, r) / det for c in range(3)] for r in range(3)]


# ------------------------------------------------------------------------------------------------ projection
def fxs(a):
    """flat list (row-major) of Fx limbs of an array."""
    return [fx_req(float(v)) for v in np.asarray(a, dtype=np.float64).ravel()]


def as_field(a, npts):
    """array with the points on the LAST axis, broadcast to npts (a constant returned as 0-d / length-1 array is the
    same function) and flattened to (ncomp, npts); also returns the component shape."""
    a = np.asarray(a, dtype=np.float64)
    if a.ndim == 0:
        a = a * np.ones(npts)
    if a.shape[-1] != npts:
        a = a * np.ones(a.shape[:-1] + (npts,))
    comp = a.shape[:-1]
    return a.reshape((-1, npts)), [int(s) for s in comp]


def field_dict(df):
    """{name: array} of the delivered (non-None) fields of a DiscreteField, in the order of FIELDS."""
    out = {}
    out['value'] = np.asarray(df)
    for nm in FIELDS[1:]:
        v = getattr(df, nm, None)
        if v is not None:
            out[nm] = np.asarray(v)
    return out


def field_records(df):
    """[{name, shape, x}] for the Wrap events."""
    return [{'name': nm, 'shape': [int(s) for s in a.shape], 'x': fxs(a)} for nm, a in field_dict(df).items()]
