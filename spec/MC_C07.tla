------------------------------- MODULE MC_C07 -------------------------------
(* Design-level check of C07: for every mesh of a small universe, every        *)
(* representative DOF signature with names, and EVERY subset of facets, of     *)
(* cells and of vertices (plus the argument-free query), the transcription of  *)
(* the lookup code (Dofs.tla: SelIxImpl, ExpandFacetsImpl, DofnamesToRowsImpl, *)
(* FlattenImpl, RestrictImpl, OrImpl, by-name dictionaries) returns the        *)
(* semantic answer (closure of the selection, restricted by name) for every    *)
(* skip set and every keep / drop set.  Meshes and signatures are exported.    *)
(* MC_C07_names.cfg overrides Sigs by SigsNamed: edge and facet DOFs carry     *)
(* different names -- the known deviation of _dofnames_to_rows (the            *)
(* invariants NameFilterHolds / ByKindNamesHold are expected to be violated    *)
(* there; with RowsInUse <- RowsFixed they hold again).                        *)
EXTENDS Dofs, MC_Universe

Thorough == IOEnv.TIER = "thorough"

S(dim, n, e, f, i, names) == [dim |-> dim, sig |-> [n |-> n, e |-> e, f |-> f, i |-> i], names |-> names]
SigsMain ==
  { S(1, 1,0,0,0, <<"u">>), S(1, 2,0,0,1, <<"u", "u_x", "NA">>), S(1, 1,0,0,2, <<"u", "u", "v">>),
    S(2, 1,0,0,0, <<"u">>), S(2, 1,0,1,0, <<"u", "u">>), S(2, 1,0,1,0, <<"u", "u_n">>),
    S(2, 3,0,1,0, <<"u", "u_x", "u_y", "u_n">>), S(2, 0,0,1,0, <<"u^n">>), S(2, 0,0,2,2, <<"u^n", "u^n", "NA", "NA">>),
    S(2, 1,0,0,1, <<"u", "NA">>), S(2, 2,0,1,1, <<"u^1", "u^2", "u^1", "p">>), S(2, 0,0,0,3, <<"u", "u", "u">>),
    S(3, 1,0,0,0, <<"u">>), S(3, 1,1,0,0, <<"u", "u">>), S(3, 0,1,0,0, <<"u^t">>), S(3, 0,0,1,0, <<"u^n">>),
    S(3, 1,1,1,1, <<"u", "u", "u", "u">>), S(3, 1,2,0,1, <<"u", "a", "b", "NA">>),
    S(3, 2,1,1,0, <<"u^1", "u^2", "w", "w">>), S(3, 1,0,2,0, <<"u", "a", "b">>) }
\* names listed in the element's order nodal, edge, facet, interior (as ElementComposite does)
SigsNamed == { S(3, 0,1,1,0, <<"u^t^1", "u^n^2">>), S(3, 1,1,1,1, <<"a", "b", "c", "d">>) }
Sigs == SigsMain \cup SigsNamed

LineM(Sub) == SubMesh("line", LineP, LineCells, Sub)
TriM(d, Sub) == SortCells(SubMesh("tri", LatP, TriCells(d), Sub))
QuadM(sh, Sub) == SubMesh("quad", LatP, [sq \in 1..4 |-> ShiftCell(QuadCells[sq], sh[sq])], Sub)
MeshesQuick ==
  { LineM({1, 2, 3}), LineM({1, 2, 4}),
    TriM([sq \in 1..4 |-> 0], {1, 2}), TriM([sq \in 1..4 |-> sq % 2], {1, 2, 3, 4}),
    QuadM([sq \in 1..4 |-> sq - 1], {1, 2}),
    SubMesh("tet", CubeP, Kuhn, {1, 2}), SubMesh("tet", CubeP, Five, {1, 5}),
    SubMesh("hex", HexP, HexCells, {1}) }
MeshesThorough ==
  MeshesQuick \cup
  { LineM({1, 2, 3, 4}), TriM([sq \in 1..4 |-> sq % 2], {1, 2, 3, 4, 5, 6}), TriM([sq \in 1..4 |-> 0], {2, 3, 5, 8}),
    QuadM([sq \in 1..4 |-> (3 * sq) % 4], {1, 2, 3}),
    SubMesh("tet", CubeP, Kuhn, {1, 2, 3}), SubMesh("tet", CubeP, Five, {1, 2, 5}),
    Renumber(SubMesh("tet", CubeP, Kuhn, {1, 2, 6}), ReversePerm(7)),
    SubMesh("hex", HexP, HexCells, {1, 2}) }
Meshes == IF Thorough THEN MeshesThorough ELSE MeshesQuick

ASSUME IOEnv.OUT_FILE = "" \/
       JsonSerialize(IOEnv.OUT_FILE, [meshes |-> SetToSeq(Meshes), sigs |-> SetToSeq(Sigs)])

\* name -> rows translation under test: the code's (facet names before edge names) or the candidate repair
RowsCode(b, names, skip)  == DofnamesToRowsImpl(b, names, skip)
RowsFixed(b, names, skip) == DofnamesToRowsFixed(b, names, skip)
RowsInUse(b, names, skip) == RowsFixed(b, names, skip)      \* current code (after fix 28a0105); RowsCode = before

BasisOf(m, c, sg) ==
  LET d == NumberDofsImpl(m.kind, m.nv, Len(c.edges), Len(c.facets), m.t, c.t2e, c.t2f, sg.sig) IN
  [ kind |-> m.kind, nv |-> m.nv, t |-> m.t, facets |-> c.facets, edges |-> c.edges, t2f |-> c.t2f, t2e |-> c.t2e,
    f2e |-> c.f2e, f2t |-> c.f2t, sig |-> sg.sig, names |-> sg.names, err |-> "",
    N |-> d.N, nodal |-> d.nodal, edge |-> d.edge, facet |-> d.facet, interior |-> d.interior ]

Selections(m, c) ==
  {[kind |-> "facets", ids |-> SortedSeq(F)] : F \in SUBSET (1..Len(c.facets))}
  \cup {[kind |-> "elements", ids |-> SortedSeq(K)] : K \in SUBSET (1..Len(m.t))}
  \cup {[kind |-> "nodes", ids |-> SortedSeq(V)] : V \in SUBSET (1..m.nv)}
  \cup {[kind |-> "none", ids |-> <<>>]}

ViewImpl(b, sel, skip) == ViewOf(SelIxImpl(b, sel), RowsInUse(b, skip, TRUE))
NameSets(b) == SUBSET (AllNames(b) \cup {"zz"})
SmallSkips(b) == {{}} \cup {{x} : x \in AllNames(b)}

\* the code's by-name dictionaries (dofs.py:203-231, 665-688): names read at offsets nodal, facet, edge, interior
CodeNameOffset(b, kc) ==
  LET nf == IF UsesF(b.kind, b.sig) THEN b.sig.f ELSE 0
      ne == IF UsesE(b.kind, b.sig) THEN b.sig.e ELSE 0
  IN CASE kc = "v" -> 0 [] kc = "f" -> b.sig.n [] kc = "e" -> b.sig.n + nf [] kc = "c" -> b.sig.n + nf + ne
OffsetFixed(b, kc) == NameOffset(b, kc)
OffsetCode(b, kc) == CodeNameOffset(b, kc)                   \* offsets before fix 28a0105 (nodal, facet, edge)
OffsetInUse(b, kc) == OffsetFixed(b, kc)
DictImpl(b, vw, kc, nm) ==
  LET ix   == CASE kc = "v" -> vw.nix [] kc = "f" -> vw.fix [] kc = "e" -> vw.eix [] kc = "c" -> vw.iix
      rows == CASE kc = "v" -> vw.nrows [] kc = "f" -> vw.frows [] kc = "e" -> vw.erows [] kc = "c" -> vw.irows
      tbl  == KindTable(b, kc)
  IN {tbl[g][r] : g \in ix, r \in {x \in rows : b.names[x + OffsetInUse(b, kc)] = nm}}

OtherSels(sel, n) ==
  IF sel.kind = "none" THEN {}
  ELSE {[kind |-> sel.kind, ids |-> SortedSeq((1..n) \ VSet(sel.ids))], [kind |-> sel.kind, ids |-> <<1>>]}
CountOf(b, sel) == CASE sel.kind = "facets" -> Len(b.facets) [] sel.kind = "elements" -> Len(b.t)
                     [] sel.kind = "nodes" -> b.nv [] OTHER -> 0

ModelClauses(b, sel) ==
  LET cl  == ClosureOf(b, sel)
      all == AllNames(b)
  IN
  [ ExactClosure |-> FlattenImpl(b, ViewImpl(b, sel, {})) = DofsOf(b, cl, all),
    SkipFilter |-> \A sk \in NameSets(b) : FlattenImpl(b, ViewImpl(b, sel, sk)) = DofsOf(b, cl, all \ sk),
    ArgumentFreeIsBoundary |-> sel.kind = "none" => BoundaryFacetsImpl(b) = TrueBoundaryFacets(b),
    NameFilter |-> \A sk \in SmallSkips(b) : \A ns \in NameSets(b) :
         LET vw == ViewImpl(b, sel, sk) IN
         /\ FlattenImpl(b, RestrictImpl(vw, RowsInUse(b, ns, FALSE))) = DofsOf(b, cl, (all \ sk) \cap ns)      \* keep, all
         /\ FlattenImpl(b, RestrictImpl(vw, RowsInUse(b, ns, TRUE))) = DofsOf(b, cl, (all \ sk) \ ns),         \* drop
    \* successive filters intersect: every pair (and triples) of keep / drop on a view built with a skip set, for all
    \* name sets; evaluated on the argument-free query and on cell {1} (thorough: on the selections {1} of each kind)
    FilterComposition |-> (sel.kind = "none" \/ (Thorough /\ sel.ids = <<1>>) \/ (sel.kind = "elements" /\ sel.ids = <<1>>)) =>
       \A sk \in {{}} \cup {{CHOOSE x \in all : TRUE}} : \A n1 \in SUBSET all : \A n2 \in SUBSET all :
         LET vw == ViewImpl(b, sel, sk)
             K(v, ns) == RestrictImpl(v, RowsInUse(b, ns, FALSE))
             D(v, ns) == RestrictImpl(v, RowsInUse(b, ns, TRUE))
             a0 == all \ sk
         IN /\ FlattenImpl(b, K(K(vw, n1), n2)) = DofsOf(b, cl, (a0 \cap n1) \cap n2)
            /\ FlattenImpl(b, D(K(vw, n1), n2)) = DofsOf(b, cl, (a0 \cap n1) \ n2)
            /\ FlattenImpl(b, K(D(vw, n1), n2)) = DofsOf(b, cl, (a0 \ n1) \cap n2)
            /\ FlattenImpl(b, D(D(vw, n1), n2)) = DofsOf(b, cl, (a0 \ n1) \ n2)
            /\ FlattenImpl(b, K(D(K(vw, n1), n2), all)) = DofsOf(b, cl, (a0 \cap n1) \ n2)
            /\ FlattenImpl(b, K(K(D(vw, n1), n2), n1)) = DofsOf(b, cl, ((a0 \ n1) \cap n2) \cap n1)
            /\ FlattenImpl(b, D(K(D(vw, n2), all), n1)) = DofsOf(b, cl, (a0 \ n2) \ n1),
    ByKindNames |-> \A sk \in SmallSkips(b) : \A kc \in Kinds : \A nm \in all :
         DictImpl(b, ViewImpl(b, sel, sk), kc, nm) = DofsOfKind(b, cl, kc, (all \ sk) \cap {nm}),
    UnionView |-> \A s2 \in OtherSels(sel, CountOf(b, sel)) :
         FlattenImpl(b, OrImpl(ViewImpl(b, sel, {}), ViewImpl(b, s2, {})))
           = DofsOf(b, ClosureUnion(cl, ClosureOf(b, s2)), all),
    UnionViewSkip |-> \A s2 \in OtherSels(sel, CountOf(b, sel)) : \A sk \in SmallSkips(b) :
         FlattenImpl(b, OrImpl(ViewImpl(b, sel, sk), ViewImpl(b, s2, sk)))
           = DofsOf(b, ClosureUnion(cl, ClosureOf(b, s2)), all \ sk),
    ComplementIsComplement |-> LET D == FlattenImpl(b, ViewImpl(b, sel, {})) IN
         {d \in 0..(b.N - 1) : d \notin D} \cup D = 0..(b.N - 1) ]

VARIABLES m, c, sg, sel, failed
vars == <<m, c, sg, sel, failed>>

Init == m \in Meshes /\ c = <<>> /\ sg = <<>> /\ sel = <<>> /\ failed = {}
Connect == /\ c = <<>>
           /\ c' = ConnImpl(m.kind, m.nv, m.t, CodeLF(m.kind), CodeLE(m.kind), CodeLFE(m.kind))
           /\ UNCHANGED <<m, sg, sel, failed>>
PickSig == /\ c # <<>> /\ sg = <<>>
           /\ \E s \in {x \in Sigs : x.dim = Dim(m.kind)} : sg' = s
           /\ UNCHANGED <<m, c, sel, failed>>
Query == /\ sg # <<>> /\ sel = <<>>
         /\ \E q \in Selections(m, c) :
               /\ sel' = q
               /\ failed' = Failed(ModelClauses(BasisOf(m, c, sg), q))
         /\ UNCHANGED <<m, c, sg>>
Next == Connect \/ PickSig \/ Query
Spec == Init /\ [][Next]_vars

NameGroup == {"SkipFilter", "NameFilter", "ByKindNames", "UnionViewSkip", "FilterComposition"}
\* main configuration: everything holds, except that for the signatures of SigsNamed (edge and facet DOFs named
\* differently) the name-dependent clauses are left to MC_C07_names.cfg / MC_C07_fixed.cfg
ClausesHold  == IF sg \in SigsNamed THEN failed \ NameGroup = {} ELSE failed = {}
\* MC_C07_names.cfg (Sigs <- SigsNamed): violated by the code's name -> row order (known deviation, DESIGN 7 #12);
\* MC_C07_fixed.cfg (RowsInUse <- RowsFixed, OffsetInUse <- OffsetFixed): holds
NameRowsHold == failed \cap NameGroup = {}
==============================================================================
