"""X08 - named constructors (extended coverage beyond the listed properties; NOT registered in MANIFEST.json).

The default constructors, `init_refdom`, `MeshTri.init_symmetric / init_sqsymmetric / init_lshaped`, their uniform
refinements, and `MeshTri.init_circle` / `MeshTet.init_ball`: each must give a valid, conforming, non-degenerate mesh of
the advertised domain (exact integer geometry; for the circle / ball, whose coordinates are not dyadic, laws on fixed
point: boundary vertices on the unit sphere, interior ones inside, measure below that of the ball and approaching it).
Verdicts: spec/TraceX08.tla against spec/NamedMeshes.tla.
"""
import json

import numpy as np

from ..core import guarded
from ..project import fx, ids, kind_of, NVERT, find_scale

RULE = 'scenario = (constructor, refinement level); distinct = distinct pairs.'

# name -> (builder, dim, advertised measure (num, den), bounding box or None)
NAMED = {
    'MeshLine()': (lambda f: f.MeshLine(), 1, (1, 1), (0, 1)),
    'MeshTri()': (lambda f: f.MeshTri(), 2, (1, 1), (0, 1)),
    'MeshQuad()': (lambda f: f.MeshQuad(), 2, (1, 1), (0, 1)),
    'MeshTet()': (lambda f: f.MeshTet(), 3, (1, 1), (0, 1)),
    'MeshHex()': (lambda f: f.MeshHex(), 3, (1, 1), (0, 1)),
    'MeshWedge1()': (lambda f: f.MeshWedge1(), 3, (1, 1), (0, 1)),
    'MeshLine.init_refdom()': (lambda f: f.MeshLine.init_refdom(), 1, (1, 1), (0, 1)),
    'MeshTri.init_refdom()': (lambda f: f.MeshTri.init_refdom(), 2, (1, 2), (0, 1)),
    'MeshQuad.init_refdom()': (lambda f: f.MeshQuad.init_refdom(), 2, (1, 1), (0, 1)),
    'MeshTet.init_refdom()': (lambda f: f.MeshTet.init_refdom(), 3, (1, 6), (0, 1)),
    'MeshHex.init_refdom()': (lambda f: f.MeshHex.init_refdom(), 3, (1, 1), (0, 1)),
    'MeshTri.init_symmetric()': (lambda f: f.MeshTri.init_symmetric(), 2, (1, 1), (0, 1)),
    'MeshTri.init_sqsymmetric()': (lambda f: f.MeshTri.init_sqsymmetric(), 2, (1, 1), (0, 1)),
    'MeshTri.init_lshaped()': (lambda f: f.MeshTri.init_lshaped(), 2, (3, 1), (-1, 1)),
    'MeshTri2()': (lambda f: f.MeshTri2(), 2, (1, 1), (0, 1)),
    'MeshQuad2()': (lambda f: f.MeshQuad2(), 2, (1, 1), (0, 1)),
    'MeshTet2()': (lambda f: f.MeshTet2(), 3, (1, 1), (0, 1)),
    'MeshHex2()': (lambda f: f.MeshHex2(), 3, (1, 1), (0, 1)),
}


def execute(rec):
    import skfem as fem
    if rec['name'] in ('circle', 'ball'):
        n = rec['n']
        dim = 2 if rec['name'] == 'circle' else 3
        ev = {'a': 'Round', 'err': '', 'r2b': [], 'r2i': [], 'area': fx(0.0), 'n': n, 'dim': dim}

        def call():
            m = fem.MeshTri.init_circle(n) if dim == 2 else fem.MeshTet.init_ball(n)
            r2 = (m.p ** 2).sum(axis=0)
            b = m.boundary_nodes()
            i = m.interior_nodes()
            vol = float(np.abs(m.mapping().detDF(np.zeros((dim, 1)))).sum()) / (2 if dim == 2 else 6)
            return r2[b], r2[i], vol
        out, err = guarded(call, 120)
        if err:
            ev['err'] = err
            return [ev]
        ev['r2b'] = [fx(float(v)) for v in out[0][:400]]
        ev['r2i'] = [fx(float(v)) for v in out[1][:400]]
        ev['area'] = fx(out[2])
        return [ev]
    build, dim, vol, box = NAMED[rec['name']]
    ev = {'a': 'Named', 'err': '', 'm': {'kind': 'tri', 'p': [], 't': []}, 'sc': 1, 'dim': dim, 'vol': list(vol),
          'inbox': list(box) if box else []}

    def call2():
        m = build(fem)
        if rec['n']:
            m = m.refined(rec['n'])
        return m
    m, err = guarded(call2, 120)
    if err:
        ev['err'] = err
        return [ev]
    kind = kind_of(m)
    nv = NVERT[kind]
    nvert = int(m.t[:nv].max()) + 1
    P = m.p[:, :nvert]
    sc = find_scale(P)
    if not sc:
        ev['err'] = 'InexactCoordinates'
        return [ev]
    ev['m'] = {'kind': kind, 'p': [[int(round(v * sc)) for v in col] for col in P.T], 't': ids(m.t[:nv])}
    ev['sc'] = int(sc)
    return [ev]


def generate(tier):
    recs = []
    for name, (_, dim, _, _) in NAMED.items():
        levels = (0, 1, 2) if dim < 3 else (0, 1)
        if tier == 'thorough' and dim == 2:
            levels = (0, 1, 2, 3)
        if name.startswith('MeshWedge'):
            levels = (0,)
        for n in levels:
            recs.append({'driver': 'named', 'name': name, 'n': n})
    for n in ((1, 2, 3, 4) if tier == 'thorough' else (1, 2, 3)):
        recs.append({'driver': 'named', 'name': 'circle', 'n': n})
    for n in ((1, 2, 3) if tier == 'thorough' else (1, 2)):
        recs.append({'driver': 'named', 'name': 'ball', 'n': n})
    return recs


def run(ctx):
    recs = generate(ctx.tier)
    scs = [{'id': f'X08-{k}', 'recipe': r, 'tags': {'name': r['name'], 'n': r['n']}, 'events': execute(r)} for k, r in enumerate(recs)]
    ctx.validate('TraceX08', scs)
    ctx.notes['distinct_nontrivial'] = len({json.dumps(r, sort_keys=True) for r in recs})
    return ctx.finish(rule=RULE, assumptions=['extended coverage: not one of the listed properties'], exhaustive=True)


def replay(ctx, doc):
    sc = doc['scenario']
    ctx.validate('TraceX08', [{'id': sc['id'], 'recipe': sc['recipe'], 'tags': sc.get('tags', {}), 'events': execute(sc['recipe'])}])
    return ctx.finish(rule=RULE)
