"""C11 - derived mesh connectivity is coherent with the cell list.

M : spec/MC_C11.cfg  - TLC enumerates the lattice universes, runs the transcription ConnImpl of
    build_entities/build_inverse and checks the C11 clauses on it (design level); it also exports the
    enumerated meshes, which are replayed on the real Mesh classes (R, spec -> code).
V : the tables reported by the real classes for universe meshes, random integer Delaunay meshes and
    renumbered / cell-permuted / locally re-ordered variants are validated by TraceC11 (code -> spec).
"""
import itertools
import json
import os

import numpy as np

from .. import universe as U
from ..core import guarded, MachineryError
from ..project import conn_event, ids

RULE = ('scenario = one geometric mesh (integer coordinates) under several vertex numberings, cell orders and '
        'admissible local vertex orders; every table the code reports is one event. Non-trivial = mesh has >= 2 '
        'cells and at least one interior facet; distinct = distinct (kind, p, t) of the first variant.')


def _variants(kind, p, t, rng, n, local=True):
    """first variant: as generated; then renumbered / cell-permuted / locally re-ordered ones."""
    out = [(p, t)]
    nv, nt = p.shape[1], t.shape[1]
    for k in range(n - 1):
        if k == 0:
            perm = np.arange(nv)[::-1].copy()
        else:
            perm = rng.permutation(nv)
        p2, t2 = U.renumber(p, t, perm)
        t2 = U.permute_cells(t2, rng.permutation(nt))
        if local:
            t2 = U.apply_local_orders(kind, t2, rng)
            if kind == 'quad' and k >= 1:
                # mixed sense of rotation (as produced by m + m.mirrored()): topology must not depend on it
                for c in range(t2.shape[1]):
                    if rng.random() < 0.5:
                        t2[:, c] = t2[[0, 3, 2, 1], c]
        out.append((p2, t2))
    return out


def recipe(kind, p, t, rng, nvar, fam, local=True):
    vs = _variants(kind, p, t, rng, nvar, local)
    return {'driver': 'conn', 'kind': kind, 'family': fam, 'rep0': int(rng.integers(0, 5)),
            'variants': [{'p': np.asarray(pp).astype(int).tolist(), 't': np.asarray(tt).astype(int).tolist()}
                         for pp, tt in vs]}


def battery(m, kind, derived=None):
    """Operations that return NEW objects.  Afterwards the tables of `m` itself must still agree with its cell list
    (a stale or corrupted cache / an operand written in place shows here), and the tables of the RESULTS (built while
    the operand's lazy tables are already filled) must agree with the results' own cell lists (`derived` collects them)."""
    import numpy as np
    ops = [lambda: m.refined(), lambda: m.restrict(np.array([0])), lambda: m.translated((1.,) * m.p.shape[0]),
           lambda: m.scaled((2.,) * m.p.shape[0]), lambda: m.with_subdomains({'s': np.array([0])}),
           lambda: m.remove_elements(np.array([0])) if m.t.shape[1] > 1 else None]
    if kind in ('tri', 'tet'):
        ops += [lambda: m.oriented(), lambda: m.refined(np.array([0]))]
    if kind == 'line':
        ops += [lambda: m.refined(np.array([0]))]
    if kind in ('tri', 'quad', 'tet', 'hex'):
        ops += [lambda: m.mirrored((0.,) * m.p.shape[0], (1.,) + (0.,) * (m.p.shape[0] - 1))]
    if kind == 'quad':
        ops += [lambda: m.to_meshtri()]
    if kind == 'hex':
        ops += [lambda: m.to_meshtet()]
    if derived is not None and kind in ('tri', 'quad', 'tet', 'hex'):
        import skfem as fem
        c1, c2 = {'tri': (fem.MeshTri1, fem.MeshTri2), 'quad': (fem.MeshQuad1, fem.MeshQuad2),
                  'tet': (fem.MeshTet1, fem.MeshTet2), 'hex': (fem.MeshHex1, fem.MeshHex2)}[kind]

        def via_second_order():
            m2 = c2.from_mesh(m)
            m2.facets, m2.t2f, m2.f2t
            return c1.from_mesh(m2)

        def via_oriented():
            mo = m.oriented()
            mo.facets, mo.t2f, mo.f2t
            return c1.from_mesh(mo)
        ops = [via_second_order] + ([via_oriented] if kind in ('tri', 'tet') else []) + ops
    for op in ops:
        try:
            r = op()
            if derived is not None and r is not None and hasattr(r, 't') and r.t.shape[1] <= 40 \
                    and type(r).__name__ in ('MeshLine1', 'MeshTri1', 'MeshQuad1', 'MeshTet1', 'MeshHex1'):
                ev = conn_event(r, with_coords=False)
                ev['ni'] = 0
                ev['tags'] = {'phase': 'derived-result'}
                derived.append(ev)
        except Exception:        # the operations themselves are judged by C12/C13/C18
            pass


CONSTRUCTORS = {
    'MeshLine()': ('line', lambda f: f.MeshLine()),
    'MeshLine(linspace)': ('line', lambda f: f.MeshLine(np.linspace(0, 1, 5))),
    'MeshTri()': ('tri', lambda f: f.MeshTri()),
    'MeshTri.init_symmetric()': ('tri', lambda f: f.MeshTri.init_symmetric()),
    'MeshTri.init_sqsymmetric()': ('tri', lambda f: f.MeshTri.init_sqsymmetric()),
    'MeshTri.init_lshaped()': ('tri', lambda f: f.MeshTri.init_lshaped()),
    'MeshTri.init_tensor': ('tri', lambda f: f.MeshTri.init_tensor(np.array([0., 1., 3.]), np.array([0., 2., 3., 4.]))),
    'MeshTri.init_circle(2)': ('tri', lambda f: f.MeshTri.init_circle(2)),
    'MeshTri.init_refdom()': ('tri', lambda f: f.MeshTri.init_refdom()),
    'MeshQuad()': ('quad', lambda f: f.MeshQuad()),
    'MeshQuad.init_tensor': ('quad', lambda f: f.MeshQuad.init_tensor(np.array([0., 1., 3.]), np.array([0., 2., 3.]))),
    'MeshQuad.refined.to_meshtri': ('tri', lambda f: f.MeshQuad().refined(1).to_meshtri()),
    'MeshTet()': ('tet', lambda f: f.MeshTet()),
    'MeshTet.init_tensor': ('tet', lambda f: f.MeshTet.init_tensor(np.array([0., 1., 2.]), np.array([0., 1.]), np.array([0., 2.]))),
    'MeshTet.init_ball(1)': ('tet', lambda f: f.MeshTet.init_ball(1)),
    'MeshTet.init_refdom()': ('tet', lambda f: f.MeshTet.init_refdom()),
    'MeshHex()': ('hex', lambda f: f.MeshHex()),
    'MeshHex.init_tensor': ('hex', lambda f: f.MeshHex.init_tensor(np.array([0., 1., 2.]), np.array([0., 1.]), np.array([0., 2., 3.]))),
    'MeshHex.to_meshtet': ('tet', lambda f: f.MeshHex().refined(1).to_meshtet()),
    'MeshWedge1()': ('wedge', lambda f: f.MeshWedge1()),
    'MeshTri*MeshLine': ('wedge', lambda f: f.MeshTri().refined(1) * f.MeshLine(np.linspace(0, 1, 3))),
    'MeshWedge1.to_meshtet': ('tet', lambda f: f.MeshWedge1().to_meshtet()),
    'MeshTri.refined(2)': ('tri', lambda f: f.MeshTri().refined(2)),
    'MeshTet.refined(1)': ('tet', lambda f: f.MeshTet().refined(1)),
    'MeshHex.refined(1)': ('hex', lambda f: f.MeshHex().refined(1)),
    # periodic (discontinuous-topology) meshes: vertices identified across the periodic boundary
    'MeshTri1DG.periodic[0]': ('tri', lambda f: f.MeshTri1DG.init_tensor(np.linspace(0, 1, 4), np.linspace(0, 1, 3), periodic=[0])),
    'MeshTri1DG.periodic[0,1]': ('tri', lambda f: f.MeshTri1DG.init_tensor(np.linspace(0, 1, 4), np.linspace(0, 1, 4), periodic=[0, 1])),
    'MeshQuad1DG.periodic[1]': ('quad', lambda f: f.MeshQuad1DG.init_tensor(np.linspace(0, 1, 3), np.linspace(0, 1, 4), periodic=[1])),
    'MeshQuad1DG.periodic[0,1]': ('quad', lambda f: f.MeshQuad1DG.init_tensor(np.linspace(0, 1, 4), np.linspace(0, 1, 4), periodic=[0, 1])),
    'MeshLine1DG.periodic': ('line', lambda f: f.MeshLine1DG.init_tensor(np.linspace(0, 1, 5), periodic=[0])),
    'MeshHex1DG.periodic[0]': ('hex', lambda f: f.MeshHex1DG.init_tensor(np.linspace(0, 1, 4), np.linspace(0, 1, 3), np.linspace(0, 1, 3), periodic=[0])),
    'MeshTri2()': ('tri', lambda f: f.MeshTri2()),
    'MeshQuad2()': ('quad', lambda f: f.MeshQuad2()),
    'MeshTet2()': ('tet', lambda f: f.MeshTet2()),
    'MeshHex2()': ('hex', lambda f: f.MeshHex2()),
}


def execute_constructor(rec):
    """Default constructors and constructor chains as initial states: their tables must satisfy C11 as well."""
    import skfem as fem

    def call():
        m = CONSTRUCTORS[rec['constructor']][1](fem)
        ev = conn_event(m, with_coords=False)
        return ev
    ev, err = guarded(call, 60)
    if err:
        ev = {'a': 'Conn', 'kind': rec['kind'], 'err': err, 'nv': 0, 't': [], 'lf': [], 'le': [], 'lfe': [], 'facets': [],
              't2f': [], 'f2t': [], 'bfacets': [], 'bnodes': [], 'inodes': [], 'p2f': [], 'p2t': [], 'edges': [],
              't2e': [], 'f2e': [], 'bedges': [], 'p2e': [], 'e2t': [], 'errs': [], 'p': [], 'scale': 0, 'ni': 1}
    return [ev]


def execute(rec):
    """Run the real code on a recipe; returns the event list."""
    if rec.get('driver') == 'constructor':
        return execute_constructor(rec)
    events = []
    kind = rec['kind']
    for j, v in enumerate(rec['variants']):
        def call():
            if 'ids' in v:
                # scatter the points to their (huge) ids; all other columns are points of no cell
                P = np.zeros((len(v['p']), rec['nv_total']))
                P[:] = np.arange(rec['nv_total'])[None, :] + 1000.0        # distinct dummy points
                P[:, v['ids']] = np.array(v['p'], dtype=float)
                m = U.mesh_class(kind)(P, np.array(v['t'], dtype=np.int64))
                return conn_event(m, with_coords=False)
            m = U.make(kind, v['p'], v['t'], rep=(j + rec.get('rep0', 0)) % 5)     # the same mesh, handed over differently
            ev1 = conn_event(m, with_coords=True, scale=1)
            if j == 0 and rec.get('battery', True):
                extra = []
                battery(m, kind, extra if rec.get('family') in ('U2t', 'U2q', 'U3t', 'U3h', 'U1') and len(v['t'][0]) <= 6 else None)
                ev1['derived'] = extra
                # same object, after operations that must not touch it; err/shape problems are judged by the clauses
                ev1['again'] = conn_event(m, with_coords=True, scale=1)
            return ev1
        ev, err = guarded(call, 60)
        again = ev.pop('again', None) if isinstance(ev, dict) else None
        derived = ev.pop('derived', []) if isinstance(ev, dict) else []
        if err:
            ev = {'a': 'Conn', 'kind': kind, 'err': err, 'nv': 0, 't': [], 'lf': [], 'le': [], 'lfe': [], 'facets': [],
                  't2f': [], 'f2t': [], 'bfacets': [], 'bnodes': [], 'inodes': [], 'p2f': [], 'p2t': [], 'edges': [],
                  't2e': [], 'f2e': [], 'bedges': [], 'p2e': [], 'e2t': [], 'errs': [], 'p': [], 'scale': 0, 'ni': 1}
        events.append(ev)
        if again is not None:
            again['tags'] = {'phase': 'after-operations'}
            events.append(again)
        events.extend(derived[:4] if rec.get('family') != 'TLC-universe' else derived[:2])
    return events


def scenario(sid, rec):
    return {'id': sid, 'recipe': rec, 'tags': {'kind': rec['kind'], 'family': rec['family']},
            'events': execute(rec)}


def generate(tier, seed):
    rng = np.random.default_rng(seed + 11)
    recs = []
    thorough = tier == 'thorough'
    nvar = 3
    # --- U1: segments, gaps allowed, any numbering
    for pts in ([0, 1], [0, 1, 2, 3], [0, 1, 3, 4], [0, 2, 3, 7, 8]):
        p, t = U.line_points(pts)
        recs.append(recipe('line', p, t, rng, nvar, 'U1'))
    p, t = U.line_points([0, 1, 2, 4, 5, 7])
    p, t = U.submesh(p, t, [0, 1, 3])          # several components
    recs.append(recipe('line', p, t, rng, nvar, 'U1-components'))
    # --- U2t: 2x2 lattice, all diagonal choices, subsets of the 8 triangles
    diag_sets = list(itertools.product((0, 1), repeat=4))
    for dg in (diag_sets if thorough else diag_sets[::3]):
        p, t = U.tri_lattice(2, 2, dg)
        subsets = [s for r in range(1, 9) for s in itertools.combinations(range(8), r)]
        if not thorough:
            subsets = [subsets[j] for j in rng.choice(len(subsets), 40, replace=False)] + [tuple(range(8))]
        for s in subsets:
            ps, ts = U.submesh(p, t, s)
            recs.append(recipe('tri', ps, ts, rng, nvar if len(s) > 2 else 2, 'U2t'))
    for jig in ([(4, 0.25, 0.5)], [(4, -0.5, 0.25)]):
        p, t = U.tri_lattice(2, 2, (0, 1, 1, 0), jiggle=jig)
        recs.append(recipe('tri', p * 4, t, rng, nvar, 'U2t-jiggled'))
    # --- U2q
    for (nx, ny) in ((1, 1), (2, 2), (3, 2)):
        p, t = U.quad_grid(nx, ny)
        nt = t.shape[1]
        subsets = [s for r in range(1, nt + 1) for s in itertools.combinations(range(nt), r)]
        if not thorough and len(subsets) > 20:
            subsets = [subsets[j] for j in rng.choice(len(subsets), 20, replace=False)] + [tuple(range(nt))]
        for s in subsets:
            ps, ts = U.submesh(p, t, s)
            recs.append(recipe('quad', ps, ts, rng, nvar, 'U2q'))
    # --- U3t
    for (n, split) in ((1, 6), (1, 5), (2, 6), (2, 5)):
        p, t = U.tet_cubes(n, split)
        nt = t.shape[1]
        subsets = [s for r in range(1, nt + 1) for s in itertools.combinations(range(nt), r)]
        k = 400 if thorough else 25
        if len(subsets) > k:
            subsets = [subsets[j] for j in rng.choice(len(subsets), k, replace=False)] + [tuple(range(nt))]
        for s in subsets:
            ps, ts = U.submesh(p, t, s)
            recs.append(recipe('tet', ps, ts, rng, nvar, 'U3t'))
    # --- U3h
    for dims in ((1, 1, 1), (2, 1, 1), (2, 2, 1), (2, 2, 2)):
        p, t = U.hex_grid(*dims)
        nt = t.shape[1]
        subsets = [s for r in range(1, nt + 1) for s in itertools.combinations(range(nt), r)]
        k = 60 if thorough else 8
        if len(subsets) > k:
            subsets = [subsets[j] for j in rng.choice(len(subsets), k, replace=False)] + [tuple(range(nt))]
        for s in subsets:
            ps, ts = U.submesh(p, t, s)
            recs.append(recipe('hex', ps, ts, rng, nvar, 'U3h'))
    # --- UW
    for dg in ((0,), (1,)):
        p2, t2 = U.tri_lattice(1, 1, dg)
        for nz in (1, 2):
            p, t = U.wedge_extrude(p2, t2, nz)
            recs.append(recipe('wedge', p, t, rng, nvar, 'UW', local=False))
            recs.append(recipe('wedge', p, t, rng, nvar, 'UW-rotated'))
    p2, t2 = U.tri_lattice(2, 1, (0, 1))
    p, t = U.wedge_extrude(p2, t2, 1)
    recs.append(recipe('wedge', p, t, rng, nvar, 'UW', local=False))
    # --- default constructors and constructor chains (initial states of every session)
    for name, (kind, _) in CONSTRUCTORS.items():
        recs.append({'driver': 'constructor', 'kind': kind, 'family': 'constructors' if kind != 'wedge' else 'UW',
                     'constructor': name, 'variants': [{'p': [], 't': [[0, 0]]}]})
    # --- few cells, huge and scattered vertex numbers (points that belong to no cell fill the gaps): index arithmetic
    #     on vertex ids (keys, offsets, dtypes) must not depend on their magnitude
    big = [5, 32773, 65541, 98309, 100000, 131071, 70001, 46341, 65536]
    for kind_, (p_, t_) in (('tri', U.tri_lattice(2, 1, (0, 1))), ('quad', U.quad_grid(2, 1)), ('tet', U.tet_cubes(1, 5)),
                            ('hex', U.hex_grid(1, 1, 1)), ('line', U.line_points([0, 1, 3, 4])),
                            ('wedge', U.wedge_extrude(*U.tri_lattice(1, 1, (0,)), nz=1))):
        ids = sorted(big[:p_.shape[1]]) if p_.shape[1] <= len(big) else None
        if ids is None:
            continue
        for order in (ids, ids[::-1]):
            recs.append({'driver': 'conn', 'kind': kind_, 'family': 'big-ids', 'battery': False, 'nv_total': 131072,
                         'variants': [{'p': p_.astype(int).tolist(), 't': np.asarray(order)[t_].tolist(), 'ids': list(order)}]})
    # --- point arrays with points that belong to no cell BETWEEN the used ones (what `ma, mb = m1 @ m2` returns, mesh files
    #     with stray nodes): every cell type, small gaps
    for kind_, (p_, t_) in (('line', U.line_points([0, 1, 3, 4])), ('tri', U.tri_lattice(2, 1, (0, 1))), ('quad', U.quad_grid(2, 1)),
                            ('tet', U.tet_cubes(1, 6)), ('hex', U.hex_grid(2, 1, 1)),
                            ('wedge', U.wedge_extrude(*U.tri_lattice(1, 1, (0,)), nz=2))):
        nvk = p_.shape[1]
        for rep_ in range(2):
            ids = np.sort(rng.choice(2 * nvk + 3, size=nvk, replace=False))
            if rep_ == 1:
                ids = ids[rng.permutation(nvk)]
            recs.append({'driver': 'conn', 'kind': kind_, 'family': 'gaps' if kind_ != 'wedge' else 'UW', 'battery': False,
                         'nv_total': int(2 * nvk + 3),
                         'variants': [{'p': p_.astype(int).tolist(), 't': np.asarray(ids)[t_].astype(int).tolist(),
                                       'ids': [int(v) for v in ids]}]})
    # --- random tier: integer Delaunay
    nrand = 400 if thorough else 30
    for j in range(nrand):
        dim = 2 if j % 2 == 0 else 3
        npts = int(rng.integers(4, 14 if dim == 2 else 10))
        p, t = U.delaunay_int(dim, npts, 6 if dim == 2 else 4, rng)
        if t.shape[1] == 0:
            continue
        recs.append(recipe('tri' if dim == 2 else 'tet', p, t, rng, 2, 'delaunay'))
    return recs


def _nontrivial(rec):
    if rec.get('driver') == 'constructor':
        return True
    t = np.array(rec['variants'][0]['t'])
    return t.ndim == 2 and t.shape[1] >= 2


def model(ctx):
    env = {'OUT_FILE': os.path.join(ctx.scratch, 'c11_universe.json')}
    r = ctx.model_must_hold('MC_C11', 'MC_C11.cfg', env=env, timeout=1200 if ctx.tier == 'thorough' else 600)
    recs = []
    if os.path.exists(env['OUT_FILE']):
        for m in json.load(open(env['OUT_FILE'])):
            p = (np.array(m['p']).T).tolist()
            t = (np.array(m['t']).T - 1).tolist()
            recs.append({'driver': 'conn', 'kind': m['kind'], 'family': 'TLC-universe',
                         'variants': [{'p': p, 't': t}]})
    return recs


def run(ctx):
    recs = []
    if os.path.exists(os.path.join(os.path.dirname(__file__), '..', '..', 'spec', 'MC_C11.cfg')):
        recs += model(ctx)                      # M + scenarios for R
    n_tlc = len(recs)
    recs += generate(ctx.tier, ctx.seed)
    scs = [scenario(f'C11-{k}', r) for k, r in enumerate(recs)]
    if ctx.tier == 'thorough':
        # the repository's own tests under recording wrappers: every small mesh whose facets table they build
        from .. import suite
        ev = suite.record(ctx)
        for j, e in enumerate(ev['conn']):
            e.setdefault('errs', [])
            scs.append({'id': f'C11-suite-{j}', 'recipe': {'driver': 'suite', 'test': e.pop('test', '')},
                        'tags': {'kind': e['kind'], 'family': 'suite' if e['kind'] != 'wedge' else 'UW'}, 'events': [e]})
    ctx.validate('TraceC11', scs)
    keys = {json.dumps([r['kind'], r.get('constructor'), r['variants'][0]]) for r in recs if _nontrivial(r)}
    ctx.notes['distinct_nontrivial'] = len(keys)
    ctx.notes['scenarios_from_tlc_universe'] = n_tlc
    return ctx.finish(rule=RULE, assumptions=[
        'generated meshes are manifold (every facet in <= 2 cells); C11 is not asserted for non-manifold input',
        'TLC 1.8.0 and the CommunityModules Json module are trusted'],
        exhaustive=False)


def replay(ctx, doc):
    sc = doc['scenario']
    sc2 = scenario(sc['id'], sc['recipe'])
    ctx.validate('TraceC11', [sc2])
    return ctx.finish(rule=RULE)
