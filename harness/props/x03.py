"""X03 - geometric selections, oriented facet sets and trace meshes (extended coverage beyond the listed properties;
NOT registered in MANIFEST.json).

Small integer meshes of every cell type (scrambled vertex / cell numbering and local orders) are queried through
`nodes_satisfying`, `facets_satisfying` (with `boundaries_only` and with `normal=`), `elements_satisfying`,
`facets_around` (with and without `flip`) and `trace`.  The half spaces are placed a quarter off the integer lattice, so
no midpoint of an integer mesh lies on the plane and the expected sets are decided in integer arithmetic by
spec/Selection.tla (via spec/TraceX03.tla) from the mesh and the code's own facet numbering.
"""
import json

import numpy as np

from .. import universe as U
from ..core import guarded
from ..project import ids, kind_of, NVERT, local_tables

RULE = ('scenario = (integer mesh with its numbering, query kind, half space / normal / cell set); '
        'distinct = distinct (mesh, query) pairs.')


def base_meshes(rng, tier):
    out = []
    out.append(('line', *U.line_points([0, 1, 3, 4, 6])))
    out.append(('tri', *U.tri_lattice(2, 2, diags=[int(x) for x in rng.integers(0, 2, 4)])))
    out.append(('tri', *U.tri_lattice(3, 2, diags=[int(x) for x in rng.integers(0, 2, 6)])))
    out.append(('quad', *U.quad_grid(2, 2)))
    out.append(('quad', *U.quad_grid(3, 2)))
    out.append(('tet', *U.tet_cubes(1, 6)))
    out.append(('tet', *U.tet_cubes(2, 5)))
    out.append(('hex', *U.hex_grid(2, 1, 1)))
    out.append(('hex', *U.hex_grid(2, 2, 1)))
    if tier == 'thorough':
        out.append(('tri', *U.delaunay_int(2, 9, 5, rng)))
        out.append(('tet', *U.delaunay_int(3, 8, 3, rng)))
        out.append(('hex', *U.hex_grid(2, 2, 2)))
        out.append(('quad', *U.quad_grid(3, 3)))
    return out


def scramble(kind, p, t, rng):
    perm = rng.permutation(p.shape[1])
    p2, t2 = U.renumber(p, t, perm)
    t2 = U.permute_cells(t2, rng.permutation(t2.shape[1]))
    t2 = U.apply_local_orders(kind, t2, rng)
    return p2, t2


def execute(rec):
    import skfem as fem
    kind = rec['kind']
    m, err = guarded(lambda: U.make(kind, rec['p'], rec['t']), 30)
    base = {'a': 'Sel', 'kind': kind, 'err': err, 'p': [], 't': [], 'facets': [], 'f2t': [], 'lf': [], 'q': rec['q'],
            'axis': rec.get('axis', 0) + 1, 'c': rec.get('c', 0), 'sense': rec.get('sense', 1), 'bonly': rec.get('bonly', 0),
            'normal': rec.get('normal', []), 'elements': [e + 1 for e in rec.get('elements', [])], 'flip': rec.get('flip', 0),
            'res': [], 'ori': [], 'tp': [], 'tt': []}
    if err:
        base['err'] = 'Setup:' + err
        return [base]
    nv = NVERT[kind]
    base['p'] = [[int(round(v)) for v in col] for col in m.p.T]
    base['t'] = ids(m.t[:nv])
    base['facets'] = ids(m.facets)
    base['f2t'] = ids(m.f2t)
    base['lf'] = local_tables(m)[0]
    ax, c, sense = rec.get('axis', 0), rec.get('c', 0), rec.get('sense', 1)

    def test(x):
        return sense * (x[ax] - (c + 0.25)) <= 0

    def call():
        q = rec['q']
        if q == 'nodes':
            return m.nodes_satisfying(test, boundaries_only=bool(rec.get('bonly'))), None, None
        if q == 'facets':
            return m.facets_satisfying(test, boundaries_only=bool(rec.get('bonly'))), None, None
        if q == 'elements':
            return m.elements_satisfying(test), None, None
        if q == 'facets_normal':
            ob = m.facets_satisfying(test, boundaries_only=bool(rec.get('bonly')),
                                     normal=np.array(rec['normal'], dtype=np.float64))
            return np.asarray(ob), np.asarray(ob.ori), None
        if q == 'around':
            ob = m.facets_around(np.array(rec['elements'], dtype=np.int32), flip=bool(rec.get('flip')))
            return np.asarray(ob), np.asarray(ob.ori), None
        if q == 'trace':
            sel = (lambda x: test(x)) if not rec.get('bonly') else m.facets_satisfying(test, boundaries_only=True)
            tm, fac = m.trace(sel)
            return np.asarray(fac), None, tm
        raise ValueError(q)
    out, err = guarded(call, 30)
    if err:
        base['err'] = err
        return [base]
    res, ori, tm = out
    base['res'] = [int(v) + 1 for v in np.asarray(res).ravel()]
    if ori is not None:
        base['ori'] = [int(v) for v in np.asarray(ori).ravel()]
    if tm is not None:
        base['tp'] = [[int(round(v)) for v in col] for col in tm.p.T]
        base['tt'] = ids(tm.t)
    return [base]


def generate(tier, seed):
    rng = np.random.default_rng(300 + seed)
    recs = []
    rounds = 1 if tier == 'quick' else 4
    for _ in range(rounds):
        for kind, p, t in base_meshes(rng, tier):
            if t.shape[1] == 0:
                continue
            p, t = scramble(kind, p, t, rng)
            dim = p.shape[0]
            lo, hi = p.min(axis=1), p.max(axis=1)
            common = {'driver': 'select', 'kind': kind, 'p': p.astype(int).tolist(),
                      't': t.astype(int).tolist()}
            for ax in range(dim):
                for c in sorted({int(lo[ax]) - 1, int(lo[ax]), int((lo[ax] + hi[ax]) // 2), int(hi[ax]) - 1, int(hi[ax])}):
                    for sense in (1, -1):
                        for q in ('nodes', 'facets', 'elements', 'trace'):
                            for bonly in ((0, 1) if q in ('nodes', 'facets', 'trace') else (0,)):
                                recs.append(dict(common, q=q, axis=ax, c=c, sense=sense, bonly=bonly))
                        for bonly in (0, 1):
                            nrm = [int(x) for x in rng.integers(-2, 3, dim)]
                            if not any(nrm):
                                nrm[ax] = 1
                            recs.append(dict(common, q='facets_normal', axis=ax, c=c, sense=sense, bonly=bonly, normal=nrm))
            nt = t.shape[1]
            for _k in range(6 if tier == 'quick' else 12):
                size = int(rng.integers(1, nt + 1))
                el = sorted(int(x) for x in rng.choice(nt, size=size, replace=False))
                if rng.random() < 0.3:
                    el = [int(x) for x in rng.permutation(el)]
                for flip in (0, 1):
                    recs.append(dict(common, q='around', elements=el, flip=flip))
    return recs


def run(ctx):
    recs = generate(ctx.tier, ctx.seed)
    scs = [{'id': f'X03-{k}', 'recipe': r, 'tags': {'kind': r['kind'], 'q': r['q']}, 'events': execute(r)}
           for k, r in enumerate(recs)]
    ctx.validate('TraceX03', scs)
    ctx.notes['distinct_nontrivial'] = len({json.dumps(r, sort_keys=True) for r in recs})
    return ctx.finish(rule=RULE, assumptions=['extended coverage: not one of the listed properties',
                                              'convex straight cells with integer vertices; half spaces a quarter off the lattice'],
                      exhaustive=False)


def replay(ctx, doc):
    sc = doc['scenario']
    ctx.validate('TraceX03', [{'id': sc['id'], 'recipe': sc['recipe'], 'tags': sc.get('tags', {}), 'events': execute(sc['recipe'])}])
    return ctx.finish(rule=RULE)
