"""./check <ID> --tier quick|thorough [--replay path] ; ./check --setup"""
import argparse
import importlib
import json
import os
import sys
import traceback

from .core import Ctx, MachineryError, SPEC, sany_check


def setup():
    mods = sorted(f for f in os.listdir(SPEC) if f.endswith('.tla'))
    bad = sany_check(mods)
    for m, out in bad:
        print(f'SANY failed for {m}:\n{out}')
    print(f'setup: parsed {len(mods)} modules, {len(bad)} failed')
    return 2 if bad else 0


def main(argv=None):
    ap = argparse.ArgumentParser()
    ap.add_argument('pid', nargs='?')
    ap.add_argument('--tier', default=os.environ.get('VERIF_TIER', 'quick'), choices=['quick', 'thorough'])
    ap.add_argument('--replay')
    ap.add_argument('--setup', action='store_true')
    ap.add_argument('--selftest', action='store_true')
    a = ap.parse_args(argv)
    if a.setup:
        return setup()
    if not a.pid:
        ap.error('property id required')
    pid = a.pid.upper()
    try:
        mod = importlib.import_module(f'harness.props.{pid.lower()}')
    except ModuleNotFoundError as exc:
        print(f'no check for {pid}: {exc}')
        return 2
    ctx = Ctx(pid, a.tier)
    try:
        if a.replay:
            ctx.replay_mode = True
            ctx.replay_path = a.replay
            doc = json.load(open(a.replay))
            return mod.replay(ctx, doc)
        if a.selftest:
            return mod.selftest(ctx)
        return mod.run(ctx)
    except MachineryError as exc:
        print(f'MACHINERY-FAILURE property={pid}: {exc}')
        return 2
    except Exception:
        traceback.print_exc()
        print(f'MACHINERY-FAILURE property={pid}: unexpected exception in the harness')
        return 2


if __name__ == '__main__':
    sys.exit(main())
