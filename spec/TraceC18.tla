------------------------------ MODULE TraceC18 ------------------------------
(* code -> spec: validates mesh-surgery operations recorded from the real code *)
(* (harness/props/c18.py) against the C18 clauses of Surgery.tla.  A scenario  *)
(* is a composition of operations; every event logs the operand(s) before the  *)
(* call and the result(s); the result of an event is bound to the variable cur *)
(* and must be the operand of the next one (PreStateMatches).                  *)
EXTENDS Surgery

Batch  == JsonDeserialize(IOEnv.TRACE_FILE)
Events == Batch.events
N      == Len(Events)

VARIABLES i, cur, bad, cnt
vars == <<i, cur, bad, cnt>>

Clauses(e, prev) ==
  LET base == SurgeryClauses(e) IN
  IF e.err = "" /\ e.pos > 1 /\ prev # <<>> THEN base @@ [PreStateMatches |-> e.self \in DOMAIN e.pre /\ e.pre[e.self] = prev] ELSE base

Bump(c, r) == [k \in DOMAIN c \cup DOMAIN r |->
                 (IF k \in DOMAIN c THEN c[k] ELSE 0) + (IF k \in DOMAIN r THEN 1 ELSE 0)]
\* per operation: how often it was judged (evidence)
OpCount(e) == IF e.err = "" THEN [x \in {"op_" \o e.op} |-> TRUE] ELSE <<>>

Init == i = 1 /\ cur = <<>> /\ bad = <<>> /\ cnt = <<>>

Step == /\ i <= N
        /\ LET e == Events[i]
               r == Clauses(e, IF e.pos = 1 THEN <<>> ELSE cur)
           IN /\ bad' = bad \o [k \in 1..Cardinality(Failed(r)) |->
                                  [sid |-> e.sid, pos |-> e.pos, clause |-> SetToSeq(Failed(r))[k]]]
              /\ cnt' = Bump(Bump(cnt, r), OpCount(e))
              /\ cur' = IF e.err # "" \/ Len(e.post) = 0 \/ Len(e.pre) = 0 THEN <<>>
                        ELSE IF e.op = "trace" THEN e.pre[1]      \* the chain goes on with the traced mesh itself
                        ELSE e.post[1]
        /\ i' = i + 1

Finish == /\ i = N + 1
          /\ JsonSerialize(IOEnv.OUT_FILE, [consumed |-> N, bad |-> bad, cnt |-> cnt])
          /\ i' = N + 2
          /\ UNCHANGED <<cur, bad, cnt>>

Next == Step \/ Finish
Spec == Init /\ [][Next]_vars
==============================================================================
