---------------------------- MODULE GeomLocate ----------------------------
(* Exact integer geometry for point location (property C14).                  *)
(* All coordinates are integers (the harness multiplies mesh and query        *)
(* coordinates by one common power of two S); every predicate is decided by   *)
(* signs of integer determinants, so there is no tolerance in here.           *)
(* Bounds (32 bit): |coordinate| <= 2^9 in 3-D, <= 2^14 in 2-D.               *)
EXTENDS MeshTopology

Orient1(a, b) == b[1] - a[1]
Orient2(a, b, c) == (b[1] - a[1]) * (c[2] - a[2]) - (b[2] - a[2]) * (c[1] - a[1])
Orient3(a, b, c, d) ==
  LET u1 == b[1] - a[1]  u2 == b[2] - a[2]  u3 == b[3] - a[3]
      v1 == c[1] - a[1]  v2 == c[2] - a[2]  v3 == c[3] - a[3]
      w1 == d[1] - a[1]  w2 == d[2] - a[2]  w3 == d[3] - a[3]
  IN u1 * (v2 * w3 - v3 * w2) - u2 * (v1 * w3 - v3 * w1) + u3 * (v1 * w2 - v2 * w1)

\* signed volume (times d!) of the simplex with vertex tuple V (Len(V) = dim + 1)
OrientV(V) == CASE Len(V) = 2 -> Orient1(V[1], V[2])
                [] Len(V) = 3 -> Orient2(V[1], V[2], V[3])
                [] Len(V) = 4 -> Orient3(V[1], V[2], V[3], V[4])

\* numerators of the barycentric coordinates of x w.r.t. V (denominator OrientV(V))
BaryNum(V, x) == [i \in DOMAIN V |-> OrientV([V EXCEPT ![i] = x])]

\* x lies in the CLOSED simplex V
InClosedSimplex(V, x) ==
  LET d0 == OrientV(V) IN
  /\ d0 # 0
  /\ \A i \in DOMAIN V : Sgn(d0) * OrientV([V EXCEPT ![i] = x]) >= 0

\* ceil(n / 2^10): the margin of the epsilon-slack guard, relative to the size n of the cell
MarginBits == 10
Margin(n) == (Abs(n) + (2 ^ MarginBits) - 1) \div (2 ^ MarginBits)
\* x lies in V enlarged by the relative margin 2^-10 (every barycentric coordinate >= -2^-10)
NearSimplex(V, x) ==
  LET d0 == OrientV(V) IN
  /\ d0 # 0
  /\ \A i \in DOMAIN V : Sgn(d0) * OrientV([V EXCEPT ![i] = x]) > -Margin(d0)

\* ---------------------------------------------------------------------------
\* cells of a mesh record m = [kind, p, t] (p: integer tuples, t: 1-based vertex ids)
CellPts(m, k) == [j \in DOMAIN m.t[k] |-> m.p[m.t[k][j]]]

\* the four triangles spanned by the vertices of a quadrilateral: their union is the convex hull
QuadTriples == << <<1, 2, 3>>, <<1, 2, 4>>, <<1, 3, 4>>, <<2, 3, 4>> >>
Sub(P, ix) == [j \in DOMAIN ix |-> P[ix[j]]]

\* faces of the polyhedral cells: <<a, b, c, o>> = three local vertices spanning the face plane and one
\* vertex off the face (convex cell with planar faces: all off-face vertices lie strictly on the inner side,
\* which PolyInScope checks from MeshTopology.RefFacets)
PolyFaces(kind) ==
  CASE kind = "hex"   -> << <<1, 2, 3, 8>>, <<1, 2, 4, 8>>, <<1, 3, 4, 8>>, <<2, 5, 8, 1>>, <<3, 5, 8, 1>>, <<4, 6, 8, 1>> >>
    [] kind = "wedge" -> << <<1, 2, 3, 4>>, <<4, 5, 6, 1>>, <<1, 2, 4, 3>>, <<2, 3, 5, 1>>, <<1, 3, 4, 2>> >>
FaceTriple(F) == LET s == SortedSeq(F) IN <<s[1], s[2], s[3]>>
\* signed height of x over face f, oriented so that the inside is positive; and the height of the off vertex
FaceHeightIn(P, f, x) ==
  LET o == Orient3(P[f[1]], P[f[2]], P[f[3]], P[f[4]]) IN
  [h |-> Sgn(o) * Orient3(P[f[1]], P[f[2]], P[f[3]], x), ref |-> Abs(o)]

PolyInScope(kind, P) ==
  \A F \in RefFacets(kind) :
    LET a == FaceTriple(F)
        h == [v \in DOMAIN P |-> Orient3(P[a[1]], P[a[2]], P[a[3]], P[v])]
    IN /\ \A v \in F : h[v] = 0                                         \* planar face
       /\ \/ \A v \in DOMAIN P \ F : h[v] > 0                            \* all other vertices strictly
          \/ \A v \in DOMAIN P \ F : h[v] < 0                            \* on one side

QuadInScope(P) ==                       \* strictly convex, vertices in cyclic order
  LET o == <<Orient2(P[1], P[2], P[3]), Orient2(P[2], P[3], P[4]),
             Orient2(P[3], P[4], P[1]), Orient2(P[4], P[1], P[2])>>
  IN (\A i \in 1..4 : o[i] > 0) \/ (\A i \in 1..4 : o[i] < 0)

CellInScope(kind, P) ==
  CASE kind \in {"line", "tri", "tet"} -> OrientV(P) # 0
    [] kind = "quad"                   -> QuadInScope(P)
    [] OTHER                           -> PolyInScope(kind, P)

InClosedCell(kind, P, x) ==
  CASE kind \in {"line", "tri", "tet"} -> InClosedSimplex(P, x)
    [] kind = "quad" -> \E i \in 1..4 : InClosedSimplex(Sub(P, QuadTriples[i]), x)
    [] OTHER -> LET fs == PolyFaces(kind) IN \A j \in DOMAIN fs : FaceHeightIn(P, fs[j], x).h >= 0

\* x lies in the cell enlarged by the relative margin 2^-10
NearCell(kind, P, x) ==
  CASE kind \in {"line", "tri", "tet"} -> NearSimplex(P, x)
    [] kind = "quad" -> \E i \in 1..4 : NearSimplex(Sub(P, QuadTriples[i]), x)
    [] OTHER -> LET fs == PolyFaces(kind) IN
                \A j \in DOMAIN fs : LET r == FaceHeightIn(P, fs[j], x) IN r.h > -Margin(r.ref)

MeshInScope(m) == \A k \in DOMAIN m.t : CellInScope(m.kind, CellPts(m, k))
Containing(m, x) == {k \in DOMAIN m.t : InClosedCell(m.kind, CellPts(m, k), x)}
NearCells(m, x)  == {k \in DOMAIN m.t : NearCell(m.kind, CellPts(m, k), x)}
==============================================================================
