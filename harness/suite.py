"""Runs the repository's own tests under the recording plugin and returns the recorded events."""
import glob
import json
import os
import subprocess
import sys

from .core import MachineryError

FILES = ['tests/test_mesh.py', 'tests/test_basis.py', 'tests/test_assembly.py', 'tests/test_dofs.py',
         'tests/test_utils.py', 'tests/test_mapping.py', 'tests/test_elements.py', 'tests/test_manufactured.py']


def record(ctx, files=FILES, max_cells=64, timeout=1500, plugins=()):
    """plugins: further pytest plugin modules (e.g. 'harness.suite_c07') that record their own event streams; each writes
    `<SUITE_OUT>.<stream>.<pid>.json` = {stream name: [events]} at session end (see harness/suite_plugin.py for the pattern:
    wrappers installed in pytest_configure, guarded by SKFEM_VERIF=1 and SUITE_OUT, recording must never disturb the test).
    Their events are returned under their stream names."""
    repo = os.environ.get('SKFEM_REPO', '/repo')
    out = os.path.join(ctx.scratch, 'suite')
    for f in glob.glob(out + '.*.json'):
        os.remove(f)
    env = dict(os.environ, SUITE_OUT=out, SUITE_MAX_CELLS=str(max_cells), SKFEM_VERIF='1')
    cmd = [sys.executable, '-m', 'pytest', '-q', '-p', 'no:cacheprovider', '-p', 'harness.suite_plugin']
    for pl in plugins:
        cmd += ['-p', pl]
    cmd += ['-n', '12', '--timeout=900', '-x', '-W', 'ignore'] + files
    p = subprocess.run(cmd, cwd=repo, env=env, capture_output=True, text=True, timeout=timeout)
    events = {'refine': [], 'conn': [], 'dofs': [], 'bc': []}
    seen = set()
    for f in sorted(glob.glob(out + '.*.json')):
        d = json.load(open(f))
        for k in d:
            events.setdefault(k, [])
            for ev in d.get(k, []):
                key = json.dumps(ev, sort_keys=True)
                if key not in seen:
                    seen.add(key)
                    events[k].append(ev)
    tail = (p.stdout + p.stderr)[-400:]
    ctx.notes['suite_run'] = {'files': files, 'pytest_tail': tail.strip().splitlines()[-1:] if tail.strip() else [],
                              'recorded_refine_events': len(events['refine']), 'recorded_conn_events': len(events['conn']),
                              'recorded_dofs_events': len(events['dofs']), 'recorded_bc_events': len(events['bc'])}
    return events
