-------------------------------- MODULE Cache --------------------------------
(* Memoisation automata of the stateful objects of scikit-fem (property C15).  *)
(* Every slot stores the IDENTITY of the argument values its content was        *)
(* computed from (`src`); the hit condition of each slot is transcribed from    *)
(* the code.  NoStale: whenever an operation reads a slot on a hit, src equals  *)
(* the identity of the current arguments.                                        *)
(*                                                                               *)
(* OLD selects the hit conditions before the repairs (fix: dae3ef1, b2edae9,    *)
(* 52881a1, 6f5ff63); TLC refutes NoStale for them with histories of length 2.   *)
(*                                                                               *)
(*  slot        code                                   hit condition (new | old) *)
(*  EG.V        element_global.py:19-28                filled and same mesh | filled *)
(*  PP.P        element_line_pp.py:56-61               same point values | same number of points *)
(*  QP._X       element_quadp.py:38-42                 same shape and values     *)
(*  ISO.cache   mapping_isoparametric.py:128-135 +     key = (i, j, X, tind) by shape+dtype+bytes | bytes only *)
(*              generic_utils.py:9-13                                             *)
(*  KRY.M       utils.py:149-166                       no state | preconditioner of the first matrix kept *)
(*  OPT         utils.py solver factories              no state | solve-time keywords persist *)
(*  MESH.lazy   mesh.py:97-134                         attribute present (objects are immutable: replace()) *)
EXTENDS Prelude

CONSTANT OLD

Meshes  == {"M1", "M2", "M3"}                  \* M1, M2: same class and cell count; M3: more cells
\* point sets: <<id, count>>.  PQ = the quadrature points a Basis evaluates at construction
Points  == {<<"P1", 1>>, <<"P2", 1>>, <<"P3", 3>>, <<"PQ", 4>>}
\* arrays handed to the mapping: <<id, byteclass>>; T32 ([1,0] int32) and T64 ([1] int64) have the same bytes,
\* X1 (2 x npts) and X1c (2 x 1 x npts, per-cell) have the same bytes as well
XArgs   == {<<"X1", "bx1">>, <<"X2", "bx2">>, <<"X1c", "bx1">>}
TArgs   == {<<"None", "none">>, <<"T32", "bt">>, <<"T64", "bt">>}
Mats    == {<<"A1", 9>>, <<"A2", 25>>, <<"A3", 9>>}       \* <<id, size>>
Opts    == {"none", "atol"}
NoPts   == <<"empty", 0>>

VARIABLES egV,        \* "empty" or the mesh id the Vandermonde matrices were computed from
          ppP,        \* "empty" or the point set <<id, count>> of the Legendre tables
          qpX,        \* likewise for ElementQuadP
          iso,        \* set of <<key, src>> pairs of the Jacobian cache
          kryM,       \* "empty" or the matrix id whose preconditioner is stored
          opt,        \* option persisted in the solver factory
          lazy,       \* set of mesh ids whose facets table has been built
          stale       \* set of descriptions of stale reads so far (history variable)
vars == <<egV, ppP, qpX, iso, kryM, opt, lazy, stale>>

Init == /\ egV = "empty" /\ ppP = NoPts /\ qpX = NoPts /\ iso = {} /\ kryM = "empty" /\ opt = "none"
        /\ lazy = {} /\ stale = {}

\* ---- ElementGlobal: Basis(m, e) / assembly evaluates gbasis(mapping of m)
GlobalBasis(m) ==
  LET hit == IF OLD THEN egV # "empty" ELSE egV = m IN
  /\ egV'   = IF hit THEN egV ELSE m
  /\ stale' = IF hit /\ egV # m THEN stale \cup {<<"EG.V", egV, m>>} ELSE stale
  /\ UNCHANGED <<ppP, qpX, iso, kryM, opt, lazy>>

\* ---- ElementLinePp.lbasis(X)
EvalPp(pt) ==
  LET hit == ppP # NoPts /\ (IF OLD THEN ppP[2] = pt[2] ELSE ppP = pt) IN
  /\ ppP'   = IF hit THEN ppP ELSE pt
  /\ stale' = IF hit /\ ppP # pt THEN stale \cup {<<"PP.P", ppP[1], pt[1]>>} ELSE stale
  /\ UNCHANGED <<egV, qpX, iso, kryM, opt, lazy>>

\* ---- ElementQuadP.lbasis(X): shape and values compared (correct in both versions)
EvalQp(pt) ==
  LET hit == qpX = pt IN
  /\ qpX'   = pt
  /\ stale' = IF hit /\ qpX # pt THEN stale \cup {<<"QP._X", qpX[1], pt[1]>>} ELSE stale
  /\ UNCHANGED <<egV, ppP, iso, kryM, opt, lazy>>

\* ---- MappingIsoparametric.J(i, j, X, tind) through hash_args
Key(x, t) == IF OLD THEN <<x[2], t[2]>> ELSE <<x[1], t[1]>>
MapJ(x, t) ==
  LET k   == Key(x, t)
      hit == \E e \in iso : e[1] = k
      src == IF hit THEN (CHOOSE e \in iso : e[1] = k)[2] ELSE <<x[1], t[1]>>
  IN /\ iso'   = IF hit THEN iso ELSE iso \cup {<<k, <<x[1], t[1]>>>>}
     /\ stale' = IF hit /\ src # <<x[1], t[1]>> THEN stale \cup {<<"ISO.cache", src, <<x[1], t[1]>>>>} ELSE stale
     /\ UNCHANGED <<egV, ppP, qpX, kryM, opt, lazy>>

\* ---- solver_iter_krylov()(A, b, **solve_time_kwargs)
Solve(a, o) ==
  LET usesM   == IF OLD /\ kryM # "empty" THEN kryM ELSE a[1]          \* preconditioner actually used
      usesOpt == IF OLD /\ o = "none" THEN opt ELSE o                  \* options actually used
  IN /\ kryM' = IF OLD /\ kryM = "empty" THEN a[1] ELSE kryM
     /\ opt'  = IF OLD /\ o # "none" THEN o ELSE opt
     /\ stale' = stale \cup (IF usesM # a[1] THEN {<<"KRY.M", usesM, a[1]>>} ELSE {})
                       \cup (IF usesOpt # o THEN {<<"OPT", usesOpt, o>>} ELSE {})
     /\ UNCHANGED <<egV, ppP, qpX, iso, lazy>>

\* ---- mesh lazy tables: m.facets fills; replace()-style operations return NEW objects without slots
Facets(m)  == /\ lazy' = lazy \cup {m} /\ UNCHANGED <<egV, ppP, qpX, iso, kryM, opt, stale>>
Derive(m)  == UNCHANGED vars                                             \* refined/restrict/...: operand untouched

Next == \/ \E m \in Meshes : GlobalBasis(m) \/ Facets(m)
        \/ \E pt \in Points : EvalPp(pt) \/ EvalQp(pt)
        \/ \E x \in XArgs, t \in TArgs : MapJ(x, t)
        \/ \E a \in Mats, o \in Opts : Solve(a, o)
Spec == Init /\ [][Next]_vars

NoStale == stale = {}
Depth   == TLCGet("level") <= 5
==============================================================================
