SPECIFICATION Spec
CONSTANT OLD = FALSE
INVARIANT NoStale
CONSTRAINT Depth
CHECK_DEADLOCK FALSE
