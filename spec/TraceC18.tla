------------------------------ MODULE TraceC18 ------------------------------
(* code -> spec: validates mesh-surgery operations recorded from the real code *)
(* (harness/props/c18.py) against the C18 clauses of Surgery.tla.  A scenario  *)
(* is a composition of operations; every event logs the operand(s) before the  *)
(* call and the result(s); the result of an event is bound to the variable cur *)
(* and must be the operand of the next one (PreStateMatches).                  *)
(*                                                                             *)
(* Mode L for reflections through planes that are not axis-parallel: the code  *)
(* normalises the normal (a square root), so the coordinates it returns are    *)
(* not exact.  Such scenarios (e.lat > 0) log every coordinate as an Fx number *)
(* (m.pfx); the exact images lie on the lattice Z / e.lat (e.lat = scale * the *)
(* product of the |normal|^2).  CoordsOnLattice demands that every logged      *)
(* coordinate is within LatTol of a lattice point; the lattice point is then   *)
(* THE coordinate (integers at scale e.lat) and every clause of Surgery.tla is  *)
(* evaluated exactly on it, with the rational reflection as oracle.            *)
(*                                                                             *)
(* The result seen THROUGH THE LIBRARY (e.lib, mode L): besides its raw arrays *)
(* the first result of an operation is asked for the images of the reference   *)
(* centroid under its mapping() (cent), detDF there (det), Functional(1) and    *)
(* Functional(x_i) per cell on a Basis over it (w, wx), its element_finder() at *)
(* those centroids (find) and its facets table.  The Lib* clauses compare them  *)
(* with the exact values computed from the raw arrays: anything an operation    *)
(* carries over from its operand that belongs to the operand's geometry (a      *)
(* cached mapping, search tree, facet table) shows as a disagreement.          *)
EXTENDS Surgery
F == INSTANCE Fx
LatTol == F!FxTol(30)            \* 2^-30 lattice units; float round-off is < 2^-40 of them, a wrong plane is >= 1

Batch  == JsonDeserialize(IOEnv.TRACE_FILE)
Events == Batch.events
N      == Len(Events)

VARIABLES i, cur, bad, cnt, taint
vars == <<i, cur, bad, cnt, taint>>

Scaled(a, S)    == F!FxMulSmall(a, S)
Snap(a, S)      == LET m == Scaled(a, S) IN m[1] + (IF m[2] >= 8192 THEN 1 ELSE 0)        \* nearest lattice point
OnLattice(a, S) == F!FxWF(a) /\ a[1] \in -30000..30000 /\ F!FxNear(Scaled(a, S), F!FxInt(Snap(a, S)), LatTol)
MeshOnLattice(m, S) == \A v \in DOMAIN m.pfx : \A j \in DOMAIN m.pfx[v] : OnLattice(m.pfx[v][j], S)
SnapMesh(m, S)  == [m EXCEPT !.p = [v \in DOMAIN m.pfx |-> [j \in DOMAIN m.pfx[v] |-> Snap(m.pfx[v][j], S)]]]
IsLat(e)        == e.err = "" /\ e.lat > 0
CoordsOnLattice(e) == /\ e.lat \in 1..32767
                      /\ \A j \in DOMAIN e.pre : MeshOnLattice(e.pre[j], e.lat)
                      /\ \A j \in DOMAIN e.post : MeshOnLattice(e.post[j], e.lat)
Exact(e) == [e EXCEPT !.pre = [j \in DOMAIN e.pre |-> SnapMesh(e.pre[j], e.lat)],
                      !.post = [j \in DOMAIN e.post |-> SnapMesh(e.post[j], e.lat)]]

\* ---- the result seen through the library
LibTol == F!FxTol(20)
RECURSIVE IPow(_, _)
IPow(x, n) == IF n = 0 THEN 1 ELSE x * IPow(x, n - 1)
FxOK(a) == F!FxWF(a) /\ a[1] \in -30000..30000
LNear(a, k, target) == FxOK(a) /\ k \in 1..32767 /\ F!FxNear(F!FxMulSmall(a, k), F!FxInt(target), LibTol)
LibJudged(e) == e.err = "" /\ e.lib.ok \in {1, 2} /\ Len(e.post) >= 1
CoordSum(m, k, j) == SumSeq([v \in DOMAIN m.t[k] |-> m.p[m.t[k][v]][j]])
PostDim(e) == IF Len(Post(e).p) = 0 THEN 0 ELSE Len(Post(e).p[1])
LibShape(e) == LET m == Post(e) L == e.lib IN
  /\ Len(L.cent) = Len(m.t) /\ \A k \in DOMAIN L.cent : Len(L.cent[k]) = PostDim(e)
  /\ L.det = <<>> \/ Len(L.det) = Len(m.t)
  /\ L.w = <<>> \/ Len(L.w) = Len(m.t)
  /\ L.wx = <<>> \/ (Len(L.wx) = Len(m.t) /\ \A k \in DOMAIN L.wx : Len(L.wx[k]) = PostDim(e))
  /\ L.find = <<>> \/ Len(L.find) = Len(m.t)
  /\ \A f \in DOMAIN L.facets : \A q \in DOMAIN L.facets[f] : L.facets[f][q] \in DOMAIN m.p
\* mapping().F at the reference centroid = the mean of the cell's vertices (all first-order cells)
LibCentroids(e) == LET m == Post(e) n == NNodes(m.kind) IN
  \A k \in DOMAIN m.t : \A j \in 1..PostDim(e) : LNear(e.lib.cent[k][j], n * e.scale, CoordSum(m, k, j))
\* mapping().detDF there = the signed measure * d! of a simplex, the signed area of a quadrilateral
LibDetDF(e) == LET m == Post(e) d == Dim(m.kind) IN
  e.lib.det = <<>> \/ \A k \in DOMAIN m.t :
     IF m.kind = "quad" THEN LNear(e.lib.det[k], 2 * IPow(e.scale, d), QuadVol(GeoCellSeq(m, k)))
     ELSE LNear(e.lib.det[k], IPow(e.scale, d), SimplexVol(GeoCellSeq(m, k)))
\* Functional(1) per cell on a Basis over the result = the measure of the cell
DFact(d) == CASE d = 1 -> 1 [] d = 2 -> 2 [] d = 3 -> 6
LibMeasure(e) == LET m == Post(e) d == Dim(m.kind) IN
  e.lib.w = <<>> \/ \A k \in DOMAIN m.t :
     LNear(e.lib.w[k], DFact(d) * IPow(e.scale, d), CellVolAbs(m.kind, GeoCellSeq(m, k)))
\* Functional(x_j) per cell = measure * centroid_j (simplices)
LibFirstMoment(e) == LET m == Post(e) d == Dim(m.kind) IN
  e.lib.wx = <<>> \/ \A k \in DOMAIN m.t : \A j \in 1..PostDim(e) :
     LNear(e.lib.wx[k][j], DFact(d) * (d + 1) * IPow(e.scale, d + 1),
           CellVolAbs(m.kind, GeoCellSeq(m, k)) * CoordSum(m, k, j))
\* element_finder() at the centroid of a cell finds that cell
LibFinder(e) == LET m == Post(e) IN
  e.lib.find = <<>> \/ \A k \in DOMAIN m.t : e.lib.find[k] \in DOMAIN m.t /\ GeoCell(m, e.lib.find[k]) = GeoCell(m, k)
\* the facets table of the result holds the facets of its cells
LibFacets(e) == LET m == Post(e) IN
  e.lib.facets = <<>> \/ {PtsOf(m, e.lib.facets[f]) : f \in DOMAIN e.lib.facets} = GeoFacets(m)
LibClauses(e) ==
  IF e.lib.ok = 2 THEN [LibAnswers |-> FALSE]            \* the library raised when asked about its own (well-formed) result
  ELSE IF ~LibShape(e) THEN [LibAnswers |-> TRUE, LibWellFormed |-> FALSE]
  ELSE [ LibAnswers |-> TRUE, LibWellFormed |-> TRUE, LibCentroids |-> LibCentroids(e), LibDetDF |-> LibDetDF(e),
         LibMeasure |-> LibMeasure(e), LibFirstMoment |-> LibFirstMoment(e), LibFinder |-> LibFinder(e),
         LibFacets |-> LibFacets(e) ]
\* after a named deviation the chain goes on with a mesh that is not what the operation should have produced (cells
\* may overlap): the later events of the scenario are still judged relative to their operands, but not through the library
DevNames == {"Deviation_ExtrusionIgnoresLineCells"}

\* the document the harness wrote has the shape this specification reads (evaluated first: a malformed event is a
\* failure of the machinery, reported by name instead of a TLC evaluation error)
EventFields == {"a", "op", "err", "pre", "post", "par", "ck_pre", "ck_post", "self", "lat", "scale", "lib", "sid", "pos"}
LibFields   == {"ok", "cent", "det", "w", "wx", "find", "facets"}
ParFields   == {"elements", "ix", "skips", "skipb", "fnum", "fden", "d", "nrm", "p0", "nn", "A", "b", "facets", "fv",
                "ret", "proj", "sign", "xmap"}
MeshFields  == {"kind", "cls", "p", "t", "nf", "hass", "hasb", "sub", "bnd"}
HarnessInputWellFormed(e) ==
  /\ EventFields \subseteq DOMAIN e
  /\ ParFields \subseteq DOMAIN e.par
  /\ LibFields \subseteq DOMAIN e.lib
  /\ \A j \in DOMAIN e.pre  : MeshFields \subseteq DOMAIN e.pre[j]  /\ (e.lat > 0 => "pfx" \in DOMAIN e.pre[j])
  /\ \A j \in DOMAIN e.post : MeshFields \subseteq DOMAIN e.post[j] /\ (e.lat > 0 => "pfx" \in DOMAIN e.post[j])
  /\ e.err = "" => (e.op \in {"refine", "setup"} \/ (Len(e.pre) >= 1 /\ Len(e.post) >= 1))

Clauses(e0, prev, tainted) ==
  IF ~HarnessInputWellFormed(e0) THEN [HarnessInputWellFormed |-> FALSE]
  ELSE IF IsLat(e0) /\ ~CoordsOnLattice(e0) THEN [NoUnexpectedError |-> TRUE, CoordsOnLattice |-> FALSE]
  ELSE LET e    == IF IsLat(e0) THEN Exact(e0) ELSE e0
           surg == SurgeryClauses(e)
           \* judged through the library only when the raw arrays are well formed and not a named deviation
           lib  == IF ~tainted /\ LibJudged(e) /\ "Valid" \in DOMAIN surg /\ e.op # "trace" THEN LibClauses(e) ELSE <<>>
           base == surg @@ lib @@ (IF IsLat(e0) THEN [CoordsOnLattice |-> TRUE] ELSE <<>>)
       IN IF e.err = "" /\ e.pos > 1 /\ prev # <<>>
          THEN base @@ [PreStateMatches |-> e.self \in DOMAIN e.pre /\ e.pre[e.self] = prev] ELSE base
Result(e0) == IF ~HarnessInputWellFormed(e0) THEN <<>> ELSE
              LET e == IF IsLat(e0) /\ CoordsOnLattice(e0) THEN Exact(e0) ELSE e0 IN
              IF e.err # "" \/ Len(e.post) = 0 \/ Len(e.pre) = 0 \/ (IsLat(e0) /\ ~CoordsOnLattice(e0)) THEN <<>>
              ELSE IF e.op = "trace" THEN e.pre[1]      \* the chain goes on with the traced mesh itself
              ELSE e.post[1]

Bump(c, r) == [k \in DOMAIN c \cup DOMAIN r |->
                 (IF k \in DOMAIN c THEN c[k] ELSE 0) + (IF k \in DOMAIN r THEN 1 ELSE 0)]
\* per operation: how often it was judged (evidence)
OpCount(e) == IF HarnessInputWellFormed(e) /\ e.err = "" THEN [x \in {"op_" \o e.op} |-> TRUE] ELSE <<>>

Init == i = 1 /\ cur = <<>> /\ bad = <<>> /\ cnt = <<>> /\ taint = FALSE

Step == /\ i <= N
        /\ LET e == Events[i]
               tn == IF e.pos = 1 THEN FALSE ELSE taint
               r == Clauses(e, IF e.pos = 1 THEN <<>> ELSE cur, tn)
           IN /\ bad' = bad \o [k \in 1..Cardinality(Failed(r)) |->
                                  [sid |-> e.sid, pos |-> e.pos, clause |-> SetToSeq(Failed(r))[k]]]
              /\ cnt' = Bump(Bump(cnt, r), OpCount(e))
              /\ cur' = Result(e)
              /\ taint' = (tn \/ Failed(r) \cap DevNames # {})
        /\ i' = i + 1

Finish == /\ i = N + 1
          /\ JsonSerialize(IOEnv.OUT_FILE, [consumed |-> N, bad |-> bad, cnt |-> cnt])
          /\ i' = N + 2
          /\ UNCHANGED <<cur, bad, cnt, taint>>

Next == Step \/ Finish
Spec == Init /\ [][Next]_vars
==============================================================================
