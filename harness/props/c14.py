"""C14 - point location and point evaluation of discrete functions are exact.

M : spec/MC_C14.tla - TLC runs the transcription FindImpl of the element finders (k nearest centroids, inside
    test, fallback to all cells, raise; simplex split + modulo; 1-D digitize) on every lattice / half-lattice
    point of the universe meshes (graded ones exercise the fallback) and checks FindOK / RaisesOutside /
    PointsOfTheDomainAreFound.
    MC_C14_line_prerepair.cfg is the regression model of the 1-D finder before fix 6d9cf06 (must be refuted).
R : the (mesh, batch of points) pairs enumerated by TLC are executed on the real `mesh.element_finder()`.
V : finder results on generated meshes of all first-order classes (graded, anisotropic, sheared, non-convex
    domains, random integer Delaunay, several 1-D components) at vertices, facet points, interior points,
    lattice points around the mesh: exact clauses FoundCellContainsPoint / PointsOfTheDomainAreFound /
    BoundaryPointsAreFound / RaisesOutside in TraceC14.
L : probes / interpolator / point_source for scalar, vector and tensor valued elements: ProbeRows (exact),
    P1Exact (rational oracle), LocalExpansion, AgreesWithInterpolate, SamePointSameValue, PointSourceOK (Fx).
    Strongly graded meshes with several hundred cells (one block next to 40-150 thin layers; tet / hex / prism /
    tri / quad): points of the big cells with >= 100 closer centroids; witness-based clauses (the generator
    supplies a containing cell per point, TLC verifies it exactly), so the TLC cost does not grow with the mesh.
    Call histories with IN-PLACE modified arguments: the same point array object handed again to the same
    interpolator handle / probes / point_source after its contents were overwritten, permuted or incremented.
    Points exactly on the domain boundary (all boundary facets / edges / vertices) of affine images of lattice meshes
    under an integer matrix with odd determinant (no cell determinant is a power of two), every local vertex order.
    Non-affine quadrilaterals / hexahedra (planar faces) and simplices at physical scales 2^g (g = -34 .. 12): the
    quadrature points are images of known dyadic reference points, queried in one batch and ONE AT A TIME
    (probes / interpolator / point_source); the reference expansion does not involve the inverse map.
    COMPLEX and integer coefficient vectors: real and imaginary parts are validated as separate events.
Python only drives the library and changes representation; every verdict is a clause name reported by TLC.
"""
import json
import os
from concurrent.futures import ThreadPoolExecutor
from fractions import Fraction

import numpy as np

from .. import universe as U
from .. import meshgen as G
from .. import elements as EL
from .. import meshops as MO
from ..par import Pool
from ..core import guarded, MachineryError
from ..project import fx, ids

# per-call alarm of the library calls: generous (normal calls take < 10 s) - a slow or loaded machine must never
# turn into a verdict; a genuine hang is still reported (as the event's err) after this time
CALL_TIMEOUT = 900

RULE = ('scenario = one integer-coordinate mesh (+ one basis and integer coefficient vector) with a sequence of '
        'finder / probes / interpolator / point_source calls; distinct = distinct (kind, p, t, element); '
        'non-trivial = mesh has >= 2 cells and the scenario contains points on shared facets or outside the mesh')

FACE_W = {2: [(2, 2), (3, 1)], 3: [(2, 1, 1), (1, 1, 2)], 4: [(1, 1, 1, 1), (2, 2, 0, 0), (0, 1, 2, 1)]}
CELL_W = {'line': [(2, 2), (1, 3)], 'tri': [(2, 1, 1), (1, 1, 2)], 'quad': [(1, 1, 1, 1), (2, 1, 0, 1)],
          'tet': [(1, 1, 1, 1), (2, 1, 0, 1)], 'hex': [(2, 0, 0, 0, 0, 0, 0, 2), (0, 1, 0, 0, 0, 0, 2, 1)],
          'wedge': [(1, 1, 0, 0, 0, 2), (0, 1, 1, 2, 0, 0)]}
SCALE = 4


# ------------------------------------------------------------------------------------------ input generation

def query_points(kind, p, t, rng, nmax=60):
    """Integer query points at scale SCALE.  Returns (inside, other): `inside` are vertices and dyadic convex
    combinations of the vertices of facets and cells (in the closed mesh by construction), `other` are lattice
    points of the bounding box +- 1 (inside or outside) and far outside points.  Pure input selection."""
    S = SCALE
    P = np.rint(np.asarray(p) * S).astype(int)                      # dim x nv
    dim = P.shape[0]
    m = U.make(kind, p, t)
    ins, oth = [], []
    vs = rng.permutation(P.shape[1])[:10]
    ins += [tuple(int(x) for x in P[:, v]) for v in vs]
    if dim > 1:
        F = np.asarray(m.facets)
        for f in rng.permutation(F.shape[1])[:12]:
            for w in FACE_W[F.shape[0]]:
                ins.append(tuple(int(x) for x in (P[:, F[:, f]] @ np.array(w)) // 4))
    for c in rng.permutation(t.shape[1])[:12]:
        for w in CELL_W[kind]:
            ins.append(tuple(int(x) for x in (P[:, t[:, c]] @ np.array(w)) // 4))
    lo, hi = P.min(axis=1) - S, P.max(axis=1) + S
    for _ in range(20):
        step = S // 2
        oth.append(tuple(int(rng.integers(lo[a] // step, hi[a] // step + 1)) * step for a in range(dim)))
    oth.append(tuple(int(x) for x in hi + 3 * S))
    oth.append(tuple(int(x) for x in lo - 2 * S))

    def uniq(xs, n):
        seen, u = set(), []
        for q in xs:
            if q not in seen:
                seen.add(q)
                u.append(list(q))
        rng.shuffle(u)
        return u[:n]
    return uniq(ins, nmax), uniq(oth, nmax // 2)


# inputs on which the finder raised for a point ON the domain boundary before fix 950586a (inside test with a slack
# of one machine eps): (kind, p, t, points at scale SCALE)
ROUNDOFF_REGRESSIONS = [
    ('tri', [[3, 7, 8, 9, 10, 12], [0, 5, 8, 8, 3, 3]], [[1, 1, 5, 4, 3, 1], [2, 3, 4, 1, 4, 4], [0, 2, 0, 0, 5, 3]],
     [[22, 16]]),
    ('tet', [[1, 2, 3, 4, 4, 5], [2, 2, 3, 1, 3, 4], [1, 3, 3, 5, 2, 4]],
     [[4, 2, 2, 2, 2, 2], [1, 1, 4, 4, 4, 4], [3, 3, 3, 1, 5, 1], [0, 5, 5, 3, 0, 0]], [[10, 6, 12]]),
]


def find_recipe(kind, p, t, rng, fam, nsingle=30, nbatch=6, extra=()):
    ins, oth = query_points(kind, p, t, rng)
    if kind == 'line':
        # left / right ends of every component and of every cell, and the midpoints between consecutive vertices
        # (inside a cell, or in a GAP between two components, where the call must raise)
        xs = sorted(int(round(v * SCALE)) for v in np.asarray(p)[0])
        extra = [list(q) for q in extra] + [[x] for x in xs]
        mids = [[(a + b) // 2] for a, b in zip(xs[:-1], xs[1:])]
        oth = mids + [q for q in oth if q not in mids]
    pts = ins + oth
    order = rng.permutation(len(pts))
    calls = [[list(q)] for q in extra] + [[q] for q in (oth[:12] if kind == 'line' else [])] \
        + [[pts[j]] for j in order[:nsingle]]
    for _ in range(nbatch):
        n = int(rng.integers(2, 12))
        calls.append([ins[j] for j in rng.integers(0, len(ins), n)])          # with repetition, any order
    calls.append([pts[j] for j in rng.integers(0, len(pts), 5)])               # mixed: may contain outside points
    calls.append(ins)                                                          # all inside points at once
    return {'driver': 'find', 'kind': kind, 'family': fam, 'S': SCALE,
            'p': np.asarray(p).astype(int).tolist(), 't': np.asarray(t).astype(int).tolist(), 'calls': calls, 'model': 0}


def find_meshes(tier, seed):
    rng = np.random.default_rng(seed + 14)
    th = tier == 'thorough'
    out = []

    def add(kind, p, t, fam, shuffled=True):
        out.append((kind, p, t, fam))
        if shuffled:
            p2, t2 = G.shuffle(kind, p, t, rng)
            out.append((kind, p2, t2, fam + '-shuffled'))

    # ---- 1-D
    add('line', *U.line_points([0, 1, 2, 3, 4]), 'line-uniform')
    add('line', *U.line_points([0, 1, 3, 7, 15, 16]), 'line-graded')
    p, t = U.line_points([0, 1, 2, 4, 5, 7])
    add('line', *U.submesh(p, t, [0, 1, 3]), 'line-components')
    p, t = U.line_points([3, 4, 6, 9, 10, 12, 13])
    add('line', *U.submesh(p, t, [0, 2, 3, 5]), 'line-components')
    # ---- triangles
    add('tri', *G.tensor_tri([0, 3], [0, 2]), 'tri-tiny')                  # fewer cells than the 5 candidates
    add('tri', *G.tensor_tri([0, 1, 2, 3], [0, 1, 2, 3]), 'tri-lattice')
    add('tri', *G.tensor_tri([0, 16, 17, 18, 19, 20], [0, 16], (0, 1, 0, 1, 0)), 'tri-graded')
    add('tri', *G.tensor_tri([0, 1, 2, 4, 8, 16, 32], [0, 1, 2]), 'tri-graded')
    add('tri', *G.tensor_tri([0, 32, 64], [0, 1, 2, 3]), 'tri-anisotropic')
    p, t = G.tensor_tri([0, 1, 2, 3], [0, 2, 3, 5])
    add('tri', *G.drop_cells(p, t, [8, 9]), 'tri-nonconvex')             # hole in the middle
    add('tri', *G.drop_cells(p, t, [4, 5, 10, 11, 16, 17]), 'tri-nonconvex')
    pq, tq = G.tensor_tri([0, 2, 4, 6], [0, 2, 4])
    add('tri', G.shear(pq, 3), tq, 'tri-sheared')
    for _ in range(16 if th else 3):
        add('tri', *U.delaunay_int(2, int(rng.integers(6, 16)), 12, rng), 'tri-delaunay')
        add('tri', *G.clustered_delaunay(2, rng, nbig=3, ncl=int(rng.integers(5, 9))), 'tri-delaunay-clustered')
    # ---- quadrilaterals
    add('quad', *G.tensor_quad([0, 2], [0, 3]), 'quad-tiny')
    add('quad', *G.tensor_quad([0, 1, 2, 3], [0, 1, 2]), 'quad-lattice')
    add('quad', *G.tensor_quad([0, 16, 17, 18, 19, 20, 21, 22], [0, 16]), 'quad-graded')
    add('quad', *G.tensor_quad([0, 1, 2, 4, 8, 16], [0, 1, 9]), 'quad-graded')
    p, t = G.tensor_quad([0, 4, 8, 12], [0, 4, 8, 12])
    pj = p.copy()
    pj[:, 5] += (1, -1)
    pj[:, 10] += (-1, 2)
    add('quad', pj, t, 'quad-jiggled')                                   # general convex cells
    add('quad', *G.drop_cells(p, t, [4]), 'quad-nonconvex')
    add('quad', G.shear(p, 1), t, 'quad-sheared')
    # ---- tetrahedra
    add('tet', *U.tet_cubes(1, 5), 'tet-tiny')                             # fewer cells than the 10 candidates
    add('tet', *U.tet_cubes(2, 6), 'tet-cubes')
    add('tet', *U.tet_cubes(2, 5), 'tet-cubes')
    add('tet', *G.tensor_tet([0, 16, 17, 18, 19, 20], [0, 16], [0, 16]), 'tet-graded')
    p, t = G.tensor_tet([0, 1, 2], [0, 2, 3], [0, 1, 4])
    add('tet', *G.drop_cells(p, t, range(6)), 'tet-nonconvex')
    add('tet', G.shear(p, 2), t, 'tet-sheared')
    for _ in range(10 if th else 2):
        add('tet', *U.delaunay_int(3, int(rng.integers(6, 11)), 6, rng), 'tet-delaunay')
        add('tet', *G.clustered_delaunay(3, rng, nbig=2, ncl=int(rng.integers(4, 7)), box=8), 'tet-delaunay-clustered')
    # ---- hexahedra (boxes and parallelepipeds: planar faces)
    add('hex', *G.tensor_hex([0, 2], [0, 1], [0, 3]), 'hex-tiny')
    add('hex', *G.tensor_hex([0, 1, 2], [0, 1, 2], [0, 1]), 'hex-lattice')
    add('hex', *G.tensor_hex([0, 16, 17, 18, 19, 20], [0, 16], [0, 16]), 'hex-graded')
    p, t = G.tensor_hex([0, 1, 3], [0, 2, 3], [0, 1, 2])
    add('hex', *G.drop_cells(p, t, [3]), 'hex-nonconvex')
    add('hex', G.shear(p, 1), t, 'hex-sheared')
    # ---- prisms
    add('wedge', *G.tensor_wedge([0, 1, 2], [0, 1], [0, 1, 2], (0, 1)), 'wedge-lattice')
    add('wedge', *G.tensor_wedge([0, 16, 17, 18, 19], [0, 16], [0, 16]), 'wedge-graded')
    p, t = G.tensor_wedge([0, 1, 3], [0, 2, 3], [0, 1, 2])
    add('wedge', G.shear(p, 1), t, 'wedge-sheared')
    return out, rng


# quadrature points used for AgreesWithInterpolate: dyadic, strictly interior to the reference cell
DYADIC_X = {            # numerators over 8
    'line': [[2, 4, 6]],
    'tri': [[2, 4, 2], [2, 2, 4]],
    'quad': [[4, 2, 6], [4, 2, 4]],
    'tet': [[2, 4, 1], [2, 2, 1], [2, 1, 4]],
    'hex': [[4, 2], [4, 4], [4, 6]],
    'wedge': [[2, 4, 2], [2, 2, 4], [4, 2, 6]],
}
PSCALE = 8              # coordinate scale of the probe scenarios


SLOW = {'ElementHexC1'}      # ElementGlobal evaluates (maxdeg/2+1)^3 monomials x 13 derivatives per basis function and call


def probe_recipe(kind, p, t, elem, rng, fam, tier='quick'):
    ins, oth = query_points(kind, p, t, rng, nmax=40)
    ins = [[2 * x for x in q] for q in ins]                          # SCALE 4 -> PSCALE 8
    oth = [[2 * x for x in q] for q in oth]
    n = len(ins)
    g = lambda j: ins[j % n]
    a, b, c = g(0), g(1), g(2)
    calls = [{'op': 'probes_qp', 'pts': [], 'slow': 1},
             {'op': 'probes', 'pts': [g(j) for j in range(10)]},
             {'op': 'interpolator', 'pts': [a], 'slow': 1},
             {'op': 'interpolator', 'pts': [b], 'slow': 1},          # equally many DIFFERENT points
             {'op': 'interpolator', 'pts': [a, b, a, c]},            # repetition
             {'op': 'interpolator', 'pts': [c, a, b]},               # permutation
             {'op': 'probes', 'pts': [b, a, c]},
             # ---- call histories with IN-PLACE modified arguments: the same array object ('buf') is handed to the
             # same handle again after its contents were overwritten / permuted / incremented / one entry changed
             {'op': 'interpolator', 'pts': [g(3), g(4), g(5)], 'buf': 'A', 'slow': 1},
             {'op': 'interpolator', 'pts': [g(4), g(5), g(3)], 'buf': 'A', 'how': 'assign'},       # column permutation
             {'op': 'interpolator', 'pts': [g(6), g(5), g(3)], 'buf': 'A', 'how': 'entry'},        # one entry overwritten
             {'op': 'interpolator', 'pts': [g(7), g(8), g(9)], 'buf': 'A', 'how': 'iadd', 'slow': 1},   # X += dX
             {'op': 'interpolator', 'pts': [g(3), g(4), g(5)], 'buf': 'A', 'how': 'assign'},       # back to the first set
             {'op': 'probes', 'pts': [g(12), g(13)], 'buf': 'B'},
             {'op': 'probes', 'pts': [g(14), g(12)], 'buf': 'B', 'how': 'iadd'},
             {'op': 'point_source', 'pts': [g(13)], 'buf': 'C'},
             {'op': 'point_source', 'pts': [g(15)], 'buf': 'C', 'how': 'assign'},
             # ---- COMPLEX (and integer) coefficient vectors: real and imaginary parts are validated separately
             {'op': 'interpolator', 'pts': [a, b, c], 'coef': 'complex'},
             {'op': 'interpolator', 'pts': [g(5)], 'coef': 'complex', 'slow': 1},
             {'op': 'probes', 'pts': [c, a], 'coef': 'complex'},
             {'op': 'probes_qp', 'pts': [], 'coef': 'complex'},
             {'op': 'point_source', 'pts': [b], 'coef': 'complex'},
             {'op': 'interpolator', 'pts': [b, c], 'coef': 'int'},
             {'op': 'interpolator_nd', 'pts': [g(j) for j in range(4)], 'coef': 'complex'},
             # ---- quadrature points queried ONE AT A TIME (reference point known exactly)
             {'op': 'probes_qp1', 'j': int(rng.integers(0, 1000))},
             {'op': 'interpolator_qp1', 'j': int(rng.integers(0, 1000))},
             {'op': 'point_source_qp1', 'j': int(rng.integers(0, 1000))},
             {'op': 'probes', 'pts': [a, oth[-1]]},                  # one point far outside: must raise
             {'op': 'point_source', 'pts': [a]},                     # vector / tensor elements: PointSourceVec event
             {'op': 'point_source', 'pts': [g(7)]},
             {'op': 'interpolator_nd', 'pts': [g(j) for j in range(6)]}]      # trailing axes (scalar elements only)
    if elem in SLOW:
        calls = [cl for cl in calls if cl.get('slow')] + ([calls[4], calls[6]] if tier == 'thorough' else [])
    return {'driver': 'probe', 'kind': kind, 'family': fam, 'S': PSCALE, 'elem': elem,
            'p': np.asarray(p).astype(int).tolist(), 't': np.asarray(t).astype(int).tolist(),
            'yseed': int(rng.integers(0, 2 ** 31 - 1)), 'calls': calls}


# ---- query points EXACTLY on the boundary of the domain, on meshes with generic (non power-of-two) cell
# determinants: affine images of lattice meshes under an integer matrix with odd determinant, all boundary facets,
# every local vertex order.  The points belong to the closed domain and must be found.
GENERIC_A = {2: [[3, 1], [2, 5]], 3: [[3, 1, 1], [1, 5, 2], [0, 1, 7]]}       # det 13 / 93
BFACE_W = {2: [(2, 2), (3, 1), (1, 3)], 3: [(2, 1, 1), (1, 2, 1), (1, 1, 2), (2, 2, 0), (0, 2, 2), (2, 0, 2)],
           4: [(1, 1, 1, 1), (2, 1, 0, 1), (0, 1, 2, 1), (2, 2, 0, 0), (0, 2, 2, 0), (0, 0, 2, 2), (2, 0, 0, 2)]}


def boundary_recipes(kind, rng, nvar):
    if kind == 'tri':
        p, t = G.tensor_tri([0, 1, 2], [0, 1, 2], (0, 1, 1, 0))
    elif kind == 'quad':
        p, t = G.tensor_quad([0, 1, 2], [0, 1, 2])
    elif kind == 'tet':
        p, t = U.tet_cubes(2, 6)
    elif kind == 'hex':
        p, t = G.tensor_hex([0, 1, 2], [0, 1], [0, 1])
    else:
        p, t = G.tensor_wedge([0, 1, 2], [0, 1], [0, 1], (0, 1))
    A = np.array(GENERIC_A[p.shape[0]], dtype=float)
    p = A @ p
    out = []
    for var in range(nvar):
        t2 = t.copy()
        if var > 0:
            if kind == 'tet':
                t2 = t[[(j + var) % 4 for j in range(4)]]          # every vertex becomes local vertex 0 in turn
            elif kind == 'tri':
                t2 = t[[(j + var) % 3 for j in range(3)]]
            else:
                t2 = U.apply_local_orders(kind, t, rng)
        m = U.make(kind, p, t2)
        P = np.rint(p * SCALE).astype(int)
        F = np.asarray(m.facets)[:, m.boundary_facets()]
        pts = []
        for f in range(F.shape[1]):
            vs = list(dict.fromkeys(int(v) for v in F[:, f]))               # prism triangles repeat a vertex
            for w in BFACE_W[len(vs)]:
                pts.append([int(x) for x in (P[:, vs] @ np.array(w)) // 4])
        pts += [[int(x) for x in P[:, v]] for v in m.boundary_nodes()]
        seen, uniq = set(), []
        for q in pts:
            if tuple(q) not in seen:
                seen.add(tuple(q))
                uniq.append(q)
        order = rng.permutation(len(uniq))
        uniq = [uniq[j] for j in order]
        calls = [uniq[j:j + 6] for j in range(0, len(uniq), 6)]
        out.append({'driver': 'find', 'kind': kind, 'family': kind + '-generic-boundary', 'S': SCALE,
                    'p': p.astype(int).tolist(), 't': t2.astype(int).tolist(), 'calls': calls, 'model': 0})
    return out


# ---- NON-AFFINE cells of very small (and large) physical size: geometry = 2^g x integer coordinates; the quadrature
# points are images of known dyadic reference points, so the reference expansion does not involve the inverse map
SCALED_ELEMS = {'quad': ['ElementQuad1', 'ElementQuad2', 'ElementQuadS2', 'ElementQuadP3', 'ElementQuad0', 'ElementQuad1DG',
                         'ElementVector(Quad2)'],
                'hex': ['ElementHex1', 'ElementHex2', 'ElementHexS2', 'ElementVector(Hex1)'],
                'tri': ['ElementTriP2'], 'tet': ['ElementTetP2']}


def scaled_recipe(kind, elem, g, rng):
    if kind == 'quad':
        p, t = G.tensor_quad([0, 4, 8], [0, 4, 8])
        p = p.copy()
        p[:, 4] += (1, -1)                                                   # general convex quadrilaterals
        X8, S = [[4, 2, 6], [4, 2, 4]], 64
    elif kind == 'hex':                                                      # two frusta: planar faces, non-affine maps
        P = [[0, 0, 0], [8, 0, 0], [8, 8, 0], [0, 8, 0], [2, 2, 4], [6, 2, 4], [6, 6, 4], [2, 6, 4],
             [0, 0, 8], [8, 0, 8], [8, 8, 8], [0, 8, 8]]
        lo = {(1, 1, 1): 6, (1, 1, 0): 2, (1, 0, 1): 5, (0, 1, 1): 7, (1, 0, 0): 1, (0, 1, 0): 3, (0, 0, 1): 4, (0, 0, 0): 0}
        c1 = [lo[tuple(r)] for r in U.REF_HEX]
        up = {0: 4, 1: 5, 2: 6, 3: 7, 4: 8, 5: 9, 6: 10, 7: 11}
        p, t = np.array(P, dtype=float).T, np.array([c1, [up[v] for v in c1]]).T
        X8, S = [[4, 2], [4, 4], [4, 6]], 64
    elif kind == 'tri':
        p, t = G.tensor_tri([0, 1, 3], [0, 2, 3], (0, 1, 1, 0))
        X8, S = DYADIC_X['tri'], 8
    else:
        p, t = U.tet_cubes(1, 6)
        X8, S = DYADIC_X['tet'], 8
    nv = p.shape[1]
    verts = [[int(x) * S for x in p[:, v]] for v in rng.permutation(nv)[:3]]
    calls = [{'op': 'probes_qp', 'pts': []},
             {'op': 'probes_qp1', 'j': int(rng.integers(0, 1000))}, {'op': 'probes_qp1', 'j': int(rng.integers(0, 1000))},
             {'op': 'interpolator_qp1', 'j': int(rng.integers(0, 1000))}, {'op': 'interpolator_qp1', 'j': int(rng.integers(0, 1000))},
             {'op': 'point_source_qp1', 'j': int(rng.integers(0, 1000))}, {'op': 'point_source_qp1', 'j': int(rng.integers(0, 1000))},
             {'op': 'interpolator_qp', 'pts': []},
             {'op': 'probes', 'pts': verts}, {'op': 'interpolator', 'pts': verts[:1]}]
    return {'driver': 'probe', 'kind': kind, 'family': kind + '-scaled-nonaffine' if kind in ('quad', 'hex') else kind + '-scaled',
            'S': S, 'elem': elem, 'gscale': int(g), 'X8': X8,
            'p': np.asarray(p).astype(int).tolist(), 't': np.asarray(t).astype(int).tolist(),
            'yseed': int(rng.integers(0, 2 ** 31 - 1)), 'calls': calls}


def probe_meshes(kind, rng, variant):
    if kind == 'line':
        return [U.line_points([0, 1, 3, 4, 8]), G.shuffle('line', *U.line_points([0, 2, 3, 7]), rng)][variant % 2]
    if kind == 'tri':
        return [G.tensor_tri([0, 1, 3], [0, 2, 3], (0, 1, 1, 0)),
                G.shuffle('tri', *U.delaunay_int(2, 7, 6, rng), rng)][variant % 2]
    if kind == 'quad':
        p, t = G.tensor_quad([0, 2, 3], [0, 1, 3])
        if variant % 2:
            p = G.shear(p, 1)
        return p, t
    if kind == 'tet':
        return [U.tet_cubes(1, 6), G.shuffle('tet', *U.tet_cubes(1, 5), rng)][variant % 2]
    if kind == 'hex':
        return G.tensor_hex([0, 1, 3], [0, 2], [0, 1])
    if kind == 'wedge':
        return G.tensor_wedge([0, 1, 3], [0, 2], [0, 1], (variant % 2, 1 - variant % 2))
    raise ValueError(kind)


# ------------------------------------------------------------------------------------------ execution (real code)

def _ints(x, what):
    a = np.asarray(x, dtype=np.float64)
    r = np.rint(a)
    if not np.array_equal(a, r) or (np.abs(r) >= 2 ** 20).any():
        raise MachineryError(f'{what}: coordinates are not exact integers at the chosen scale')
    return r.astype(int)


def mesh_event(kind, p, t, S, big=0):
    return {'a': 'Mesh', 'kind': kind, 'err': '', 'p': [[int(x) * S for x in col] for col in np.asarray(p).T],
            't': ids(np.asarray(t)), 'big': int(big)}


def _find(m, X):
    """X: dim x N float array."""
    return m.element_finder()(*[np.array(r) for r in X])


def _history_mesh(rec, scale=1.):
    """The mesh of a recipe.  With rec['derive'] the mesh is reached through a HISTORY: the base mesh is built and USED
    (finder called, a basis built and probed: whatever the library caches on the object is now there), then the
    operations of the history (each returns a new mesh) are applied and the DERIVED mesh is returned."""
    kind = rec['kind']
    d = rec.get('derive')
    if not d:
        return U.make(kind, np.array(rec['p'], dtype=float) * scale, rec['t'])
    import skfem
    m = U.make(kind, np.array(d['p'], dtype=float) * scale, d['t'])
    if d.get('use', 1):
        c = m.p[:, m.t[:, :3]].mean(axis=1)
        m.element_finder()(*[np.array(r) for r in c])
        b0 = skfem.Basis(m, m.elem())
        b0.probes(c)
        b0.interpolator(np.arange(b0.N, dtype=float))(c[:, :1])
    for op in d['ops']:
        m = MO.apply_op(m, [op[0]] + [a * scale if (op[0] in ('translated', 'plus_translated') and j == 1) else a
                                        for j, a in enumerate(op[1:])])
    return m


def _mesh_pt(m, kind, S, what):
    """Integer coordinates (at scale S) and cells of a mesh object, for the Mesh event."""
    nv = {'line': 2, 'tri': 3, 'quad': 4, 'tet': 4, 'hex': 8, 'wedge': 6}[kind]
    return _ints(np.asarray(m.p) * S, what).T.tolist(), np.asarray(m.t)[:nv]


def exec_find(rec):
    S = rec['S']
    kind = rec['kind']
    events = []
    mm, err = guarded(lambda: _history_mesh(rec), CALL_TIMEOUT)
    if not err and rec.get('derive'):
        P, T = _mesh_pt(mm, kind, 1, 'derived mesh')
        ev = mesh_event(kind, np.array(P).T, T, S)
    else:
        ev = mesh_event(kind, rec['p'], rec['t'], S)
    ev['err'] = err
    events.append(ev)
    if err:
        return events
    for call in rec['calls']:
        X = np.array(call, dtype=float).T / S
        res, err = guarded(lambda: _find(mm, X), CALL_TIMEOUT)
        out = []
        if not err:
            r = np.asarray(res)
            if r.ndim != 1 or r.dtype.kind not in 'iu':
                err = 'BadResultType'
            else:
                out = [int(k) + 1 for k in r]
        events.append({'a': 'Find', 'pts': [list(map(int, q)) for q in call], 'res': out, 'err': err,
                       'model': int(rec.get('model', 0))})
    return events


# ---- strongly graded meshes with several hundred cells: one big block next to many thin layers.  For points of
# the big cells near the layers, hundreds of centroids are closer than the centroid of the containing cell.
SPLIT = {'quad': [[0, 1, 3], [1, 2, 3]],
         'hex': [[0, 1, 3, 4], [0, 3, 2, 4], [2, 3, 4, 6], [3, 4, 6, 7], [3, 4, 5, 7], [1, 3, 4, 5]],
         'wedge': [[0, 1, 2, 3], [1, 2, 3, 4], [2, 3, 4, 5]]}


def big_mesh(kind, nslab):
    B = 1024 if kind in ('tri', 'quad') else 256
    xs = [0, B] + [B + j for j in range(1, nslab + 1)]
    if kind == 'tri':
        return B, G.tensor_tri(xs, [0, B])
    if kind == 'quad':
        return B, G.tensor_quad(xs, [0, B])
    if kind == 'tet':
        return B, G.tensor_tet(xs, [0, B], [0, B])
    if kind == 'hex':
        return B, G.tensor_hex(xs, [0, B], [0, B])
    return B, G.tensor_wedge(xs, [0, B], [0, B])


def _containing(p, st, x):
    """Indices of the simplices st (vertex ids, (dim+1) x ns) whose closed hull contains x (input selection)."""
    V = p[:, st]
    A = np.concatenate([V, np.ones((1,) + V.shape[1:])], axis=0).transpose(2, 0, 1)
    rhs = np.concatenate([x, [1.]])[None, :, None].repeat(A.shape[0], 0)
    lam = np.linalg.solve(A, rhs)[:, :, 0]
    return np.nonzero((lam >= -1e-12).all(axis=1))[0]


def big_recipe(kind, nslab, rng, fam, ncalls=6):
    """Find calls on a big graded mesh.  Every point comes with a witness cell (hint) that TLC verifies exactly;
    'deep' points are chosen (input selection) such that >= 100 centroids of the simplices the finder searches
    are closer than the centroid of any containing simplex."""
    B, (p, t) = big_mesh(kind, nslab)
    p, t = np.asarray(p, dtype=float), np.asarray(t)
    nt = t.shape[1]
    st = np.hstack([t[sp] for sp in SPLIT[kind]]) if kind in SPLIT else t
    C = p[:, st].mean(axis=1).T
    dim = p.shape[0]
    deep, mid = [], []
    for _ in range(400):
        x = np.array([rng.integers(B - 4, B)] + [rng.integers(1, B) for _ in range(dim - 1)], dtype=float)
        cont = _containing(p, st, x)
        if len(cont) == 0:
            continue
        d = np.linalg.norm(C - x, axis=1)
        r = min(int((d < d[c]).sum()) for c in cont)
        q = ([int(v) for v in x], int(cont[0] % nt) + 1)
        (deep if r >= 100 else mid).append(q)
        if len(deep) >= 3 * ncalls:
            break
    thin = []
    for _ in range(6):
        x = np.array([B + int(rng.integers(1, nslab))] + [rng.integers(1, B) for _ in range(dim - 1)], dtype=float)
        cont = _containing(p, st, x)
        if len(cont):
            thin.append(([int(v) for v in x], int(cont[0] % nt) + 1))
    far = ([int(3 * B + nslab)] + [int(B // 2)] * (dim - 1), 0)
    calls = [{'pts': [q[0]], 'hint': [q[1]], 'rank': 1} for q in deep[:ncalls]]
    calls.append({'pts': [q[0] for q in deep[ncalls:ncalls + 3]], 'hint': [q[1] for q in deep[ncalls:ncalls + 3]], 'rank': 1})
    calls += [{'pts': [q[0]], 'hint': [q[1]], 'rank': 1} for q in thin[:2] + mid[:1]]
    mix = thin[2:4] + deep[:1]
    calls.append({'pts': [q[0] for q in mix], 'hint': [q[1] for q in mix], 'rank': 0})
    calls.append({'pts': [far[0]], 'hint': [0], 'rank': 0})
    calls.append({'pts': [deep[0][0], far[0]], 'hint': [deep[0][1], 0], 'rank': 0})
    return {'driver': 'findbig', 'kind': kind, 'family': fam, 'S': 1, 'p': p.astype(int).tolist(), 't': t.astype(int).tolist(),
            'calls': calls}


def exec_findbig(rec):
    kind = rec['kind']
    events = []
    mm, err = guarded(lambda: U.make(kind, rec['p'], rec['t']), CALL_TIMEOUT)
    ev = mesh_event(kind, rec['p'], rec['t'], 1, big=1)
    ev['err'] = err
    events.append(ev)
    if err:
        return events
    for call in rec['calls']:
        X = np.array(call['pts'], dtype=float).T
        res, err = guarded(lambda: _find(mm, X), CALL_TIMEOUT)
        out = []
        if not err:
            r = np.asarray(res)
            if r.ndim != 1 or r.dtype.kind not in 'iu':
                err = 'BadResultType'
            else:
                out = [int(k) + 1 for k in r]
        events.append({'a': 'FindBig', 'pts': [list(map(int, q)) for q in call['pts']], 'res': out, 'err': err,
                       'hint': [int(h) for h in call['hint']], 'rank': int(call['rank'])})
    return events


def _fxl(a, what):
    out = [fx(v) for v in np.asarray(a, dtype=np.float64).ravel().tolist()]
    if any(o is None for o in out):
        return None
    return out


def exec_probe(rec):
    import skfem
    S = rec['S']
    kind = rec['kind']
    name = rec['elem']
    meta = EL.CATALOGUE[name]
    g = int(rec.get('gscale', 0))                    # geometry = 2^g x integer coordinates (exact in floating point)
    G2 = 2. ** g
    events = []
    ev = mesh_event(kind, rec['p'], rec['t'], S)
    events.append(ev)

    def build():
        m = _history_mesh(rec, G2)
        if rec.get('derive'):
            P, T = _mesh_pt(m, kind, 1. / G2, 'derived mesh')
            ev.update(mesh_event(kind, np.array(P).T, T, S))
        X = np.array(rec.get('X8', DYADIC_X[kind]), dtype=float) / 8.
        W = np.full(X.shape[1], 1. / X.shape[1])
        b = skfem.Basis(m, EL.make(name), quadrature=(X, W))
        return m, b
    mb, err = guarded(build, CALL_TIMEOUT)
    if err:
        events.append({'a': 'Basis', 'err': err, 'elem': name})
        return events
    m, b = mb
    yrng = np.random.default_rng(rec['yseed'])
    y = yrng.integers(-4, 5, b.N)
    y2 = yrng.integers(-4, 5, b.N)                   # imaginary parts of the complex coefficient vector
    yf = y.astype(float)
    yc = y.astype(float) + 1j * y2.astype(float)
    edofs = ids(b.element_dofs)
    bev = {'a': 'Basis', 'err': '', 'elem': name, 'family': meta['family'], 'tolclass': meta['tol'],
           'ndofs': int(b.N), 'edofs': edofs, 'y': [int(v) for v in y], 'y2': [int(v) for v in y2], 'ncomp': 0, 'vdof': []}
    if meta['family'] == 'P1':
        bev['vdof'] = [int(d) + 1 for d in b.nodal_dofs[0]]
    events.append(bev)
    nbfun = b.element_dofs.shape[0]
    handles = {}

    def handle(coef):                                # one interpolator handle per kind of coefficient vector
        if coef not in handles:
            handles[coef] = b.interpolator({'real': yf, 'complex': yc, 'int': y.astype(np.int64)}[coef])
        return handles[coef]
    handle('real')
    # reference element for the local expansion: a FRESH instance per call, so that per-instance tables of the
    # element under test cannot leak into the reference (ElementGlobal: one instance per scenario, its only
    # table is the per-mesh Vandermonde inverse, expensive to rebuild)
    shared_ref = [EL.make(name)] if meta['tol'] == 'global' else None
    bufs = {}                       # persistent argument arrays of the in-place call histories
    nq = b.X.shape[1]

    for call in rec['calls']:
        op0 = call['op']
        coef = call.get('coef', 'real')
        ycoef = {'real': yf, 'complex': yc, 'int': y.astype(np.int64)}[coef]
        ref = []
        qsel = None                 # flat indices (cell * nq + q) of quadrature points: reference point known exactly
        op = op0
        if op0.endswith('_qp') or op0.endswith('_qp1'):
            gx = b.global_coordinates().value                               # dim x nel x nq
            Xall = gx.reshape(gx.shape[0], -1)
            if op0.endswith('_qp1'):
                qsel = np.array([int(call['j']) % Xall.shape[1]])
                op = op0[:-4]
            else:
                qsel = np.arange(Xall.shape[1])
                op = op0[:-3]
            X = np.ascontiguousarray(Xall[:, qsel])
            pts = _ints(X / G2 * S, 'quadrature points').T.tolist()

            def refvals():
                u = b.interpolate(ycoef)
                u = u[0] if isinstance(u, tuple) else u
                v = np.asarray(u.value)
                return v.reshape(-1, Xall.shape[1])[:, qsel]
            rv, rerr = guarded(refvals, CALL_TIMEOUT)
            ref = None if rerr else rv
        else:
            pts = call['pts']
            X = np.array(pts, dtype=float).T / S * G2
            if 'buf' in call:       # hand the SAME array object to the library again, contents modified in place
                old = bufs.get(call['buf'])
                if old is not None and old.shape == X.shape:
                    how = call.get('how', 'assign')
                    if how == 'iadd':
                        old += X - old
                    elif how == 'entry':
                        old[:, 0] = X[:, 0]
                        old[:, 1:] = X[:, 1:]
                    else:
                        old[...] = X
                    if not np.array_equal(old, X):
                        raise MachineryError('in-place update of the query points is not exact')
                    X = old
                else:
                    bufs[call['buf']] = X
        N = X.shape[1]
        e = {'a': 'Probe', 'op': op, 'pts': [list(map(int, q)) for q in pts],
             'cells': [], 'rows': [], 'vals': [], 'phis': [], 'ref': [], 'ferr': '', 'err': '', 'pscols': [], 'psvals': [],
             'coef': coef, 'ypart': 're', 'gscale': g, 'exactref': 1 if qsel is not None else 0}
        if qsel is not None:
            e['tags'] = {'qp': 1}
        if op == 'interpolator_nd':
            if bev['ncomp'] != 1:
                continue                                                    # trailing axes: scalar elements only
            e['op'] = 'interpolator'

        cells, ferr = guarded(lambda: np.asarray(_find(m, X)), CALL_TIMEOUT)
        if ferr:                                                            # the finder itself raised
            e['ferr'] = ferr
            events.append(e)
            continue

        def observe():
            if op == 'probes':
                Pm = b.probes(X).tocsr()
                Pm.sum_duplicates()
                vals = np.asarray(Pm @ ycoef).ravel()
                rows = [sorted(int(c) + 1 for c, v in zip(Pm.indices[Pm.indptr[r]:Pm.indptr[r + 1]],
                                                          Pm.data[Pm.indptr[r]:Pm.indptr[r + 1]]) if v != 0)
                        for r in range(Pm.shape[0])]
                ps = None
            elif op == 'interpolator':
                vals = np.asarray(handle(coef)(X)).ravel()
                rows, ps = None, None
            elif op == 'interpolator_nd':
                Xn = X.reshape(X.shape[0], 2, -1)
                out = np.asarray(handle(coef)(Xn))
                if out.shape != Xn.shape[1:]:
                    raise ValueError('interpolator: trailing axes not preserved')
                vals = out.ravel()
                rows, ps = None, None
            else:
                if 'buf' in call:                                       # persistent 1-D argument, updated in place
                    x1 = bufs.get(call['buf'] + ':1d')
                    if x1 is None:
                        x1 = bufs[call['buf'] + ':1d'] = X[:, 0].copy()
                    else:
                        x1[:] = X[:, 0]
                else:
                    x1 = X[:, 0]
                v = np.asarray(b.point_source(x1))
                nz = np.nonzero(v)[0]
                ps = (nz, v[nz])
                rows = [sorted(int(c) + 1 for c in nz)]
                re = float(sum(Fraction(float(v[j])) * int(y[j]) for j in nz))
                im = float(sum(Fraction(float(v[j])) * int(y2[j]) for j in nz))
                vals = np.array([re + 1j * im]) if coef == 'complex' else np.array([re])
            # reference expansion on the located cells, through a fresh element and a fresh mapping; for quadrature
            # points the reference coordinates are KNOWN exactly (no inverse map involved)
            el2 = shared_ref[0] if shared_ref else EL.make(name)
            mp2 = m._mapping()
            if qsel is not None:
                tcells = qsel // nq
                Xl = b.X[:, qsel % nq][:, :, None]
                phis = np.array([np.asarray(el2.gbasis(mp2, Xl, i, tind=tcells)[0].value) for i in range(nbfun)])
            else:
                Xl = mp2.invF(X[:, :, None], tind=cells)
                phis = np.array([np.asarray(el2.gbasis(mp2, Xl, i, tind=cells)[0].value) for i in range(nbfun)])
            return rows, vals, phis, ps
        obs, err = guarded(observe, CALL_TIMEOUT)
        if err:
            e['err'] = err
            events.append(e)
            continue
        rows, vals, phis, ps = obs
        ncomp = int(phis[0].size // N)
        if bev['ncomp'] == 0:
            bev['ncomp'] = ncomp
        ph = phis.reshape(nbfun, ncomp, N)                                  # component-major as in probes
        fph = [[[fx(float(ph[i, c, n])) for i in range(nbfun)] for c in range(ncomp)] for n in range(N)]
        if op == 'point_source' and ncomp != 1:
            # vector / tensor valued elements: ONE vector for ncomp components - judged by PointSourceIsFirstRowOfProbes
            for pname, part in [('re', np.real)] + ([('im', np.imag)] if coef == 'complex' else []):
                pv = dict(e, a='PointSourceVec', ypart=pname, cells=[int(k) + 1 for k in cells], phis=fph,
                          pscols=[int(c) + 1 for c in ps[0]], psvals=[fx(float(v)) for v in ps[1]],
                          val=fx(float(part(np.asarray(vals))[0])))
                if pv['val'] is None or any(v is None for v in pv['psvals']) \
                        or any(v is None for pn in fph for pc in pn for v in pc):
                    pv['err'] = 'NonFinite'
                events.append(pv)
            continue
        if rows is None:                                                    # interpolator: structure not observable
            rows = [[] for _ in range(ncomp * N)]
        parts = [('re', np.real)] + ([('im', np.imag)] if coef == 'complex' else [])
        if coef != 'complex' and np.iscomplexobj(vals):
            e['err'] = 'ComplexResultForRealCoefficients'
            events.append(e)
            continue
        for pname, part in parts:
            ep = dict(e, ypart=pname)
            fvals = _fxl(part(np.asarray(vals)), 'vals')
            fref = [] if isinstance(ref, list) else (None if ref is None else _fxl(part(np.asarray(ref)), 'interpolate'))
            if fvals is None or fref is None or any(v is None for pn in fph for pc in pn for v in pc):
                ep['err'] = 'NonFinite'
                events.append(ep)
                continue
            ep.update(cells=[int(k) + 1 for k in cells], vals=fvals, phis=fph, ref=fref, rows=rows)
            if ps is not None:
                ep['pscols'] = [int(c) + 1 for c in ps[0]]
                ep['psvals'] = [fx(float(v)) for v in ps[1]]
            events.append(ep)
    if bev['ncomp'] == 0:
        bev['ncomp'] = 1
    return events


def execute(rec):
    if rec['driver'] == 'find':
        return exec_find(rec)
    if rec['driver'] == 'findbig':
        return exec_findbig(rec)
    return exec_probe(rec)


def scenario(sid, rec):
    tags = {'kind': rec['kind'], 'family': rec['family'], 'driver': rec['driver']}
    if 'elem' in rec:
        tags['elem'] = rec['elem']
    return {'id': sid, 'recipe': rec, 'tags': tags, 'events': execute(rec)}


# ------------------------------------------------------------------------------------------ M + R

def model(ctx):
    out_file = os.path.join(ctx.scratch, 'c14_universe.json')
    cfg = 'MC_C14_thorough.cfg' if ctx.tier == 'thorough' else 'MC_C14.cfg'
    ctx.model_must_hold('MC_C14', cfg, env={'OUT_FILE': out_file}, timeout=3000, workers=8, label='FindImpl => FindOK')
    # regression model (DESIGN section 7 #16): the 1-D finder before fix 6d9cf06 must be refuted by TLC on meshes
    # with several components; the current algorithm is part of the main configuration
    old = ctx.tlc_model('MC_C14', 'MC_C14_line_prerepair.cfg', env={'OUT_FILE': ''}, timeout=3000, workers=2,
                        label='regression model: 1-D element finder before fix 6d9cf06')
    ctx.notes['pre_repair_line_finder_refuted_by_tlc'] = bool(old['violated'])
    if not old['violated']:
        raise MachineryError('MC_C14 does not refute the pre-repair 1-D element finder')
    return out_file


def replay_recipes(out_file, tier, rng):
    """The (mesh, batch) pairs TLC enumerated, as Find scenarios with model = 1 (FindImpl is re-evaluated by the
    trace specification and compared with the code: agreement / drift is evidence).  Quick tier: a sample."""
    recs = []
    if not os.path.exists(out_file):
        return recs
    for u in json.load(open(out_file)):
        batches = u['batches']
        three = len(u['p'][0]) == 3
        cap = (60 if three else 150) if tier == 'thorough' else (6 if three else 20)
        if len(batches) > cap:
            batches = [batches[j] for j in rng.permutation(len(batches))[:cap]]
        for j in range(0, len(batches), 5):                       # small scenarios shard evenly over the JVMs
            recs.append({'driver': 'find', 'kind': u['kind'], 'family': 'TLC-universe', 'S': 1,
                         'p': np.array(u['p']).T.tolist(), 't': (np.array(u['t']).T - 1).tolist(),
                         'calls': batches[j:j + 5], 'model': 1})
    return recs


def _scen(args):
    return scenario(*args)


# ---- finder / probes HISTORIES across derived meshes: the base mesh is used first (finder, basis, probes), then another
# mesh is derived from it and located / probed on
DERIVE_BASE = {'line': lambda: U.line_points([0, 2, 4, 8]), 'tri': lambda: G.tensor_tri([0, 2, 4], [0, 2, 4], (0, 1, 1, 0)),
               'quad': lambda: G.tensor_quad([0, 2, 4], [0, 2, 6]), 'tet': lambda: tuple(a * (2 if j == 0 else 1) for j, a in enumerate(U.tet_cubes(1, 6))),
               'hex': lambda: G.tensor_hex([0, 2, 4], [0, 2], [0, 4]), 'wedge': lambda: G.tensor_wedge([0, 2, 4], [0, 2], [0, 2], (0, 1))}
DERIVE_OPS = [[['translated', 0, 2]], [['scaled', 0, 2]], [['refined', 1]], [['mirrored', 0]], [['restrict', [1, 2, 3, 5]]],
              [['morphed', 0, 1, 1]], [['translated', 1, 2], ['scaled', 0, 2]], [['refined', 1], ['translated', 0, 2]]]
DERIVE_ELEMS = {'line': ['ElementLineP2'], 'tri': ['ElementTriP2', 'ElementVector(TriP1)'], 'quad': ['ElementQuad2', 'ElementQuadRT1'],
                'tet': ['ElementTetP2'], 'hex': ['ElementHex1'], 'wedge': ['ElementWedge1']}


def derived_recipes(kind, rng, nops, tier):
    p, t = DERIVE_BASE[kind]()
    p, t = np.asarray(p, dtype=float), np.asarray(t)
    ops = [o for o in DERIVE_OPS
           if not (kind == 'wedge' and any(x[0] in ('refined', 'mirrored') for x in o))
           and not (kind == 'line' and any(x[0] == 'morphed' for x in o))
           and not (p.shape[0] == 1 and any(x[0] == 'translated' and x[1] == 1 for x in o))]
    start = int(rng.integers(0, len(ops)))
    out = []
    for j in range(nops):
        o = ops[(start + j) % len(ops)]
        base = {'p': p.astype(int).tolist(), 't': t.astype(int).tolist(), 'ops': o}
        # the derived mesh as obtained WITHOUT prior use (control): its points serve to generate the queries
        mc = _history_mesh({'kind': kind, 'derive': dict(base, use=0)})
        nv = {'line': 2, 'tri': 3, 'quad': 4, 'tet': 4, 'hex': 8, 'wedge': 6}[kind]
        pd, td = np.asarray(mc.p), np.asarray(mc.t)[:nv]
        fam = kind + '-derived-' + '+'.join(x[0] for x in o)
        r = find_recipe(kind, pd, td, rng, fam, nsingle=12, nbatch=3)
        r['derive'] = dict(base, use=1)
        out.append(r)
        name = DERIVE_ELEMS[kind][j % len(DERIVE_ELEMS[kind])]
        if np.array_equal(pd, np.rint(pd)) and td.shape[1] <= 40:
            q = probe_recipe(kind, pd, td, name, rng, fam, tier)
            q['calls'] = [c for c in q['calls'] if c.get('coef', 'real') == 'real' and 'buf' not in c][:9]
            q['derive'] = dict(base, use=1)
            out.append(q)
    return out


def from_suite(ctx):
    """Suite stream (thorough tier): the repository's own tests are the drivers.  harness/suite_c14.py records every
    call of a finder returned by Mesh.element_finder() and every CellBasis.probes / interpolator / point_source
    call on small meshes; the recorded events are judged by the witness-based Suite clauses of spec/Locate.tla."""
    from .. import suite
    evs = suite.record(ctx, files=['tests/test_basis.py', 'tests/test_mesh.py', 'tests/test_assembly.py'],
                       plugins=['harness.suite_c14'])
    events = evs.get('c14', [])
    skipped = {}
    for d in evs.get('c14_skipped', []):
        for k, v in d.items():
            skipped[k] = skipped.get(k, 0) + int(v)
    scs = []
    for k, e in enumerate(events):
        tags = {'family': 'suite', 'kind': e.get('kind', ''), 'driver': 'suite', 'elem': e.get('elem', ''),
                'components': e.pop('components', 'one')}
        scs.append({'id': f'C14-suite-{k}', 'recipe': {'driver': 'suite', 'test': e.pop('test', '')}, 'tags': tags,
                    'events': [e]})
    ctx.validate('TraceC14', scs, jvms=8)
    ctx.notes['scenarios_from_repository_tests'] = len(scs)
    ctx.notes['suite_events_by_kind'] = {k: sum(1 for s in scs if s['events'][0]['a'] == k) for k in ('SuiteFind', 'SuiteProbe')}
    ctx.notes['suite_skipped_not_representable'] = skipped
    return scs


def run(ctx):
    th = ctx.tier == 'thorough'
    procs = Pool()                                                # forked before any thread exists
    try:
        tp = ThreadPoolExecutor(max_workers=1)
        fut = tp.submit(model, ctx)                               # M runs while the code is driven
        meshes, rng = find_meshes(ctx.tier, ctx.seed)
        recs = [find_recipe(k, p, t, rng, fam, nsingle=40 if th else 24, nbatch=10 if th else 5)
                for (k, p, t, fam) in meshes]
        recs += [find_recipe(k, np.array(p, dtype=float), np.array(t), rng, k + '-roundoff-regression', nsingle=10, nbatch=2, extra=x)
                 for (k, p, t, x) in ROUNDOFF_REGRESSIONS]
        # strongly graded meshes with several hundred cells (witness-based clauses, bounded TLC cost)
        brng = np.random.default_rng(ctx.seed + 3014)
        for kind, nslab in (('tet', 40), ('hex', 60), ('wedge', 60), ('tri', 150), ('quad', 150)) + \
                           ((('tet', 60), ('hex', 40), ('tri', 120)) if th else ()):
            recs.append(big_recipe(kind, nslab, brng, kind + '-boundary-layer', ncalls=10 if th else 6))
        # points exactly on the domain boundary of meshes with generic cell determinants, every local vertex order
        for kind, nvar in (('tet', 4), ('hex', 3), ('wedge', 2), ('tri', 3), ('quad', 2)):
            recs += boundary_recipes(kind, brng, nvar + (2 if th and kind == 'hex' else 0))
        # finder / probes histories across DERIVED meshes (used base mesh -> refined / translated / scaled / ...)
        for kind in ('line', 'tri', 'quad', 'tet', 'hex', 'wedge'):
            recs += derived_recipes(kind, brng, 6 if th else 3, ctx.tier)
        # non-affine cells (and simplices) at physical scales 2^g
        for kind, names in SCALED_ELEMS.items():
            for en, name in enumerate(names):
                for gg in ((-34, -20, 12, -10) if th else ((-34, 12) if en % 2 == 0 else (-20, -34))):
                    recs.append(scaled_recipe(kind, name, gg, brng))
        prng = np.random.default_rng(ctx.seed + 1014)
        for name, meta in EL.CATALOGUE.items():
            for variant in range(2 if th else 1):
                p, t = probe_meshes(meta['kind'], prng, variant + len(name) + ctx.seed)
                recs.append(probe_recipe(meta['kind'], p, t, name, prng, 'probe-mesh', ctx.tier))
        # P1 on simplices has an exact rational oracle (P1Exact): drive it on the graded / anisotropic / random
        # meshes of the finder scenarios as well
        p1 = {'line': 'ElementLineP1', 'tri': 'ElementTriP1', 'tet': 'ElementTetP1'}
        extra = [(k, p, t, fam) for (k, p, t, fam) in meshes
                 if k in p1 and np.abs(p).max() <= 20 and np.asarray(t).shape[1] <= 40]
        for (k, p, t, fam) in extra[::1 if th else 3]:
            recs.append(probe_recipe(k, p, t, p1[k], prng, fam, ctx.tier))
        scs = procs.map(_scen, [(f'C14-{k}', r) for k, r in enumerate(recs)])
        ctx.validate('TraceC14', scs, jvms=8)
        if th:
            from_suite(ctx)
        out_file = fut.result()
        rrecs = replay_recipes(out_file, ctx.tier, np.random.default_rng(ctx.seed + 2014))
        rscs = procs.map(_scen, [(f'C14-R{k}', r) for k, r in enumerate(rrecs)])
        ctx.validate('TraceC14', rscs, jvms=8)
    finally:
        procs.close()
    keys = {json.dumps([r['kind'], r['p'], r['t'], r.get('elem', '')]) for r in recs + rrecs if len(r['t'][0]) >= 2}
    ctx.notes['large_mesh_points_beyond_100_nearest_centroids'] = ctx.clause_counts.get('Info_WitnessBeyond100Nearest', 0)
    ctx.notes['distinct_nontrivial'] = len(keys)
    ctx.notes['scenarios_from_tlc_universe'] = len(rrecs)
    ctx.notes['model_drift'] = ctx.clause_counts.get('Info_ModelDrift', 0)
    ctx.notes['tolerances'] = {'TolGeom': '2^-36 x magnitude', 'TolGlobal': '2^-26 x magnitude (ElementGlobal families)',
                               'MarginBits': 10}
    return ctx.finish(rule=RULE, assumptions=[
        'cells are convex with planar faces (checked exactly by MeshInScope; other meshes are skipped and counted)',
        'query points are dyadic; points outside the mesh by less than 2^-10 of a cell (relative) carry no demand',
        'ties between equidistant centroids are broken by the lower index in the transcription only (drift is '
        'evidence, not a verdict)',
        'interpolator with trailing axes is driven for scalar elements only; point_source for scalar elements only',
        'suite stream (thorough): float coordinates of the repository tests are not representable exactly; the '
        'projection supplies barycentric coordinates computed in exact rational arithmetic from the float data '
        '(rounded to 2^-56) as witnesses and the pairing probes(x) @ y; TLC decides containment within 2^-36, the '
        'matrix structure and the entrywise local expansion; what is not representable is skipped and counted',
        'TLC 1.8.0 and the CommunityModules Json module are trusted'],
        exhaustive=False)


def replay(ctx, doc):
    sc = doc['scenario']
    if sc.get('recipe', {}).get('driver') == 'suite':
        # recorded from a repository test (named in the recipe): the recorded event itself is re-validated
        ctx.validate('TraceC14', [sc], jvms=8)
        return ctx.finish(rule=RULE)
    if sc.get('recipe', {}).get('driver') == 'model':
        ctx.model_must_hold('MC_C14', sc['recipe']['cfg'], env={'OUT_FILE': ''}, timeout=3000)
        return ctx.finish(rule=RULE)
    sc2 = scenario(sc['id'], sc['recipe'])
    ctx.validate('TraceC14', [sc2], jvms=8)
    return ctx.finish(rule=RULE)
