------------------------------- MODULE Surgery -------------------------------
(* C18: mesh surgery keeps geometry valid and carries tags to the same         *)
(* entities.                                                                    *)
(*                                                                             *)
(* Part 1 - relational clauses SurgeryClauses(e) on an "Op" event              *)
(*   e.op   : operation name (see Ops)                                         *)
(*   e.pre  : sequence of operand meshes, e.post : sequence of result meshes   *)
(*            (abstract meshes of Tags.tla, integer coordinates at one common  *)
(*            scale)                                                           *)
(*   e.par  : parameters and returned index maps, all fields always present    *)
(*            (unused ones empty): elements, ix, skips, skipb, fnum, fden, d,  *)
(*            nrm, p0, nn (mirror plane: integer normal, a point of the plane  *)
(*            at the event's scale, nrm.nrm), A, b, facets, fv, ret, proj,     *)
(*            sign, xmap                                                       *)
(*   e.ck_pre, e.ck_post : checksums of the operands' arrays around the call   *)
(* used by the model-checking module MC_C18 and by the trace specification.    *)
(* Part 2 - transcriptions (Impl) of the operations with non-trivial index     *)
(* manipulation: _reix / restrict (mesh.py:1111-1203), remove_elements         *)
(* (1205-1218), __add__ / _remove_duplicate_nodes (659-664, 700-708),          *)
(* remove_unused_nodes / remove_duplicate_nodes (1220-1259), to_meshtri        *)
(* (mesh_quad_1.py:135-211), to_meshtet (mesh_hex_1.py:157-168,                *)
(* mesh_wedge_1.py:37-46).                                                     *)
EXTENDS Tags, Geometry, MC_Universe

Ops == {"restrict", "remove_elements", "add", "matmul", "remove_unused_nodes", "remove_duplicate_nodes",
        "to_meshtri", "to_meshtri_x", "to_meshtet", "extrude", "scaled", "translated", "mirrored", "morphed",
        "oriented", "trace", "refine", "setup"}
SameCellsOps == {"remove_unused_nodes", "remove_duplicate_nodes", "oriented"}
RigidOps     == {"scaled", "translated", "mirrored", "morphed"}
SplitOps     == {"to_meshtri", "to_meshtri_x", "to_meshtet"}
SubsetOps    == {"restrict", "remove_elements"}
\* operations that promise to carry names over (replace() keeps them, or explicit re-tagging code exists)
CarryingOps  == SubsetOps \cup SameCellsOps \cup RigidOps \cup {"to_meshtri", "to_meshtri_x"}

Pre(e)  == e.pre[1]
Post(e) == e.post[1]

\* ---------------------------------------------------------------------------
\* the map on points the operation applies
RECURSIVE ProdSeq(_)
ProdSeq(s) == IF s = <<>> THEN 1 ELSE Head(s) * ProdSeq(Tail(s))
Img(e, x) ==
  CASE e.op = "translated" -> VAdd(x, e.par.d)
    [] e.op = "mirrored"   ->        \* reflection through the plane {y : nrm.(y - p0) = 0}, nn = nrm.nrm:
                                     \* x - 2 (nrm.(x - p0)) nrm / nn   (rational; exact on the logged lattice)
         LET dd == Dot(e.par.nrm, VSub(x, e.par.p0)) IN
         [i \in DOMAIN x |-> x[i] - ((2 * dd * e.par.nrm[i]) \div e.par.nn)]
    [] e.op = "morphed"    -> Affine(e.par.A, e.par.b, x)
    [] e.op = "scaled"     -> [i \in DOMAIN x |-> (x[i] * e.par.fnum[i]) \div e.par.fden[i]]
    [] OTHER               -> x
ImgSet(e, S)  == {Img(e, x) : x \in S}
ImgSets(e, SS) == {ImgSet(e, S) : S \in SS}
\* scaled / mirrored: the divisions above must be exact
ImgExact(e) ==
  /\ e.op = "scaled" => \A v \in DOMAIN Pre(e).p : \A i \in DOMAIN Pre(e).p[v] :
                           (Pre(e).p[v][i] * e.par.fnum[i]) % e.par.fden[i] = 0
  /\ e.op = "mirrored" => \A v \in DOMAIN Pre(e).p : \A i \in DOMAIN Pre(e).p[v] :
                           (2 * Dot(e.par.nrm, VSub(Pre(e).p[v], e.par.p0)) * e.par.nrm[i]) % e.par.nn = 0

KeptCells(e) == IF e.op = "restrict" THEN VSet(e.par.elements) ELSE DOMAIN Pre(e).t \ VSet(e.par.elements)

\* ---------------------------------------------------------------------------
\* well-formedness (evaluated first; everything else is guarded by it)
PDim(e) == IF Len(e.pre[1].p) = 0 THEN 0 ELSE Len(e.pre[1].p[1])
ParWellFormed(e) ==
  CASE e.op \in SubsetOps -> /\ \A j \in DOMAIN e.par.elements : e.par.elements[j] \in DOMAIN Pre(e).t
                             /\ IsInjectiveSeq(e.par.elements)
    [] e.op = "trace"      -> /\ Len(e.par.fv) = Len(e.par.facets)
                              /\ \A j \in DOMAIN e.par.fv : \A q \in DOMAIN e.par.fv[j] : e.par.fv[j][q] \in 1..Len(Pre(e).p)
    [] e.op = "scaled"     -> /\ Len(e.par.fnum) = PDim(e) /\ Len(e.par.fden) = PDim(e)
                              /\ \A i \in DOMAIN e.par.fden : e.par.fden[i] > 0
    [] e.op = "translated" -> Len(e.par.d) = PDim(e)
    [] e.op = "mirrored"   -> /\ Len(e.par.nrm) = PDim(e) /\ Len(e.par.p0) = PDim(e)
                              /\ e.par.nn > 0 /\ e.par.nn = Dot(e.par.nrm, e.par.nrm)
    [] e.op = "morphed"    -> /\ Len(e.par.A) = PDim(e) /\ Len(e.par.b) = PDim(e)
                              /\ \A i \in DOMAIN e.par.A : Len(e.par.A[i]) = PDim(e)
    [] OTHER               -> TRUE
SurgWellFormed(e) ==
  /\ e.op \in Ops /\ Len(e.pre) >= 1 /\ Len(e.post) >= 1
  /\ \A j \in DOMAIN e.pre  : MeshWellFormed(e.pre[j])
  /\ \A j \in DOMAIN e.post : /\ e.post[j].kind \in KnownKinds
                              /\ \A k \in DOMAIN e.post[j].t : \A i \in DOMAIN e.post[j].t[k] :
                                    e.post[j].t[k][i] \in 1..Len(e.post[j].p)
                              /\ (e.op # "trace" => \A k \in DOMAIN e.post[j].t : Len(e.post[j].t[k]) = NNodes(e.post[j].kind))
  /\ ParWellFormed(e)

\* ---------------------------------------------------------------------------
\* Valid: what Mesh.is_valid checks (no duplicate point, every point in some cell) and non-degenerate cells.
\* Each part is demanded of the results when the operands have it (an operation is not blamed for a defect of its
\* input), and unconditionally of the operations whose purpose it is: remove_duplicate_nodes / + / @ merge coincident
\* points, remove_unused_nodes / restrict / remove_elements / trace drop unused ones.
UsedVertices(m) == UNION {VSet(m.t[k]) : k \in DOMAIN m.t}
NoDuplicatePoints(m) == \A u, v \in DOMAIN m.p : u # v => m.p[u] # m.p[v]
AllUsed(m)           == UsedVertices(m) = DOMAIN m.p
DistinctVertices(m)  == \A k \in DOMAIN m.t : IsInjectiveSeq(m.t[k])
CellsNonDegenerate(m) == \A k \in DOMAIN m.t : NonDegenerate(m.kind, GeoCellSeq(m, k))
PreAll(e, P(_)) == \A j \in DOMAIN e.pre : P(e.pre[j])
NeedNoDup(e)   == e.op \in {"remove_duplicate_nodes", "add", "matmul"} \/ PreAll(e, NoDuplicatePoints)
NeedAllUsed(e) == /\ e.op # "matmul"                        \* the results of @ share one point array by design
                  /\ e.op \in {"remove_unused_nodes", "restrict", "remove_elements", "trace"} \/ PreAll(e, AllUsed)
Valid(e) == \A j \in DOMAIN e.post :
  LET m == e.post[j] IN
  /\ Len(m.t) >= 1
  /\ PreAll(e, DistinctVertices) => DistinctVertices(m)
  /\ NeedNoDup(e) => NoDuplicatePoints(m)
  /\ NeedAllUsed(e) => AllUsed(m)
  /\ (e.op # "trace" /\ PreAll(e, DistinctVertices) /\ PreAll(e, CellsNonDegenerate)) => CellsNonDegenerate(m)

\* ---------------------------------------------------------------------------
\* splitting: the children partition their parent cell
QuadSum(S) == CentroidTimesN(S)
CentroidSet(e, k) ==       \* to_meshtri(style='x') adds the mean of the four vertices
  IF e.op = "to_meshtri_x"
  THEN LET s == QuadSum(GeoCell(Pre(e), k)) IN
       IF \A i \in DOMAIN s : s[i] % 4 = 0 THEN {[i \in DOMAIN s |-> s[i] \div 4]} ELSE {}
  ELSE {}
ParentPts(e, k) == GeoCell(Pre(e), k) \cup CentroidSet(e, k)
HasParent(e, j) == \E k \in DOMAIN Pre(e).t : GeoCell(Post(e), j) \subseteq ParentPts(e, k)
ParentOf(e, j)  == CHOOSE k \in DOMAIN Pre(e).t : GeoCell(Post(e), j) \subseteq ParentPts(e, k)
\* the facets of the simplex j of the result, as sequences of local indices, with the opposite local vertex
SimplexFacetIdx(n) == {[i \in 1..(n - 1) |-> IF i < o THEN i ELSE i + 1] : o \in 1..n}
OppositeOf(n, fi)  == CHOOSE o \in 1..n : \A i \in DOMAIN fi : fi[i] # o
PartitionOfParent(e, k, J) ==
  LET post == Post(e)
      n    == NNodes(post.kind)
      pfac == GeoFacetsOfCell(Pre(e), k)
      seqOf(j, fi) == [i \in DOMAIN fi |-> post.p[post.t[j][fi[i]]]]
      setOf(j, fi) == {post.p[post.t[j][fi[i]]] : i \in DOMAIN fi}
      opp(j, fi)   == post.p[post.t[j][OppositeOf(n, fi)]]
  IN /\ SumOver([j \in J |-> CellVolAbs(post.kind, GeoCellSeq(post, j))], J)
          = CellVolAbs(Pre(e).kind, GeoCellSeq(Pre(e), k))
     /\ \A j \in J : \A fi \in SimplexFacetIdx(n) :
          \/ \E G \in pfac : setOf(j, fi) \subseteq G                       \* on the boundary of the parent
          \/ LET others == {jj \in J \ {j} : setOf(j, fi) \subseteq GeoCell(post, jj)} IN
             /\ Cardinality(others) = 1                                     \* shared with exactly one sibling ...
             /\ LET jj == CHOOSE x \in others : TRUE
                    o2 == CHOOSE x \in GeoCell(post, jj) : x \notin setOf(j, fi)
                IN Side(seqOf(j, fi), opp(j, fi)) * Side(seqOf(j, fi), o2) = -1   \* ... lying on the other side
SplitOK(e) ==
  /\ \A j \in DOMAIN Post(e).t : Cardinality(GeoCell(Post(e), j)) = NNodes(Post(e).kind)
  /\ \A j \in DOMAIN Post(e).t : HasParent(e, j)
  /\ \A k \in DOMAIN Pre(e).t :
       LET J == {j \in DOMAIN Post(e).t : ParentOf(e, j) = k} IN J # {} /\ PartitionOfParent(e, k, J)

\* ---------------------------------------------------------------------------
\* CellsAreExpectedPointSets
ProductCell(c1, c2) == {x \o z : x \in c1, z \in c2}
Project(x, proj) == [i \in DOMAIN proj |-> x[proj[i]]]
NoRepeatedCell(m) == Cardinality(GeoCells(m)) = Len(m.t)
CellsAreExpectedPointSets(e) ==
  /\ (PreAll(e, NoRepeatedCell) /\ (e.op = "trace" => IsInjectiveSeq(e.par.facets)))     \* (a facet asked for twice
       => \A j \in DOMAIN e.post : NoRepeatedCell(e.post[j])                             \*  is traced twice)
  /\ CASE e.op \in SubsetOps    -> GeoCells(Post(e)) = {GeoCell(Pre(e), k) : k \in KeptCells(e)}
       [] e.op = "add"          -> GeoCells(Post(e)) = GeoCells(e.pre[1]) \cup GeoCells(e.pre[2])
       [] e.op = "matmul"       -> /\ Len(e.post) = Len(e.pre)
                                   /\ \A j \in DOMAIN e.pre : GeoCells(e.post[j]) = GeoCells(e.pre[j])
       [] e.op \in SameCellsOps -> GeoCells(Post(e)) = GeoCells(Pre(e))
       [] e.op \in RigidOps     -> ImgExact(e) /\ GeoCells(Post(e)) = ImgSets(e, GeoCells(Pre(e)))
       [] e.op \in SplitOps     -> SplitOK(e)
       [] e.op = "extrude"      -> GeoCells(Post(e)) = {ProductCell(c1, c2) : c1 \in GeoCells(e.pre[1]),
                                                                                c2 \in GeoCells(e.pre[2])}
       [] e.op = "trace"        -> GeoCells(Post(e)) = {{Project(x, e.par.proj) : x \in PtsOf(Pre(e), e.par.fv[j])} :
                                                          j \in DOMAIN e.par.fv}
       [] OTHER                 -> TRUE

\* named deviation (extrusion ignores the cells of its line operands): mesh_tri_1.py:393-419 stacks the cross-section
\* between CONSECUTIVE SORTED POINTS of the line mesh, mesh_line_1.py:30-37 hands the raw points of both line meshes
\* to MeshQuad1.init_tensor - the cell lists of the line operands are never read.  When the result is exactly that
\* and differs from the product of the operands' cells (a line operand with a gap or an unused point), the failure is
\* reported under Deviation_ExtrusionIgnoresLineCells
LinePts(m)    == {m.p[v][1] : v \in DOMAIN m.p}
ConsecSegs(m) == {{<<a>>, <<b>>} : a, b \in LinePts(m)} \ {{<<a>>} : a \in LinePts(m)}
ConsecutiveSegments(m) == {sg \in ConsecSegs(m) :
                             LET lo == MinSet({x[1] : x \in sg}) hi == MaxSet({x[1] : x \in sg}) IN
                             ~\E c \in LinePts(m) : lo < c /\ c < hi}
CodeExtrudeCells(e) ==
  {ProductCell(c1, c2) : c1 \in (IF e.pre[1].kind = "line" THEN ConsecutiveSegments(e.pre[1]) ELSE GeoCells(e.pre[1])),
                         c2 \in ConsecutiveSegments(e.pre[2])}
ExtrusionIgnoresLineCells(e) ==
  /\ e.op = "extrude" /\ Len(e.pre) = 2 /\ e.pre[2].kind = "line"
  /\ GeoCells(Post(e)) = CodeExtrudeCells(e)
  /\ CodeExtrudeCells(e) # {ProductCell(c1, c2) : c1 \in GeoCells(e.pre[1]), c2 \in GeoCells(e.pre[2])}

MaxUsed(m)       == MaxSet(UsedVertices(m))
\* mesh_quad_1.py:150-183  the points and cells of to_meshtri exactly as the code builds them (as repaired by commit
\* e738c29): with style='x' the centre vertices are numbered from self.doflocs.shape[1] - behind ALL stored points,
\* where they are stored.  first = the number the first centre vertex gets, minus one.
ToMeshTriCellsFrom(m, style, first) ==
  LET nt == Len(m.t)
      nv == first
      col(rows, k) == [i \in DOMAIN rows |-> m.t[k][rows[i]]]
  IN [ t |-> IF style = "x"                                         \* 150-159
             THEN [q \in 1..(4 * nt) |->
                     LET blk == (q - 1) \div nt k == ((q - 1) % nt) + 1
                         rows == << <<1, 2>>, <<2, 3>>, <<3, 4>>, <<1, 4>> >>[blk + 1]
                     IN col(rows, k) \o <<nv + k>>]
             ELSE [q \in 1..(2 * nt) |->                            \* 161: hstack(t[[0,1,3]], t[[1,2,3]])
                     LET blk == (q - 1) \div nt k == ((q - 1) % nt) + 1
                     IN col(<< <<1, 2, 4>>, <<2, 3, 4>> >>[blk + 1], k)],
       p |-> IF style = "x"                                         \* 178-182: hstack(doflocs, mean of the four vertices)
             THEN m.p \o [k \in 1..nt |-> LET s == VSumSeq([i \in 1..4 |-> m.p[m.t[k][i]]]) IN
                                          [i \in DOMAIN s |-> s[i] \div 4]]
             ELSE m.p ]
ToMeshTriCells(m, style)    == ToMeshTriCellsFrom(m, style, Len(m.p))       \* 151-153: self.doflocs.shape[1]
\* REGRESSION MODEL (before e738c29): centre vertices numbered from np.max(self.t) + 1, the highest USED vertex + 1
ToMeshTriCellsOld(m, style) == ToMeshTriCellsFrom(m, style, MaxUsed(m))
\* mesh_tri_1.py:393-419  tri * line exactly as the code builds it (as repaired by commit e738c29): every layer stores
\* ALL points of the triangle mesh and the vertex numbers of a layer are shifted by that number (shift = p.shape[1])
ExtrudeTriLineCellsBy(m1, m2, shift) ==
  LET zs  == SortedSeq({m2.p[v][1] : v \in DOMAIN m2.p})             \* 401: np.sort(other.p[0])
      np  == Len(m1.p)
      nvu == shift
      nt  == Len(m1.t)
      nz  == Len(zs)
  IN [ p |-> [q \in 1..(np * nz) |-> m1.p[((q - 1) % np) + 1] \o <<zs[((q - 1) \div np) + 1]>>],      \* 402-406
       t |-> [q \in 1..(nt * (nz - 1)) |->                                                         \* 410-415
                LET i == (q - 1) \div nt k == ((q - 1) % nt) + 1 IN
                [j \in 1..3 |-> m1.t[k][j] + i * nvu] \o [j \in 1..3 |-> m1.t[k][j] + nvu + i * nvu]] ]
ExtrudeTriLineCells(m1, m2)    == ExtrudeTriLineCellsBy(m1, m2, Len(m1.p))      \* 412-416: self.p.shape[1]
\* REGRESSION MODEL (before e738c29): the shift was self.nvertices, the highest USED vertex + 1
ExtrudeTriLineCellsOld(m1, m2) == ExtrudeTriLineCellsBy(m1, m2, MaxUsed(m1))

\* ---------------------------------------------------------------------------
\* SameMeasure: exact integer measures * d!
Measure(m) == SumSeq([k \in DOMAIN m.t |-> CellVolAbs(m.kind, GeoCellSeq(m, k))])
Fact(n) == CASE n <= 1 -> 1 [] n = 2 -> 2 [] n = 3 -> 6
SameMeasure(e) ==
  CASE e.op \in SubsetOps -> Measure(Post(e)) = SumOver([k \in KeptCells(e) |->
                                                  CellVolAbs(Pre(e).kind, GeoCellSeq(Pre(e), k))], KeptCells(e))
    [] e.op = "add"       -> Measure(Post(e)) = Measure(e.pre[1]) + Measure(e.pre[2])
    [] e.op = "matmul"    -> \A j \in DOMAIN e.pre : j \in DOMAIN e.post /\ Measure(e.post[j]) = Measure(e.pre[j])
    [] e.op \in SameCellsOps \cup SplitOps \cup {"translated", "mirrored"} -> Measure(Post(e)) = Measure(Pre(e))
    [] e.op = "scaled"    -> Measure(Post(e)) * ProdSeq(e.par.fden) = Measure(Pre(e)) * Abs(ProdSeq(e.par.fnum))
    [] e.op = "morphed"   -> Measure(Post(e)) = Measure(Pre(e)) * Abs(DetRows(e.par.A))
    [] e.op = "extrude"   -> LET d1 == Dim(e.pre[1].kind) d2 == Dim(e.pre[2].kind) IN
                             Measure(Post(e)) * Fact(d1) * Fact(d2) = Measure(e.pre[1]) * Measure(e.pre[2]) * Fact(d1 + d2)
    [] OTHER              -> TRUE           \* trace: the measure of an embedded facet is not an integer; not judged

\* ---------------------------------------------------------------------------
\* SharedVertexStructure: vertices are shared exactly where cells touch - two different vertex ids used by cells of
\* a result never sit at the same point (with CellsAreExpectedPointSets this fixes the incidence structure);
\* the results of @ share one point array
SharedVertexStructure(e) ==
  /\ NeedNoDup(e) => \A j \in DOMAIN e.post :
                        \A u, v \in UsedVertices(e.post[j]) : u # v => e.post[j].p[u] # e.post[j].p[v]
  /\ e.op = "matmul" =>                     \* one point array, and the meshes meet in the SAME vertex ids
       /\ \A j \in DOMAIN e.post : e.post[j].p = e.post[1].p
       /\ LET used == UNION {UsedVertices(e.post[j]) : j \in DOMAIN e.post} IN
          \A u, v \in used : u # v => e.post[1].p[u] # e.post[1].p[v]

\* ---------------------------------------------------------------------------
\* tags.  Expected designation of a name after the operation, from the designation before it
ChildrenOf(e, C) == {GeoCell(Post(e), j) : j \in {jj \in DOMAIN Post(e).t : HasParent(e, jj) /\ GeoCell(Pre(e), ParentOf(e, jj)) \in C}}
ExpectedSub(e, n) ==
  LET D == SubDesig(Pre(e), n) IN
  CASE e.op \in SubsetOps    -> D \cap GeoCells(Post(e))
    [] e.op \in SameCellsOps -> D
    [] e.op \in RigidOps     -> ImgSets(e, D)
    [] e.op \in SplitOps     -> ChildrenOf(e, D)
    [] OTHER                 -> {}
ExpectedBnd(e, n) ==
  LET D == BndDesig(Pre(e), n) IN
  CASE e.op \in SubsetOps    -> D \cap GeoFacets(Post(e))
    [] e.op \in SameCellsOps -> D
    [] e.op \in RigidOps     -> ImgSets(e, D)
    [] e.op \in SplitOps     -> D \cap GeoFacets(Post(e))        \* every facet of a cell stays a facet of a child
    [] OTHER                 -> {}
PostSub(e, n) == IF n \in SubNames(Post(e)) THEN SubDesig(Post(e), n) ELSE {}
PostBnd(e, n) == IF n \in BndNames(Post(e)) THEN BndDesig(Post(e), n) ELSE {}
JudgeSub(e) == e.op \in CarryingOps /\ ~(e.op = "restrict" /\ e.par.skips = 1)
JudgeBnd(e) == e.op \in CarryingOps /\ ~(e.op = "restrict" /\ e.par.skipb = 1)

PostTagsInRange(e) == \A j \in DOMAIN e.post : TagIdsInRange(e.post[j])
\* an operand whose own tag arrays are out of range (left behind by an earlier step that is not judged here, e.g. a
\* refinement) gives the operation nothing well-defined to carry: the tag clauses are then not evaluated
PreTagsOK(e) == \A j \in DOMAIN e.pre : TagIdsInRange(e.pre[j])
\* every entity that was tagged and still exists is tagged with the same name
CarriedTagsSameDesignation(e) ==
  /\ PostTagsInRange(e)
  /\ JudgeSub(e) => \A n \in SubNames(Pre(e)) : ExpectedSub(e, n) \subseteq PostSub(e, n)
  /\ JudgeBnd(e) => \A n \in BndNames(Pre(e)) : ExpectedBnd(e, n) \subseteq PostBnd(e, n)
\* nothing else is: indices in range, tagged entities are entities of the result, no entity gains a name
RemovedEntitiesUntagged(e) ==
  /\ PostTagsInRange(e)
  /\ \A j \in DOMAIN e.post : TagsDesignateEntities(e.post[j])
  /\ e.op \in CarryingOps =>
       /\ \A n \in SubNames(Post(e)) : n \in SubNames(Pre(e)) /\ SubDesig(Post(e), n) \subseteq ExpectedSub(e, n)
       /\ \A n \in BndNames(Post(e)) : n \in BndNames(Pre(e)) /\ BndDesig(Post(e), n) \subseteq ExpectedBnd(e, n)
\* ---------------------------------------------------------------------------
\* IndexMapsRelateNewToOld
IndexMapsRelateNewToOld(e) ==
  CASE e.op = "restrict" ->                                   \* returned vertex map: new vertex i is old vertex ix[i]
         /\ Len(e.par.ix) = Len(Post(e).p)
         /\ \A i \in DOMAIN e.par.ix : e.par.ix[i] \in DOMAIN Pre(e).p /\ Post(e).p[i] = Pre(e).p[e.par.ix[i]]
    [] e.op = "trace" ->                                      \* returned facet ids: cell j of the trace is facet ret[j]
         /\ e.par.ret = e.par.facets /\ Len(Post(e).t) = Len(e.par.fv)
         /\ \A j \in DOMAIN e.par.fv : GeoCell(Post(e), j) = {Project(x, e.par.proj) : x \in PtsOf(Pre(e), e.par.fv[j])}
    [] e.op \in {"to_meshtri", "to_meshtri_x"} ->             \* x = cell ids comes back as the parent of each child
         e.par.xmap # <<>> => /\ Len(e.par.xmap) = Len(Post(e).t)
                              /\ \A j \in DOMAIN e.par.xmap : /\ e.par.xmap[j] \in DOMAIN Pre(e).t
                                                              /\ GeoCell(Post(e), j) \subseteq ParentPts(e, e.par.xmap[j])
    [] OTHER -> TRUE
\* oriented(): every simplex positively oriented; orientation(): the sign of each cell
OrientationPositive(e) ==
  e.op = "oriented" =>
    /\ \A k \in DOMAIN Post(e).t : CellSign(Post(e).kind, GeoCellSeq(Post(e), k)) = 1
    /\ Len(e.par.sign) = Len(Pre(e).t)
    /\ \A k \in DOMAIN Pre(e).t : e.par.sign[k] = CellSign(Pre(e).kind, GeoCellSeq(Pre(e), k))

OperandsUnchanged(e) == e.ck_pre = e.ck_post

SurgeryClauses(e) ==
  IF e.err # "" THEN [NoUnexpectedError |-> FALSE]
  ELSE IF e.op \in {"refine", "setup"} THEN [NoUnexpectedError |-> TRUE]   \* state change only (C12 judges refinement)
  ELSE IF ~SurgWellFormed(e) THEN [NoUnexpectedError |-> TRUE, WellFormed |-> FALSE]
  ELSE LET cells   == CellsAreExpectedPointSets(e)
           devExt  == ~cells /\ ExtrusionIgnoresLineCells(e)
       IN [ NoUnexpectedError |-> TRUE, WellFormed |-> TRUE,
            Valid |-> Valid(e),
            CellsAreExpectedPointSets |-> cells \/ devExt,
            SameMeasure |-> SameMeasure(e) \/ devExt,
            Deviation_ExtrusionIgnoresLineCells |-> ~devExt,
            SharedVertexStructure |-> SharedVertexStructure(e),
            CarriedTagsSameDesignation |-> PreTagsOK(e) => CarriedTagsSameDesignation(e),
            RemovedEntitiesUntagged |-> PreTagsOK(e) => RemovedEntitiesUntagged(e),
            IndexMapsRelateNewToOld |-> IndexMapsRelateNewToOld(e),
            OrientationPositive |-> OrientationPositive(e),
            OperandsUnchanged |-> OperandsUnchanged(e) ]

\* ===========================================================================
\* Part 2: transcriptions.  A tagged mesh is [kind, p, t, sub, bnd] (sub: <<[name, ids]>>, bnd: <<[name, ids]>>),
\* ids 1-based; Conn(m) gives the derived tables (ConnImpl of MeshTopology).
\* facets / t2f / f2t only: the np.unique semantics of Mesh.build_entities / build_inverse (mesh.py:1065-1100),
\* i.e. BuildEntitiesImpl / BuildInverseImpl of MeshTopology with the intermediate arrays evaluated once
\* (TLCEval) - MC_C18 ASSUMEs that both agree on its universe
ConnOfMesh(m) ==
  LET lf   == CodeLF(m.kind)
      nt   == Len(m.t)
      ns   == Len(lf)
      n    == ns * nt
      col  == TLCEval([q \in 1..n |-> Column(m.t, lf, ((q - 1) \div nt) + 1, ((q - 1) % nt) + 1)])   \* hstack order
      scol == TLCEval([q \in 1..n |-> SortTuple(col[q])])
      uniq == TLCEval(LexSortedSeq({scol[q] : q \in 1..n}))
      ixb  == TLCEval([q \in 1..n |-> CHOOSE u \in DOMAIN uniq : uniq[u] = scol[q]])
      tix(q) == ((q - 1) % nt) + 1
  IN [ facets |-> IF m.kind # "hex" THEN uniq ELSE [u \in DOMAIN uniq |-> col[FirstPos(ixb, u)]],
       t2f    |-> [k \in 1..nt |-> [s \in 1..ns |-> ixb[(s - 1) * nt + k]]],
       f2t    |-> [f \in DOMAIN uniq |-> LET a == tix(FirstPos(ixb, f)) b == tix(LastPos(ixb, f)) IN
                                          IF a = b THEN <<a, 0>> ELSE <<a, b>>] ]
ConnOfMeshSlow(m) ==
  LET fe == BuildEntitiesImpl(m.t, CodeLF(m.kind), m.kind # "hex") IN
  [facets |-> fe.ents, t2f |-> fe.mapping, f2t |-> BuildInverseImpl(Len(m.t), fe.mapping, Len(fe.ents))]

\* ascending sort of a sequence of integers, repetitions kept (np.sort)
RECURSIVE SortInts2(_)
SortInts2(q) == IF q = <<>> THEN <<>>
                ELSE LET mn == MinSet(VSet(q)) i == FirstPos(q, mn)
                     IN <<mn>> \o SortInts2(SubSeq(q, 1, i - 1) \o SubSeq(q, i + 1, Len(q)))
\* np.unique of the entries of a sequence of cells: ascending sequence
UniqueEntries(cells) == SortedSeq(UNION {VSet(cells[k]) : k \in DOMAIN cells})
PosIn(seq, x) == CHOOSE i \in DOMAIN seq : seq[i] = x

\* mesh.py:1111-1120  _reix(ix): ixuniq = np.unique(ix); t[ixuniq] = arange; return p[:, ixuniq], t[ix], ixuniq
ReixImpl(p, cells) ==
  LET ixuniq == UniqueEntries(cells) IN
  [ p  |-> [i \in DOMAIN ixuniq |-> p[ixuniq[i]]],
    t  |-> [k \in DOMAIN cells |-> [i \in DOMAIN cells[k] |-> PosIn(ixuniq, cells[k][i])]],
    ix |-> ixuniq ]

\* mesh.py:1146-1203  restrict(elements); c = derived tables of tm
RestrictImpl(tm, c, elements) ==
  LET r    == ReixImpl(tm.p, [j \in DOMAIN elements |-> tm.t[elements[j]]])                 \* 1167
      \* 1172-1179: newt[elements] = arange; newt[np.intersect1d(sub, elements)]
      newsub(s) == LET common == SortedSeq(VSet(s.ids) \cap VSet(elements)) IN
                   [name |-> s.name, ids |-> [j \in DOMAIN common |-> PosIn(elements, common[j])]]
      \* 1184-1191: facets = np.unique(t2f[:, elements]); newf[facets] = arange; newf[b]; keep >= 0
      facets == SortedSeq(UNION {VSet(c.t2f[elements[j]]) : j \in DOMAIN elements})
      newbnd(b) == LET kept == SelectSeq(b.ids, LAMBDA f : f \in VSet(facets)) IN
                   [name |-> b.name, ids |-> [j \in DOMAIN kept |-> PosIn(facets, kept[j])]]
  IN [ tm |-> [kind |-> tm.kind, p |-> r.p, t |-> r.t,
               sub |-> [i \in DOMAIN tm.sub |-> newsub(tm.sub[i])],
               bnd |-> [i \in DOMAIN tm.bnd |-> newbnd(tm.bnd[i])]],
       ix |-> r.ix ]
\* mesh.py:1205-1218  remove_elements: restrict(np.setdiff1d(arange(nt), elements))
RemoveElementsImpl(tm, c, elements) == RestrictImpl(tm, c, SortedSeq(DOMAIN tm.t \ VSet(elements)))

\* mesh.py:659-664  _remove_duplicate_nodes: np.unique over the points as structured rows (lexicographic order),
\* ixa = first occurrence, ixb = inverse
RemoveDupImpl(p, t) ==
  LET uniq == LexSortedSeq(VSet(p))
      ixb(v) == PosIn(uniq, p[v])
  IN [p |-> uniq, t |-> [k \in DOMAIN t |-> [i \in DOMAIN t[k] |-> ixb(t[k][i])]]]
\* mesh.py:700-708  __add__ (coordinates are integers: round(decimals=8) is the identity); tags are not carried
AddImpl(m1, m2) ==
  LET n1 == Len(m1.p)
      r  == RemoveDupImpl(m1.p \o m2.p, m1.t \o [k \in DOMAIN m2.t |-> [i \in DOMAIN m2.t[k] |-> m2.t[k][i] + n1]])
  IN [kind |-> m1.kind, p |-> r.p, t |-> r.t, sub |-> <<>>, bnd |-> <<>>]
\* mesh.py:1230-1263  remove_duplicate_nodes (as repaired by commits 0832543 and 229e2bb): p, t as above; the named
\* boundaries are renumbered with the vertices - facet f becomes the facet of the result whose (sorted) vertices are
\* ixb[facets[f]], and np.unique lists every facet once (two tagged copies of a facet may have been merged);
\* sub-domains are kept (cells keep their order).  c = tables of tm, ConnT(_) computes those of the result.
\* (0 stands for the KeyError of the dictionary lookup: only possible when a facet collapses)
RemoveDuplicateNodesImpl(tm, c, ConnT(_)) ==
  LET r    == RemoveDupImpl(tm.p, tm.t)
      uniq == r.p
      ixb(v) == PosIn(uniq, tm.p[v])
      out  == [tm EXCEPT !.p = r.p, !.t = r.t]
      c2   == ConnT(out)
      newf(f) == LET key == {ixb(c.facets[f][q]) : q \in DOMAIN c.facets[f]} IN
                 IF \E g \in DOMAIN c2.facets : VSet(c2.facets[g]) = key
                 THEN CHOOSE g \in DOMAIN c2.facets : VSet(c2.facets[g]) = key ELSE 0
  IN [ tm |-> [out EXCEPT !.bnd = [i \in DOMAIN tm.bnd |->
                                     [name |-> tm.bnd[i].name,
                                      ids  |-> SortedSeq({newf(tm.bnd[i].ids[j]) : j \in DOMAIN tm.bnd[i].ids})]]],
       c |-> c2 ]
\* REGRESSION MODEL: remove_duplicate_nodes before commit 0832543 (finding #15) - replace(self, doflocs=p, t=t): the
\* tag arrays were kept verbatim although the vertices, hence the facets, are renumbered.  MC_C18_dup.cfg must keep
\* refuting it.
RemoveDuplicateNodesImplOld(tm) ==
  LET r == RemoveDupImpl(tm.p, tm.t) IN [tm EXCEPT !.p = r.p, !.t = r.t]
\* mesh.py:1220-1226  remove_unused_nodes
RemoveUnusedNodesImpl(tm) ==
  LET r == ReixImpl(tm.p, tm.t) IN [tm EXCEPT !.p = r.p, !.t = r.t]

\* (ToMeshTriCells / ExtrudeTriLineCells - the points and cells of to_meshtri and tri * line - are defined in part 1)
\* mesh_quad_1.py:135-211  to_meshtri; c = tables of the quadrilateral mesh, ConnT(_) computes those of the result
\* old = "" : the current code; "counts" / "repeat" : the regression models (cells before e738c29, lookup before 229e2bb)
ToMeshTriImplWith(tm, c, style, ConnT(_), old) ==
  LET nt == Len(tm.t)
      cells == IF old = "counts" THEN ToMeshTriCellsOld(tm, style) ELSE ToMeshTriCells(tm, style)
      t  == cells.t
      p  == cells.p
      nb == IF style = "x" THEN 4 ELSE 2
      sub == [i \in DOMAIN tm.sub |->                               \* 165-176: concatenate(v, v + nt, ...)
                [name |-> tm.sub[i].name,
                 ids  |-> FlattenSeq([b \in 1..nb |-> [j \in DOMAIN tm.sub[i].ids |-> tm.sub[i].ids[j] + (b - 1) * nt]])]]
      m2 == [kind |-> "tri", p |-> p, t |-> t]
      c2 == ConnT(m2)
      \* 186-195 (as repaired by commit 229e2bb): for f in self.facets.T[np.unique(boundaries[k])]: the slot of
      \* mesh.facets equal to f - ONE iterator over the slots is shared by all lookups of a name, which is sound for
      \* ascending, pairwise different facet ids (both facet tables are in lexicographic order)
      bnd == [i \in DOMAIN tm.bnd |->
                LET fs == SortedSeq(VSet(tm.bnd[i].ids)) IN
                [name |-> tm.bnd[i].name,
                 ids  |-> [j \in DOMAIN fs |-> FirstPos(c2.facets, c.facets[fs[j]])]]]
      \* REGRESSION MODEL (before 229e2bb): np.sort instead of np.unique - a facet id listed twice is looked up twice,
      \* the second time behind the slot the shared iterator has already passed: StopIteration (0 here)
      bndOld == [i \in DOMAIN tm.bnd |->
                LET fs == SortInts2(tm.bnd[i].ids) IN
                [name |-> tm.bnd[i].name,
                 ids  |-> [j \in DOMAIN fs |-> IF j > 1 /\ fs[j] = fs[j - 1] THEN 0
                                               ELSE FirstPos(c2.facets, c.facets[fs[j]])]]]
      b2  == IF old = "repeat" THEN bndOld ELSE bnd
  IN [tm |-> m2 @@ [sub |-> IF tm.sub = <<>> THEN <<>> ELSE sub, bnd |-> IF tm.bnd = <<>> THEN <<>> ELSE b2], c |-> c2]
ToMeshTriImpl(tm, c, style, ConnT(_)) == ToMeshTriImplWith(tm, c, style, ConnT, "")

\* mesh_hex_1.py:157-168 / mesh_wedge_1.py:37-46  to_meshtet; tags are not carried
HexTetRows   == << <<1,2,4,5>>, <<1,4,3,5>>, <<3,4,5,7>>, <<4,5,7,8>>, <<4,5,6,8>>, <<2,4,5,6>> >>
WedgeTetRows == << <<1,2,3,4>>, <<2,3,4,5>>, <<3,4,5,6>> >>
ToMeshTetImpl(tm) ==
  LET rows == IF tm.kind = "hex" THEN HexTetRows ELSE WedgeTetRows
      nt   == Len(tm.t)
  IN [kind |-> "tet", p |-> tm.p, sub |-> <<>>, bnd |-> <<>>,
      t |-> [q \in 1..(Len(rows) * nt) |->
               LET blk == (q - 1) \div nt k == ((q - 1) % nt) + 1 IN
               [i \in 1..4 |-> tm.t[k][rows[blk + 1][i]]]]]
==============================================================================
