SPECIFICATION Spec
CONSTANT Which = "main"
CONSTANT Tier = "thorough"
INVARIANT FindOKHolds
CHECK_DEADLOCK FALSE
