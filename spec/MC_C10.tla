------------------------------- MODULE MC_C10 -------------------------------
(* Design-level check for C10 (normals):                                       *)
(*  RefTables   the specification's reference normals are, for every local     *)
(*              facet slot of the library's facet tables, orthogonal to the    *)
(*              facet and strictly outward (the clause RefNormalsOutward that   *)
(*              also judges the tables read from the code).                    *)
(*  SlotChoice  the mechanism "normal = inverse-transpose Jacobian applied to  *)
(*              the reference normal of the matching local slot" (mapping_     *)
(*              affine.py:255-281) gives, in exact integer arithmetic, a vector *)
(*              orthogonal to the facet and pointing out of the cell for EVERY *)
(*              simplex of the lattice universes under EVERY local vertex      *)
(*              order (orientation-reversing ones included) and every slot --  *)
(*              and any other slot's reference normal does not.                *)
EXTENDS Mappings, MC_Universe

SpecRefVerts(kind) ==
  CASE kind = "line" -> << <<0>>, <<1>> >>
    [] kind = "tri"  -> << <<0,0>>, <<1,0>>, <<0,1>> >>
    [] kind = "tet"  -> << <<0,0,0>>, <<1,0,0>>, <<0,1,0>>, <<0,0,1>> >>
    [] kind = "quad" -> << <<0,0>>, <<1,0>>, <<1,1>>, <<0,1>> >>
    [] kind = "hex"  -> RefHexOff
    [] kind = "wedge" -> << <<0,0,0>>, <<1,0,0>>, <<0,1,0>>, <<0,0,1>>, <<1,0,1>>, <<0,1,1>> >>
SpecRefNormals(kind) ==
  CASE kind = "line" -> << <<-1>>, <<1>> >>
    [] kind = "tri"  -> << <<0,-1>>, <<1,1>>, <<-1,0>> >>
    [] kind = "tet"  -> << <<0,0,-1>>, <<0,-1,0>>, <<-1,0,0>>, <<1,1,1>> >>
    [] kind = "quad" -> << <<0,-1>>, <<1,0>>, <<0,1>>, <<-1,0>> >>
    [] kind = "hex"  -> << <<1,0,0>>, <<0,0,1>>, <<0,1,0>>, <<0,-1,0>>, <<0,0,-1>>, <<-1,0,0>> >>
    [] kind = "wedge" -> << <<0,-1,0>>, <<1,1,0>>, <<-1,0,0>>, <<0,0,-1>>, <<0,0,1>> >>
RefEvent(kind) == [a |-> "RefDom", kind |-> kind, refv |-> SpecRefVerts(kind), lf |-> CodeLF(kind),
                   normals |-> SpecRefNormals(kind), err |-> ""]
RefTables == \A kind \in {"line", "tri", "tet", "quad", "hex", "wedge"} : RefNormalsOutward(RefEvent(kind))
ASSUME RefTables

\* det * A^{-T} N  =  sum_a N_a * (det * grad xi_a),  grad xi_a = grad lambda_(a+1)
RawNormal(vs, N) ==
  LET g == DetGradLambda(vs) d == Len(vs) - 1 IN
  [i \in 1..d |-> ISumAll([a \in 1..d |-> N[a] * g[a + 1][i]])]
\* the code divides by det before normalising: the direction is sign(det) * raw
NormalDir(vs, N) == LET s == Sgn(SimplexDet(vs)) IN [i \in DOMAIN N |-> s * RawNormal(vs, N)[i]]
GoodNormal(vs, L, n) ==       \* orthogonal to the facet with local vertices L, strictly outward
  /\ \A a, b \in L : VDot(n, VSub(vs[a], vs[b])) = 0
  /\ \A v \in (1..Len(vs)) \ L : \A a \in L : VDot(n, VSub(vs[v], vs[a])) < 0
SlotChoice(kind, vs) ==
  \A s \in DOMAIN CodeLF(kind) :
     LET L == VSet(CodeLF(kind)[s]) IN
     /\ GoodNormal(vs, L, NormalDir(vs, SpecRefNormals(kind)[s]))
     /\ \A s2 \in DOMAIN CodeLF(kind) : s2 # s => ~GoodNormal(vs, L, NormalDir(vs, SpecRefNormals(kind)[s2]))

PermsOf(n) == {f \in [1..n -> 1..n] : \A i, j \in 1..n : i # j => f[i] # f[j]}
TriCellsAll == UNION {{Pick(LatP, TriCells(dg)[k]) : k \in 1..8} : dg \in [1..4 -> {0, 1}]}
                 \cup {<< <<0,0>>, <<4,1>>, <<1,3>> >>, << <<5,2>>, <<0,1>>, <<3,7>> >>}
TetCellsAll == {Pick(CubeP, Kuhn[k]) : k \in 1..6} \cup {Pick(CubeP, Five[k]) : k \in 1..5}
                 \cup {<< <<0,0,1>>, <<2,0,0>>, <<1,3,0>>, <<1,1,2>> >>}
Jobs == {<<"tri", [i \in 1..3 |-> c[f[i]]]>> : c \in TriCellsAll, f \in PermsOf(3)}
        \cup {<<"tet", [i \in 1..4 |-> c[f[i]]]>> : c \in TetCellsAll, f \in PermsOf(4)}
        \cup {<<"line", << <<1>>, <<4>> >> >>, <<"line", << <<4>>, <<1>> >> >>}

VARIABLE job
Init == job \in Jobs
Next == UNCHANGED job
Spec == Init /\ [][Next]_job
NormalSlotChoice == SlotChoice(job[1], job[2])
==============================================================================
