------------------------------- MODULE MC_C14 -------------------------------
(* Design-level check of C14: for every mesh of the universes below and every  *)
(* lattice / half-lattice query point (inside, on vertices, on facets, outside *)
(* by >= 1/2), alone or in a batch with an anchor point, the transcription     *)
(* FindImpl of the element finders satisfies FindOK and RaisesOutside.         *)
(* The universes contain graded meshes on which the containing cell is NOT     *)
(* among the k nearest centroids (fallback path).  Coordinates are doubled so  *)
(* that half-lattice points are integers.                                      *)
(* Which = "main": all universes, incl. 1-D meshes with several components     *)
(* (ordinary inputs since fix 6d9cf06) - must hold.  Which = "linecomp" with    *)
(* LineAlgo = "prerepair": regression model of the 1-D finder before the fix    *)
(* (DESIGN section 7, #16): TLC must refute FindOK there.                       *)
EXTENDS Locate, MC_Universe

CONSTANTS Which, Tier, LineAlgo

\* ---- tensor-product meshes over coordinate sequences (already doubled) ----
TId2(nx, a, b) == (b - 1) * nx + a
TensorP2(xs, ys) == [v \in 1..(Len(xs) * Len(ys)) |-> <<xs[((v - 1) % Len(xs)) + 1], ys[((v - 1) \div Len(xs)) + 1]>>]
TensorQuad(xs, ys) ==
  LET nx == Len(xs)  ny == Len(ys) IN
  [kind |-> "quad", p |-> TensorP2(xs, ys),
   t |-> [c \in 1..((nx - 1) * (ny - 1)) |->
            LET a == ((c - 1) % (nx - 1)) + 1  b == ((c - 1) \div (nx - 1)) + 1 IN
            <<TId2(nx, a, b), TId2(nx, a + 1, b), TId2(nx, a + 1, b + 1), TId2(nx, a, b + 1)>>]]
\* every square split by the diagonal d (0: '/', 1: '\')
TensorTri(xs, ys, d) ==
  LET q == TensorQuad(xs, ys) IN
  [kind |-> "tri", p |-> q.p,
   t |-> FlattenSeq([c \in DOMAIN q.t |->
           LET s == q.t[c] IN
           IF (d + c) % 2 = 0 THEN << <<s[1], s[2], s[3]>>, <<s[1], s[3], s[4]>> >>
                              ELSE << <<s[1], s[2], s[4]>>, <<s[2], s[3], s[4]>> >>])]
TId3(nx, ny, a, b, c) == ((c - 1) * ny + (b - 1)) * nx + a
TensorHex(xs, ys, zs) ==
  LET nx == Len(xs)  ny == Len(ys)  nz == Len(zs) IN
  [kind |-> "hex",
   p |-> [v \in 1..(nx * ny * nz) |-> <<xs[((v - 1) % nx) + 1], ys[(((v - 1) \div nx) % ny) + 1], zs[((v - 1) \div (nx * ny)) + 1]>>],
   t |-> [c \in 1..((nx - 1) * (ny - 1) * (nz - 1)) |->
            LET a == ((c - 1) % (nx - 1)) + 1
                b == (((c - 1) \div (nx - 1)) % (ny - 1)) + 1
                g == ((c - 1) \div ((nx - 1) * (ny - 1))) + 1
            IN [n \in 1..8 |-> TId3(nx, ny, a + RefHexOff[n][1], b + RefHexOff[n][2], g + RefHexOff[n][3])]]]
\* tetrahedra: the six-fold split of every box (the split of MeshHex1.to_meshtet)
TensorTet(xs, ys, zs) == SplitMesh(TensorHex(xs, ys, zs))
\* prisms: triangles of the (x, y) grid extruded along z
TensorWedge(xs, ys, zs, d) ==
  LET tr == TensorTri(xs, ys, d)  nv == Len(tr.p)  nz == Len(zs) IN
  [kind |-> "wedge",
   p |-> [v \in 1..(nv * nz) |-> <<tr.p[((v - 1) % nv) + 1][1], tr.p[((v - 1) % nv) + 1][2], zs[((v - 1) \div nv) + 1]>>],
   t |-> FlattenSeq([g \in 1..(nz - 1) |->
           [c \in DOMAIN tr.t |-> [j \in 1..6 |-> IF j <= 3 THEN tr.t[c][j] + (g - 1) * nv
                                                            ELSE tr.t[c][j - 3] + g * nv]]])]

Pick(m, S) == [m EXCEPT !.t = [j \in 1..Cardinality(S) |-> m.t[SortedSeq(S)[j]]]]
MoveVertex(m, v, q) == [m EXCEPT !.p[v] = q]
Strip(m) == [kind |-> m.kind, p |-> m.p, t |-> m.t]
Doubled(m) == [kind |-> m.kind, t |-> m.t, p |-> [v \in DOMAIN m.p |-> [c \in DOMAIN m.p[v] |-> 2 * m.p[v][c]]]]
Renum(m) == Strip(ReverseCells(Renumber([kind |-> m.kind, nv |-> Len(m.p), p |-> m.p, t |-> m.t], RotateBy(Len(m.p), 2))))

\* coordinate sets of the query points (doubled coordinates): the half lattice over the bounding box +- 1
Half(lo, hi) == (2 * lo - 2)..(2 * hi + 2)
Graded  == <<0, 32, 34, 36, 38, 40>>                \* one large cell next to four thin ones (x direction)
GradedQ == {-2, -1, 0, 1, 16, 29, 30, 31, 32, 33, 34, 35, 37, 38, 39, 40, 41, 42}
CoarseQ == {-2, 0, 1, 16, 31, 32, 33}

\* [m |-> mesh, Q |-> set of query points, A |-> anchor points used to form batches]
Entry(m, Q, A) == [m |-> m, Q |-> Q, A |-> A]
Grid2(X, Y) == {<<x, y>> : x \in X, y \in Y}
Grid3(X, Y, Z) == {<<x, y, z>> : x \in X, y \in Y, z \in Z}

LShape == {1, 2, 3, 4, 5, 6}                         \* 3x3 lattice triangles without one square: non-convex domain
MainUniverse ==
  LET lat == <<0, 2, 4>> IN
  {  \* ---- 1-D: connected meshes, any vertex numbering / cell order
     Entry(Doubled(Strip(mm)), {<<x>> : x \in Half(0, 4)}, {<<3>>}) :
        mm \in WithNumberings({SubMesh("line", LineP, LineCells, S) : S \in {{1}, {1, 2}, {2, 3, 4}, {1, 2, 3, 4}}}) }
  \cup { \* ---- triangles: lattice (both diagonal patterns), L-shaped sub-domain, renumbered, jiggled centre
     Entry(TensorTri(lat, lat, 0), Grid2(Half(0, 2), Half(0, 2)), {<<1, 1>>}),
     Entry(TensorTri(lat, lat, 1), Grid2(Half(0, 2), Half(0, 2)), {<<3, 1>>}),
     Entry(Pick(TensorTri(lat, lat, 0), LShape), Grid2(Half(0, 2), Half(0, 2)), {<<1, 1>>}),
     Entry(Renum(MoveVertex(TensorTri(lat, lat, 1), 5, <<3, 2>>)), Grid2(Half(0, 2), Half(0, 2)), {<<1, 1>>}),
     \* graded: the containing large cell is not among the 5 nearest centroids
     Entry(TensorTri(Graded, <<0, 32>>, 0), Grid2(GradedQ, CoarseQ), {<<31, 16>>}),
     Entry(Renum(TensorTri(Graded, <<0, 32>>, 1)), Grid2(GradedQ, CoarseQ), {<<31, 16>>}) }
  \cup { \* ---- quadrilaterals: lattice, jiggled (general convex cells), graded, cyclically shifted
     Entry(TensorQuad(lat, lat), Grid2(Half(0, 2), Half(0, 2)), {<<1, 1>>}),
     Entry(Renum(MoveVertex(TensorQuad(lat, lat), 5, <<3, 2>>)), Grid2(Half(0, 2), Half(0, 2)), {<<1, 1>>}),
     Entry(TensorQuad(<<0, 32, 33, 34, 35, 36, 37, 38>>, <<0, 32>>), Grid2(GradedQ, CoarseQ), {<<31, 16>>}),
     Entry([TensorQuad(lat, lat) EXCEPT !.t = [c \in 1..4 |-> ShiftCell(@[c], c - 1)]], Grid2(Half(0, 2), Half(0, 2)), {<<1, 1>>}) }
  \cup { \* ---- tetrahedra: one and two cubes (six-fold and five-fold splits), graded slabs
     Entry(Doubled(Strip(SubMesh("tet", CubeP, Kuhn, 1..6))), Grid3(Half(0, 1), Half(0, 1), Half(0, 1)), {<<1, 1, 1>>}),
     Entry(Doubled(Strip(SubMesh("tet", CubeP, Five, 1..5))), Grid3(Half(0, 1), Half(0, 1), Half(0, 1)), {<<1, 1, 1>>}),
     Entry(Doubled(Strip(SubMesh("tet", CubeP, Kuhn, {1, 2, 5}))), Grid3(Half(0, 1), Half(0, 1), Half(0, 1)), {<<1, 1, 1>>}),
     Entry(TensorTet(Graded, <<0, 32>>, <<0, 32>>), Grid3(GradedQ, {-2, 0, 16, 32, 33}, {0, 1, 16, 33}), {<<31, 16, 16>>}) }
  \cup { \* ---- hexahedra and prisms
     Entry(TensorHex(lat, lat, <<0, 2>>), Grid3(Half(0, 2), Half(0, 2), {-1, 0, 1, 2, 3}), {<<1, 1, 1>>}),
     Entry(TensorHex(Graded, <<0, 32>>, <<0, 32>>), Grid3(GradedQ, {-2, 0, 16, 32, 33}, {0, 1, 16, 33}), {<<31, 16, 16>>}),
     Entry(TensorWedge(lat, <<0, 2>>, lat, 0), Grid3(Half(0, 2), {-1, 0, 1, 2, 3}, Half(0, 2)), {<<1, 1, 1>>}),
     Entry(TensorWedge(<<0, 32, 33, 34, 35, 36>>, <<0, 32>>, <<0, 32>>, 1), Grid3(GradedQ, {-2, 0, 16, 32, 33}, {0, 1, 16, 33}), {<<31, 16, 16>>}) }

LineCompUniverse ==
  { Entry(Doubled(Strip(mm)), {<<x>> : x \in Half(0, 4)}, {}) :
      mm \in WithNumberings({SubMesh("line", LineP, LineCells, S) : S \in {{1, 3}, {1, 4}, {1, 2, 4}, {1, 3, 4}, {2, 4}}}) }

Universe == IF Which = "main" THEN MainUniverse \cup LineCompUniverse ELSE LineCompUniverse
USeq == SetToSeq(Universe)
ASSUME \A j \in DOMAIN USeq : MeshInScope(USeq[j].m)

\* quick tier: a deterministic thinning of the query points (every anchor is kept); thorough: everything
Hash(q) == SumSeq([c \in DOMAIN q |-> (2 * c + 3) * q[c]])
Keep(q, r) == Tier = "thorough" \/ Hash(q) % r = 0
BatchesOf(u) ==
  LET r == IF Len(CHOOSE q \in u.Q : TRUE) = 3 THEN 6 ELSE 3 IN
  {<<q>> : q \in {x \in u.Q : Keep(x, r)} \cup u.A}
  \cup {<<q, a>> : q \in {x \in u.Q : Keep(x, 12)}, a \in u.A}
  \cup {<<a, q, q>> : q \in {x \in u.Q : Keep(x, 12)}, a \in u.A}

\* export for replay on the real finders (spec -> code)
ExportOf(u) == [kind |-> u.m.kind, p |-> u.m.p, t |-> u.m.t, batches |-> SetToSeq(BatchesOf(u))]
ASSUME IOEnv.OUT_FILE = "" \/ JsonSerialize(IOEnv.OUT_FILE, [j \in DOMAIN USeq |-> ExportOf(USeq[j])])

VARIABLES ui, pts, out
vars == <<ui, pts, out>>

Init == ui \in DOMAIN USeq /\ pts \in BatchesOf(USeq[ui]) /\ out = <<>>
Compute == /\ out = <<>>
           /\ out' = IF USeq[ui].m.kind = "line" /\ LineAlgo = "prerepair"
                     THEN FindLineImplPreRepair(USeq[ui].m, pts) ELSE FindImpl(USeq[ui].m, pts)
           /\ UNCHANGED <<ui, pts>>
Spec == Init /\ [][Compute]_vars

FindOKHolds ==
  out # <<>> =>
    LET m == USeq[ui].m
        ct == ContainingAll(m, pts) IN
    /\ FindWellFormed(m, pts, out.res, out.err)
    /\ FindOK(m, pts, out.res, out.err, ct)
    /\ PointsOfTheDomainAreFound(m, pts, out.err, ct)
    /\ RaisesOutside(m, pts, out.err, ct)
==============================================================================
