--------------------------------- MODULE Fx ---------------------------------
(* Exact fixed-point numbers for "mode L" (laws on float observations).       *)
(* TLC has 32-bit integers and no reals, so a recorded float x (converted     *)
(* exactly by the harness: fractions.Fraction(float)) is represented as        *)
(*        x = a[1] + a[2]/B + a[3]/B^2 + a[4]/B^3 + a[5]/B^4,   B = 2^14       *)
(* i.e. big-endian limbs, resolution 2^-56, rounded to nearest by the harness. *)
(* Normal form: a[2..5] in 0..B-1, a[1] any integer (it carries the sign, as   *)
(* in two's complement) with |a[1]| < 2^30.  All operators keep every          *)
(* intermediate below 2^31.                                                     *)
EXTENDS Integers, Sequences

B  == 16384
NL == 5                                   \* number of limbs

FxInt(n)  == <<n, 0, 0, 0, 0>>
FxZero    == FxInt(0)

\* carry propagation, least significant limb first; input limbs may be any integers < 2^30 in size
RECURSIVE FxNormFrom(_, _, _)
FxNormFrom(a, i, carry) ==
  IF i = 1 THEN [a EXCEPT ![1] = a[1] + carry]
  ELSE LET v == a[i] + carry
           q == v \div B                  \* floor division (TLC: floor for positive divisor)
           r == v - q * B
       IN FxNormFrom([a EXCEPT ![i] = r], i - 1, q)
FxNorm(a) == FxNormFrom(a, NL, 0)

FxAdd(a, b) == FxNorm([i \in 1..NL |-> a[i] + b[i]])
FxSub(a, b) == FxNorm([i \in 1..NL |-> a[i] - b[i]])
FxNeg(a)    == FxSub(FxZero, a)
FxIsNonNeg(a) == a[1] >= 0                \* normal form: the top limb carries the sign
FxLeq(a, b) == FxIsNonNeg(FxSub(b, a))
FxAbs(a)    == IF FxIsNonNeg(a) THEN a ELSE FxNeg(a)

\* |a - b| <= tol  (tol a non-negative Fx)
FxNear(a, b, tol) == LET d == FxSub(a, b) IN FxLeq(d, tol) /\ FxLeq(FxNeg(tol), d)

\* multiplication by a small integer, |k| <= 2^15, requires |a[1]*k| < 2^30
FxMulSmall(a, k) == FxNorm([i \in 1..NL |-> a[i] * k])
\* floor division by a small positive integer d <= 2^16 (short division from the top; error < 2^-56)
RECURSIVE FxDivFrom(_, _, _, _)
FxDivFrom(a, d, i, rem) ==
  IF i > NL THEN a
  ELSE LET v == rem * B + a[i]
           q == v \div d
       IN FxDivFrom([a EXCEPT ![i] = q], d, i + 1, v - q * d)
FxDivSmall(a, d) == LET q == a[1] \div d IN FxDivFrom([a EXCEPT ![1] = q], d, 2, a[1] - q * d)

\* rational n/d with |n| < 2^30, 0 < d <= 2^16
FxRat(n, d) == FxDivSmall(FxInt(n), d)
\* 2^-k for 0 <= k <= 56
FxPow2Neg(k) == IF k % 14 = 0
                THEN [i \in 1..NL |-> IF i = (k \div 14) + 1 THEN 1 ELSE 0]
                ELSE [i \in 1..NL |-> IF i = (k \div 14) + 2 THEN 2 ^ (14 - (k % 14)) ELSE 0]
FxTol(k) == FxPow2Neg(k)

RECURSIVE FxSumSeq(_)
FxSumSeq(s) == IF s = <<>> THEN FxZero ELSE FxAdd(Head(s), FxSumSeq(Tail(s)))

\* well-formedness of a logged number
FxWF(a) == /\ Len(a) = NL /\ \A i \in 2..NL : a[i] \in 0..(B - 1)
           /\ a[1] \in -1073741824..1073741823
==============================================================================
