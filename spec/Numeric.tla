------------------------------- MODULE Numeric -------------------------------
(* The numeric layer of the scikit-fem specification (mode L oracles).        *)
(*                                                                             *)
(*  Part 1  fixed-point helpers on top of Fx (full product FxMul, scaling)     *)
(*  Part 2  reference cells: exact monomial moments RefMoment(cell, alpha)     *)
(*          produced directly as Fx limb vectors, measures, monomial sets,     *)
(*          named tolerances                                   (C08, C02)      *)
(*  Part 3  small exact rationals <<n, d>> and the same closed forms as        *)
(*          rationals (design-level cross-checks, reference element tables)    *)
(*                                                                             *)
(* All operators keep every intermediate below 2^31 on the stated domains.     *)
EXTENDS Prelude, Fx

\* ===========================================================================
\* Part 1 -- fixed point
\* ===========================================================================

\* one unit in the last place (2^-56) times k
FxUlp(k) == <<0, 0, 0, 0, k>>

\* carry propagation for a limb vector of any length (least significant limb first)
RECURSIVE NormLimbs(_, _, _)
NormLimbs(a, i, carry) ==
  IF i = 1 THEN [a EXCEPT ![1] = a[1] + carry]
  ELSE LET v == a[i] + carry
           q == v \div B
       IN NormLimbs([a EXCEPT ![i] = v - q * B], i - 1, q)

\* full product of two Fx numbers in normal form, |a[1]|, |b[1]| <= 2^13.
\* schoolbook: position p (weight B^(1-p)) collects a[i]*b[j] with i+j-1 = p; every partial
\* sum is below 5*2^28 < 2^31.  Positions 6..9 are carried into position 5 and dropped (floor):
\* the result is below the exact product by less than one unit of 2^-56.
RECURSIVE ConvSum(_, _, _, _, _)
ConvSum(a, b, p, i, hi) == IF i > hi THEN 0 ELSE a[i] * b[p + 1 - i] + ConvSum(a, b, p, i + 1, hi)
FxMul(a, b) ==
  LET raw == [p \in 1..(2 * NL - 1) |-> ConvSum(a, b, p, Max2(1, p + 1 - NL), Min2(NL, p))]
      n   == NormLimbs(raw, 2 * NL - 1, 0)
  IN [p \in 1..NL |-> n[p]]
FxSq(a) == FxMul(a, a)
FxMulOK(a) == a[1] \in -8192..8192

\* sum / dot products of short sequences of Fx numbers
FxDot(u, v) == FxSumSeq([i \in DOMAIN u |-> FxMul(u[i], v[i])])

\* a / 2^k for small k (k <= 14)
FxHalve(a, k) == FxDivSmall(a, 2 ^ k)

\* an exact integer n/scale given as an integer numerator with a power-of-two (or small) scale
FxOfScaled(n, scale) == FxRat(n, scale)

\* ===========================================================================
\* Part 2 -- reference cells
\* ===========================================================================
CellKinds == {"point", "line", "tri", "quad", "tet", "hex", "wedge"}
CellDim(kind) == CASE kind = "point" -> 0 [] kind = "line" -> 1 [] kind \in {"tri", "quad"} -> 2 [] OTHER -> 3

\* --- exact moments as limb vectors -----------------------------------------
\* x * k / d with x <= 1, k <= 2^15 : one short multiplication, one short division
MulDiv(x, k, d) == FxDivSmall(FxMulSmall(x, k), d)

\* TLC passes operator arguments lazily; a recursion that only threads an accumulator through builds a chain
\* of nested thunks whose evaluation overflows the Java stack.  Looking at the accumulator in the guard of
\* every level evaluates it there (Seen(x) is TRUE for every number in normal form).
Seen(x) == x[NL] >= 0

\* x * a! / ((s+1)(s+2)...(s+a))   by a steps  x := x * k / (s + k)   (each factor <= 1, so the
\* absolute error grows by at most one unit of 2^-56 per step)
RECURSIVE FactRatio(_, _, _, _)
FactRatio(x, s, a, k) == IF ~Seen(x) \/ k > a THEN x ELSE FactRatio(MulDiv(x, k, s + k), s, a, k + 1)

\* x / ((s+1)(s+2)...(s+d))
RECURSIVE DivRun(_, _, _, _)
DivRun(x, s, d, k) == IF ~Seen(x) \/ k > d THEN x ELSE DivRun(FxDivSmall(x, s + k), s, d, k + 1)

\* integral of x^alpha over the unit simplex of dimension Len(alpha):  alpha! / (|alpha| + d)!
RECURSIVE SimplexRun(_, _, _, _)
SimplexRun(x, s, alpha, i) ==
  IF ~Seen(x) \/ i > Len(alpha) THEN DivRun(x, s, Len(alpha), 1)
  ELSE SimplexRun(FactRatio(x, s, alpha[i], 1), s + alpha[i], alpha, i + 1)
SimplexMoment(alpha) == SimplexRun(FxInt(1), 0, alpha, 1)

\* integral over the unit box: product of 1/(a_i + 1)
RECURSIVE BoxRun(_, _, _)
BoxRun(x, alpha, i) == IF ~Seen(x) \/ i > Len(alpha) THEN x ELSE BoxRun(FxDivSmall(x, alpha[i] + 1), alpha, i + 1)
BoxMoment(alpha) == BoxRun(FxInt(1), alpha, 1)

RefMoment(kind, alpha) ==
  CASE kind = "point" -> FxInt(1)
    [] kind \in {"line", "quad", "hex"} -> BoxMoment(alpha)
    [] kind \in {"tri", "tet"} -> SimplexMoment(alpha)
    [] kind = "wedge" -> FxDivSmall(SimplexMoment(<<alpha[1], alpha[2]>>), alpha[3] + 1)

\* number of divisions in RefMoment = bound (in units of 2^-56) of the oracle's own truncation error
RefMomentUlps(kind, alpha) == SumSeq(alpha) + 2 * Len(alpha) + 2

ZeroAlpha(kind) == [i \in 1..CellDim(kind) |-> 0]
RefMeasure(kind) == RefMoment(kind, ZeroAlpha(kind))
\* 1 / measure, an integer for every reference cell
RefMeasureInv(kind) == CASE kind \in {"tri", "wedge"} -> 2 [] kind = "tet" -> 6 [] OTHER -> 1

\* --- which monomials a rule of order n has to integrate exactly --------------
\* total degree <= n on simplices, degree <= n per direction on tensor-product cells, prism:
\* total degree <= n in the triangle plane and degree <= n along the axis
Tuples(d, n) == [1..d -> 0..n]
MonomialOK(kind, n, alpha) ==
  CASE kind = "point" -> TRUE
    [] kind \in {"line", "quad", "hex"} -> \A i \in DOMAIN alpha : alpha[i] <= n
    [] kind \in {"tri", "tet"} -> SumSeq(alpha) <= n
    [] kind = "wedge" -> alpha[1] + alpha[2] <= n /\ alpha[3] <= n
Monomials(kind, n) == {alpha \in Tuples(CellDim(kind), Max2(n, 0)) : MonomialOK(kind, Max2(n, 0), alpha)}
NumMonomials(kind, n) ==
  LET m == Max2(n, 0) IN
  CASE kind = "point" -> 1
    [] kind = "line" -> m + 1
    [] kind = "quad" -> (m + 1) * (m + 1)
    [] kind = "hex"  -> (m + 1) * (m + 1) * (m + 1)
    [] kind = "tri"  -> ((m + 1) * (m + 2)) \div 2
    [] kind = "tet"  -> ((m + 1) * (m + 2) * (m + 3)) \div 6
    [] kind = "wedge" -> (((m + 1) * (m + 2)) \div 2) * (m + 1)

\* --- tolerances (named; absolute, resolution 2^-56) ---------------------------
\* quadrature sums: 2^-42 of the cell measure (+ the oracle's own truncation)
TolQuadBits == 42
TolQuad(kind) == FxAdd(FxDivSmall(FxTol(TolQuadBits), RefMeasureInv(kind)), FxUlp(64))
\* a node may violate an in-cell inequality by table round-off only
TolNode == FxTol(48)
\* sums / pairings of assembled numbers (relative to a stated integer scale)
TolSum  == FxTol(40)
\* maps, Jacobians, normals
TolGeom == FxTol(36)

\* ===========================================================================
\* Part 3 -- small exact rationals <<n, d>>, d > 0, reduced
\* ===========================================================================
RECURSIVE Gcd(_, _)
Gcd(a, b) == IF b = 0 THEN Abs(a) ELSE Gcd(b, a % b)
QNorm(n, d) == LET g == Gcd(Abs(n), Abs(d)) s == IF d < 0 THEN -1 ELSE 1
               IN IF g = 0 THEN <<0, 1>> ELSE <<s * (n \div g), s * (d \div g)>>
Q(n, d)    == QNorm(n, d)
QInt(n)    == <<n, 1>>
\* cross-reduce first so that intermediates stay small
QMul(x, y) == LET g1 == Gcd(Abs(x[1]), y[2]) g2 == Gcd(Abs(y[1]), x[2])
                  h1 == IF g1 = 0 THEN 1 ELSE g1  h2 == IF g2 = 0 THEN 1 ELSE g2
              IN QNorm((x[1] \div h1) * (y[1] \div h2), (x[2] \div h2) * (y[2] \div h1))
QAdd(x, y) == LET g == Gcd(x[2], y[2]) IN QNorm(x[1] * (y[2] \div g) + y[1] * (x[2] \div g), (x[2] \div g) * y[2])
QNeg(x)    == <<-x[1], x[2]>>
QSub(x, y) == QAdd(x, QNeg(y))
QInv(x)    == QNorm(x[2], x[1])
QDiv(x, y) == QMul(x, QInv(y))
QLeq(x, y) == QSub(y, x)[1] >= 0
RECURSIVE QSumSeq(_)
QSumSeq(s) == IF s = <<>> THEN QInt(0) ELSE QAdd(Head(s), QSumSeq(Tail(s)))
RECURSIVE QPow(_, _)
QPow(x, k) == IF k = 0 THEN QInt(1) ELSE QMul(x, QPow(x, k - 1))
\* rational -> fixed point (|n| < 2^30, d <= 2^16)
FxOfQ(x) == FxRat(x[1], x[2])

RECURSIVE Fact(_)
Fact(n) == IF n <= 1 THEN 1 ELSE n * Fact(n - 1)
Binom(n, k) == IF k < 0 \/ k > n THEN 0 ELSE
               LET RECURSIVE Bn(_) Bn(j) == IF j = 0 THEN 1 ELSE (Bn(j - 1) * (n - j + 1)) \div j IN Bn(k)

\* the same closed forms as reduced rationals (small exponents only)
RECURSIVE QFactRatio(_, _, _, _)
QFactRatio(x, s, a, k) == IF k > a THEN x ELSE QFactRatio(QMul(x, Q(k, s + k)), s, a, k + 1)
RECURSIVE QDivRun(_, _, _, _)
QDivRun(x, s, d, k) == IF k > d THEN x ELSE QDivRun(QMul(x, Q(1, s + k)), s, d, k + 1)
RECURSIVE QSimplexRun(_, _, _, _)
QSimplexRun(x, s, alpha, i) ==
  IF i > Len(alpha) THEN QDivRun(x, s, Len(alpha), 1)
  ELSE QSimplexRun(QFactRatio(x, s, alpha[i], 1), s + alpha[i], alpha, i + 1)
QSimplexMoment(alpha) == QSimplexRun(QInt(1), 0, alpha, 1)
RECURSIVE QBoxRun(_, _, _)
QBoxRun(x, alpha, i) == IF i > Len(alpha) THEN x ELSE QBoxRun(QMul(x, Q(1, alpha[i] + 1)), alpha, i + 1)
QBoxMoment(alpha) == QBoxRun(QInt(1), alpha, 1)
QRefMoment(kind, alpha) ==
  CASE kind = "point" -> QInt(1)
    [] kind \in {"line", "quad", "hex"} -> QBoxMoment(alpha)
    [] kind \in {"tri", "tet"} -> QSimplexMoment(alpha)
    [] kind = "wedge" -> QMul(QSimplexMoment(<<alpha[1], alpha[2]>>), Q(1, alpha[3] + 1))
==============================================================================
