------------------------------- MODULE Locate -------------------------------
(* Property C14: point location and point evaluation.                          *)
(*                                                                             *)
(*  - FindImpl      transcription of the element finders                        *)
(*                    skfem/mesh/mesh_tri_1.py:421-456, mesh_tet_1.py:46-82    *)
(*                    (k nearest centroids, inside test, fallback, raise),     *)
(*                    mesh_quad_1.py:213-220, mesh_hex_1.py:169-176,           *)
(*                    mesh_wedge_1.py:48-55 (simplex split and modulo),        *)
(*                    mesh_line_1.py element_finder (digitize on the sorted    *)
(*                    vertices; right ends looked up with right=True)          *)
(*  - FindOK        the relational demand of C14 on a finder result            *)
(*  - ProbeRows, P1Exact, LocalExpansion, AgreesWithInterpolate,               *)
(*    SamePointSameValue : the demands on probes / interpolator / point_source *)
(* A mesh is [kind, p, t] with integer coordinates; query points are integer   *)
(* tuples in the same (scaled) coordinate system.                              *)
EXTENDS GeomLocate, Fx

\* iterative sums (SequencesExt!FoldLeft is evaluated by a Java loop: no recursion depth issue on long sequences)
ISum(s)  == FoldLeft(LAMBDA acc, x : acc + x, 0, s)
FxSum(s) == FoldLeft(LAMBDA acc, x : FxAdd(acc, x), FxZero, s)

\* ---------------------------------------------------------------------------
\* FindOK: relational.  res = <<cells>> (1-based, one per point) or <<>> together with err # "".
\* ct[n] = Containing(m, pts[n]) is computed once per event by the caller.
ContainingAll(m, pts) == [n \in DOMAIN pts |-> Containing(m, pts[n])]

FindWellFormed(m, pts, res, err) ==
  /\ err = "" => (Len(res) = Len(pts) /\ \A n \in DOMAIN res : res[n] \in DOMAIN m.t)
  /\ err # "" => res = <<>>

\* a returned cell contains its point (closed hull); a point outside every cell by less than the margin
\* 2^-10 (never generated on purpose) may be attributed to a cell it is near to
CellContains(m, x, k, ctn) ==
  \/ k \in ctn
  \/ (ctn = {} /\ NearCell(m.kind, CellPts(m, k), x))

\* found: every returned cell contains its point
FoundCellContainsPoint(m, pts, res, err, ct) ==
  (err = "") => \A n \in DOMAIN pts : CellContains(m, pts[n], res[n], ct[n])
\* raised (any exception type): some point lies in no closed cell
EveryPointIsInSomeClosedCell(pts, err, ct) ==
  (err # "") => \E n \in DOMAIN pts : ct[n] = {}
\* points clearly outside (by more than the margin) must make the call raise
FarOutside(m, x, ctn) == ctn = {} /\ NearCells(m, x) = {}
RaisesOutside(m, pts, err, ct) ==
  (\E n \in DOMAIN pts : FarOutside(m, pts[n], ct[n])) => err # ""

\* ---------------------------------------------------------------------------
\* FindImpl: algorithmic transcription.
\* simplicial finder -- mesh_tri_1.py:433-454 / mesh_tet_1.py:58-80
Dimn(m) == Len(m.p[1])
NVertsPerCell(m) == Len(m.t[1])
CSum(m, k) == [c \in 1..Dimn(m) |-> SumSeq([j \in DOMAIN m.t[k] |-> m.p[m.t[k][j]][c]])]
\* squared distance of x to the centroid of cell k, times (dim+1)^2:  |n x - sum of vertices|^2
D2(m, cs, k, x) == LET n == NVertsPerCell(m) IN SumSeq([c \in 1..Dimn(m) |-> (n * x[c] - cs[k][c]) * (n * x[c] - cs[k][c])])

\* cKDTree.query(x, kk): the kk nearest centroids in order of distance (ties: lower index first -- an
\* assumption of the transcription only; FindOK does not depend on it)
KNearest(m, cs, x, kk) ==
  LET nt == Len(m.t)
      d  == [k \in 1..nt |-> D2(m, cs, k, x)]
      rank == [k \in 1..nt |-> Cardinality({j \in 1..nt : d[j] < d[k] \/ (d[j] = d[k] /\ j < k)})]
  IN [r \in 1..Min2(kk, nt) |-> CHOOSE k \in 1..nt : rank[k] = r - 1]

\* ix = ix[np.sort(np.unique(ix, return_index=True)[1])] : first occurrences, order kept
RECURSIVE UniqueKeepOrder(_, _)
UniqueKeepOrder(s, seen) ==
  IF s = <<>> THEN <<>>
  ELSE IF Head(s) \in seen THEN UniqueKeepOrder(Tail(s), seen)
  ELSE <<Head(s)>> \o UniqueKeepOrder(Tail(s), seen \cup {Head(s)})

SimplexSearch(m, pts, ix, isAll) ==
  LET inside == [c \in DOMAIN ix |-> [n \in DOMAIN pts |-> InClosedSimplex(CellPts(m, ix[c]), pts[n])]]   \* X >= -1e3 eps (exact test; slack << 2^-28)
      found(n) == \E c \in DOMAIN ix : inside[c][n]
  IN IF \A n \in DOMAIN pts : found(n)                                  \* inside.max(axis=0).all()
     THEN [err |-> "", fallback |-> isAll,
           res |-> [n \in DOMAIN pts |-> ix[MinSet({c \in DOMAIN ix : inside[c][n]})]]]     \* ix[inside.argmax(axis=0)]
     ELSE [err |-> "retry", fallback |-> isAll, res |-> <<>>]

FindSimplexImpl(m, pts, kk) ==
  LET nt == Len(m.t)
      cs == [k \in 1..nt |-> CSum(m, k)]
      cand == UniqueKeepOrder(FlattenSeq([n \in DOMAIN pts |-> KNearest(m, cs, pts[n], kk)]), {})
      first == SimplexSearch(m, pts, cand, FALSE)
  IN IF first.err = "" THEN first
     ELSE LET second == SimplexSearch(m, pts, [k \in 1..nt |-> k], TRUE)      \* finder(x, y, _search_all=True)
          IN IF second.err = "" THEN second
             ELSE [err |-> "ValueError", fallback |-> TRUE, res |-> <<>>]     \* raise ValueError("Point is outside of the mesh.")

\* simplex splits: to_meshtri (mesh_quad_1.py:161), to_meshtet (mesh_hex_1.py:156-165, mesh_wedge_1.py:38-46)
SplitTable(kind) ==
  CASE kind = "quad"  -> << <<1, 2, 4>>, <<2, 3, 4>> >>
    [] kind = "hex"   -> << <<1, 2, 4, 5>>, <<1, 4, 3, 5>>, <<3, 4, 5, 7>>, <<4, 5, 7, 8>>, <<4, 5, 6, 8>>, <<2, 4, 5, 6>> >>
    [] kind = "wedge" -> << <<1, 2, 3, 4>>, <<2, 3, 4, 5>>, <<3, 4, 5, 6>> >>
\* np.hstack: sub-simplex s of cell k becomes simplex (s-1)*nt + k
SplitMesh(m) ==
  LET tb == SplitTable(m.kind)  nt == Len(m.t) IN
  [kind |-> IF m.kind = "quad" THEN "tri" ELSE "tet", p |-> m.p,
   t |-> [c \in 1..(Len(tb) * nt) |->
            LET s == ((c - 1) \div nt) + 1  k == ((c - 1) % nt) + 1 IN Sub(m.t[k], tb[s])]]

\* The code's inside test is X >= -1e3 * machine eps = -2^-42 in reference coordinates (fix 950586a; before it
\* the slack was one machine eps, smaller than the round-off of the inverse map, and points exactly on boundary
\* facets of cells with a non-power-of-two determinant could be declared outside).  The transcription uses the
\* exact closed-simplex test: on the integer / dyadic universes every non-zero barycentric coordinate is at
\* least 1/|det| >= 2^-28 in size, so the slack (2^-42) and the round-off (~2^-50) can neither admit a point
\* outside a simplex nor reject a point of the closed simplex.  The RaisesOutside margin (2^-10, GeomLocate
\* MarginBits) is far above the slack: no demand to raise is ever made for a point the slack could admit.
\* A point is ROBUSTLY located if not even a one-eps slack could lose it: strictly interior to a simplex the
\* code tests, or in a closed simplex with power-of-two determinant (exact float arithmetic).  Both
\* PointsOfTheDomainAreFound (robust points) and BoundaryPointsAreFound (all points of the closed mesh) must
\* hold on the current tree; the split tells the two mechanisms apart when one of them regresses.
IsPow2(n) == n >= 1 /\ \E k \in 0..30 : n = 2 ^ k
StrictlyInsideSimplex(V, x) ==
  LET d0 == OrientV(V) IN d0 # 0 /\ \A i \in DOMAIN V : Sgn(d0) * OrientV([V EXCEPT ![i] = x]) > 0
CodeSimplices(m) == IF m.kind \in {"line", "tri", "tet"} THEN m ELSE SplitMesh(m)
Robust(m, x, ctn) ==
  IF m.kind = "line" THEN ctn # {}                                     \* no arithmetic in the 1-D finder
  ELSE LET sm == CodeSimplices(m) IN
       \E c \in DOMAIN sm.t :
          LET V == CellPts(sm, c) IN
          \/ StrictlyInsideSimplex(V, x)
          \/ (IsPow2(Abs(OrientV(V))) /\ InClosedSimplex(V, x))
\* A point of a closed simplex that is neither strictly inside nor in a power-of-two simplex is located by the code
\* through reference coordinates that carry the round-off of the inverse affine map:  |error of lambda_i| is about
\* eps * kappa_i  with  kappa_i = sum_j |d lambda_i / d x_j| * |x_j - v0_j|.  The code's slack is 1e3 eps, so such a
\* point MUST be found when kappa_i <= KappaMax for all i (round-off a factor >= 10 below the slack); for larger
\* kappa (slivers with long edges, e.g. determinant 1 and edges of length 16) losing a point that lies exactly on the
\* domain boundary is round-off of an ill-conditioned cell, not a wrong result, and carries no demand (counted).
KappaMax == 16
BaryAt(V, i, q) == OrientV([V EXCEPT ![i] = q])
SensNum(V, x, i) ==          \* |det| * kappa_i
  ISum([j \in DOMAIN x |-> Abs(BaryAt(V, i, [V[1] EXCEPT ![j] = V[1][j] + 1]) - BaryAt(V, i, V[1])) * Abs(x[j] - V[1][j])])
WellConditionedIn(V, x) ==
  /\ InClosedSimplex(V, x)
  /\ \A i \in DOMAIN V : SensNum(V, x, i) \div Abs(OrientV(V)) < KappaMax
ReliablyLocated(m, x, ctn) ==
  \/ Robust(m, x, ctn)
  \/ (m.kind # "line" /\ LET sm == CodeSimplices(m) IN \E c \in DOMAIN sm.t : WellConditionedIn(CellPts(sm, c), x))
\* raised: some point is not reliably located (outside every closed cell, or only on the boundary of ill-conditioned ones)
BoundaryPointsAreFound(m, pts, err, ct) ==
  (err # "") => \E n \in DOMAIN pts : ~ReliablyLocated(m, pts[n], ct[n])
FindOK(m, pts, res, err, ct) == FoundCellContainsPoint(m, pts, res, err, ct) /\ BoundaryPointsAreFound(m, pts, err, ct)
\* raising is a violation beyond doubt when every point is robustly located
PointsOfTheDomainAreFound(m, pts, err, ct) ==
  (err # "") => \E n \in DOMAIN pts : ~Robust(m, pts[n], ct[n])

\* ---------------------------------------------------------------------------
\* Large meshes (several hundred cells): the clauses are decided from WITNESSES so that the cost per point does
\* not grow with the mesh.  hint[n] is a cell the generator claims to contain pts[n] (0: the point is claimed to be
\* far outside the bounding box).  The claim is verified exactly (WitnessContainsPoint), then
\*   found   => the returned cell contains the point (exact test on that one cell)
\*   raised  => some point has no witness (and, for PointsOfTheDomainAreFound, is not robustly inside its witness)
IMin(s) == FoldLeft(LAMBDA acc, x : IF x < acc THEN x ELSE acc, s[1], s)
IMax(s) == FoldLeft(LAMBDA acc, x : IF x > acc THEN x ELSE acc, s[1], s)
BBox(m) == [c \in 1..Dimn(m) |-> [lo |-> IMin([v \in DOMAIN m.p |-> m.p[v][c]]), hi |-> IMax([v \in DOMAIN m.p |-> m.p[v][c]])]]
\* beyond the bounding box by more than its extent along some axis: every barycentric coordinate sum argument
\* shows that some barycentric coordinate w.r.t. ANY cell is <= -1/(dim+1), i.e. the point is far outside
BBoxFar(bb, x) == \E c \in DOMAIN bb : x[c] > 2 * bb[c].hi - bb[c].lo \/ x[c] < 2 * bb[c].lo - bb[c].hi
CellCodeSimplices(m, k) ==
  IF m.kind \in {"line", "tri", "tet"} THEN <<CellPts(m, k)>>
  ELSE LET tb == SplitTable(m.kind) IN [s \in DOMAIN tb |-> Sub(CellPts(m, k), tb[s])]
RobustInCell(m, x, k) ==
  LET sims == CellCodeSimplices(m, k) IN
  \E s \in DOMAIN sims : \/ StrictlyInsideSimplex(sims[s], x)
                          \/ (IsPow2(Abs(OrientV(sims[s]))) /\ InClosedSimplex(sims[s], x))
BigWellFormed(m, pts, res, err, hint) ==
  /\ FindWellFormed(m, pts, res, err)
  /\ Len(hint) = Len(pts) /\ \A n \in DOMAIN hint : hint[n] \in 0..Len(m.t)
WitnessContainsPoint(m, bb, pts, hint) ==
  \A n \in DOMAIN pts : IF hint[n] # 0 THEN InClosedCell(m.kind, CellPts(m, hint[n]), pts[n]) ELSE BBoxFar(bb, pts[n])
FoundCellContainsPointW(m, pts, res, err) ==
  (err = "") => \A n \in DOMAIN pts : InClosedCell(m.kind, CellPts(m, res[n]), pts[n])
PointsOfTheDomainAreFoundW(m, pts, err, hint) ==
  (err # "") => \E n \in DOMAIN pts : hint[n] = 0 \/ ~RobustInCell(m, pts[n], hint[n])
BoundaryPointsAreFoundW(err, hint) == (err # "") => \E n \in DOMAIN hint : hint[n] = 0
RaisesOutsideW(err, hint) == (\E n \in DOMAIN hint : hint[n] = 0) => err # ""
\* evidence: how many centroids (of the simplices the code searches) are closer to x than the centroid of the
\* nearest code simplex of the witness cell that contains x -- the containing cell is NOT among the k nearest
\* candidates (fallback path) when this is >= k
WitnessRank(m, x, k) ==
  LET sm == CodeSimplices(m)
      nt == Len(m.t)
      cs == [c \in DOMAIN sm.t |-> CSum(sm, c)]
      d  == [c \in DOMAIN sm.t |-> D2(sm, cs, c, x)]
      mine == {c \in DOMAIN sm.t : ((c - 1) % nt) + 1 = k /\ InClosedSimplex(CellPts(sm, c), x)}
  IN IMin([j \in 1..Cardinality(mine) |-> Cardinality({i \in DOMAIN sm.t : d[i] < d[SetToSeq(mine)[j]]})])

\* line finder -- mesh_line_1.py element_finder (after fix 6d9cf06)
\*   k = np.digitize(x, sorted p)                        number of vertices with coordinate <= x
\*   onright = np.isin(x, p[0, maxt])                    x is the right end of some cell:
\*   k[onright] = np.digitize(x, sorted p, right=True)   number of vertices with coordinate < x
\*   elems = cells whose right end vertex is ix[k];  ix[nv] -> IndexError;  none -> ValueError
LineTables(m) ==
  LET nv   == Len(m.p)
      xs   == [v \in 1..nv |-> m.p[v][1]]
      \* ix = argsort(p[0]) ; stable for equal keys
      rank == [v \in 1..nv |-> Cardinality({u \in 1..nv : xs[u] < xs[v] \/ (xs[u] = xs[v] /\ u < v)})]
      ix   == [r \in 1..nv |-> CHOOSE v \in 1..nv : rank[v] = r - 1]
      \* maxt[k] = the vertex of cell k with the larger coordinate (argmax: first on ties)
      maxt == [k \in DOMAIN m.t |-> IF xs[m.t[k][2]] > xs[m.t[k][1]] THEN m.t[k][2] ELSE m.t[k][1]]
  IN [nv |-> nv, xs |-> xs, ix |-> ix, maxt |-> maxt]
FindLineImpl(m, pts) ==
  LET T == LineTables(m)
      onright(x) == \E k \in DOMAIN m.t : T.xs[T.maxt[k]] = x
      dig(x)  == IF onright(x) THEN Cardinality({v \in 1..T.nv : T.xs[v] < x})
                               ELSE Cardinality({v \in 1..T.nv : T.xs[v] <= x})
      oob  == \E n \in DOMAIN pts : dig(pts[n][1]) >= T.nv                  \* ix[nv] -> IndexError
      hit(n) == {k \in DOMAIN m.t : T.maxt[k] = T.ix[dig(pts[n][1]) + 1]}
  IN IF oob THEN [err |-> "IndexError", fallback |-> FALSE, res |-> <<>>]
     ELSE IF \E n \in DOMAIN pts : hit(n) = {}                            \* len(elems) < len(x)
          THEN [err |-> "ValueError", fallback |-> FALSE, res |-> <<>>]
          ELSE [err |-> "", fallback |-> FALSE, res |-> [n \in DOMAIN pts |-> MinSet(hit(n))]]

\* regression model: the line finder BEFORE fix 6d9cf06 (only the global right end point was brought inside before
\* np.digitize): TLC must refute FindOK for it on meshes with several components (MC_C14_line_prerepair.cfg)
FindLineImplPreRepair(m, pts) ==
  LET T == LineTables(m)
      nv == T.nv
      top  == T.xs[T.ix[nv]]
      \* xin[x == p[ix[-1]]] = mean of the two largest coordinates; compared with the doubled coordinates
      xin2(x) == IF x = top THEN T.xs[T.ix[nv]] + T.xs[T.ix[nv - 1]] ELSE 2 * x
      dig(x)  == Cardinality({v \in 1..nv : 2 * T.xs[v] <= xin2(x)})
      oob  == \E n \in DOMAIN pts : dig(pts[n][1]) >= nv
      hit(n) == {k \in DOMAIN m.t : T.maxt[k] = T.ix[dig(pts[n][1]) + 1]}
  IN IF oob THEN [err |-> "IndexError", fallback |-> FALSE, res |-> <<>>]
     ELSE IF \E n \in DOMAIN pts : hit(n) = {}
          THEN [err |-> "ValueError", fallback |-> FALSE, res |-> <<>>]
          ELSE [err |-> "", fallback |-> FALSE, res |-> [n \in DOMAIN pts |-> MinSet(hit(n))]]

FindImpl(m, pts) ==
  CASE m.kind = "line" -> FindLineImpl(m, pts)
    [] m.kind = "tri"  -> FindSimplexImpl(m, pts, 5)
    [] m.kind = "tet"  -> FindSimplexImpl(m, pts, 10)
    [] OTHER ->
        LET sm == SplitMesh(m)
            r  == FindSimplexImpl(sm, pts, IF m.kind = "quad" THEN 5 ELSE 10)
            nt == Len(m.t)
        IN [r EXCEPT !.res = [n \in DOMAIN r.res |-> ((r.res[n] - 1) % nt) + 1]]       \* finder(*args) % self.t.shape[1]

\* ---------------------------------------------------------------------------
\* Point evaluation.  b is the Basis event of the scenario:
\*   b.edofs[k]  global DOFs (1-based) of cell k, local order;  b.ncomp components per basis function;
\*   b.y         the integer coefficient vector;  b.vdof[v] the DOF attached to vertex v (P1 only)
\* e is a Probe event:  e.pts, e.cells (finder result used for the reference expansion), e.rows[r] = sorted
\*   non-zero columns of row r of probes(x), e.vals[r] = (probes(x) @ y)[r] resp. the interpolator output,
\*   e.phis[n][c][i] = component c of local basis function i at point n on cell e.cells[n]  (Fx limbs),
\*   e.ref[r] = basis.interpolate(y) at the same points when they are the global quadrature points.
\* Row index of component c of point n: (c-1)*N + n  (component-major: rows = tile(arange(comp*N), Nbfun)).
RowOf(c, n, N) == (c - 1) * N + n

ProbeWellFormed(m, b, e) ==
  LET N == Len(e.pts) IN
  /\ e.err = ""
  /\ Len(e.cells) = N /\ \A n \in 1..N : e.cells[n] \in DOMAIN m.t
  /\ Len(e.vals) = b.ncomp * N /\ \A r \in DOMAIN e.vals : FxWF(e.vals[r])
  /\ (Len(e.rows) = b.ncomp * N /\ \A r \in DOMAIN e.rows : \A j \in DOMAIN e.rows[r] : e.rows[r][j] \in 1..b.ndofs)
  /\ Len(e.phis) = N
  /\ \A n \in 1..N : /\ Len(e.phis[n]) = b.ncomp
                     /\ \A c \in 1..b.ncomp : /\ Len(e.phis[n][c]) = Len(b.edofs[1])
                                              /\ \A i \in DOMAIN e.phis[n][c] : FxWF(e.phis[n][c][i])
  /\ (e.ref # <<>>) => (Len(e.ref) = b.ncomp * N /\ \A r \in DOMAIN e.ref : FxWF(e.ref[r]))

\* the non-zeros of all rows of one point lie in the DOFs of ONE cell that contains the point
ProbeRows(m, b, e, ct) ==
  LET N == Len(e.pts) IN
  \A n \in 1..N :
    LET cols == UNION {VSet(e.rows[RowOf(c, n, N)]) : c \in 1..b.ncomp} IN
    \E k \in (IF ct[n] # {} THEN ct[n] ELSE DOMAIN m.t) :
        /\ cols \subseteq VSet(b.edofs[k])
        /\ CellContains(m, e.pts[n], k, ct[n])

\* magnitude of the expansion at point n:  1 + sum_i |y_i| (|phi_i| + 1), an integer; tolerances scale with it
ExpMagnitude(b, e, n) ==
  LET k == e.cells[n] IN
  1 + ISum([i \in DOMAIN b.edofs[k] |->
        Abs(b.y[b.edofs[k][i]]) * (1 + MaxSet({Abs(FxAbs(e.phis[n][c][i])[1]) : c \in 1..b.ncomp}))])
TolGeom   == FxTol(36)                  \* 2^-36 per unit of magnitude: well-conditioned (reference-mapped) elements
TolGlobal == FxTol(26)                  \* elements defined through an inverted Vandermonde matrix in global coordinates
TolOf(b)  == IF b.tolclass = "global" THEN TolGlobal ELSE TolGeom
TolAt(b, e, n) == FxMulSmall(TolOf(b), Min2(ExpMagnitude(b, e, n), 16384))

\* the evaluation equals the located cell's local expansion  sum_i y[edofs[K][i]] phi_i(x)
LocalExpansion(m, b, e) ==
  LET N == Len(e.pts) IN
  \A n \in 1..N : \A c \in 1..b.ncomp :
    LET k == e.cells[n]
        ex == FxSum([i \in DOMAIN b.edofs[k] |-> FxMulSmall(e.phis[n][c][i], b.y[b.edofs[k][i]])])
    IN FxNear(e.vals[RowOf(c, n, N)], ex, TolAt(b, e, n))

\* at the global quadrature points the evaluation agrees with basis.interpolate(y)
AgreesWithInterpolate(m, b, e) ==
  LET N == Len(e.pts) IN
  (e.ref # <<>>) => \A n \in 1..N : \A c \in 1..b.ncomp :
     FxNear(e.vals[RowOf(c, n, N)], e.ref[RowOf(c, n, N)], TolAt(b, e, n))

\* P1 on simplices: the value is the exact barycentric interpolant of the vertex values (a rational number
\* computed here from integer data); S is the coordinate scale (vertex values are attached to vertices, so
\* the interpolant is scale-free)
P1Applicable(m, b) == b.family = "P1" /\ m.kind \in {"line", "tri", "tet"} /\ b.ncomp = 1
RECURSIVE Gcd(_, _)
Gcd(a, c) == IF c = 0 THEN Abs(a) ELSE Gcd(c, a % Abs(c))
RECURSIVE GcdSeq(_)
GcdSeq(s) == IF s = <<>> THEN 0 ELSE Gcd(Head(s), GcdSeq(Tail(s)))
P1Value(m, b, x, ctn) ==
  LET k  == CHOOSE kk \in ctn : TRUE
      V  == CellPts(m, k)
      d0 == OrientV(V)
      bn == BaryNum(V, x)
      g  == Gcd(d0, GcdSeq([i \in DOMAIN V |-> Abs(bn[i])]))             \* reduce the common factor of the scaling
      num == ISum([i \in DOMAIN V |-> Sgn(d0) * (bn[i] \div g) * b.y[b.vdof[m.t[k][i]]]])
  IN [num |-> num, den |-> Abs(d0) \div g]
P1Exact(m, b, e, ct) ==
  \A n \in DOMAIN e.pts :
    (ct[n] # {}) =>
      LET v == P1Value(m, b, e.pts[n], ct[n]) IN
      v.den <= 65536 => FxNear(e.vals[n], FxRat(v.num, v.den), TolAt(b, e, n))

\* where the discrete function is single-valued (the point lies in exactly one closed cell, or the element
\* is H1-conforming) its value does not depend on the call: number, order, repetition of the query points,
\* earlier calls.  seen = set of <<point, component, value>> of the scenario so far.
Unambiguous(b, ctn) == b.family \in {"P1", "H1"} \/ Cardinality(ctn) = 1
PointValues(m, b, e, ct) ==
  LET N == Len(e.pts) IN
  {<<e.pts[n], c, e.vals[RowOf(c, n, N)], ExpMagnitude(b, e, n)>> : n \in {j \in 1..N : Unambiguous(b, ct[j])}, c \in 1..b.ncomp}
SamePointSameValue(b, pv, seen) ==
  \A a \in pv : \A s \in seen \cup pv :
     (s[1] = a[1] /\ s[2] = a[2]) => FxNear(a[3], s[3], FxMulSmall(TolOf(b), Min2(Max2(a[4], s[4]), 16384)))

\* point_source(x) . y  equals the value at x  (scalar elements): e.ps = sparse vector [cols, vals]
PointSourceOK(m, b, e, ct) ==
     LET dotp == FxSum([j \in DOMAIN e.pscols |-> FxMulSmall(e.psvals[j], b.y[e.pscols[j]])])
     IN /\ \A j \in DOMAIN e.pscols : e.pscols[j] \in 1..b.ndofs /\ FxWF(e.psvals[j])
        /\ \E kk \in DOMAIN m.t : VSet(e.pscols) \subseteq VSet(b.edofs[kk]) /\ CellContains(m, e.pts[1], kk, ct[1])
        /\ FxNear(dotp, e.vals[1], TolAt(b, e, 1))
\* point_source(x) of a VECTOR / TENSOR valued basis returns ONE vector for the ncomp components of the point.  The
\* statement of C14 ("equal to evaluating the located cell's local expansion at that point") fixes WHAT is evaluated
\* but not which component a single number stands for; today's code returns row 0 of the probing matrix of the point
\* (the first component).  That choice is a convention, so any ONE component c is accepted: the vector is supported
\* in the located cell, its entries are the c-th components of that cell's local shape functions - nothing else,
\* in particular no mixture of components -, and its pairing with y is the c-th component of the local expansion.
PointSourceVecWF(m, b, e) ==
  /\ Len(e.pts) = 1 /\ Len(e.cells) = 1 /\ e.cells[1] \in DOMAIN m.t
  /\ Len(e.phis) = 1 /\ Len(e.phis[1]) = b.ncomp /\ b.ncomp >= 2
  /\ \A c \in 1..b.ncomp : Len(e.phis[1][c]) = Len(b.edofs[1]) /\ \A i \in DOMAIN e.phis[1][c] : FxWF(e.phis[1][c][i])
  /\ Len(e.pscols) = Len(e.psvals) /\ \A j \in DOMAIN e.pscols : e.pscols[j] \in 1..b.ndofs /\ FxWF(e.psvals[j])
  /\ FxWF(e.val)
PointSourceIsOneRowOfProbes(m, b, e) ==
  LET k == e.cells[1]
      ed == b.edofs[k]
      tol == TolAt(b, e, 1)
      entry(d) == FxSum([j \in DOMAIN e.pscols |-> IF e.pscols[j] = d THEN e.psvals[j] ELSE FxZero])
      comp(c, d) == FxSum([i \in DOMAIN ed |-> IF ed[i] = d THEN e.phis[1][c][i] ELSE FxZero])
  IN /\ VSet(e.pscols) \subseteq VSet(ed)                                           \* support: the located cell
     /\ FxNear(FxSum([j \in DOMAIN e.pscols |-> FxMulSmall(e.psvals[j], b.y[e.pscols[j]])]), e.val, tol)
     /\ \E c \in 1..b.ncomp :
          /\ \A d \in VSet(e.pscols) \cup VSet(ed) : FxNear(entry(d), comp(c, d), tol)     \* entries: component c
          /\ FxNear(e.val, FxSum([i \in DOMAIN ed |-> FxMulSmall(e.phis[1][c][i], b.y[ed[i]])]), tol)
\* ---------------------------------------------------------------------------
\* Suite stream (executions of the repository's own tests): generic FLOAT coordinates.  The projection supplies, as
\* witnesses, the barycentric coordinates lam[simplex][vertex] (Fx, computed exactly from the float data) of a query
\* point w.r.t. the simplices whose union is a cell; containment is decided here.
TolInside == FxTol(36)
SimplexInsideFx(l)  == \A i \in DOMAIN l : FxLeq(FxNeg(TolInside), l[i])             \* in the closed simplex within round-off
SimplexRobustFx(l)  == \A i \in DOMAIN l : FxLeq(TolInside, l[i])                    \* strictly inside, beyond round-off
SimplexFarFx(l)     == \E i \in DOMAIN l : FxLeq(l[i], FxNeg(FxTol(MarginBits)))     \* outside by more than the margin 2^-10
CellInsideFx(ls)    == \E s \in DOMAIN ls : SimplexInsideFx(ls[s])
CellRobustFx(ls)    == \E s \in DOMAIN ls : SimplexRobustFx(ls[s])
CellFarFx(ls)       == \A s \in DOMAIN ls : SimplexFarFx(ls[s])
LamWF(ls, kind) == /\ Len(ls) >= 1
                   /\ \A s \in DOMAIN ls : Len(ls[s]) = Dim(kind) + 1 /\ \A i \in DOMAIN ls[s] : FxWF(ls[s][i])
SuiteFindWF(e) ==
  /\ e.malformed = 0
  /\ e.kind \in {"line", "tri", "quad", "tet", "hex", "wedge"}
  /\ (e.err = "") => (Len(e.res) = Len(e.lam) /\ Len(e.res) >= 1 /\ \A n \in DOMAIN e.res : e.res[n] \in 1..e.nt /\ LamWF(e.lam[n], e.kind))
  /\ (e.err # "") => e.lamall # <<>>
  /\ \A n \in DOMAIN e.lamall : Len(e.lamall[n]) = e.nt /\ \A k \in DOMAIN e.lamall[n] : LamWF(e.lamall[n][k], e.kind)
SuiteFoundCellContainsPoint(e) == (e.err = "") => \A n \in DOMAIN e.lam : CellInsideFx(e.lam[n])
\* raised: some point lies robustly inside no cell
SuiteBoundaryPointsAreFound(e) ==
  (e.err # "") => \E n \in DOMAIN e.lamall : \A k \in DOMAIN e.lamall[n] : ~CellRobustFx(e.lamall[n][k])
\* a point outside every cell by more than the margin makes the call raise
SuiteRaisesOutside(e) ==
  (\E n \in DOMAIN e.lamall : \A k \in DOMAIN e.lamall[n] : CellFarFx(e.lamall[n][k])) => e.err # ""

\* probing matrix recorded from a test: rows[r] = <<[c |-> column, v |-> Fx value]>> sorted by column
SuiteEntry(row, d) == FxSum([j \in DOMAIN row |-> IF row[j].c = d THEN row[j].v ELSE FxZero])
SuiteCols(row) == {row[j].c : j \in DOMAIN row}
SuiteProbeWF(e) ==
  LET N == e.npts IN
  /\ e.err = "" /\ e.shape_ok = 1 /\ N >= 1 /\ e.ncomp >= 1
  /\ Len(e.cells) = N /\ Len(e.edofs) = N /\ Len(e.lam) = N /\ Len(e.phis) = N /\ Len(e.rows) = e.ncomp * N
  /\ \A n \in 1..N : /\ e.cells[n] \in 1..e.nt /\ LamWF(e.lam[n], e.kind)
                     /\ \A i \in DOMAIN e.edofs[n] : e.edofs[n][i] \in 1..e.ndofs
                     /\ Len(e.phis[n]) = e.ncomp
                     /\ \A c \in 1..e.ncomp : /\ Len(e.phis[n][c]) = Len(e.edofs[n])
                                              /\ \A i \in DOMAIN e.phis[n][c] : FxWF(e.phis[n][c][i])
  /\ \A r \in DOMAIN e.rows : \A j \in DOMAIN e.rows[r] : e.rows[r][j].c \in 1..e.ndofs /\ FxWF(e.rows[r][j].v)
  /\ (e.out # <<>>) => (Len(e.out) = e.ncomp * N /\ Len(e.py) = Len(e.out) /\ Len(e.mag) = Len(e.out)
                         /\ \A r \in DOMAIN e.out : FxWF(e.out[r]) /\ FxWF(e.py[r]) /\ e.mag[r] \in 1..16384)
SuiteProbeRows(e) ==
  \A n \in 1..e.npts : \A c \in 1..e.ncomp : SuiteCols(e.rows[RowOf(c, n, e.npts)]) \subseteq VSet(e.edofs[n])
\* entry (row of component c of point n, column d) = sum of the local shape functions attached to global DOF d
SuiteLocalExpansion(e) ==
  \A n \in 1..e.npts : \A c \in 1..e.ncomp :
    LET row == e.rows[RowOf(c, n, e.npts)]
        mag == 1 + MaxSet({0} \cup {Abs(FxAbs(e.phis[n][c][i])[1]) : i \in DOMAIN e.phis[n][c]})
        tol == FxMulSmall(TolGeom, Min2(mag * Len(e.edofs[n]), 16384))
    IN \A d \in SuiteCols(row) \cup VSet(e.edofs[n]) :
         FxNear(SuiteEntry(row, d),
                FxSum([i \in DOMAIN e.edofs[n] |-> IF e.edofs[n][i] = d THEN e.phis[n][c][i] ELSE FxZero]), tol)
\* interpolator(y)(x) = probes(x) @ y  (the pairing is computed exactly by the projection from the returned matrix)
SuiteInterpolatorIsProbesTimesY(e) ==
  \A r \in DOMAIN e.out : FxNear(e.out[r], e.py[r], FxMulSmall(TolGeom, e.mag[r]))

==============================================================================
