SPECIFICATION Spec
CONSTANT Decoder = "current"
INVARIANT RoundTripHolds
CHECK_DEADLOCK FALSE
