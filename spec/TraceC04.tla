------------------------------ MODULE TraceC04 ------------------------------
(* code -> spec: validates DOF tables, DOF locations and assembled-matrix      *)
(* patterns recorded from the real Dofs / Basis objects against the C04        *)
(* clauses of Dofs.tla.  Events are independent of each other.                 *)
(*   a = "Number" : tables of one (mesh, element)                              *)
(*   a = "Matrix" : shape and non-zero pattern of one assembled matrix         *)
(*   a = "CompositeBasis" : numbering of several bases glued together          *)
(* For Number events flagged drift = 1 the transcription NumberDofsImpl is      *)
(* evaluated on the event's own inputs and compared with what the code          *)
(* reported; the outcome is counted (ModelAgrees / ModelDrift), never judged.   *)
EXTENDS Dofs

Batch  == JsonDeserialize(IOEnv.TRACE_FILE)
Events == Batch.events
NEv    == Len(Events)

VARIABLES i, bad, cnt
vars == <<i, bad, cnt>>

Clauses(e) ==
  IF e.a = "Number" THEN NumberClauses(e)
  ELSE IF e.a = "Matrix" THEN MatrixClauses(e)
  ELSE IF e.a = "CompositeBasis" THEN CompositeBasisClauses(e)
  ELSE [UnknownEvent |-> FALSE]

Drift(e, r) ==
  IF e.a = "Number" /\ r.WellFormed /\ e.drift = 1
  THEN (IF ImplAgrees(e) THEN [ModelAgrees |-> TRUE] ELSE [ModelDrift |-> TRUE])
  ELSE <<>>

Bump(c, r) == [k \in DOMAIN c \cup DOMAIN r |->
                 (IF k \in DOMAIN c THEN c[k] ELSE 0) + (IF k \in DOMAIN r THEN 1 ELSE 0)]

Init == i = 1 /\ bad = <<>> /\ cnt = <<>>

Step == /\ i <= NEv
        /\ LET e == Events[i]
               r == Clauses(e)
               f == SetToSeq(Failed(r))
           IN /\ bad' = bad \o [k \in 1..Len(f) |-> [sid |-> e.sid, pos |-> e.pos, clause |-> f[k]]]
              /\ cnt' = Bump(Bump(cnt, r), Drift(e, r))
        /\ i' = i + 1

Finish == /\ i = NEv + 1
          /\ JsonSerialize(IOEnv.OUT_FILE, [consumed |-> NEv, bad |-> bad, cnt |-> cnt])
          /\ i' = NEv + 2
          /\ UNCHANGED <<bad, cnt>>

Next == Step \/ Finish
Spec == Init /\ [][Next]_vars
==============================================================================
