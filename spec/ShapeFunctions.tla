--------------------------- MODULE ShapeFunctions ---------------------------
(* Property C09: shape functions -- the delivered derivative fields are the   *)
(* true derivatives of the delivered value field (on the reference cell and   *)
(* after mapping); duality with the defining functionals; partition of unity. *)
(*                                                                             *)
(*  Part 1  the Lagrange differentiation operator: exact rational weights      *)
(*          w_j = m! e_(n-1-m)({-o_k : k # j}) / prod_(k # j) (o_j - o_k)      *)
(*          of the m-th derivative at 0 of the interpolating polynomial        *)
(*          through the integer node offsets o_1..o_n (e_r = elementary        *)
(*          symmetric polynomial).  Exact for every polynomial of degree       *)
(*          <= n-1 WHEREVER the nodes lie (one-sided windows included).        *)
(*  Part 2  the element tables: family (= transformation class), polynomial    *)
(*          degree per reference direction and in total, partition-of-unity    *)
(*          class, duality class and normalisation, wrapper instances, the     *)
(*          classes that are not driven and why.  The harness is generic: it   *)
(*          READS these tables (exported by MC_C09) and drives every exported  *)
(*          class accordingly.                                                 *)
(*  Part 3  the clauses, one group per event type recorded by                  *)
(*          harness/props/c09.py:                                              *)
(*    Deriv  values of a field sampled on equispaced nodes along every axis    *)
(*           through an evaluation point + the delivered derivative field at   *)
(*           the point  -> ReferenceDerivative / MappedDerivative /            *)
(*           GlobalDerivative  (grad, div, curl combinations, Hessians)        *)
(*    Map    lbasis fields, DF, invDF, detDF, gbasis fields at one point of    *)
(*           one cell -> MappingRule (TransformClass of the family)            *)
(*    Wrap   fields of a wrapper (ElementVector / ElementComposite) and of     *)
(*           its components -> WrapperInherits                                 *)
(*    Dual   functionals applied to the basis -> Duality (nodal, facet flux,   *)
(*           edge circulation, named DOFs of global elements, the element's    *)
(*           own gdof)                                                         *)
(*    PoU    values of all local functions at lattice points ->                *)
(*           PartitionOfUnity                                                  *)
(*    Agree  gbasis fields with shared points and with the same points         *)
(*           replicated per cell -> EvaluationFormsAgree                       *)
(*    CellList gbasis for explicit cell lists of every shape vs the single-    *)
(*           cell evaluations -> CellListCommutes                              *)
(* The harness records Deriv / Map events in every EVALUATION FORM of the      *)
(* library (tags xs): points shared by the cells, per-element point arrays     *)
(* (replicated and genuinely different per cell, several cells at once,        *)
(* negatively oriented cells included), and under CALL HISTORIES on one        *)
(* element instance (tags hist): the stencil nodes are visited one after the   *)
(* other through ONE point buffer overwritten in place, or through two         *)
(* alternating buffers, for global elements interleaved with calls on another  *)
(* mesh.  The clauses are the same: the delivered derivative must be the       *)
(* derivative of the values delivered in that form / history.                  *)
(* All float observations are Fx limb vectors (Fx.tla); tolerances are the     *)
(* named constants below.                                                      *)
(*                                                                             *)
(* How the clauses add up to the property.  On the reference cell the value    *)
(* fields are polynomials of the tabulated degree, so ReferenceDerivative      *)
(* (stencil exact for that degree, MC_C09 WeightsExact) decides "dphi is the   *)
(* derivative of phi" at the sampled points.  MappingRule ties gbasis to       *)
(* lbasis by the family's transformation with the Jacobians that C10 ties to   *)
(* the map -- on affine, orientation-reversing, multilinear and second-order   *)
(* curved cells, for shared and per-cell points; with the Piola identities     *)
(* (MC_C09 PiolaIdentities) this is "true derivative after mapping".           *)
(* MappedDerivative / GlobalDerivative decide the same statement DIRECTLY on   *)
(* affine cells (there the mapped functions are polynomials in the global      *)
(* coordinates) without using the transformation table at all.                 *)
(* Not decided here: direct differentiation on non-affine cells (rational      *)
(* functions: MappingRule only); duality of BDM1 / RT2 / N2 / N3 / HHJ (the    *)
(* property names lowest-order H(div) / H(curl) only); the SIGN conventions of *)
(* vector-valued functions (C03).                                              *)
EXTENDS Numeric

\* ===========================================================================
\* Part 1 -- Lagrange differentiation operator
\* ===========================================================================
\* coefficients c[1..r+1] (c[k] = coefficient of x^(k-1)) of  prod_k (x + S[k])
\* (TLCEval: function constructors are lazy in TLC; without it every level is re-evaluated on every access)
MulLin(c, s) == TLCEval([k \in 1..(Len(c) + 1) |-> (IF k > 1 THEN c[k - 1] ELSE 0) + (IF k <= Len(c) THEN s * c[k] ELSE 0)])
RECURSIVE PolyRun(_, _, _)
PolyRun(c, S, k) == IF k > Len(S) THEN c ELSE PolyRun(MulLin(c, S[k]), S, k + 1)
PolyOfShifts(S) == PolyRun(<<1>>, S, 1)

\* the nodes other than j, negated:  prod_(k # j) (x - o_k) = PolyOfShifts(OtherShifts(o, j))
OtherShifts(o, j) == TLCEval([k \in 1..(Len(o) - 1) |-> -o[IF k < j THEN k ELSE k + 1]])
NodeDenom(o, j) == LET RECURSIVE P(_) P(k) == IF k > Len(o) THEN 1 ELSE (IF k = j THEN 1 ELSE o[j] - o[k]) * P(k + 1) IN P(1)
\* m-th derivative at 0 of the j-th Lagrange polynomial of the nodes o  (a reduced rational)
DiffWeight(o, m, j) ==
  IF m >= Len(o) THEN QInt(0)
  ELSE Q(Fact(m) * PolyOfShifts(OtherShifts(o, j))[m + 1], NodeDenom(o, j))

Lcm(a, b) == (a \div Gcd(a, b)) * b
LcmDens(w) == LET RECURSIVE L(_) L(k) == IF k > Len(w) THEN 1 ELSE Lcm(w[k][2], L(k + 1)) IN L(1)
\* the weights over their common denominator:  w_j = num[j] / den
Stencil(o, m) ==
  LET w   == TLCEval([j \in DOMAIN o |-> DiffWeight(o, m, j)])
      den == LcmDens(w)
      num == TLCEval([j \in DOMAIN o |-> w[j][1] * (den \div w[j][2])])
  IN [num |-> TLCEval(num), den |-> den, sumabs |-> SumSeq([j \in DOMAIN o |-> Abs(num[j])]),
      maxabs |-> MaxSet({Abs(num[j]) : j \in DOMAIN o})]

\* contiguous windows a, a+1, .., a+n-1 that contain the evaluation point 0
Window(a, n) == TLCEval([j \in 1..n |-> a + j - 1])
NMaxNodes == 10
MaxOrder  == 2
StencilTab == TLCEval([m \in 1..MaxOrder |-> TLCEval([n \in 2..NMaxNodes |->
                 TLCEval([s \in 1..n |-> TLCEval(Stencil(Window(s - n, n), m))])])])
StencilAt(m, a, n) == StencilTab[m][n][a + n]
\* FxMulSmall takes factors up to 2^15
StencilOK(st) == st.maxabs <= 32768 /\ st.den <= 65536
WindowOK(m, a, n) == n \in 2..NMaxNodes /\ a \in (1 - n)..0 /\ m \in 1..MaxOrder /\ m < n /\ StencilOK(StencilAt(m, a, n))
InvSteps == {1, 2, 4, 8, 16, 32, 64, 128}          \* 1/h

MagOf(a) == Abs(a[1]) + 1
MaxMagSeq(v) == MaxSet({MagOf(v[j]) : j \in DOMAIN v})
\* (1/h)^m * sum_j w_j v_j
ApplyStencil(st, v, H, m) ==
  FxMulSmall(FxDivSmall(FxSumAll([j \in DOMAIN v |-> FxMulSmall(v[j], st.num[j])]), st.den), H ^ m)
\* natural scale of the round-off of that sum (integer): (1/h)^m * sum|w_j| * max|v_j|
StencilMag(st, v, H, m) == (((H ^ m) * st.sumabs) \div st.den + 1) * MaxMagSeq(v)
\* every intermediate of ApplyStencil stays below 2^30
StencilSafe(st, v, H, m) ==
  /\ MaxMagSeq(v) <= 4096
  /\ MaxMagSeq(v) * st.maxabs < 268435456
  /\ ((MaxMagSeq(v) * st.sumabs) \div st.den + 2) * (H ^ m) < 268435456

\* --- tolerances (named; bits of 2^-k, multiplied by the integer magnitude of the compared numbers) ----------
\* Calibration (audit of 2026-09-26, quick tier, seeds 0..2, all evaluation forms / histories / cell lists; worst observed
\* residual relative to the magnitude K the tolerance is multiplied with -> chosen bits; every margin is >= 2^11.5):
\*   stencil, reference-mapped  2^-50.5 (TriP4)        -> 38      stencil, ElementGlobal   2^-40.5 (Argyris hess) -> 28
\*   transformation rule        2^-53.6                -> 40      nodal duality / PoU      2^-51.4 (TriP3)        -> 40
\*   gdof / named duality       2^-37.4 (Argyris)      -> 24      forms / cell lists       2^-54 (0 on most)      -> 38
\* All defects these clauses are meant for are O(1) relative to K (wrong sign, factor, index, coefficient).
TolDerivBits == 38      \* stencil vs delivered derivative: 2^-38 * StencilMag
TolGlobDerivBits == 28  \* the same for ElementGlobal (coefficients from an inverted Vandermonde matrix)
TolMapBits   == 40      \* transformation rule: 2^-40 * product of the magnitudes of the factors
TolDualBits  == 40      \* duality of reference-mapped elements, partition of unity
TolGlobBits  == 24      \* duality of ElementGlobal (inverse Vandermonde matrix)
\* two evaluations of the same function by different code paths (shared / per-element points, cell lists, wrapper vs
\* component): they may differ by rounding (other einsum paths, other summation order), never bit-for-bit demanded;
\* relative to the largest entry of the compared fields (an entry can be a cancelled sum of large terms)
TolAgreeBits == 38
TolOf(bits, K) == TolScaled(FxTol(bits), Max2(K, 1))
FxNearK(a, b, bits, K) == FxNear(a, b, TolOf(bits, K))

\* ===========================================================================
\* Part 2 -- element tables
\* ===========================================================================
\* fam   transformation class (base class in skfem/element): "H1" element_h1.py:10-25, "Hdiv" element_hdiv.py:24-44,
\*       "Hcurl" element_hcurl.py:31-64, "Matrix" element_matrix.py:9-26, "Global" element_global.py:17-58 (no
\*       reference basis: polynomials in GLOBAL coordinates), "Skeleton" (ElementH1 whose functions are indicator
\*       functions of facets: no derivative claim)
\* dd    bound of the polynomial degree of every lbasis component in each single reference coordinate
\*       ("Global": in each single global coordinate)
\* td    bound of the total degree (degree along an arbitrary straight line)
\* pou   1 iff the value functions are claimed to sum to one (Lagrange-type bases)
\* dual  "nodal" (phi_i(dofloc_j) = delta_ij for the DOFs that have a location), "flux", "circ" (lowest order
\*       H(div) / H(curl)), "global" (named DOFs + gdof), "none"
\* geo   "rect": the class is unisolvent / meant for axis-parallel rectangles and boxes only (tensor-product power basis
\*       in global coordinates); it is driven on such cells only
\* nn/nd normalisation constant of the flux / circulation functional of the class (a representation choice of the
\*       source: ElementTetRT1 has div = 3 on the reference cell, i.e. flux 1/2 through every face) -- informational
\*       (Drift_FunctionalNormalisation); the Duality clause does not depend on it
R(cls, kind, fam, dd, td, pou, dual) ==
  [cls |-> cls, p |-> 0, kind |-> kind, fam |-> fam, dd |-> dd, td |-> td, pou |-> pou, dual |-> dual, nn |-> 1, nd |-> 1,
   geo |-> IF cls \in {"ElementQuadBFS", "ElementQuad2G", "ElementHexC1"} THEN "rect" ELSE "any"]
BaseRows == <<
  \* ---- segment
  R("ElementLineP0", "line", "H1", 0, 0, 1, "nodal"),
  R("ElementLineP1", "line", "H1", 1, 1, 1, "nodal"),
  R("ElementLineP2", "line", "H1", 2, 2, 1, "nodal"),
  R("ElementLineP1DG", "line", "H1", 1, 1, 1, "nodal"),
  R("ElementLineMini", "line", "H1", 2, 2, 0, "nodal"),
  R("ElementLineHermite", "line", "Global", 3, 3, 0, "global"),
  \* ---- triangle
  R("ElementTriP0", "tri", "H1", 0, 0, 1, "nodal"),
  R("ElementTriP1", "tri", "H1", 1, 1, 1, "nodal"),
  R("ElementTriP2", "tri", "H1", 2, 2, 1, "nodal"),
  R("ElementTriP3", "tri", "H1", 3, 3, 1, "nodal"),
  R("ElementTriP4", "tri", "H1", 4, 4, 1, "nodal"),
  R("ElementTriP1DG", "tri", "H1", 1, 1, 1, "nodal"),
  R("ElementTriP1B", "tri", "H1", 2, 3, 0, "nodal"),
  R("ElementTriP2B", "tri", "H1", 2, 3, 0, "nodal"),
  R("ElementTriCR", "tri", "H1", 1, 1, 1, "nodal"),
  R("ElementTriRT1", "tri", "Hdiv", 1, 1, 0, "flux"),
  R("ElementTriRT2", "tri", "Hdiv", 2, 2, 0, "none"),
  R("ElementTriBDM1", "tri", "Hdiv", 1, 1, 0, "none"),
  R("ElementTriN1", "tri", "Hcurl", 1, 1, 0, "circ"),
  R("ElementTriN2", "tri", "Hcurl", 2, 2, 0, "none"),
  R("ElementTriN3", "tri", "Hcurl", 3, 3, 0, "none"),
  R("ElementTriHHJ0", "tri", "Matrix", 0, 0, 0, "none"),
  R("ElementTriHHJ1", "tri", "Matrix", 1, 1, 0, "none"),
  R("ElementTriMorley", "tri", "Global", 2, 2, 0, "global"),
  R("ElementTriArgyris", "tri", "Global", 5, 5, 0, "global"),
  R("ElementTriHermite", "tri", "Global", 3, 3, 0, "global"),
  R("ElementTri15ParamPlate", "tri", "Global", 4, 4, 0, "global"),
  R("ElementTriP1G", "tri", "Global", 1, 1, 1, "global"),
  R("ElementTriP2G", "tri", "Global", 2, 2, 1, "global"),
  R("ElementTriSkeletonP0", "tri", "Skeleton", 0, 0, 0, "nodal"),
  R("ElementTriSkeletonP1", "tri", "Skeleton", 0, 0, 0, "none"),
  \* ---- quadrilateral
  R("ElementQuad0", "quad", "H1", 0, 0, 1, "nodal"),
  R("ElementQuad1", "quad", "H1", 1, 2, 1, "nodal"),
  R("ElementQuad2", "quad", "H1", 2, 4, 1, "nodal"),
  R("ElementQuadS2", "quad", "H1", 2, 3, 1, "nodal"),
  R("ElementQuad1DG", "quad", "H1", 1, 2, 1, "nodal"),
  R("ElementQuadRT1", "quad", "Hdiv", 1, 1, 0, "flux"),
  R("ElementQuadN1", "quad", "Hcurl", 1, 1, 0, "circ"),
  R("ElementQuadBFS", "quad", "Global", 3, 6, 0, "global"),
  R("ElementQuad2G", "quad", "Global", 2, 4, 1, "global"),
  \* ---- tetrahedron
  R("ElementTetP0", "tet", "H1", 0, 0, 1, "nodal"),
  R("ElementTetP1", "tet", "H1", 1, 1, 1, "nodal"),
  R("ElementTetP2", "tet", "H1", 2, 2, 1, "nodal"),
  R("ElementTetMini", "tet", "H1", 2, 4, 0, "nodal"),
  R("ElementTetCCR", "tet", "H1", 2, 4, 1, "nodal"),
  R("ElementTetCR", "tet", "H1", 1, 1, 1, "nodal"),
  [R("ElementTetRT1", "tet", "Hdiv", 1, 1, 0, "flux") EXCEPT !.nn = 1, !.nd = 2],
  R("ElementTetN1", "tet", "Hcurl", 1, 1, 0, "circ"),
  R("ElementTetSkeletonP0", "tet", "Skeleton", 0, 0, 0, "nodal"),
  \* ---- hexahedron
  R("ElementHex0", "hex", "H1", 0, 0, 1, "nodal"),
  R("ElementHex1", "hex", "H1", 1, 3, 1, "nodal"),
  R("ElementHex2", "hex", "H1", 2, 6, 1, "nodal"),
  R("ElementHexS2", "hex", "H1", 2, 4, 1, "nodal"),
  R("ElementHex1DG", "hex", "H1", 1, 3, 1, "nodal"),
  R("ElementHexRT1", "hex", "Hdiv", 1, 1, 0, "flux"),
  R("ElementHexC1", "hex", "Global", 3, 9, 0, "global"),
  R("ElementHexSkeleton0", "hex", "Skeleton", 0, 0, 0, "nodal"),
  \* ---- prism
  R("ElementWedge1", "wedge", "H1", 1, 2, 1, "nodal")
>>
\* parametrised classes: integrated Legendre (hierarchical) bases of degree p per direction
PMax == 6
ParamRow(cls, p) ==
  IF cls = "ElementLinePp"
  THEN [R(cls, "line", "H1", p, p, IF p = 1 THEN 1 ELSE 0, "nodal") EXCEPT !.p = p]
  ELSE [R(cls, "quad", "H1", p, 2 * p, IF p = 1 THEN 1 ELSE 0, "nodal") EXCEPT !.p = p]
ParamRows == [k \in 1..PMax |-> ParamRow("ElementLinePp", k)] \o [k \in 1..4 |-> ParamRow("ElementQuadP", k)]
ElementRows == BaseRows \o ParamRows

\* exported classes that are not driven on their own, and why
NotDrivenRows == <<
  [cls |-> "Element", why |-> "abstract base class (gbasis raises NotImplementedError)"],
  [cls |-> "ElementH1", why |-> "abstract base class (no lbasis); its gbasis is the MappingRule of family H1"],
  [cls |-> "ElementHdiv", why |-> "abstract base class (no lbasis); its gbasis is the MappingRule of family Hdiv"],
  [cls |-> "ElementHcurl", why |-> "abstract base class (no lbasis); its gbasis is the MappingRule of family Hcurl"],
  [cls |-> "ElementGlobal", why |-> "abstract base class (no gdof); driven through its eleven subclasses"],
  [cls |-> "ElementDG", why |-> "wrapper: driven through the instances of WrapperSpecs"],
  [cls |-> "ElementVector", why |-> "wrapper: driven through the instances of WrapperSpecs"],
  [cls |-> "ElementComposite", why |-> "wrapper: driven through the instances of WrapperSpecs"] >>

\* wrapper instances.  A spec is <<"cls", name, p>> | <<"DG", spec>> | <<"Vector", spec>> | <<"Composite", spec, spec, ..>>
C(name) == <<"cls", name, 0>>
WrapperSpecs == <<
  <<"DG", C("ElementTriP2")>>, <<"DG", C("ElementLineP2")>>, <<"DG", C("ElementQuad2")>>, <<"DG", C("ElementTetP2")>>,
  <<"DG", C("ElementHex1")>>, <<"DG", C("ElementTriRT1")>>, <<"DG", C("ElementTriN1")>>, <<"DG", C("ElementTriP0")>>,
  <<"DG", C("ElementTriMorley")>>,
  <<"Vector", C("ElementLineP2")>>, <<"Vector", C("ElementTriP1")>>, <<"Vector", C("ElementTriP2")>>,
  <<"Vector", C("ElementQuad2")>>, <<"Vector", C("ElementTetP2")>>, <<"Vector", C("ElementHex1")>>,
  <<"Vector", C("ElementWedge1")>>, <<"Vector", C("ElementTriMorley")>>, <<"Vector", <<"Vector", C("ElementTriP1")>>>>,
  <<"Vector", <<"DG", C("ElementTriP1")>>>>,
  <<"Composite", C("ElementTriP2"), C("ElementTriP1")>>,
  <<"Composite", <<"Vector", C("ElementTriP2")>>, C("ElementTriP1")>>,
  <<"Composite", C("ElementTriRT1"), C("ElementTriP0")>>,
  <<"Composite", C("ElementTriN1"), C("ElementTriP1")>>,
  <<"Composite", C("ElementQuad2"), C("ElementQuad1"), C("ElementQuad0")>>,
  <<"Composite", C("ElementTetN1"), C("ElementTetP1")>>,
  <<"Composite", <<"Vector", C("ElementHex1")>>, C("ElementHex0")>> >>

RowOf(cls, p) == LET S == {r \in DOMAIN ElementRows : ElementRows[r].cls = cls /\ ElementRows[r].p = p}
                 IN IF S = {} THEN [cls |-> "", p |-> 0, kind |-> "", fam |-> "", dd |-> 0, td |-> 0, pou |-> 0,
                                    dual |-> "none", nn |-> 1, nd |-> 1, geo |-> "any"]
                    ELSE ElementRows[CHOOSE r \in S : TRUE]
RowTab == TLCEval([r \in DOMAIN ElementRows |-> <<ElementRows[r].cls, ElementRows[r].p>>])
Known(cls, p) == \E r \in DOMAIN RowTab : RowTab[r] = <<cls, p>>

\* leaves of a wrapper spec, outermost wrapper kind
RECURSIVE SpecLeaves(_)
SpecLeaves(s) == IF s[1] = "cls" THEN <<RowOf(s[2], s[3])>>
                 ELSE FlattenSeq([k \in 1..(Len(s) - 1) |-> SpecLeaves(s[k + 1])])
RECURSIVE SpecWF(_)
SpecWF(s) == /\ Len(s) >= 2 /\ s[1] \in {"cls", "DG", "Vector", "Composite"}
             /\ IF s[1] = "cls" THEN Len(s) = 3 /\ Known(s[2], s[3])
                ELSE /\ (s[1] \in {"DG", "Vector"} => Len(s) = 2)
                     /\ \A k \in 2..Len(s) : SpecWF(s[k])
SpecKind(s) == SpecLeaves(s)[1].kind
\* a DG wrapper (element_dg.py) forwards lbasis and gbasis: it IS its component for every clause here
RECURSIVE Strip(_)
Strip(s) == IF s[1] = "DG" THEN Strip(s[2]) ELSE s
IsLeaf(s) == Strip(s)[1] = "cls"
LeafRow(s) == LET t == Strip(s) IN RowOf(t[2], t[3])
MaxOf(S) == IF S = {} THEN 0 ELSE MaxSet(S)
SpecDirDeg(s) == LET L == SpecLeaves(s) IN MaxOf({L[k].dd : k \in DOMAIN L})
SpecTotDeg(s) == LET L == SpecLeaves(s) IN MaxOf({L[k].td : k \in DOMAIN L})
SpecAllGlobal(s) == LET L == SpecLeaves(s) IN \A k \in DOMAIN L : L[k].fam = "Global"
SpecAnyGlobal(s) == LET L == SpecLeaves(s) IN \E k \in DOMAIN L : L[k].fam = "Global"
SpecNoSkeleton(s) == LET L == SpecLeaves(s) IN \A k \in DOMAIN L : L[k].fam # "Skeleton"

\* what the second output of lbasis is, per family (element_h1.py / element_hdiv.py / element_hcurl.py)
RefDerivOp(fam) == CASE fam = "H1" -> "grad" [] fam = "Hdiv" -> "div" [] fam = "Hcurl" -> "curl" [] OTHER -> "none"
\* which law ties a delivered field dst to the field src it is the derivative of
FieldNames == <<"value", "grad", "hess", "grad3", "grad4", "grad5", "grad6">>
FieldOrder(name) == CHOOSE k \in 0..6 : FieldNames[k + 1] = name
DerivOp(src, dst) ==
  CASE dst = "div" /\ src = "value" -> "div"
    [] dst = "curl" /\ src = "value" -> "curl"
    [] dst = "hess" /\ src = "value" -> "hessdiag"
    [] dst \in {"grad", "hess", "grad3", "grad4", "grad5", "grad6"} /\ src \in {"value", "grad", "hess", "grad3", "grad4", "grad5"}
       /\ FieldOrder(dst) = FieldOrder(src) + 1 -> "grad"
    [] OTHER -> "none"
\* number of nodes that makes the stencil exact for the event (degree + 1); the harness uses one more
DerivDegree(mode, s) ==
  CASE mode = "ref" -> SpecDirDeg(s)
    [] mode = "map" -> SpecTotDeg(s)
    [] mode = "glob" -> SpecDirDeg(s)
RequiredNodes(mode, s) == DerivDegree(mode, s) + 1

\* ---- reference cells (vertex order of skfem/refdom.py, 1-based) -----------------------------------------
KindDim(kind) == CellDim(kind)
NVertsOf(kind) == CASE kind = "line" -> 2 [] kind = "tri" -> 3 [] kind = "quad" -> 4 [] kind = "tet" -> 4
                    [] kind = "hex" -> 8 [] kind = "wedge" -> 6
\* affine cells: simplices always; quadrilaterals = parallelograms; hexahedra = parallelepipeds; prisms = affine prisms
\* axis-parallel rectangle / box: every edge of the reference cell is mapped to an axis direction
IsAxisBox(kind, vs) ==
  LET ax(u) == Cardinality({c \in DOMAIN u : u[c] # 0}) = 1 IN
  CASE kind = "quad" -> ax(VSub(vs[2], vs[1])) /\ ax(VSub(vs[4], vs[1]))
    [] kind = "hex"  -> ax(VSub(vs[5], vs[8])) /\ ax(VSub(vs[6], vs[8])) /\ ax(VSub(vs[7], vs[8]))
    [] OTHER -> TRUE
SpecRect(s) == LET L == SpecLeaves(s) IN \E k \in DOMAIN L : L[k].geo = "rect"
IsAffineCell(kind, vs) ==
  CASE kind \in {"line", "tri", "tet"} -> SimplexDet(vs) # 0
    [] kind = "quad" -> vs[3] = VAdd(vs[2], VSub(vs[4], vs[1])) /\ SimplexDet(<<vs[1], vs[2], vs[4]>>) # 0
    [] OTHER -> CellShapeOK(kind, vs)

\* ===========================================================================
\* Part 3 -- clauses
\* ===========================================================================
AllFxSeq(s) == \A k \in DOMAIN s : FxWF(s[k])
ModerateSeq(s) == \A k \in DOMAIN s : MagOf(s[k]) <= 4096

\* ---------------------------------------------------------------------------
\* Deriv: e = [mode, spec, kind, i, part, src, dst, dim, nc, affine, verts, pts]
\*   pts[q] = [win |-> <<a_d, n_d, H_d>> per direction d, lines |-> [c |-> [d |-> <<Fx>>]], got |-> <<Fx>>]
\*   lines[c][d][j] = component c of the field src at  x + (a_d + j - 1) / H_d * e_d ;  got = field dst at x (row-major)
\*   mode "ref"  : lbasis, axes of the reference cell        (ReferenceDerivative)
\*   mode "map"  : gbasis of a reference-mapped element, global axes, affine cell   (MappedDerivative)
\*   mode "glob" : gbasis of an ElementGlobal, global axes   (GlobalDerivative)
DerivOpOf(e) == IF e.dst = "dphi" THEN RefDerivOp(LeafRow(e.spec).fam) ELSE DerivOp(e.src, e.dst)
GotCount(op, dim, nc) == CASE op = "grad" -> nc * dim [] op = "div" -> 1 [] op = "curl" -> (IF dim = 2 THEN 1 ELSE 3)
                           [] op = "hessdiag" -> dim * dim [] OTHER -> 0
DerivHarnessWF(e) ==
  /\ e.mode \in {"ref", "map", "glob"} /\ SpecWF(e.spec) /\ e.dim \in 1..3 /\ e.nc \in 1..27
  /\ e.kind = SpecKind(e.spec) /\ e.dim = KindDim(e.kind)
  /\ DerivOpOf(e) \in {"grad", "div", "curl", "hessdiag"}
  /\ (DerivOpOf(e) \in {"div", "curl"} => e.nc = e.dim /\ e.dim >= 2)
  /\ (DerivOpOf(e) = "hessdiag" => e.nc = 1)
  /\ (e.mode = "ref" => IsLeaf(e.spec) /\ LeafRow(e.spec).fam \in {"H1", "Hdiv", "Hcurl"} /\ e.dst = "dphi")
  /\ (e.mode = "map" => ~SpecAnyGlobal(e.spec) /\ SpecNoSkeleton(e.spec))
  /\ (e.mode = "glob" => SpecAllGlobal(e.spec))
  \* polynomial in the coordinates along which the stencil runs: reference axes, or global axes on an AFFINE cell
  \* (ElementGlobal functions are polynomials in the global coordinates on every cell)
  /\ (e.mode = "map" => e.affine = 1)
  /\ (e.affine = 1 => /\ Len(e.verts) = NVertsOf(e.kind) /\ \A v \in DOMAIN e.verts : Len(e.verts[v]) = e.dim
                      /\ IsAffineCell(e.kind, e.verts)
                      /\ (SpecRect(e.spec) => IsAxisBox(e.kind, e.verts)))
  /\ (e.mode = "glob" => e.affine = 1)
  /\ \A q \in DOMAIN e.pts :
       LET pt == e.pts[q] IN
       /\ Len(pt.win) = e.dim /\ Len(pt.lines) = e.nc
       /\ \A d \in 1..e.dim :
            LET w == pt.win[d] IN
            /\ Len(w) = 3 /\ w[3] \in InvSteps
            /\ WindowOK(IF DerivOpOf(e) = "hessdiag" THEN 2 ELSE 1, w[1], w[2])
            /\ w[2] >= RequiredNodes(e.mode, e.spec)
            /\ (DerivOpOf(e) = "hessdiag" => w[3] <= 32)
       /\ \A c \in 1..e.nc : Len(pt.lines[c]) = e.dim /\ \A d \in 1..e.dim : Len(pt.lines[c][d]) = pt.win[d][2]
DerivWF(e) ==
  \A q \in DOMAIN e.pts :
     LET pt == e.pts[q] IN
     /\ Len(pt.got) = GotCount(DerivOpOf(e), e.dim, e.nc) /\ AllFxSeq(pt.got) /\ ModerateSeq(pt.got)
     /\ \A c \in 1..e.nc : \A d \in 1..e.dim :
          /\ AllFxSeq(pt.lines[c][d])
          /\ StencilSafe(StencilAt(IF DerivOpOf(e) = "hessdiag" THEN 2 ELSE 1, pt.win[d][1], pt.win[d][2]),
                         pt.lines[c][d], pt.win[d][3], IF DerivOpOf(e) = "hessdiag" THEN 2 ELSE 1)

\* d^m/dx_d^m of component c at the point, from the recorded VALUES:  [v |-> Fx, k |-> magnitude]
DLine(pt, c, d, m) ==
  LET w == pt.win[d] st == StencilAt(m, w[1], w[2]) IN
  [v |-> ApplyStencil(st, pt.lines[c][d], w[3], m), k |-> StencilMag(st, pt.lines[c][d], w[3], m)]
\* the combinations: rows [idx |-> position in got, v |-> Fx, k |-> magnitude]
DerivExpected(pt, op, dim, nc) ==
  CASE op = "grad" ->          \* got[(c-1) dim + d] = d_d u_c
         [g \in 1..(nc * dim) |->
            LET r == DLine(pt, ((g - 1) \div dim) + 1, ((g - 1) % dim) + 1, 1) IN [idx |-> g, v |-> r.v, k |-> r.k]]
    [] op = "div" ->           \* sum_d d_d u_d
         LET r == [d \in 1..dim |-> DLine(pt, d, d, 1)] IN
         << [idx |-> 1, v |-> FxSumAll([d \in 1..dim |-> r[d].v]), k |-> SumSeq([d \in 1..dim |-> r[d].k])] >>
    [] op = "curl" /\ dim = 2 ->   \* d_1 u_2 - d_2 u_1
         LET a == DLine(pt, 2, 1, 1) b == DLine(pt, 1, 2, 1) IN
         << [idx |-> 1, v |-> FxSub(a.v, b.v), k |-> a.k + b.k] >>
    [] op = "curl" /\ dim = 3 ->   \* (d_2 u_3 - d_3 u_2, d_3 u_1 - d_1 u_3, d_1 u_2 - d_2 u_1)
         [g \in 1..3 |->
            LET j == (g % 3) + 1  l == ((g + 1) % 3) + 1
                a == DLine(pt, l, j, 1) b == DLine(pt, j, l, 1)
            IN [idx |-> g, v |-> FxSub(a.v, b.v), k |-> a.k + b.k]]
    [] op = "hessdiag" ->      \* got[(d-1) dim + d] = d_d d_d u
         [d \in 1..dim |-> LET r == DLine(pt, 1, d, 2) IN [idx |-> (d - 1) * dim + d, v |-> r.v, k |-> r.k]]
DerivHolds(e) ==
  LET op == DerivOpOf(e) IN
  \A q \in DOMAIN e.pts :
     LET pt == e.pts[q] ex == DerivExpected(pt, op, e.dim, e.nc) IN
     \A g \in DOMAIN ex : FxNearK(pt.got[ex[g].idx], ex[g].v, IF e.mode = "glob" THEN TolGlobDerivBits ELSE TolDerivBits, ex[g].k)
DerivClauseName(e) == CASE e.mode = "ref" -> "ReferenceDerivative" [] e.mode = "map" -> "MappedDerivative"
                        [] OTHER -> "GlobalDerivative"

\* ---------------------------------------------------------------------------
\* Map: e = [spec, kind, dim, affine, DF, iDF, det, L, G]  at ONE point of ONE cell, for every local index i:
\*   L[i] = [v |-> lbasis value (row-major), d |-> second output of lbasis (row-major, <<>> if None)]
\*   G[i] = [v |-> gbasis value, d |-> the delivered derivative field (grad / div / curl; <<>> if none)]
\*   DF[r][c], iDF[r][c] matrices of Fx, det = detDF (signed)
\* TransformClass = family of the class.  The SIGN of a vector-valued function (orientation of facets / edges,
\* |det| versus det) is a representation choice judged by C03; here value and derivative must carry the SAME sign.
\* ElementTriN3.gbasis (element_tri_n3.py:36-97) picks, depending on the orientation, one of the functions of the same
\* edge: the candidates of i are the local indices of i's edge.
MapCandidates(row, i, n) ==
  IF row.cls = "ElementTriN3" /\ i <= 9 THEN {3 * ((i - 1) \div 3) + k : k \in 1..3} ELSE {i}
MatMag(M) == MaxSet({MagOf(M[r][c]) : r \in DOMAIN M, c \in DOMAIN M})
Signed(s, x) == IF s = 1 THEN x ELSE FxNeg(x)
\* sum_k A[k][j] u[k]   (transpose times vector)      and      sum_k A[j][k] u[k]
TMatVec(A, u, j) == FxSumAll([k \in DOMAIN u |-> FxMul(A[k][j], u[k])])
MatVec(A, u, j)  == FxSumAll([k \in DOMAIN u |-> FxMul(A[j][k], u[k])])
MapShape(fam, dim) ==      \* lengths of L.v, L.d, G.v, G.d
  CASE fam \in {"H1", "Skeleton"} -> <<1, dim, 1, dim>>
    [] fam = "Hdiv" -> <<dim, 1, dim, 1>>
    [] fam = "Hcurl" -> <<dim, IF dim = 2 THEN 1 ELSE 3, dim, IF dim = 2 THEN 1 ELSE 3>>
    [] fam = "Matrix" -> <<dim * dim, 0, dim * dim, 0>>
    [] OTHER -> <<0, 0, 0, 0>>
MapFieldName(fam) == CASE fam \in {"H1", "Skeleton"} -> "grad" [] fam = "Hdiv" -> "div" [] fam = "Hcurl" -> "curl" [] OTHER -> ""
MapHarnessWF(e) ==
  /\ SpecWF(e.spec) /\ IsLeaf(e.spec) /\ LeafRow(e.spec).fam \in {"H1", "Hdiv", "Hcurl", "Matrix", "Skeleton"}
  /\ e.kind = SpecKind(e.spec) /\ e.dim = KindDim(e.kind)
MapWF(e) ==
  LET sh == MapShape(LeafRow(e.spec).fam, e.dim) d == e.dim IN
  /\ Len(e.DF) = d /\ Len(e.iDF) = d /\ FxWF(e.det) /\ MagOf(e.det) <= 4096
  /\ \A r \in 1..d : /\ Len(e.DF[r]) = d /\ Len(e.iDF[r]) = d /\ AllFxSeq(e.DF[r]) /\ AllFxSeq(e.iDF[r])
                     /\ ModerateSeq(e.DF[r]) /\ ModerateSeq(e.iDF[r])
  /\ Len(e.L) = Len(e.G) /\ Len(e.L) >= 1
  /\ \A i \in DOMAIN e.L :
       /\ Len(e.L[i].v) = sh[1] /\ Len(e.L[i].d) = sh[2] /\ Len(e.G[i].v) = sh[3] /\ Len(e.G[i].d) = sh[4]
       /\ e.G[i].dn = MapFieldName(LeafRow(e.spec).fam)          \* the derivative is delivered under the family's field name
       /\ AllFxSeq(e.L[i].v) /\ AllFxSeq(e.L[i].d) /\ AllFxSeq(e.G[i].v) /\ AllFxSeq(e.G[i].d)
       /\ ModerateSeq(e.L[i].v) /\ ModerateSeq(e.L[i].d) /\ ModerateSeq(e.G[i].v) /\ ModerateSeq(e.G[i].d)
MapRuleAt(e, fam, i) ==
  LET d   == e.dim
      g   == e.G[i]
      mDF == MatMag(e.DF)  mI == MatMag(e.iDF)  mdet == MagOf(e.det)
      bigL(l) == MaxMagSeq(l.v \o l.d \o <<FxInt(0)>>)
      bigG == MaxMagSeq(g.v \o g.d \o <<FxInt(0)>>)
  IN
  CASE fam \in {"H1", "Skeleton"} ->
         \* value unchanged;  grad_j = sum_k invDF[k][j] dphi_k                     (element_h1.py:14-24)
         LET l == e.L[i] IN
         /\ FxNearK(g.v[1], l.v[1], TolMapBits, bigL(l))
         /\ \A j \in 1..d : FxNearK(g.d[j], TMatVec(e.iDF, l.d, j), TolMapBits, d * mI * bigL(l))
    [] fam = "Hdiv" ->
         \* contravariant Piola:  value * det = s * DF phi ;  div * det = s * dphi   (element_hdiv.py:26-43)
         LET l == e.L[i] IN
         \E s \in {1, -1} :
           /\ \A c \in 1..d : FxNearK(FxMul(g.v[c], e.det), Signed(s, MatVec(e.DF, l.v, c)), TolMapBits,
                                      d * mDF * bigL(l) + mdet * bigG)
           /\ FxNearK(FxMul(g.d[1], e.det), Signed(s, l.d[1]), TolMapBits, bigL(l) + mdet * bigG)
    [] fam = "Hcurl" ->
         \* covariant Piola:  value = s * invDF^T phi ;  2-D: curl * det = s * dphi ;  3-D: curl * det = s * DF dphi
         \E i2 \in MapCandidates(LeafRow(e.spec), i, Len(e.L)) : \E s \in {1, -1} :
           LET l == e.L[i2] IN
           /\ \A j \in 1..d : FxNearK(g.v[j], Signed(s, TMatVec(e.iDF, l.v, j)), TolMapBits, d * mI * bigL(l))
           /\ IF d = 2
              THEN FxNearK(FxMul(g.d[1], e.det), Signed(s, l.d[1]), TolMapBits, bigL(l) + mdet * bigG)
              ELSE \A c \in 1..3 : FxNearK(FxMul(g.d[c], e.det), Signed(s, MatVec(e.DF, l.d, c)), TolMapBits,
                                           d * mDF * bigL(l) + mdet * bigG)
    [] fam = "Matrix" ->
         \* matrix Piola:  value[a][b] * det^2 = sum_jc DF[a][j] phi[j][c] DF[b][c]   (element_matrix.py:11-25)
         LET l == e.L[i]
             T == [a \in 1..d |-> [c \in 1..d |-> FxSumAll([j \in 1..d |-> FxMul(e.DF[a][j], l.v[(j - 1) * d + c])])]]
         IN \A a, b \in 1..d :
              FxNearK(FxMul(FxMul(g.v[(a - 1) * d + b], e.det), e.det),
                      FxSumAll([c \in 1..d |-> FxMul(T[a][c], e.DF[b][c])]), TolMapBits,
                      d * d * mDF * mDF * bigL(l) + mdet * mdet * bigG)
MapHolds(e) == \A i \in DOMAIN e.L : MapRuleAt(e, LeafRow(e.spec).fam, i)

\* ---------------------------------------------------------------------------
\* Wrap: e = [spec, wrap, dim, N, outer, inner]  -- fields at the same points of the same cells
\*   outer[i][k]   = for local index i, for output k of the gbasis tuple: the sequence of delivered fields, each a
\*                   record [name, shape, x] (x = all numbers of the array, row-major, as Fx)
\*   inner[k][j]   = the same for local index j of component k evaluated on its own
\* "Vector"    (element_vector.py:41-54): function i = component (i-1) % dim + 1 of the vector whose entry is the
\*             function (i-1) \div dim + 1 of the wrapped element; every other entry is zero; all fields alike.
\* "Composite" (element_composite.py:105-114): for every i exactly one output carries a function of its component,
\*             the other outputs are zero with the shapes of their own components, and i -> (component, function)
\*             is a bijection (which one is the numbering convention owned by C04 / C19).
\* entrywise |a - b| <= 2^-bits * (largest magnitude in a + largest magnitude in b)
SeqNear(a, b, bits) ==
  LET K == MaxMagSeq(a \o <<FxZero>>) + MaxMagSeq(b \o <<FxZero>>) IN
  \A j \in DOMAIN a : FxNearK(a[j], b[j], bits, K)
FieldsWF(fs) == \A f \in DOMAIN fs : /\ fs[f].name \in {FieldNames[k] : k \in 1..7} \cup {"div", "curl"}
                                     /\ AllFxSeq(fs[f].x)
IsZeroFields(fs) == \A f \in DOMAIN fs : \A k \in DOMAIN fs[f].x : fs[f].x[k] = FxZero
\* (the wrapper calls its component and copies: same code path today, but bit-for-bit equality is not part of the property)
SameFields(a, b, bits) ==
  /\ Len(a) = Len(b)
  /\ \A f \in DOMAIN a : /\ a[f].name = b[f].name /\ a[f].shape = b[f].shape /\ Len(a[f].x) = Len(b[f].x)
                          /\ SeqNear(a[f].x, b[f].x, bits)
SameLayout(a, b) == /\ Len(a) = Len(b) /\ \A f \in DOMAIN a : a[f].name = b[f].name /\ a[f].shape = b[f].shape
WrapHarnessWF(e) == /\ SpecWF(e.spec) /\ e.wrap = Strip(e.spec)[1] /\ e.wrap \in {"Vector", "Composite"}
                    /\ e.dim \in 1..3
WrapWF(e) ==
  /\ Len(e.outer) = e.N
  /\ \A i \in DOMAIN e.outer : \A k \in DOMAIN e.outer[i] : FieldsWF(e.outer[i][k])
  /\ \A k \in DOMAIN e.inner : \A j \in DOMAIN e.inner[k] : FieldsWF(e.inner[k][j])
\* embedding of a field into entry n of a new leading axis of length dim: x = zeros except block n
EmbedHolds(fo, fi, n, dim, bits) ==
  LET m == Len(fi.x)  K == MaxMagSeq(fi.x \o <<FxZero>>) + 1 IN
  /\ fo.name = fi.name /\ fo.shape = <<dim>> \o fi.shape /\ Len(fo.x) = dim * m
  /\ \A k \in 1..(dim * m) : IF (k - 1) \div m = n - 1 THEN FxNearK(fo.x[k], fi.x[k - (n - 1) * m], bits, K)
                               ELSE fo.x[k] = FxZero
WrapBits(e) == IF SpecAnyGlobal(e.spec) THEN TolGlobBits ELSE TolAgreeBits
VectorInherits(e) ==
  /\ Len(e.inner) = 1 /\ e.N = e.dim * Len(e.inner[1])
  /\ \A i \in 1..e.N :
       LET j == ((i - 1) \div e.dim) + 1  n == ((i - 1) % e.dim) + 1
           fo == e.outer[i][1]  fi == e.inner[1][j] IN
       /\ Len(e.outer[i]) = 1 /\ Len(fo) = Len(fi)
       /\ \A f \in DOMAIN fo : EmbedHolds(fo[f], fi[f], n, e.dim, WrapBits(e))
CompositeMatches(e, i) ==      \* the pairs <<k, j>> function i may be
  {kj \in UNION {{<<k, j>> : j \in DOMAIN e.inner[k]} : k \in DOMAIN e.inner} :
     /\ SameFields(e.outer[i][kj[1]], e.inner[kj[1]][kj[2]], WrapBits(e))
     /\ \A k2 \in DOMAIN e.inner : k2 # kj[1] => /\ IsZeroFields(e.outer[i][k2])
                                                  /\ SameLayout(e.outer[i][k2], e.inner[k2][1])}
CompositeInherits(e) ==
  LET total == SumSeq([k \in DOMAIN e.inner |-> Len(e.inner[k])])
      M == [i \in 1..e.N |-> CompositeMatches(e, i)] IN
  /\ e.N = total
  /\ \A i \in 1..e.N : Len(e.outer[i]) = Len(e.inner) /\ Cardinality(M[i]) = 1
  /\ Cardinality(UNION {M[i] : i \in 1..e.N}) = e.N
WrapHolds(e) == IF e.wrap = "Vector" THEN VectorInherits(e) ELSE CompositeInherits(e)

\* ---------------------------------------------------------------------------
\* Agree: e = [spec, N, A, B]  -- gbasis of every local index i on SEVERAL cells (negatively oriented ones included):
\*   A[i][k] = field records of output k with points shared by the cells,            X of shape (dim, npts)
\*   B[i][k] = the same with the same points replicated per cell,                    X of shape (dim, ncells, npts)
\* The two evaluation forms (the two branches of every gbasis) deliver the same fields where the points coincide.
\* (That the derivative fields are true derivatives in BOTH forms is decided by the Deriv / Map events recorded in
\* both forms, tags xs = shared | percell | multi.)
AgreeHarnessWF(e) == SpecWF(e.spec)
AgreeWF(e) ==
  /\ Len(e.A) = e.N /\ Len(e.B) = e.N
  /\ \A i \in DOMAIN e.A : \A k \in DOMAIN e.A[i] : FieldsWF(e.A[i][k])
  /\ \A i \in DOMAIN e.B : \A k \in DOMAIN e.B[i] : FieldsWF(e.B[i][k])
AgreeHolds(e) ==
  LET bits == IF SpecAnyGlobal(e.spec) THEN TolGlobBits ELSE TolAgreeBits IN
  \A i \in 1..e.N :
     /\ Len(e.A[i]) = Len(e.B[i])
     /\ \A k \in DOMAIN e.A[i] :
          /\ SameLayout(e.A[i][k], e.B[i][k])
          /\ \A f \in DOMAIN e.A[i][k] :
               LET a == e.A[i][k][f].x  b == e.B[i][k][f].x IN
               /\ Len(a) = Len(b)
               /\ SeqNear(a, b, bits)

\* ---------------------------------------------------------------------------
\* CellList: e = [spec, nt, idx, R, lists]  -- gbasis with an explicit cell list tind of every shape:
\*   R[c][r][k]        = field records of output k of local index idx[r] evaluated for the SINGLE cell c (tind = <<c>>)
\*   lists[l]          = [name, tind (1-based cells), err, F] with F[r][k] the field records delivered for the whole list
\*                       (natural order, a permutation, exactly nt entries with repeats, proper subsets sorted / unsorted /
\*                       with repeats, a single cell, more than nt entries, owners of the boundary facets; int32 / int64;
\*                       shared and per-element points) at the same points
\* The fields delivered for position p of the list are those of cell tind[p].  (Derivative and duality clauses on listed
\* cells: the Deriv / Dual / Map / PoU events of every second chosen cell are recorded through a list of exactly nt
\* entries with repeats in which the cell does not sit at its own position, tags tl.)
CellSlice(f, p) ==
  LET r == Len(f.shape)  nq == f.shape[r]  nc == f.shape[r - 1]  ncomp == Len(f.x) \div (nc * nq) IN
  [m \in 1..(ncomp * nq) |-> f.x[((m - 1) \div nq) * nc * nq + (p - 1) * nq + ((m - 1) % nq) + 1]]
CellListHarnessWF(e) ==
  /\ SpecWF(e.spec) /\ e.nt >= 1 /\ Len(e.R) = e.nt
  /\ \A l \in DOMAIN e.lists : /\ Len(e.lists[l].tind) >= 1
                                /\ \A p \in DOMAIN e.lists[l].tind : e.lists[l].tind[p] \in 1..e.nt
ListFieldWF(f, n) == /\ Len(f.shape) >= 2 /\ f.shape[Len(f.shape) - 1] = n /\ f.shape[Len(f.shape)] >= 1
                     /\ Len(f.x) % (n * f.shape[Len(f.shape)]) = 0 /\ Len(f.x) >= n * f.shape[Len(f.shape)]
CellListWF(e) ==
  /\ \A c \in DOMAIN e.R : /\ Len(e.R[c]) = Len(e.idx)
                           /\ \A r \in DOMAIN e.R[c] : \A k \in DOMAIN e.R[c][r] :
                                FieldsWF(e.R[c][r][k]) /\ \A f \in DOMAIN e.R[c][r][k] : ListFieldWF(e.R[c][r][k][f], 1)
  /\ \A l \in DOMAIN e.lists : e.lists[l].err = "" =>
       /\ Len(e.lists[l].F) = Len(e.idx)
       /\ \A r \in DOMAIN e.lists[l].F : \A k \in DOMAIN e.lists[l].F[r] :
            FieldsWF(e.lists[l].F[r][k]) /\ \A f \in DOMAIN e.lists[l].F[r][k] :
                                              ListFieldWF(e.lists[l].F[r][k][f], Len(e.lists[l].tind))
CellListHolds(e) ==
  LET bits == IF SpecAnyGlobal(e.spec) THEN TolGlobBits ELSE TolAgreeBits IN
  \A l \in DOMAIN e.lists :
     LET L == e.lists[l] IN
     /\ L.err = ""
     /\ \A r \in DOMAIN e.idx : \A p \in DOMAIN L.tind :
          LET G == L.F[r]  S == e.R[L.tind[p]][r] IN
          /\ Len(G) = Len(S)
          /\ \A k \in DOMAIN G :
               /\ Len(G[k]) = Len(S[k])
               /\ \A f \in DOMAIN G[k] :
                    LET a == CellSlice(G[k][f], p)  b == S[k][f].x IN
                    /\ G[k][f].name = S[k][f].name /\ Len(a) = Len(b)
                    /\ SeqNear(a, b, bits)

\* ---------------------------------------------------------------------------
\* Dual.  e.how =
\*  "nodal"  rows = the local DOFs j that have a location, M[r][i] = phi_i(dofloc_rows[r]) (lbasis), X[r] = location
\*  "flux"   verts (integers, local order, one affine cell), ents = local facets (1-based local vertices),
\*           S[f][q][i] = value vector of function i at sample point q of facet f (gbasis)
\*  "circ"   the same with ents = local edges
\*  "named"  global elements: lay = <<nodal, edge, facet, interior dofs per entity>>, cnt = <<nnodes, nedges, nfacets>>,
\*           names = element.dofnames, verts, ents = local facets, F[pt[j]][i] = all delivered fields of function i at
\*           the image of dofloc j (value, grad, hess, .. concatenated row-major; pt[j] = index of the distinct
\*           location), ord = number of derivative orders delivered
\*  "gdof"   M[j][i] = the element's own functional gdof(., ., j) applied to the delivered fields of function i
DualRow(e) == LeafRow(e.spec)
NodalHolds(e) ==
  \A r \in DOMAIN e.rows : \A i \in 1..e.N :
     FxNearK(e.M[r][i], FxInt(IF i = e.rows[r] THEN 1 ELSE 0), TolDualBits, 1)
\* scaled facet normal: 2-D the rotated edge; 3-D triangle: cross product = 2 |f| n ; parallelogram: |f| n
EntVector(how, vs) ==
  IF how = "circ" THEN VSub(vs[2], vs[1])
  ELSE IF Len(vs[1]) = 2 THEN LET t == VSub(vs[2], vs[1]) IN <<t[2], -t[1]>>
  ELSE Cross3(VSub(vs[2], vs[1]), VSub(vs[Len(vs)], vs[1]))
EntFactor(how, vs) == IF how = "flux" /\ Len(vs[1]) = 3 /\ Len(vs) = 3 THEN 2 ELSE 1
FxDotInt(u, V) == FxSumAll([c \in DOMAIN u |-> FxMulSmall(u[c], V[c])])
\* The statement fixes duality, not the NORMALISATION of the functional nor its sign (the source scales ElementTetRT1 to
\* flux 1/2 per face, the others to 1): demanded is  l_f(phi_i) = 0 for i # f,  constant along the entity, and ONE
\* non-zero constant |c| for all entities of the cell.  The tabulated constant nn/nd is informational only.
FunctionalData(e, f) ==
  LET vs == [k \in DOMAIN e.ents[f] |-> e.verts[e.ents[f][k]]]
      V  == EntVector(e.how, vs) IN
  [V |-> V, fac |-> EntFactor(e.how, vs), big |-> MaxSet({Abs(V[c]) : c \in DOMAIN V}) + 1]
FunctionalAt(e, f, q, i) == FxDotInt(e.S[f][q][i], FunctionalData(e, f).V)
\* the constant of the cell: |l_1(phi_1)| at the first sample point, per unit of the entity factor
FunctionalHolds(e) ==
  LET c0 == FxAbs(FunctionalAt(e, 1, 1, 1))
      f0 == FunctionalData(e, 1).fac IN
  /\ FxLeq(FxTol(10), c0)                         \* not zero
  /\ \A f \in DOMAIN e.ents :
       LET D == FunctionalData(e, f) IN
       \A i \in 1..e.N :
          IF i = f
          THEN \E s \in {1, -1} : \A q \in DOMAIN e.S[f] :      \* f0 * l_f(phi_f) = s * fac_f * c0
                 FxNearK(FxMulSmall(FunctionalAt(e, f, q, i), f0), FxMulSmall(c0, s * D.fac), TolDualBits,
                         8 * D.big * MaxMagSeq(e.S[f][q][i]) + 8 * MagOf(c0))
          ELSE \A q \in DOMAIN e.S[f] :
                 FxNearK(FunctionalAt(e, f, q, i), FxZero, TolDualBits, 4 * D.big * MaxMagSeq(e.S[f][q][i]))
FunctionalNormalisationAsTabulated(e) ==
  LET row == DualRow(e)  D == FunctionalData(e, 1) IN
  \E s \in {1, -1} : FxNearK(FxMulSmall(FunctionalAt(e, 1, 1, 1), row.nd), FxInt(s * D.fac * row.nn), TolDualBits,
                             4 * D.big * row.nd * MaxMagSeq(e.S[1][1][1]))
FunctionalWF(e) ==
  /\ Len(e.verts) = NVertsOf(e.kind) /\ \A v \in DOMAIN e.verts : Len(e.verts[v]) = e.dim
  /\ \A v \in DOMAIN e.verts : \A c \in 1..e.dim : e.verts[v][c] \in -64..64
  /\ IsAffineCell(e.kind, e.verts)
  /\ \A f \in DOMAIN e.ents : \A k \in DOMAIN e.ents[f] : e.ents[f][k] \in DOMAIN e.verts
FunctionalResultWF(e) ==
  /\ Len(e.S) = Len(e.ents) /\ e.N = Len(e.ents)
  /\ \A f \in DOMAIN e.S : /\ Len(e.S[f]) >= 2
                           /\ \A q \in DOMAIN e.S[f] : /\ Len(e.S[f][q]) = e.N
                                                       /\ \A i \in 1..e.N : /\ Len(e.S[f][q][i]) = e.dim
                                                                            /\ AllFxSeq(e.S[f][q][i])
                                                                            /\ ModerateSeq(e.S[f][q][i])
\* named DOFs of global elements
NameOrder(nm) == CASE nm = "u" -> 0 [] nm \in {"u_x", "u_y", "u_z", "u_n"} -> 1
                   [] nm \in {"u_xx", "u_xy", "u_yy", "u_xz", "u_yz", "u_zz"} -> 2 [] nm = "u_xyz" -> 3 [] OTHER -> -1
AxisOf(ch) == CASE ch = "x" -> 1 [] ch = "y" -> 2 [] ch = "z" -> 3
NameAxes(nm) == CASE nm = "u_x" -> <<1>> [] nm = "u_y" -> <<2>> [] nm = "u_z" -> <<3>>
                  [] nm = "u_xx" -> <<1, 1>> [] nm = "u_xy" -> <<1, 2>> [] nm = "u_yy" -> <<2, 2>>
                  [] nm = "u_xz" -> <<1, 3>> [] nm = "u_yz" -> <<2, 3>> [] nm = "u_zz" -> <<3, 3>>
                  [] nm = "u_xyz" -> <<1, 2, 3>> [] OTHER -> <<>>
\* offset of the block of derivative order r in the concatenation value, grad, hess, ..:  1 + d + .. + d^(r-1)
BlockOffset(r, d) == LET RECURSIVE S(_) S(k) == IF k >= r THEN 0 ELSE d ^ k + S(k + 1) IN S(0)
RECURSIVE RowMajor(_, _, _)
RowMajor(ax, d, k) == IF k > Len(ax) THEN 0 ELSE (ax[k] - 1) * d ^ (Len(ax) - k) + RowMajor(ax, d, k + 1)
FieldPos(ax, d) == BlockOffset(Len(ax), d) + RowMajor(ax, d, 1) + 1
\* entity and name of local DOF j  (order of element.dofnames and of the local numbering: nodal, edge, facet, interior)
DofAttach(e, j) ==
  LET nn == e.lay[1] * e.cnt[1]  ne == e.lay[2] * e.cnt[2]  nf == e.lay[3] * e.cnt[3] IN
  IF j <= nn THEN [ent |-> "v", k |-> ((j - 1) \div e.lay[1]) + 1, nm |-> e.names[((j - 1) % e.lay[1]) + 1]]
  ELSE IF j <= nn + ne
  THEN [ent |-> "e", k |-> ((j - nn - 1) \div e.lay[2]) + 1, nm |-> e.names[e.lay[1] + ((j - nn - 1) % e.lay[2]) + 1]]
  ELSE IF j <= nn + ne + nf
  THEN [ent |-> "f", k |-> ((j - nn - ne - 1) \div e.lay[3]) + 1,
        nm |-> e.names[e.lay[1] + e.lay[2] + ((j - nn - ne - 1) % e.lay[3]) + 1]]
  ELSE [ent |-> "c", k |-> 1, nm |-> e.names[e.lay[1] + e.lay[2] + e.lay[3] + (j - nn - ne - nf)]]
NamedWF(e) ==
  /\ Len(e.lay) = 4 /\ Len(e.cnt) = 3 /\ e.ord \in 1..4
  /\ e.N = e.lay[1] * e.cnt[1] + e.lay[2] * e.cnt[2] + e.lay[3] * e.cnt[3] + e.lay[4]
  /\ Len(e.names) = e.lay[1] + e.lay[2] + e.lay[3] + e.lay[4]
  /\ Len(e.verts) = NVertsOf(e.kind) /\ \A v \in DOMAIN e.verts : Len(e.verts[v]) = e.dim
  /\ \A v \in DOMAIN e.verts : \A c \in 1..e.dim : e.verts[v][c] \in -64..64
  /\ \A f \in DOMAIN e.ents : \A k \in DOMAIN e.ents[f] : e.ents[f][k] \in DOMAIN e.verts
  /\ \A j \in 1..e.N : LET at == DofAttach(e, j) IN
       /\ NameOrder(at.nm) \in 0..(e.ord - 1)
       /\ (at.nm = "u_n" => at.ent = "f" /\ e.dim = 2 /\ at.k \in DOMAIN e.ents)
NamedResultWF(e) ==
  /\ Len(e.pt) = e.N /\ \A j \in 1..e.N : e.pt[j] \in DOMAIN e.F
  /\ \A u \in DOMAIN e.F : /\ Len(e.F[u]) = e.N
                           /\ \A i \in 1..e.N : /\ Len(e.F[u][i]) = BlockOffset(e.ord, e.dim)
                                                /\ AllFxSeq(e.F[u][i]) /\ ModerateSeq(e.F[u][i])
NamedHolds(e) ==
  \A j \in 1..e.N :
     LET at == DofAttach(e, j) IN
     IF at.nm = "u_n"
     THEN \* normal derivative at the facet's DOF location, any orientation of the normal: (grad . N)^2 = |N|^2 delta_ij
          LET vs == [k \in DOMAIN e.ents[at.k] |-> e.verts[e.ents[at.k][k]]]
              V  == EntVector("flux", vs)
              nsq == VDot(V, V)
          IN \A i \in 1..e.N :
               LET g == FxDotInt(<<e.F[e.pt[j]][i][2], e.F[e.pt[j]][i][3]>>, V) IN
               IF i = j THEN FxNearK(FxSq(g), FxInt(nsq), TolGlobBits, 4 * nsq)
               ELSE FxNearK(g, FxZero, TolGlobBits, 4 * (Abs(V[1]) + Abs(V[2]) + 1))
     ELSE \A i \in 1..e.N :
            FxNearK(e.F[e.pt[j]][i][FieldPos(NameAxes(at.nm), e.dim)], FxInt(IF i = j THEN 1 ELSE 0), TolGlobBits, 1)
GdofHolds(e) ==
  \A j \in 1..e.N : \A i \in 1..e.N : FxNearK(e.M[j][i], FxInt(IF i = j THEN 1 ELSE 0), TolGlobBits, 1)
MatrixWF(M, nr, nc) == /\ Len(M) = nr /\ \A r \in 1..nr : Len(M[r]) = nc /\ AllFxSeq(M[r]) /\ ModerateSeq(M[r])

\* informational: every DOF location lies in the closed reference cell (X = locations as Fx)
InRefCell(kind, x) ==
  LET tol == FxTol(40)
      ge0(y) == FxLeq(FxNeg(tol), y)
      le1(y) == FxLeq(y, FxAdd(FxInt(1), tol)) IN
  CASE kind \in {"line", "quad", "hex"} -> \A c \in DOMAIN x : ge0(x[c]) /\ le1(x[c])
    [] kind \in {"tri", "tet"} -> (\A c \in DOMAIN x : ge0(x[c])) /\ le1(FxSumAll(x))
    [] kind = "wedge" -> ge0(x[1]) /\ ge0(x[2]) /\ le1(FxAdd(x[1], x[2])) /\ ge0(x[3]) /\ le1(x[3])
DofLocsInCell(e) == \A r \in DOMAIN e.X : InRefCell(e.kind, e.X[r])

DualHarnessWF(e) ==
  /\ SpecWF(e.spec) /\ IsLeaf(e.spec) /\ e.kind = SpecKind(e.spec) /\ e.dim = KindDim(e.kind)
  /\ e.how \in {"nodal", "flux", "circ", "named", "gdof"}
  /\ (e.how = "nodal" => DualRow(e).dual = "nodal" /\ \A r \in DOMAIN e.rows : e.rows[r] \in 1..e.N)
  /\ (e.how \in {"flux", "circ"} => DualRow(e).dual = e.how /\ FunctionalWF(e))
  /\ (e.how \in {"named", "gdof"} => DualRow(e).dual = "global")
  /\ (e.how = "named" => NamedWF(e))
DualWF(e) ==
  CASE e.how = "nodal" -> /\ MatrixWF(e.M, Len(e.rows), e.N) /\ Len(e.X) = Len(e.rows)
                          /\ \A r \in DOMAIN e.X : Len(e.X[r]) = e.dim /\ AllFxSeq(e.X[r])
    [] e.how \in {"flux", "circ"} -> FunctionalResultWF(e)
    [] e.how = "named" -> NamedResultWF(e)
    [] e.how = "gdof" -> MatrixWF(e.M, e.N, e.N)
DualHolds(e) ==
  CASE e.how = "nodal" -> NodalHolds(e)
    [] e.how \in {"flux", "circ"} -> FunctionalHolds(e)
    [] e.how = "named" -> NamedHolds(e)
    [] e.how = "gdof" -> GdofHolds(e)

\* ---------------------------------------------------------------------------
\* PoU: e = [spec, kind, N, V]   V[q][i] = value of function i at lattice point q (lbasis, or gbasis on a cell)
PoUHarnessWF(e) == SpecWF(e.spec) /\ IsLeaf(e.spec) /\ LeafRow(e.spec).pou = 1
PoUWF(e) == \A q \in DOMAIN e.V : Len(e.V[q]) = e.N /\ AllFxSeq(e.V[q]) /\ ModerateSeq(e.V[q])
PoUHolds(e) == \A q \in DOMAIN e.V : FxNearK(FxSumAll(e.V[q]), FxInt(1), TolDualBits, e.N * MaxMagSeq(e.V[q]))

\* ---------------------------------------------------------------------------
EventKinds == {"Deriv", "Map", "Wrap", "Dual", "PoU", "Agree", "CellList"}
HarnessWF(e) ==
  /\ e.a \in EventKinds
  /\ CASE e.a = "Deriv" -> DerivHarnessWF(e) [] e.a = "Map" -> MapHarnessWF(e) [] e.a = "Wrap" -> WrapHarnessWF(e)
       [] e.a = "Dual" -> DualHarnessWF(e) [] e.a = "PoU" -> PoUHarnessWF(e) [] e.a = "Agree" -> AgreeHarnessWF(e)
       [] e.a = "CellList" -> CellListHarnessWF(e)
ResultWF(e) ==
  CASE e.a = "Deriv" -> DerivWF(e) [] e.a = "Map" -> MapWF(e) [] e.a = "Wrap" -> WrapWF(e)
    [] e.a = "Dual" -> DualWF(e) [] e.a = "PoU" -> PoUWF(e) [] e.a = "Agree" -> AgreeWF(e)
    [] e.a = "CellList" -> CellListWF(e)

C09Clauses(e) ==
  IF e.a \notin EventKinds THEN [HarnessInputWellFormed |-> FALSE]
  ELSE IF e.err # "" THEN [HarnessInputWellFormed |-> TRUE, NoUnexpectedError |-> FALSE]
  ELSE IF ~HarnessWF(e) THEN [HarnessInputWellFormed |-> FALSE]
  ELSE IF ~ResultWF(e) THEN [HarnessInputWellFormed |-> TRUE, NoUnexpectedError |-> TRUE, WellFormed |-> FALSE]
  ELSE [HarnessInputWellFormed |-> TRUE, NoUnexpectedError |-> TRUE, WellFormed |-> TRUE] @@
       (CASE e.a = "Deriv" -> (DerivClauseName(e) :> DerivHolds(e))
          [] e.a = "Map"   -> [MappingRule |-> MapHolds(e)]
          [] e.a = "Wrap"  -> [WrapperInherits |-> WrapHolds(e)]
          [] e.a = "Dual"  -> [Duality |-> DualHolds(e)] @@
                              (IF e.how = "nodal" THEN [Drift_DofLocInCell |-> DofLocsInCell(e)] ELSE <<>>) @@
                              (IF e.how \in {"flux", "circ"}
                               THEN [Drift_FunctionalNormalisation |-> FunctionalNormalisationAsTabulated(e)] ELSE <<>>)
          [] e.a = "Agree" -> [EvaluationFormsAgree |-> AgreeHolds(e)]
          [] e.a = "CellList" -> [CellListCommutes |-> CellListHolds(e)]
          [] e.a = "PoU"   -> [PartitionOfUnity |-> PoUHolds(e)])
==============================================================================
