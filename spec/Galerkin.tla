------------------------------ MODULE Galerkin ------------------------------
(* Property C06: Galerkin exactness end to end.                                *)
(*                                                                             *)
(* The oracle is a THEOREM (if the exact solution of the model problem lies in *)
(* the finite element space and the forms are integrated exactly, the discrete *)
(* solution IS that function; the L2 projection of a member of the space is    *)
(* that member).  TLC does not establish the theorem; it computes the exact    *)
(* nodal values of the scenario's polynomial from integer data and compares    *)
(* them with the recorded solution vector (mode L).                            *)
(*                                                                             *)
(* A polynomial is a sequence of terms [c |-> integer coefficient,             *)
(* e |-> exponent tuple]; a vector field is one polynomial per component.      *)
(* DOF locations are integer tuples L = S * x with the scale S stated in the   *)
(* event (S = 1, 2, 3, 4 for degree 1..4 Lagrange nodes on integer meshes).    *)
EXTENDS Prelude, Fx

ISumG(s)  == FoldLeft(LAMBDA acc, x : acc + x, 0, s)
RECURSIVE IPow(_, _)
IPow(a, n) == IF n = 0 THEN 1 ELSE a * IPow(a, n - 1)

TermDeg(tm)  == ISumG(tm.e)
PolyDeg(pol) == IF pol = <<>> THEN 0 ELSE MaxSet({TermDeg(pol[j]) : j \in DOMAIN pol})
\* P(L / S) * S^deg  as an integer:  sum_j c_j * prod_i L_i^e_i * S^(deg - |e_j|)
PolyNumerator(pol, L, S, deg) ==
  ISumG([j \in DOMAIN pol |->
           pol[j].c * FoldLeft(LAMBDA acc, i : acc * IPow(L[i], pol[j].e[i]), 1, [i \in DOMAIN L |-> i])
           * IPow(S, deg - TermDeg(pol[j]))])
\* exact value P(L/S) as [num, den]
PolyValue(pol, L, S) == LET deg == PolyDeg(pol) IN [num |-> PolyNumerator(pol, L, S, deg), den |-> IPow(S, deg)]

\* sanity of the evaluator (checked by TLC at start-up)
ASSUME PolyValue(<< [c |-> 2, e |-> <<2, 0>>], [c |-> -1, e |-> <<0, 1>>], [c |-> 3, e |-> <<0, 0>>] >>, <<3, 5>>, 2)
         = [num |-> 2 * 9 - 5 * 2 + 3 * 4, den |-> 4]                   \* 2 x^2 - y + 3 at (3/2, 5/2) = 5
ASSUME PolyValue(<< [c |-> 1, e |-> <<1, 1, 1>>] >>, <<1, 2, 3>>, 3) = [num |-> 6, den |-> 27]

\* Tolerances per unit of the solution's scale.  Calibration (quick seeds 0..4 + thorough seed 0; direct solvers
\* spsolve as is, splu, spsolve with permc_spec NATURAL / MMD_AT_PLUS_A / MMD_ATA / COLAMD, use_umfpack=False):
\*   condense / enforce solves (regular, operation-history and graded meshes), projections (regular, curved,
\*   graded nodal families):  worst observed 1.7e-12 (enforce + elasticity on a Delaunay mesh; graded enforce +
\*   reaction under splu 1.6e-12)                                    -> TolSolve    = 2^-26 = 1.5e-8  (factor 9e3)
\*   penalize (default epsilon: entries 1e10 next to O(1) ones; a backward-stable solve of THAT system gives
\*   ~1e-16 * 1e10 * cond):  8.5e-11 with spsolve, 3.7e-6 with splu  -> TolPenalize = 2^-7  = 7.8e-3  (factor 2e3)
TolSolve    == FxTol(26)
TolPenalize == FxTol(7)
TolOfMethod(method) == IF method = "penalize" THEN TolPenalize ELSE TolSolve

\* scale of the solution: 1 + the largest integer part of |P| over the DOF locations of the scenario
SolutionScale(e) ==
  1 + MaxSet({Abs(PolyValue(e.poly[e.comp[d]], e.loc[d], e.S).num) \div PolyValue(e.poly[e.comp[d]], e.loc[d], e.S).den
              : d \in DOMAIN e.loc})

\* ---- strongly graded grids: DOF locations are L / 2^S2 with S2 up to 30 (no common small denominator);
\* degree <= 1 polynomials are then evaluated in fixed point: c0 + sum_i c_i * (L_i >> S2), exactly (30 fractional
\* bits fit the 56 of Fx)
RECURSIVE FxShr(_, _)
FxShr(a, k) == IF k = 0 THEN a ELSE IF k >= 14 THEN FxShr(FxDivSmall(a, 16384), k - 14) ELSE FxDivSmall(a, 2 ^ k)
FxSumG(s) == FoldLeft(LAMBDA acc, x : FxAdd(acc, x), FxZero, s)
TermVar(tm) == CHOOSE i \in DOMAIN tm.e : tm.e[i] = 1
PolyValueDyadic(pol, L, k) ==
  FxSumG([j \in DOMAIN pol |-> IF TermDeg(pol[j]) = 0 THEN FxInt(pol[j].c)
                                ELSE FxMulSmall(FxShr(FxInt(L[TermVar(pol[j])]), k), pol[j].c)])
ASSUME PolyValueDyadic(<< [c |-> 3, e |-> <<0, 0>>], [c |-> -2, e |-> <<0, 1>>] >>, <<7, 3 * 2 ^ 19>>, 20) = FxRat(0, 1)  \* 3 - 2 * 3/2
DyadicScale(e) == 1 + MaxSet({ISumG([j \in DOMAIN e.poly[k] |-> Abs(e.poly[k][j].c)]) : k \in DOMAIN e.poly})

SolveWF(e) ==
  /\ e.err = ""
  /\ Len(e.x) = Len(e.loc) /\ Len(e.comp) = Len(e.loc) /\ Len(e.loc) >= 1
  /\ e.S2 \in 0..30
  /\ (e.S2 > 0) => /\ \A k \in DOMAIN e.poly : PolyDeg(e.poly[k]) <= 1
                    /\ \A d \in DOMAIN e.loc : \A i \in DOMAIN e.loc[d] : e.loc[d][i] \in 0..(2 ^ e.S2)
  /\ e.S \in 1..48
  /\ \A d \in DOMAIN e.loc : /\ FxWF(e.x[d]) /\ e.comp[d] \in DOMAIN e.poly
                             /\ Len(e.loc[d]) = e.dim
  /\ \A k \in DOMAIN e.poly : \A j \in DOMAIN e.poly[k] : Len(e.poly[k][j].e) = e.dim
  /\ (e.S2 = 0) => \A k \in DOMAIN e.poly : IPow(e.S, PolyDeg(e.poly[k])) <= 65536

\* every DOF of the nodal element carries the exact value of the polynomial at its location
SolutionIsInterpolant(e) ==
  IF e.S2 > 0
  THEN LET tol == FxMulSmall(TolOfMethod(e.method), Min2(DyadicScale(e), 16384)) IN       \* the solution is O(1): local scale
       \A d \in DOMAIN e.loc : FxNear(e.x[d], PolyValueDyadic(e.poly[e.comp[d]], e.loc[d], e.S2), tol)
  ELSE
  LET tol == FxMulSmall(TolOfMethod(e.method), Min2(SolutionScale(e), 16384)) IN
  \A d \in DOMAIN e.loc :
    LET v == PolyValue(e.poly[e.comp[d]], e.loc[d], e.S) IN
    FxNear(e.x[d], FxRat(v.num, v.den), tol)

\* projection of a member of the space (integer coefficient vector y0) returns the member on the DOFs of the
\* region I (whole mesh, sub-domain, boundary part)
ProjectWF(e) ==
  /\ e.err = ""
  /\ Len(e.y1) = Len(e.y0) /\ Len(e.y0) >= 1
  /\ \A d \in DOMAIN e.y1 : FxWF(e.y1[d])
  /\ \A j \in DOMAIN e.I : e.I[j] \in DOMAIN e.y0
ProjectScale(e) == 1 + MaxSet({Abs(e.y0[d]) : d \in DOMAIN e.y0})
ProjectionIsIdentity(e) ==
  LET tol == FxMulSmall(TolSolve, ProjectScale(e)) IN
  \A j \in DOMAIN e.I : FxNear(e.y1[e.I[j]], FxInt(e.y0[e.I[j]]), tol)
\* the region of a sub-domain projection: the DOFs of the selected cells (from the per-cell DOF table)
RegionOfCells(edofs, cells) == UNION {VSet(edofs[cells[j]]) : j \in DOMAIN cells}
==============================================================================
