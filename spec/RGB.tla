--------------------------------- MODULE RGB ---------------------------------
(* Red-green-blue adaptive refinement of triangle meshes (property C13):       *)
(* transcription of skfem/mesh/mesh_tri_1.py                                    *)
(*    :250-274  _adaptive_sort_mesh      (make (0,2) the longest edge)          *)
(*    :276-291  _adaptive_find_facets    (closure loop)                         *)
(*    :293-371  _adaptive_split_elements (templates, new vertices, sub-domains) *)
(*    :373-391  _adaptive                                                       *)
(* as a PlusCal algorithm: one label per stage, ONE STEP PER ITERATION of the    *)
(* closure loop, so that TLC explores the loop and checks its termination.       *)
(* Ids are 1-based; a mesh is [kind, cls, p, t, sub, bnd, hassub, hasbnd] as in  *)
(* Refinement.tla (coordinates doubled so that edge midpoints are integral).     *)
EXTENDS RGBOps

CONSTANTS MeshUniverse, \* the meshes to refine (coordinates already multiplied by 2)
          EARLYSTOP,   \* deviation: closure loop stops one iteration early
          SWAPBLUE     \* deviation: a blue template with two vertices exchanged

MarkedSeqs(m) == {SortedSeq(S) : S \in (SUBSET DOMAIN m.t) \ {{}}}

(* --fair algorithm Adaptive
variables Mesh0 \in MeshUniverse,      \* the operand
          Marked \in MarkedSeqs(Mesh0), \* EVERY non-empty marked subset
          T = <<>>,            \* sorted connectivity
          F = <<>>,            \* facets of the sorted mesh (sorted vertex pairs)
          T2F = <<>>,          \* cell -> facets
          fm = <<>>,           \* facet marks (0/1)
          prev = -1,           \* prev_nnz
          iters = 0,
          post = <<>>;
begin
  Sort:   T := [k \in DOMAIN Mesh0.t |-> SortCell(Mesh0.p, Mesh0.t[k])];
  Conn:   F := BuildEntitiesImpl(T, TriLF, TRUE).ents;
          T2F := BuildEntitiesImpl(T, TriLF, TRUE).mapping;
  Mark:   fm := [f \in DOMAIN F |-> IF \E q \in DOMAIN Marked : \E s \in 1..3 : T2F[Marked[q]][s] = f THEN 1 ELSE 0];
  Close:  while NMarked(fm) - prev > (IF EARLYSTOP THEN 1 ELSE 0) do
            prev := NMarked(fm);
            \* t2facets = facets[t2f]; t2facets[2, t2facets[0] + t2facets[1] > 0] = 1; facets[t2f[t2facets == 1]] = 1
            fm := CloseStep(T, T2F, fm);
            iters := iters + 1;
          end while;
  Split:  post := SplitImpl(Mesh0, T, F, T2F, fm, SWAPBLUE);
end algorithm *)
\* BEGIN TRANSLATION
VARIABLES pc, Mesh0, Marked, T, F, T2F, fm, prev, iters, post

vars == << pc, Mesh0, Marked, T, F, T2F, fm, prev, iters, post >>

Init == (* Global variables *)
        /\ Mesh0 \in MeshUniverse
        /\ Marked \in MarkedSeqs(Mesh0)
        /\ T = <<>>
        /\ F = <<>>
        /\ T2F = <<>>
        /\ fm = <<>>
        /\ prev = -1
        /\ iters = 0
        /\ post = <<>>
        /\ pc = "Sort"

Sort == /\ pc = "Sort"
        /\ T' = [k \in DOMAIN Mesh0.t |-> SortCell(Mesh0.p, Mesh0.t[k])]
        /\ pc' = "Conn"
        /\ UNCHANGED << Mesh0, Marked, F, T2F, fm, prev, iters, post >>

Conn == /\ pc = "Conn"
        /\ F' = BuildEntitiesImpl(T, TriLF, TRUE).ents
        /\ T2F' = BuildEntitiesImpl(T, TriLF, TRUE).mapping
        /\ pc' = "Mark"
        /\ UNCHANGED << Mesh0, Marked, T, fm, prev, iters, post >>

Mark == /\ pc = "Mark"
        /\ fm' = [f \in DOMAIN F |-> IF \E q \in DOMAIN Marked : \E s \in 1..3 : T2F[Marked[q]][s] = f THEN 1 ELSE 0]
        /\ pc' = "Close"
        /\ UNCHANGED << Mesh0, Marked, T, F, T2F, prev, iters, post >>

Close == /\ pc = "Close"
         /\ IF NMarked(fm) - prev > (IF EARLYSTOP THEN 1 ELSE 0)
               THEN /\ prev' = NMarked(fm)
                    /\ fm' = CloseStep(T, T2F, fm)
                    /\ iters' = iters + 1
                    /\ pc' = "Close"
               ELSE /\ pc' = "Split"
                    /\ UNCHANGED << fm, prev, iters >>
         /\ UNCHANGED << Mesh0, Marked, T, F, T2F, post >>

Split == /\ pc = "Split"
         /\ post' = SplitImpl(Mesh0, T, F, T2F, fm, SWAPBLUE)
         /\ pc' = "Done"
         /\ UNCHANGED << Mesh0, Marked, T, F, T2F, fm, prev, iters >>

(* Allow infinite stuttering to prevent deadlock on termination. *)
Terminating == pc = "Done" /\ UNCHANGED vars

Next == Sort \/ Conn \/ Mark \/ Close \/ Split
           \/ Terminating

Spec == /\ Init /\ [][Next]_vars
        /\ WF_vars(Next)

Termination == <>(pc = "Done")

\* END TRANSLATION
==============================================================================
