"""Element catalogue shared by the C14 / C03 / C06 drivers.

Every entry is a *factory* (fresh instance per use: several element classes cache tables on the instance, which
is C15's concern) plus the metadata the drivers need to stay inside the claims of the properties:

  kind      mesh kind the element lives on ('line' | 'tri' | 'quad' | 'tet' | 'hex' | 'wedge')
  family    C14: 'P1' (exact barycentric oracle), 'H1' (single-valued everywhere) or 'other'
  tol       'ref' (reference-mapped shape functions) | 'global' (ElementGlobal: inverted Vandermonde matrix)
  cclass    C03 continuity class, see spec/Conformity.tla ContinuityClass (None: not driven by C03)
  deg       polynomial degree reproduced exactly (C06), None if not used there
"""
import logging

import skfem.element as E

logging.getLogger('skfem').setLevel(logging.ERROR)


def _e(make, kind, family='other', tol='ref', cclass=None, deg=None, multifacet=False, meshes=None):
    return dict(make=make, kind=kind, family=family, tol=tol, cclass=cclass, deg=deg, multifacet=multifacet,
                meshes=meshes)


CATALOGUE = {
    # ---- line
    'ElementLineP0': _e(E.ElementLineP0, 'line'),
    'ElementLineP1': _e(E.ElementLineP1, 'line', 'P1', cclass='H1', deg=1),
    'ElementLineP2': _e(E.ElementLineP2, 'line', 'H1', cclass='H1', deg=2),
    'ElementLinePp3': _e(lambda: E.ElementLinePp(3), 'line', 'H1', cclass='H1', deg=3),
    'ElementLinePp4': _e(lambda: E.ElementLinePp(4), 'line', 'H1', cclass='H1', deg=4),
    'ElementLineMini': _e(E.ElementLineMini, 'line', 'H1', cclass='H1'),
    'ElementLineHermite': _e(E.ElementLineHermite, 'line', 'H1', tol='global', cclass='C1'),
    'ElementLineP1DG': _e(E.ElementLineP1DG, 'line'),
    # ---- triangle
    'ElementTriP0': _e(E.ElementTriP0, 'tri'),
    'ElementTriP1': _e(E.ElementTriP1, 'tri', 'P1', cclass='H1', deg=1),
    'ElementTriP2': _e(E.ElementTriP2, 'tri', 'H1', cclass='H1', deg=2),
    'ElementTriP3': _e(E.ElementTriP3, 'tri', 'H1', cclass='H1', deg=3, multifacet=True),
    'ElementTriP4': _e(E.ElementTriP4, 'tri', 'H1', cclass='H1', deg=4, multifacet=True),
    'ElementTriP1B': _e(E.ElementTriP1B, 'tri', 'H1', cclass='H1'),
    'ElementTriP2B': _e(E.ElementTriP2B, 'tri', 'H1', cclass='H1'),
    'ElementTriCR': _e(E.ElementTriCR, 'tri', cclass='FacetMid'),
    'ElementTriRT1': _e(E.ElementTriRT1, 'tri', cclass='Hdiv'),
    'ElementTriRT2': _e(E.ElementTriRT2, 'tri', cclass='Hdiv', multifacet=True),
    'ElementTriBDM1': _e(E.ElementTriBDM1, 'tri', cclass='Hdiv', multifacet=True),
    'ElementTriN1': _e(E.ElementTriN1, 'tri', cclass='Hcurl'),
    'ElementTriN2': _e(E.ElementTriN2, 'tri', cclass='Hcurl', multifacet=True),
    'ElementTriN3': _e(E.ElementTriN3, 'tri', cclass='Hcurl', multifacet=True),
    'ElementTriMorley': _e(E.ElementTriMorley, 'tri', tol='global', cclass='Morley'),
    'ElementTriArgyris': _e(E.ElementTriArgyris, 'tri', tol='global', cclass='C1'),
    'ElementTriHermite': _e(E.ElementTriHermite, 'tri', tol='global', cclass='VertexValGrad'),
    'ElementTri15ParamPlate': _e(E.ElementTri15ParamPlate, 'tri', tol='global', cclass='Plate15'),
    'ElementTriP1G': _e(E.ElementTriP1G, 'tri', tol='global', cclass='H1'),
    'ElementTriP2G': _e(E.ElementTriP2G, 'tri', tol='global', cclass='H1'),
    'ElementTriP1DG': _e(E.ElementTriP1DG, 'tri'),
    'ElementTriHHJ0': _e(E.ElementTriHHJ0, 'tri'),
    'ElementTriHHJ1': _e(E.ElementTriHHJ1, 'tri'),
    'ElementDG(TriP2)': _e(lambda: E.ElementDG(E.ElementTriP2()), 'tri'),
    'ElementVector(TriP1)': _e(lambda: E.ElementVector(E.ElementTriP1()), 'tri', 'H1', cclass='H1', deg=1),
    'ElementVector(TriP2)': _e(lambda: E.ElementVector(E.ElementTriP2()), 'tri', 'H1', cclass='H1', deg=2),
    'ElementVector(Vector(TriP1))': _e(lambda: E.ElementVector(E.ElementVector(E.ElementTriP1())), 'tri', 'H1'),
    # ---- quadrilateral
    'ElementQuad0': _e(E.ElementQuad0, 'quad'),
    'ElementQuad1': _e(E.ElementQuad1, 'quad', 'H1', cclass='H1', deg=1),
    'ElementQuad2': _e(E.ElementQuad2, 'quad', 'H1', cclass='H1', deg=2),
    'ElementQuadS2': _e(E.ElementQuadS2, 'quad', 'H1', cclass='H1', deg=2),
    'ElementQuadP2': _e(lambda: E.ElementQuadP(2), 'quad', cclass='H1'),
    'ElementQuadP3': _e(lambda: E.ElementQuadP(3), 'quad', cclass='H1', multifacet=True),
    'ElementQuadP4': _e(lambda: E.ElementQuadP(4), 'quad', cclass='H1', multifacet=True),
    'ElementQuadRT1': _e(E.ElementQuadRT1, 'quad', cclass='Hdiv'),
    'ElementQuadN1': _e(E.ElementQuadN1, 'quad', cclass='Hcurl'),
    'ElementQuadBFS': _e(E.ElementQuadBFS, 'quad', tol='global', cclass='C1', meshes='rect'),
    'ElementQuad2G': _e(E.ElementQuad2G, 'quad', tol='global', cclass='H1', meshes='rect'),
    'ElementQuad1DG': _e(E.ElementQuad1DG, 'quad'),
    'ElementVector(Quad2)': _e(lambda: E.ElementVector(E.ElementQuad2()), 'quad', 'H1', cclass='H1', deg=2),
    'ElementVector(Quad1)': _e(lambda: E.ElementVector(E.ElementQuad1()), 'quad', 'H1', cclass='H1', deg=1),
    # ---- tetrahedron
    'ElementTetP0': _e(E.ElementTetP0, 'tet'),
    'ElementTetP1': _e(E.ElementTetP1, 'tet', 'P1', cclass='H1', deg=1),
    'ElementTetP2': _e(E.ElementTetP2, 'tet', 'H1', cclass='H1', deg=2),
    'ElementTetMini': _e(E.ElementTetMini, 'tet', 'H1', cclass='H1'),
    'ElementTetCCR': _e(E.ElementTetCCR, 'tet', 'H1', cclass='H1'),
    'ElementTetCR': _e(E.ElementTetCR, 'tet', cclass='FacetMid'),
    'ElementTetRT1': _e(E.ElementTetRT1, 'tet', cclass='Hdiv'),
    'ElementTetN1': _e(E.ElementTetN1, 'tet', cclass='Hcurl'),
    'ElementVector(TetP1)': _e(lambda: E.ElementVector(E.ElementTetP1()), 'tet', 'H1', cclass='H1', deg=1),
    'ElementVector(TetP2)': _e(lambda: E.ElementVector(E.ElementTetP2()), 'tet', 'H1', cclass='H1', deg=2),
    # ---- hexahedron
    'ElementHex0': _e(E.ElementHex0, 'hex'),
    'ElementHex1': _e(E.ElementHex1, 'hex', 'H1', cclass='H1', deg=1),
    'ElementHex2': _e(E.ElementHex2, 'hex', 'H1', cclass='H1', deg=2),
    'ElementHexS2': _e(E.ElementHexS2, 'hex', 'H1', cclass='H1', deg=2),
    'ElementHexRT1': _e(E.ElementHexRT1, 'hex', cclass='Hdiv'),
    'ElementHexC1': _e(E.ElementHexC1, 'hex', tol='global', cclass='C1', meshes='rect'),
    'ElementHex1DG': _e(E.ElementHex1DG, 'hex'),
    'ElementVector(Hex1)': _e(lambda: E.ElementVector(E.ElementHex1()), 'hex', 'H1', cclass='H1', deg=1),
    # ---- prism
    'ElementWedge1': _e(E.ElementWedge1, 'wedge', 'H1', cclass='H1', deg=1),
}


def make(name):
    return CATALOGUE[name]['make']()


def names(kind=None, **flt):
    out = []
    for n, d in CATALOGUE.items():
        if kind is not None and d['kind'] != kind:
            continue
        if all(d.get(k) == v for k, v in flt.items()):
            out.append(n)
    return out
