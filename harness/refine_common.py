"""Shared driver for the refinement properties C12 (uniform) and C13 (adaptive).

A scenario is an initial tagged mesh (integer coordinates) and a sequence of operations; every refinement step is
one event carrying the abstract mesh before and after (integer coordinates at a common power-of-two scale, cells,
sub-domains as cell lists, boundaries as lists of facet vertex tuples taken from the code's own facets table).
"""
import logging

import numpy as np

from . import universe as U
from .core import guarded
from .project import NVERT, kind_of, find_scale

CLASSES = {}


def cls_by_name(name):
    import skfem
    if not CLASSES:
        for n in ('MeshLine1', 'MeshTri1', 'MeshQuad1', 'MeshTet1', 'MeshHex1', 'MeshWedge1',
                  'MeshTri2', 'MeshQuad2', 'MeshTet2', 'MeshHex2'):
            CLASSES[n] = getattr(skfem, n) if hasattr(skfem, n) else getattr(skfem.mesh, n)
    return CLASSES[name]


FIRST_ORDER = {'MeshTri2': 'MeshTri1', 'MeshQuad2': 'MeshQuad1', 'MeshTet2': 'MeshTet1', 'MeshHex2': 'MeshHex1'}


class LogCapture(logging.Handler):
    def __init__(self):
        super().__init__(level=logging.WARNING)
        self.records = []

    def emit(self, record):
        self.records.append(record.getMessage())


class ModelMap:
    """Piecewise affine change of coordinates for strongly stretched simplex meshes whose exact coordinates would
    overflow TLC's 32-bit integers: the ORIGINAL mesh (true vertices V) is mapped cell by cell onto a model mesh with the
    same connectivity and small integer vertices M.  The map is a homeomorphism that is affine on every original cell,
    so validity, conformity, containment in a parent and volume ratios within a parent are the same for a refinement
    and its image; which edges are longest (the bisection rule itself) is decided by the library in the true geometry.
    Barycentric coordinates are computed in exact rational arithmetic; a point in no original cell raises."""

    def __init__(self, V, T, M):
        from fractions import Fraction
        self.F = Fraction
        self.V = [[Fraction(float(x)) for x in col] for col in np.asarray(V).T]
        self.M = [[Fraction(int(x)) for x in col] for col in np.asarray(M).T]
        self.T = [[int(v) for v in col] for col in np.asarray(T).T]
        self.inv = []
        for c in self.T:
            v0 = self.V[c[0]]
            A = [[self.V[c[j + 1]][i] - v0[i] for j in range(len(c) - 1)] for i in range(len(v0))]
            self.inv.append(self._inverse(A))

    def _inverse(self, A):
        n = len(A)
        B = [row[:] + [self.F(int(i == j)) for j in range(n)] for i, row in enumerate(A)]
        for c in range(n):
            piv = next(r for r in range(c, n) if B[r][c] != 0)
            B[c], B[piv] = B[piv], B[c]
            B[c] = [x / B[c][c] for x in B[c]]
            for r in range(n):
                if r != c and B[r][c] != 0:
                    B[r] = [x - B[r][c] * y for x, y in zip(B[r], B[c])]
        return [row[n:] for row in B]

    def __call__(self, P):
        out = []
        for col in np.asarray(P).T:
            x = [self.F(float(v)) for v in col]
            for c, inv in zip(self.T, self.inv):
                d = [x[i] - self.V[c[0]][i] for i in range(len(x))]
                lam = [sum(inv[j][i] * d[i] for i in range(len(x))) for j in range(len(x))]
                if all(l >= 0 for l in lam) and sum(lam) <= 1:
                    m0 = self.M[c[0]]
                    out.append([float(m0[i] + sum(lam[j] * (self.M[c[j + 1]][i] - m0[i]) for j in range(len(lam))))
                                for i in range(len(x))])
                    break
            else:
                raise ValueError('point outside the original mesh')
        return np.array(out).T


def warn_flags(records):
    """(sub-domains, boundaries): was the caller warned?  Any record at WARNING level or above counts; the wording only
    decides WHICH kind of name it is about (a message that mentions neither counts for both), so that rewording the
    library's message cannot turn a warned drop into an alarm."""
    s = b = 0
    for r in records:
        t = str(r).lower()
        ms = 'subdomain' in t or 'sub-domain' in t
        mb = 'boundar' in t
        s, b = max(s, int(ms or not mb)), max(b, int(mb or not ms))
    return s, b


def abstract(mesh, scale, coords=None):
    """[kind, cls, p, t, sub, bnd] with exact integer coordinates p*scale (None if inexact).  `coords` replaces the
    point array (model coordinates, see ModelMap)."""
    kind = kind_of(mesh)
    nv = NVERT[kind]
    nvert = int(np.max(mesh.t[:nv])) + 1
    if type(mesh).__name__ in ('MeshLine1', 'MeshTri1', 'MeshQuad1', 'MeshTet1', 'MeshHex1', 'MeshWedge1'):
        nvert = mesh.p.shape[1]                    # first order: every point is a vertex (possibly unused)
    q = np.asarray((mesh.p if coords is None else coords)[:, :nvert], dtype=np.float64) * scale
    r = np.rint(q)
    if not np.array_equal(q, r) or (np.abs(r) > 1024).any():
        return None
    rec = {'kind': kind, 'cls': type(mesh).__name__,
           'p': [[int(x) for x in col] for col in r.T],
           't': [[int(v) + 1 for v in col] for col in mesh.t[:nv].T]}
    sub, bnd = [], []
    if mesh.subdomains is not None:
        for name, ix in mesh.subdomains.items():
            sub.append([str(name), [int(v) + 1 for v in np.asarray(ix).ravel()]])
    if mesh.boundaries is not None:
        fac = mesh.facets
        for name, ix in mesh.boundaries.items():
            ix = np.asarray(ix).ravel()
            bnd.append([str(name), [[int(v) + 1 for v in fac[:, f]] for f in ix]])
    rec['sub'], rec['bnd'] = sub, bnd
    rec['hassub'] = int(mesh.subdomains is not None)
    rec['hasbnd'] = int(mesh.boundaries is not None)
    return rec


EMPTY = {'kind': 'tri', 'cls': '', 'p': [], 't': [], 'sub': [], 'bnd': [], 'hassub': 0, 'hasbnd': 0}


def build_initial(rec):
    cls = cls_by_name(FIRST_ORDER.get(rec['cls'], rec['cls']))
    p = np.array(rec['p'], dtype=np.float64)
    t = np.array(rec['t'], dtype=np.int64)
    p, t = U.represent(p, t, rec.get('rep', 0))          # the same mesh, handed over differently
    m = cls(p, t, sort_t=False) if rec.get('sort_t') is False else cls(p, t)
    if rec['cls'] in FIRST_ORDER:
        m = cls_by_name(rec['cls']).from_mesh(m)
    if rec.get('sub'):
        m = m.with_subdomains({n: np.array(c, dtype=np.int32) for n, c in rec['sub'].items()})
    if rec.get('bnd'):
        # facets are given by their vertex sets (0-based); look the indices up in the code's table
        fac = np.sort(m.facets, axis=0)
        d = {}
        for n, fl in rec['bnd'].items():
            ix = []
            for f in fl:
                key = np.sort(np.array(f))
                hit = np.nonzero((fac == key[:, None]).all(axis=0))[0]
                if len(hit) == 1:
                    ix.append(int(hit[0]))
            d[n] = np.array(sorted(set(ix)), dtype=np.int32)
        m = m.with_boundaries(d)
    return m


def execute(rec, timeout=30):
    """Runs the operation sequence; returns the event list (one event per refinement step)."""
    events = []
    logger = logging.getLogger('skfem')
    m, err = guarded(lambda: build_initial(rec), timeout)
    if err:
        return [{'a': 'Refine', 'err': 'Setup:' + err, 'pre': EMPTY, 'post': EMPTY, 'k': 0, 'marked': [],
                 'warned_s': 0, 'warned_b': 0, 'op': 'setup'}]
    model = ModelMap(m.p, m.t, np.array(rec['model_p'], dtype=np.float64)) if rec.get('model_p') else None
    for op in rec['ops']:
        name, arg = op[0], op[1]
        if name == 'restrict':
            m2, err = guarded(lambda: m.restrict(np.array(arg, dtype=np.int32)), timeout)
            if err:
                break                                   # not a refinement step; judged by C18
            m = m2
            continue
        if name == 'oriented':
            m2, err = guarded(lambda: m.oriented(), timeout)
            if err:
                break
            m = m2
            continue
        if name == 'side':
            # an operation on the SAME object whose result is discarded (it must leave the operand untouched)
            sub, sarg = arg[0], arg[1]
            guarded(lambda: (m.refined(int(sarg)) if sub == 'refine' else
                             m.refined(np.array([a for a in sarg if a < m.t.shape[1]], dtype=np.int32)) if sub == 'adapt'
                             else m.oriented() if sub == 'oriented' else m.facets), timeout)
            continue
        import warnings as _w
        cap = LogCapture()
        logger.addHandler(cap)
        old_level = logger.level
        logger.setLevel(logging.WARNING)
        pyw = []
        try:
            with _w.catch_warnings(record=True) as wl:
                _w.simplefilter('always')
                if name == 'refine':
                    m2, err = guarded(lambda: m.refined(int(arg)), timeout)
                else:
                    marked = np.array([a for a in arg if a < m.t.shape[1]], dtype=np.int32)
                    if rec.get('marked_as') == 'list':
                        marked = [int(a) for a in marked]          # the documented alternative: a plain list of indices
                    elif rec.get('marked_as') == 'int64':
                        marked = marked.astype(np.int64)           # what np.nonzero / np.argsort hand over
                    m2, err = guarded(lambda: m.refined(marked), timeout)
                # Python-level warnings raised from library code count as well (not NumPy's own RuntimeWarnings)
                pyw = [str(x.message) for x in wl
                       if issubclass(x.category, UserWarning) and 'skfem' in str(getattr(x, 'filename', ''))]
        finally:
            logger.removeHandler(cap)
            logger.setLevel(old_level)
        ev = {'a': 'Refine' if name == 'refine' else 'Adapt', 'op': name, 'err': err, 'k': int(arg) if name == 'refine' else 0,
              'marked': [] if name == 'refine' else [int(a) + 1 for a in arg if a < m.t.shape[1]],
              'warned_s': warn_flags(cap.records + pyw)[0],
              'warned_b': warn_flags(cap.records + pyw)[1],
              'pre': EMPTY, 'post': EMPTY}
        if not err and model is not None:
            try:
                c1, c2 = model(m.p), model(m2.p)
                sc = find_scale(c2)
                pre = abstract(m, sc, c1) if sc else None
                post = abstract(m2, sc, c2) if sc else None
            except Exception as exc:
                pre = post = None
            lim = 160 if m.p.shape[0] == 3 else 1024          # products of three differences must stay below 2^31 in TLC
            if pre is not None and post is not None and max(abs(x) for q in post['p'] for x in q) > lim:
                # the model image is exact but too fine for the specification's integer range: this step is not judged
                events.append({'a': 'NotJudged', 'why': 'model coordinates beyond the exact range of the specification'})
                break
            if pre is None or post is None:
                ev['err'] = 'InexactCoordinates'
            else:
                ev['pre'], ev['post'] = pre, post
        elif not err:
            sc = find_scale(m2.p[:, :int(np.max(m2.t[:NVERT[kind_of(m2)]])) + 1]
                            if type(m2).__name__.endswith('2') else m2.p)
            pre = abstract(m, sc) if sc else None
            post = abstract(m2, sc) if sc else None
            if pre is None or post is None:
                ev['err'] = 'InexactCoordinates'
            else:
                ev['pre'], ev['post'] = pre, post
        events.append(ev)
        if err:
            break
        m = m2
    return events


# ---------------------------------------------------------------- initial meshes with tags
def facets_of(kind, t):
    """All facets (as sorted vertex tuples) of a connectivity array, with multiplicity counts."""
    lf = {'line': [[0], [1]], 'tri': [[0, 1], [1, 2], [0, 2]], 'quad': [[0, 1], [1, 2], [2, 3], [0, 3]],
          'tet': [[0, 1, 2], [0, 1, 3], [0, 2, 3], [1, 2, 3]],
          'hex': [[0, 1, 4, 2], [0, 2, 6, 3], [0, 3, 5, 1], [2, 4, 7, 6], [1, 5, 7, 4], [3, 6, 7, 5]]}[kind]
    cnt = {}
    for c in range(t.shape[1]):
        for loc in lf:
            key = tuple(sorted(int(t[i, c]) for i in loc))
            cnt[key] = cnt.get(key, 0) + 1
    return cnt


def tagged(kind, cls, p, t, rng, nsub=2, nbnd=2):
    """Recipe of an initial mesh with random sub-domain and boundary tags (interior facets included)."""
    nt = t.shape[1]
    rec = {'driver': 'refine', 'cls': cls, 'kind': kind, 'p': np.asarray(p).astype(int).tolist(),
           't': np.asarray(t).astype(int).tolist(), 'sub': {}, 'bnd': {}, 'rep': int(nt + len(p[0])) % 5}
    for s in range(nsub):
        k = int(rng.integers(1, nt + 1))
        rec['sub'][f's{s}'] = sorted(int(v) for v in rng.choice(nt, size=k, replace=False))
    fc = list(facets_of(kind, np.asarray(t)).keys())
    for b in range(nbnd):
        k = int(rng.integers(1, min(len(fc), 6) + 1))
        rec['bnd'][f'b{b}'] = [list(fc[j]) for j in sorted(rng.choice(len(fc), size=k, replace=False))]
    if rng.random() < 0.3:
        # names that designate nothing stay names that designate nothing
        rec['sub']['s_empty'] = []
        rec['bnd']['b_empty'] = []
    return rec
