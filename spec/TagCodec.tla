------------------------------ MODULE TagCodec ------------------------------
(* C17: tags stored as per-cell integer data, and the round trip through it.   *)
(*                                                                             *)
(*  - EncodeImpl / DecodeImpl : transcriptions of Mesh._encode_cell_data       *)
(*    (skfem/mesh/mesh.py:323-371) and Mesh._decode_cell_data (373-398, as     *)
(*    repaired by commit 2ed791f; DecodeImplOld keeps the earlier decoder as   *)
(*    a regression model);                                                     *)
(*    ToMeshioImpl / FromMeshioImpl : skfem/io/meshio.py:262-299 and 53-259    *)
(*    (first-order part: hexahedral vertex permutation, tags).                 *)
(*  - RoundTripClauses(pre, post) : what C17 demands, relational, on abstract  *)
(*    meshes as defined in Tags.tla (extended by tt, nv, see below); used by   *)
(*    the model-checking configurations AND by the trace specification.        *)
(*                                                                             *)
(* A "tagged mesh" of the model is [kind, p, t, sub, bnd] with                 *)
(*   sub : sequence of [name, ids]   bnd : sequence of [name, ids, ori]        *)
(* (ids 1-based, ori[i] \in {0,1}) and c = ConnImpl(...) its derived tables.    *)
EXTENDS Tags, MC_Universe

ConnOf(m) == ConnImpl(m.kind, Len(m.p), m.t, CodeLF(m.kind), CodeLE(m.kind), CodeLFE(m.kind))
NSlots(kind) == Len(CodeLF(kind))

\* projection of a tagged mesh of the model to the abstract mesh of Tags.tla (mirror of harness mesh_am)
ProjectAM(tm, c, cls) ==
  [ kind |-> tm.kind, cls |-> cls, p |-> tm.p, t |-> tm.t, tt |-> tm.t, nv |-> Len(tm.p), nf |-> Len(c.facets),
    hass |-> IF tm.sub = <<>> THEN 0 ELSE 1, hasb |-> IF tm.bnd = <<>> THEN 0 ELSE 1,
    sub |-> tm.sub,
    bnd |-> [i \in DOMAIN tm.bnd |->
               LET b == tm.bnd[i] IN
               [name |-> b.name, ids |-> b.ids, ori |-> b.ori,
                fv  |-> [j \in DOMAIN b.ids |-> c.facets[b.ids[j]]],
                own |-> [j \in DOMAIN b.ids |-> c.f2t[b.ids[j]][b.ori[j] + 1]]]] ]

\* ---------------------------------------------------------------------------
\* mesh.py:328-357  encode_boundary
\*   354  columns = self.f2t[(b.ori, b)]                     owner cell of facet i: f2t[ori[i]][ids[i]]
\*   355  r, c = np.nonzero(self.t2f[:, columns] == b)       slots r of cell columns[c] that hold facet b[c]
\*   356  t2f_mask[(r, columns[c])] = 1
\*   357  (1 << np.arange(nfacets)) @ t2f_mask              one integer per cell, bit (slot-1)
EncodeBoundaryImpl(c, ns, b) ==
  LET columns == [i \in DOMAIN b.ids |-> c.f2t[b.ids[i]][b.ori[i] + 1]]
      mask(k, s) == \E i \in DOMAIN b.ids : columns[i] = k /\ c.t2f[k][s] = b.ids[i]
  IN [k \in DOMAIN c.t2f |-> SumSeq([s \in 1..ns |-> IF mask(k, s) THEN 2 ^ (s - 1) ELSE 0])]
\* mesh.py:361-364  np.isin(np.arange(nt), subdomain).astype(int)
EncodeSubdomainImpl(nt, s) == [k \in 1..nt |-> IF \E j \in DOMAIN s.ids : s.ids[j] = k THEN 1 ELSE 0]
\* mesh.py:359-371: dictionary  "skfem:s:<name>" / "skfem:b:<name>" -> [array]; the key is kept as (typ, name)
\* (the decoder recovers the name with name.split(":", 2), mesh.py:379: a ':' inside the name survives)
EncodeImpl(tm, c) ==
  [i \in DOMAIN tm.sub |-> [typ |-> "s", name |-> tm.sub[i].name, data |-> EncodeSubdomainImpl(Len(tm.t), tm.sub[i])]]
  \o [i \in DOMAIN tm.bnd |-> [typ |-> "b", name |-> tm.bnd[i].name,
                               data |-> EncodeBoundaryImpl(c, NSlots(tm.kind), tm.bnd[i])]]

\* ---------------------------------------------------------------------------
\* mesh.py:385-397  (the decoder as repaired by commit 2ed791f)
\*   385-388  mask[s][k] = bit (s-1) of data[k]
\*   389      facets = self.t2f[mask]               boolean indexing runs slot-major, cell-minor
\*   390      cells  = mask.nonzero()[1]            same slot-major order
\*   391-392  order = np.argsort(facets, kind='stable'); facets, cells = facets[order], cells[order]
\*   393      ori    = np.arange(2) @ (self.f2t[:, facets] == cells)
\*   394-396  OrientedBoundary(facets, ori) if ori.any() else facets
Bit(x, s) == (x \div (2 ^ (s - 1))) % 2
\* slot-major enumeration of the set positions of the mask: sequence of <<facet, cell>>
MaskPairs(c, ns, data) ==
  LET nt == Len(c.t2f)
      pos == SelectSeq([q \in 1..(ns * nt) |-> <<((q - 1) \div nt) + 1, ((q - 1) % nt) + 1>>],
                       LAMBDA sk : Bit(data[sk[2]], sk[1]) = 1)
  IN [i \in DOMAIN pos |-> <<c.t2f[pos[i][2]][pos[i][1]], pos[i][2]>>]
\* stable ascending sort of a sequence of integers (np.sort), duplicates kept
RECURSIVE SortInts(_)
SortInts(s) == IF s = <<>> THEN <<>>
               ELSE LET mn == MinSet(VSet(s))
                        i  == FirstPos(s, mn)
                    IN <<mn>> \o SortInts(SubSeq(s, 1, i - 1) \o SubSeq(s, i + 1, Len(s)))
\* stable sort of a sequence of pairs by their first component (np.argsort(kind='stable') applied to both arrays)
RECURSIVE SortPairsByFirst(_)
SortPairsByFirst(s) ==
  IF s = <<>> THEN <<>>
  ELSE LET firsts == [i \in DOMAIN s |-> s[i][1]]
           i      == FirstPos(firsts, MinSet(VSet(firsts)))
       IN <<s[i]>> \o SortPairsByFirst(SubSeq(s, 1, i - 1) \o SubSeq(s, i + 1, Len(s)))
DecodeBoundaryImpl(c, ns, data) ==
  LET pairs  == SortPairsByFirst(MaskPairs(c, ns, data))                  \* 389-392
      facets == [i \in DOMAIN pairs |-> pairs[i][1]]
      cells  == [i \in DOMAIN pairs |-> pairs[i][2]]
      ori    == [i \in DOMAIN pairs |->                                    \* 393: 0*[f2t[0] = cell] + 1*[f2t[1] = cell]
                   IF c.f2t[facets[i]][2] = cells[i] THEN 1 ELSE 0]
  IN [ids |-> facets, ori |-> ori]
\* REGRESSION MODEL: the decoder before commit 2ed791f (finding #9) - facets = np.sort(self.t2f[mask]) while
\* cells = mask.nonzero()[1] stayed in slot-major order, so flags were computed against the wrong cell.
\* MC_C17_oriented.cfg must keep refuting it.
DecodeBoundaryImplOld(c, ns, data) ==
  LET pairs  == MaskPairs(c, ns, data)
      facets == SortInts([i \in DOMAIN pairs |-> pairs[i][1]])            \* sorted
      cells  == [i \in DOMAIN pairs |-> pairs[i][2]]                       \* NOT permuted with the sort
      ori    == [i \in DOMAIN pairs |-> IF c.f2t[facets[i]][2] = cells[i] THEN 1 ELSE 0]
  IN [ids |-> facets, ori |-> ori]
\* mesh.py:383  np.nonzero(data[0])[0]
DecodeSubdomainImpl(data) == SelectSeq([k \in DOMAIN data |-> k], LAMBDA k : data[k] # 0)

DecodeWith(c, ns, cd, BoundaryDecoder(_, _, _)) ==
  LET subs == SelectSeq(cd, LAMBDA x : x.typ = "s")
      bnds == SelectSeq(cd, LAMBDA x : x.typ = "b")
  IN [ sub |-> [i \in DOMAIN subs |-> [name |-> subs[i].name, ids |-> DecodeSubdomainImpl(subs[i].data)]],
       bnd |-> [i \in DOMAIN bnds |-> [name |-> bnds[i].name] @@ BoundaryDecoder(c, ns, bnds[i].data)] ]
DecodeImpl(c, ns, cd)    == DecodeWith(c, ns, cd, DecodeBoundaryImpl)
DecodeImplOld(c, ns, cd) == DecodeWith(c, ns, cd, DecodeBoundaryImplOld)

\* ---------------------------------------------------------------------------
\* io/meshio.py:42-50  HEX_MAPPING (first 8 entries), 1-based; 262-299 to_meshio, 53-259 from_meshio
HexMapping    == <<1, 4, 7, 3, 2, 6, 8, 5>>
InvHexMapping == [i \in 1..8 |-> CHOOSE j \in 1..8 : HexMapping[j] = i]
PermuteRows(t, perm) == [k \in DOMAIN t |-> [i \in DOMAIN perm |-> t[k][perm[i]]]]
ToMeshioImpl(tm, c) ==
  [ kind   |-> tm.kind, points |-> tm.p,
    cells  |-> IF tm.kind = "hex" THEN PermuteRows(tm.t, HexMapping) ELSE tm.t,          \* meshio.py:268-272
    cell_data |-> EncodeImpl(tm, c) ]                                                     \* 277-280
\* Conn(_) computes the derived tables of the temporary mesh (the model-checking module passes a memoising one)
FromMeshioWith(file, Decoder(_, _, _), Conn(_)) ==
  LET t  == IF file.kind = "hex" THEN PermuteRows(file.cells, InvHexMapping) ELSE file.cells   \* meshio.py:107-110
      m  == [kind |-> file.kind, p |-> file.points, t |-> t]
      c  == Conn(m)                                                                       \* mtmp, 124
      d  == Decoder(c, NSlots(file.kind), file.cell_data)                                 \* 236-239
  IN [tm |-> m @@ [sub |-> d.sub, bnd |-> d.bnd], c |-> c]                                \* 247-252
FromMeshioImpl(file)    == FromMeshioWith(file, DecodeImpl, ConnOf)
FromMeshioImplOld(file) == FromMeshioWith(file, DecodeImplOld, ConnOf)

\* ---------------------------------------------------------------------------
\* C17, relational.  pre / post : abstract meshes (Tags.tla) with two more fields:
\*   nv : number of vertices (vertex ids are 1..nv, further nodes of second-order meshes follow)
\*   tt : per cell the ids of ALL its nodes in the order of the cell's degree-of-freedom table
RTWellFormed(m) ==
  /\ MeshWellFormed(m) /\ TagIdsInRange(m)
  /\ m.nv \in 0..Len(m.p) /\ Len(m.tt) = Len(m.t)
  /\ \A k \in DOMAIN m.tt : \A i \in DOMAIN m.tt[k] : m.tt[k][i] \in 1..Len(m.p)
  /\ \A k \in DOMAIN m.t : \A i \in DOMAIN m.t[k] : m.t[k][i] \in 1..m.nv

SameClass(pre, post)    == pre.cls = post.cls /\ pre.kind = post.kind
\* vertex coordinates and vertex rows of t exactly as written
SameVertices(pre, post) == pre.nv = post.nv /\ SubSeq(pre.p, 1, pre.nv) = SubSeq(post.p, 1, post.nv)
\* the cell list as written; a triangle whose stored local vertex order is not ascending comes back in MeshTri1's own
\* (ascending) order - the same cell, the class is defined up to that sorting
IsAscending(q) == \A i \in 1..(Len(q) - 1) : q[i] < q[i + 1]
Resorted(pre, k) == pre.kind = "tri" /\ ~IsAscending(pre.t[k])
SameCells(pre, post)    == /\ Len(pre.t) = Len(post.t)
                           /\ \A k \in DOMAIN pre.t : IF Resorted(pre, k) THEN VSet(pre.t[k]) = VSet(post.t[k])
                                                      ELSE pre.t[k] = post.t[k]
\* every node of every cell sits where it sat (a consistent renumbering of the higher-order nodes is not judged)
NodesPerCell(pre, post) == /\ Len(pre.tt) = Len(post.tt)
                           /\ \A k \in DOMAIN pre.tt :
                                /\ Len(pre.tt[k]) = Len(post.tt[k])
                                /\ IF Resorted(pre, k)
                                   THEN {pre.p[pre.tt[k][i]] : i \in DOMAIN pre.tt[k]} = {post.p[post.tt[k][i]] : i \in DOMAIN post.tt[k]}
                                   ELSE \A i \in DOMAIN pre.tt[k] : pre.p[pre.tt[k][i]] = post.p[post.tt[k][i]]
NoNodeInvented(pre, post) == Len(pre.p) = Len(post.p)

RoundTripClauses(pre, post) ==
  IF ~(RTWellFormed(pre) /\ RTWellFormed(post)) THEN [WellFormed |-> FALSE]
  ELSE [ WellFormed |-> TRUE,
         SameClass |-> SameClass(pre, post),
         SameVertices |-> SameVertices(pre, post),
         SameCells |-> SameCells(pre, post),
         NodesPerCell |-> NodesPerCell(pre, post) /\ NoNodeInvented(pre, post),
         SameTagNames |-> SameNames(pre, post),
         SameSubdomains |-> SameSubDesignation(pre, post),
         SameBoundaryFacets |-> SameBndDesignation(pre, post),
         SameOrientation |-> SameOrientation(pre, post) ]
RoundTripOK(m, m2) == Failed(RoundTripClauses(m, m2)) = {}

\* ---- the remaining two sentences of the statement, on what the harness logs around the export call
\* user data: sequences of [name, shape, v] before the export and as read back (values are integers or opaque bit
\* patterns of the float64 values: equality only)
UserDataUnchanged(e) == e.ud_pre = e.ud_post
\* checksums of p, t and every tag array (and its orientation array) of the exported mesh, before and after
ExportDoesNotAlterMesh(e) == e.ck_pre = e.ck_post
==============================================================================
