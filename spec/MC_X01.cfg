SPECIFICATION Spec
CONSTANTS
  MAXDIM = 3
  SINGLEPASS = FALSE
INVARIANT Post
PROPERTY Terminates
CHECK_DEADLOCK FALSE
