------------------------------ MODULE TraceC02 ------------------------------
(* code -> spec: assembled functionals, mass-matrix sums and element matrices  *)
(* recorded from the real library are judged by the C02 clauses of             *)
(* Integration.tla.  Events of one scenario (same sid) after the first are the *)
(* same region renumbered / moved rigidly / refined; the first event's value   *)
(* is carried for the invariance laws.                                         *)
EXTENDS Integration

Batch  == JsonDeserialize(IOEnv.TRACE_FILE)
Events == Batch.events
N      == Len(Events)

VARIABLES i, st, bad, cnt
vars == <<i, st, bad, cnt>>

Bump(c, r) == [k \in DOMAIN c \cup DOMAIN r |->
                 (IF k \in DOMAIN c THEN c[k] ELSE 0) + (IF k \in DOMAIN r THEN 1 ELSE 0)]

Init == i = 1 /\ st = <<>> /\ bad = <<>> /\ cnt = <<>>

Step == /\ i <= N
        /\ LET e == Events[i]
               r == C02Clauses(e, IF e.pos = 1 THEN <<>> ELSE st)
           IN /\ bad' = bad \o [k \in 1..Cardinality(Failed(r)) |->
                                  [sid |-> e.sid, pos |-> e.pos, clause |-> SetToSeq(Failed(r))[k]]]
              /\ cnt' = Bump(cnt, r)
              /\ st'  = IF e.pos = 1 THEN (IF r.WellFormed THEN Carry(e) ELSE <<>>) ELSE st
        /\ i' = i + 1

Finish == /\ i = N + 1
          /\ JsonSerialize(IOEnv.OUT_FILE, [consumed |-> N, bad |-> bad, cnt |-> cnt])
          /\ i' = N + 2
          /\ UNCHANGED <<st, bad, cnt>>

Next == Step \/ Finish
Spec == Init /\ [][Next]_vars
==============================================================================
