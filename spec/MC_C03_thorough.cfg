SPECIFICATION Spec
CONSTANT Which = "main"
CONSTANT Tier = "thorough"
INVARIANT DesignConsistent
CHECK_DEADLOCK FALSE
