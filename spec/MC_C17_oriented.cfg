SPECIFICATION Spec
CONSTANT Scope = "full"
CONSTANT Decoder = "today"
INVARIANT RoundTripHolds
CHECK_DEADLOCK FALSE
