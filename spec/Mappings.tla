------------------------------ MODULE Mappings ------------------------------
(* Property C10: reference maps, Jacobians, facet maps and normals are         *)
(* mutually consistent.                                                        *)
(*                                                                             *)
(* Events (harness/props/c10.py):                                              *)
(*  Geom : one mesh + one mapping object (MappingAffine / MappingIsoparametric)*)
(*         evaluated at dyadic reference points X/D (all at distance >= 1/D    *)
(*         from the cell boundary) and at X +- 1/D along every axis:           *)
(*         per cell  F, DF, invDF, detDF, Y = invF(F(X)), Z = F(Y), F at the   *)
(*         reference vertices, detDF also as exact integer where it is one; *)
(*         per facet G at the reference-facet vertices (exact integers), G,    *)
(*         G at X +- 1/D, detDG, the normal taken from the owner cell          *)
(*         f2t[0], Yf = invF(G(X), owner), ZG = F(Yf, owner)  -- the very      *)
(*         composition FacetBasis performs (facet_basis.py:94-107).            *)
(*  Div  : per facet the assembled integral of x.n over a real FacetBasis of   *)
(*         ALL facets, per cell the assembled volume.                          *)
(*  Pair : two arrays that a law says are equal (affine vs isoparametric,      *)
(*         shared vs per-cell points, subset argument vs rows of the full      *)
(*         result), flattened, with their shapes.                              *)
(* Exact clauses use integer geometry (GeomNum); laws use Fx with TolGeom.     *)
(* The derivative of the map is taken from the RECORDED map by central         *)
(* differences with step 1/D, which are exact for maps of degree <= 2 per      *)
(* direction (affine, multilinear, quadratic): no formula of the library is    *)
(* trusted for it.                                                             *)
EXTENDS Numeric

GDim(kind) == CellDim(kind)
NVerts(kind) == CASE kind = "line" -> 2 [] kind = "tri" -> 3 [] kind = "quad" -> 4 [] kind = "tet" -> 4
                  [] kind = "hex" -> 8 [] kind = "wedge" -> 6
Simplicial(kind) == kind \in {"line", "tri", "tet"}
CellPts(e, k)  == [i \in 1..NVerts(e.kind) |-> e.p[e.cells[k][i]]]
FacetPts(e, f) == [i \in DOMAIN e.facets[f] |-> e.p[e.facets[f][i]]]

\* tolerance relative to the size of the numbers compared (integer part + 1), values below 2^13
MagOf(a) == Abs(a[1]) + 1
TolRel(a, b) == FxMulSmall(TolGeom, Max2(MagOf(a), MagOf(b)))
Near(a, b)   == FxNear(a, b, TolRel(a, b))
NearK(a, b, k) == FxNear(a, b, FxMulSmall(TolGeom, k))
AllFx(s) == \A i \in DOMAIN s : FxWF(s[i]) /\ s[i][1] \in -8000..8000
FxOfInt(n, scale) == FxRat(n, scale)

\* ---------------------------------------------------------------------------
\* 2x2 / 3x3 matrices of Fx numbers (M[i][j])
FxDet(M) ==
  CASE Len(M) = 1 -> M[1][1]
    [] Len(M) = 2 -> FxSub(FxMul(M[1][1], M[2][2]), FxMul(M[1][2], M[2][1]))
    [] Len(M) = 3 ->
        FxAdd(FxSub(FxMul(M[1][1], FxSub(FxMul(M[2][2], M[3][3]), FxMul(M[2][3], M[3][2]))),
                    FxMul(M[1][2], FxSub(FxMul(M[2][1], M[3][3]), FxMul(M[2][3], M[3][1])))),
              FxMul(M[1][3], FxSub(FxMul(M[2][1], M[3][2]), FxMul(M[2][2], M[3][1]))))
FxMatMulEntry(A, Bm, i, j) == FxSumAll([k \in 1..Len(A) |-> FxMul(A[i][k], Bm[k][j])])
MaxMag(M) == MaxSet({MagOf(M[i][j]) : i \in DOMAIN M, j \in DOMAIN M})

\* ---------------------------------------------------------------------------
GeomWF(e) ==
  LET d == GDim(e.kind) np == Len(e.X) IN
  /\ e.kind \in {"line", "tri", "quad", "tet", "hex", "wedge"} /\ e.map \in {"affine", "iso"}
  /\ e.scale \in {1, 2, 4, 8, 16, 32, 64, 128, 256} /\ e.D = 8 /\ e.straight \in {0, 1}
  /\ \A v \in DOMAIN e.p : Len(e.p[v]) = d
  /\ \A k \in DOMAIN e.cells : Len(e.cells[k]) = NVerts(e.kind) /\ \A i \in DOMAIN e.cells[k] : e.cells[k][i] \in DOMAIN e.p
  /\ \A f \in DOMAIN e.facets : \A i \in DOMAIN e.facets[f] : e.facets[f][i] \in DOMAIN e.p
  /\ Len(e.C) = Len(e.cells) /\ Len(e.Fa) = Len(e.facets)
  /\ e.facets # <<>> => /\ Len(e.t2f) = Len(e.cells) /\ Len(e.f2t) = Len(e.facets)
                        /\ \A k \in DOMAIN e.t2f : Len(e.t2f[k]) = Len(e.lf) /\ \A s \in DOMAIN e.t2f[k] : e.t2f[k][s] \in DOMAIN e.facets
                        /\ \A f \in DOMAIN e.f2t : Len(e.f2t[f]) = 2 /\ e.f2t[f][1] \in DOMAIN e.cells
                        /\ \A f \in DOMAIN e.f2t : \E s \in DOMAIN e.lf : e.t2f[e.f2t[f][1]][s] = f
  /\ \A q \in 1..np : Len(e.X[q]) = d /\ \A c \in 1..d : e.X[q][c] \in 1..(e.D - 1)
  /\ \A k \in DOMAIN e.C :
       LET c == e.C[k] IN
       /\ Len(c.F) = np /\ Len(c.DF) = np /\ Len(c.iDF) = np /\ Len(c.det) = np /\ Len(c.Y) = np /\ Len(c.Z) = np
       /\ Len(c.Fp) = np /\ Len(c.Fm) = np /\ AllFx(c.det)
       /\ \A q \in 1..np : /\ Len(c.F[q]) = d /\ AllFx(c.F[q]) /\ Len(c.Y[q]) = d /\ AllFx(c.Y[q])
                           /\ Len(c.Z[q]) = d /\ AllFx(c.Z[q])
                           /\ Len(c.DF[q]) = d /\ Len(c.iDF[q]) = d /\ Len(c.Fp[q]) = d /\ Len(c.Fm[q]) = d
                           /\ \A i \in 1..d : /\ Len(c.DF[q][i]) = d /\ AllFx(c.DF[q][i])
                                              /\ Len(c.iDF[q][i]) = d /\ AllFx(c.iDF[q][i])
                                              /\ Len(c.Fp[q][i]) = d /\ AllFx(c.Fp[q][i])
                                              /\ Len(c.Fm[q][i]) = d /\ AllFx(c.Fm[q][i])
  /\ \A f \in DOMAIN e.Fa :
       LET a == e.Fa[f] nq == Len(e.Xf) IN
       /\ Len(a.G) = nq /\ Len(a.dG) = nq /\ Len(a.n) = nq /\ Len(a.Yf) = nq /\ Len(a.ZG) = nq
       /\ Len(a.Gp) = nq /\ Len(a.Gm) = nq /\ AllFx(a.dG)
       /\ \A q \in 1..nq : /\ Len(a.G[q]) = d /\ AllFx(a.G[q]) /\ Len(a.n[q]) = d /\ AllFx(a.n[q])
                           /\ Len(a.Yf[q]) = d /\ AllFx(a.Yf[q]) /\ Len(a.ZG[q]) = d /\ AllFx(a.ZG[q])
                           /\ Len(a.Gp[q]) = d - 1 /\ Len(a.Gm[q]) = d - 1
                           /\ \A j \in 1..(d - 1) : Len(a.Gp[q][j]) = d /\ AllFx(a.Gp[q][j])
                                                    /\ Len(a.Gm[q][j]) = d /\ AllFx(a.Gm[q][j])

\* ---- exact clauses ----------------------------------------------------------
\* F at the reference vertices = the cell's vertices; G at the reference-facet vertices = the facet's vertices
MapsVertices(e) ==
  \* (compared as numbers, not bit for bit: the statement does not promise that the map is evaluated without rounding)
  /\ \A k \in DOMAIN e.C : /\ Len(e.C[k].FV) = NVerts(e.kind)
                            /\ \A v \in 1..NVerts(e.kind) : /\ Len(e.C[k].FV[v]) = GDim(e.kind)
                                                             /\ \A i \in 1..GDim(e.kind) :
                                                                  Near(e.C[k].FV[v][i], FxRat(CellPts(e, k)[v][i], e.scale))
  /\ \A f \in DOMAIN e.Fa : /\ Len(e.Fa[f].GV) = Len(e.facets[f])
                             /\ \A v \in DOMAIN e.facets[f] : /\ Len(e.Fa[f].GV[v]) = GDim(e.kind)
                                                              /\ \A i \in 1..GDim(e.kind) :
                                                                   Near(e.Fa[f].GV[v][i], FxRat(FacetPts(e, f)[v][i], e.scale))
\* detDF of a straight simplex = d! * signed volume (exact integer where delivered exactly)
DetIsSignedVolume(e) ==
  (e.straight = 1 /\ Simplicial(e.kind)) =>
    \A k \in DOMAIN e.C :
       LET sv == SimplexDet(CellPts(e, k)) d == GDim(e.kind) IN
       /\ e.C[k].detI # <<>> => e.C[k].detI[1] = sv
       /\ \A q \in DOMAIN e.C[k].det : Near(e.C[k].det[q], FxRat(sv, e.scale ^ d))
\* the normal taken from cell k points away from k's centroid:  n . (sum of k's vertices - nv * x) < 0
NormalOutward(e) ==
  e.straight = 1 =>
    \A f \in DOMAIN e.Fa :
       LET k  == e.f2t[f][1]
           nv == NVerts(e.kind)
           cs == [i \in 1..GDim(e.kind) |-> ISumAll([v \in 1..nv |-> e.p[e.cells[k][v]][i]])]
       IN \A q \in DOMAIN e.Fa[f].n :
            LET s == FxSumAll([i \in 1..GDim(e.kind) |->
                        FxMul(e.Fa[f].n[q][i], FxSub(FxRat(cs[i], e.scale), FxMulSmall(e.Fa[f].G[q][i], nv)))])
            IN FxLeq(s, FxNeg(FxTol(20)))

\* ---- laws -----------------------------------------------------------------
XQ(e, q, c) == FxRat(e.X[q][c], e.D)
InverseComposes(e) ==
  \A k \in DOMAIN e.C : \A q \in DOMAIN e.X : \A c \in 1..GDim(e.kind) :
     /\ Near(e.C[k].Y[q][c], XQ(e, q, c))                 \* invF o F = id
     /\ Near(e.C[k].Z[q][c], e.C[k].F[q][c])              \* F o invF = id  (on the points F(X))
\* DF[i][j] = d F_i / d X_j : central difference of the recorded map with h = 1/D  (1/(2h) = D/2)
JacobianIsDerivative(e) ==
  \A k \in DOMAIN e.C : \A q \in DOMAIN e.X : \A i, j \in 1..GDim(e.kind) :
     LET c == e.C[k]
         dq == FxMulSmall(FxSub(c.Fp[q][j][i], c.Fm[q][j][i]), e.D \div 2)
     IN /\ NearK(c.DF[q][i][j], dq, 8 * Max2(MagOf(c.Fp[q][j][i]), MagOf(c.DF[q][i][j])))
        \* affine cells: the exact divided difference of the vertices
        /\ (e.straight = 1 /\ Simplicial(e.kind)) =>
              Near(c.DF[q][i][j], FxRat(e.p[e.cells[k][j + 1]][i] - e.p[e.cells[k][1]][i], e.scale))
InverseJacobian(e) ==
  \A k \in DOMAIN e.C : \A q \in DOMAIN e.X : \A i, j \in 1..GDim(e.kind) :
     LET c == e.C[k] IN
     NearK(FxMatMulEntry(c.DF[q], c.iDF[q], i, j), FxInt(IF i = j THEN 1 ELSE 0), 4 * MaxMag(c.DF[q]) * MaxMag(c.iDF[q]))
DetMatches(e) ==
  \A k \in DOMAIN e.C : \A q \in DOMAIN e.X :
     LET c == e.C[k] m == MaxMag(c.DF[q]) IN NearK(c.det[q], FxDet(c.DF[q]), 8 * m * m * (IF GDim(e.kind) = 3 THEN m ELSE 1))

\* position of the facet among the local facets of its owner, and the reference facet it must lie on
SlotOf(e, f) == CHOOSE s \in DOMAIN e.lf : e.t2f[e.f2t[f][1]][s] = f
OnRefFacet(e, s, Y) ==
  LET L == {e.lf[s][i] : i \in DOMAIN e.lf[s]}
      d == GDim(e.kind)
      tol == FxMulSmall(TolGeom, 4)
      in01(y) == FxLeq(FxNeg(tol), y) /\ FxLeq(y, FxAdd(FxInt(1), tol))
      lam(v) == IF v = 1 THEN FxSub(FxInt(1), FxSumAll(Y)) ELSE Y[v - 1]      \* barycentric coordinate of local vertex v
  IN IF Simplicial(e.kind)
     THEN \A v \in 1..(d + 1) : IF v \in L THEN in01(lam(v)) ELSE FxNear(lam(v), FxZero, tol)
     ELSE \* tensor cells: the facet's reference vertices share one coordinate; Y has it too, the others are in [0,1]
          \E c \in 1..d : \E val \in {0, 1} :
             /\ \A v \in L : e.refv[v][c] = val
             /\ FxNear(Y[c], FxInt(val), tol)
             /\ \A c2 \in 1..d : in01(Y[c2])
FacetMapOnCellFace(e) ==
  \A f \in DOMAIN e.Fa : \A q \in DOMAIN e.Xf :
     /\ OnRefFacet(e, SlotOf(e, f), e.Fa[f].Yf[q])
     /\ \A i \in 1..GDim(e.kind) : Near(e.Fa[f].ZG[q][i], e.Fa[f].G[q][i])        \* the owner's map reproduces the facet point

\* detDG^2 = ((d-1)! * measure)^2 for straight planar facets (segments, triangles, parallelograms)
SurfaceFactor(e) ==
  e.straight = 1 =>
    \A f \in DOMAIN e.Fa :
       LET vs == FacetPts(e, f)
           sq == CASE Len(vs) = 1 -> 1
                   [] Len(vs) \in {2, 3} -> SimplexJacSq(vs)
                   [] Len(vs) = 4 -> SimplexJacSq(<<vs[1], vs[2], vs[4]>>)
           ok == Len(vs) < 4 \/ FacetShapeOK(vs)
           want == FxRat(sq, e.scale ^ (2 * (GDim(e.kind) - 1)))
       IN ok => \A q \in DOMAIN e.Fa[f].dG : NearK(FxSq(e.Fa[f].dG[q]), want, 4 * MagOf(want))
NormalUnit(e) ==
  \A f \in DOMAIN e.Fa : \A q \in DOMAIN e.Fa[f].n :
     NearK(FxSumAll([i \in 1..GDim(e.kind) |-> FxSq(e.Fa[f].n[q][i])]), FxInt(1), 4)
\* orthogonal to the tangents of the recorded facet map (central differences, exact up to degree 2)
NormalOrthogonal(e) ==
  \A f \in DOMAIN e.Fa : \A q \in DOMAIN e.Fa[f].n : \A j \in 1..(GDim(e.kind) - 1) :
     LET a == e.Fa[f]
         tg == [i \in 1..GDim(e.kind) |-> FxSub(a.Gp[q][j][i], a.Gm[q][j][i])]
     IN NearK(FxSumAll([i \in 1..GDim(e.kind) |-> FxMul(a.n[q][i], tg[i])]), FxZero,
              4 * MaxSet({MagOf(tg[i]) : i \in 1..GDim(e.kind)} \cup {MagOf(a.G[q][i]) : i \in 1..GDim(e.kind)}))

GeomClauses(e) ==
  [MapsVertices |-> MapsVertices(e), DetIsSignedVolume |-> DetIsSignedVolume(e),
   InverseComposes |-> InverseComposes(e), JacobianIsDerivative |-> JacobianIsDerivative(e),
   InverseJacobian |-> InverseJacobian(e), DetMatches |-> DetMatches(e)] @@
  (IF e.facets # <<>>
   THEN [FacetMapOnCellFace |-> FacetMapOnCellFace(e), SurfaceFactor |-> SurfaceFactor(e), NormalUnit |-> NormalUnit(e),
         NormalOrthogonal |-> NormalOrthogonal(e), NormalOutward |-> NormalOutward(e)]
   ELSE <<>>)

\* ---------------------------------------------------------------------------
\* Div event: boundary integral of x.n equals d times the volume -- globally over the boundary facets and cell by
\* cell over all facets (sign +1 when the cell is the facet's first neighbour, whose normal is used, else -1)
DivWF(e) ==
  /\ e.kind \in {"line", "tri", "quad", "tet", "hex"} /\ e.straight \in {0, 1} /\ e.scale \in {1, 2, 4, 8, 16, 32, 64, 128, 256}
  /\ Len(e.xn) = Len(e.facets) /\ Len(e.vol) = Len(e.cells) /\ AllFx(e.xn) /\ AllFx(e.vol)
  /\ Len(e.t2f) = Len(e.cells) /\ Len(e.f2t) = Len(e.facets)
  /\ \A k \in DOMAIN e.t2f : \A s \in DOMAIN e.t2f[k] : e.t2f[k][s] \in DOMAIN e.facets
  /\ \A f \in DOMAIN e.f2t : Len(e.f2t[f]) = 2 /\ e.f2t[f][1] \in DOMAIN e.cells /\ e.f2t[f][2] \in 0..Len(e.cells)
  /\ \A k \in DOMAIN e.cells : Len(e.cells[k]) = NVerts(e.kind) /\ \A i \in DOMAIN e.cells[k] : e.cells[k][i] \in DOMAIN e.p
CellVolume(e, k) ==      \* exact for straight cells, the recorded one otherwise
  IF e.straight = 1 /\ CellShapeOK(e.kind, CellPts(e, k))
  THEN FxRat(CellJacSum(e.kind, CellPts(e, k)), Fact(GDim(e.kind)) * e.scale ^ GDim(e.kind))
  ELSE e.vol[k]
DivergenceTheorem(e) ==
  LET d   == GDim(e.kind)
      bf  == SetToSeq({f \in DOMAIN e.facets : e.f2t[f][2] = 0})
      lhs == FxSumAll([j \in DOMAIN bf |-> e.xn[bf[j]]])
      rhs == FxMulSmall(FxSumAll([k \in DOMAIN e.cells |-> CellVolume(e, k)]), d)
  IN NearK(lhs, rhs, 16 * Max2(MagOf(lhs), MagOf(rhs)))
CellwiseDivergence(e) ==
  \A k \in DOMAIN e.cells :
     LET d   == GDim(e.kind)
         lhs == FxSumAll([s \in DOMAIN e.t2f[k] |->
                   IF e.f2t[e.t2f[k][s]][1] = k THEN e.xn[e.t2f[k][s]] ELSE FxNeg(e.xn[e.t2f[k][s]])])
         rhs == FxMulSmall(CellVolume(e, k), d)
         big == MaxSet({MagOf(e.xn[e.t2f[k][s]]) : s \in DOMAIN e.t2f[k]})
     IN NearK(lhs, rhs, 16 * big)
VolumeMatches(e) ==
  \A k \in DOMAIN e.cells : Near(e.vol[k], CellVolume(e, k))

\* ---------------------------------------------------------------------------
\* Pair event: two arrays a law declares equal
PairWF(e) ==
  \* SubsetConstructorAgrees: MappingAffine(mesh, tind=S) (Jacobians stored for the subset S only; its methods ignore
  \* their own tind, as documented) delivers what the whole-mesh mapping delivers for tind = S
  /\ e.law \in {"AffineEqualsIsoparametric", "SharedVsPerCell", "SubsetCommutes", "SubsetConstructorAgrees"}
  /\ (e.errA = "" /\ e.errB = "") => AllFx(e.A) /\ AllFx(e.B)
PairHolds(e) ==
  /\ e.errA = "" /\ e.errB = ""
  /\ e.shapeA = e.shapeB /\ Len(e.A) = Len(e.B)
  /\ \A i \in DOMAIN e.A : Near(e.A[i], e.B[i])

\* ---------------------------------------------------------------------------
\* RefDom event: the reference tables of the library (refdom.py) -- for every local facet slot the tabulated normal
\* is orthogonal to that facet of the reference cell and every other reference vertex lies strictly behind it
RefDomWF(e) ==
  /\ e.kind \in {"line", "tri", "quad", "tet", "hex", "wedge"}
  /\ Len(e.refv) = NVerts(e.kind) /\ \A v \in DOMAIN e.refv : Len(e.refv[v]) = GDim(e.kind)
  /\ Len(e.normals) = Len(e.lf) /\ \A s \in DOMAIN e.normals : Len(e.normals[s]) = GDim(e.kind)
  /\ \A s \in DOMAIN e.lf : \A i \in DOMAIN e.lf[s] : e.lf[s][i] \in DOMAIN e.refv
RefNormalsOutward(e) ==
  \A s \in DOMAIN e.lf :
     LET L == {e.lf[s][i] : i \in DOMAIN e.lf[s]} N == e.normals[s] IN
     /\ \A a, b \in L : VDot(N, VSub(e.refv[a], e.refv[b])) = 0
     /\ \A v \in (DOMAIN e.refv) \ L : \A a \in L : VDot(N, VSub(e.refv[v], e.refv[a])) < 0

\* ---------------------------------------------------------------------------
\* SurfRel event: surface factor of triangular facets of strongly ANISOTROPIC tetrahedra, to working precision
\* RELATIVE to the facet's own measure.  True coordinates are (p[1], p[2], p[3] / S) with small integers p and
\* S = 2^17 (a layer of thickness 2^-17): the cross product of two facet edges is (c1 / S, c2 / S, c3) with the
\* integer cross product c of the integer vectors.  Needle-shaped facets have c3 = 0; for them the harness logs
\* detDG * S (an exact scaling, flag sc = 1) so that the comparison is made on numbers of size one.
TolSurfRelBits == 30
SurfRelWF(e) ==
  /\ e.kind = "tet" /\ e.S = 131072
  /\ \A v \in DOMAIN e.p : Len(e.p[v]) = 3 /\ \A c \in 1..3 : e.p[v][c] \in -64..64
  /\ Len(e.d) = Len(e.facets) /\ Len(e.sc) = Len(e.facets) /\ AllFx(e.d)
  /\ \A f \in DOMAIN e.facets : /\ Len(e.facets[f]) = 3 /\ \A i \in 1..3 : e.facets[f][i] \in DOMAIN e.p
                                 /\ e.sc[f] \in {0, 1}
                                 /\ LET c == SimplexJacVec(FacetPts(e, f)) IN
                                    /\ VDot(c, c) > 0 /\ (e.sc[f] = 1 <=> c[3] = 0)
SurfaceFactorRelative(e) ==
  \A f \in DOMAIN e.facets :
     LET c    == SimplexJacVec(FacetPts(e, f))
         side == c[1] * c[1] + c[2] * c[2]
         want == IF e.sc[f] = 1 THEN FxInt(side)                                      \* (detDG * S)^2
                 ELSE FxAdd(FxInt(c[3] * c[3]), FxDivSmall(FxDivSmall(FxDivSmall(FxDivSmall(FxInt(side), 65536), 2), 65536), 2))
         tol  == FxAdd(FxDivSmall(FxDivSmall(want, 32768), 32768), FxUlp(64))          \* 2^-30 of the exact square
     IN FxNear(FxSq(e.d[f]), want, tol)

C10WellFormed(e) ==
  /\ e.a \in {"Geom", "Div", "Pair", "RefDom", "SurfRel"}
  /\ CASE e.a = "Geom" -> e.err = "" => GeomWF(e)
       [] e.a = "RefDom" -> e.err = "" => RefDomWF(e)
       [] e.a = "SurfRel" -> e.err = "" => SurfRelWF(e)
       [] e.a = "Div"  -> e.err = "" => DivWF(e)
       [] e.a = "Pair" -> PairWF(e)

C10Clauses(e) ==
  IF ~C10WellFormed(e) THEN [WellFormed |-> FALSE]
  ELSE IF e.a = "Pair" THEN [WellFormed |-> TRUE] @@ (e.law :> PairHolds(e))
  ELSE IF e.err # "" THEN [WellFormed |-> TRUE, NoUnexpectedError |-> FALSE]
  ELSE [WellFormed |-> TRUE, NoUnexpectedError |-> TRUE] @@
       (IF e.a = "Geom" THEN GeomClauses(e)
        ELSE IF e.a = "RefDom" THEN [RefNormalsOutward |-> RefNormalsOutward(e)]
        ELSE IF e.a = "SurfRel" THEN [SurfaceFactorRelative |-> SurfaceFactorRelative(e)]
        ELSE [DivergenceTheorem |-> DivergenceTheorem(e), CellwiseDivergence |-> CellwiseDivergence(e),
              VolumeMatches |-> VolumeMatches(e)])
==============================================================================
