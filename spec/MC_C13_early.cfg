SPECIFICATION Spec
CONSTANTS
  MeshUniverse <- MCUniverse
  EARLYSTOP = TRUE
  SWAPBLUE = FALSE
INVARIANT ClausesHold
INVARIANT LoopBounded


CHECK_DEADLOCK FALSE
