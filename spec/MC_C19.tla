------------------------------- MODULE MC_C19 -------------------------------
(* Design-level check of C19 (Blocks.tla):                                     *)
(*  "decode": every pair / triple of component signatures from {0,1,2}^4 with  *)
(*     1..6 local functions per component, and every ElementVector(sig, dim    *)
(*     <= 3), on a line, a triangle and a tetrahedron mesh of two cells: the   *)
(*     transcriptions of _deduce_bfun, Dofs numbering and split_indices        *)
(*     satisfy DecodeIsBijection, SplitPartitions, CellTableMatchesComponents. *)
(*  "coo":  COOData with <= 6 triplets: toarray / dot / tolocal / fromlocal /  *)
(*     inverse / __add__ transcriptions against the relational clauses.        *)
(*  "bmat": block offsets of utils.bmat for 1..5 block columns (part of the    *)
(*     main run).  MC_PART = "bmat_old" (MC_C19_bmat_old.cfg) runs the          *)
(*     pre-repair accumulation as a regression model that TLC must refute.      *)
EXTENDS Blocks

\* ---- tiny meshes (0-based entity ids), two cells sharing a facet
TopoLine == [dim |-> 1, nv |-> 3, ne |-> 0, nf |-> 3, nt |-> 2,
             t |-> <<<<0, 1>>, <<1, 2>>>>, t2e |-> <<<<>>, <<>>>>, t2f |-> <<<<0, 1>>, <<1, 2>>>>]
RefLine  == [nnodes |-> 2, nedges |-> 0, nfacets |-> 2]
TopoTri  == [dim |-> 2, nv |-> 4, ne |-> 0, nf |-> 5, nt |-> 2,
             t |-> <<<<0, 1, 2>>, <<1, 2, 3>>>>, t2e |-> <<<<>>, <<>>>>, t2f |-> <<<<0, 2, 1>>, <<2, 4, 3>>>>]
RefTri   == [nnodes |-> 3, nedges |-> 0, nfacets |-> 3]
TopoTet  == [dim |-> 3, nv |-> 5, ne |-> 9, nf |-> 7, nt |-> 2,
             t |-> <<<<0, 1, 2, 3>>, <<1, 2, 3, 4>>>>,
             t2e |-> <<<<0, 3, 1, 2, 4, 5>>, <<3, 5, 4, 6, 7, 8>>>>,
             t2f |-> <<<<0, 1, 2, 3>>, <<3, 4, 5, 6>>>>]
RefTet   == [nnodes |-> 4, nedges |-> 6, nfacets |-> 4]
Geo == {<<TopoLine, RefLine>>, <<TopoTri, RefTri>>, <<TopoTet, RefTet>>}

Sigs(g) == {s \in [nodal : 0..2, edge : 0..2, facet : 0..2, interior : 0..2] :
              /\ NBfun(s, g[2]) \in 1..6
              /\ (g[1].dim # 3 => s.edge = 0)            \* edge DOFs exist in 3-D only (dofs.py:276)
              /\ (g[1].dim = 1 => s.facet = 0)}          \* facets of a segment are its vertices
Quick == ~("MC_TIER" \in DOMAIN IOEnv /\ IOEnv.MC_TIER = "thorough")
\* seeded deviations of the transcriptions (the clauses must reject them; evidence about the specification only)
Mut == IF "MC_MUT" \in DOMAIN IOEnv THEN IOEnv.MC_MUT ELSE "none"

\* ---- adapters to the relational clauses (1-based)
Inc(seq) == [p \in DOMAIN seq |-> seq[p] + 1]
AsBasis(D) == [nb |-> Len(D.edofs[1]), nel |-> Len(D.edofs), N |-> D.N,
               edofs |-> [i \in 1..Len(D.edofs[1]) |-> [k \in 1..Len(D.edofs) |-> D.edofs[k][i] + 1]]]

CompositeClauses(g, sigs) ==
  LET topo == g[1]  ref == g[2]
      D    == DofsImpl(SumSig(sigs), topo)
      Ds   == [n \in DOMAIN sigs |-> DofsImpl(sigs[n], topo)]
      nbs  == [n \in DOMAIN sigs |-> NBfun(sigs[n], ref)]
      NB   == SumN(Len(sigs), LAMBDA n : nbs[n])
      dec  == [i \in 1..NB |-> LET d == CompositeDecodeImpl(sigs, ref, i - 1) IN <<d.n + 1, d.ind + 1>>]
      split == [n \in DOMAIN sigs |-> Inc(SplitIndicesImpl(sigs, D, topo.dim)[n])]
  IN IF ~DecodeIsBijection(dec, nbs) THEN [DecodeIsBijection |-> FALSE] ELSE
     [DecodeIsBijection |-> DecodeIsBijection(dec, nbs),
      SplitPartitions   |-> SplitPartitions(split, D.N, [n \in DOMAIN sigs |-> Ds[n].N]),
      CellTableMatchesComponents |-> /\ Len(D.edofs[1]) = NB
                                     /\ CellTableMatchesComponents(AsBasis(D), dec, split, [n \in DOMAIN sigs |-> AsBasis(Ds[n])])]
VectorClauses(g, sig, dim) ==
  LET topo == g[1]  ref == g[2]
      D    == DofsImpl(VecSig(sig, dim), topo)
      Dc   == DofsImpl(sig, topo)
      nb   == NBfun(sig, ref)
      dec  == [i \in 1..(nb * dim) |-> LET d == VectorDecode(i - 1, dim) IN
                 IF Mut = "vecswap" THEN <<d.ind + 1, d.n + 1>> ELSE <<d.n + 1, d.ind + 1>>]
      split == [n \in 1..dim |-> Inc(SplitIndicesVecImpl(sig, dim, D)[n])]
  IN IF ~DecodeIsBijection(dec, [n \in 1..dim |-> nb]) THEN [DecodeIsBijection |-> FALSE] ELSE
     [DecodeIsBijection |-> DecodeIsBijection(dec, [n \in 1..dim |-> nb]),
      SplitPartitions   |-> SplitPartitions(split, D.N, [n \in 1..dim |-> Dc.N]),
      CellTableMatchesComponents |-> /\ Len(D.edofs[1]) = nb * dim
                                     /\ CellTableMatchesComponents(AsBasis(D), dec, split, [n \in 1..dim |-> AsBasis(Dc)])]

\* ---- COOData universes
CooClauses(c) ==
  LET coo == c.coo
      c1  == Coo1(coo)
      x   == <<2, -1, 3>>
      loc == CooToLocalImpl(coo)
  IN [DenseSparseAgree |-> LET arr == CooToArrayImpl(coo) IN
                            \A pos \in AllPos(coo.shape) : arr[pos] = CooAt(c1, pos),
      DotAgrees        |-> \A D \in {{}, {1}, {0, 2}} : DotAgrees(c1, x, {d + 1 : d \in D}, CooDotImpl(coo, x, D)),
      LocalRoundTrip   |-> LocalRoundTrip(coo, CooFromLocalImpl(coo, loc)),
      AddAgrees        |-> AddAgrees(c1, Coo1(c.other), Coo1(IF Mut = "addfirst" THEN [CooAddImpl(coo, c.other) EXCEPT !.shape = coo.shape]
                                                                    ELSE CooAddImpl(coo, c.other)))]
     @@ (IF coo.lshape = <<2, 2>> /\ \A k \in DOMAIN loc : loc[k][1][1] * loc[k][2][2] - loc[k][1][2] * loc[k][2][1] \in {1, -1}
         THEN [InverseIsLocalInverse |-> InverseIsLocalInverse(loc, CooToLocalImpl(CooInverseImpl(coo)), 1, 1)]
         ELSE <<>>)

Other == [idx |-> <<<<0, 3, 1>>, <<2, 0, 1>>>>, data |-> <<5, -2, 7>>, shape |-> <<4, 3>>, lshape |-> <<1, 1>>]
DataSets == {<<1, 2, -1, 3>>, <<2, 1, 1, 1>>, <<1, 0, 3, -1>>, <<0, 1, -1, 2>>}
LShapes  == {<<2, 2>>, <<1, 2>>, <<2, 1>>, <<1, 1>>, <<4, 1>>, <<1, 4>>}

VARIABLES case, failed
vars == <<case, failed>>

Part == IF "MC_PART" \in DOMAIN IOEnv THEN IOEnv.MC_PART ELSE "main"
Init ==
  /\ failed = {"pending"}
  /\ IF Part = "bmat_old" THEN \E n \in 1..5 : \E cw \in [1..n -> 1..3] : case = [kind |-> "bmat_old", cw |-> cw] ELSE
     \/ \E n \in 1..5 : \E cw \in [1..n -> 1..3] : case = [kind |-> "bmat", cw |-> cw]
     \/ \E g \in Geo : \E s1, s2 \in Sigs(g) : case = [kind |-> "composite", g |-> g, sigs |-> <<s1, s2>>]
     \/ \E g \in Geo : \E s1, s2, s3 \in Sigs(g) :
           /\ (Quick => NBfun(s1, g[2]) + NBfun(s2, g[2]) + NBfun(s3, g[2]) <= 8)
           /\ case = [kind |-> "composite", g |-> g, sigs |-> <<s1, s2, s3>>]
     \/ \E g \in Geo : \E s \in Sigs(g) : \E dim \in 1..3 : case = [kind |-> "vector", g |-> g, sig |-> s, dim |-> dim]
     \/ \E rows \in [1..4 -> 0..2] : \E cols \in [1..4 -> 0..2] : \E d \in DataSets : \E ls \in LShapes :
           /\ (Quick => (rows[1] <= rows[2] /\ cols[3] <= cols[4]))
           /\ case = [kind |-> "coo", coo |-> [idx |-> <<rows, cols>>, data |-> d, shape |-> <<3, 3>>, lshape |-> ls],
                      other |-> Other]

ClausesOf(c) ==
  CASE c.kind = "composite" -> CompositeClauses(c.g, c.sigs)
    [] c.kind = "vector"    -> VectorClauses(c.g, c.sig, c.dim)
    [] c.kind = "coo"       -> CooClauses(c)
    [] c.kind = "bmat"      -> [BmatBlockOffsets |-> BmatBlockOffsets(c.cw, BmatOffsetsImpl(c.cw))]
    [] c.kind = "bmat_old"  -> [BmatBlockOffsets |-> BmatBlockOffsets(c.cw, BmatOffsetsOldImpl(c.cw))]

Compute == /\ failed = {"pending"}
           /\ failed' = Failed(ClausesOf(case))
           /\ UNCHANGED case
Spec == Init /\ [][Compute]_vars
ClausesHold      == failed \subseteq {"pending"}
==============================================================================
