"""C04 - DOF numbering: gap-free, shared exactly along shared entities; local matrices.

M : spec/MC_C04.cfg - TLC enumerates (mesh of the small universes) x (admissible signature, counts 0..2), runs the
    transcriptions ConnImpl + NumberDofsImpl and checks the C04 clauses of spec/Dofs.tla on the result.
R : the exported meshes x signatures are executed on the real `Dofs` / `CellBasis` with signature-only elements.
V : every exported element class (plus ElementVector / ElementComposite / ElementDG wrappers) through `CellBasis`
    on universe meshes, renumbered / re-ordered variants and integer Delaunay meshes: N, element_dofs, the entity
    tables and doflocs are validated by TraceC04; mass-like matrices on whole-mesh, cell-subset and facet bases are
    validated for shape and sparsity locality.
Python only drives the library and changes representation; every verdict is a clause evaluated by TLC.
"""
import json
import os
import warnings

import numpy as np

from .. import dofs_common as DC
from .. import universe as U
from ..core import guarded, MachineryError
from ..project import ids, kind_of

RULE = ('scenario = one mesh (integer / dyadic coordinates) with the DOF tables of several elements (one Number event '
        'each) or one assembled matrix (Matrix event). Distinct = distinct (mesh, element) or (mesh, test, trial, '
        'integration set); non-trivial = mesh has >= 2 cells sharing an entity, so sharing and locality are observable.')

SLOW = {'ElementHexC1', 'Vector(ElementHex2)'}


# ---------------------------------------------------------------- execution of recipes on the real code

def exec_number(rec):
    events = []
    mesh, merr = DC.lib(lambda: DC.make_mesh(rec['mesh']), 300)
    per = DC.period_of(rec['mesh'])
    for spec in rec['elems']:
        def build():
            # library calls only (exceptions are observations); the projection below runs outside, so that a surprise
            # in the harness is a machinery failure (exit 2) and not a verdict
            from skfem.assembly import Dofs, CellBasis
            elem = DC.build_element(spec)
            with warnings.catch_warnings():
                warnings.simplefilter('ignore')
                if rec.get('via') == 'dofs':
                    obj, cap = Dofs(mesh, elem), None
                else:
                    with DC.LogCapture() as cap:
                        obj = CellBasis(mesh, elem, intorder=rec.get('intorder', 1))
                DC.mesh_tables(mesh)                 # derived connectivity is computed lazily by the library
            return elem, obj, cap
        if merr:
            r, err = None, merr
        else:
            r, err = DC.lib(build, 600)
        if err:
            ev = DC.number_error_event(err)
        elif rec.get('via') == 'dofs':
            ev = DC.number_event(mesh, r[0], r[1], None, rec.get('drift', 0), period=per)
        else:
            elem, b, cap = r
            # observable: anything the library's own loggers report at WARNING level or above while the basis is built
            # (logger + level, not the wording of the message)
            warned = any(n.startswith('skfem') for n in cap.names)
            ev = DC.number_event(mesh, elem, b, getattr(b, 'doflocs', None), rec.get('drift', 0), with_locs=True,
                                 period=per, orient=DC.orientable(mesh, rec['mesh']), warned=warned)
        ev['tags'] = {'elem': DC.label(spec)}
        events.append(ev)
    return events


def _masslike():
    from skfem import BilinearForm

    def s(f):
        v = f.value
        return v.reshape((-1,) + v.shape[-2:]).sum(axis=0)

    @BilinearForm
    def masslike(*args):
        n = (len(args) - 1) // 2
        return sum(s(u) for u in args[:n]) * sum(s(v) for v in args[n:2 * n])
    return masslike


def exec_matrix(rec):
    sub = rec['sub']
    mode = sub['mode']

    def call():
        from skfem.assembly import CellBasis, FacetBasis
        mesh = DC.make_mesh(rec['mesh'])
        io = rec.get('intorder', 3)
        sel = np.array(sub.get('ids', []), dtype=np.int64)

        def basis(spec):
            elem = DC.build_element(spec)
            if mode == 'all':
                return CellBasis(mesh, elem, intorder=io)
            if mode == 'cells':
                return CellBasis(mesh, elem, elements=sel, intorder=io)
            return FacetBasis(mesh, elem, facets=sel, intorder=io, side=sub.get('side', 0))
        with warnings.catch_warnings():
            warnings.simplefilter('ignore')
            bt = basis(rec['test'])
            bu = bt if rec['trial'] == rec['test'] else basis(rec['trial'])
            A = _masslike().assemble(bu, bt)
        r, c = A.nonzero()
        nt = mesh.t.shape[1]
        return {'a': 'Matrix', 'err': '', 'mode': 'cells' if mode in ('all', 'cells') else 'facets',
                'cells': list(range(1, nt + 1)) if mode == 'all' else ([int(k) + 1 for k in sel] if mode == 'cells' else []),
                'facets': [int(k) + 1 for k in sel] if mode not in ('all', 'cells') else [],
                't2f': ids(mesh.t2f), 'test': DC.table(bt.dofs.element_dofs), 'trial': DC.table(bu.dofs.element_dofs),
                'Ntest': int(bt.N), 'Ntrial': int(bu.N), 'shape': [int(A.shape[0]), int(A.shape[1])],
                'nz': [[int(a), int(b)] for a, b in zip(r, c)]}
    ev, err = DC.lib(call, 900)
    if err:
        if mode in ('bfacets', 'ifacets'):
            return []            # the element / mesh type has no facet basis: nothing assembled, nothing to judge
        ev = {'a': 'Matrix', 'err': err, 'mode': 'cells', 'cells': [], 'facets': [], 't2f': [], 'test': [], 'trial': [],
              'Ntest': 0, 'Ntrial': 0, 'shape': [0, 0], 'nz': []}
    return [ev]


def execute(rec):
    if rec['driver'] == 'number':
        return exec_number(rec)
    if rec['driver'] == 'matrix':
        return exec_matrix(rec)
    if rec['driver'] == 'compbasis':
        return exec_compbasis(rec)
    return []


def scenario(sid, rec):
    tags = {'kind': rec['mesh']['kind'], 'family': rec.get('family', ''), 'driver': rec['driver']}
    if rec['driver'] == 'matrix':
        tags['elem'] = DC.label(rec['test']) + ' x ' + DC.label(rec['trial'])
        tags['sub'] = rec['sub']['mode']
    if rec['driver'] == 'compbasis':
        tags['elem'] = ' | '.join(DC.label(p['elem']) + ':' + p.get('basis', 'cell') for p in rec['parts'])
        tags['how'] = rec['how'] + ('/equal_dofnum' if rec['equal'] else '')
    return {'id': sid, 'recipe': rec, 'tags': tags, 'events': execute(rec)}


# ---------------------------------------------------------------- M + scenarios for R

def model(ctx):
    out = os.path.join(ctx.scratch, 'c04_universe.json')
    from concurrent.futures import ThreadPoolExecutor
    with ThreadPoolExecutor(max_workers=2) as ex:
        f1 = ex.submit(ctx.model_must_hold, 'MC_C04', 'MC_C04.cfg', env={'OUT_FILE': out, 'TIER': ctx.tier},
                       workers=12, timeout=1500 if ctx.tier == 'thorough' else 600)
        # regression model: the numbering reads element.dim (component count of a vector wrapper) as the spatial
        # dimension, as before fix bb3ad7e -- TLC must refute it
        f2 = ex.submit(ctx.tlc_model, 'MC_C04', 'MC_C04_olddim.cfg', env={'OUT_FILE': '', 'TIER': 'quick'}, workers=2,
                       timeout=600, label='regression model: element.dim read as the spatial dimension (before bb3ad7e)')
        f1.result()
        r = f2.result()
    ctx.notes['old_dim_reading_refuted_by_tlc'] = bool(r['violated'])
    if not r['violated']:
        raise MachineryError('MC_C04 does not refute the pre-repair reading of element.dim')
    if not os.path.exists(out):
        return []
    doc = json.load(open(out))
    rng = np.random.default_rng(ctx.seed + 4)
    sigs = {1: doc['sigs1'], 2: doc['sigs2'], 3: doc['sigs3']}
    recs = []
    full_seen = set()
    for j, m in enumerate(doc['meshes']):
        kind = m['kind']
        mrec = {'kind': kind, 'p': np.array(m['p']).T.tolist(), 't': (np.array(m['t']).T - 1).tolist(), 'scale': 1}
        ss = sigs[DC.DIM[kind]]
        key = (kind, len(m['t']))
        if key not in full_seen or (ctx.tier == 'thorough' and len(m['t']) <= 3):
            full_seen.add(key)
            pick = list(range(len(ss)))          # the full signature set on one mesh per (kind, size)
        else:
            pick = sorted(rng.choice(len(ss), min(len(ss), 12 if ctx.tier == 'thorough' else 3), replace=False).tolist())
        recs.append({'driver': 'number', 'family': 'TLC-universe', 'via': 'basis' if j % 3 == 0 else 'dofs',
                     'drift': 1, 'mesh': mrec,
                     'elems': [{'syn': {'kind': kind, 'sig': ss[i]}} for i in pick]})
    return recs


# ---------------------------------------------------------------- V: real elements, random tier, matrices

def _matrix_mesh(kind, big):
    if kind == 'line':
        p, t = U.line_points([0, 1, 3, 4, 6])
    elif kind == 'tri':
        p, t = U.tri_lattice(2, 2, (0, 1, 1, 0))
    elif kind == 'quad':
        p, t = U.quad_grid(3, 2) if not big else U.quad_grid(3, 1)
    elif kind == 'tet':
        p, t = U.tet_cubes(2, 6) if not big else U.tet_cubes(1, 5)
    elif kind == 'hex':
        p, t = U.hex_grid(3, 1, 1) if not big else U.hex_grid(2, 1, 1)
    else:
        p2, t2 = U.tri_lattice(1, 1, (0,))
        p, t = U.wedge_extrude(p2, t2, 2)
    return DC.mesh_rec(kind, p, t)


CROSS = {
    'line': [(DC.C('ElementLineP2'), DC.C('ElementLineP1'))],
    'tri': [(DC.C('ElementTriP2'), DC.C('ElementTriP1')), (DC.C('ElementTriCR'), DC.C('ElementTriP0')),
            ({'vec': DC.C('ElementTriP1')}, DC.C('ElementTriP2')), (DC.C('ElementTriRT1'), DC.C('ElementTriP0'))],
    'quad': [(DC.C('ElementQuad2'), DC.C('ElementQuad1'))],
    'tet': [(DC.C('ElementTetP2'), DC.C('ElementTetP1')), (DC.C('ElementTetN1'), DC.C('ElementTetRT1'))],
    'hex': [(DC.C('ElementHex1'), DC.C('ElementHex0'))],
    'wedge': [],
}


S_ = lambda kind, n, e, f, i: {'syn': {'kind': kind, 'sig': {'n': n, 'e': e, 'f': f, 'i': i}}}
DIRECTED_ELEMS = {
    'line': [DC.C('ElementLineP2'), DC.C('ElementLinePp', 4), S_('line', 1, 0, 0, 2)],
    'tri': [DC.C('ElementTriP3'), DC.C('ElementTriP4'), DC.C('ElementTriRT2'), DC.C('ElementTriN2'), DC.C('ElementTriBDM1'),
            DC.C('ElementTriP2'), DC.C('ElementTri15ParamPlate'), {'vec': DC.C('ElementTriP3')},
            {'comp': [DC.C('ElementTriP3'), DC.C('ElementTriP1')]}, S_('tri', 1, 0, 2, 1), S_('tri', 0, 0, 3, 2)],
    'quad': [DC.C('ElementQuad2'), DC.C('ElementQuadS2'), S_('quad', 1, 0, 1, 1)],
    'tet': [DC.C('ElementTetP2'), DC.C('ElementTetCCR'), DC.C('ElementTetN1'), S_('tet', 1, 2, 3, 1)],
    'hex': [DC.C('ElementHex2'), S_('hex', 1, 1, 1, 1)],
}


def history_meshes(thorough):
    """(family, recipe) of meshes reached through operation histories (harness/meshops.py): adaptive refinement with
    marked cells, adaptive + uniform, restrict, mirrored, m + translated copy, to_meshtri / to_meshtet, oriented."""
    H = lambda kind, start, ops: {'kind': kind, 'start': dict(start, kind=start.get('kind', kind)), 'ops': ops, 'touch': []}
    D = {'init': 'default'}
    T2 = {'init': 'tensor', 'axes': [[0, 1, 2], [0, 1]]}
    hs = [
        ('hist', H('tri', D, [['refined', 1], ['refined_marked', [0, 3]]])),
        ('hist', H('tri', D, [['refined_marked', [0]], ['refined_marked', [1, 2]], ['refined', 1]])),
        ('hist', H('tri', {'init': 'sqsymmetric'}, [['refined_marked', [0, 5]], ['refined_marked', [2, 3, 7]]])),
        ('hist', H('tri', D, [['refined', 1], ['mirrored', 0], ['refined_marked', [2, 9]]])),
        ('hist', H('tri', D, [['refined', 1], ['plus_translated', 0, 1.0], ['refined_marked', [1]]])),
        ('hist', H('tri', D, [['refined', 2], ['restrict', [0, 1, 2, 5, 6, 9, 12]], ['refined_marked', [3]]])),
        ('hist', H('tri', dict(T2, kind='quad'), [['to_meshtri'], ['refined_marked', [1]]])),
        ('hist', H('tri', dict(T2, kind='quad'), [['to_meshtri_x']])),
        ('hist-oriented', H('tri', D, [['refined', 1], ['oriented']])),
        ('hist', H('line', {'init': 'tensor', 'axes': [[0, 1, 3]]}, [['refined_marked', [0]], ['refined', 1]])),
        ('hist', H('quad', T2, [['refined', 1], ['mirrored', 1]])),
        ('hist', H('tet', D, [['refined_marked', [0]]])),
        ('hist', H('tet', {'init': 'tensor', 'kind': 'hex', 'axes': [[0, 1], [0, 1], [0, 2]]}, [['to_meshtet']])),
        ('hist', H('hex', {'init': 'tensor', 'axes': [[0, 1, 2], [0, 1], [0, 1]]}, [['mirrored', 2]])),
    ]
    if thorough:
        hs += [
            ('hist', H('tri', D, [['refined', 1], ['refined_marked', [0, 1, 2]], ['refined_marked', [4, 5]], ['refined', 1]])),
            ('hist', H('tri', {'init': 'sqsymmetric'}, [['refined', 1], ['refined_marked', [0, 7, 11]], ['mirrored', 1]])),
            ('hist', H('tet', D, [['refined', 1], ['refined_marked', [0, 5]]])),
            ('hist', H('tet', D, [['refined_marked', [0]], ['refined_marked', [2]], ['mirrored', 0]])),
            ('hist', H('quad', T2, [['refined', 1], ['restrict', [0, 1, 2, 5]]])),
        ]
    return [(fam, DC.history_rec(h)) for fam, h in hs]


def composite_basis_recipes(rng, thorough):
    """2-, 3- and 4-part composites of different sizes: CompositeBasis(b0, b1, ...), b0 * b1, (b0 * b1) is not nested by
    the library, b0 @ b1 (equal_dofnum); parts on one mesh, on different meshes with equally many cells, facet bases."""
    C = DC.C
    tri = DC.mesh_rec('tri', *U.tri_lattice(2, 2, (0, 1, 1, 0)))
    tri2 = DC.mesh_rec('tri', *U.tri_lattice(2, 2, (1, 0, 0, 1)))
    quad = DC.mesh_rec('quad', *U.quad_grid(3, 2))
    tet = DC.mesh_rec('tet', *U.tet_cubes(1, 6))
    line = DC.mesh_rec('line', *U.line_points([0, 1, 3, 4, 6]))
    hexm = DC.mesh_rec('hex', *U.hex_grid(2, 1, 1))
    P = lambda m, e, b='cell', **kw: dict({'mesh': m, 'elem': e, 'basis': b}, **kw)
    out = []

    def add(parts, how='ctor', equal=0):
        out.append({'driver': 'compbasis', 'family': 'compbasis', 'mesh': parts[0]['mesh'], 'parts': parts, 'how': how,
                    'equal': equal, 'intorder': 3})
    add([P(tri, C('ElementTriP2')), P(tri, C('ElementTriP1'))], how='mul')
    add([P(tri, C('ElementTriP2')), P(tri, C('ElementTriP1')), P(tri, C('ElementTriP0'))])
    add([P(tri, C('ElementTriP1')), P(tri, {'vec': C('ElementTriP2')}), P(tri, C('ElementTriP0')), P(tri, C('ElementTriCR'))])
    add([P(tri, C('ElementTriP0')), P(tri, C('ElementTriP2')), P(tri2, C('ElementTriP1'))])          # two meshes
    add([P(quad, C('ElementQuad2')), P(quad, C('ElementQuad1')), P(quad, C('ElementQuad0'))])
    add([P(tet, C('ElementTetP1')), P(tet, C('ElementTetP2')), P(tet, C('ElementTetP0')), P(tet, C('ElementTetP1'))])
    add([P(line, C('ElementLineP2')), P(line, C('ElementLineP1')), P(line, C('ElementLineP0'))])
    add([P(hexm, C('ElementHex1')), P(hexm, C('ElementHex0')), P(hexm, C('ElementHex2'))])
    add([P(tri, C('ElementTriP2')), P(tri, C('ElementTriP2'))], how='matmul', equal=1)
    add([P(tri, C('ElementTriP1')), P(tri, C('ElementTriP1')), P(tri, C('ElementTriP1'))], equal=1)
    add([P(tri, C('ElementTriP2'), 'facet'), P(tri, C('ElementTriP1'), 'facet'), P(tri, C('ElementTriP0'), 'facet')])
    add([P(tri, C('ElementTriP1'), 'ifacet', side=0), P(tri, C('ElementTriP1'), 'ifacet', side=1),
         P(tri, C('ElementTriP2'), 'ifacet', side=0)])
    add([P(quad, C('ElementQuad1'), 'subset', ids=[0, 2, 3]), P(quad, C('ElementQuad2'), 'subset', ids=[0, 2, 3]),
         P(quad, C('ElementQuad0'), 'subset', ids=[0, 2, 3])])
    if thorough:
        add([P(tet, {'vec': C('ElementTetP2')}), P(tet, C('ElementTetP1')), P(tet, C('ElementTetP0'))])
        add([P(quad, C('ElementQuad2')), P(quad, C('ElementQuad2')), P(quad, C('ElementQuad2')), P(quad, C('ElementQuad2'))],
            equal=1)
        add([P(tet, C('ElementTetP2'), 'facet'), P(tet, C('ElementTetP1'), 'facet'), P(tet, C('ElementTetP2'), 'facet')])
        add([P(hexm, C('ElementHex2')), P(hexm, C('ElementHex1')), P(hexm, C('ElementHex1')), P(hexm, C('ElementHex0'))])
    return out


def exec_compbasis(rec):
    """Numbering of a CompositeBasis and of its parts; for cell bases over whole meshes also a block mass matrix."""
    def call():
        from skfem.assembly import CellBasis, FacetBasis, InteriorFacetBasis
        from skfem.assembly.basis.composite_basis import CompositeBasis
        io = rec.get('intorder', 3)
        meshes = {}
        bases = []
        for p in rec['parts']:
            key = json.dumps(p['mesh'], sort_keys=True)
            if key not in meshes:
                meshes[key] = DC.make_mesh(p['mesh'])
            m = meshes[key]
            e = DC.build_element(p['elem'])
            kind = p.get('basis', 'cell')
            with warnings.catch_warnings():
                warnings.simplefilter('ignore')
                if kind == 'cell':
                    b = CellBasis(m, e, intorder=io)
                elif kind == 'subset':
                    b = CellBasis(m, e, intorder=io, elements=np.array(p['ids'], dtype=np.int64))
                elif kind == 'facet':
                    b = FacetBasis(m, e, intorder=io)
                else:
                    b = InteriorFacetBasis(m, e, intorder=io, side=int(p.get('side', 0)))
            bases.append(b)
        if rec['how'] == 'mul':
            cb = bases[0] * bases[1]
        elif rec['how'] == 'matmul':
            cb = bases[0] @ bases[1]
        else:
            cb = CompositeBasis(*bases, equal_dofnum=bool(rec['equal']))
        whole = int(all(p.get('basis', 'cell') == 'cell' for p in rec['parts']))
        evs = [{'a': 'CompositeBasis', 'err': '', 'equal': int(rec['equal']), 'whole': whole, 'N': int(cb.N),
                'cell': DC.table(cb.element_dofs),
                'parts': [{'N': int(b.N), 'cell': DC.table(b.element_dofs)} for b in bases]}]
        if whole:
            with warnings.catch_warnings():
                warnings.simplefilter('ignore')
                A = _masslike().assemble(cb)
            r, c = A.nonzero()
            m0 = bases[0].mesh
            nt = m0.t.shape[1]
            tab = DC.table(cb.element_dofs)
            evs.append({'a': 'Matrix', 'err': '', 'mode': 'cells', 'cells': list(range(1, nt + 1)), 'facets': [],
                        't2f': ids(m0.t2f), 'test': tab, 'trial': tab, 'Ntest': int(cb.N), 'Ntrial': int(cb.N),
                        'shape': [int(A.shape[0]), int(A.shape[1])], 'cover': 1,
                        'nz': [[int(a), int(b)] for a, b in zip(r, c)]})
        return evs
    evs, err = DC.lib(call, 900)
    if err:
        evs = [{'a': 'CompositeBasis', 'err': err, 'equal': 0, 'whole': 0, 'N': 0, 'cell': [], 'parts': []}]
    return evs


def generate(ctx):
    rng = np.random.default_rng(ctx.seed + 40)
    thorough = ctx.tier == 'thorough'
    recs = []
    meshes = DC.universe_meshes(rng, ctx.tier)
    by_kind = {}
    for fam, mrec in meshes:
        by_kind.setdefault(mrec['kind'], []).append((fam, mrec))
    # --- Number events of every exported element class and the wrappers
    for kind, ms in by_kind.items():
        cat = DC.catalogue(kind)
        small = [x for x in ms if len(x[1]['t'][0]) <= 2] or ms[:1]
        for j, item in enumerate(ms):
            fam, mrec = item
            nt = len(mrec['t'][0])
            elems = []
            for q, spec in enumerate(cat):
                lab = DC.label(spec)
                if lab in SLOW:
                    if item is not small[0] and not (thorough and nt <= 2):
                        continue
                elif not thorough and (q + j) % max(1, len(ms) // 2) != 0:
                    continue                     # quick: every element on about two meshes of its kind
                elems.append(spec)
            # keep events of one scenario moderate in size
            for a in range(0, len(elems), 12):
                recs.append({'driver': 'number', 'family': fam, 'via': 'basis', 'drift': 1, 'mesh': mrec,
                             'elems': elems[a:a + 12]})
    # --- periodic meshes (identified topology, per-cell geometry): Number events and a few matrices
    for fam, mrec in DC.periodic_meshes(ctx.tier):
        kind = mrec['kind']
        nt = len(mrec['t'][0])
        elems = [s for s in DC.PERIODIC_ELEMS[kind] if thorough or nt <= 9 or DC.label(s) in ('ElementHex1', 'ElementHex2')]
        recs.append({'driver': 'number', 'family': fam, 'via': 'basis', 'drift': 1, 'mesh': mrec, 'elems': elems})
        if len(mrec['periodic']['dirs']) >= 2 or thorough:
            st = DC.PERIODIC_ELEMS[kind][1 if nt <= 9 else 0]
            base = {'driver': 'matrix', 'family': fam, 'mesh': mrec, 'test': st, 'trial': st, 'intorder': 3}
            recs.append(dict(base, sub={'mode': 'all'}))
            recs.append(dict(base, sub={'mode': 'cells',
                                        'ids': sorted(rng.choice(nt, max(1, nt // 3), replace=False).tolist())}))
    # --- meshes reached through operation histories x elements with several DOFs per facet ordered along the facet
    for fam, mrec in history_meshes(thorough):
        kind = mrec['kind']
        recs.append({'driver': 'number', 'family': fam, 'via': 'basis', 'drift': 1, 'mesh': mrec,
                     'elems': DIRECTED_ELEMS[kind]})
    # --- CompositeBasis numberings (several bases glued)
    recs += composite_basis_recipes(rng, thorough)
    # --- Matrix events
    for kind in by_kind:
        cat = DC.catalogue(kind)
        pairs = [(s, s) for s in cat if DC.label(s) not in SLOW] + CROSS[kind]
        for q, (st, su) in enumerate(pairs):
            e, berr = guarded(lambda: DC.build_element(st), 30)      # a failing constructor is judged when executed
            big = bool(berr) or int(e._bfun_counts().sum()) > 16
            mrec = _matrix_mesh(kind, big)
            mesh = DC.make_mesh(mrec)
            nt = mesh.t.shape[1]
            base = {'driver': 'matrix', 'family': 'matrix', 'mesh': mrec, 'test': st, 'trial': su, 'intorder': 3}
            recs.append(dict(base, sub={'mode': 'all'}))
            if not thorough and q % 2 == 1 and st == su:
                continue
            k = max(1, nt // 2)
            cells = sorted(rng.choice(nt, k, replace=False).tolist())
            recs.append(dict(base, sub={'mode': 'cells', 'ids': cells}))
            bf = mesh.boundary_facets()
            inf = np.setdiff1d(np.arange(mesh.facets.shape[1]), bf)
            if len(bf):
                sel = sorted(rng.choice(bf, max(1, len(bf) // 3), replace=False).tolist())
                recs.append(dict(base, sub={'mode': 'bfacets', 'ids': sel}))
            if len(inf):
                sel = sorted(rng.choice(inf, max(1, len(inf) // 2), replace=False).tolist())
                recs.append(dict(base, sub={'mode': 'ifacets', 'ids': sel, 'side': int(q % 2)}))
    # --- matrices on integer Delaunay meshes (irregular valence, arbitrary local orders)
    dl = {'tri': [(DC.C('ElementTriP2'), DC.C('ElementTriP2')), (DC.C('ElementTriRT1'), DC.C('ElementTriP0')),
                  ({'comp': [DC.C('ElementTriMini'), DC.C('ElementTriP1')]},) * 2, ({'dg': DC.C('ElementTriP1')},) * 2],
          'tet': [(DC.C('ElementTetP2'), DC.C('ElementTetP1')), (DC.C('ElementTetN1'), DC.C('ElementTetN1')),
                  ({'comp': [DC.C('ElementTetN1'), DC.C('ElementTetRT1')]},) * 2]}
    for j in range(8 if thorough else 2):
        dim = 2 + (j % 2)
        kind = 'tri' if dim == 2 else 'tet'
        p, t = U.delaunay_int(dim, int(rng.integers(7, 13 if dim == 2 else 8)), 6 if dim == 2 else 3, rng)
        if t.shape[1] < 3:
            continue
        t = U.apply_local_orders(kind, t, rng)
        mrec = DC.mesh_rec(kind, p, t)
        nt = t.shape[1]
        for (st, su) in dl[kind]:
            base = {'driver': 'matrix', 'family': 'matrix-delaunay', 'mesh': mrec, 'test': st, 'trial': su,
                    'intorder': 3}
            recs.append(dict(base, sub={'mode': 'all'}))
            recs.append(dict(base, sub={'mode': 'cells',
                                        'ids': sorted(rng.choice(nt, max(1, nt // 3), replace=False).tolist())}))
    return recs


def _key(rec):
    if rec['driver'] == 'number':
        return [json.dumps([rec['mesh'], s], sort_keys=True) for s in rec['elems']]
    if rec['driver'] == 'compbasis':
        return [json.dumps([rec['parts'], rec['how'], rec['equal']], sort_keys=True)]
    return [json.dumps([rec['mesh'], rec['test'], rec['trial'], rec['sub']], sort_keys=True)]


def run(ctx):
    recs = model(ctx)
    n_tlc = len(recs)
    recs += generate(ctx)
    keys = set()
    nontrivial = 0
    chunk = 1500
    k0 = 0
    dropped = 0
    for a in range(0, len(recs), chunk):
        scs = []
        for rec in recs[a:a + chunk]:
            sc = scenario(f'C04-{k0}', rec)
            k0 += 1
            if not sc['events']:
                dropped += 1
                continue
            scs.append(sc)
            if len(rec['mesh']['t'][0]) >= 2:
                for k in _key(rec):
                    if k not in keys:
                        keys.add(k)
                        nontrivial += 1
        ctx.validate('TraceC04', scs, jvms=8)
    if ctx.tier == 'thorough':
        # every DOF numbering the repository's own tests build on a small mesh, judged by the same clauses
        from .. import suite
        evs = suite.record(ctx, files=['tests/test_basis.py', 'tests/test_dofs.py', 'tests/test_assembly.py',
                                       'tests/test_elements.py', 'tests/test_utils.py'])['dofs']
        # precondition of the statement as this check reads it (see assumptions): no point that belongs to no cell --
        # the multi-mesh tests (m1 @ m2) build bases on meshes with such points, their DOFs are unused by construction
        full = [e for e in evs if {v for c in e['t'] for v in c} == set(range(1, e['nv'] + 1))]
        ctx.notes['suite_numberings_skipped_unused_vertices'] = len(evs) - len(full)
        scs = [{'id': f'C04-suite-{k}', 'recipe': {'driver': 'suite', 'test': e.pop('test', ''), 'elem': e.pop('elem', '')},
                'tags': {'family': 'suite'}, 'events': [e]} for k, e in enumerate(full)]
        ctx.validate('TraceC04', scs, jvms=8)
        ctx.notes['scenarios_from_repository_tests'] = len(scs)
    ctx.notes['distinct_nontrivial'] = nontrivial
    ctx.notes['scenarios_from_tlc_universe'] = n_tlc
    ctx.notes['facet_matrix_scenarios_without_facet_basis'] = dropped
    ctx.notes['model_drift'] = ctx.clause_counts.get('ModelDrift', 0)
    return ctx.finish(rule=RULE, assumptions=[
        'meshes have no unused vertices and are manifold; the connectivity tables t, t2e, t2f reported by the mesh are '
        'taken as the mesh connectivity (they are the subject of C11)',
        'signatures with edge DOFs below 3-D or facet DOFs in 1-D are not constructed (the numbering code ignores them '
        'and no exported element declares them)',
        'DOF locations are judged only where the element gives reference locations that are dyadic (exact) or '
        'multiples of 1/12 (fixed-point, tolerance 2^-40 in the specification)',
        'TLC 1.8.0 and the CommunityModules Json module are trusted'],
        exhaustive=False)


def replay(ctx, doc):
    sc = doc['scenario']
    if sc.get('recipe', {}).get('driver') == 'model':
        ctx.model_must_hold('MC_C04', 'MC_C04.cfg', env={'OUT_FILE': '', 'TIER': ctx.tier}, timeout=1500)
        return ctx.finish(rule=RULE)
    if sc.get('recipe', {}).get('driver') == 'suite':
        # recorded from a repository test: the recorded event itself is re-validated (the test is named in the recipe)
        ctx.validate('TraceC04', [sc])
        return ctx.finish(rule=RULE)
    ctx.validate('TraceC04', [scenario(sc['id'], sc['recipe'])])
    return ctx.finish(rule=RULE)
