"""pytest plugin (lives in /verif, loaded with `-p harness.suite_plugin`): runs the repository's own tests under
recording wrappers and writes one JSON document with the recorded events (the CCF idea: the suite already exercises
hundreds of meshes and refinements; its assertions are weak, the specification's are not).

Recorded (bounded in size, de-duplicated):
  * every mesh on which `refined()` is called: the abstract mesh before / after  (-> C12 / C13 clauses)
  * every small mesh whose facets table is built: the connectivity tables          (-> C11 clauses)
  * every DOF numbering built on a small mesh: the DOF tables                        (-> C04 clauses)
  * every boundary-condition split of a small system: sparsity structure + index sets (-> C05, re-driven exactly)
Environment: SUITE_OUT = output path, SUITE_MAX_CELLS (default 64), SKFEM_VERIF=1 must be set (guard).
"""
import hashlib
import json
import logging
import os

import numpy as np

OUT = os.environ.get('SUITE_OUT')
MAXC = int(os.environ.get('SUITE_MAX_CELLS', '64'))
ENABLED = bool(OUT) and os.environ.get('SKFEM_VERIF') == '1'
_events = {'refine': [], 'conn': [], 'dofs': [], 'bc': []}
_seen = set()
_depth = [0]


def _key(*arrays):
    h = hashlib.sha1()
    for a in arrays:
        h.update(np.ascontiguousarray(a).tobytes())
    return h.hexdigest()


def pytest_configure(config):
    if not ENABLED:
        return
    import skfem
    from skfem.mesh.mesh import Mesh
    from harness.project import conn_event, kind_of, find_scale, NVERT, KIND
    from harness.refine_common import abstract, LogCapture, warn_flags

    orig_refined = Mesh.refined

    def refined(self, times_or_ix=1):
        if _depth[0] > 0 or type(self).__name__ not in KIND or self.t.shape[1] > MAXC:
            return orig_refined(self, times_or_ix)
        _depth[0] += 1
        cap = LogCapture()
        logger = logging.getLogger('skfem')
        logger.addHandler(cap)
        try:
            out = orig_refined(self, times_or_ix)
        finally:
            logger.removeHandler(cap)
            _depth[0] -= 1
        try:
            uniform = isinstance(times_or_ix, int)
            nv = NVERT[kind_of(self)]
            if out.t.shape[1] <= 8 * MAXC and (not uniform or times_or_ix == 1) and 'DG' not in type(self).__name__:
                k = _key(self.p, self.t, np.asarray(times_or_ix))
                if ('r', k) not in _seen and len(_events['refine']) < 400:
                    _seen.add(('r', k))
                    sc = find_scale(out.p[:, :int(np.max(out.t[:nv])) + 1])
                    pre = abstract(self, sc) if sc else None
                    post = abstract(out, sc) if sc else None
                    if pre is not None and post is not None:
                        marked = [] if uniform else [int(v) + 1 for v in np.unique(np.asarray(times_or_ix).ravel())]
                        _events['refine'].append({
                            'a': 'Refine' if uniform else 'Adapt', 'op': 'refine' if uniform else 'adapt', 'err': '',
                            'k': int(times_or_ix) if uniform else 0, 'marked': marked,
                            'warned_s': warn_flags(cap.records)[0],
                            'warned_b': warn_flags(cap.records)[1],
                            'pre': pre, 'post': post, 'test': os.environ.get('PYTEST_CURRENT_TEST', '')[:120]})
        except Exception:          # recording must never disturb the test
            pass
        return out

    Mesh.refined = refined

    orig_init_facets = Mesh._init_facets

    def _init_facets(self):
        orig_init_facets(self)
        try:
            if _depth[0] == 0 and type(self).__name__ in KIND and 'DG' not in type(self).__name__ \
                    and self.t.shape[1] <= 4 * MAXC and len(_events['conn']) < 600:
                k = _key(self.t)
                if ('c', k) not in _seen:
                    _seen.add(('c', k))
                    _depth[0] += 1
                    try:
                        ev = conn_event(self, with_coords=False)
                    finally:
                        _depth[0] -= 1
                    ev['test'] = os.environ.get('PYTEST_CURRENT_TEST', '')[:120]
                    _events['conn'].append(ev)
        except Exception:
            pass

    Mesh._init_facets = _init_facets
    # MeshHex1 overrides _init_facets: wrap it as well
    from skfem.mesh.mesh_hex_1 import MeshHex1
    orig_hex = MeshHex1._init_facets

    def _init_facets_hex(self):
        orig_hex(self)
        try:
            if _depth[0] == 0 and self.t.shape[1] <= 4 * MAXC and len(_events['conn']) < 600 \
                    and type(self).__name__ in KIND:
                k = _key(self.t)
                if ('c', k) not in _seen:
                    _seen.add(('c', k))
                    _depth[0] += 1
                    try:
                        ev = conn_event(self, with_coords=False)
                    finally:
                        _depth[0] -= 1
                    ev['test'] = os.environ.get('PYTEST_CURRENT_TEST', '')[:120]
                    _events['conn'].append(ev)
        except Exception:
            pass

    MeshHex1._init_facets = _init_facets_hex


    # every DOF numbering built by the tests on a small mesh (-> C04 clauses)
    from skfem.assembly.dofs import Dofs
    from harness.dofs_common import number_event
    orig_dofs_init = Dofs.__init__

    def dofs_init(self, topo, element, offset=0):
        orig_dofs_init(self, topo, element, offset)
        try:
            if _depth[0] == 0 and offset == 0 and type(topo).__name__ in KIND and 'DG' not in type(topo).__name__ \
                    and topo.t.shape[1] <= MAXC // 2 and len(_events['dofs']) < 400:
                k = (_key(topo.t), type(element).__name__, repr(getattr(element, 'dofnames', '')))
                if ('d',) + k not in _seen:
                    _seen.add(('d',) + k)
                    _depth[0] += 1
                    try:
                        ev = number_event(topo, element, self)
                    finally:
                        _depth[0] -= 1
                    ev['test'] = os.environ.get('PYTEST_CURRENT_TEST', '')[:120]
                    ev['elem'] = type(element).__name__
                    _events['dofs'].append(ev)
        except Exception:
            pass

    Dofs.__init__ = dofs_init


    # every boundary-condition split the tests ask for on a small system: sparsity structure and index sets only
    # (-> C05: re-driven with integer entries on the recorded structure, harness/props/c05.py)
    import scipy.sparse as sp
    import skfem.utils as su
    orig_init_bc = su._init_bc

    def _init_bc(A, b=None, x=None, I=None, D=None):
        out = orig_init_bc(A, b, x, I, D)
        try:
            n = A.shape[0]
            if n <= int(os.environ.get("SUITE_MAX_BC", "90")) and A.shape[0] == A.shape[1] and len(_events['bc']) < 200:
                C = sp.csr_matrix(A)
                bo, xo, Io, Do = out
                hasb = 0 if b is None else (2 if sp.issparse(b) else 1)
                k = _key(C.indptr, C.indices, np.asarray(Io), np.asarray(Do), np.array([hasb, int(x is not None)]))
                if ('b', k) not in _seen:
                    _seen.add(('b', k))
                    ev = {'n': int(n), 'ptr': [int(v) for v in C.indptr], 'idx': [int(v) for v in C.indices],
                          'I': [int(v) for v in np.asarray(Io).ravel()], 'D': [int(v) for v in np.asarray(Do).ravel()],
                          'given': 'I' if I is not None else 'D', 'hasb': hasb, 'hasx': int(x is not None),
                          'test': os.environ.get('PYTEST_CURRENT_TEST', '')[:120]}
                    if hasb == 2:
                        B = sp.csr_matrix(b)
                        ev['Bptr'] = [int(v) for v in B.indptr]
                        ev['Bidx'] = [int(v) for v in B.indices]
                    _events['bc'].append(ev)
        except Exception:
            pass
        return out

    su._init_bc = _init_bc


def pytest_sessionfinish(session, exitstatus):
    if ENABLED:
        with open(f'{OUT}.{os.getpid()}.json', 'w') as f:
            json.dump(_events, f)
