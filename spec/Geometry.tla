------------------------------ MODULE Geometry ------------------------------
(* Exact integer geometry on points with integer coordinates (tuples).        *)
(* Everything is "measure times d!" so that no division is needed:            *)
(*   segment -> length, triangle -> 2*area, tetrahedron -> 6*volume.           *)
(* 32-bit safety: callers keep |coordinate| <= 10^4 in 2-D and <= 200 in 3-D   *)
(* (the harness checks this before it logs integer coordinates).               *)
(* Local vertex orders are those of skfem/refdom.py (1-based here):            *)
(*   quad : cyclic 1-2-3-4;  hex : see RefHexOff in MC_Universe;               *)
(*   wedge: bottom triangle 1-2-3, top triangle 4-5-6 (i above i-3).           *)
EXTENDS Prelude

VSub(a, b)   == [i \in DOMAIN a |-> a[i] - b[i]]
VAdd(a, b)   == [i \in DOMAIN a |-> a[i] + b[i]]
VScale(k, a) == [i \in DOMAIN a |-> k * a[i]]
RECURSIVE VSumSeq(_)
VSumSeq(ps)  == IF Len(ps) = 1 THEN ps[1] ELSE VAdd(ps[1], VSumSeq(Tail(ps)))

Det2(a, b)    == a[1] * b[2] - a[2] * b[1]
Det3(a, b, c) == a[1] * (b[2] * c[3] - b[3] * c[2])
               - a[2] * (b[1] * c[3] - b[3] * c[1])
               + a[3] * (b[1] * c[2] - b[2] * c[1])
\* determinant of a d x d integer matrix given as a sequence of rows (d = 1, 2, 3)
DetRows(M) == CASE Len(M) = 1 -> M[1][1]
                [] Len(M) = 2 -> Det2(M[1], M[2])
                [] Len(M) = 3 -> Det3(M[1], M[2], M[3])

\* signed measure * d! of the simplex spanned by the point sequence ps (d + 1 points in dimension d)
SimplexVol(ps) ==
  CASE Len(ps) = 2 /\ Len(ps[1]) = 1 -> ps[2][1] - ps[1][1]
    [] Len(ps) = 3 /\ Len(ps[1]) = 2 -> Det2(VSub(ps[2], ps[1]), VSub(ps[3], ps[1]))
    [] Len(ps) = 4 /\ Len(ps[1]) = 3 -> Det3(VSub(ps[2], ps[1]), VSub(ps[3], ps[1]), VSub(ps[4], ps[1]))

Pick(ps, ix) == [i \in DOMAIN ix |-> ps[ix[i]]]

\* 2 * signed area of the polygon 1-2-3-4 (shoelace)
QuadVol(ps) == SimplexVol(Pick(ps, <<1, 2, 3>>)) + SimplexVol(Pick(ps, <<1, 3, 4>>))
\* 6 * volume of a hexahedron / prism with planar faces through a fixed decomposition into simplices that is
\* deliberately NOT the one used by to_meshtet: hexahedron = the six Kuhn simplices around the body diagonal
\* 1-8 (paths 1 -> a -> b -> 8 along edges), prism = <<1,2,3,6>> + pyramid over the quadrilateral 1-2-5-4.
HexSplit   == << <<1,2,5,8>>, <<1,2,6,8>>, <<1,3,5,8>>, <<1,3,7,8>>, <<1,4,6,8>>, <<1,4,7,8>> >>
WedgeSplit == << <<1,2,3,6>>, <<1,2,5,6>>, <<1,5,4,6>> >>

\* |measure| * d! of a cell given its points in the code's local order
CellVolAbs(kind, ps) ==
  CASE kind \in {"line", "tri", "tet"} -> Abs(SimplexVol(ps))
    [] kind = "quad"  -> Abs(QuadVol(ps))
    [] kind = "hex"   -> SumSeq([i \in 1..6 |-> Abs(SimplexVol(Pick(ps, HexSplit[i])))])
    [] kind = "wedge" -> SumSeq([i \in 1..3 |-> Abs(SimplexVol(Pick(ps, WedgeSplit[i])))])
\* sign of the Jacobian determinant of a simplex (MeshSimplex.orientation)
CellSign(kind, ps) == Sgn(SimplexVol(ps))

\* a cell is degenerate if its measure vanishes
NonDegenerate(kind, ps) == CellVolAbs(kind, ps) > 0

\* side of the point x relative to the oriented hyperplane through the d points fs (dimension d): -1, 0, 1
Side(fs, x) == Sgn(SimplexVol(Append(fs, x)))

\* n * centroid of n points (no division)
CentroidTimesN(S) == VSumSeq(SetToSeq(S))

\* image of a point under an integer affine map  x |-> A x + b  (A: sequence of rows)
Dot(a, b) == SumSeq([i \in DOMAIN a |-> a[i] * b[i]])
Affine(A, b, x) == [i \in DOMAIN x |-> Dot(A[i], x) + b[i]]
IdentityRows(d) == [i \in 1..d |-> [j \in 1..d |-> IF i = j THEN 1 ELSE 0]]
==============================================================================
