"""Projection of tagged meshes to the abstract mesh of spec/Tags.tla (shared by C17 and C18).

Pure change of representation: index arrays -> 1-based id lists, facet ids -> the vertex tuples the code's own
`facets` table gives for them, orientation flags -> the owner cell `f2t[ori, facet]`, coordinates -> exact scaled
integers or (when not dyadic) opaque bit patterns of the float64 values.  No comparison, no tolerance.
"""
import contextlib
import io
import zlib

import numpy as np

from .project import KIND, NVERT


def kind_of(mesh):
    return KIND.get(type(mesh).__name__, 'other')


# ---------------------------------------------------------------- numbers

def bits3(x):
    """float64 -> three non-negative ints < 2^22 (22 + 21 + 21 bits of the IEEE pattern): exact, equality only."""
    u = int(np.float64(x).view(np.uint64))
    return [u >> 42, (u >> 21) & 0x1FFFFF, u & 0x1FFFFF]


def common_scale(arrays, maxpow=12, maxabs=2**20):
    """Smallest power of two that makes every entry of every array an integer of modulus < maxabs, or None."""
    arrays = [np.asarray(a, dtype=np.float64) for a in arrays]
    if any(not np.isfinite(a).all() for a in arrays):
        return None
    for k in range(maxpow + 1):
        s = 2 ** k
        if all(np.array_equal(a * s, np.rint(a * s)) and (np.abs(a * s) < maxabs).all() for a in arrays):
            return s
    return None


def points_enc(ps, scale):
    """list of coordinate arrays (dim x n) -> list of point lists; ints when a common scale exists, else bit triples."""
    out = []
    for p in ps:
        p = np.asarray(p, dtype=np.float64)
        if scale:
            q = np.rint(p * scale).astype(np.int64)
            out.append([[int(x) for x in col] for col in q.T])
        else:
            out.append([[bits3(x) for x in col] for col in p.T])
    return out


def values_enc_pair(a, b):
    """Two arrays (user data before / after) -> same representation for both: ints if all values of both are
    integers of modulus < 2^31, otherwise bit patterns of float64(value)."""
    fa = [np.asarray(x).ravel() for x in (a, b)]
    ok = all(x.dtype.kind in 'iub' or (x.dtype.kind == 'f' and np.isfinite(x).all()
                                       and np.array_equal(x, np.rint(x)) and (np.abs(x) < 2**31 - 1).all())
             for x in fa)
    if ok:
        ok = all((np.abs(x.astype(np.float64)) < 2**31 - 1).all() for x in fa)
    if ok:
        return [[int(v) for v in x] for x in fa]
    return [[bits3(v) for v in x.astype(np.float64)] for x in fa]


def crc(*arrays):
    """31-bit checksum of dtype, shape and bytes of arrays (None allowed)."""
    h = 0
    for a in arrays:
        if a is None:
            h = zlib.crc32(b'None', h)
            continue
        a = np.asarray(a)
        h = zlib.crc32(str((a.dtype.str, a.shape)).encode(), h)
        h = zlib.crc32(np.ascontiguousarray(a).tobytes(), h)
    return int(h >> 1)


def mesh_checksums(mesh):
    """[crc(p), crc(t), crc of every tag array and its orientation array, in name order]."""
    out = [crc(mesh.doflocs), crc(mesh.t)]
    for d in (mesh._subdomains, mesh._boundaries):
        if d is None:
            out.append(crc(None))
            continue
        out.append(len(d))
        for name in sorted(d):
            v = d[name]
            out.append(crc(np.asarray(v), getattr(v, 'ori', None)))
    return out


# ---------------------------------------------------------------- tags

def _id1(i):
    i = int(i)
    return i + 1 if i >= 0 else 0


def tag_records(mesh):
    """sub / bnd records of Tags.tla for the tags the mesh carries (index arrays as the code holds them)."""
    nf = int(mesh.facets.shape[1])
    facets, f2t = mesh.facets, mesh.f2t
    sub, bnd = [], []
    for name, ix in (mesh._subdomains or {}).items():
        sub.append({'name': str(name), 'ids': [_id1(i) for i in np.asarray(ix).ravel()]})
    for name, ix in (mesh._boundaries or {}).items():
        raw = np.asarray(ix).ravel()
        ori = getattr(ix, 'ori', None)
        ori = [0] * len(raw) if ori is None else [int(o) for o in np.asarray(ori).ravel()]
        fv, own = [], []
        for j, f in enumerate(raw):
            f = int(f)
            if 0 <= f < nf:
                fv.append([int(v) + 1 for v in facets[:, f]])
                o = ori[j] if j < len(ori) else 0
                own.append(_id1(f2t[o, f]) if o in (0, 1) else 0)
            else:
                fv.append([])
                own.append(0)
        bnd.append({'name': str(name), 'ids': [_id1(f) for f in raw], 'fv': fv, 'ori': ori, 'own': own})
    return {'nf': nf, 'hass': 0 if mesh._subdomains is None else 1, 'hasb': 0 if mesh._boundaries is None else 1,
            'sub': sub, 'bnd': bnd}


def mesh_am(mesh, pts, with_nodes=False):
    """Abstract mesh record.  `pts` = encoded points of mesh.doflocs (see points_enc)."""
    kind = kind_of(mesh)
    nv = NVERT.get(kind, mesh.t.shape[0])
    rec = {'kind': kind, 'cls': type(mesh).__name__, 'p': pts,
           't': [[int(v) + 1 for v in col] for col in mesh.t[:nv].T]}
    rec.update(tag_records(mesh))
    if with_nodes:
        rec['nv'] = int(np.max(mesh.t[:nv]) + 1)
        rec['tt'] = [[int(v) + 1 for v in col] for col in mesh.dofs.element_dofs.T]
    return rec


def conn_tables(mesh):
    return {'ok': 1, 't2f': [[int(f) + 1 for f in col] for col in mesh.t2f.T],
            'f2t': [[_id1(k) for k in col] for col in mesh.f2t.T]}


@contextlib.contextmanager
def quiet():
    """meshio prints warnings through rich; keep the check's output clean."""
    import logging
    buf = io.StringIO()
    lvl = logging.root.manager.disable
    logging.disable(logging.CRITICAL)
    try:
        with contextlib.redirect_stdout(buf), contextlib.redirect_stderr(buf):
            yield
    finally:
        logging.disable(lvl)
