"""C16 - threaded assembly equals serial assembly under every schedule.

M : spec/AssemblyThreads.tla (PlusCal): every interleaving of the workers' Read/Write steps for local shapes up to 3x3
    and thread counts 1..NU*NV+2; invariants ChunksPartitionPairs, SingleWriter, SharedInputsUnchanged,
    NoFlattenBeforeJoin, EachPairOnce, EqualsSerial; liveness Terminates.  Three named deviations (no join, private copy
    of data, chunking that drops the remainder) must be refuted (sensitivity of the invariants).
R : spec/MC_C16_sched.tla exports EVERY interleaving (behaviour) for the small shapes; each is forced onto the real
    BilinearForm(nthreads=k).assemble: all kernel invocations block inside the integrand callback and a controller
    releases exactly the worker the schedule names (no hook in the library is needed).  Larger shapes: random schedules.
V : the recorded kernel enter/exit/return log, the assembled data, the serial data and operand checksums are validated
    by spec/TraceC16.tla (property-level clauses only; the observed distribution of pairs over threads is compared with
    numpy's array_split chunks of the model and reported as drift, not judged).
"""
import json
import os
import re
import struct
import threading
import time
import zlib

import numpy as np

from ..core import MachineryError

RULE = ('scenario = (element pair giving the local shape NU x NV, thread count, one schedule = sequence of worker '
        'indices, each occurrence advancing that worker by one Read or Write step; optional stall point). The schedule is '
        'forced onto the real assembler. Non-trivial = at least two workers own a pair; distinct = distinct '
        '(shape, nthreads, schedule, stall).')

SHAPES = {
    # name: (mesh factory, trial element, test element)  -> NU = trial.Nbfun, NV = test.Nbfun
    '1x1': ('tri', 'ElementTriP0', 'ElementTriP0'),
    '1x3': ('tri', 'ElementTriP0', 'ElementTriP1'),
    '3x1': ('tri', 'ElementTriP1', 'ElementTriP0'),
    '2x2': ('line', 'ElementLineP1', 'ElementLineP1'),
    '2x3': ('line', 'ElementLineP1', 'ElementLineP2'),
    '3x2': ('line', 'ElementLineP2', 'ElementLineP1'),
    '3x3': ('tri', 'ElementTriP1', 'ElementTriP1'),
    '3x6': ('tri', 'ElementTriP1', 'ElementTriP2'),
    '4x4': ('quad', 'ElementQuad1', 'ElementQuad1'),
    # edge-midpoint rule: the three vertex functions of P2 VANISH at every quadrature point while their gradients do not
    # (a kernel that skips "zero" functions by looking at values only gets the gradient terms wrong)
    '6x6': ('tri-mid', 'ElementTriP2', 'ElementTriP2'),
    '6x3': ('tri-mid', 'ElementTriP2', 'ElementTriP1'),
}
_BASES = {}


def bases(shape):
    import skfem as fem
    if shape not in _BASES:
        kind, eu, ev = SHAPES[shape]
        mesh = {'tri': lambda: fem.MeshTri().refined(1), 'line': lambda: fem.MeshLine(np.linspace(0, 1, 4)),
                'quad': lambda: fem.MeshQuad().refined(1), 'tri-mid': lambda: fem.MeshTri()}[kind]()
        kw = {'intorder': 3}
        if kind == 'tri-mid':
            kw = {'quadrature': (np.array([[0.5, 0.5, 0.0], [0.0, 0.5, 0.5]]), np.full(3, 1.0 / 6.0))}
        ub = fem.Basis(mesh, getattr(fem, eu)(), **kw)
        vb = fem.Basis(mesh, getattr(fem, ev)(), **kw)
        _BASES[shape] = (ub, vb)
    return _BASES[shape]


def f64_limbs(a):
    """Bit pattern of each float64 as three integers (22 + 21 + 21 bits): exact, comparison by equality in TLC."""
    out = []
    a = np.asarray(a)
    if a.dtype.kind == 'c':
        a = np.stack((a.real, a.imag), axis=-1)                        # complex: real and imaginary bit patterns
    for v in np.asarray(a, dtype=np.float64).ravel():
        (q,) = struct.unpack('<Q', struct.pack('<d', float(v)))
        out.append([int(q >> 42), int((q >> 21) & 0x1FFFFF), int(q & 0x1FFFFF)])
    return out


def checksum(arrays):
    c = 0
    for a in arrays:
        c = zlib.crc32(np.ascontiguousarray(a).tobytes(), c)
    return [int(c >> 16), int(c & 0xFFFF)]


def operand_arrays(ub, vb, coef):
    arrs = [ub.dx, coef]
    for bas in (ub, vb):
        for fields in bas.basis:
            for f in fields:
                for x in f.astuple if hasattr(f, 'astuple') else ():
                    if isinstance(x, np.ndarray):
                        arrs.append(x)
        arrs.append(bas.element_dofs)
    return arrs


_CURRENT = [None]
_FORMS = {}
_LATE = {'on': False, 'ev': None}


def _dispatch(u, v, w):
    return _CURRENT[0].form(u, v, w)


def persistent_form(nthreads, cplx):
    """ONE BilinearForm object per (thread count, dtype), reused across all scenarios (shapes): a form object that
    keeps state between assemblies (cached chunking, cached parameters) is exercised by the scenario stream itself."""
    import skfem as fem
    key = (nthreads, cplx)
    if key not in _FORMS:
        kw = {'dtype': np.complex128} if cplx else {}
        _FORMS[key] = fem.BilinearForm(_dispatch, nthreads=nthreads, **kw)
    return _FORMS[key]


def install_delayed_threads():
    """Worker threads created by the assembler can be held at the very beginning of run() until the caller reaches
    join() ('late start' schedules).  Installed from the harness on the module attribute; no source hook."""
    import skfem.assembly.form.bilinear_form as bf
    if getattr(bf.Thread, '_verif_delayed', False):
        return

    class DelayedThread(threading.Thread):
        _verif_delayed = True

        def run(self):
            ev = _LATE['ev']
            if _LATE['on'] and ev is not None:
                ev.wait(1.0)
            super().run()

        def join(self, timeout=None):
            ev = _LATE['ev']
            if ev is not None:
                ev.set()
            return super().join(timeout)

    bf.Thread = DelayedThread


class Gate:
    """Forces an interleaving onto the worker threads from inside the integrand callback."""

    def __init__(self, ub, vb):
        self.cv = threading.Condition()
        self.uid = {id(ub.basis[j][0]): j for j in range(ub.Nbfun)}
        self.vid = {id(vb.basis[i][0]): i for i in range(vb.Nbfun)}
        self.phase = {}        # thread -> 'entry' | 'inside' | 'running'
        self.pair = {}
        self.go_entry = set()
        self.go_inside = set()
        self.rank = {}
        self.log = []
        self.free = False
        self.cplx = False

    @staticmethod
    def wsig(w):
        """State of the shared parameter dictionary as seen by a kernel: key list and checksum of the values."""
        keys = sorted(w.keys())
        arrs = []
        for k in keys:
            val = w[k]
            for x in (val.astuple if hasattr(val, 'astuple') else (val,)):
                if isinstance(x, np.ndarray):
                    arrs.append(x)
        return [','.join(keys)] + checksum(arrs)

    def form(self, u, v, w):
        th = threading.current_thread()
        i, j = self.vid[id(v)], self.uid[id(u)]
        with self.cv:
            self.pair[th] = (i, j)
            self.phase[th] = 'entry'
            self.cv.notify_all()
            while not self.free and th not in self.go_entry:
                self.cv.wait()
            self.go_entry.discard(th)
            self.log.append(['enter', self.rank.get(th, 0), i + 1, j + 1] + self.wsig(w))
            self.phase[th] = 'inside'
            self.cv.notify_all()
        val = u * v.grad[0] * w['c'] + 3. * u * v                      # non-symmetric, reads the shared dictionary
        if self.cplx:
            val = val * (1.0 + 2.0j) + 0.5j * u * v
        with self.cv:
            while not self.free and th not in self.go_inside:
                self.cv.wait()
            self.go_inside.discard(th)
            self.log.append(['exit', self.rank.get(th, 0), i + 1, j + 1] + self.wsig(w))
            self.phase[th] = 'running'
            self.cv.notify_all()
        return val


def _thread_no(th):
    m = re.search(r'(\d+)', th.name)
    return int(m.group(1)) if m else 0


def run_schedule(shape, nthreads, schedule, stall=0, timeout=6.0, cplx=False, late=False):
    """Force `schedule` (list of 1-based worker indices) onto BilinearForm(nthreads).assemble.  Returns the event."""
    import skfem as fem
    ub, vb = bases(shape)
    coef = ub.interpolate(np.arange(1, ub.N + 1, dtype=np.float64) / 4.0) if False else \
        np.linspace(1.0, 2.0, ub.dx.size).reshape(ub.dx.shape)
    NU, NV = ub.Nbfun, vb.Nbfun
    ev = {'a': 'ThreadedRun', 'shape': shape, 'NU': NU, 'NV': NV, 'NTH': nthreads, 'sched': list(schedule),
          'stall': stall, 'err': ''}
    # serial reference (same callback, no gating)
    fkw = {'dtype': np.complex128} if cplx else {}
    g0 = Gate(ub, vb)
    g0.free = True
    g0.cplx = cplx
    serial = fem.BilinearForm(g0.form, **fkw)._assemble(ub, vb, c=coef)
    before = checksum(operand_arrays(ub, vb, coef))
    ev['ssig'] = g0.log[0][4:7] if g0.log else ['', 0, 0]       # the parameter dictionary as serial assembly sees it

    gate = Gate(ub, vb)
    gate.cplx = cplx
    out = {}

    install_delayed_threads()
    _LATE['on'] = bool(late)
    _LATE['ev'] = threading.Event()
    _CURRENT[0] = gate
    form = persistent_form(nthreads, cplx)

    def asm():
        try:
            out['res'] = form._assemble(ub, vb, c=coef)
        except BaseException as exc:          # observation
            out['err'] = type(exc).__name__
        with gate.cv:
            gate.log.append(['return', 0, 0, 0, '', 0, 0])
            gate.cv.notify_all()

    at = threading.Thread(target=asm, name='asm-main')
    t_end = time.time() + timeout
    at.start()
    expected = min(nthreads, NU * NV)
    with gate.cv:
        # wait until the workers have arrived at their first kernel (or assemble already returned)
        last, stable_since = -1, time.time()
        while True:
            n = sum(1 for p in gate.phase.values() if p == 'entry')
            if n != last:
                last, stable_since = n, time.time()
            if n >= expected or not at.is_alive() or time.time() - stable_since > 0.3 or time.time() > t_end:
                break
            gate.cv.wait(0.002)
        ths = sorted(gate.phase, key=_thread_no)
        for r, th in enumerate(ths, 1):
            gate.rank[th] = r
        by_rank = {r: th for th, r in gate.rank.items()}
        stalled = False
        for pos, w in enumerate(schedule, 1):
            th = by_rank.get(w)
            if th is None or not th.is_alive() or time.time() > t_end:
                continue
            ph = gate.phase.get(th)
            if ph == 'entry':
                gate.go_entry.add(th)
                gate.cv.notify_all()
                while gate.phase.get(th) == 'entry' and th.is_alive() and time.time() < t_end:
                    gate.cv.wait(0.002)
            elif ph == 'inside':
                if stall and pos >= stall and not stalled:
                    # stall: hold this kernel; a correct assembler cannot return meanwhile
                    stalled = True
                    t_s = time.time() + 0.05
                    while at.is_alive() and time.time() < t_s:
                        gate.cv.wait(0.005)
                gate.go_inside.add(th)
                gate.cv.notify_all()
                # wait until the thread has written its slot: it re-enters a kernel, or ends.  A thread that keeps
                # running without doing either (e.g. the caller's own thread waiting in join) is not waited for.
                t_w = time.time() + 0.25
                while gate.phase.get(th) in ('inside', 'running') and th.is_alive() and time.time() < min(t_end, t_w):
                    gate.cv.wait(0.0005)
        gate.free = True
        gate.cv.notify_all()
    # the controlled phase is over (every kernel runs freely now): a correct assembler finishes within milliseconds;
    # the generous bound only guards against a genuine hang and is independent of machine load during the forced phase
    at.join(60.0)
    if at.is_alive():
        ev['err'] = 'Timeout'
        with gate.cv:
            gate.free = True
            gate.cv.notify_all()
        at.join(5)
    elif 'err' in out:
        ev['err'] = out['err']
    after = checksum(operand_arrays(ub, vb, coef))
    ev['log'] = [list(x) for x in gate.log]
    ev['before'], ev['after'] = before, after
    if 'res' in out:
        idx, data, shp, lshp = out['res']
        ev['rows'] = [int(v) for v in idx[0]]
        ev['cols'] = [int(v) for v in idx[1]]
        ev['data'] = f64_limbs(data)
        ev['shp'] = [int(shp[0]), int(shp[1])]
    else:
        ev.update(rows=[], cols=[], data=[], shp=[0, 0])
    ev['srows'] = [int(v) for v in serial[0][0]]
    ev['scols'] = [int(v) for v in serial[0][1]]
    ev['sdata'] = f64_limbs(serial[1])
    ev['cplx'] = int(cplx)
    ev['sshp'] = [int(serial[2][0]), int(serial[2][1])]
    return ev


_TIMEOUTS = [0]


def execute(rec):
    if _TIMEOUTS[0] >= 5:
        # the assembler hangs under forced schedules: do not spend the budget on more of the same
        return []
    ev = run_schedule(rec['shape'], rec['nthreads'], rec['sched'], rec.get('stall', 0), cplx=bool(rec.get('cplx')),
                      late=bool(rec.get('late')))
    if ev['err'] == 'Timeout':
        _TIMEOUTS[0] += 1
    return [ev]


def scenario(sid, rec):
    return {'id': sid, 'recipe': rec, 'tags': {'shape': rec['shape'], 'nthreads': rec['nthreads'],
                                               'family': rec.get('family', 'random')}, 'events': execute(rec)}


# ---------------------------------------------------------------- model checking
CFG = """SPECIFICATION Spec
CONSTANTS NU={NU} NV={NV} NTH={NTH} JOIN={JOIN} PRIVATE={PRIVATE} DROPREM={DROPREM}
INVARIANT ChunksPartitionPairs
INVARIANT SingleWriter
INVARIANT SharedInputsUnchanged
INVARIANT NoFlattenBeforeJoin
INVARIANT EachPairOnce
INVARIANT EqualsSerial
{LIVE}
CHECK_DEADLOCK FALSE
"""


def model(ctx):
    thorough = ctx.tier == 'thorough'
    shapes = [(1, 1), (1, 3), (2, 2), (2, 3), (3, 2), (3, 3)]
    n = 0
    jobs = []
    for (NU, NV) in shapes:
        npairs = NU * NV
        for nth in range(1, npairs + 3):
            active = min(nth, npairs)
            if not thorough and active > 5:
                continue                                   # 5 active workers: ~10^5 states; more only in thorough
            if thorough and active > 7:
                continue
            live = 'PROPERTY Terminates' if active <= 4 else ''
            cfg = os.path.join(ctx.scratch, f'c16_{NU}x{NV}_{nth}.cfg')
            open(cfg, 'w').write(CFG.format(NU=NU, NV=NV, NTH=nth, JOIN='TRUE', PRIVATE='FALSE', DROPREM='FALSE',
                                            LIVE=live))
            jobs.append((cfg, f'{NU}x{NV} nthreads={nth}'))
            n += 1
    from concurrent.futures import ThreadPoolExecutor
    with ThreadPoolExecutor(max_workers=6) as ex:
        list(ex.map(lambda a: ctx.model_must_hold('AssemblyThreads', a[0], timeout=1800, label=a[1], workers=3,
                                                  xmx='2g'), jobs))
    # sensitivity: the three named deviations must be refuted
    refuted = {}
    for name, kw in (('no_join', dict(JOIN='FALSE', PRIVATE='FALSE', DROPREM='FALSE')),
                     ('private_copy', dict(JOIN='TRUE', PRIVATE='TRUE', DROPREM='FALSE')),
                     ('drop_remainder', dict(JOIN='TRUE', PRIVATE='FALSE', DROPREM='TRUE'))):
        cfg = os.path.join(ctx.scratch, f'c16_dev_{name}.cfg')
        open(cfg, 'w').write(CFG.format(NU=2, NV=3, NTH=4, LIVE='', **kw))
        r = ctx.tlc_model('AssemblyThreads', cfg, timeout=600, label=f'named deviation {name} (must be refuted)')
        refuted[name] = r['violated']
    ctx.notes['named_deviations_refuted'] = refuted
    if not all(refuted.values()):
        raise MachineryError(f'the C16 model does not refute a named deviation: {refuted}')
    ctx.notes['model_configs'] = n


def export_schedules(ctx):
    out = os.path.join(ctx.scratch, 'c16_sched.json')
    ctx.tlc_model('MC_C16_sched', 'MC_C16_sched.cfg', timeout=900, workers=1, env={'OUT_FILE': out,
                  'C16_LEVEL': ctx.tier}, label='export of all interleavings for replay')
    recs = []
    shape_name = {(1, 1): '1x1', (1, 3): '1x3', (3, 1): '3x1', (2, 2): '2x2', (2, 3): '2x3', (3, 2): '3x2', (3, 3): '3x3'}
    for s in json.load(open(out)):
        recs.append({'driver': 'threads', 'shape': shape_name[(s['NU'], s['NV'])], 'nthreads': s['NTH'],
                     'sched': s['sched'], 'stall': 0, 'family': 'TLC-behaviours'})
    return recs


def random_schedules(tier, seed):
    rng = np.random.default_rng(seed + 16)
    recs = []
    n = 1500 if tier == 'thorough' else 150
    names = list(SHAPES)
    for k in range(n):
        shape = names[k % len(names)]
        NU, NV = [int(v) for v in shape.split('x')]
        npairs = NU * NV
        nth = int(rng.integers(1, npairs + 3))
        q, r = divmod(npairs, nth)
        counts = [2 * (q + (1 if w < r else 0)) for w in range(nth)]
        toks = [w + 1 for w, c in enumerate(counts) for _ in range(c)]
        sched = [int(v) for v in rng.permutation(toks)]
        stall = int(rng.integers(1, len(sched) + 1)) if k % 3 == 0 else 0
        recs.append({'driver': 'threads', 'shape': shape, 'nthreads': nth, 'sched': sched, 'stall': stall,
                     'family': 'random', 'cplx': int(k % 5 == 4), 'late': int(k % 4 == 1)})
    return recs


def run(ctx):
    model(ctx)
    recs = export_schedules(ctx)
    n_tlc = len(recs)
    # stall variants of a sample of the TLC behaviours
    rng = np.random.default_rng(ctx.seed + 17)
    for j in rng.choice(n_tlc, size=min(n_tlc, 300 if ctx.tier == 'thorough' else 60), replace=False):
        r = dict(recs[int(j)])
        r['stall'] = int(rng.integers(1, max(2, len(r['sched']))))
        r['family'] = 'TLC-behaviours+stall'
        recs.append(r)
    recs += random_schedules(ctx.tier, ctx.seed)
    scs = [scenario(f'C16-{k}', rec) for k, rec in enumerate(recs)]
    ctx.validate('TraceC16', scs)
    keys = {json.dumps([r['shape'], r['nthreads'], r['sched'], r['stall']]) for r in recs
            if min(r['nthreads'], int(r['shape'][0]) * int(r['shape'][2])) >= 2}
    ctx.notes['distinct_nontrivial'] = len(keys)
    ctx.notes['schedules_from_tlc_behaviours'] = n_tlc
    return ctx.finish(rule=RULE, assumptions=[
        'interleavings are controlled at kernel granularity: a worker is held at the entry of the integrand callback '
        '(before it reads the operands) and inside it (before the result is written); finer interleavings of numpy '
        'internals are not controlled',
        'worker identity = start order of the threads that invoke a kernel',
        'CPython threading; results compared bit-for-bit with serial assembly of the same callback'],
        exhaustive=False)


def replay(ctx, doc):
    sc = doc['scenario']
    ctx.validate('TraceC16', [scenario(sc['id'], sc['recipe'])])
    return ctx.finish(rule=RULE)
