"""Meshes reached through OPERATION HISTORIES from the default constructors, and same-object histories.

A mesh spec is pure JSON:
  {'kind': final kind, 'start': {...}, 'ops': [[name, args...], ...], 'touch': [[name, args...], ...]}
start:  {'pt': [p, t], 'kind': k, 'ctor': 'default' | 'nosort'}         cells as handed to the constructor
        {'init': 'default' | 'tensor' | 'sqsymmetric', 'kind': k, 'axes': [...]}  the library's own constructors
ops:    applied in sequence, each returns a NEW mesh (refined, refined_marked, restrict, remove_elements, mirrored,
        plus_translated, scaled, translated, to_meshtri, to_meshtri_x, to_meshtet, oriented, with_boundaries,
        remove_duplicate_nodes, curved)
touch:  same-object history: a basis is built on the mesh (caches filled), then these operations are called ON the
        mesh and their results are DISCARDED; the mesh object itself is what the caller keeps using.
Cell index arguments are taken modulo the current number of cells.  Input construction only."""
from dataclasses import replace

import numpy as np

from . import universe as U

SECOND = {'tri': 'MeshTri2', 'quad': 'MeshQuad2', 'tet': 'MeshTet2', 'hex': 'MeshHex2'}


def _start(st):
    import skfem
    kind = st['kind']
    if 'pt' in st:
        p = np.array(st['pt'][0], dtype=np.float64)
        t = np.array(st['pt'][1], dtype=np.int64)
        if kind == 'tri' and st.get('ctor') == 'nosort':
            return skfem.MeshTri(p, t, sort_t=False)
        return U.make(kind, p, t)
    cls = U.mesh_class(kind)
    if st['init'] == 'default':
        return cls()
    if st['init'] == 'sqsymmetric':
        return cls.init_sqsymmetric()
    if st['init'] == 'tensor':
        if kind == 'line':
            return cls(np.array(st['axes'][0], dtype=np.float64))
        return cls.init_tensor(*[np.array(a, dtype=np.float64) for a in st['axes']])
    raise ValueError(st)


def _cells(m, ix):
    nt = m.t.shape[1]
    return np.unique(np.array(ix, dtype=np.int64) % nt)


def apply_op(m, op):
    name, args = op[0], op[1:]
    dim = m.p.shape[0]
    if name == 'refined':
        return m.refined(int(args[0]))
    if name == 'refined_marked':
        return m.refined(_cells(m, args[0]))
    if name == 'restrict':
        return m.restrict(_cells(m, args[0]))
    if name == 'remove_elements':
        return m.remove_elements(_cells(m, args[0]))
    if name == 'mirrored':
        nrm = [0.] * dim
        nrm[int(args[0]) % dim] = 1.
        return m.mirrored(tuple(nrm))
    if name == 'plus_translated':
        d = [0.] * dim
        d[int(args[0]) % dim] = float(args[1])
        return m + m.translated(tuple(d))
    if name == 'scaled':
        f = [1.] * dim
        f[int(args[0]) % dim] = float(args[1])
        return m.scaled(tuple(f))
    if name == 'translated':
        d = [0.] * dim
        d[int(args[0]) % dim] = float(args[1])
        return m.translated(tuple(d))
    if name == 'to_meshtri':
        return m.to_meshtri()
    if name == 'to_meshtri_x':
        return m.to_meshtri(style='x')
    if name == 'to_meshtet':
        return m.to_meshtet()
    if name == 'oriented':
        return m.oriented()
    if name == 'with_boundaries':
        return m.with_boundaries({'lo': lambda x: x[0] == x[0].min()})
    if name == 'remove_duplicate_nodes':
        return m.remove_duplicate_nodes()
    if name == 'element_finder':
        return m.element_finder()
    if name == 'boundary_queries':
        return (m.boundary_facets(), m.boundary_nodes(), m.interior_nodes())
    if name == 'use':                           # USE the mesh (instantiates mapping, entities, finder ...) and keep it
        import skfem
        from skfem.assembly import Basis, FacetBasis
        el = m.elem()
        Basis(m, el)
        if dim > 1 and type(m).__name__ != 'MeshWedge1':
            FacetBasis(m, el)
            m.facets_satisfying(lambda x: x[0] <= x[0].max(), normal=np.array([1.] + [0.] * (dim - 1)))
        m.element_finder()(*[np.array([float(v)]) for v in m.p[:, m.t[:, 0]].mean(axis=1)])
        if hasattr(m, 'orientation') and dim > 1:
            m.orientation()
        m.boundary_nodes()
        return m
    if name == 'morphed':                       # shear:  x_a += k * x_b
        a, b_, k = int(args[0]) % dim, int(args[1]) % dim, float(args[2])
        funs = [None] * dim
        funs[a] = (lambda q: q[a] + k * q[b_])
        return m.morphed(*funs)
    if name == 'curved':                        # second-order mesh with displaced mid nodes
        import skfem
        kind = {'MeshTri1': 'tri', 'MeshQuad1': 'quad', 'MeshTet1': 'tet', 'MeshHex1': 'hex'}[type(m).__name__]
        m2 = getattr(skfem, SECOND[kind]).from_mesh(m)
        d = m2.doflocs.copy()
        nv = m.p.shape[1]
        off = np.random.default_rng(int(args[0])).integers(-1, 2, size=(d.shape[0], d.shape[1] - nv)) / float(args[1])
        d[:, nv:] += off
        return replace(m2, doflocs=d)
    raise ValueError(name)


def build(spec):
    m = _start(spec['start'])
    for op in spec.get('ops', []):
        m = apply_op(m, op)
    return m


def touch(m, spec, warm):
    """Same-object history: `warm(m)` uses the mesh (fills its caches), then every operation of spec['touch'] is
    called on m and its result discarded.  Exceptions of the discarded calls are not this property's concern."""
    ops = spec.get('touch', [])
    if not ops:
        return
    warm(m)
    for op in ops:
        try:
            apply_op(m, op)
        except Exception:
            pass


def from_pt(kind, p, t, ctor='default', **kw):
    spec = {'kind': kind, 'start': {'kind': kind, 'ctor': ctor,
                                    'pt': [np.asarray(p).astype(int).tolist(), np.asarray(t).astype(int).tolist()]},
            'ops': [], 'touch': []}
    spec.update(kw)
    return spec
