------------------------------- MODULE Numeric -------------------------------
(* The numeric layer of the scikit-fem specification (mode L oracles).        *)
(*                                                                             *)
(*  Part 1  fixed-point helpers on top of Fx (full product FxMul, scaling)     *)
(*  Part 2  reference cells: exact monomial moments RefMoment(cell, alpha)     *)
(*          produced directly as Fx limb vectors, measures, monomial sets,     *)
(*          named tolerances                                   (C08, C02)      *)
(*  Part 3  small exact rationals <<n, d>> and the same closed forms as        *)
(*          rationals (design-level cross-checks, reference element tables)    *)
(*  Part 4  exact integrals of monomials over straight cells / facets with     *)
(*          integer vertices (multinomial simplex formula), over boxes; exact  *)
(*          measures                                              (C02)        *)
(*  Part 5  polynomials in barycentric coordinates, Lagrange bases in          *)
(*          Silvester's product form, exact local mass / stiffness / load      *)
(*          entries of P0-P2 on affine simplices                  (C02)        *)
(*                                                                             *)
(* All operators keep every intermediate below 2^31 on the stated domains.     *)
EXTENDS Prelude, Fx, GeomNum

\* ===========================================================================
\* Part 1 -- fixed point
\* ===========================================================================

\* one unit in the last place (2^-56) times k
FxUlp(k) == <<0, 0, 0, 0, k>>

\* carry propagation for a limb vector of any length (least significant limb first)
RECURSIVE NormLimbs(_, _, _)
NormLimbs(a, i, carry) ==
  IF i = 1 THEN [a EXCEPT ![1] = a[1] + carry]
  ELSE LET v == a[i] + carry
           q == v \div B
       IN NormLimbs([a EXCEPT ![i] = v - q * B], i - 1, q)

\* full product of two Fx numbers in normal form, |a[1]|, |b[1]| <= 2^13.
\* schoolbook: position p (weight B^(1-p)) collects a[i]*b[j] with i+j-1 = p; every partial
\* sum is below 5*2^28 < 2^31.  Positions 6..9 are carried into position 5 and dropped (floor):
\* the result is below the exact product by less than one unit of 2^-56.
RECURSIVE ConvSum(_, _, _, _, _)
ConvSum(a, b, p, i, hi) == IF i > hi THEN 0 ELSE a[i] * b[p + 1 - i] + ConvSum(a, b, p, i + 1, hi)
FxMul(a, b) ==
  LET raw == [p \in 1..(2 * NL - 1) |-> ConvSum(a, b, p, Max2(1, p + 1 - NL), Min2(NL, p))]
      n   == NormLimbs(raw, 2 * NL - 1, 0)
  IN [p \in 1..NL |-> n[p]]
FxSq(a) == FxMul(a, a)
FxMulOK(a) == a[1] \in -8192..8192

\* sum / dot products of short sequences of Fx numbers
FxDot(u, v) == FxSumSeq([i \in DOMAIN u |-> FxMul(u[i], v[i])])

\* a / 2^k for small k (k <= 14)
FxHalve(a, k) == FxDivSmall(a, 2 ^ k)

\* an exact integer n/scale given as an integer numerator with a power-of-two (or small) scale
FxOfScaled(n, scale) == FxRat(n, scale)

\* ===========================================================================
\* Part 2 -- reference cells
\* ===========================================================================
CellKinds == {"point", "line", "tri", "quad", "tet", "hex", "wedge"}
CellDim(kind) == CASE kind = "point" -> 0 [] kind = "line" -> 1 [] kind \in {"tri", "quad"} -> 2 [] OTHER -> 3

\* --- exact moments as limb vectors -----------------------------------------
\* x * k / d with x <= 1, k <= 2^15 : one short multiplication, one short division
MulDiv(x, k, d) == FxDivSmall(FxMulSmall(x, k), d)

\* TLC passes operator arguments lazily; a recursion that only threads an accumulator through builds a chain
\* of nested thunks whose evaluation overflows the Java stack.  Looking at the accumulator in the guard of
\* every level evaluates it there (Seen(x) is TRUE for every number in normal form).
Seen(x) == x[NL] >= 0

\* x * a! / ((s+1)(s+2)...(s+a))   by a steps  x := x * k / (s + k)   (each factor <= 1, so the
\* absolute error grows by at most one unit of 2^-56 per step)
RECURSIVE FactRatio(_, _, _, _)
FactRatio(x, s, a, k) == IF ~Seen(x) \/ k > a THEN x ELSE FactRatio(MulDiv(x, k, s + k), s, a, k + 1)

\* x / ((s+1)(s+2)...(s+d))
RECURSIVE DivRun(_, _, _, _)
DivRun(x, s, d, k) == IF ~Seen(x) \/ k > d THEN x ELSE DivRun(FxDivSmall(x, s + k), s, d, k + 1)

\* integral of x^alpha over the unit simplex of dimension Len(alpha):  alpha! / (|alpha| + d)!
RECURSIVE SimplexRun(_, _, _, _)
SimplexRun(x, s, alpha, i) ==
  IF ~Seen(x) \/ i > Len(alpha) THEN DivRun(x, s, Len(alpha), 1)
  ELSE SimplexRun(FactRatio(x, s, alpha[i], 1), s + alpha[i], alpha, i + 1)
SimplexMoment(alpha) == SimplexRun(FxInt(1), 0, alpha, 1)

\* integral over the unit box: product of 1/(a_i + 1)
RECURSIVE BoxRun(_, _, _)
BoxRun(x, alpha, i) == IF ~Seen(x) \/ i > Len(alpha) THEN x ELSE BoxRun(FxDivSmall(x, alpha[i] + 1), alpha, i + 1)
BoxMoment(alpha) == BoxRun(FxInt(1), alpha, 1)

RefMoment(kind, alpha) ==
  CASE kind = "point" -> FxInt(1)
    [] kind \in {"line", "quad", "hex"} -> BoxMoment(alpha)
    [] kind \in {"tri", "tet"} -> SimplexMoment(alpha)
    [] kind = "wedge" -> FxDivSmall(SimplexMoment(<<alpha[1], alpha[2]>>), alpha[3] + 1)

\* number of divisions in RefMoment = bound (in units of 2^-56) of the oracle's own truncation error
RefMomentUlps(kind, alpha) == SumSeq(alpha) + 2 * Len(alpha) + 2

ZeroAlpha(kind) == [i \in 1..CellDim(kind) |-> 0]
RefMeasure(kind) == RefMoment(kind, ZeroAlpha(kind))
\* 1 / measure, an integer for every reference cell
RefMeasureInv(kind) == CASE kind \in {"tri", "wedge"} -> 2 [] kind = "tet" -> 6 [] OTHER -> 1

\* --- which monomials a rule of order n has to integrate exactly --------------
\* total degree <= n on simplices and on the prism, degree <= n per direction on tensor-product cells
Tuples(d, n) == [1..d -> 0..n]
MonomialOK(kind, n, alpha) ==
  CASE kind = "point" -> TRUE
    [] kind \in {"line", "quad", "hex"} -> \A i \in DOMAIN alpha : alpha[i] <= n
    [] kind \in {"tri", "tet"} -> SumSeq(alpha) <= n
    \* prism: only what the statement says for every cell -- total degree <= n.  (The library's rule, triangle x segment,
    \* also integrates degree <= n in the plane times degree <= n along the axis; a rule of total degree n that is
    \* not such a product would be just as good, so the larger set is not demanded.)
    [] kind = "wedge" -> SumSeq(alpha) <= n
Monomials(kind, n) == {alpha \in Tuples(CellDim(kind), Max2(n, 0)) : MonomialOK(kind, Max2(n, 0), alpha)}
NumMonomials(kind, n) ==
  LET m == Max2(n, 0) IN
  CASE kind = "point" -> 1
    [] kind = "line" -> m + 1
    [] kind = "quad" -> (m + 1) * (m + 1)
    [] kind = "hex"  -> (m + 1) * (m + 1) * (m + 1)
    [] kind = "tri"  -> ((m + 1) * (m + 2)) \div 2
    [] kind \in {"tet", "wedge"} -> ((m + 1) * (m + 2) * (m + 3)) \div 6

\* --- tolerances (named; absolute, resolution 2^-56) ---------------------------
\* quadrature sums: 2^-42 of the cell measure (+ the oracle's own truncation)
TolQuadBits == 42
TolQuad(kind) == FxAdd(FxDivSmall(FxTol(TolQuadBits), RefMeasureInv(kind)), FxUlp(64))
\* a node may violate an in-cell inequality by table round-off only (observed: never; 2^-42 = the level at which the
\* rules themselves are judged -- a boundary node that is tabulated as -1e-15 is a rounded table, not a misplaced node)
TolNode == FxTol(42)
\* sums / pairings of assembled numbers (relative to a stated integer scale)
\* (2^-37: the worst round-off observed on the unchanged tree is between 2^-48 and 2^-47 of the magnitude -- per-cell
\* values on the graded 2116-cell mesh -- so the safety factor is >= 1000; the smallest effect of a wrong weight,
\* determinant or order is > 2^-20 of the magnitude)
TolSum  == FxTol(37)
\* maps, Jacobians, normals
TolGeom == FxTol(36)

\* ===========================================================================
\* Part 3 -- small exact rationals <<n, d>>, d > 0, reduced
\* ===========================================================================
RECURSIVE Gcd(_, _)
Gcd(a, b) == IF b = 0 THEN Abs(a) ELSE Gcd(b, a % b)
QNorm(n, d) == LET g == Gcd(Abs(n), Abs(d)) s == IF d < 0 THEN -1 ELSE 1
               IN IF g = 0 THEN <<0, 1>> ELSE <<s * (n \div g), s * (d \div g)>>
Q(n, d)    == QNorm(n, d)
QInt(n)    == <<n, 1>>
\* cross-reduce first so that intermediates stay small
QMul(x, y) == LET g1 == Gcd(Abs(x[1]), y[2]) g2 == Gcd(Abs(y[1]), x[2])
                  h1 == IF g1 = 0 THEN 1 ELSE g1  h2 == IF g2 = 0 THEN 1 ELSE g2
              IN QNorm((x[1] \div h1) * (y[1] \div h2), (x[2] \div h2) * (y[2] \div h1))
QAdd(x, y) == LET g == Gcd(x[2], y[2]) IN QNorm(x[1] * (y[2] \div g) + y[1] * (x[2] \div g), (x[2] \div g) * y[2])
QNeg(x)    == <<-x[1], x[2]>>
QSub(x, y) == QAdd(x, QNeg(y))
QInv(x)    == QNorm(x[2], x[1])
QDiv(x, y) == QMul(x, QInv(y))
QLeq(x, y) == QSub(y, x)[1] >= 0
RECURSIVE QSumSeq(_)
QSumSeq(s) == IF s = <<>> THEN QInt(0) ELSE QAdd(Head(s), QSumSeq(Tail(s)))
\* accumulating sums (the accumulator is looked at on every level, see Seen below: no nested thunks)
RECURSIVE QSumRun(_, _, _, _)
QSumRun(acc, s, k, n) == IF acc[2] <= 0 \/ k > n THEN acc ELSE QSumRun(QAdd(acc, s[k]), s, k + 1, n)
QSumAll(s) == LET t == SubSeq(s, 1, Len(s)) IN QSumRun(QInt(0), t, 1, Len(t))
RECURSIVE ISumRun(_, _, _, _)
ISumRun(acc, s, k, n) == IF acc < -2147483647 \/ k > n THEN acc ELSE ISumRun(acc + s[k], s, k + 1, n)
ISumAll(s) == LET t == SubSeq(s, 1, Len(s)) IN ISumRun(0, t, 1, Len(t))
RECURSIVE QPow(_, _)
QPow(x, k) == IF k = 0 THEN QInt(1) ELSE QMul(x, QPow(x, k - 1))
\* rational -> fixed point (|n| < 2^30, d <= 2^16)
FxOfQ(x) == FxRat(x[1], x[2])

RECURSIVE Fact(_)
Fact(n) == IF n <= 1 THEN 1 ELSE n * Fact(n - 1)
Binom(n, k) == IF k < 0 \/ k > n THEN 0 ELSE
               LET RECURSIVE Bn(_) Bn(j) == IF j = 0 THEN 1 ELSE (Bn(j - 1) * (n - j + 1)) \div j IN Bn(k)

\* the same closed forms as reduced rationals (small exponents only)
RECURSIVE QFactRatio(_, _, _, _)
QFactRatio(x, s, a, k) == IF k > a THEN x ELSE QFactRatio(QMul(x, Q(k, s + k)), s, a, k + 1)
RECURSIVE QDivRun(_, _, _, _)
QDivRun(x, s, d, k) == IF k > d THEN x ELSE QDivRun(QMul(x, Q(1, s + k)), s, d, k + 1)
RECURSIVE QSimplexRun(_, _, _, _)
QSimplexRun(x, s, alpha, i) ==
  IF i > Len(alpha) THEN QDivRun(x, s, Len(alpha), 1)
  ELSE QSimplexRun(QFactRatio(x, s, alpha[i], 1), s + alpha[i], alpha, i + 1)
QSimplexMoment(alpha) == QSimplexRun(QInt(1), 0, alpha, 1)
RECURSIVE QBoxRun(_, _, _)
QBoxRun(x, alpha, i) == IF i > Len(alpha) THEN x ELSE QBoxRun(QMul(x, Q(1, alpha[i] + 1)), alpha, i + 1)
QBoxMoment(alpha) == QBoxRun(QInt(1), alpha, 1)
QRefMoment(kind, alpha) ==
  CASE kind = "point" -> QInt(1)
    [] kind \in {"line", "quad", "hex"} -> QBoxMoment(alpha)
    [] kind \in {"tri", "tet"} -> QSimplexMoment(alpha)
    [] kind = "wedge" -> QMul(QSimplexMoment(<<alpha[1], alpha[2]>>), Q(1, alpha[3] + 1))

\* ===========================================================================
\* Part 4 -- exact integrals of monomials over cells with integer vertices
\* ===========================================================================
\* x^alpha as a product of q = |alpha| coordinate functions: the sequence of their coordinate indices
RECURSIVE Repeat(_, _)
Repeat(x, n) == IF n = 0 THEN <<>> ELSE <<x>> \o Repeat(x, n - 1)
MonoFactors(alpha) == FlattenSeq([c \in DOMAIN alpha |-> Repeat(c, alpha[c])])
ProdFact(counts) == LET RECURSIVE P(_) P(i) == IF i > Len(counts) THEN 1 ELSE Fact(counts[i]) * P(i + 1) IN P(1)

\* On a simplex with vertices v_1..v_m every coordinate function is  sum_i lambda_i v_i[c].  Expanding the
\* product of the q coordinate functions over all maps s : factors -> vertices and integrating
\*   int lambda^beta = k! |T| beta! / (|beta| + k)!            (k = m - 1)
\* gives   int_T x^alpha = Jac / (q + k)! * SimplexMonoSum   with Jac = k! |T|  and
\*   SimplexMonoSum = sum_s  prod_f v_s(f)[c_f] * beta(s)!        (an integer)
RECURSIVE MonoSumRec(_, _, _, _)
MonoSumRec(vs, cs, f, counts) ==
  IF f > Len(cs) THEN ProdFact(counts)
  ELSE SumSeq([i \in 1..Len(vs) |->
                 IF vs[i][cs[f]] = 0 THEN 0
                 ELSE vs[i][cs[f]] * MonoSumRec(vs, cs, f + 1, [counts EXCEPT ![i] = @ + 1])])
SimplexMonoSum(vs, alpha) == MonoSumRec(vs, MonoFactors(alpha), 1, [i \in 1..Len(vs) |-> 0])

\* integral of x^alpha over one simplex (integer vertices), as a limb vector: Jac * Sum / (q + k)!
SimplexIntegralFx(vs, alpha) ==
  FxMulSmall(FxRat(SimplexMonoSum(vs, alpha), Fact(SumSeq(alpha) + Len(vs) - 1)), SimplexJac(vs))
RECURSIVE FxSumRun(_, _, _)
FxSumRun(acc, s, k) == IF ~Seen(acc) \/ k > Len(s) THEN acc ELSE FxSumRun(FxAdd(acc, s[k]), s, k + 1)
FxSumAll(s) == FxSumRun(FxZero, SubSeq(s, 1, Len(s)), 1)
\* over a union of simplices
SimplicesIntegralFx(S, alpha) == FxSumAll([s \in DOMAIN S |-> SimplexIntegralFx(S[s], alpha)])
CellIntegralFx(kind, vs, alpha)  == SimplicesIntegralFx(CellSimplices(kind, vs), alpha)
FacetIntegralFx(vs, alpha)       == SimplicesIntegralFx(FacetSimplices(vs), alpha)
\* k! * measure of a union of simplices (integer)
SimplicesJac(S) == ISumAll([s \in DOMAIN S |-> SimplexJac(S[s])])

\* x / scale^n for a power-of-two scale (scale^n <= 2^16 on the universes)
Unscale(x, scale, n) == IF scale = 1 THEN x ELSE FxDivSmall(x, scale ^ n)

\* integral of x^alpha over the axis-parallel box [lo, hi] (integer corners):
\*   prod_c (hi_c^(a_c+1) - lo_c^(a_c+1)) / prod_c (a_c + 1)
BoxIntegralNum(lo, hi, alpha) ==
  LET RECURSIVE P(_) P(c) == IF c > Len(alpha) THEN 1
                             ELSE (hi[c] ^ (alpha[c] + 1) - lo[c] ^ (alpha[c] + 1)) * P(c + 1) IN P(1)
BoxIntegralDen(alpha) == LET RECURSIVE P(_) P(c) == IF c > Len(alpha) THEN 1 ELSE (alpha[c] + 1) * P(c + 1) IN P(1)
BoxIntegralFx(lo, hi, alpha) == FxRat(BoxIntegralNum(lo, hi, alpha), BoxIntegralDen(alpha))

\* tolerance TolSum times a (possibly large) integer magnitude bound K < 2^27
TolScaled(tol, K) == IF K <= 4096 THEN FxMulSmall(tol, Max2(K, 1))
                     ELSE FxMulSmall(FxMulSmall(tol, (K \div 4096) + 1), 4096)
RECURSIVE IPow(_, _)
IPow(b, n) == IF n = 0 THEN 1 ELSE b * IPow(b, n - 1)

\* ===========================================================================
\* Part 5 -- Lagrange bases on the reference simplex, exact element matrices
\* ===========================================================================
\* A polynomial in the barycentric coordinates lambda_1..lambda_m is a sequence of terms <<coef, beta>>,
\* coef an integer, beta \in [1..m -> Nat].  (lambda_1 = 1 - sum xi, lambda_(a+1) = xi_a.)
PTerm(c, beta) == <<c, beta>>
PConst(m, c)   == << PTerm(c, [i \in 1..m |-> 0]) >>
PMul(p, q) == FlattenSeq([i \in DOMAIN p |-> [j \in DOMAIN q |->
                 PTerm(p[i][1] * q[j][1], [k \in DOMAIN p[i][2] |-> p[i][2][k] + q[j][2][k]])]])
\* k * lambda_i - r
PLin(m, i, k, r) == IF r = 0 THEN << PTerm(k, [j \in 1..m |-> IF j = i THEN 1 ELSE 0]) >>
                    ELSE << PTerm(k, [j \in 1..m |-> IF j = i THEN 1 ELSE 0]), PTerm(-r, [j \in 1..m |-> 0]) >>
\* d/d lambda_i
PDeriv(p, i) == SelectSeq([t \in DOMAIN p |-> PTerm(p[t][1] * p[t][2][i], [p[t][2] EXCEPT ![i] = IF @ > 0 THEN @ - 1 ELSE 0])],
                          LAMBDA t : t[1] # 0)
\* int over the reference simplex of dimension d = m - 1 :  beta! / (|beta| + d)!
PIntegral(p) ==
  QSumAll([t \in DOMAIN p |-> Q(p[t][1] * ProdFact(p[t][2]), Fact(SumSeq(p[t][2]) + Len(p[t][2]) - 1))])

\* Silvester: the Lagrange function of degree deg at the node with barycentric numerators node (sum = deg) is
\*    prod_i prod_{r < node_i} (deg * lambda_i - r) / (r + 1)
\* returned as [num |-> integer polynomial, den |-> prod node_i!]
RECURSIVE SilvesterRun(_, _, _, _, _)
SilvesterRun(p, m, deg, node, ir) ==      \* ir = <<i, r>>
  LET i == ir[1] r == ir[2] IN
  IF i > m THEN p
  ELSE IF r >= node[i] THEN SilvesterRun(p, m, deg, node, <<i + 1, 0>>)
  ELSE SilvesterRun(PMul(p, PLin(m, i, deg, r)), m, deg, node, <<i, r + 1>>)
Lagrange(deg, node) == [num |-> SilvesterRun(PConst(Len(node), 1), Len(node), deg, node, <<1, 0>>),
                        den |-> ProdFact(node)]
\* the nodes of the Lagrange element of degree deg on the simplex with m vertices
LagrangeNodes(m, deg) == {node \in [1..m -> 0..deg] : SumSeq(node) = deg}

\* reference integrals (rationals)
RefMass(deg, ni, nj) == LET a == Lagrange(deg, ni) b == Lagrange(deg, nj)
                        IN QMul(PIntegral(PMul(a.num, b.num)), Q(1, a.den * b.den))
RefLoad(deg, ni)     == LET a == Lagrange(deg, ni) IN QMul(PIntegral(a.num), Q(1, a.den))
\* int (d phi_i / d lambda_r)(d phi_j / d lambda_s)
RefGrad(deg, ni, nj, r, s) == LET a == Lagrange(deg, ni) b == Lagrange(deg, nj)
                              IN QMul(PIntegral(PMul(PDeriv(a.num, r), PDeriv(b.num, s))), Q(1, a.den * b.den))

\* det * grad(lambda_i) on the affine simplex vs (integer vectors): rows of the adjugate
DetGradLambda(vs) ==
  LET d == Len(vs) - 1
      e == [a \in 1..d |-> VSub(vs[a + 1], vs[1])]
      g == CASE d = 1 -> << <<1>> >>
             [] d = 2 -> << <<e[2][2], -e[2][1]>>, <<-e[1][2], e[1][1]>> >>
             [] d = 3 -> << Cross3(e[2], e[3]), Cross3(e[3], e[1]), Cross3(e[1], e[2]) >>
      g0 == VNeg(IF d = 1 THEN g[1] ELSE IF d = 2 THEN VAdd(g[1], g[2]) ELSE VAdd(g[1], VAdd(g[2], g[3])))
  IN <<g0>> \o g

\* exact local entries on the affine simplex vs (as limb vectors; every denominator is below 2^16)
LocalMassFx(vs, deg, ni, nj) == FxMulSmall(FxOfQ(RefMass(deg, ni, nj)), Abs(SimplexDet(vs)))
LocalLoadFx(vs, deg, ni)     == FxMulSmall(FxOfQ(RefLoad(deg, ni)), Abs(SimplexDet(vs)))
\* sum_{r,s} (g_r . g_s) int d_r phi_i d_s phi_j / |det|
LocalLaplaceQ(vs, deg, ni, nj) ==
  LET g == DetGradLambda(vs) m == Len(vs) IN
  QMul(QSumAll(FlattenSeq([r \in 1..m |-> [s \in 1..m |->
         QMul(QInt(VDot(g[r], g[s])), RefGrad(deg, ni, nj, r, s))]])), Q(1, Abs(SimplexDet(vs))))
LocalLaplaceFx(vs, deg, ni, nj) == FxOfQ(LocalLaplaceQ(vs, deg, ni, nj))
==============================================================================
