------------------------------ MODULE ArraySplit ------------------------------
(* numpy.array_split(indices, nth) over the local index pairs in the code's    *)
(* product order (bilinear_form.py:99-112), parameterised so that the PlusCal   *)
(* model, the schedule export and the trace specification share one definition. *)
EXTENDS Prelude

\* indices = [[i, j] for j, i in product(range(NU), range(NV))]   (1-based here)
PairAtP(nv, q)   == [i |-> ((q - 1) % nv) + 1, j |-> ((q - 1) \div nv) + 1]
PairsP(nu, nv)   == [q \in 1..(nu * nv) |-> PairAtP(nv, q)]
\* the first (np % nth) chunks have np \div nth + 1 rows, the others np \div nth (possibly 0)
ChunkLenP(np, nth, w)   == (np \div nth) + (IF w <= np % nth THEN 1 ELSE 0)
ChunkStartP(np, nth, w) == SumOver([v \in 1..nth |-> ChunkLenP(np, nth, v)], 1..(w - 1))
ChunksP(nu, nv, nth) ==
  [w \in 1..nth |-> [c \in 1..ChunkLenP(nu * nv, nth, w) |-> PairsP(nu, nv)[ChunkStartP(nu * nv, nth, w) + c]]]
==============================================================================
