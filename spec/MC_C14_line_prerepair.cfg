SPECIFICATION Spec
CONSTANT Which = "linecomp"
CONSTANT Tier = "thorough"
CONSTANT LineAlgo = "prerepair"
INVARIANT FindOKHolds
CHECK_DEADLOCK FALSE
