"""Helper: build a unified diff (patch -p1 from the repo root) from textual replacements.
usage in python:  from tools.mkmut import mk; mk('skfem/x.py', old, new, '/verif/mutants/C15/name.diff')"""
import difflib
import os


def mk(path, old, new, out, repo='/repo', append=False, count=1):
    s = open(os.path.join(repo, path)).read()
    assert old in s, f'pattern not found in {path}'
    t = s.replace(old, new, count)
    d = difflib.unified_diff(s.splitlines(True), t.splitlines(True), 'a/' + path, 'b/' + path)
    os.makedirs(os.path.dirname(out), exist_ok=True)
    with open(out, 'a' if append else 'w') as f:
        f.write(''.join(d))
